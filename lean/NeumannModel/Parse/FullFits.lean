import NeumannModel.Parse.FullTotal
import NeumannModel.Parse.FullRound
/-
  C15 — every accepted input yields a tree whose MINIMAL print fits the depth limit (complete
  expression grammar model, `Parse/Full.lean`): an invariant of the run that bounds, for every
  partial tree held in a frame, the frames its minimal print needs by the frames actually active.
  Core Lean only (no Mathlib).
-/
namespace Neumann.Parse.Full

/-- frames needed by the minimal print of `e` standing as an operand of a frame running at
    `min_bp = m` (that frame included): one more when `e` must be parenthesised -/
def need (m : Nat) (e : E) : Nat := if topBp e < m then 1 + framesMin e else framesMin e

/-- … standing as the subject of a postfix form -/
def needP (e : E) : Nat := if openEnd e then 1 + framesMin e else framesMin e

def FI (l : EL) : Nat := framesItems (fun _ => false) l
def FW (l : WL) : Nat := framesWhens (fun _ => false) l
def FO (o : OE) : Nat := framesOpt (fun _ => false) o

theorem need_le (m : Nat) (e : E) : need m e ≤ 1 + framesMin e := by unfold need; split <;> omega
theorem need_ge (m : Nat) (e : E) : framesMin e ≤ need m e := by unfold need; split <;> omega
theorem needP_le (e : E) : needP e ≤ 1 + framesMin e := by unfold needP; split <;> omega
theorem needP_ge (e : E) : framesMin e ≤ needP e := by unfold needP; split <;> omega
theorem need_zero (e : E) : need 0 e = framesMin e := by simp [need]
theorem need_of_le {m : Nat} {e : E} (h : m ≤ topBp e) : need m e = framesMin e := by
  unfold need
  have : ¬ topBp e < m := by omega
  simp only [this, if_false]
theorem needP_closed {e : E} (h : openEnd e = false) : needP e = framesMin e := by simp [needP, h]
theorem framesMin_pos (e : E) : 1 ≤ framesMin e := frames_pos _ e

theorem F_un (u : UnOp) (x : E) : framesMin (.un u x) = 1 + need PREFIX_BP x := by
  simp [framesMin, framesWith, need, wf]
theorem F_bin (l : E) (o : BinOp) (r : E) :
    framesMin (.bin l o r) = max (need (lbp o) l) (1 + need (rbp o) r) := by
  simp [framesMin, framesWith, need, wf]
theorem F_isNull (x : E) (n : Bool) : framesMin (.isNull x n) = needP x := by
  simp [framesMin, framesWith, needP, wf]
theorem F_qual (x : E) (n : Nat) : framesMin (.qual x n) = needP x := by
  simp [framesMin, framesWith, needP, wf]
theorem F_inList (x : E) (n : Bool) (l : EL) : framesMin (.inList x n l) = max (needP x) (1 + FI l) := by
  simp [framesMin, framesWith, needP, wf, FI]
theorem F_between (x : E) (n : Bool) (lo hi : E) :
    framesMin (.between x n lo hi) = max (needP x) (1 + max (need PREFIX_BP lo) (need PREFIX_BP hi)) := by
  simp [framesMin, framesWith, needP, need, wf]
theorem F_like (x : E) (n : Bool) (p : E) : framesMin (.like x n p) = max (needP x) (1 + need PREFIX_BP p) := by
  simp [framesMin, framesWith, needP, need, wf]
theorem F_call (f : Callee) (d : Bool) (l : EL) : framesMin (.call f d l) = 1 + FI l := by
  simp [framesMin, framesWith, FI]
theorem F_array (l : EL) : framesMin (.array l) = 1 + FI l := by simp [framesMin, framesWith, FI]
theorem F_tuple (a b : E) (l : EL) : framesMin (.tuple a b l) = 1 + max (framesMin a) (max (framesMin b) (FI l)) := by
  simp [framesMin, framesWith, FI, wf]
theorem F_case (op : OE) (c r : E) (l : WL) (el : OE) :
    framesMin (.case op c r l el) = 1 + max (FO op) (max (framesMin c) (max (framesMin r) (max (FW l) (FO el)))) := by
  simp [framesMin, framesWith, FO, FW, wf]
theorem FI_nil : FI .nil = 0 := rfl
theorem FI_cons (e : E) (l : EL) : FI (.cons e l) = max (framesMin e) (FI l) := by
  simp [FI, framesItems, framesMin, wf]
theorem FW_nil : FW .nil = 0 := rfl
theorem FW_cons (c r : E) (l : WL) : FW (.cons c r l) = max (framesMin c) (max (framesMin r) (FW l)) := by
  simp [FW, framesWhens, framesMin, wf]
theorem FO_none : FO .none = 0 := rfl
theorem FO_some (e : E) : FO (.some e) = framesMin e := by simp [FO, framesOpt, framesMin, wf]

theorem FI_snoc : ∀ (l : EL) (e : E), FI (l.snoc e) = max (FI l) (framesMin e)
  | .nil, e => by simp [EL.snoc, FI_cons, FI_nil]
  | .cons x l, e => by simp only [EL.snoc, FI_cons, FI_snoc l e]; omega

theorem FW_snoc : ∀ (l : WL) (c r : E), FW (l.snoc c r) = max (FW l) (max (framesMin c) (framesMin r))
  | .nil, c, r => by simp [WL.snoc, FW_cons, FW_nil]
  | .cons c0 r0 l, c, r => by simp only [WL.snoc, FW_cons, FW_snoc l c r]; omega

/-! ### redundant parentheses only add frames -/

theorem wf_mono {b : Bool} {a c : Nat} (h : a ≤ c) (b' : Bool) (hb : b = true → b' = true) : wf b a ≤ wf b' c := by
  cases b <;> cases b' <;> simp [wf] at * <;> omega

mutual
theorem frames_min_le (extra : E → Bool) : ∀ e : E, framesMin e ≤ framesWith extra e
  | .lit _ | .null | .ident _ | .kwIdent _ | .wildcard | .unit | .qualWild _ _ => by simp [framesMin, framesWith]
  | .tuple a b rest => by
      have h1 := wf_mono (frames_min_le extra a) (b := false) (extra a) (by simp)
      have h2 := wf_mono (frames_min_le extra b) (b := false) (extra b) (by simp)
      have h3 := items_min_le extra rest
      simp only [framesMin, framesWith] at *
      omega
  | .un _ x => by
      have h1 := wf_mono (frames_min_le extra x) (b := (false || decide (topBp x < PREFIX_BP)))
        (extra x || decide (topBp x < PREFIX_BP)) (by simp; exact Or.inr)
      simp only [framesMin, framesWith] at *
      omega
  | .bin l o r => by
      have h1 := wf_mono (frames_min_le extra l) (b := (false || decide (topBp l < lbp o)))
        (extra l || decide (topBp l < lbp o)) (by simp; exact Or.inr)
      have h2 := wf_mono (frames_min_le extra r) (b := (false || decide (topBp r < rbp o)))
        (extra r || decide (topBp r < rbp o)) (by simp; exact Or.inr)
      simp only [framesMin, framesWith] at *
      omega
  | .isNull x _ => by
      have h1 := wf_mono (frames_min_le extra x) (b := (false || openEnd x)) (extra x || openEnd x) (by simp; exact Or.inr)
      simp only [framesMin, framesWith] at *
      omega
  | .qual x _ => by
      have h1 := wf_mono (frames_min_le extra x) (b := (false || openEnd x)) (extra x || openEnd x) (by simp; exact Or.inr)
      simp only [framesMin, framesWith] at *
      omega
  | .inList x _ items => by
      have h1 := wf_mono (frames_min_le extra x) (b := (false || openEnd x))
        (extra x || openEnd x) (by simp; exact Or.inr)
      have h2 := items_min_le extra items
      simp only [framesMin, framesWith] at *
      omega
  | .between x _ lo hi => by
      have h1 := wf_mono (frames_min_le extra x) (b := (false || openEnd x))
        (extra x || openEnd x) (by simp; exact Or.inr)
      have h2 := wf_mono (frames_min_le extra lo) (b := (false || decide (topBp lo < PREFIX_BP)))
        (extra lo || decide (topBp lo < PREFIX_BP)) (by simp; exact Or.inr)
      have h3 := wf_mono (frames_min_le extra hi) (b := (false || decide (topBp hi < PREFIX_BP)))
        (extra hi || decide (topBp hi < PREFIX_BP)) (by simp; exact Or.inr)
      simp only [framesMin, framesWith] at *
      omega
  | .like x _ p => by
      have h1 := wf_mono (frames_min_le extra x) (b := (false || openEnd x))
        (extra x || openEnd x) (by simp; exact Or.inr)
      have h2 := wf_mono (frames_min_le extra p) (b := (false || decide (topBp p < PREFIX_BP)))
        (extra p || decide (topBp p < PREFIX_BP)) (by simp; exact Or.inr)
      simp only [framesMin, framesWith] at *
      omega
  | .call _ _ args => by
      have h := items_min_le extra args
      simp only [framesMin, framesWith] at *
      omega
  | .array items => by
      have h := items_min_le extra items
      simp only [framesMin, framesWith] at *
      omega
  | .case operand c r rest els => by
      have h1 := opt_min_le extra operand
      have h2 := wf_mono (frames_min_le extra c) (b := false) (extra c) (by simp)
      have h3 := wf_mono (frames_min_le extra r) (b := false) (extra r) (by simp)
      have h4 := whens_min_le extra rest
      have h5 := opt_min_le extra els
      simp only [framesMin, framesWith] at *
      omega
theorem items_min_le (extra : E → Bool) : ∀ l : EL, framesItems (fun _ => false) l ≤ framesItems extra l
  | .nil => by simp [framesItems]
  | .cons e l => by
      have h1 := wf_mono (frames_min_le extra e) (b := false) (extra e) (by simp)
      have h2 := items_min_le extra l
      simp only [framesMin, framesItems] at *
      omega
theorem whens_min_le (extra : E → Bool) : ∀ l : WL, framesWhens (fun _ => false) l ≤ framesWhens extra l
  | .nil => by simp [framesWhens]
  | .cons c r l => by
      have h1 := wf_mono (frames_min_le extra c) (b := false) (extra c) (by simp)
      have h2 := wf_mono (frames_min_le extra r) (b := false) (extra r) (by simp)
      have h3 := whens_min_le extra l
      simp only [framesMin, framesWhens] at *
      omega
theorem opt_min_le (extra : E → Bool) : ∀ o : OE, framesOpt (fun _ => false) o ≤ framesOpt extra o
  | .none => by simp [framesOpt]
  | .some e => by
      have h1 := wf_mono (frames_min_le extra e) (b := false) (extra e) (by simp)
      simp only [framesMin, framesOpt] at *
      omega
end

/-! ### the invariant -/

/-- the `min_bp` with which the frame called from site `k` runs -/
def retBp : K → Nat
  | .unary _ => PREFIX_BP
  | .binR _ o => rbp o
  | .betLo _ _ => PREFIX_BP
  | .betHi _ _ _ => PREFIX_BP
  | .likeP _ _ => PREFIX_BP
  | _ => 0

/-- the `min_bp` of the innermost frame -/
def topM : List Frame → Nat
  | [] => 0
  | f :: _ => retBp f.k

theorem retBp_le (k : K) : retBp k ≤ 100 := by
  cases k <;> simp only [retBp] <;> first | decide | exact rbp_le _
theorem topM_le (S : List Frame) : topM S ≤ 100 := by
  cases S with
  | nil => simp [topM]
  | cons f S => exact retBp_le _

/-- what the partial trees held at call site `k` of a frame with `d` frames below it satisfy -/
def KInv (d m : Nat) : K → Prop
  | .unary _ => True
  | .paren => True
  | .list lk acc =>
    d + 1 + FI acc ≤ MAX_DEPTH ∧
      (match lk with
       | .inl subj _ => d + needP subj ≤ MAX_DEPTH
       | _ => True)
  | .binR l o => d + need (lbp o) l ≤ MAX_DEPTH ∧ m ≤ lbp o
  | .betLo subj _ => d + needP subj ≤ MAX_DEPTH
  | .betHi subj _ lo => d + needP subj ≤ MAX_DEPTH ∧ d + 1 + need PREFIX_BP lo ≤ MAX_DEPTH
  | .likeP subj _ => d + needP subj ≤ MAX_DEPTH
  | .caseOperand => True
  | .caseCond operand acc => d + 1 + max (FO operand) (FW acc) ≤ MAX_DEPTH
  | .caseRes operand acc c => d + 1 + max (FO operand) (max (FW acc) (framesMin c)) ≤ MAX_DEPTH
  | .caseElse operand c r rest =>
    d + 1 + max (FO operand) (max (framesMin c) (max (framesMin r) (FW rest))) ≤ MAX_DEPTH

def StackInv : List Frame → Prop
  | [] => True
  | f :: S => f.m = topM S ∧ KInv S.length f.m f.k ∧ StackInv S

/-- the loop of a frame running at `min_bp = m` stops at the head of `ts` -/
def stops (m : Nat) (ts : List Tok) : Prop :=
  match loopArm ts with
  | .stop => True
  | .binary o _ => lbp o < m
  | _ => False

/-- what the loop may see next, given that `lhs` can stand at every `min_bp ≤ bnd` -/
def LoopNext (bnd d : Nat) (lhs : E) (ts : List Tok) : Prop :=
  match loopArm ts with
  | .stop => True
  | .binary o _ => lbp o ≤ bnd
  | _ => d + needP lhs ≤ MAX_DEPTH

def CtlInv (st : St) : Prop :=
  match st.ctl with
  | .start m => m = topM st.stk
  | .loop m _ lhs =>
    m = topM st.stk ∧ ∃ bnd, m ≤ bnd ∧ bnd ≤ 100 ∧
      (∀ m'', m'' ≤ bnd → st.stk.length + need m'' lhs ≤ MAX_DEPTH) ∧ LoopNext bnd st.stk.length lhs st.ts
  | .ret e => st.stk.length + need (topM st.stk) e ≤ MAX_DEPTH ∧ stops (topM st.stk) st.ts
  | .done (.ok e) => framesMin e ≤ MAX_DEPTH
  | .done _ => True

def DInv (st : St) : Prop := StackInv st.stk ∧ CtlInv st

theorem dinv_halt_err (e : Err) : DInv (fail e) := ⟨trivial, trivial⟩
theorem dinv_outside : DInv (halt .outside) := ⟨trivial, trivial⟩

theorem dinv_start {m : Nat} {S : List Frame} {ts : List Tok} (hS : StackInv S) (hm : m = topM S) :
    DInv ⟨.start m, S, ts⟩ := ⟨hS, hm⟩

theorem mk_loop {m s : Nat} {lhs : E} {S : List Frame} {ts : List Tok} (hS : StackInv S) (hm : m = topM S)
    (bnd : Nat) (h1 : m ≤ bnd) (h2 : bnd ≤ 100) (h3 : ∀ m'', m'' ≤ bnd → S.length + need m'' lhs ≤ MAX_DEPTH)
    (h4 : LoopNext bnd S.length lhs ts) : DInv ⟨.loop m s lhs, S, ts⟩ := ⟨hS, hm, bnd, h1, h2, h3, h4⟩

theorem mk_ret {e : E} {S : List Frame} {ts : List Tok} (hS : StackInv S)
    (h1 : S.length + need (topM S) e ≤ MAX_DEPTH) (h2 : stops (topM S) ts) : DInv ⟨.ret e, S, ts⟩ :=
  ⟨hS, h1, h2⟩

/-- a finished node that is not open-ended (`topBp = 100`): it can stand anywhere -/
theorem dinv_loop_closed {m s : Nat} {lhs : E} {S : List Frame} {ts : List Tok} (hS : StackInv S)
    (hm : m = topM S) (hc : openEnd lhs = false) (ht : topBp lhs = 100)
    (hF : S.length + framesMin lhs ≤ MAX_DEPTH) : DInv ⟨.loop m s lhs, S, ts⟩ := by
  refine mk_loop hS hm 100 (by rw [hm]; exact topM_le S) (Nat.le_refl _) ?_ ?_
  · intro m'' h; rw [need_of_le (by omega)]; exact hF
  · unfold LoopNext
    split
    · trivial
    · exact lbp_le _
    · rw [needP_closed hc]; exact hF

/-- a node ending in an operand at `min_bp = 19` (prefix operator, BETWEEN, LIKE) -/
theorem dinv_loop_open {m s : Nat} {lhs : E} {S : List Frame} {ts : List Tok} (hS : StackInv S)
    (hm : m = topM S) (ht : topBp lhs = 100) (hF : S.length + framesMin lhs ≤ MAX_DEPTH)
    (hst : stops PREFIX_BP ts) : DInv ⟨.loop m s lhs, S, ts⟩ := by
  refine mk_loop hS hm 100 (by rw [hm]; exact topM_le S) (Nat.le_refl _) ?_ ?_
  · intro m'' h; rw [need_of_le (by omega)]; exact hF
  · unfold LoopNext
    unfold stops at hst
    split
    · trivial
    · exact lbp_le _
    · next h1 h2 => exact absurd hst (by split <;> simp_all)

/-- an expression that used one more frame than its minimal print (`( e )`, a one-item "tuple") -/
theorem dinv_loop_paren {m s : Nat} {lhs : E} {S : List Frame} {ts : List Tok} (hS : StackInv S)
    (hm : m = topM S) (hF : S.length + 1 + framesMin lhs ≤ MAX_DEPTH) : DInv ⟨.loop m s lhs, S, ts⟩ := by
  refine mk_loop hS hm 100 (by rw [hm]; exact topM_le S) (Nat.le_refl _) ?_ ?_
  · intro m'' _; have := need_le m'' lhs; omega
  · unfold LoopNext
    split
    · trivial
    · exact lbp_le _
    · have := needP_le lhs; omega

theorem stack_push {f : Frame} {S : List Frame} (hS : StackInv S) (hm : f.m = topM S)
    (hk : KInv S.length f.m f.k) : StackInv (f :: S) := ⟨hm, hk, hS⟩

/-! ### every step preserves it -/

theorem callFrom_dinv (f : Callee) (m s : Nat) (S : List Frame) (r : List Tok) (hS : StackInv S)
    (hm : m = topM S) (hd : S.length + 1 ≤ MAX_DEPTH) : DInv (callFrom f m s S r) := by
  unfold callFrom
  refine expect_elim dinv_halt_err fun r1 _ => ?_
  simp only
  split
  · exact dinv_loop_closed hS hm rfl rfl (by rw [F_call, FI_nil]; omega)
  · exact dinv_start (stack_push hS hm ⟨by rw [FI_nil]; omega, trivial⟩) rfl

theorem caseNext_dinv (operand : OE) (acc : WL) (m s : Nat) (S : List Frame) (ts : List Tok)
    (hS : StackInv S) (hm : m = topM S) (hd : S.length + 1 + max (FO operand) (FW acc) ≤ MAX_DEPTH) :
    DInv (caseNext operand acc m s S ts) := by
  unfold caseNext
  split
  · exact dinv_start (stack_push hS hm hd) rfl
  · cases acc with
    | nil => exact dinv_halt_err _
    | cons c r rest =>
      rw [FW_cons] at hd
      simp only
      split
      · exact dinv_start (stack_push hS hm (by simp only [KInv]; omega)) rfl
      · refine expect_elim dinv_halt_err fun r' _ => ?_
        exact dinv_loop_closed hS hm rfl rfl (by rw [F_case, FO_none]; omega)

theorem prefixArm_atom {t : Tok} {e : E} (h : prefixArm t = .atom e) :
    openEnd e = false ∧ topBp e = 100 ∧ framesMin e = 1 := by
  cases t <;> simp only [prefixArm, PArm.atom.injEq, reduceCtorEq] at h <;>
    first
    | (subst h; exact ⟨rfl, rfl, rfl⟩)
    | (next o => cases o <;> simp at h)

theorem stepStart_dinv (mode : Mode) (m : Nat) (S : List Frame) (ts : List Tok) (hS : StackInv S)
    (hm : m = topM S) : DInv (stepStart mode m S ts) := by
  unfold stepStart
  split
  · exact dinv_halt_err _
  · next hd =>
    have hd' : S.length + 1 ≤ MAX_DEPTH := by omega
    cases ts with
    | nil => exact dinv_halt_err _
    | cons t r =>
      simp only
      cases ha : prefixArm t with
      | atom e =>
        obtain ⟨h1, h2, h3⟩ := prefixArm_atom ha
        exact dinv_loop_closed hS hm h1 h2 (by omega)
      | ident n =>
        simp only
        split
        · exact callFrom_dinv _ _ _ _ _ hS hm hd'
        · exact dinv_loop_closed hS hm rfl rfl (by simp [framesMin, framesWith]; omega)
      | agg n => exact callFrom_dinv _ _ _ _ _ hS hm hd'
      | wildcard => exact dinv_loop_closed hS hm rfl rfl (by simp [framesMin, framesWith]; omega)
      | paren =>
        simp only
        split
        · exact dinv_loop_closed hS hm rfl rfl (by simp [framesMin, framesWith]; omega)
        · exact dinv_start (stack_push hS hm trivial) rfl
      | bracket =>
        simp only
        split
        · exact dinv_loop_closed hS hm rfl rfl (by rw [F_array, FI_nil]; omega)
        · exact dinv_start (stack_push hS hm ⟨by rw [FI_nil]; omega, trivial⟩) rfl
      | unary u => exact dinv_start (stack_push hS hm trivial) rfl
      | caseArm =>
        simp only
        split
        · exact caseNext_dinv _ _ _ _ _ _ hS hm (by rw [FO_none, FW_nil]; omega)
        · exact dinv_start (stack_push hS hm trivial) rfl
      | existsArm =>
        cases mode with
        | stmt => exact dinv_outside
        | expr => exact expect_elim dinv_halt_err fun r' _ => dinv_halt_err _
      | castArm => cases mode <;> first | exact dinv_outside | exact dinv_halt_err _
      | unexpected => exact dinv_halt_err _

theorem loopNext_post {bnd d : Nat} {lhs : E} {ts : List Tok} (h : LoopNext bnd d lhs ts)
    (hp : ∀ o r, loopArm ts ≠ .binary o r) (hs : loopArm ts ≠ .stop) : d + needP lhs ≤ MAX_DEPTH := by
  unfold LoopNext at h
  split at h
  · next h1 => exact absurd h1 hs
  · next o r h1 => exact absurd h1 (hp o r)
  · exact h

theorem stepLoop_dinv (mode : Mode) (m s : Nat) (lhs : E) (S : List Frame) (ts : List Tok)
    (h : DInv ⟨.loop m s lhs, S, ts⟩) : DInv (stepLoop mode m s lhs S ts) := by
  obtain ⟨hS, hm, bnd, hb1, hb2, hneed, hnext⟩ := h
  simp only at hS hm hneed hnext
  have hpos := framesMin_pos lhs
  have hd1 : S.length + 1 ≤ MAX_DEPTH := by
    have := hneed m hb1
    have := need_ge m lhs
    omega
  unfold stepLoop
  cases ha : loopArm ts with
  | stop =>
    refine mk_ret hS (by rw [← hm]; exact hneed m hb1) ?_
    unfold stops; rw [ha]; trivial
  | binary o r =>
    have hlo : lbp o ≤ bnd := by unfold LoopNext at hnext; rw [ha] at hnext; exact hnext
    simp only
    split
    · next hlt =>
      refine mk_ret hS (by rw [← hm]; exact hneed m hb1) ?_
      unfold stops; rw [ha, ← hm]; exact hlt
    · next hge => exact dinv_start (stack_push hS hm ⟨hneed _ hlo, (show m ≤ lbp o by omega)⟩) rfl
  | isArm r =>
    have hp := loopNext_post hnext (by rw [ha]; simp) (by rw [ha]; simp)
    simp only
    refine expect_elim dinv_halt_err fun r' _ => ?_
    exact dinv_loop_closed hS hm rfl rfl (by rw [F_isNull]; exact hp)
  | inArm neg r =>
    have hp := loopNext_post hnext (by rw [ha]; simp) (by rw [ha]; simp)
    simp only
    refine expect_elim dinv_halt_err fun r1 _ => ?_
    split
    · exact dinv_outside
    · split
      · exact dinv_loop_closed hS hm rfl rfl (by rw [F_inList, FI_nil]; omega)
      · exact dinv_start (stack_push hS hm ⟨by rw [FI_nil]; omega, hp⟩) rfl
  | betArm neg r =>
    have hp := loopNext_post hnext (by rw [ha]; simp) (by rw [ha]; simp)
    exact dinv_start (stack_push hS hm hp) rfl
  | likeArm neg r =>
    have hp := loopNext_post hnext (by rw [ha]; simp) (by rw [ha]; simp)
    exact dinv_start (stack_push hS hm hp) rfl
  | dotArm r =>
    have hp := loopNext_post hnext (by rw [ha]; simp) (by rw [ha]; simp)
    simp only
    cases r with
    | nil => exact dinv_halt_err _
    | cons t r1 =>
      cases t <;> simp only <;> first | exact dinv_halt_err _ | skip
      · exact dinv_loop_closed hS hm rfl rfl (by rw [F_qual]; exact hp)
      · next o =>
        cases o <;> simp only <;> first | exact dinv_halt_err _ | skip
        cases lhs <;> simp only <;>
          first
          | exact dinv_halt_err _
          | exact dinv_loop_closed hS hm rfl rfl (by simp [framesMin, framesWith]; omega)

/-- what `LK.build` makes of a closed list is bounded by one frame plus its deepest item -/
theorem build_dinv {m s : Nat} {S : List Frame} {ts : List Tok} (lk : LK) (acc : EL) (hS : StackInv S)
    (hm : m = topM S) (hF : S.length + 1 + FI acc ≤ MAX_DEPTH)
    (hsub : match lk with | .inl subj _ => S.length + needP subj ≤ MAX_DEPTH | _ => True) :
    DInv ⟨.loop m s (lk.build acc), S, ts⟩ := by
  cases lk with
  | args f d => exact dinv_loop_closed hS hm rfl rfl (by simp only [LK.build]; rw [F_call]; omega)
  | arr => exact dinv_loop_closed hS hm rfl rfl (by simp only [LK.build]; rw [F_array]; omega)
  | inl subj neg =>
    simp only at hsub
    exact dinv_loop_closed hS hm rfl rfl (by simp only [LK.build]; rw [F_inList]; omega)
  | tup =>
    cases acc with
    | nil => exact dinv_loop_closed hS hm rfl rfl (by simp [LK.build, framesMin, framesWith]; omega)
    | cons a l =>
      cases l with
      | nil =>
        simp only [LK.build]
        rw [FI_cons, FI_nil] at hF
        exact dinv_loop_paren hS hm (by omega)
      | cons b r =>
        simp only [LK.build]
        rw [FI_cons, FI_cons] at hF
        exact dinv_loop_closed hS hm rfl rfl (by rw [F_tuple]; omega)

theorem stops_loopNext {b bnd d : Nat} {lhs : E} {ts : List Tok} (h : stops b ts) (hb : b ≤ bnd + 1) :
    LoopNext bnd d lhs ts := by
  unfold stops at h
  unfold LoopNext
  split
  · trivial
  · next o r h1 => rw [h1] at h; simp only at h; omega
  · next h1 h2 =>
    split at h
    · next h3 => exact absurd h3 h1
    · next o r h3 => exact absurd h3 (h2 o r)
    · exact absurd h id

theorem stepRet_dinv (e : E) (f : Frame) (S : List Frame) (ts : List Tok)
    (h : DInv ⟨.ret e, f :: S, ts⟩) : DInv (stepRet e f S ts) := by
  obtain ⟨⟨hfm, hK, hS⟩, h1, h2⟩ := h
  obtain ⟨k, fm, fs⟩ := f
  simp only [List.length_cons, topM] at hfm hK h1 h2
  have hge := need_ge (retBp k) e
  have hpos := framesMin_pos e
  unfold stepRet
  cases k with
  | unary u =>
    simp only [retBp] at h1 h2 hge
    exact dinv_loop_open hS hfm rfl (by rw [F_un]; omega) h2
  | paren =>
    simp only [retBp, need_zero] at h1
    simp only
    split
    · exact dinv_start (stack_push hS hfm ⟨by rw [FI_cons, FI_nil]; omega, trivial⟩) rfl
    · refine expect_elim dinv_halt_err fun r _ => ?_
      exact dinv_loop_paren hS hfm (by omega)
  | list lk acc =>
    simp only [retBp, need_zero] at h1
    simp only [KInv] at hK
    have hF : S.length + 1 + FI (acc.snoc e) ≤ MAX_DEPTH := by rw [FI_snoc]; omega
    simp only
    split
    · exact dinv_start (stack_push hS hfm ⟨hF, hK.2⟩) rfl
    · refine expect_elim dinv_halt_err fun r _ => ?_
      exact build_dinv lk _ hS hfm hF hK.2
  | binR l o =>
    simp only [retBp] at h1 h2
    simp only [KInv] at hK
    refine mk_loop hS hfm (lbp o) hK.2 (lbp_le o) ?_ (stops_loopNext h2 (by rw [rbp_eq]; omega))
    intro m'' hm''
    rw [need_of_le (by simp only [topBp]; exact hm''), F_bin]
    omega
  | betLo subj neg =>
    simp only [retBp] at h1
    simp only [KInv] at hK
    refine expect_elim dinv_halt_err fun r _ => ?_
    exact dinv_start (stack_push hS hfm ⟨hK, by omega⟩) rfl
  | betHi subj neg lo =>
    simp only [retBp] at h1 h2
    simp only [KInv] at hK
    exact dinv_loop_open hS hfm rfl (by rw [F_between]; omega) h2
  | likeP subj neg =>
    simp only [retBp] at h1 h2
    simp only [KInv] at hK
    exact dinv_loop_open hS hfm rfl (by rw [F_like]; omega) h2
  | caseOperand =>
    simp only [retBp, need_zero] at h1
    exact caseNext_dinv _ _ _ _ _ _ hS hfm (by rw [FO_some, FW_nil]; omega)
  | caseCond operand acc =>
    simp only [retBp, need_zero] at h1
    simp only [KInv] at hK
    refine expect_elim dinv_halt_err fun r _ => ?_
    exact dinv_start (stack_push hS hfm (by simp only [KInv]; omega)) rfl
  | caseRes operand acc c =>
    simp only [retBp, need_zero] at h1
    simp only [KInv] at hK
    exact caseNext_dinv _ _ _ _ _ _ hS hfm (by rw [FW_snoc]; omega)
  | caseElse operand c r rest =>
    simp only [retBp, need_zero] at h1
    simp only [KInv] at hK
    refine expect_elim dinv_halt_err fun r' _ => ?_
    exact dinv_loop_closed hS hfm rfl rfl (by rw [F_case, FO_some]; omega)

theorem stepTop_dinv (mode : Mode) (e : E) (ts : List Tok) (h : DInv ⟨.ret e, [], ts⟩) :
    DInv (stepTop mode e ts) := by
  obtain ⟨_, h1, _⟩ := h
  simp only [List.length_nil, topM, need_zero, Nat.zero_add] at h1
  unfold stepTop
  cases mode with
  | stmt => exact ⟨trivial, h1⟩
  | expr =>
    cases ts with
    | nil => exact ⟨trivial, h1⟩
    | cons t r => exact dinv_halt_err _

theorem step_dinv (mode : Mode) (st : St) (h : DInv st) : DInv (step mode st) := by
  obtain ⟨ctl, S, ts⟩ := st
  cases ctl with
  | done r => exact h
  | start m => exact stepStart_dinv mode m S ts h.1 h.2
  | loop m s lhs => exact stepLoop_dinv mode m s lhs S ts h
  | ret e =>
    cases S with
    | nil => exact stepTop_dinv mode e ts h
    | cons f S => exact stepRet_dinv e f S ts h

theorem run_dinv (mode : Mode) : ∀ (k : Nat) (st : St), DInv st → DInv (run mode k st) := by
  intro k
  induction k with
  | zero => intro st h; exact h
  | succ k ih => intro st h; exact ih _ (step_dinv mode st h)

theorem dinv_init (ts : List Tok) : DInv (init ts) := ⟨trivial, rfl⟩

end Neumann.Parse.Full
