import NeumannModel.Parse.NestLemmas
import NeumannModel.Parse.NestEmbed
import NeumannModel.Parse.Props
/-
  C15 — property theorems for the expression × subquery model (`Parse/Nest.lean`): the statement
  parser of `neumann_parser/src/parser.rs` on the fragment in which expression nesting
  (`parse_expr_bp`, counter `depth`, `MAX_DEPTH = 64`) and subquery nesting (`parse_select_body`,
  counter `select_depth`, `MAX_SELECT_DEPTH = 64`) interleave:
      SELECT expr [FROM t | FROM ( SELECT … )] [WHERE expr]
  with `EXISTS ( SELECT … )` and `lhs [NOT] IN ( SELECT … )` inside expressions.
  ONLY property statements and their non-vacuity examples live here.

  The point: `parse_select_body` leaves `depth` alone, so `MAX_DEPTH` is ONE budget for the whole
  statement.  A subquery reached from inside an expression is parsed with that expression's frames
  still counted; k levels of subqueries with m operators each use k·(m+1) frames, not m+1.
  All statements are for ALL token lists over the alphabet; inputs that leave the fragment are
  answered `Res.outside` by the model and no theorem says anything about the real parser there.
-/
namespace Neumann.Parse.NestProps
open Neumann.Parse Neumann.Parse.Nest
open Neumann.Parse.Sel (Res SErr MAX_SELECT_DEPTH NF NF_bind bind_eq_ok bind_ok bind_error)

/-- Totality / fuel adequacy: the fuel `3·|ts| + 3` is never exhausted — every token list yields a
    tree, a genuine parse error, or `outside`. -/
theorem nest_total (ts : List NTok) : parseStmt ts ≠ .error .fuel := by
  unfold parseStmt parseStmtWith
  split
  · next r =>
    have h := (Nest.no_fuel MAX_SELECT_DEPTH MAX_DEPTH (Nest.fuelFor (.select :: r))).2.2.2 0 0 r
      (by simp [Nest.fuelFor]; omega)
    exact NF_bind h fun p _ => by simp [NF]
  · simp

/-- Determinism beyond "it is a function": the answer does not depend on how much fuel (≥ the
    adequate amount) the recursion is given. -/
theorem nest_fuel_independent (ts : List NTok) (f : Nat) (h : Nest.fuelFor ts ≤ f) :
    parseStmtWith MAX_SELECT_DEPTH MAX_DEPTH f ts = parseStmt ts := by
  unfold parseStmt parseStmtWith
  split
  · next r =>
    have hnf := (Nest.no_fuel MAX_SELECT_DEPTH MAX_DEPTH (Nest.fuelFor (.select :: r))).2.2.2 0 0 r
      (by simp [Nest.fuelFor]; omega)
    rw [Nest.mono_le MAX_SELECT_DEPTH MAX_DEPTH h 0 0 r hnf]
  · rfl

example : Nest.fuelFor [.select, .num 1] ≤ 9 := by decide

/-- THE BOUND IS STATEMENT-WIDE.  Whatever token list is accepted, the tree it produced needs at
    most `MAX_DEPTH` simultaneously active `parse_expr_bp` frames, counted ACROSS subquery
    boundaries (`Q.frames`: the expressions of an `EXISTS` / `IN` subquery are counted on top of
    the frames of the expression that contains it, those of a FROM subquery on top of whatever
    encloses the body), and at most `MAX_SELECT_DEPTH` nested `parse_select_body` frames.  Since
    the parser is total (`nest_total`), an input whose combined nesting exceeds either limit is
    therefore answered with an error, never accepted. -/
theorem nest_ok_fits_depth (ts : List NTok) (q : Q) (h : parseStmt ts = .ok q) :
    q.frames ≤ MAX_DEPTH ∧ q.sdepth ≤ MAX_SELECT_DEPTH := by
  unfold parseStmt parseStmtWith at h
  split at h
  · next r =>
    simp only [bind_eq_ok] at h
    obtain ⟨⟨q', r'⟩, hb, hq⟩ := h
    simp only [Res.ok.injEq] at hq
    subst hq
    have := (Nest.fits MAX_SELECT_DEPTH MAX_DEPTH _).2.2.2 _ _ _ _ _ hb
    omega
  · simp at h

/-- The same in terms of the parser's own counters, at every recursion level and for every fuel:
    a body entered with `d` expression frames and `sd` bodies already active (a subquery reached
    from inside an expression) is accepted only if all of its expressions — its own subqueries'
    included — fit the REMAINING budget `MAX_DEPTH - d`, and its bodies `MAX_SELECT_DEPTH - sd`.
    No SELECT body gets a budget of its own. -/
theorem subquery_gets_remaining_budget (fuel sd d : Nat) (ts r : List NTok) (q : Q)
    (h : bodyN MAX_SELECT_DEPTH MAX_DEPTH fuel sd d ts = .ok (q, r)) :
    d + q.frames ≤ MAX_DEPTH ∧ sd + q.sdepth ≤ MAX_SELECT_DEPTH :=
  (Nest.fits MAX_SELECT_DEPTH MAX_DEPTH fuel).2.2.2 sd d ts q r h

/-- …and likewise every expression entered with `d` frames active. -/
theorem expression_gets_remaining_budget (fuel sd d m : Nat) (ts r : List NTok) (e : E)
    (h : exprN MAX_SELECT_DEPTH MAX_DEPTH fuel sd d m ts = .ok (e, r)) :
    d + e.frames ≤ MAX_DEPTH :=
  ((Nest.fits MAX_SELECT_DEPTH MAX_DEPTH fuel).1 sd d m ts e r h).1

-- a body entered with 61 frames active has 3 left: `! ! 1` needs exactly 3; entered with 62 it is
-- rejected at the operand (the same text, the same body — only the enclosing expression differs)
example : bodyN MAX_SELECT_DEPTH MAX_DEPTH 20 1 61 [.bang, .bang, .num 1]
    = .ok (.mk (.un .not (.un .not (.num 1))) .none .none, []) := by decide
example : bodyN MAX_SELECT_DEPTH MAX_DEPTH 20 1 62 [.bang, .bang, .num 1] = .error (.tooDeep 1) := by decide
example : exprN MAX_SELECT_DEPTH MAX_DEPTH 20 1 62 0 [.tilde, .num 1, .rparen] = .ok (.un .bitNot (.num 1), [.rparen]) := by
  decide

/-- `SELECT ! c1 IN ( SELECT - 2 FROM ( SELECT * ) WHERE EXISTS ( SELECT ( 3 ) ) )`:
    frames 1 (`!`'s frame) + 1 (operand `c1 IN …`) + subquery: `- 2` needs 2, the EXISTS body 1 + 2 -/
def sample : Q :=
  .mk (.un .not (.inSub (.col 1) false
        (.mk (.un .neg (.num 2)) (.sub (.mk .wildcard .none .none))
          (.cond (.exists (.mk (.num 3) .none .none))))))
    .none .none

def sampleText : List NTok :=
  [.select, .bang, .id 1, .inKw, .lparen, .select, .op .sub, .num 2, .fromKw, .lparen, .select,
   .op .mul, .rparen, .whereKw, .existsKw, .lparen, .select, .lparen, .num 3, .rparen, .rparen, .rparen]

example : parseStmt sampleText = .ok sample := by decide
example : sample.frames = 4 ∧ sample.sdepth = 3 := by decide
-- genuine errors with positions, and the explicit domain boundary
example : parseStmt [.select, .num 1, .inKw, .select] = .error (.unexpected .lparen 1) := by decide
example : parseStmt [.select, .num 1, .inKw, .lparen, .select, .num 2] = .error (.eof .rparen) := by decide
example : parseStmt [.select, .existsKw, .lparen, .num 1] = .error (.unexpected .select 1) := by decide
example : parseStmt [.select, .num 1, .notKw, .inKw, .lparen, .rparen, .op .add, .lparen, .rparen]
    = .ok (.mk (.bin (.inNil (.num 1) true) .add .unit) .none .none) := by decide
example : parseStmt [.select, .id 1, .lparen, .rparen] = .outside := by decide
example : parseStmt [.select, .num 1, .id 2] = .outside := by decide

/-- Exact position of the limit on linear chains of frame openers, in EVERY mixture of prefix
    operators, parentheses, `<n> [NOT] IN ( SELECT` and `EXISTS ( SELECT`: once `MAX_DEPTH` openers
    have been consumed — however they are distributed over subquery levels — `TooDeep` is raised at
    the first token after them, whatever that token is (also at end of input; except that `()`
    directly after a final `(` is the empty tuple), whatever follows, and independently of how much
    deeper the chain would go.  `rem` counts the tokens from that position to the end. -/
theorem nest_chain_too_deep (l : List Opener) (rest : List NTok) (h : MAX_DEPTH ≤ l.length)
    (hr : rest.head? ≠ some .rparen) :
    parseStmt (.select :: (opens l ++ rest)) =
      .error (.tooDeep ((opens (l.drop MAX_DEPTH)).length + rest.length)) := by
  have hlen := opens_length_ge l
  have hk := Nest.chain_td MAX_SELECT_DEPTH MAX_DEPTH Nest.limits_ordered l
    (3 * (opens l ++ rest).length + 5) 1 0 0 rest (by omega) (Nat.zero_le _) (by omega)
    (by simp only [List.length_append]; omega) hr
  have hd : ¬ (0 + 1 > MAX_SELECT_DEPTH) := by decide
  unfold parseStmt parseStmtWith
  simp only [Nest.fuelFor, List.length_cons, Nat.mul_add, Nat.mul_one, bodyN, hd, if_false,
    Nat.sub_zero] at hk ⊢
  rw [hk]
  rfl


/-- `levels` nested `IN` subqueries with `bangs` prefix operators each, the shape
    `SELECT !!…!7 IN ( SELECT !!…!7 IN ( … ( SELECT 1 ) … ) )` -/
def bangLevels (levels bangs : Nat) : List Opener :=
  (List.replicate levels (List.replicate bangs (Opener.pre .not true) ++ [Opener.inSel 7 false])).flatten

def bangText (levels bangs : Nat) : List NTok :=
  .select :: (opens (bangLevels levels bangs) ++ .num 1 :: List.replicate levels .rparen)

example : MAX_DEPTH ≤ (bangLevels 2 40).length := by decide
example : (NTok.num 1 :: List.replicate 2 NTok.rparen).head? ≠ some .rparen := by decide
example : (bangText 2 40).length = 92 := by decide
-- two levels × 40 operators: no level exceeds the limit, the statement does — TooDeep, at the
-- operator that would open frame 65 (token 68 of 92)
set_option maxRecDepth 20000 in
example : parseStmt (bangText 2 40) = .error (.tooDeep 24) := by decide
-- the boundary is exact and statement-wide: 2 × (30 + 1) = 62 openers (63 frames) parse,
-- 2 × (31 + 1) = 64 openers do not — TooDeep at the innermost `1`
set_option maxRecDepth 20000 in
example : accepted (parseStmt (bangText 2 30)) = true := by decide
set_option maxRecDepth 20000 in
example : parseStmt (bangText 2 31) = .error (.tooDeep 3) := by decide
-- 60 levels × 60 operators (the input that overflowed a 2 MiB stack when every SELECT body had a
-- budget of its own): TooDeep after 64 openers, in the second level
set_option maxRecDepth 100000 in
example : (bangText 60 60).length = 3902 := by decide
set_option maxRecDepth 100000 in
example : parseStmt (bangText 60 60) = .error (.tooDeep 3834) := by decide
-- mixed sites: EXISTS and NOT IN levels, parentheses and all four prefix spellings
def mixedOpeners : List Opener :=
  (List.replicate 4 [Opener.pre .neg false, .paren, .pre .not false, .exSel, .pre .bitNot false, .paren,
    .pre .not true, .inSel 3 true]).flatten
example : mixedOpeners.length = 32 := by decide
set_option maxRecDepth 20000 in
example : parseStmt (.select :: (opens (mixedOpeners ++ mixedOpeners) ++ [.num 1]))
    = .error (.tooDeep 1) := by decide

/-! ### the expression loop of a statement is the Pratt model

`Parse/Props.lean` proves precedence / associativity / parenthesis invariance for `parse`; the
theorems below carry them to the statement parser's select item (and, by
`Nest.embeds`, to every expression position of the fragment at every depth). -/

/-- For EVERY token list of the Pratt alphabet: `SELECT <tokens>` is answered by the statement
    model exactly as the Pratt model answers `<tokens>` — same tree, same error at the same token —
    except that a statement does not look at what follows its select item. -/
theorem nest_extends_pratt (ts : List Tok) :
    parseStmt (.select :: ts.map embTok) =
      match parseBpN MAX_DEPTH (Parse.fuelFor ts) 0 0 ts with
      | .ok (e, _) => .ok (.mk (embExpr e) .none .none)
      | .error err => .error (embErr err) := by
  unfold parseStmt parseStmtWith
  have hf : Nest.fuelFor (.select :: ts.map embTok) = (3 * ts.length + 5) + 1 := by
    simp [Nest.fuelFor]; omega
  simp only [hf]
  rw [body_emb MAX_SELECT_DEPTH MAX_DEPTH _ 0 0 ts (by decide)]
  have hnf := (Parse.no_fuel MAX_DEPTH (Parse.fuelFor ts)).1 0 0 ts (by simp [Parse.fuelFor])
  have hm := (Parse.mono_le MAX_DEPTH (show Parse.fuelFor ts ≤ 3 * ts.length + 5 by
    simp [Parse.fuelFor]; omega)).1 0 0 ts hnf
  rw [hm]
  cases hp : parseBpN MAX_DEPTH (Parse.fuelFor ts) 0 0 ts with
  | error e => rfl
  | ok p => obtain ⟨e, rest⟩ := p; rfl

/-- What `parse_expr` accepts, the statement parser accepts as a select item, with the same tree. -/
theorem nest_accepts_parse (ts : List Tok) (e : Expr) (h : parse ts = .ok e) :
    parseStmt (.select :: ts.map embTok) = .ok (.mk (embExpr e) .none .none) := by
  rw [nest_extends_pratt]
  unfold parse parseWith at h
  cases hp : parseBpN MAX_DEPTH (Parse.fuelFor ts) 0 0 ts with
  | error err => rw [hp] at h; simp [finish] at h
  | ok p =>
    obtain ⟨x, r⟩ := p
    rw [hp] at h
    cases r with
    | cons t r => simp [finish] at h
    | nil =>
      simp only [finish, Except.ok.injEq] at h
      subst h; rfl

/-- Precedence / associativity / parenthesis invariance at statement level: every print of an
    expression tree — minimal or with any redundant parentheses — that fits the depth limit is
    parsed by the statement parser to that tree. -/
theorem nest_printWith (extra : Expr → Bool) (e : Expr) (h : framesWith extra e ≤ MAX_DEPTH) :
    parseStmt (.select :: (printWith extra e).map embTok) = .ok (.mk (embExpr e) .none .none) :=
  nest_accepts_parse _ e (Props.parse_printWith extra e h)

example : framesWith (fun _ => true) Props.sample ≤ MAX_DEPTH := by decide
example : parseStmt (.select :: (printFull Props.sample).map embTok)
    = .ok (.mk (embExpr Props.sample) .none .none) := by decide

end Neumann.Parse.NestProps
