import NeumannModel.Parse.LexStr
/-
  C15 — what a string literal MEANS (`Lexer::scan_string`, `neumann_parser/src/lexer.rs`; model `scanStr`,
  specification `litValue`, canonical renderer `litRender`, all in `Parse/Lex.lean`).
  ONLY property statements and their non-vacuity examples live here.

  "Query text means one thing" needs more of a string token than a well-formed span: the VALUE it carries
  must be the value that was written, because that value is what INSERT / UPDATE / VAULT SET / BLOB PUT /
  NODE CREATE hand to the engine.  The specification `litValue q` reads the characters between two
  delimiters `q`: a doubled delimiter is one delimiter, a backslash escape is what the escape table says,
  EVERY other character — the quote character of the other kind included, alone or in a run — is itself.

  All statements are for every text, every value, both delimiters and every answer of the Unicode tables.
-/
namespace Neumann.Parse.Lex.StrProps

/-- THE CODE COMPUTES THE SPECIFICATION.  An opening quote `Q`, a body that means `v` (`litValue`), the closing
    quote `Q'`, then anything that does not go on with a further quote of that kind: `next_token` returns the
    string token with value `v`, spanning exactly the two delimiters and the body, and leaves `rest`. -/
theorem string_literal_scanned_to_its_value {Q Q' : Ch} (hq : IsQuote Q.cp) (hQ' : Q'.cp = Q.cp)
    {body : List Ch} {v : List Nat} (hv : litValue Q.cp (cps body) = some v) (p : Nat) (rest : List Ch)
    (hr : rest.head?.map Ch.cp ≠ some Q.cp) :
    scanToken p Q (body ++ Q' :: rest) =
      (⟨.str v, p, p + Q.len + bytes body + Q'.len⟩, p + Q.len + bytes body + Q'.len, rest) := by
  obtain ⟨k, e, hk, _⟩ := scanToken_quote hq p (body ++ Q' :: rest)
  have hs := scanStr_of_litValue Q.cp body v hv [] (p + Q.len) Q' rest hQ' hr
  rw [e, hk v (by rw [hs]; simp), hs]

/-- … and nothing else is a string token: whenever `next_token` on a quote character returns a string token,
    the text it consumed is a body, the closing quote, and the token's value is what that body means. -/
theorem string_token_value_is_the_meaning_of_its_body {Q : Ch} (hq : IsQuote Q.cp) (p : Nat) (src : List Ch)
    {v : List Nat} (h : (scanToken p Q src).1.kind = .str v) :
    ∃ body Q' rest, src = body ++ Q' :: rest ∧ Q'.cp = Q.cp ∧ litValue Q.cp (cps body) = some v ∧
      (scanToken p Q src).2.2 = rest ∧ (scanToken p Q src).1.hi = p + Q.len + bytes body + Q'.len ∧
      rest.head?.map Ch.cp ≠ some Q.cp := by
  obtain ⟨k, e, hk, hk'⟩ := scanToken_quote hq p src
  rw [e] at h ⊢
  simp only at h ⊢
  cases hs : scanStr Q.cp [] (p + Q.len) src with
  | mk res pr =>
    obtain ⟨p', rest⟩ := pr
    rw [hs] at hk hk'
    cases res with
    | none => rw [hk' rfl] at h; cases h
    | some w =>
      rw [hk w rfl] at h
      simp only [Kind.str.injEq] at h
      subst h
      obtain ⟨b, Q', vb, e', hQ', hv, ev, ep, hn⟩ := litValue_of_scanStr Q.cp src [] (p + Q.len) w p' rest hs
      refine ⟨b, Q', rest, e', hQ', ?_, rfl, ep, hn⟩
      rw [hv, ev]; simp

/-- ROUND TRIP.  For every value `v` and both delimiters: the canonical rendering of `v` (delimiter doubled,
    backslash doubled, newline as `\n`, every other character as it is) between two delimiters lexes to the
    string token with value `v` — from every position, whatever follows (unless a further quote of the
    delimiting kind follows directly, which would continue the literal). -/
theorem string_literal_round_trip {Q Q' : Ch} (hq : IsQuote Q.cp) (hQ' : Q'.cp = Q.cp) (v : List Nat)
    {body : List Ch} (hb : cps body = litRender Q.cp v) (p : Nat) (rest : List Ch)
    (hr : rest.head?.map Ch.cp ≠ some Q.cp) :
    scanToken p Q (body ++ Q' :: rest) =
      (⟨.str v, p, p + Q.len + bytes body + Q'.len⟩, p + Q.len + bytes body + Q'.len, rest) :=
  string_literal_scanned_to_its_value hq hQ' (by rw [hb]; exact litValue_litRender hq.ne92 v) p rest hr

/-- the specification alone: `scan (render v) = v` -/
theorem render_then_scan_is_identity {q : Nat} (hq : IsQuote q) (v : List Nat) :
    litValue q (litRender q v) = some v :=
  litValue_litRender hq.ne92 v

/-- ROUND TRIP of a whole text: `tokenize` of a text that begins with the rendered literal is the string token
    with value `v` followed by the tokens of the remaining text, moved to their place.  (A quote character is
    not whitespace in Rust's table; the model holds for every table, so this is a hypothesis here.) -/
theorem string_literal_round_trip_tokenize {Q Q' : Ch} (hq : IsQuote Q.cp) (hw : Q.ws = false) (hQ' : Q'.cp = Q.cp)
    (v : List Nat) {body : List Ch} (hb : cps body = litRender Q.cp v) (rest : List Ch)
    (hr : rest.head?.map Ch.cp ≠ some Q.cp) :
    lex (Q :: body ++ Q' :: rest) =
      ⟨.str v, 0, Q.len + bytes body + Q'.len⟩ :: (lex rest).map (Token.shift (Q.len + bytes body + Q'.len)) := by
  have hs : skip .normal 0 (Q :: (body ++ Q' :: rest)) = (0, Q :: (body ++ Q' :: rest)) := by
    cases hbr : body ++ Q' :: rest with
    | nil => simp at hbr
    | cons d r' =>
      rw [skip]
      rcases hq with h | h <;> simp [hw, h]
  have ht := string_literal_round_trip hq hQ' v hb 0 rest hr
  simp only [Nat.zero_add] at ht
  show lexN ((Q :: (body ++ Q' :: rest)).length + 1) 0 (Q :: (body ++ Q' :: rest)) = _
  rw [lexN]
  simp only [hs, ht]
  rw [lexN_as_lex _ _ rest (by simp; omega)]

/-- THE OTHER QUOTE KIND IS AN ORDINARY CHARACTER.  A body in which the delimiter, the backslash and the newline
    do not occur means exactly itself — whatever else occurs in it, in particular the quote character that is
    not the delimiter, alone, doubled or in a longer run: `'{"name":""}'` carries `{"name":""}`, `"it''s"`
    carries `it''s`. -/
theorem other_quote_kind_is_an_ordinary_character {Q Q' : Ch} (hq : IsQuote Q.cp) (hQ' : Q'.cp = Q.cp)
    {body : List Ch} (hb : ∀ c ∈ cps body, c ≠ Q.cp ∧ c ≠ 92 ∧ c ≠ 10) (p : Nat) (rest : List Ch)
    (hr : rest.head?.map Ch.cp ≠ some Q.cp) :
    (scanToken p Q (body ++ Q' :: rest)).1.kind = .str (cps body) := by
  rw [string_literal_scanned_to_its_value hq hQ' (litValue_plain_body (cps body) hb) p rest hr]

/-- UNIQUENESS UP TO ESCAPE SPELLING.  Two different bodies that mean the same value differ only by how an
    escape is spelled: they have a common prefix `w` made of whole items, after which at least one of the two
    goes on with a backslash; the two remainders again mean one common value (so the statement applies to
    them in turn). -/
theorem string_value_unique_up_to_escape_spelling (q : Nat) {b1 b2 v : List Nat} (h1 : litValue q b1 = some v)
    (h2 : litValue q b2 = some v) (hne : b1 ≠ b2) :
    ∃ w r1 r2 v0 v1, b1 = w ++ r1 ∧ b2 = w ++ r2 ∧ litValue q w = some v0 ∧ litValue q r1 = some v1 ∧
      litValue q r2 = some v1 ∧ v = v0 ++ v1 ∧ (r1.head? = some 92 ∨ r2.head? = some 92) :=
  litValue_same_value q b1 b2 v h1 h2 hne

/-- INJECTIVITY.  On bodies without a backslash the meaning is injective: two literals that carry the same
    value are the same text.  (A value has exactly one spelling made of plain characters and doubled
    delimiters; no two different quote runs mean the same.) -/
theorem string_value_injective_without_escapes (q : Nat) {b1 b2 v : List Nat} (h1 : litValue q b1 = some v)
    (h2 : litValue q b2 = some v) (n1 : 92 ∉ b1) (n2 : 92 ∉ b2) : b1 = b2 :=
  litValue_injective_without_escapes q b1 b2 v h1 h2 n1 n2

/-! ### non-vacuity -/

/-- ASCII character with the answers Rust's tables give for it (for the examples) -/
def ascii (c : Char) : Ch :=
  ⟨c.toNat, c == ' ' || c == '\n' || c == '\t' || c == '\r', c.isAlphanum, [c.toUpper.toNat]⟩

def text (s : String) : List Ch := s.toList.map ascii

-- the specification on the texts of the regression: the doubled OTHER quote stays doubled
example : litValue 39 (cps (text "{\"a\":\"\"}")) = some (cps (text "{\"a\":\"\"}")) := by decide +kernel
example : litValue 34 (cps (text "it''s")) = some (cps (text "it''s")) := by decide +kernel
-- the doubled delimiter is one delimiter; escapes; what is not a body
example : litValue 39 (cps (text "it''s")) = some (cps (text "it's")) := by decide +kernel
example : litValue 39 (cps (text "a\\n\\'\\x")) = some [97, 10, 39, 92, 120] := by decide +kernel
example : litValue 39 (cps (text "a'b")) = none ∧ litValue 39 (cps (text "a\\")) = none ∧
    litValue 39 (cps (text "a\nb")) = none := by decide +kernel
-- the renderer, and the round trip on a value made of quotes of both kinds, a backslash and a newline
example : litRender 39 [39, 34, 34, 92, 10, 39, 39] = cps (text "''\"\"\\\\\\n''''") := by decide +kernel
example : litValue 39 (litRender 39 [39, 34, 34, 92, 10, 39, 39]) = some [39, 34, 34, 92, 10, 39, 39] :=
  render_then_scan_is_identity (Or.inl rfl) _
example : litValue 34 (litRender 34 [39, 34, 34, 92, 10, 39, 39]) = some [39, 34, 34, 92, 10, 39, 39] :=
  render_then_scan_is_identity (Or.inr rfl) _
-- the theorems at work on the lexer model
example : lex (text "'{\"\"}'") = [⟨.str [123, 34, 34, 125], 0, 6⟩, ⟨.eof, 6, 6⟩] := by decide +kernel
example : lex (text "'{\"\"}'") = ⟨.str [123, 34, 34, 125], 0, 1 + 4 + 1⟩ :: (lex []).map (Token.shift (1 + 4 + 1)) :=
  string_literal_round_trip_tokenize (Q := ascii '\'') (Q' := ascii '\'') (body := text "{\"\"}") (Or.inl rfl) rfl rfl
    [123, 34, 34, 125] (by decide +kernel) [] (by decide +kernel)
example : (scanToken 7 (ascii '"') (text "it''s" ++ ascii '"' :: text ", 1)")).1.kind = .str (cps (text "it''s")) :=
  other_quote_kind_is_an_ordinary_character (Q := ascii '"') (Q' := ascii '"') (body := text "it''s") (Or.inr rfl) rfl
    (by decide +kernel) 7 (text ", 1)") (by decide +kernel)
-- two spellings of one value: `\'` and `''`, they part at an item boundary where one has a backslash
example : litValue 39 (cps (text "a\\'b")) = some [97, 39, 98] ∧ litValue 39 (cps (text "a''b")) = some [97, 39, 98] := by
  decide +kernel

/-- The widened quote arm (`scanStrEitherQuoteCollapses`, `Lex.lean`: the arm for the delimiting quote matching
    either quote character) is NOT this scanner and does not satisfy the round trip: inside `'…'` the text `""`
    is two characters and inside `"…"` the text `''` is two characters — the code and the specification say so
    — while the variant collapses both to one, so the canonical rendering of the value `""` does not come back. -/
theorem either_quote_collapses_witness :
    (scanStr 39 [] 1 (text "{\"a\":\"\"}'")).1 = some (cps (text "{\"a\":\"\"}")) ∧
    (scanStrEitherQuoteCollapses 39 [] 1 (text "{\"a\":\"\"}'")).1 = some (cps (text "{\"a\":\"}")) ∧
    (scanStr 34 [] 1 (text "it''s\"")).1 = some (cps (text "it''s")) ∧
    (scanStrEitherQuoteCollapses 34 [] 1 (text "it''s\"")).1 = some (cps (text "it's")) ∧
    cps (text "\"\"") = litRender 39 [34, 34] ∧
    (scanStr 39 [] 1 (text "\"\"'")).1 = some [34, 34] ∧
    (scanStrEitherQuoteCollapses 39 [] 1 (text "\"\"'")).1 = some [34] := by
  decide +kernel

end Neumann.Parse.Lex.StrProps
