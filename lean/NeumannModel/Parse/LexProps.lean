import NeumannModel.Parse.LexLocal
/-
  C15 — property theorems for the lexer model (`Parse/Lex.lean`, `neumann_parser/src/lexer.rs`).
  ONLY property statements and their non-vacuity examples live here.

  All statements are for EVERY source text (list of `char`s) and EVERY answer of the Unicode tables
  (`Ch.ws`, `Ch.alnum`, `Ch.up` are arbitrary): no hypothesis.
-/
namespace Neumann.Parse.Lex.Props

/-- The shape of the token stream of every text: every token but the last is a non-empty piece of
    the source, lying on character boundaries (so `&source[lo..hi]` cannot panic), at or after the
    end of its predecessor, never `Eof`; the last token is `Eof` at the very end of the text; the
    fuel marker never appears. -/
theorem lex_well_spanned (src : List Ch) : WellSpanned src 0 (lex src) :=
  lexN_ok src _ 0 src (Nat.lt_succ_self _) ⟨[], rfl, rfl⟩

/-- Totality / no hang: `|src| + 1` calls of `next_token` always reach `Eof` (every call that does
    not return `Eof` consumes at least one character). -/
theorem lex_total (src : List Ch) : ∀ t ∈ lex src, t.kind ≠ .fuel :=
  fun t ht => (ws_mem _ _ (lex_well_spanned src) t ht).1

/-- Every span lies inside the input. -/
theorem lex_spans_in_input (src : List Ch) : ∀ t ∈ lex src, t.lo ≤ t.hi ∧ t.hi ≤ bytes src :=
  fun t ht => let h := ws_mem _ _ (lex_well_spanned src) t ht; ⟨h.2.2.1, h.2.2.2.1⟩

/-- Every span starts and ends on a character boundary of the text. -/
theorem lex_spans_on_char_boundaries (src : List Ch) :
    ∀ t ∈ lex src, Boundary src t.lo ∧ Boundary src t.hi :=
  fun t ht => (ws_mem _ _ (lex_well_spanned src) t ht).2.2.2.2

/-- Tokens are in source order and do not overlap. -/
theorem lex_spans_ordered (src : List Ch) : (lex src).Pairwise (fun a b => a.hi ≤ b.lo) :=
  ws_pairwise _ _ (lex_well_spanned src)

/-- The stream ends with exactly one `Eof`, positioned at the end of the text; every other token is
    non-empty. -/
theorem lex_ends_with_eof (src : List Ch) :
    ∃ init, lex src = init ++ [⟨.eof, bytes src, bytes src⟩] ∧ ∀ t ∈ init, t.kind ≠ .eof ∧ t.lo < t.hi :=
  ws_last _ _ (lex_well_spanned src)

/-- ASCII character with the answers Rust's tables give for it (for the examples) -/
def ascii (c : Char) : Ch :=
  ⟨c.toNat, c == ' ' || c == '\n' || c == '\t' || c == '\r', c.isAlphanum, [c.toUpper.toNat]⟩

def text (s : String) : List Ch := s.toList.map ascii

example : lex (text "select x1<=10.5e3") =
    [⟨.name "Select", 0, 6⟩, ⟨.ident, 7, 9⟩, ⟨.name "Le", 9, 11⟩, ⟨.float, 11, 17⟩, ⟨.eof, 17, 17⟩] := by
  decide +kernel
example : lex (text "-- c\n'it''s'") = [⟨.str [105, 116, 39, 115], 5, 12⟩, ⟨.eof, 12, 12⟩] := by decide +kernel
example : lex (text "/* a /* b */ c */ 1e") = [⟨.errFloat, 18, 20⟩, ⟨.eof, 20, 20⟩] := by decide +kernel
example : lex (text "9223372036854775807 9223372036854775808") =
    [⟨.integer 9223372036854775807, 0, 19⟩, ⟨.errInteger, 20, 39⟩, ⟨.eof, 39, 39⟩] := by decide +kernel
example : lex (text "'open") = [⟨.errUnterminated, 0, 5⟩, ⟨.eof, 5, 5⟩] := by decide +kernel
-- a two-byte character: positions are byte offsets, the character boundary after it is 2
example : lex [⟨233, false, true, [201]⟩, ascii 'a'] = [⟨.errChar, 0, 2⟩, ⟨.ident, 2, 3⟩, ⟨.eof, 3, 3⟩] := by
  decide +kernel
-- an unterminated block comment runs to the end of the text
example : lex (text "a /* b") = [⟨.ident, 0, 1⟩, ⟨.eof, 6, 6⟩] := by decide +kernel
-- `ſ` (U+017F) upper-cases to `S`: the keyword lookup goes through `to_uppercase`
example : lex [ascii 'i', ⟨383, false, true, [83]⟩] = [⟨.name "Is", 0, 3⟩, ⟨.eof, 3, 3⟩] := by decide +kernel


/-! ### block comments and whitespace are not part of the meaning

  `WellNested c` (`LexLemmas.lean`): `c` is a block comment that the scanner's own nesting rule reads to its
  end exactly — `/*`, then a text on which the block-comment loop of `skip`, written as the relation `Closes`
  arm by arm, returns to depth zero at the last character and not before.  The statements hold for every such
  `c` (star runs of any length and parity before a `*/`, `/` runs before a nested `/*`, any nesting depth —
  `well_nested_star_run`, `well_nested_slash_run_before_nested`, `well_nested_any_depth` show these families are
  in the set), every text after it and every Unicode table. -/

/-- THE CORE.  The skipping loop that meets the `/*` of a well-nested comment `c` goes on, in normal mode,
    exactly at the end of `c`: not before (no inner `*/` ends it), not after (the closing `*/` is seen after a
    star run of either parity) — whatever text `v` follows, from every position. -/
theorem block_comment_scanned_exactly {c : List Ch} (h : WellNested c) (p : Nat) (v : List Ch) :
    skip .normal p (c ++ v) = skip .normal (p + bytes c) v :=
  skip_wellNested h p v

/-- At EVERY token boundary (the lexer about to call `next_token` at byte `p` with `c ++ v` resp. `s :: v`
    left): a well-nested comment `c` in front of `v` and a whitespace character `s` in front of `v` both yield
    exactly the tokens of `v` — same kinds, same values, spans moved by the length of what was put in front. -/
theorem block_comment_is_trivia_at_token_boundary {c : List Ch} (h : WellNested c) {s : Ch} (hs : s.ws = true)
    (fuel p : Nat) (v : List Ch) :
    lexN (fuel + 1) p (c ++ v) = (lexN (fuel + 1) p v).map (Token.shift (bytes c)) ∧
    lexN (fuel + 1) p (s :: v) = (lexN (fuel + 1) p v).map (Token.shift s.len) :=
  ⟨lexN_wellNested h fuel p v, lexN_ws hs fuel p v⟩

/-- BLOCK COMMENTS ARE TRIVIA.  For every source text `u ++ c ++ v` where `c` is a well-nested block comment
    and the cut is a token boundary of `u ++ " " ++ v` (`TokenBoundary u (" " ++ v) ts`: after the tokens `ts`
    the lexer is in its skipping loop, in normal mode, at the end of `u` — i.e. the last token ended somewhere
    in `u` and what follows it in `u` is whitespace, well-nested block comments and newline-terminated line
    comments; in particular the cut is not inside a string, a comment or a token):
    `tokenize(u ++ c ++ v)` and `tokenize(u ++ " " ++ v)` are both the tokens `ts` followed by the tokens of
    `v` moved to their place — the SAME kinds and values, the spans of the tokens after the cut differing by
    exactly `|c| - 1` bytes.  Every star-run parity before a closing mark, every nesting depth, every `u`, `v`.
    The hypotheses on the Unicode table are facts of Rust's: the blank is whitespace and not alphanumeric, `/`
    is not alphanumeric (the model holds for every table; one that called `/` alphanumeric would glue the
    comment opener to a preceding identifier). -/
theorem block_comment_is_trivia {o s : Ch} {c' : List Ch} (h : WellNested (o :: c')) (ho : o.alnum = false)
    (hs : s.ws = true) (hs32 : s.cp = 32) (hsa : s.alnum = false) {u v : List Ch} {ts : List Token}
    (hb : TokenBoundary u (s :: v) ts) :
    lex (u ++ (o :: c') ++ v) = ts ++ (lex v).map (Token.shift (bytes u + bytes (o :: c'))) ∧
    lex (u ++ s :: v) = ts ++ (lex v).map (Token.shift (bytes u + s.len)) :=
  lex_comment_at_boundary h ho hs hs32 hsa hb

/-- the special case of a text that BEGINS with the comment (no table hypothesis needed) -/
theorem block_comment_at_start_is_trivia {c : List Ch} (h : WellNested c) {s : Ch} (hs : s.ws = true) (v : List Ch) :
    lex (c ++ v) = (lex v).map (Token.shift (bytes c)) ∧ lex (s :: v) = (lex v).map (Token.shift s.len) :=
  ⟨lex_wellNested h v, lex_ws hs v⟩

/-- `d` levels of comments inside a comment, `/* /* … */ */` -/
def nested (o s x y : Ch) : Nat → List Ch
  | 0 => [o, s, x, y]
  | d + 1 => o :: s :: nested o s x y d ++ [x, y]

/-- `/*`, ANY number of `*`, `*/` is well nested: the closing mark is found after a star run of either parity
    (`/**/`, `/***/`, `/****/`, …) -/
theorem well_nested_star_run {o s x y : Ch} (ho : o.cp = 47) (hw : o.ws = false) (hs : s.cp = 42) (hx : x.cp = 42)
    (hy : y.cp = 47) (st : List Ch) (hst : ∀ c ∈ st, c.cp = 42) : WellNested (o :: s :: st ++ [x, y]) :=
  ⟨ho, hw, hs, closes_star_run hx (Closes.close x y hx hy) st hst⟩

/-- a nested comment directly after ANY number of `/` (`//*`, `///*`, …) still nests -/
theorem well_nested_slash_run_before_nested {o s : Ch} (ho : o.cp = 47) (hw : o.ws = false) (hs : s.cp = 42)
    {c b : List Ch} (hc : WellNested c) (hb : Closes 0 b) (sl : List Ch) (hsl : ∀ c ∈ sl, c.cp = 47) :
    WellNested (o :: s :: sl ++ c ++ b) := by
  match c, hc with
  | o' :: s' :: body, hc' =>
    have h := closes_wellNested hc' hb
    have := closes_slash_run hc'.1 h sl hsl
    refine ⟨ho, hw, hs, ?_⟩
    show Closes 0 (sl ++ (o' :: s' :: body) ++ b)
    rw [List.append_assoc]
    exact this

/-- every nesting depth -/
theorem well_nested_any_depth {o s x y : Ch} (ho : o.cp = 47) (hw : o.ws = false) (hs : s.cp = 42) (hx : x.cp = 42)
    (hy : y.cp = 47) : ∀ d, WellNested (nested o s x y d)
  | 0 => ⟨ho, hw, hs, Closes.close x y hx hy⟩
  | d + 1 => ⟨ho, hw, hs, closes_wellNested (well_nested_any_depth ho hw hs hx hy d) (Closes.close x y hx hy)⟩

-- non-vacuity: concrete well-nested comments (star runs of both parities, `//*`, a banner, three levels) and
-- texts that are not (closed too early, not closed, `/*/`)
example : WellNested (text "/* a //* b **/ c ***/") := by decide
example : WellNested (text "/***/") ∧ WellNested (text "/**** x ****/") ∧ WellNested (text "/*/* /* d */ **/*/") ∧
    ¬ WellNested (text "/*/") ∧ ¬ WellNested (text "/* a */ */") ∧ ¬ WellNested (text "/* /* */") := by decide
example : WellNested (nested (ascii '/') (ascii '*') (ascii '*') (ascii '/') 4) :=
  well_nested_any_depth rfl rfl rfl rfl rfl 4
-- the theorem at work: the WHERE clause after `**/` is still there
example : lex (text "/* only one row **/WHERE id") = [⟨.name "Where", 19, 24⟩, ⟨.ident, 25, 27⟩, ⟨.eof, 27, 27⟩] := by
  decide +kernel
example : lex (text "a/***/b") = [⟨.ident, 0, 1⟩, ⟨.ident, 6, 7⟩, ⟨.eof, 7, 7⟩] := by decide +kernel
-- non-vacuity of `block_comment_is_trivia`: token boundaries exist — directly after a token, and after trivia
-- that itself holds a star-run comment and a line comment
example : TokenBoundary (text "DELETE FROM t") (text " WHERE id = 1")
    [⟨.name "Delete", 0, 6⟩, ⟨.name "From", 7, 11⟩, ⟨.ident, 12, 13⟩] :=
  ⟨text "DELETE FROM t", [], by simp, Trivia.nil, runN_sound 3 _ _ _ _ _ (by decide +kernel)⟩
example : TokenBoundary (text "a /***/ -- x\n") (text " b") [⟨.ident, 0, 1⟩] :=
  ⟨text "a", text " /***/ -- x\n", by decide,
    Trivia.ws _ _ rfl (Trivia.block (text "/***/") _ (by decide) (Trivia.ws _ _ rfl
      (Trivia.line (ascii '-') (ascii '-') (text " x") (ascii '\n') [] rfl rfl rfl (by decide) rfl rfl Trivia.nil))),
    runN_sound 1 _ _ _ _ _ (by decide +kernel)⟩
-- … and the theorem applied: the DELETE keeps its WHERE clause behind `/* only one row **/`
example : lex (text "DELETE FROM t" ++ text "/* only one row **/" ++ text "WHERE id = 1") =
    [⟨.name "Delete", 0, 6⟩, ⟨.name "From", 7, 11⟩, ⟨.ident, 12, 13⟩] ++
      (lex (text "WHERE id = 1")).map (Token.shift (13 + 19)) :=
  (block_comment_is_trivia (s := ascii ' ') (o := ascii '/') (c' := text "* only one row **/") (by decide) rfl rfl rfl rfl
    ⟨text "DELETE FROM t", [], by simp, Trivia.nil, runN_sound 3 _ _ _ _ _ (by decide +kernel)⟩).1

/-- The consume-instead-of-peek variant of the block-comment loop (`skipBlockAdvancing`, `Lex.lean`: `advance()`
    in place of `peek2()`) is NOT this scanner: on the well-nested comment `/* x **/` the real loop stops after
    the comment (and the blank: position 9, `WHERE id = 1` left), the variant swallows the second `*` as the
    successor of the first, misses the closing mark and runs to the end of the text (position 21, nothing left). -/
theorem advancing_scanner_runs_past_star_star_slash_witness :
    WellNested (text "/* x **/") ∧
    skip .normal 0 (text "/* x **/ WHERE id = 1") = (9, text "WHERE id = 1") ∧
    skip (.block 0) 2 (text " x **/ WHERE id = 1") = (9, text "WHERE id = 1") ∧
    skipBlockAdvancing 0 2 (text " x **/ WHERE id = 1") = (21, []) := by
  decide +kernel

end Neumann.Parse.Lex.Props
