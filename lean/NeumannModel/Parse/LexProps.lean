import NeumannModel.Parse.LexLemmas
/-
  C15 — property theorems for the lexer model (`Parse/Lex.lean`, `neumann_parser/src/lexer.rs`).
  ONLY property statements and their non-vacuity examples live here.

  All statements are for EVERY source text (list of `char`s) and EVERY answer of the Unicode tables
  (`Ch.ws`, `Ch.alnum`, `Ch.up` are arbitrary): no hypothesis.
-/
namespace Neumann.Parse.Lex.Props

/-- The shape of the token stream of every text: every token but the last is a non-empty piece of
    the source, lying on character boundaries (so `&source[lo..hi]` cannot panic), at or after the
    end of its predecessor, never `Eof`; the last token is `Eof` at the very end of the text; the
    fuel marker never appears. -/
theorem lex_well_spanned (src : List Ch) : WellSpanned src 0 (lex src) :=
  lexN_ok src _ 0 src (Nat.lt_succ_self _) ⟨[], rfl, rfl⟩

/-- Totality / no hang: `|src| + 1` calls of `next_token` always reach `Eof` (every call that does
    not return `Eof` consumes at least one character). -/
theorem lex_total (src : List Ch) : ∀ t ∈ lex src, t.kind ≠ .fuel :=
  fun t ht => (ws_mem _ _ (lex_well_spanned src) t ht).1

/-- Every span lies inside the input. -/
theorem lex_spans_in_input (src : List Ch) : ∀ t ∈ lex src, t.lo ≤ t.hi ∧ t.hi ≤ bytes src :=
  fun t ht => let h := ws_mem _ _ (lex_well_spanned src) t ht; ⟨h.2.2.1, h.2.2.2.1⟩

/-- Every span starts and ends on a character boundary of the text. -/
theorem lex_spans_on_char_boundaries (src : List Ch) :
    ∀ t ∈ lex src, Boundary src t.lo ∧ Boundary src t.hi :=
  fun t ht => (ws_mem _ _ (lex_well_spanned src) t ht).2.2.2.2

/-- Tokens are in source order and do not overlap. -/
theorem lex_spans_ordered (src : List Ch) : (lex src).Pairwise (fun a b => a.hi ≤ b.lo) :=
  ws_pairwise _ _ (lex_well_spanned src)

/-- The stream ends with exactly one `Eof`, positioned at the end of the text; every other token is
    non-empty. -/
theorem lex_ends_with_eof (src : List Ch) :
    ∃ init, lex src = init ++ [⟨.eof, bytes src, bytes src⟩] ∧ ∀ t ∈ init, t.kind ≠ .eof ∧ t.lo < t.hi :=
  ws_last _ _ (lex_well_spanned src)

/-- ASCII character with the answers Rust's tables give for it (for the examples) -/
def ascii (c : Char) : Ch :=
  ⟨c.toNat, c == ' ' || c == '\n' || c == '\t' || c == '\r', c.isAlphanum, [c.toUpper.toNat]⟩

def text (s : String) : List Ch := s.toList.map ascii

example : lex (text "select x1<=10.5e3") =
    [⟨.name "Select", 0, 6⟩, ⟨.ident, 7, 9⟩, ⟨.name "Le", 9, 11⟩, ⟨.float, 11, 17⟩, ⟨.eof, 17, 17⟩] := by
  decide +kernel
example : lex (text "-- c\n'it''s'") = [⟨.str [105, 116, 39, 115], 5, 12⟩, ⟨.eof, 12, 12⟩] := by decide +kernel
example : lex (text "/* a /* b */ c */ 1e") = [⟨.errFloat, 18, 20⟩, ⟨.eof, 20, 20⟩] := by decide +kernel
example : lex (text "9223372036854775807 9223372036854775808") =
    [⟨.integer 9223372036854775807, 0, 19⟩, ⟨.errInteger, 20, 39⟩, ⟨.eof, 39, 39⟩] := by decide +kernel
example : lex (text "'open") = [⟨.errUnterminated, 0, 5⟩, ⟨.eof, 5, 5⟩] := by decide +kernel
-- a two-byte character: positions are byte offsets, the character boundary after it is 2
example : lex [⟨233, false, true, [201]⟩, ascii 'a'] = [⟨.errChar, 0, 2⟩, ⟨.ident, 2, 3⟩, ⟨.eof, 3, 3⟩] := by
  decide +kernel
-- an unterminated block comment runs to the end of the text
example : lex (text "a /* b") = [⟨.ident, 0, 1⟩, ⟨.eof, 6, 6⟩] := by decide +kernel
-- `ſ` (U+017F) upper-cases to `S`: the keyword lookup goes through `to_uppercase`
example : lex [ascii 'i', ⟨383, false, true, [83]⟩] = [⟨.name "Is", 0, 3⟩, ⟨.eof, 3, 3⟩] := by decide +kernel

end Neumann.Parse.Lex.Props
