import NeumannModel.Parse.ClauseLemmas
/-
  C15 — the round trip of the clause-level grammar model of SELECT (`Parse/Clause.lean`): a body
  that finds `printQ sty q ++ X` builds exactly `q` and returns with `X` left, whatever spelling
  `sty` chooses.  Core Lean only (no Mathlib).
-/
namespace Neumann.Parse.Clause

/-! ### what may follow a printed piece -/

/-- position of a token in the order of the clauses after FROM (0 = none of them), `)` and `;` last -/
def lvl : Tok → Nat
  | .whereKw => 1 | .group => 2 | .having => 3 | .order => 4 | .limit => 5 | .offset => 6
  | .rparen => 7 | .semicolon => 7
  | _ => 0

/-- the rest starts with a clause keyword of position at least `k`, a closer, or is empty -/
def StopsFrom (k : Nat) (Y : List Tok) : Prop :=
  match Y with
  | [] => True
  | t :: _ => k ≤ lvl t

theorem StopsFrom.mono {k k' : Nat} {Y : List Tok} (h : StopsFrom k Y) (hk : k' ≤ k) : StopsFrom k' Y := by
  cases Y with
  | nil => trivial
  | cons t r => simp only [StopsFrom] at *; omega

theorem StopsFrom.head_ne {k : Nat} {Y : List Tok} (h : StopsFrom k Y) {t : Tok} (ht : lvl t < k) :
    Y.head? ≠ some t := by
  cases Y with
  | nil => simp
  | cons c r =>
    simp only [StopsFrom] at h
    simp only [List.head?_cons, ne_eq, Option.some.injEq]
    intro e; subst e; omega

/-- a join keyword, a clause keyword, a closer or nothing: cannot continue an item, an alias, a
    table reference or a join condition -/
def Safe (Y : List Tok) : Prop :=
  match Y with
  | [] => True
  | t :: _ =>
    t ≠ .comma ∧ t ≠ .asKw ∧ (∀ n, t ≠ .ident n) ∧ t ≠ .star ∧ t ≠ .lparen ∧ t ≠ .on ∧ t ≠ .using ∧ t ≠ .from
      ∧ t ≠ .desc ∧ t ≠ .asc ∧ t ≠ .nulls

theorem StopsFrom.safe {Y : List Tok} (h : StopsFrom 1 Y) : Safe Y := by
  cases Y with
  | nil => trivial
  | cons t r =>
    simp only [StopsFrom] at h
    cases t <;> simp [lvl] at h <;> simp [Safe]

theorem Safe.ne {Y : List Tok} (h : Safe Y) {t : Tok}
    (ht : t = .comma ∨ t = .asKw ∨ (∃ n, t = .ident n) ∨ t = .star ∨ t = .lparen ∨ t = .on ∨ t = .using ∨ t = .from
      ∨ t = .desc ∨ t = .asc ∨ t = .nulls) :
    Y.head? ≠ some t := by
  cases Y with
  | nil => simp
  | cons c r =>
    simp only [Safe] at h
    simp only [List.head?_cons, ne_eq, Option.some.injEq]
    intro e; subst e
    obtain ⟨h1, h2, h3, h4, h5, h6, h7, h8, h9, h10, h11⟩ := h
    rcases ht with e | e | ⟨n, e⟩ | e | e | e | e | e | e | e | e <;> first | exact absurd e ‹_› | exact absurd e (h3 n)

/-! ### the sub-parsers on printed pieces -/

theorem parseX_print (e : XE) (Y : List Tok) (h1 : Y.head? ≠ some .star) (h2 : Y.head? ≠ some .lparen) :
    parseX (printX e :: Y) = .ok (e, Y) := by
  cases e <;> simp [parseX, printX, h1, h2]

theorem parseAlias_print (sty : Style) (a : Option Nat) (Y : List Tok) (h1 : Y.head? ≠ some .asKw)
    (h2 : ∀ n, Y.head? ≠ some (.ident n)) : parseAlias (printAlias sty a ++ Y) = .ok (a, Y) := by
  cases a with
  | some n => cases h : sty.useAs <;> simp [printAlias, h, parseAlias, expectIdent]
  | none =>
    simp only [printAlias, List.nil_append]
    cases Y with
    | nil => rfl
    | cons t r =>
      cases t <;> simp [parseAlias] <;> first | exact absurd rfl h1 | exact absurd rfl (h2 _)

theorem parseX_cons (e : XE) (t : Tok) (r : List Tok) (h1 : t ≠ .star) (h2 : t ≠ .lparen) :
    parseX (printX e :: t :: r) = .ok (e, t :: r) := parseX_print e _ (by simpa using h1) (by simpa using h2)

/-- the head of an alias print followed by `Y` is not `*` / `(` when `Y`'s is not -/
theorem alias_head (sty : Style) (a : Option Nat) (Y : List Tok) {t : Tok} (ht : t = .star ∨ t = .lparen)
    (h : Y.head? ≠ some t) : (printAlias sty a ++ Y).head? ≠ some t := by
  cases a with
  | none => simpa [printAlias] using h
  | some n => cases hs : sty.useAs <;> rcases ht with e | e <;> subst e <;> simp [printAlias, hs]

/-! ### WHERE … OFFSET -/

theorem limitOffset_print (h : Head) (whr : Option XE) (grp : List XE) (hav : Option XE) (ord : List OItem)
    (S : List Frame) (lim off : Option XE) (X : List Tok) (hX : StopsFrom 7 X) :
    limitOffset h whr grp hav ord S (printOpt .limit lim ++ (printOpt .offset off ++ X))
      = ⟨.bodyRet (.mk h.distinct h.items h.src ⟨whr, grp, hav, ord, lim, off⟩), S, X⟩ := by
  have x1 : X.head? ≠ some .limit := hX.head_ne (by decide)
  have x2 : X.head? ≠ some .offset := hX.head_ne (by decide)
  have x3 : X.head? ≠ some .star := hX.head_ne (by decide)
  have x4 : X.head? ≠ some .lparen := hX.head_ne (by decide)
  cases lim with
  | none =>
    cases off with
    | none => simp [limitOffset, printOpt, x1, x2]
    | some o => simp [limitOffset, printOpt, orHalt, parseX_print o X x3 x4]
  | some l =>
    cases off with
    | none => simp [limitOffset, printOpt, orHalt, parseX_print l X x3 x4, x2]
    | some o =>
      have : parseX (printX l :: Tok.offset :: printX o :: X) = .ok (l, Tok.offset :: printX o :: X) :=
        parseX_print l _ (by simp) (by simp)
      simp [limitOffset, printOpt, orHalt, this, parseX_print o X x3 x4]

/-- one ORDER BY item -/
theorem orderItem_step (sty : Style) (h : Head) (whr : Option XE) (grp : List XE) (hav : Option XE)
    (acc : List OItem) (o : OItem) (S : List Frame) (Y : List Tok)
    (y1 : Y.head? ≠ some .desc) (y2 : Y.head? ≠ some .asc) (y3 : Y.head? ≠ some .nulls)
    (y4 : Y.head? ≠ some .star) (y5 : Y.head? ≠ some .lparen) :
    step ⟨.orderL h whr grp hav acc, S, printOItem sty o ++ Y⟩
      = (if Y.head? = some .comma then ⟨.orderL h whr grp hav (acc ++ [o]), S, Y.tail⟩
         else limitOffset h whr grp hav (acc ++ [o]) S Y) := by
  obtain ⟨e, d, nl⟩ := o
  have hp := parseX_print e Y y4 y5
  cases d <;> cases ha : sty.ascKw <;> cases nl with
  | none => simp [step, printOItem, ha, orHalt, parseX_cons, hp, y1, y2, y3]
  | some b => cases b <;> simp [step, printOItem, ha, orHalt, parseX_cons, expect]

theorem order_reach (sty : Style) (h : Head) (whr : Option XE) (grp : List XE) (hav : Option XE)
    (S : List Frame) : ∀ (ord : List OItem), ord ≠ [] → ∀ (acc : List OItem) (Y : List Tok), Safe Y →
    Reach ⟨.orderL h whr grp hav acc, S, printOItems sty ord ++ Y⟩ (limitOffset h whr grp hav (acc ++ ord) S Y)
  | [], hne, _, _, _ => absurd rfl hne
  | [o], _, acc, Y, hY => by
      have hc : Y.head? ≠ some .comma := hY.ne (by simp)
      refine Reach.one ?_
      simp only [printOItems]
      rw [orderItem_step sty h whr grp hav acc o S Y (hY.ne (by simp)) (hY.ne (by simp)) (hY.ne (by simp))
        (hY.ne (by simp)) (hY.ne (by simp))]
      simp [hc]
  | o :: o2 :: rest, _, acc, Y, hY => by
      have ih := order_reach sty h whr grp hav S (o2 :: rest) (by simp) (acc ++ [o]) Y hY
      refine Reach.head ?_ (by simpa [List.append_assoc] using ih)
      simp only [printOItems, List.append_assoc, List.cons_append]
      rw [orderItem_step sty h whr grp hav acc o S _ (by simp) (by simp) (by simp) (by simp) (by simp)]
      simp

/-- one GROUP BY expression -/
theorem group_reach (h : Head) (whr : Option XE) (S : List Frame) :
    ∀ (grp : List XE), grp ≠ [] → ∀ (acc : List XE) (Y : List Tok), Safe Y →
    Reach ⟨.groupL h whr acc, S, printXs grp ++ Y⟩ (havingC h whr (acc ++ grp) S Y)
  | [], hne, _, _, _ => absurd rfl hne
  | [e], _, acc, Y, hY => by
      have hc : Y.head? ≠ some .comma := hY.ne (by simp)
      refine Reach.one ?_
      simp [printXs, step, orHalt, parseX_print e Y (hY.ne (by simp)) (hY.ne (by simp)), hc]
  | e :: e2 :: rest, _, acc, Y, hY => by
      have ih := group_reach h whr S (e2 :: rest) (by simp) (acc ++ [e]) Y hY
      refine Reach.head ?_ (by simpa [List.append_assoc] using ih)
      simp [printXs, step, orHalt, parseX_cons]

theorem printOpt_none (kw : Tok) : printOpt kw none = [] := rfl
theorem printOpt_some (kw : Tok) (e : XE) : printOpt kw (some e) = [kw, printX e] := rfl

theorem stops_opt {k : Nat} {Y : List Tok} (kw : Tok) (o : Option XE) (hk : k ≤ lvl kw) (hY : StopsFrom k Y) :
    StopsFrom k (printOpt kw o ++ Y) := by
  cases o with
  | none => simpa [printOpt] using hY
  | some e => simpa [printOpt, StopsFrom] using hk

theorem orderBy_print (sty : Style) (h : Head) (whr : Option XE) (grp : List XE) (hav : Option XE)
    (S : List Frame) (ord : List OItem) (lim off : Option XE) (X : List Tok) (hX : StopsFrom 7 X) :
    Reach (orderBy h whr grp hav S
        ((if ord = [] then [] else .order :: .byKw :: printOItems sty ord)
          ++ (printOpt .limit lim ++ (printOpt .offset off ++ X))))
      ⟨.bodyRet (.mk h.distinct h.items h.src ⟨whr, grp, hav, ord, lim, off⟩), S, X⟩ := by
  have hR4 : StopsFrom 5 (printOpt .limit lim ++ (printOpt .offset off ++ X)) :=
    stops_opt _ _ (by decide) (stops_opt _ _ (by decide) (hX.mono (by decide)))
  by_cases ho : ord = []
  · subst ho
    have hne : (printOpt Tok.limit lim ++ (printOpt Tok.offset off ++ X)).head? ≠ some .order :=
      hR4.head_ne (by decide)
    simp only [if_true, List.nil_append, orderBy, hne, if_false]
    rw [limitOffset_print _ _ _ _ _ _ _ _ _ hX]
    exact Reach.refl _
  · simp only [ho, if_false, List.cons_append, orderBy, List.head?_cons, if_true, List.tail_cons, expect]
    have := order_reach sty h whr grp hav S ord ho [] _ (hR4.mono (by decide)).safe
    rw [List.nil_append, limitOffset_print _ _ _ _ _ _ _ _ _ hX] at this
    exact this

theorem havingC_print (sty : Style) (h : Head) (whr : Option XE) (grp : List XE) (S : List Frame)
    (hav : Option XE) (ord : List OItem) (lim off : Option XE) (X : List Tok) (hX : StopsFrom 7 X) :
    Reach (havingC h whr grp S
        (printOpt .having hav ++ ((if ord = [] then [] else .order :: .byKw :: printOItems sty ord)
          ++ (printOpt .limit lim ++ (printOpt .offset off ++ X)))))
      ⟨.bodyRet (.mk h.distinct h.items h.src ⟨whr, grp, hav, ord, lim, off⟩), S, X⟩ := by
  have hR3 : StopsFrom 4 ((if ord = [] then [] else Tok.order :: Tok.byKw :: printOItems sty ord)
      ++ (printOpt .limit lim ++ (printOpt .offset off ++ X))) := by
    by_cases ho : ord = []
    · simp only [ho, if_true, List.nil_append]
      exact (stops_opt (k := 5) _ _ (by decide) (stops_opt _ _ (by decide) (hX.mono (by decide)))).mono (by decide)
    · simp [ho, StopsFrom, lvl]
  cases hav with
  | none =>
    have hne := hR3.head_ne (t := .having) (by decide)
    rw [printOpt_none, List.nil_append]
    simp only [havingC, hne, if_false]
    exact orderBy_print sty h whr grp none S ord lim off X hX
  | some e =>
    rw [printOpt_some]
    simp only [List.cons_append, List.nil_append, havingC, List.head?_cons, if_true, List.tail_cons]
    rw [parseX_print e _ (hR3.head_ne (by decide)) (hR3.head_ne (by decide))]
    exact orderBy_print sty h whr grp (some e) S ord lim off X hX

theorem tail_reach (sty : Style) (h : Head) (S : List Frame) (tail : Tail) (X : List Tok) (hX : StopsFrom 7 X) :
    Reach (whereC h S (printTail sty tail ++ X)) ⟨.bodyRet (.mk h.distinct h.items h.src tail), S, X⟩ := by
  obtain ⟨whr, grp, hav, ord, lim, off⟩ := tail
  simp only [printTail, List.append_assoc]
  have hR2 : StopsFrom 3 (printOpt .having hav ++ ((if ord = [] then [] else Tok.order :: Tok.byKw :: printOItems sty ord)
      ++ (printOpt .limit lim ++ (printOpt .offset off ++ X)))) := by
    refine stops_opt _ _ (by decide) ?_
    by_cases ho : ord = []
    · simp only [ho, if_true, List.nil_append]
      exact (stops_opt (k := 5) _ _ (by decide) (stops_opt _ _ (by decide) (hX.mono (by decide)))).mono (by decide)
    · simp [ho, StopsFrom, lvl]
  have hgroup : ∀ w : Option XE, Reach (groupBy h w S
      ((if grp = [] then [] else Tok.group :: Tok.byKw :: printXs grp) ++ (printOpt .having hav
        ++ ((if ord = [] then [] else Tok.order :: Tok.byKw :: printOItems sty ord)
          ++ (printOpt .limit lim ++ (printOpt .offset off ++ X))))))
      ⟨.bodyRet (.mk h.distinct h.items h.src ⟨w, grp, hav, ord, lim, off⟩), S, X⟩ := by
    intro w
    by_cases hg : grp = []
    · subst hg
      have hne := hR2.head_ne (t := .group) (by decide)
      simp only [if_true, List.nil_append, groupBy, hne, if_false]
      exact havingC_print sty h w [] S hav ord lim off X hX
    · simp only [hg, if_false, List.cons_append, groupBy, List.head?_cons, if_true, List.tail_cons, expect]
      have := group_reach h w S grp hg [] _ (hR2.mono (by decide)).safe
      rw [List.nil_append] at this
      exact this.trans (havingC_print sty h w grp S hav ord lim off X hX)
  have hR1 : StopsFrom 2 ((if grp = [] then [] else Tok.group :: Tok.byKw :: printXs grp) ++ (printOpt .having hav
      ++ ((if ord = [] then [] else Tok.order :: Tok.byKw :: printOItems sty ord)
        ++ (printOpt .limit lim ++ (printOpt .offset off ++ X))))) := by
    by_cases hg : grp = []
    · simp only [hg, if_true, List.nil_append]; exact hR2.mono (by decide)
    · simp [hg, StopsFrom, lvl]
  cases whr with
  | none =>
    have hne := hR1.head_ne (t := .whereKw) (by decide)
    rw [printOpt_none, List.nil_append]
    simp only [whereC, hne, if_false]
    exact hgroup none
  | some e =>
    rw [printOpt_some]
    simp only [List.cons_append, List.nil_append, whereC, List.head?_cons, if_true, List.tail_cons]
    rw [parseX_print e _ (hR1.head_ne (by decide)) (hR1.head_ne (by decide))]
    exact hgroup (some e)

theorem tail_stops (sty : Style) (tail : Tail) (X : List Tok) (hX : StopsFrom 7 X) :
    StopsFrom 1 (printTail sty tail ++ X) := by
  obtain ⟨whr, grp, hav, ord, lim, off⟩ := tail
  simp only [printTail, List.append_assoc]
  refine stops_opt _ _ (by decide) ?_
  by_cases hg : grp = []
  · simp only [hg, if_true, List.nil_append]
    refine stops_opt _ _ (by decide) ?_
    by_cases ho : ord = []
    · simp only [ho, if_true, List.nil_append]
      exact (stops_opt (k := 5) _ _ (by decide) (stops_opt _ _ (by decide) (hX.mono (by decide)))).mono (by decide)
    · simp [ho, StopsFrom, lvl]
  · simp [hg, StopsFrom, lvl]

/-! ### the select list, USING lists, join keywords -/

/-- where the select list leaves: `FROM`, or straight on to WHERE … -/
def afterItems (d : Bool) (acc : List Item) (S : List Frame) (Y : List Tok) : St :=
  if Y.head? = some .from then ⟨.tref ⟨d, acc, .fromT⟩, S, Y.tail⟩ else whereC ⟨d, acc, .none⟩ S Y

theorem item_step (sty : Style) (d : Bool) (acc : List Item) (it : Item) (S : List Frame) (Z : List Tok)
    (z1 : Z.head? ≠ some .star) (z2 : Z.head? ≠ some .lparen) (z3 : Z.head? ≠ some .asKw)
    (z4 : ∀ n, Z.head? ≠ some (.ident n)) :
    step ⟨.items d acc, S, printItem sty it ++ Z⟩
      = (if Z.head? = some .comma then ⟨.items d (acc ++ [it]), S, Z.tail⟩ else afterItems d (acc ++ [it]) S Z) := by
  obtain ⟨e, a⟩ := it
  simp only [printItem, List.cons_append, step, afterItems]
  rw [parseX_print e _ (alias_head sty a Z (Or.inl rfl) z1) (alias_head sty a Z (Or.inr rfl) z2)]
  simp only [orHalt]
  rw [parseAlias_print sty a Z z3 z4]

theorem items_reach (sty : Style) (d : Bool) (S : List Frame) :
    ∀ (items : List Item), items ≠ [] → ∀ (acc : List Item) (Y : List Tok),
    Y.head? ≠ some .star → Y.head? ≠ some .lparen → Y.head? ≠ some .asKw → (∀ n, Y.head? ≠ some (.ident n)) →
    Y.head? ≠ some .comma →
    Reach ⟨.items d acc, S, printItems sty items ++ Y⟩ (afterItems d (acc ++ items) S Y)
  | [], hne, _, _, _, _, _, _, _ => absurd rfl hne
  | [it], _, acc, Y, y1, y2, y3, y4, y5 => by
      refine Reach.one ?_
      simp only [printItems]
      rw [item_step sty d acc it S Y y1 y2 y3 y4]
      simp [y5]
  | it :: it2 :: rest, _, acc, Y, y1, y2, y3, y4, y5 => by
      have ih := items_reach sty d S (it2 :: rest) (by simp) (acc ++ [it]) Y y1 y2 y3 y4 y5
      refine Reach.head ?_ (by simpa [List.append_assoc] using ih)
      simp only [printItems, List.append_assoc, List.cons_append]
      rw [item_step sty d acc it S _ (by simp) (by simp) (by simp) (by simp)]
      simp

theorem using_reach (d : Bool) (its : List Item) (t0 : TRef) (jacc : JL) (k : JK) (t : TRef) (c : Nat)
    (S : List Frame) (Y : List Tok) : ∀ (cols acc : List Nat),
    Reach ⟨.usingL d its t0 jacc k t c acc, S, printIdents cols ++ .rparen :: Y⟩
      ⟨.joins d its t0 (jacc.snoc k t (.usingC c (acc ++ cols))), S, Y⟩
  | [], acc => by
      refine Reach.one ?_
      simp [printIdents, step, expect]
  | n :: rest, acc => by
      have ih := using_reach d its t0 jacc k t c S Y rest (acc ++ [n])
      refine Reach.head ?_ (by simpa [List.append_assoc] using ih)
      simp [printIdents, step, orHalt, expectIdent]

theorem joinKind_print (sty : Style) (k : JK) (Z : List Tok) : joinKind (printJK sty k ++ Z) = .ok (some (k, Z)) := by
  cases k <;> cases h1 : sty.innerKw <;> cases h2 : sty.outerKw <;> simp [joinKind, printJK, h1, h2]

theorem joinKind_stops {Y : List Tok} (h : StopsFrom 1 Y) : joinKind Y = .ok none := by
  cases Y with
  | nil => rfl
  | cons t r =>
    simp only [StopsFrom] at h
    cases t <;> simp [lvl] at h <;> rfl

/-- the first token of a join: cannot continue a table reference or a condition -/
theorem jk_safe (sty : Style) (k : JK) (Z : List Tok) : Safe (printJK sty k ++ Z) := by
  cases k <;> cases h1 : sty.innerKw <;> cases h2 : sty.outerKw <;> simp [printJK, h1, h2, Safe]

/-! ### bodies, table references, joins -/

theorem JL.snoc_append : ∀ (a : JL) (k : JK) (t : TRef) (c : JCond) (l : JL),
    (a.snoc k t c).append l = a.append (.cons k t c l)
  | .nil, _, _, _, _ => rfl
  | .cons k0 t0 c0 a, k, t, c, l => by simp only [JL.snoc, JL.append, JL.snoc_append a k t c l]

theorem JL.append_nil : ∀ a : JL, a.append .nil = a
  | .nil => rfl
  | .cons k t c a => by simp only [JL.append, JL.append_nil a]

def KQProp (sty : Style) (q : Q) : Prop :=
  ∀ (S : List Frame) (X : List Tok), StopsFrom 7 X → q.WF → S.length + q.sdepth ≤ MAX_SELECT_DEPTH →
    Reach ⟨.body, S, printQ sty q ++ X⟩ ⟨.bodyRet q, S, X⟩

def KTProp (sty : Style) (t : TRef) : Prop :=
  ∀ (fr : Frame) (S : List Frame) (Y : List Tok), Y.head? ≠ some .asKw → (∀ n, Y.head? ≠ some (.ident n)) →
    t.WF → S.length + 1 + t.sdepth ≤ MAX_SELECT_DEPTH →
    Reach ⟨.tref fr, S, printT sty t ++ Y⟩ (afterTref fr t S Y)

def KJProp (sty : Style) (jl : JL) : Prop :=
  ∀ (d : Bool) (its : List Item) (t0 : TRef) (acc : JL) (S : List Frame) (tail : Tail) (X : List Tok),
    StopsFrom 7 X → jl.WF → S.length + 1 + jl.sdepth ≤ MAX_SELECT_DEPTH →
    Reach ⟨.joins d its t0 acc, S, printJL sty jl ++ (printTail sty tail ++ X)⟩
      ⟨.bodyRet (.mk d its (.from t0 (acc.append jl)) tail), S, X⟩

/-- what follows a table reference inside FROM: a join, a clause keyword, a closer -/
theorem jl_safe (sty : Style) (jl : JL) (Y : List Tok) (hY : Safe Y) : Safe (printJL sty jl ++ Y) := by
  cases jl with
  | nil => simpa [printJL] using hY
  | cons k t c rest => simp only [printJL, List.append_assoc]; exact jk_safe sty k _

theorem body_step (sty : Style) (d : Bool) (S : List Frame) (Z : List Tok) (hd : S.length + 1 ≤ MAX_SELECT_DEPTH)
    (z1 : Z.head? ≠ some .distinct) (z2 : Z.head? ≠ some .all) :
    step ⟨.body, S, (if d then [.distinct] else if sty.useAll then [.all] else []) ++ Z⟩ = ⟨.items d [], S, Z⟩ := by
  have : ¬ (S.length + 1 > MAX_SELECT_DEPTH) := by omega
  cases d <;> cases h : sty.useAll <;> simp [step, this, h, z1, z2]

theorem items_head (sty : Style) (items : List Item) (hne : items ≠ []) (Y : List Tok) :
    ∃ e r, printItems sty items ++ Y = printX e :: r := by
  cases items with
  | nil => exact absurd rfl hne
  | cons it rest =>
    cases rest with
    | nil => exact ⟨it.e, printAlias sty it.alias ++ Y, by simp [printItems, printItem]⟩
    | cons it2 rest =>
      exact ⟨it.e, printAlias sty it.alias ++ Tok.comma :: (printItems sty (it2 :: rest) ++ Y),
        by simp [printItems, printItem]⟩

mutual
theorem KQ (sty : Style) : ∀ q : Q, KQProp sty q
  | .mk d items .none tail => by
      intro S X hX hwf hd
      simp only [Q.WF] at hwf
      simp only [Q.sdepth, Src.sdepth] at hd
      simp only [printQ, printSrc, List.nil_append, List.append_assoc]
      obtain ⟨e, r, he⟩ := items_head sty items hwf.1 (printTail sty tail ++ X)
      have hts := tail_stops sty tail X hX
      have h1 := body_step sty d S (printItems sty items ++ (printTail sty tail ++ X)) (by omega)
        (by rw [he]; cases e <;> simp [printX]) (by rw [he]; cases e <;> simp [printX])
      have h2 := items_reach sty d S items hwf.1 [] (printTail sty tail ++ X)
        (hts.head_ne (by decide)) (hts.head_ne (by decide)) (hts.head_ne (by decide))
        (fun n => hts.head_ne (by simp [lvl])) (hts.head_ne (by decide))
      rw [List.nil_append] at h2
      have hnf : (printTail sty tail ++ X).head? ≠ some .from := hts.head_ne (by decide)
      simp only [afterItems, hnf, if_false] at h2
      exact Reach.head h1 (h2.trans (tail_reach sty ⟨d, items, .none⟩ S tail X hX))
  | .mk d items (.from t joins) tail => by
      intro S X hX hwf hd
      simp only [Q.WF, Src.WF] at hwf
      simp only [Q.sdepth, Src.sdepth] at hd
      simp only [printQ, printSrc, List.cons_append, List.append_assoc]
      obtain ⟨e, r, he⟩ := items_head sty items hwf.1
        (Tok.from :: (printT sty t ++ (printJL sty joins ++ (printTail sty tail ++ X))))
      have hts := tail_stops sty tail X hX
      have h1 := body_step sty d S
        (printItems sty items ++ Tok.from :: (printT sty t ++ (printJL sty joins ++ (printTail sty tail ++ X))))
        (by omega) (by rw [he]; cases e <;> simp [printX]) (by rw [he]; cases e <;> simp [printX])
      have h2 := items_reach sty d S items hwf.1 []
        (Tok.from :: (printT sty t ++ (printJL sty joins ++ (printTail sty tail ++ X))))
        (by simp) (by simp) (by simp) (by simp) (by simp)
      rw [List.nil_append] at h2
      simp only [afterItems, List.head?_cons, if_true, List.tail_cons] at h2
      have hs := jl_safe sty joins _ hts.safe
      have h3 := KT sty t ⟨d, items, .fromT⟩ S (printJL sty joins ++ (printTail sty tail ++ X))
        (hs.ne (by simp)) (fun n => hs.ne (by simp)) hwf.2.1 (by omega)
      have h4 := KJ sty joins d items t .nil S tail X hX hwf.2.2 (by omega)
      exact Reach.head h1 (h2.trans (h3.trans h4))
theorem KT (sty : Style) : ∀ t : TRef, KTProp sty t
  | .tbl n a => by
      intro fr S Y y1 y2 _ _
      refine Reach.one ?_
      have hh : (printAlias sty a ++ Y).head? ≠ some .lparen ∨ True := Or.inr trivial
      simp only [printT, List.cons_append, step, List.head?_cons, expectIdent, orHalt]
      rw [parseAlias_print sty a Y y1 y2]
      simp
  | .sub q a => by
      intro fr S Y y1 y2 hwf hd
      simp only [TRef.WF] at hwf
      simp only [TRef.sdepth] at hd
      simp only [printT, List.cons_append, List.append_assoc]
      have h1 : step ⟨.tref fr, S, Tok.lparen :: Tok.select :: (printQ sty q ++ Tok.rparen :: (printAlias sty a ++ Y))⟩
          = ⟨.body, fr :: S, printQ sty q ++ Tok.rparen :: (printAlias sty a ++ Y)⟩ := by
        simp [step, expect]
      have h2 := KQ sty q (fr :: S) (Tok.rparen :: (printAlias sty a ++ Y)) (by simp [StopsFrom, lvl]) hwf
        (by simp only [List.length_cons]; omega)
      have h3 : step ⟨.bodyRet q, fr :: S, Tok.rparen :: (printAlias sty a ++ Y)⟩ = afterTref fr (.sub q a) S Y := by
        simp only [step, expect, if_true, orHalt]
        rw [parseAlias_print sty a Y y1 y2]
      exact Reach.head h1 (h2.trans (Reach.one h3))
theorem KJ (sty : Style) : ∀ jl : JL, KJProp sty jl
  | .nil => by
      intro d its t0 acc S tail X hX _ _
      simp only [printJL, List.nil_append]
      have hts := tail_stops sty tail X hX
      have h1 : step ⟨.joins d its t0 acc, S, printTail sty tail ++ X⟩ = whereC ⟨d, its, .from t0 acc⟩ S (printTail sty tail ++ X) := by
        simp only [step, joinKind_stops hts, orHalt]
      rw [JL.append_nil]
      exact Reach.head h1 (tail_reach sty ⟨d, its, .from t0 acc⟩ S tail X hX)
  | .cons k t c rest => by
      intro d its t0 acc S tail X hX hwf hd
      simp only [JL.WF] at hwf
      simp only [JL.sdepth] at hd
      simp only [printJL, List.append_assoc]
      have hts := tail_stops sty tail X hX
      have hs := jl_safe sty rest _ hts.safe
      have h1 : step ⟨.joins d its t0 acc, S, printJK sty k ++ (printT sty t ++ (printCond c ++ (printJL sty rest ++ (printTail sty tail ++ X))))⟩
          = ⟨.tref ⟨d, its, .joinT t0 acc k⟩, S, printT sty t ++ (printCond c ++ (printJL sty rest ++ (printTail sty tail ++ X)))⟩ := by
        simp only [step, joinKind_print, orHalt]
      have hrest := KJ sty rest d its t0 (acc.snoc k t c) S tail X hX hwf.2 (by omega)
      rw [JL.snoc_append] at hrest
      cases c with
      | none =>
        have h2 := KT sty t ⟨d, its, .joinT t0 acc k⟩ S (printJL sty rest ++ (printTail sty tail ++ X))
          (hs.ne (by simp)) (fun n => hs.ne (by simp)) hwf.1 (by omega)
        have h3 : afterTref ⟨d, its, .joinT t0 acc k⟩ t S (printJL sty rest ++ (printTail sty tail ++ X))
            = ⟨.joins d its t0 (acc.snoc k t .none), S, printJL sty rest ++ (printTail sty tail ++ X)⟩ := by
          have e1 := hs.ne (t := .on) (by simp)
          have e2 := hs.ne (t := .using) (by simp)
          simp only [afterTref, e1, e2, if_false]
        rw [h3] at h2
        simp only [printCond, List.nil_append] at h1 ⊢
        exact Reach.head h1 (h2.trans hrest)
      | on e =>
        have h2 := KT sty t ⟨d, its, .joinT t0 acc k⟩ S (Tok.on :: printX e :: (printJL sty rest ++ (printTail sty tail ++ X)))
          (by simp) (by simp) hwf.1 (by omega)
        have h3 : afterTref ⟨d, its, .joinT t0 acc k⟩ t S (Tok.on :: printX e :: (printJL sty rest ++ (printTail sty tail ++ X)))
            = ⟨.joins d its t0 (acc.snoc k t (.on e)), S, printJL sty rest ++ (printTail sty tail ++ X)⟩ := by
          simp only [afterTref, List.head?_cons, if_true, List.tail_cons]
          rw [parseX_print e _ (hs.ne (by simp)) (hs.ne (by simp))]
          rfl
        rw [h3] at h2
        simp only [printCond, List.cons_append, List.nil_append] at h1 ⊢
        exact Reach.head h1 (h2.trans hrest)
      | usingC c0 cols =>
        have h2 := KT sty t ⟨d, its, .joinT t0 acc k⟩ S
          (Tok.using :: Tok.lparen :: Tok.ident c0 :: (printIdents cols ++ Tok.rparen :: (printJL sty rest ++ (printTail sty tail ++ X))))
          (by simp) (by simp) hwf.1 (by omega)
        have h3 : afterTref ⟨d, its, .joinT t0 acc k⟩ t S
            (Tok.using :: Tok.lparen :: Tok.ident c0 :: (printIdents cols ++ Tok.rparen :: (printJL sty rest ++ (printTail sty tail ++ X))))
            = ⟨.usingL d its t0 acc k t c0 [], S, printIdents cols ++ Tok.rparen :: (printJL sty rest ++ (printTail sty tail ++ X))⟩ := by
          simp [afterTref, expect, orHalt, expectIdent]
        rw [h3] at h2
        have h4 := using_reach d its t0 acc k t c0 S (printJL sty rest ++ (printTail sty tail ++ X)) cols []
        rw [List.nil_append] at h4
        simp only [printCond, List.cons_append, List.append_assoc, List.nil_append] at h1 ⊢
        exact Reach.head h1 (h2.trans (h4.trans hrest))
end

end Neumann.Parse.Clause
