import NeumannModel.Parse.LexLocal
/-
  C15 — lemmas about string literals: the loop `scanStr` of the lexer model against the specification
  `litValue` (what the characters between the delimiters mean) and the canonical renderer `litRender`
  (`Parse/Lex.lean`).  Statements for the property file `LexStrProps.lean`.
-/
namespace Neumann.Parse.Lex

/-- the code points of a piece of source text -/
def cps (b : List Ch) : List Nat := b.map Ch.cp

@[simp] theorem cps_nil : cps [] = [] := rfl
@[simp] theorem cps_cons (c : Ch) (r : List Ch) : cps (c :: r) = c.cp :: cps r := rfl
theorem cps_append (a b : List Ch) : cps (a ++ b) = cps a ++ cps b := by simp [cps]

/-! ### unfolding `litValue` one item at a time -/

theorem litValue_nil (q : Nat) : litValue q [] = some [] := by rw [litValue]

theorem litValue_cons (q c : Nat) (r : List Nat) : litValue q (c :: r) =
    if c = q then
      (match r with
       | d :: r' => if d = q then (litValue q r').map (q :: ·) else none
       | [] => none)
    else if c = 92 then
      (match r with
       | d :: r' => (litValue q r').map (escape d ++ ·)
       | [] => none)
    else if c = 10 then none
    else (litValue q r).map (c :: ·) := by
  conv => lhs; rw [litValue.eq_def]
  rfl

theorem litValue_dq (q : Nat) (r : List Nat) : litValue q (q :: q :: r) = (litValue q r).map (q :: ·) := by
  rw [litValue_cons]; simp

theorem litValue_esc {q : Nat} (h : q ≠ 92) (d : Nat) (r : List Nat) :
    litValue q (92 :: d :: r) = (litValue q r).map (escape d ++ ·) := by
  rw [litValue_cons]; simp [Ne.symm h]

theorem litValue_plain {q c : Nat} (h1 : c ≠ q) (h2 : c ≠ 92) (h3 : c ≠ 10) (r : List Nat) :
    litValue q (c :: r) = (litValue q r).map (c :: ·) := by
  rw [litValue_cons]; simp [h1, h2, h3]

/-- the three kinds of item a body is made of -/
theorem litValue_cons_inv {q c : Nat} {r v : List Nat} (h : litValue q (c :: r) = some v) :
    (c = q ∧ ∃ r' v', r = q :: r' ∧ litValue q r' = some v' ∧ v = q :: v') ∨
    (c ≠ q ∧ c = 92 ∧ ∃ d r' v', r = d :: r' ∧ litValue q r' = some v' ∧ v = escape d ++ v') ∨
    (c ≠ q ∧ c ≠ 92 ∧ c ≠ 10 ∧ ∃ v', litValue q r = some v' ∧ v = c :: v') := by
  rw [litValue_cons] at h
  by_cases hc : c = q
  · rw [if_pos hc] at h
    refine Or.inl ⟨hc, ?_⟩
    cases r with
    | nil => simp at h
    | cons d r' =>
      simp only at h
      by_cases hd : d = q
      · rw [if_pos hd] at h
        cases hv : litValue q r' with
        | none => rw [hv] at h; simp at h
        | some v' =>
          rw [hv] at h; simp at h
          exact ⟨r', v', by rw [hd], hv, h.symm⟩
      · rw [if_neg hd] at h; simp at h
  · rw [if_neg hc] at h
    refine Or.inr ?_
    by_cases h92 : c = 92
    · rw [if_pos h92] at h
      refine Or.inl ⟨hc, h92, ?_⟩
      cases r with
      | nil => simp at h
      | cons d r' =>
        simp only at h
        cases hv : litValue q r' with
        | none => rw [hv] at h; simp at h
        | some v' =>
          rw [hv] at h; simp at h
          exact ⟨d, r', v', rfl, hv, h.symm⟩
    · rw [if_neg h92] at h
      by_cases h10 : c = 10
      · rw [if_pos h10] at h; simp at h
      · rw [if_neg h10] at h
        refine Or.inr ⟨hc, h92, h10, ?_⟩
        cases hv : litValue q r with
        | none => rw [hv] at h; simp at h
        | some v' =>
          rw [hv] at h; simp at h
          exact ⟨v', rfl, h.symm⟩

theorem escape_ne_nil (d : Nat) : escape d ≠ [] := by
  unfold escape
  repeat' split
  all_goals simp

/-- only the empty body has the empty value -/
theorem litValue_eq_nil {q : Nat} {b : List Nat} (h : litValue q b = some []) : b = [] := by
  cases b with
  | nil => rfl
  | cons c r =>
    rcases litValue_cons_inv h with ⟨_, _, _, _, _, hv⟩ | ⟨_, _, d, _, v', _, _, hv⟩ | ⟨_, _, _, _, _, hv⟩
    · simp at hv
    · exfalso
      have := escape_ne_nil d
      cases he : escape d with
      | nil => exact this he
      | cons x y => rw [he] at hv; simp at hv
    · simp at hv

/-! ### the canonical renderer -/

theorem litRender_nil (q : Nat) : litRender q [] = [] := rfl
theorem litRender_cons (q c : Nat) (v : List Nat) : litRender q (c :: v) = renderCp q c ++ litRender q v := by
  simp [litRender]

theorem litValue_renderCp {q : Nat} (hq : q ≠ 92) (c : Nat) (r : List Nat) :
    litValue q (renderCp q c ++ r) = (litValue q r).map (c :: ·) := by
  unfold renderCp
  by_cases h1 : c = q
  · subst h1; rw [if_pos rfl]; exact litValue_dq c r
  · rw [if_neg h1]
    by_cases h2 : c = 92
    · subst h2; rw [if_pos rfl]
      show litValue q (92 :: 92 :: r) = _
      rw [litValue_esc hq]; rfl
    · rw [if_neg h2]
      by_cases h3 : c = 10
      · subst h3; rw [if_pos rfl]
        show litValue q (92 :: 110 :: r) = _
        rw [litValue_esc hq]; rfl
      · rw [if_neg h3]
        exact litValue_plain h1 h2 h3 r

/-- ROUND TRIP on code points: the canonical rendering of `v` means `v`. -/
theorem litValue_litRender {q : Nat} (hq : q ≠ 92) : ∀ v : List Nat, litValue q (litRender q v) = some v
  | [] => litValue_nil q
  | c :: v => by
    rw [litRender_cons, litValue_renderCp hq, litValue_litRender hq v]; rfl

/-- a body without the delimiter, a backslash or a newline means itself -/
theorem litValue_plain_body {q : Nat} : ∀ b : List Nat, (∀ c ∈ b, c ≠ q ∧ c ≠ 92 ∧ c ≠ 10) → litValue q b = some b
  | [], _ => litValue_nil q
  | c :: r, h => by
    have hc := h c (List.mem_cons_self)
    rw [litValue_plain hc.1 hc.2.1 hc.2.2, litValue_plain_body r (fun x hx => h x (List.mem_cons_of_mem _ hx))]; rfl

/-! ### the loop computes the specification -/

theorem scanStr_one (q : Nat) (acc : List Nat) (p : Nat) (c : Ch) :
    scanStr q acc p [c] =
      if c.cp = q then (some acc.reverse, p + c.len, [])
      else if c.cp = 92 then (none, p + c.len, [])
      else if c.cp = 10 then (none, p, [c])
      else (none, p + c.len, []) := by
  rw [scanStr]
  split
  · rfl
  · split
    · rfl
    · split
      · rfl
      · rw [scanStr]

/-- the closing delimiter, not followed by another one, ends the literal -/
theorem scanStr_close (q : Nat) (acc : List Nat) (p : Nat) (Q : Ch) (rest : List Ch) (hQ : Q.cp = q)
    (hr : rest.head?.map Ch.cp ≠ some q) :
    scanStr q acc p (Q :: rest) = (some acc.reverse, p + Q.len, rest) := by
  cases rest with
  | nil => rw [scanStr_one, if_pos hQ]
  | cons d r' =>
    rw [scanStr_cons2, if_pos hQ, if_neg]
    intro hd; exact hr (by simp [hd])

/-- FORWARD: a body that means `v`, followed by the closing delimiter (itself not followed by a further
    delimiter), is scanned to the value `v`, ending exactly behind the closing delimiter. -/
theorem scanStr_of_litValue (q : Nat) (b : List Ch) (v : List Nat) (h : litValue q (cps b) = some v)
    (acc : List Nat) (p : Nat) (Q : Ch) (rest : List Ch) (hQ : Q.cp = q)
    (hr : rest.head?.map Ch.cp ≠ some q) :
    scanStr q acc p (b ++ Q :: rest) = (some (acc.reverse ++ v), p + bytes b + Q.len, rest) := by
  match b with
  | [] =>
    rw [cps_nil, litValue_nil] at h
    cases h
    rw [List.nil_append, scanStr_close q acc p Q rest hQ hr]
    simp [bytes]
  | [c] =>
    rw [cps_cons, cps_nil] at h
    rcases litValue_cons_inv h with ⟨_, _, _, hn, _, _⟩ | ⟨_, _, _, _, _, hn, _, _⟩ | ⟨h1, h2, h3, v', hv', rfl⟩
    · simp at hn
    · simp at hn
    · rw [litValue_nil] at hv'
      cases hv'
      show scanStr q acc p (c :: Q :: rest) = _
      rw [scanStr_cons2, if_neg h1, if_neg h2, if_neg h3, scanStr_close q _ _ Q rest hQ hr]
      simp [bytes, Nat.add_assoc]
  | c :: d :: r' =>
    rw [cps_cons, cps_cons] at h
    show scanStr q acc p (c :: d :: (r' ++ Q :: rest)) = _
    rcases litValue_cons_inv h with ⟨h1, r0, v', hr0, hv', rfl⟩ | ⟨h1, h2, d0, r0, v', hr0, hv', rfl⟩ |
      ⟨h1, h2, h3, v', hv', rfl⟩
    · have hd : d.cp = q := by simpa using (List.cons.inj hr0).1
      have hr0' : cps r' = r0 := (List.cons.inj hr0).2
      subst hr0'
      rw [scanStr_cons2, if_pos h1, if_pos hd, scanStr_of_litValue q r' v' hv' _ _ Q rest hQ hr]
      simp [bytes, Nat.add_assoc]
    · have hd : d.cp = d0 := (List.cons.inj hr0).1
      have hr0' : cps r' = r0 := (List.cons.inj hr0).2
      subst hr0'; subst hd
      rw [scanStr_cons2, if_neg h1, if_pos h2, scanStr_of_litValue q r' v' hv' _ _ Q rest hQ hr]
      simp [bytes, Nat.add_assoc]
    · have hv'' : litValue q (cps (d :: r')) = some v' := hv'
      rw [scanStr_cons2, if_neg h1, if_neg h2, if_neg h3]
      have := scanStr_of_litValue q (d :: r') v' hv'' (c.cp :: acc) (p + c.len) Q rest hQ hr
      rw [List.cons_append] at this
      rw [this]
      simp [bytes, Nat.add_assoc]
termination_by b.length

/-- BACKWARD: whenever the loop ends a literal, what it consumed is a body, the closing delimiter, and the
    value is what that body means; the character after the closing delimiter is not a delimiter. -/
theorem litValue_of_scanStr (q : Nat) (src : List Ch) (acc : List Nat) (p : Nat) (v : List Nat) (p' : Nat)
    (rest : List Ch) (h : scanStr q acc p src = (some v, p', rest)) :
    ∃ b Q vb, src = b ++ Q :: rest ∧ Q.cp = q ∧ litValue q (cps b) = some vb ∧ v = acc.reverse ++ vb ∧
      p' = p + bytes b + Q.len ∧ rest.head?.map Ch.cp ≠ some q := by
  match src with
  | [] => rw [scanStr] at h; simp at h
  | [c] =>
    rw [scanStr_one] at h
    by_cases h1 : c.cp = q
    · rw [if_pos h1] at h
      simp only [Prod.mk.injEq, Option.some.injEq] at h
      obtain ⟨rfl, rfl, rfl⟩ := h
      exact ⟨[], c, [], rfl, h1, litValue_nil q, by simp, by simp [bytes], by simp⟩
    · rw [if_neg h1] at h
      split at h
      · simp at h
      · split at h <;> simp at h
  | c :: d :: r' =>
    rw [scanStr_cons2] at h
    by_cases h1 : c.cp = q
    · rw [if_pos h1] at h
      by_cases hd : d.cp = q
      · rw [if_pos hd] at h
        obtain ⟨b, Q, vb, e, hQ, hv, ev, ep, hn⟩ := litValue_of_scanStr q r' _ _ v p' rest h
        refine ⟨c :: d :: b, Q, q :: vb, by rw [e]; rfl, hQ, ?_, ?_, ?_, hn⟩
        · rw [cps_cons, cps_cons, h1, hd, litValue_dq, hv]; rfl
        · rw [ev]; simp
        · rw [ep]; simp [bytes, Nat.add_assoc]
      · rw [if_neg hd] at h
        simp only [Prod.mk.injEq, Option.some.injEq] at h
        obtain ⟨rfl, rfl, rfl⟩ := h
        exact ⟨[], c, [], rfl, h1, litValue_nil q, by simp, by simp [bytes], by simpa using hd⟩
    · rw [if_neg h1] at h
      by_cases h2 : c.cp = 92
      · rw [if_pos h2] at h
        obtain ⟨b, Q, vb, e, hQ, hv, ev, ep, hn⟩ := litValue_of_scanStr q r' _ _ v p' rest h
        have hq : q ≠ 92 := fun hq => h1 (by rw [h2, hq])
        refine ⟨c :: d :: b, Q, escape d.cp ++ vb, by rw [e]; rfl, hQ, ?_, ?_, ?_, hn⟩
        · rw [cps_cons, cps_cons, h2, litValue_esc hq, hv]; rfl
        · rw [ev]; simp
        · rw [ep]; simp [bytes, Nat.add_assoc]
      · rw [if_neg h2] at h
        by_cases h3 : c.cp = 10
        · rw [if_pos h3] at h; simp at h
        · rw [if_neg h3] at h
          obtain ⟨b, Q, vb, e, hQ, hv, ev, ep, hn⟩ := litValue_of_scanStr q (d :: r') _ _ v p' rest h
          refine ⟨c :: b, Q, c.cp :: vb, by rw [e]; rfl, hQ, ?_, ?_, ?_, hn⟩
          · rw [cps_cons, litValue_plain h1 h2 h3, hv]; rfl
          · rw [ev]; simp
          · rw [ep]; simp [bytes, Nat.add_assoc]
termination_by src.length

/-! ### two spellings of one value -/

/-- UNIQUENESS UP TO ESCAPES.  Two different bodies with the same value have a common prefix `w` made of
    whole items (it is a body itself), after which at least one of them goes on with a backslash escape; what
    is left of the two bodies again has one common value. -/
theorem litValue_same_value (q : Nat) (b1 b2 : List Nat) (v : List Nat) (h1 : litValue q b1 = some v)
    (h2 : litValue q b2 = some v) (hne : b1 ≠ b2) :
    ∃ w r1 r2 v0 v1, b1 = w ++ r1 ∧ b2 = w ++ r2 ∧ litValue q w = some v0 ∧ litValue q r1 = some v1 ∧
      litValue q r2 = some v1 ∧ v = v0 ++ v1 ∧ (r1.head? = some 92 ∨ r2.head? = some 92) := by
  -- a body that starts with an escape: the prefix is empty
  have start1 : ∀ r, b1 = 92 :: r → _ := fun r e =>
    (⟨[], b1, b2, [], v, rfl, rfl, litValue_nil q, h1, h2, rfl, Or.inl (by rw [e]; rfl)⟩ :
      ∃ w r1 r2 v0 v1, b1 = w ++ r1 ∧ b2 = w ++ r2 ∧ litValue q w = some v0 ∧ litValue q r1 = some v1 ∧
        litValue q r2 = some v1 ∧ v = v0 ++ v1 ∧ (r1.head? = some 92 ∨ r2.head? = some 92))
  have start2 : ∀ r, b2 = 92 :: r → _ := fun r e =>
    (⟨[], b1, b2, [], v, rfl, rfl, litValue_nil q, h1, h2, rfl, Or.inr (by rw [e]; rfl)⟩ :
      ∃ w r1 r2 v0 v1, b1 = w ++ r1 ∧ b2 = w ++ r2 ∧ litValue q w = some v0 ∧ litValue q r1 = some v1 ∧
        litValue q r2 = some v1 ∧ v = v0 ++ v1 ∧ (r1.head? = some 92 ∨ r2.head? = some 92))
  match b1, b2 with
  | [], [] => exact absurd rfl hne
  | [], c :: r =>
    rw [litValue_nil] at h1; cases h1
    exact absurd (litValue_eq_nil h2) (by simp)
  | c :: r, [] =>
    rw [litValue_nil] at h2; cases h2
    exact absurd (litValue_eq_nil h1) (by simp)
  | c1 :: t1, c2 :: t2 =>
    rcases litValue_cons_inv h1 with ⟨a1, s1, u1, e1, g1, rfl⟩ | ⟨_, a1, _⟩ | ⟨a1, a2, a3, u1, g1, rfl⟩
    · -- b1 starts with a doubled delimiter
      rcases litValue_cons_inv h2 with ⟨c1', s2, u2, e2, g2, ev⟩ | ⟨_, c1', _⟩ | ⟨c1', _, _, u2, _, ev⟩
      · have eu : u1 = u2 := (List.cons.inj ev).2
        subst eu; subst e1; subst e2
        have hne' : s1 ≠ s2 := fun e => hne (by rw [a1, c1', e])
        obtain ⟨w, r1, r2, v0, v1, f1, f2, gw, gr1, gr2, fv, hb⟩ := litValue_same_value q s1 s2 u1 g1 g2 hne'
        refine ⟨q :: q :: w, r1, r2, q :: v0, v1, by rw [a1, f1]; rfl, by rw [c1', f2]; rfl, ?_, gr1, gr2, by rw [fv]; rfl, hb⟩
        rw [litValue_dq, gw]; rfl
      · exact start2 t2 (by rw [c1'])
      · exact absurd (List.cons.inj ev).1.symm c1'
    · exact start1 t1 (by rw [a1])
    · -- b1 starts with a character that stands for itself
      rcases litValue_cons_inv h2 with ⟨c1', s2, u2, e2, g2, ev⟩ | ⟨_, c1', _⟩ | ⟨c1', c2', c3', u2, g2, ev⟩
      · exact absurd (List.cons.inj ev).1 a1
      · exact start2 t2 (by rw [c1'])
      · have ec : c1 = c2 := (List.cons.inj ev).1
        have eu : u1 = u2 := (List.cons.inj ev).2
        subst ec; subst eu
        have hne' : t1 ≠ t2 := fun e => hne (by rw [e])
        obtain ⟨w, r1, r2, v0, v1, f1, f2, gw, gr1, gr2, fv, hb⟩ := litValue_same_value q t1 t2 u1 g1 g2 hne'
        refine ⟨c1 :: w, r1, r2, c1 :: v0, v1, by rw [f1]; rfl, by rw [f2]; rfl, ?_, gr1, gr2, by rw [fv]; rfl, hb⟩
        rw [litValue_plain a1 a2 a3, gw]; rfl
termination_by b1.length

/-- without backslash escapes the spelling of a value is unique -/
theorem litValue_injective_without_escapes (q : Nat) (b1 b2 : List Nat) (v : List Nat)
    (h1 : litValue q b1 = some v) (h2 : litValue q b2 = some v) (n1 : 92 ∉ b1) (n2 : 92 ∉ b2) : b1 = b2 := by
  by_cases hne : b1 = b2
  · exact hne
  · obtain ⟨w, r1, r2, _, _, f1, f2, _, _, _, _, hb⟩ := litValue_same_value q b1 b2 v h1 h2 hne
    exfalso
    rcases hb with hb | hb
    · cases r1 with
      | nil => simp at hb
      | cons x y => simp at hb; subst hb; exact n1 (by rw [f1]; simp)
    · cases r2 with
      | nil => simp at hb
      | cons x y => simp at hb; subst hb; exact n2 (by rw [f2]; simp)

/-! ### `next_token` on a quote character -/

/-- the two characters that open a string literal: `'` and `"` -/
def IsQuote (q : Nat) : Prop := q = 39 ∨ q = 34

theorem IsQuote.ne92 {q : Nat} (h : IsQuote q) : q ≠ 92 := by
  rcases h with h | h <;> omega

/-- `next_token` on a quote character is `scan_string` with that character as the delimiter -/
theorem scanToken_quote {Q : Ch} (hq : IsQuote Q.cp) (p : Nat) (r : List Ch) :
    ∃ k, scanToken p Q r = (⟨k, p, (scanStr Q.cp [] (p + Q.len) r).2.1⟩, (scanStr Q.cp [] (p + Q.len) r).2) ∧
      (∀ v, (scanStr Q.cp [] (p + Q.len) r).1 = some v → k = .str v) ∧
      ((scanStr Q.cp [] (p + Q.len) r).1 = none → k = .errUnterminated) := by
  have h1 : isIdentStart Q = false := by rcases hq with h | h <;> simp [isIdentStart, h]
  have h2 : isDigit Q = false := by rcases hq with h | h <;> simp [isDigit, h]
  have h3 : Q.cp = 39 ∨ Q.cp = 34 := hq
  unfold scanToken
  simp only [h1, h2, if_pos h3, Bool.false_eq_true, if_false]
  refine ⟨_, rfl, ?_, ?_⟩
  · intro v hv; rw [hv]
  · intro hv; rw [hv]

end Neumann.Parse.Lex
