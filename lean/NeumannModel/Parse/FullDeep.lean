import NeumannModel.Parse.FullRound
/-
  C15 — exactness of the depth accounting of the complete expression grammar model
  (`Parse/Full.lean`): a print that needs one frame too many is answered `TooDeep` (never
  mis-parsed, never another error).  Core Lean only (no Mathlib).
-/
namespace Neumann.Parse.Full

/-- the run from `st` ends with `TooDeep` -/
def TD (mode : Mode) (st : St) : Prop := ∃ k, Reach mode st (fail (.tooDeep k))

theorem TD.head {mode : Mode} {a b : St} (h : step mode a = b) (t : TD mode b) : TD mode a := by
  obtain ⟨k, hk⟩ := t
  exact ⟨k, Reach.head h hk⟩

theorem TD.of_reach {mode : Mode} {a b : St} (r : Reach mode a b) (t : TD mode b) : TD mode a := by
  obtain ⟨k, hk⟩ := t
  exact ⟨k, r.trans hk⟩

/-- `self.depth > MAX_DEPTH` at the entry of `parse_expr_bp` -/
theorem start_td {mode : Mode} {m : Nat} {S : List Frame} {ts : List Tok} (h : MAX_DEPTH < S.length + 1) :
    TD mode ⟨.start m, S, ts⟩ :=
  ⟨ts.length, Reach.one (by simp [step, stepStart, h])⟩

def TDProp (mode : Mode) (extra : E → Bool) (e : E) : Prop :=
  ∀ (m : Nat) (S : List Frame) (X ts : List Tok), ts = printWith extra e ++ X → m ≤ topBp e →
    S.length ≤ MAX_DEPTH → MAX_DEPTH < S.length + framesWith extra e → TD mode ⟨.start m, S, ts⟩

theorem subjectL_td {mode : Mode} {extra : E → Bool} {x : E} (ih : TDProp mode extra x) (b : Bool) (m : Nat)
    (S : List Frame) (X ts : List Tok) (hts : ts = wrap b (printWith extra x) ++ X)
    (hb : b = true ∨ m ≤ topBp x) (hS : S.length ≤ MAX_DEPTH)
    (hd : MAX_DEPTH < S.length + wf b (framesWith extra x)) : TD mode ⟨.start m, S, ts⟩ := by
  cases b with
  | false =>
    simp only [wf, Bool.false_eq_true, if_false] at hd
    cases hb with
    | inl h => cases h
    | inr h => exact ih m S X ts hts h hS hd
  | true =>
    simp only [wf, if_true] at hd
    by_cases h0 : MAX_DEPTH < S.length + 1
    · exact start_td h0
    · rw [wrap_true] at hts
      have h1 := start_paren (mode := mode) (m := m) (S := S) hts (by omega)
        (by have := wprint_head_ne extra false x (Tok.rparen :: X) (t := .rparen) rfl; simpa [wrap] using this)
      refine TD.head h1 (ih 0 _ (.rparen :: X) _ rfl (Nat.zero_le _) ?_ ?_) <;>
        simp only [List.length_cons] <;> omega

/-- an item / CASE part that does not fit -/
theorem item_td {mode : Mode} {extra : E → Bool} {x : E} (ih : TDProp mode extra x) (b : Bool)
    (S : List Frame) (X ts : List Tok) (hts : ts = wrap b (printWith extra x) ++ X)
    (hS : S.length ≤ MAX_DEPTH) (hd : MAX_DEPTH < S.length + wf b (framesWith extra x)) :
    TD mode ⟨.start 0, S, ts⟩ :=
  subjectL_td ih b 0 S X ts hts (Or.inr (Nat.zero_le _)) hS hd

/-- an operand at `min_bp = 19` that does not fit -/
theorem operand19_td {mode : Mode} {extra : E → Bool} {x : E} (ih : TDProp mode extra x)
    (S : List Frame) (X ts : List Tok)
    (hts : ts = wrap (extra x || decide (topBp x < PREFIX_BP)) (printWith extra x) ++ X)
    (hS : S.length ≤ MAX_DEPTH)
    (hd : MAX_DEPTH < S.length + wf (extra x || decide (topBp x < PREFIX_BP)) (framesWith extra x)) :
    TD mode ⟨.start PREFIX_BP, S, ts⟩ :=
  subjectL_td ih _ PREFIX_BP S X ts hts (or_dec_cases _ _ _) hS hd

/-- the subject of a postfix form that does not fit -/
theorem subject_td {mode : Mode} {extra : E → Bool} {x : E} (ih : TDProp mode extra x) (m : Nat)
    (S : List Frame) (Y ts : List Tok)
    (hts : ts = wrap (extra x || openEnd x) (printWith extra x) ++ Y) (hm : m ≤ 100)
    (hS : S.length ≤ MAX_DEPTH)
    (hd : MAX_DEPTH < S.length + wf (extra x || openEnd x) (framesWith extra x)) :
    TD mode ⟨.start m, S, ts⟩ := by
  refine subjectL_td ih _ m S Y ts hts ?_ hS hd
  cases hb : (extra x || openEnd x) with
  | true => exact Or.inl rfl
  | false =>
    right
    simp only [Bool.or_eq_false_iff] at hb
    cases x <;> simp only [topBp] <;> first | exact hm | simp [openEnd] at hb

def TailTD (mode : Mode) (extra : E → Bool) (l : EL) : Prop :=
  ∀ (lk : LK) (acc : EL) (e : E) (m s : Nat) (S : List Frame) (X ts : List Tok),
    ts = printTail extra l ++ lk.close :: X → S.length + 1 ≤ MAX_DEPTH →
    MAX_DEPTH < (S.length + 1) + framesItems extra l →
    TD mode ⟨.ret e, ⟨.list lk acc, m, s⟩ :: S, ts⟩

def WhensTD (mode : Mode) (extra : E → Bool) (l : WL) : Prop :=
  ∀ (operand : OE) (acc : WL) (c r : E) (els : OE) (m s : Nat) (S : List Frame) (X ts : List Tok),
    (∀ e, els = .some e → TDProp mode extra e) →
    ts = printWhens extra l ++ (printElse extra els ++ .endKw :: X) → S.length + 1 ≤ MAX_DEPTH →
    MAX_DEPTH < (S.length + 1) + max (framesWhens extra l) (framesOpt extra els) →
    TD mode ⟨.ret r, ⟨.caseRes operand acc c, m, s⟩ :: S, ts⟩

/-- a non-empty list that does not fit, from its first item on -/
theorem list_items_td {mode : Mode} {extra : E → Bool} (lk : LK) (a : E) (l : EL) (m s : Nat)
    (S : List Frame) (X ts : List Tok) (ha : TDProp mode extra a) (hl : TailTD mode extra l)
    (hts : ts = wrap (extra a) (printWith extra a) ++ (printTail extra l ++ lk.close :: X))
    (hS : S.length + 1 ≤ MAX_DEPTH)
    (hd : MAX_DEPTH < (S.length + 1) + max (wf (extra a) (framesWith extra a)) (framesItems extra l)) :
    TD mode ⟨.start 0, ⟨.list lk .nil, m, s⟩ :: S, ts⟩ := by
  by_cases h1 : MAX_DEPTH < (S.length + 1) + wf (extra a) (framesWith extra a)
  · exact item_td ha _ _ _ ts hts (by simp only [List.length_cons]; omega) (by simp only [List.length_cons]; omega)
  · have h2 := item (KE mode extra a) (extra a) (⟨.list lk .nil, m, s⟩ :: S) (printTail extra l ++ lk.close :: X) ts hts
      (by simp only [List.length_cons]; omega) (tail_stops extra l lk X)
    exact TD.of_reach h2 (hl lk .nil a m s S X _ rfl hS (by omega))

/-- a CASE that does not fit, from its first WHEN condition on -/
theorem case_tail_td {mode : Mode} {extra : E → Bool} (operand : OE) (c r : E) (rest : WL) (els : OE)
    (m s : Nat) (S : List Frame) (X ts : List Tok)
    (hc : TDProp mode extra c) (hr : TDProp mode extra r) (hrest : WhensTD mode extra rest)
    (hels : ∀ e, els = .some e → TDProp mode extra e)
    (hts : ts = wrap (extra c) (printWith extra c) ++ (.thenKw :: (wrap (extra r) (printWith extra r)
      ++ (printWhens extra rest ++ (printElse extra els ++ .endKw :: X)))))
    (hS : S.length + 1 ≤ MAX_DEPTH)
    (hd : MAX_DEPTH < (S.length + 1) + max (wf (extra c) (framesWith extra c)) (max (wf (extra r) (framesWith extra r))
      (max (framesWhens extra rest) (framesOpt extra els)))) :
    TD mode ⟨.start 0, ⟨.caseCond operand .nil, m, s⟩ :: S, ts⟩ := by
  by_cases h1 : MAX_DEPTH < (S.length + 1) + wf (extra c) (framesWith extra c)
  · exact item_td hc _ _ _ ts hts (by simp only [List.length_cons]; omega) (by simp only [List.length_cons]; omega)
  · have g1 := item (KE mode extra c) (extra c) (⟨.caseCond operand .nil, m, s⟩ :: S) _ ts hts
      (by simp only [List.length_cons]; omega) (headStops0_then _)
    have g2 := ret_caseCond (mode := mode) (e := c) (operand := operand) (acc := .nil) (m := m) (s := s) (S := S)
      (r := wrap (extra r) (printWith extra r) ++ (printWhens extra rest ++ (printElse extra els ++ .endKw :: X)))
    refine TD.of_reach g1 (TD.head g2 ?_)
    by_cases h2 : MAX_DEPTH < (S.length + 1) + wf (extra r) (framesWith extra r)
    · exact item_td hr _ _ _ _ rfl (by simp only [List.length_cons]; omega) (by simp only [List.length_cons]; omega)
    · have g3 := item (KE mode extra r) (extra r) (⟨.caseRes operand .nil c, m, s⟩ :: S)
        (printWhens extra rest ++ (printElse extra els ++ .endKw :: X)) _ rfl
        (by simp only [List.length_cons]; omega) (whens_stop extra rest els X)
      exact TD.of_reach g3 (hrest operand .nil c r els m s S X _ hels rfl hS (by omega))

mutual
theorem TDE (mode : Mode) (extra : E → Bool) : ∀ e : E, TDProp mode extra e
  | .lit n => by
      intro m S X ts _ _ _ hd; simp only [framesWith] at hd; exact start_td hd
  | .null => by
      intro m S X ts _ _ _ hd; simp only [framesWith] at hd; exact start_td hd
  | .kwIdent n => by
      intro m S X ts _ _ _ hd; simp only [framesWith] at hd; exact start_td hd
  | .ident n => by
      intro m S X ts _ _ _ hd; simp only [framesWith] at hd; exact start_td hd
  | .wildcard => by
      intro m S X ts _ _ _ hd; simp only [framesWith] at hd; exact start_td hd
  | .unit => by
      intro m S X ts _ _ _ hd; simp only [framesWith] at hd; exact start_td hd
  | .qualWild kw n => by
      intro m S X ts _ _ _ hd; simp only [framesWith] at hd; exact start_td hd
  | .un u x => by
      intro m S X ts hts _ hS hd
      simp only [framesWith] at hd
      simp only [printWith, List.cons_append] at hts
      by_cases h0 : MAX_DEPTH < S.length + 1
      · exact start_td h0
      · have h1 := start_unary (mode := mode) (m := m) (S := S) hts (by omega)
        refine TD.head h1 (operand19_td (TDE mode extra x) _ X _ rfl ?_ ?_) <;>
          simp only [List.length_cons] <;> omega
  | .bin l o r => by
      intro m S X ts hts hm hS hd
      simp only [framesWith] at hd
      simp only [topBp] at hm
      simp only [printWith, List.append_assoc, List.cons_append] at hts
      have hbl : (extra l || decide (topBp l < lbp o)) = true ∨ m ≤ topBp l := by
        rcases or_dec_cases (extra l) (topBp l) (lbp o) with h | h
        · exact Or.inl h
        · exact Or.inr (by omega)
      by_cases h1 : MAX_DEPTH < S.length + wf (extra l || decide (topBp l < lbp o)) (framesWith extra l)
      · exact subjectL_td (TDE mode extra l) _ m S _ ts hts hbl hS h1
      · have g1 := subjectL (KE mode extra l) (extra l || decide (topBp l < lbp o)) m S _ ts hts hbl
          (fun hb => stopAbove_left (or_dec_false hb)) (by omega)
        have g2 := loop_bin (mode := mode) (s := ts.length) (lhs := l) (S := S)
          (r := wrap (extra r || decide (topBp r < rbp o)) (printWith extra r) ++ X) (show ¬ lbp o < m by omega)
        have hpos := frames_pos extra l
        have hw := wf_ge (extra l || decide (topBp l < lbp o)) (framesWith extra l)
        refine TD.of_reach g1 (TD.head g2 (subjectL_td (TDE mode extra r) _ (rbp o) _ X _ rfl (or_dec_cases _ _ _) ?_ ?_)) <;>
          simp only [List.length_cons] <;> omega
  | .isNull x neg => by
      intro m S X ts hts hm hS hd
      simp only [framesWith] at hd
      simp only [topBp] at hm
      simp only [printWith, List.append_assoc, List.cons_append, List.nil_append] at hts
      exact subject_td (TDE mode extra x) m S _ ts hts hm hS hd
  | .qual x n => by
      intro m S X ts hts hm hS hd
      simp only [framesWith] at hd
      simp only [topBp] at hm
      simp only [printWith, List.append_assoc, List.cons_append, List.nil_append] at hts
      exact subject_td (TDE mode extra x) m S _ ts hts hm hS hd
  | .like x neg p => by
      intro m S X ts hts hm hS hd
      simp only [framesWith] at hd
      simp only [topBp] at hm
      simp only [printWith, List.append_assoc, List.cons_append] at hts
      by_cases h1 : MAX_DEPTH < S.length + wf (extra x || openEnd x) (framesWith extra x)
      · exact subject_td (TDE mode extra x) m S _ ts hts hm hS h1
      · have g1 := subject (KE mode extra x) m S _ ts hts hm (by cases neg <;> simp [negToks]) (by omega)
        have g2 := loop_like (mode := mode) (m := m) (s := ts.length) (lhs := x) (S := S) (neg := neg)
          (r := wrap (extra p || decide (topBp p < PREFIX_BP)) (printWith extra p) ++ X)
        have hpos := frames_pos extra x
        have hw := wf_ge (extra x || openEnd x) (framesWith extra x)
        refine TD.of_reach g1 (TD.head g2 (operand19_td (TDE mode extra p) _ X _ rfl ?_ ?_)) <;>
          simp only [List.length_cons] <;> omega
  | .between x neg lo hi => by
      intro m S X ts hts hm hS hd
      simp only [framesWith] at hd
      simp only [topBp] at hm
      simp only [printWith, List.append_assoc, List.cons_append] at hts
      by_cases h1 : MAX_DEPTH < S.length + wf (extra x || openEnd x) (framesWith extra x)
      · exact subject_td (TDE mode extra x) m S _ ts hts hm hS h1
      · have g1 := subject (KE mode extra x) m S _ ts hts hm (by cases neg <;> simp [negToks]) (by omega)
        have g2 := loop_between (mode := mode) (m := m) (s := ts.length) (lhs := x) (S := S) (neg := neg)
          (r := wrap (extra lo || decide (topBp lo < PREFIX_BP)) (printWith extra lo)
            ++ (.op .and :: (wrap (extra hi || decide (topBp hi < PREFIX_BP)) (printWith extra hi) ++ X)))
        have hpos := frames_pos extra x
        have hw := wf_ge (extra x || openEnd x) (framesWith extra x)
        refine TD.of_reach g1 (TD.head g2 ?_)
        by_cases h2 : MAX_DEPTH < (S.length + 1) + wf (extra lo || decide (topBp lo < PREFIX_BP)) (framesWith extra lo)
        · refine operand19_td (TDE mode extra lo) _ _ _ rfl ?_ ?_ <;> simp only [List.length_cons] <;> omega
        · have g3 := operand19 (KE mode extra lo) (⟨.betLo x neg, m, ts.length⟩ :: S)
            (.op .and :: (wrap (extra hi || decide (topBp hi < PREFIX_BP)) (printWith extra hi) ++ X)) _ rfl
            (by simp only [List.length_cons]; omega) (headStops_op (by decide))
          have g4 := ret_betLo (mode := mode) (e := lo) (subj := x) (neg := neg) (m := m) (s := ts.length) (S := S)
            (r := wrap (extra hi || decide (topBp hi < PREFIX_BP)) (printWith extra hi) ++ X)
          refine TD.of_reach g3 (TD.head g4 (operand19_td (TDE mode extra hi) _ X _ rfl ?_ ?_)) <;>
            simp only [List.length_cons] <;> omega
  | .inList x neg .nil => by
      intro m S X ts hts hm hS hd
      simp only [framesWith, framesItems] at hd
      simp only [topBp] at hm
      simp only [printWith, printItems, List.append_assoc, List.cons_append, List.nil_append] at hts
      have hpos := frames_pos extra x
      have hw := wf_ge (extra x || openEnd x) (framesWith extra x)
      exact subject_td (TDE mode extra x) m S _ ts hts hm hS (by omega)
  | .inList x neg (.cons a l) => by
      intro m S X ts hts hm hS hd
      simp only [framesWith, framesItems] at hd
      simp only [topBp] at hm
      simp only [printWith, printItems, List.append_assoc, List.cons_append, List.nil_append] at hts
      by_cases h1 : MAX_DEPTH < S.length + wf (extra x || openEnd x) (framesWith extra x)
      · exact subject_td (TDE mode extra x) m S _ ts hts hm hS h1
      · have g1 := subject (KE mode extra x) m S _ ts hts hm (by cases neg <;> simp [negToks]) (by omega)
        have g2 := loop_in (mode := mode) (m := m) (s := ts.length) (lhs := x) (S := S) (neg := neg)
          (r := wrap (extra a) (printWith extra a) ++ (printTail extra l ++ .rparen :: X))
          (wprint_head_ne extra _ a _ rfl) (wprint_head_ne extra _ a _ rfl)
        have hpos := frames_pos extra x
        have hw := wf_ge (extra x || openEnd x) (framesWith extra x)
        exact TD.of_reach g1 (TD.head g2 (list_items_td (.inl x neg) a l m ts.length S X _ (TDE mode extra a)
          (TDTail mode extra l) rfl (by omega) (by omega)))
  | .call f d .nil => by
      intro m S X ts _ _ _ hd; simp only [framesWith, framesItems] at hd; exact start_td hd
  | .call f d (.cons a l) => by
      intro m S X ts hts _ hS hd
      simp only [framesWith, framesItems] at hd
      simp only [printWith, printItems, List.append_assoc, List.cons_append, List.nil_append] at hts
      by_cases h0 : MAX_DEPTH < S.length + 1
      · exact start_td h0
      · have h1 := start_call (mode := mode) (m := m) (S := S) hts (by omega)
          (wprint_head_ne extra _ a _ rfl) (wprint_head_ne extra _ a _ rfl)
        exact TD.head h1 (list_items_td (.args f d) a l m ts.length S X _ (TDE mode extra a)
          (TDTail mode extra l) rfl (by omega) (by omega))
  | .array .nil => by
      intro m S X ts _ _ _ hd; simp only [framesWith, framesItems] at hd; exact start_td hd
  | .array (.cons a l) => by
      intro m S X ts hts _ hS hd
      simp only [framesWith, framesItems] at hd
      simp only [printWith, printItems, List.cons_append, List.nil_append, List.append_assoc] at hts
      by_cases h0 : MAX_DEPTH < S.length + 1
      · exact start_td h0
      · have h1 := start_array (mode := mode) (m := m) (S := S) hts (by omega) (wprint_head_ne extra _ a _ rfl)
        exact TD.head h1 (list_items_td .arr a l m ts.length S X _ (TDE mode extra a)
          (TDTail mode extra l) rfl (by omega) (by omega))
  | .tuple a b rest => by
      intro m S X ts hts _ hS hd
      simp only [framesWith] at hd
      simp only [printWith, List.append_assoc, List.cons_append, List.nil_append] at hts
      by_cases h0 : MAX_DEPTH < S.length + 1
      · exact start_td h0
      · have h1 := start_paren (mode := mode) (m := m) (S := S) hts (by omega) (wprint_head_ne extra _ a _ rfl)
        refine TD.head h1 ?_
        by_cases ha : MAX_DEPTH < (S.length + 1) + wf (extra a) (framesWith extra a)
        · refine item_td (TDE mode extra a) _ _ _ _ rfl ?_ ?_ <;> simp only [List.length_cons] <;> omega
        · have g2 := item (KE mode extra a) (extra a) (⟨.paren, m, ts.length⟩ :: S)
            (.comma :: (wrap (extra b) (printWith extra b) ++ (printTail extra rest ++ .rparen :: X))) _ rfl
            (by simp only [List.length_cons]; omega) (headStops0_comma _)
          have g3 := ret_paren_comma (mode := mode) (e := a) (m := m) (s := ts.length) (S := S)
            (r := wrap (extra b) (printWith extra b) ++ (printTail extra rest ++ .rparen :: X))
          refine TD.of_reach g2 (TD.head g3 ?_)
          by_cases hb : MAX_DEPTH < (S.length + 1) + wf (extra b) (framesWith extra b)
          · refine item_td (TDE mode extra b) _ _ _ _ rfl ?_ ?_ <;> simp only [List.length_cons] <;> omega
          · have g4 := item (KE mode extra b) (extra b) (⟨.list .tup (.cons a .nil), m, ts.length⟩ :: S)
              (printTail extra rest ++ .rparen :: X) _ rfl
              (by simp only [List.length_cons]; omega) (tail_stops extra rest .tup X)
            exact TD.of_reach g4 (TDTail mode extra rest .tup (.cons a .nil) b m ts.length S X _ rfl (by omega) (by omega))
  | .case .none c r rest .none => by
      intro m S X ts hts _ hS hd
      simp only [framesWith, framesOpt] at hd
      simp only [printWith, printOpt, printElse, List.append_assoc, List.cons_append, List.nil_append] at hts
      by_cases h0 : MAX_DEPTH < S.length + 1
      · exact start_td h0
      · have h1 := start_case_when (mode := mode) (m := m) (S := S) hts (by omega)
        exact TD.head h1 (case_tail_td .none c r rest .none m ts.length S X
          (wrap (extra c) (printWith extra c) ++ (.thenKw :: (wrap (extra r) (printWith extra r)
            ++ (printWhens extra rest ++ .endKw :: X))))
          (TDE mode extra c) (TDE mode extra r) (TDWhens mode extra rest) (fun e h => by cases h)
          (by simp only [printElse, List.nil_append]) (by omega) (by simp only [framesOpt]; omega))
  | .case .none c r rest (.some e) => by
      intro m S X ts hts _ hS hd
      simp only [framesWith, framesOpt] at hd
      simp only [printWith, printOpt, printElse, List.append_assoc, List.cons_append, List.nil_append] at hts
      by_cases h0 : MAX_DEPTH < S.length + 1
      · exact start_td h0
      · have h1 := start_case_when (mode := mode) (m := m) (S := S) hts (by omega)
        exact TD.head h1 (case_tail_td .none c r rest (.some e) m ts.length S X
          (wrap (extra c) (printWith extra c) ++ (.thenKw :: (wrap (extra r) (printWith extra r)
            ++ (printWhens extra rest ++ (.elseKw :: (wrap (extra e) (printWith extra e) ++ .endKw :: X))))))
          (TDE mode extra c) (TDE mode extra r) (TDWhens mode extra rest)
          (fun e' h => by cases h; exact TDE mode extra e)
          (by simp only [printElse, List.cons_append]) (by omega) (by simp only [framesOpt]; omega))
  | .case (.some e0) c r rest .none => by
      intro m S X ts hts _ hS hd
      simp only [framesWith, framesOpt] at hd
      simp only [printWith, printOpt, printElse, List.append_assoc, List.cons_append, List.nil_append] at hts
      by_cases h0 : MAX_DEPTH < S.length + 1
      · exact start_td h0
      · have h1 := start_case_operand (mode := mode) (m := m) (S := S) hts (by omega) (wprint_head_ne extra _ e0 _ rfl)
        refine TD.head h1 ?_
        by_cases he : MAX_DEPTH < (S.length + 1) + wf (extra e0) (framesWith extra e0)
        · refine item_td (TDE mode extra e0) _ _ _ _ rfl ?_ ?_ <;> simp only [List.length_cons] <;> omega
        · have g2 := item (KE mode extra e0) (extra e0) (⟨.caseOperand, m, ts.length⟩ :: S)
            (.whenKw :: (wrap (extra c) (printWith extra c) ++ (.thenKw :: (wrap (extra r) (printWith extra r)
              ++ (printWhens extra rest ++ .endKw :: X))))) _ rfl
            (by simp only [List.length_cons]; omega) (headStops0_when _)
          have g3 := ret_caseOperand (mode := mode) (e := e0) (m := m) (s := ts.length) (S := S)
            (r := wrap (extra c) (printWith extra c) ++ (.thenKw :: (wrap (extra r) (printWith extra r)
              ++ (printWhens extra rest ++ .endKw :: X))))
          exact TD.of_reach g2 (TD.head g3 (case_tail_td (.some e0) c r rest .none m ts.length S X
            (wrap (extra c) (printWith extra c) ++ (.thenKw :: (wrap (extra r) (printWith extra r)
              ++ (printWhens extra rest ++ .endKw :: X))))
            (TDE mode extra c) (TDE mode extra r) (TDWhens mode extra rest) (fun e h => by cases h)
            (by simp only [printElse, List.nil_append]) (by omega) (by simp only [framesOpt]; omega)))
  | .case (.some e0) c r rest (.some e) => by
      intro m S X ts hts _ hS hd
      simp only [framesWith, framesOpt] at hd
      simp only [printWith, printOpt, printElse, List.append_assoc, List.cons_append, List.nil_append] at hts
      by_cases h0 : MAX_DEPTH < S.length + 1
      · exact start_td h0
      · have h1 := start_case_operand (mode := mode) (m := m) (S := S) hts (by omega) (wprint_head_ne extra _ e0 _ rfl)
        refine TD.head h1 ?_
        by_cases he : MAX_DEPTH < (S.length + 1) + wf (extra e0) (framesWith extra e0)
        · refine item_td (TDE mode extra e0) _ _ _ _ rfl ?_ ?_ <;> simp only [List.length_cons] <;> omega
        · have g2 := item (KE mode extra e0) (extra e0) (⟨.caseOperand, m, ts.length⟩ :: S)
            (.whenKw :: (wrap (extra c) (printWith extra c) ++ (.thenKw :: (wrap (extra r) (printWith extra r)
              ++ (printWhens extra rest ++ (.elseKw :: (wrap (extra e) (printWith extra e) ++ .endKw :: X))))))) _ rfl
            (by simp only [List.length_cons]; omega) (headStops0_when _)
          have g3 := ret_caseOperand (mode := mode) (e := e0) (m := m) (s := ts.length) (S := S)
            (r := wrap (extra c) (printWith extra c) ++ (.thenKw :: (wrap (extra r) (printWith extra r)
              ++ (printWhens extra rest ++ (.elseKw :: (wrap (extra e) (printWith extra e) ++ .endKw :: X))))))
          exact TD.of_reach g2 (TD.head g3 (case_tail_td (.some e0) c r rest (.some e) m ts.length S X
            (wrap (extra c) (printWith extra c) ++ (.thenKw :: (wrap (extra r) (printWith extra r)
              ++ (printWhens extra rest ++ (.elseKw :: (wrap (extra e) (printWith extra e) ++ .endKw :: X))))))
            (TDE mode extra c) (TDE mode extra r) (TDWhens mode extra rest)
            (fun e' h => by cases h; exact TDE mode extra e)
            (by simp only [printElse, List.cons_append]) (by omega) (by simp only [framesOpt]; omega)))
theorem TDTail (mode : Mode) (extra : E → Bool) : ∀ l : EL, TailTD mode extra l
  | .nil => by
      intro lk acc e m s S X ts _ hS hd
      simp only [framesItems] at hd
      omega
  | .cons a l => by
      intro lk acc e m s S X ts hts hS hd
      simp only [framesItems] at hd
      simp only [printTail, List.cons_append, List.append_assoc] at hts
      subst hts
      have h1 := ret_list_comma (mode := mode) (e := e) (lk := lk) (acc := acc) (m := m) (s := s) (S := S)
        (r := wrap (extra a) (printWith extra a) ++ (printTail extra l ++ lk.close :: X))
      refine TD.head h1 ?_
      by_cases ha : MAX_DEPTH < (S.length + 1) + wf (extra a) (framesWith extra a)
      · refine item_td (TDE mode extra a) _ _ _ _ rfl ?_ ?_ <;> simp only [List.length_cons] <;> omega
      · have h2 := item (KE mode extra a) (extra a) (⟨.list lk (acc.snoc e), m, s⟩ :: S)
          (printTail extra l ++ lk.close :: X) _ rfl (by simp only [List.length_cons]; omega)
          (tail_stops extra l lk X)
        exact TD.of_reach h2 (TDTail mode extra l lk (acc.snoc e) a m s S X _ rfl hS (by omega))
theorem TDWhens (mode : Mode) (extra : E → Bool) : ∀ l : WL, WhensTD mode extra l
  | .nil => by
      intro operand acc c r els m s S X ts hels hts hS hd
      simp only [printWhens, List.nil_append] at hts
      simp only [framesWhens] at hd
      obtain ⟨c0, r0, rest, hacc⟩ := snoc_ne_nil acc c r
      cases els with
      | none => simp only [framesOpt] at hd; omega
      | some e =>
        simp only [printElse, List.cons_append] at hts
        simp only [framesOpt] at hd
        subst hts
        have h1 := ret_caseRes_else (mode := mode) (operand := operand) (m := m) (s := s) (S := S)
          (r := wrap (extra e) (printWith extra e) ++ .endKw :: X) hacc
        refine TD.head h1 (item_td (hels e rfl) _ _ _ _ rfl ?_ ?_) <;> simp only [List.length_cons] <;> omega
  | .cons c' r' l => by
      intro operand acc c r els m s S X ts hels hts hS hd
      simp only [printWhens, List.cons_append, List.append_assoc] at hts
      simp only [framesWhens] at hd
      subst hts
      have h1 := ret_caseRes_when (mode := mode) (e := r) (c := c) (operand := operand) (acc := acc) (m := m)
        (s := s) (S := S) (r := wrap (extra c') (printWith extra c') ++ (.thenKw :: (wrap (extra r') (printWith extra r')
          ++ (printWhens extra l ++ (printElse extra els ++ .endKw :: X)))))
      refine TD.head h1 ?_
      by_cases hc : MAX_DEPTH < (S.length + 1) + wf (extra c') (framesWith extra c')
      · refine item_td (TDE mode extra c') _ _ _ _ rfl ?_ ?_ <;> simp only [List.length_cons] <;> omega
      · have h2 := item (KE mode extra c') (extra c') (⟨.caseCond operand (acc.snoc c r), m, s⟩ :: S)
          (.thenKw :: (wrap (extra r') (printWith extra r') ++ (printWhens extra l ++ (printElse extra els ++ .endKw :: X))))
          _ rfl (by simp only [List.length_cons]; omega) (headStops0_then _)
        have h3 := ret_caseCond (mode := mode) (e := c') (operand := operand) (acc := acc.snoc c r) (m := m) (s := s)
          (S := S) (r := wrap (extra r') (printWith extra r') ++ (printWhens extra l ++ (printElse extra els ++ .endKw :: X)))
        refine TD.of_reach h2 (TD.head h3 ?_)
        by_cases hr : MAX_DEPTH < (S.length + 1) + wf (extra r') (framesWith extra r')
        · refine item_td (TDE mode extra r') _ _ _ _ rfl ?_ ?_ <;> simp only [List.length_cons] <;> omega
        · have h4 := item (KE mode extra r') (extra r') (⟨.caseRes operand (acc.snoc c r) c', m, s⟩ :: S)
            (printWhens extra l ++ (printElse extra els ++ .endKw :: X)) _ rfl
            (by simp only [List.length_cons]; omega) (whens_stop extra l els X)
          exact TD.of_reach h4 (TDWhens mode extra l operand (acc.snoc c r) c' r' els m s S X _ hels rfl hS (by omega))
end

end Neumann.Parse.Full
