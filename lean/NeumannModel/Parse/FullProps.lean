import NeumannModel.Parse.FullRound
import NeumannModel.Parse.FullTotal
import NeumannModel.Parse.FullDeep
import NeumannModel.Parse.FullFits
/-
  C15 — property theorems for the COMPLETE expression grammar model (`Parse/Full.lean`): the Pratt
  loop together with the postfix level (`IS [NOT] NULL`, `[NOT] IN (…)`, `[NOT] BETWEEN … AND …`,
  `[NOT] LIKE …`, `a.b`, `a.*`) and every primary (calls, aggregates, `DISTINCT`, tuples, arrays,
  `CASE`, contextual keywords) — level 11 of the documented precedence table and everything the
  older `Props.lean` treats as an opaque atom.  `parse Mode.expr` is `neumann_parser::parse_expr`
  (`expr.rs`), `parse Mode.stmt` an expression position of the statement parser (`parser.rs`).
  ONLY property statements and their non-vacuity examples live here.

  All statements are for ALL expression trees / token lists and BOTH copies of the code; the only
  hypothesis is the depth limit the code itself imposes.
-/
namespace Neumann.Parse.Full.Props
open Neumann.Parse (MAX_DEPTH)

/-- Totality / fuel adequacy: `4·|ts| + 3` machine steps always finish the run — every token list
    yields a tree, a genuine parse error, or (statement mode only) `outside`. -/
theorem full_total (mode : Mode) (ts : List Tok) : parse mode ts ≠ .error .fuel := by
  obtain ⟨r, hr⟩ := run_finished mode ts
  have hinv := run_inv mode (fuelFor ts) _ (inv_init ts)
  unfold parse parseWith result
  obtain ⟨_, _, _, h4⟩ := hinv
  rw [hr] at h4 ⊢
  intro h
  simp only at h h4
  rw [h] at h4
  exact h4

/-- Determinism beyond "it is a function": the answer does not depend on how many steps (≥ the
    adequate number) the machine is given. -/
theorem full_fuel_independent (mode : Mode) (ts : List Tok) (f : Nat) (h : fuelFor ts ≤ f) :
    parseWith mode f ts = parse mode ts := by
  unfold parse parseWith
  rw [run_done_unique mode (run_reaches_done mode f (init ts) (Nat.lt_of_lt_of_le (mu_init ts) h))
    (run_finished mode ts)]

/-- An error carries a position inside the input: `TooDeep`, "unexpected token" and the three
    `InvalidSyntax` errors point at one of the `|ts|` tokens or at the end of input (`rem` tokens
    from the end, `rem ≤ |ts|`; "unexpected token" always at a token, `1 ≤ rem`). -/
theorem full_error_position_in_input (mode : Mode) (ts : List Tok) (e : Err)
    (h : parse mode ts = .error e) : e.posOk ts.length := by
  obtain ⟨r, hr⟩ := run_finished mode ts
  have hinv := run_inv mode (fuelFor ts) _ (inv_init ts)
  unfold parse parseWith result at h
  obtain ⟨_, _, _, h4⟩ := hinv
  rw [hr] at h4 h
  simp only at h h4
  rw [h] at h4
  exact h4

example : parse .expr [.ident 1, .dot, .lit 2] = .error (.unexpected .identifier 1) := by rfl
example : parse .expr [.lit 1, .op .add, .lparen, .lit 2, .rparen, .dot, .op .mul]
    = .error (.invalid .qualWild 5) := by rfl
example : parse .expr [.caseKw, .ident 1, .endKw] = .error (.invalid .caseNoWhen 1) := by rfl

/-- No stack exhaustion: at every moment of every run, on whatever input, at most `MAX_DEPTH = 64`
    `parse_expr_bp` frames are active (the machine's stack IS the recursion of the Rust code: one
    entry per active frame). -/
theorem full_depth_bounded (mode : Mode) (ts : List Tok) (k : Nat) :
    (run mode k (init ts)).stk.length ≤ MAX_DEPTH :=
  (run_inv mode k _ (inv_init ts)).2.2.1

/-- ROUND TRIP for the complete expression grammar and every parenthesisation policy: print `e`
    with the parentheses the binding powers and the postfix rules require plus arbitrary redundant
    ones (`extra`), and the parser — either copy — returns exactly `e`, provided the print needs at
    most `MAX_DEPTH` nested frames (the limit the code imposes).  In particular a postfix form
    binds tighter than every prefix and binary operator, a BETWEEN bound / LIKE pattern extends
    over prefix operators and postfix forms only, `NOT` before IN / BETWEEN / LIKE negates the
    postfix form and is a prefix operator everywhere else, and the `AND` of a BETWEEN is not the
    conjunction. -/
theorem full_round_trip (mode : Mode) (extra : E → Bool) (e : E)
    (h : framesWith extra e ≤ MAX_DEPTH) : parse mode (printWith extra e) = .ok e := by
  have hk := KE mode extra e 0 [] [] (printWith extra e) (by simp) (Nat.zero_le _) (stopAbove_nil e)
    (by simpa using h)
  have h2 : Reach mode ⟨.loop 0 (printWith extra e).length e, [], []⟩ (halt (.ok e)) := by
    refine Reach.head (loop_stops (headStops_nil 0)) (Reach.one ?_)
    cases mode <;> rfl
  obtain ⟨n, hn⟩ := hk.trans h2
  have hd : isDone (run mode n (init (printWith extra e))) := by
    unfold init; rw [hn]; exact ⟨_, rfl⟩
  unfold parse parseWith
  rw [← run_done_unique mode hd (run_finished mode _)]
  unfold init; rw [hn]; rfl

/-- The depth hypothesis is exact: a print that needs more than `MAX_DEPTH` nested frames is
    rejected with `TooDeep` — never mis-parsed, never another error — whichever construct the
    nesting goes through (parentheses, prefix operators, right operands, BETWEEN bounds, LIKE
    patterns, argument / array / tuple / IN lists, CASE parts, in any mixture). -/
theorem full_too_deep (mode : Mode) (extra : E → Bool) (e : E) (h : MAX_DEPTH < framesWith extra e) :
    ∃ k, parse mode (printWith extra e) = .error (.tooDeep k) := by
  obtain ⟨k, n, hn⟩ := TDE mode extra e 0 [] [] (printWith extra e) (by simp) (Nat.zero_le _)
    (Nat.zero_le _) (by simpa using h)
  have hd : isDone (run mode n (init (printWith extra e))) := by
    unfold init; rw [hn]; exact ⟨_, rfl⟩
  refine ⟨k, ?_⟩
  unfold parse parseWith
  rw [← run_done_unique mode hd (run_finished mode _)]
  unfold init; rw [hn]; rfl

/-- …so the round trip holds exactly when the print fits the depth limit. -/
theorem full_round_trip_iff (mode : Mode) (extra : E → Bool) (e : E) :
    parse mode (printWith extra e) = .ok e ↔ framesWith extra e ≤ MAX_DEPTH := by
  constructor
  · intro h
    apply Nat.le_of_not_lt
    intro hlt
    obtain ⟨k, hk⟩ := full_too_deep mode extra e hlt
    rw [hk] at h
    cases h
  · exact full_round_trip mode extra e

/-- Precedence / associativity / postfix correctness: minimal parenthesisation parses back. -/
theorem full_printMin (mode : Mode) (e : E) (h : framesMin e ≤ MAX_DEPTH) :
    parse mode (printMin e) = .ok e :=
  full_round_trip mode _ e h

/-- Parenthesising an expression the way the rules dictate — or more — never changes its parse:
    every print that fits the depth limit parses exactly as the minimal print does. -/
theorem full_paren_invariance (mode : Mode) (extra : E → Bool) (e : E) (h : framesWith extra e ≤ MAX_DEPTH) :
    parse mode (printWith extra e) = parse mode (printMin e) := by
  rw [full_round_trip mode extra e h]
  exact (full_printMin mode e (Nat.le_trans (frames_min_le extra e) h)).symm

/-- Whatever text was accepted, the tree it produced fits the depth limit when printed minimally:
    redundant parentheses only ever cost depth, they never buy any — for every construct of the
    grammar (an invariant of the run bounds the frames the minimal print of every partial tree
    needs by the frames actually active). -/
theorem full_ok_fits_depth (mode : Mode) (ts : List Tok) (e : E) (h : parse mode ts = .ok e) :
    framesMin e ≤ MAX_DEPTH := by
  have hinv := (run_dinv mode (fuelFor ts) _ (dinv_init ts)).2
  unfold parse parseWith result at h
  unfold CtlInv at hinv
  split at h
  · next r hr =>
    rw [hr] at hinv
    subst h
    exact hinv
  · cases h

/-- NORMAL FORM: every accepted token list means the same as the minimal print of its own parse —
    `parse ∘ printMin ∘ parse = parse`.  Together with `full_round_trip` this says that two texts
    with the same tree are interchangeable and that the tree is the meaning: query text means one
    thing. -/
theorem full_normal_form (mode : Mode) (ts : List Tok) (e : E) (h : parse mode ts = .ok e) :
    parse mode (printMin e) = .ok e :=
  full_printMin mode e (full_ok_fits_depth mode ts e h)

-- redundant parentheses, `!`, a parenthesised subject: canonical text out, same tree
example : parse .expr [.lparen, .lparen, .ident 1, .rparen, .isKw, .null, .rparen, .op .and, .bang, .lparen, .lit 3, .rparen]
    = .ok (.bin (.isNull (.ident 1) false) .and (.un .not (.lit 3))) := by rfl
example : printMin (.bin (.isNull (.ident 1) false) .and (.un .not (.lit 3)))
    = [.ident 1, .isKw, .null, .op .and, .notKw, .lit 3] := by rfl

/-- The two copies of the expression grammar (`expr.rs` and `parser.rs`) group every printed
    expression the same way. -/
theorem full_copies_agree (extra : E → Bool) (e : E) (h : framesWith extra e ≤ MAX_DEPTH) :
    parse .expr (printWith extra e) = parse .stmt (printWith extra e) := by
  rw [full_round_trip .expr extra e h, full_round_trip .stmt extra e h]

/-- a concrete non-trivial instance:
    `NOT c1 NOT BETWEEN - f2(DISTINCT 3, [4]) AND (5 + 6) IS NULL OR CASE WHEN status.* THEN (7, 8) END . c9 LIKE ~ 10 * 11` -/
def sample : E :=
  .bin
    (.un .not (.between (.ident 1) true
      (.un .neg (.call (.fn 2) true (.cons (.lit 3) (.cons (.array (.cons (.lit 4) .nil)) .nil))))
      (.isNull (.bin (.lit 5) .add (.lit 6)) false)))
    .or
    (.bin
      (.like (.qual (.case .none (.qualWild true 0) (.tuple (.lit 7) (.lit 8) .nil) .nil .none) 9) false
        (.un .bitNot (.lit 10)))
      .mul (.lit 11))

example : printMin sample =
    [.notKw, .ident 1, .notKw, .betweenKw, .op .sub, .ident 2, .lparen, .distinctKw, .lit 3, .comma,
     .lbracket, .lit 4, .rbracket, .rparen, .op .and, .lparen, .lit 5, .op .add, .lit 6, .rparen, .isKw, .null,
     .op .or, .caseKw, .whenKw, .kw 0, .dot, .op .mul, .thenKw, .lparen, .lit 7, .comma, .lit 8, .rparen, .endKw,
     .dot, .ident 9, .likeKw, .tilde, .lit 10, .op .mul, .lit 11] := by rfl
example : framesWith (fun _ => true) sample ≤ MAX_DEPTH := by decide
example : framesMin sample = 6 := by decide
example : printMin sample ≠ printFull sample := by decide
set_option maxRecDepth 20000 in
example : parse .expr (printMin sample) = .ok sample := by rfl
set_option maxRecDepth 20000 in
example : parse .stmt (printAll sample) = .ok sample := by rfl
-- 64 nested arrays need 65 frames: the hypothesis of `full_too_deep` is satisfiable, and the limit is
-- exact for a mixture of constructs (`[ f( CASE WHEN - … `)
def nestArr : Nat → E
  | 0 => .lit 0
  | n + 1 => .array (.cons (nestArr n) .nil)
set_option maxRecDepth 20000 in
example : MAX_DEPTH < framesMin (nestArr 64) := by decide
set_option maxRecDepth 20000 in
example : framesMin (nestArr 63) ≤ MAX_DEPTH := by decide
def nestMix : Nat → E
  | 0 => .lit 0
  | n + 1 => .array (.cons (.call (.fn 1) false (.cons
      (.case .none (.un .neg (nestMix n)) (.lit 2) .nil .none) .nil)) .nil)
set_option maxRecDepth 20000 in
example : framesMin (nestMix 16) = 65 ∧ framesMin (nestMix 15) = 61 := by decide

-- the postfix level in unparenthesised input: IS NULL attaches to the nearest operand, a BETWEEN
-- bound stops at `*`, NOT before LIKE negates the LIKE, NOT elsewhere is the prefix operator
example : parse .expr [.lit 1, .op .mul, .lit 2, .isKw, .notKw, .null] =
    .ok (.bin (.lit 1) .mul (.isNull (.lit 2) true)) := by rfl
example : parse .expr [.ident 1, .betweenKw, .lit 1, .op .and, .lit 2, .op .mul, .lit 3, .op .and, .ident 2] =
    .ok (.bin (.bin (.between (.ident 1) false (.lit 1) (.lit 2)) .mul (.lit 3)) .and (.ident 2)) := by rfl
example : parse .expr [.notKw, .ident 1, .notKw, .likeKw, .op .sub, .lit 2, .op .concat, .lit 3] =
    .ok (.bin (.un .not (.like (.ident 1) true (.un .neg (.lit 2)))) .concat (.lit 3)) := by rfl
example : parse .expr [.op .sub, .ident 1, .dot, .ident 2, .isKw, .null] =
    .ok (.un .neg (.isNull (.qual (.ident 1) 2) false)) := by rfl

end Neumann.Parse.Full.Props
