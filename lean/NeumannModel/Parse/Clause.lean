/-
  C15 — model of the CLAUSE-LEVEL grammar of `SELECT` in `neumann_parser/src/parser.rs`
  (`Parser::{parse_statement, parse_select, parse_select_body, parse_select_body_inner,
  parse_select_item, parse_from_clause, parse_table_ref, try_parse_join, parse_order_by_item, expect,
  expect_ident, eat}`, `MAX_SELECT_DEPTH`): DISTINCT / ALL, the select list with `AS` and implicit
  aliases, FROM with table aliases, the seven spellings of the six join kinds with ON / USING,
  subqueries in FROM and JOIN (counter `select_depth`), WHERE, GROUP BY, HAVING, ORDER BY with
  ASC / DESC and NULLS FIRST / LAST, LIMIT, OFFSET, the optional `;` and the leading `;`s of
  `parse_statement`.  Import-free, total, computable.

  Expressions are not this model's subject (`Full.lean` is): an expression is ONE token here —
  `expr n` (a complete expression text that starts with a literal / prefix operator and does not
  end in an identifier, so that no neighbouring token of this alphabet can extend it or turn it into
  a call), `ident n` (an identifier, which is an expression where one is expected and a name
  elsewhere) or `star` (`*`).  Where the real expression parser would go on — `*` directly after an
  expression (binary `Mul`), `(` after an identifier (call), `(` where an expression starts — the
  answer is `Res.outside`, never an error attributed to the real parser.

  FORM: as `Full.lean`, the recursive descent is written as the machine it runs on.  The only
  recursion is `parse_table_ref → parse_select_body`, so the stack holds one entry per ENCLOSING
  `parse_select_body` frame (what it had read when it met `( SELECT`), `stk.length + 1` is
  `self.select_depth` inside a body, and the loops (select list, joins, USING list, GROUP BY list,
  ORDER BY list) are controls of their own; every arm is one branch of the Rust code.
  Error positions are "number of tokens left, current included".
-/
namespace Neumann.Parse.Clause

/-- `const MAX_SELECT_DEPTH: usize = 64` -/
def MAX_SELECT_DEPTH : Nat := 64

inductive Tok
  | select | distinct | all | comma | asKw | ident (n : Nat) | expr (n : Nat) | star
  | from | lparen | rparen
  | join | inner | left | right | full | outer | cross | natural | on | using
  | whereKw | group | byKw | having | order | asc | desc | nulls | first | last | limit | offset
  | semicolon | other
  deriving DecidableEq, Repr

/-- an expression as the clause level sees it -/
inductive XE | opaque (n : Nat) | col (n : Nat) | wildcard
  deriving DecidableEq, Repr

/-- `SelectItem` -/
structure Item where
  e : XE
  alias : Option Nat
  deriving DecidableEq, Repr

/-- `JoinKind` -/
inductive JK | inner | left | right | full | cross | natural
  deriving DecidableEq, Repr

/-- `Option<JoinCondition>` (a USING list is never empty) -/
inductive JCond | none | on (e : XE) | usingC (c : Nat) (cols : List Nat)
  deriving DecidableEq, Repr

/-- `OrderByItem`: `nulls = some true` is NULLS FIRST -/
structure OItem where
  e : XE
  desc : Bool
  nulls : Option Bool
  deriving DecidableEq, Repr

/-- WHERE … OFFSET of a `SelectStmt` -/
structure Tail where
  whr : Option XE
  group : List XE
  having : Option XE
  order : List OItem
  limit : Option XE
  offset : Option XE
  deriving DecidableEq, Repr

mutual
/-- `SelectStmt` -/
inductive Q
  | mk (distinct : Bool) (items : List Item) (src : Src) (tail : Tail)
/-- `Option<FromClause>` -/
inductive Src
  | none
  | from (t : TRef) (joins : JL)
/-- `TableRef` -/
inductive TRef
  | tbl (n : Nat) (alias : Option Nat)
  | sub (q : Q) (alias : Option Nat)
/-- `Vec<Join>` -/
inductive JL
  | nil
  | cons (k : JK) (t : TRef) (c : JCond) (rest : JL)
end

deriving instance DecidableEq, Repr for Q, Src, TRef, JL

def JL.snoc : JL → JK → TRef → JCond → JL
  | .nil, k, t, c => .cons k t c .nil
  | .cons k0 t0 c0 l, k, t, c => .cons k0 t0 c0 (l.snoc k t c)

def JL.append : JL → JL → JL
  | .nil, m => m
  | .cons k t c l, m => .cons k t c (l.append m)

inductive Expect
  | expression | identifier | select | lparen | rparen | join | byKw | last
  deriving DecidableEq, Repr

inductive Err
  | tooDeep (rem : Nat)
  | eof (x : Expect)
  | unexpected (x : Expect) (rem : Nat)
  | fuel
  deriving DecidableEq, Repr

inductive Res (α : Type)
  | ok (a : α)
  | error (e : Err)
  | outside
  deriving DecidableEq, Repr

/-- `parse_expr()` at a clause position -/
def parseX : List Tok → Res (XE × List Tok)
  | [] => .error (.eof .expression)
  | t :: r =>
    match t with
    | .expr n => if r.head? = some .star then .outside else .ok (.opaque n, r)
    | .ident n =>
      if r.head? = some .star ∨ r.head? = some .lparen then .outside else .ok (.col n, r)
    | .star => if r.head? = some .star then .outside else .ok (.wildcard, r)
    | .lparen => .outside
    | _ => .error (.unexpected .expression (t :: r).length)

/-- `self.expect_ident()` -/
def expectIdent : List Tok → Res (Nat × List Tok)
  | [] => .error (.eof .identifier)
  | t :: r =>
    match t with
    | .ident n => .ok (n, r)
    | _ => .error (.unexpected .identifier (t :: r).length)

/-- `if self.eat(&As) { Some(expect_ident) } else if let Ident(_) = current { Some(expect_ident) } else { None }`
    — the alias of a select item and of a table reference -/
def parseAlias : List Tok → Res (Option Nat × List Tok)
  | [] => .ok (none, [])
  | t :: r =>
    match t with
    | .asKw =>
      (match expectIdent r with
       | .ok (n, r') => .ok (some n, r')
       | .error e => .error e
       | .outside => .outside)
    | .ident n => .ok (some n, r)
    | _ => .ok (none, t :: r)

/-- a body that has read DISTINCT and the select list (and, inside a join, the tables so far) and
    is parsing a table reference: the one after FROM, or the one of a join of kind `k` -/
inductive Site
  | fromT
  | joinT (t0 : TRef) (acc : JL) (k : JK)
  deriving DecidableEq, Repr

structure Frame where
  distinct : Bool
  items : List Item
  site : Site
  deriving DecidableEq, Repr

/-- everything of a body up to and including FROM -/
structure Head where
  distinct : Bool
  items : List Item
  src : Src
  deriving DecidableEq, Repr

inductive Ctl
  | body                                                        -- about to call `parse_select_body`
  | items (d : Bool) (acc : List Item)                          -- `loop { parse_select_item … }`
  | tref (fr : Frame)                                           -- `parse_table_ref`
  | usingL (d : Bool) (its : List Item) (t0 : TRef) (jacc : JL) (k : JK) (t : TRef) (c : Nat) (acc : List Nat)
      -- `loop { columns.push(expect_ident) … }` of `USING (`, after an identifier
  | joins (d : Bool) (its : List Item) (t0 : TRef) (acc : JL)   -- `while let Some(join) = try_parse_join()`
  | groupL (h : Head) (whr : Option XE) (acc : List XE)         -- GROUP BY list, at an expression
  | orderL (h : Head) (whr : Option XE) (grp : List XE) (hav : Option XE) (acc : List OItem)
  | bodyRet (q : Q)                                             -- a body has returned `Ok(q)`
  | done (r : Res Q)
  deriving DecidableEq, Repr

structure St where
  ctl : Ctl
  stk : List Frame
  ts : List Tok
  deriving DecidableEq, Repr

def halt (r : Res Q) : St := ⟨.done r, [], []⟩
def fail (e : Err) : St := halt (.error e)

/-- lift a sub-parser's failure -/
def orHalt {α : Type} (r : Res α) (k : α → St) : St :=
  match r with
  | .ok a => k a
  | .error e => fail e
  | .outside => halt .outside

/-- `self.expect(kind)?` -/
def expect (t : Tok) (x : Expect) (ts : List Tok) (k : List Tok → St) : St :=
  match ts with
  | [] => fail (.eof x)
  | c :: r => if c = t then k r else fail (.unexpected x (c :: r).length)

/-- `if self.eat(&Limit) { Some(parse_expr) }`, `if self.eat(&Offset) { … }`, then the body returns -/
def limitOffset (h : Head) (whr : Option XE) (grp : List XE) (hav : Option XE) (ord : List OItem)
    (stk : List Frame) (ts : List Tok) : St :=
  let fin (lim off : Option XE) (r : List Tok) : St :=
    ⟨.bodyRet (.mk h.distinct h.items h.src ⟨whr, grp, hav, ord, lim, off⟩), stk, r⟩
  let off (lim : Option XE) (r : List Tok) : St :=
    if r.head? = some .offset then orHalt (parseX r.tail) fun p => fin lim (some p.1) p.2
    else fin lim none r
  if ts.head? = some .limit then orHalt (parseX ts.tail) fun p => off (some p.1) p.2
  else off none ts

/-- `if self.eat(&Order) { expect(By); loop … }` -/
def orderBy (h : Head) (whr : Option XE) (grp : List XE) (hav : Option XE) (stk : List Frame)
    (ts : List Tok) : St :=
  if ts.head? = some .order then
    expect .byKw .byKw ts.tail fun r => ⟨.orderL h whr grp hav [], stk, r⟩
  else limitOffset h whr grp hav [] stk ts

/-- `if self.eat(&Having) { Some(parse_expr) }` -/
def havingC (h : Head) (whr : Option XE) (grp : List XE) (stk : List Frame) (ts : List Tok) : St :=
  if ts.head? = some .having then orHalt (parseX ts.tail) fun p => orderBy h whr grp (some p.1) stk p.2
  else orderBy h whr grp none stk ts

/-- `if self.eat(&Group) { expect(By); loop … }` -/
def groupBy (h : Head) (whr : Option XE) (stk : List Frame) (ts : List Tok) : St :=
  if ts.head? = some .group then
    expect .byKw .byKw ts.tail fun r => ⟨.groupL h whr [], stk, r⟩
  else havingC h whr [] stk ts

/-- `if self.eat(&Where) { Some(parse_expr) }` and everything after it -/
def whereC (h : Head) (stk : List Frame) (ts : List Tok) : St :=
  if ts.head? = some .whereKw then orHalt (parseX ts.tail) fun p => groupBy h (some p.1) stk p.2
  else groupBy h none stk ts

/-- a table reference `t` has been read at site `fr.site`: the join condition if it is a joined
    table, then on to the next join -/
def afterTref (fr : Frame) (t : TRef) (stk : List Frame) (ts : List Tok) : St :=
  match fr.site with
  | .fromT => ⟨.joins fr.distinct fr.items t .nil, stk, ts⟩
  | .joinT t0 acc k =>
    -- `if self.eat(&On) { On(parse_expr) } else if self.eat(&Using) { ( idents ) } else { None }`
    if ts.head? = some .on then
      orHalt (parseX ts.tail) fun p => ⟨.joins fr.distinct fr.items t0 (acc.snoc k t (.on p.1)), stk, p.2⟩
    else if ts.head? = some .using then
      expect .lparen .lparen ts.tail fun r =>
        orHalt (expectIdent r) fun p => ⟨.usingL fr.distinct fr.items t0 acc k t p.1 [], stk, p.2⟩
    else ⟨.joins fr.distinct fr.items t0 (acc.snoc k t .none), stk, ts⟩

/-- `try_parse_join`'s keyword prefix: the kind and the rest, `none` when no join follows, or the
    error of the `expect(&Join)` after CROSS / NATURAL / INNER / LEFT / RIGHT / FULL [OUTER] -/
def joinKind (ts : List Tok) : Res (Option (JK × List Tok)) :=
  let needJoin (k : JK) (r : List Tok) : Res (Option (JK × List Tok)) :=
    match r with
    | [] => .error (.eof .join)
    | c :: r' => if c = .join then .ok (some (k, r')) else .error (.unexpected .join (c :: r').length)
  let eatOuter (r : List Tok) : List Tok := if r.head? = some .outer then r.tail else r
  match ts with
  | [] => .ok none
  | t :: r =>
    match t with
    | .cross => needJoin .cross r
    | .natural => needJoin .natural r
    | .inner => needJoin .inner r
    | .left => needJoin .left (eatOuter r)
    | .right => needJoin .right (eatOuter r)
    | .full => needJoin .full (eatOuter r)
    | .join => .ok (some (.inner, r))
    | _ => .ok none

def step (st : St) : St :=
  match st.ctl with
  | .done _ => st
  | .body =>
    -- self.select_depth += 1; if self.select_depth > MAX_SELECT_DEPTH { Err(TooDeep @ current) }
    if st.stk.length + 1 > MAX_SELECT_DEPTH then fail (.tooDeep st.ts.length) else
    -- `if self.eat(&Distinct) { true } else { self.eat(&All); false }`
    if st.ts.head? = some .distinct then ⟨.items true [], st.stk, st.ts.tail⟩
    else if st.ts.head? = some .all then ⟨.items false [], st.stk, st.ts.tail⟩
    else ⟨.items false [], st.stk, st.ts⟩
  | .items d acc =>
    -- parse_select_item: parse_expr, alias; `if !self.eat(&Comma) { break }`
    orHalt (parseX st.ts) fun p =>
      orHalt (parseAlias p.2) fun a =>
        let acc' := acc ++ [⟨p.1, a.1⟩]
        if a.2.head? = some .comma then ⟨.items d acc', st.stk, a.2.tail⟩
        -- `if self.eat(&From) { Some(parse_from_clause) }`
        else if a.2.head? = some .from then ⟨.tref ⟨d, acc', .fromT⟩, st.stk, a.2.tail⟩
        else whereC ⟨d, acc', .none⟩ st.stk a.2
  | .tref fr =>
    -- `if self.check(&LParen) { advance; expect(Select); parse_select_body; … } else { expect_ident }`
    if st.ts.head? = some .lparen then
      expect .select .select st.ts.tail fun r => ⟨.body, fr :: st.stk, r⟩
    else
      orHalt (expectIdent st.ts) fun p =>
        orHalt (parseAlias p.2) fun a => afterTref fr (.tbl p.1 a.1) st.stk a.2
  | .usingL d its t0 jacc k t c acc =>
    -- after an identifier of the USING list: `if !self.eat(&Comma) { break }` … `expect(RParen)`
    if st.ts.head? = some .comma then
      orHalt (expectIdent st.ts.tail) fun p => ⟨.usingL d its t0 jacc k t c (acc ++ [p.1]), st.stk, p.2⟩
    else
      expect .rparen .rparen st.ts fun r => ⟨.joins d its t0 (jacc.snoc k t (.usingC c acc)), st.stk, r⟩
  | .joins d its t0 acc =>
    orHalt (joinKind st.ts) fun j =>
      match j with
      | some (k, r) => ⟨.tref ⟨d, its, .joinT t0 acc k⟩, st.stk, r⟩
      | none => whereC ⟨d, its, .from t0 acc⟩ st.stk st.ts
  | .groupL h whr acc =>
    orHalt (parseX st.ts) fun p =>
      if p.2.head? = some .comma then ⟨.groupL h whr (acc ++ [p.1]), st.stk, p.2.tail⟩
      else havingC h whr (acc ++ [p.1]) st.stk p.2
  | .orderL h whr grp hav acc =>
    -- parse_order_by_item: parse_expr; `if eat(Desc) { Desc } else { eat(Asc); Asc }`;
    -- `if eat(Nulls) { if eat(First) { First } else { expect(Last); Last } }`
    orHalt (parseX st.ts) fun p =>
      let dir : Bool × List Tok :=
        if p.2.head? = some .desc then (true, p.2.tail)
        else if p.2.head? = some .asc then (false, p.2.tail) else (false, p.2)
      let fin (nl : Option Bool) (r : List Tok) : St :=
        let acc' := acc ++ [⟨p.1, dir.1, nl⟩]
        if r.head? = some .comma then ⟨.orderL h whr grp hav acc', st.stk, r.tail⟩
        else limitOffset h whr grp hav acc' st.stk r
      if dir.2.head? = some .nulls then
        (if dir.2.tail.head? = some .first then fin (some true) dir.2.tail.tail
         else expect .last .last dir.2.tail fun r => fin (some false) r)
      else fin none dir.2
  | .bodyRet q =>
    match st.stk with
    | [] =>
      -- back in `parse_statement`: `self.eat(&Semicolon)`; `parse()` does not look further
      halt (.ok q)
    | fr :: stk =>
      -- back in `parse_table_ref`: `expect(RParen)`, alias
      expect .rparen .rparen st.ts fun r =>
        orHalt (parseAlias r) fun a => afterTref fr (.sub q a.1) stk a.2

def run : Nat → St → St
  | 0, st => st
  | n + 1, st => run n (step st)

/-- `parse_statement`: `while self.eat(&Semicolon) {}`, dispatch on the first token -/
def dropSemis : List Tok → List Tok
  | .semicolon :: r => dropSemis r
  | ts => ts

def init (ts : List Tok) : St :=
  match dropSemis ts with
  | .select :: r => ⟨.body, [], r⟩
  | _ => halt .outside

def fuelFor (ts : List Tok) : Nat := 3 * ts.length + 3

def result (st : St) : Res Q :=
  match st.ctl with
  | .done r => r
  | _ => .error .fuel

def parseWith (fuel : Nat) (ts : List Tok) : Res Q := result (run fuel (init ts))

/-- `neumann_parser::parse` on a `SELECT` statement (anything else: `outside`) -/
def parse (ts : List Tok) : Res Q := parseWith (fuelFor ts) ts

/-! ### printing -/

/-- the spellings the grammar leaves open -/
structure Style where
  useAs : Bool       -- `expr AS name` / `expr name`
  useAll : Bool      -- `SELECT ALL …` / `SELECT …`
  innerKw : Bool     -- `INNER JOIN` / `JOIN`
  outerKw : Bool     -- `LEFT OUTER JOIN` / `LEFT JOIN`
  ascKw : Bool       -- `… ASC` / nothing
  deriving DecidableEq, Repr

def printX : XE → Tok
  | .opaque n => .expr n
  | .col n => .ident n
  | .wildcard => .star

def printAlias (sty : Style) : Option Nat → List Tok
  | none => []
  | some n => if sty.useAs then [.asKw, .ident n] else [.ident n]

def printItem (sty : Style) (it : Item) : List Tok := printX it.e :: printAlias sty it.alias

/-- comma separated -/
def printItems (sty : Style) : List Item → List Tok
  | [] => []
  | [it] => printItem sty it
  | it :: rest => printItem sty it ++ .comma :: printItems sty rest

def printXs : List XE → List Tok
  | [] => []
  | [e] => [printX e]
  | e :: rest => printX e :: .comma :: printXs rest

def printOItem (sty : Style) (o : OItem) : List Tok :=
  printX o.e :: ((if o.desc then [.desc] else if sty.ascKw then [.asc] else [])
    ++ (match o.nulls with
        | none => []
        | some true => [.nulls, .first]
        | some false => [.nulls, .last]))

def printOItems (sty : Style) : List OItem → List Tok
  | [] => []
  | [o] => printOItem sty o
  | o :: rest => printOItem sty o ++ .comma :: printOItems sty rest

def printIdents : List Nat → List Tok
  | [] => []
  | n :: rest => .comma :: .ident n :: printIdents rest

def printJK (sty : Style) : JK → List Tok
  | .inner => if sty.innerKw then [.inner, .join] else [.join]
  | .left => if sty.outerKw then [.left, .outer, .join] else [.left, .join]
  | .right => if sty.outerKw then [.right, .outer, .join] else [.right, .join]
  | .full => if sty.outerKw then [.full, .outer, .join] else [.full, .join]
  | .cross => [.cross, .join]
  | .natural => [.natural, .join]

def printCond : JCond → List Tok
  | .none => []
  | .on e => [.on, printX e]
  | .usingC c cols => .using :: .lparen :: .ident c :: (printIdents cols ++ [.rparen])

def printOpt (kw : Tok) : Option XE → List Tok
  | none => []
  | some e => [kw, printX e]

def printTail (sty : Style) (t : Tail) : List Tok :=
  printOpt .whereKw t.whr
    ++ ((if t.group = [] then [] else .group :: .byKw :: printXs t.group)
    ++ (printOpt .having t.having
    ++ ((if t.order = [] then [] else .order :: .byKw :: printOItems sty t.order)
    ++ (printOpt .limit t.limit ++ printOpt .offset t.offset))))

mutual
/-- the body after the `SELECT` keyword -/
def printQ (sty : Style) : Q → List Tok
  | .mk d items src tail =>
    (if d then [.distinct] else if sty.useAll then [.all] else [])
      ++ (printItems sty items ++ (printSrc sty src ++ printTail sty tail))
def printSrc (sty : Style) : Src → List Tok
  | .none => []
  | .from t joins => .from :: (printT sty t ++ printJL sty joins)
def printT (sty : Style) : TRef → List Tok
  | .tbl n a => .ident n :: printAlias sty a
  | .sub q a => .lparen :: .select :: (printQ sty q ++ .rparen :: printAlias sty a)
def printJL (sty : Style) : JL → List Tok
  | .nil => []
  | .cons k t c rest => printJK sty k ++ (printT sty t ++ (printCond c ++ printJL sty rest))
end

/-- `SELECT … [;]` -/
def printStmt (sty : Style) (semi : Bool) (q : Q) : List Tok :=
  .select :: (printQ sty q ++ (if semi then [.semicolon] else []))

mutual
/-- nested `parse_select_body` frames a body needs (its own included) -/
def Q.sdepth : Q → Nat
  | .mk _ _ src _ => 1 + src.sdepth
def Src.sdepth : Src → Nat
  | .none => 0
  | .from t joins => max t.sdepth joins.sdepth
def TRef.sdepth : TRef → Nat
  | .tbl _ _ => 0
  | .sub q _ => q.sdepth
def JL.sdepth : JL → Nat
  | .nil => 0
  | .cons _ t _ rest => max t.sdepth rest.sdepth
end

mutual
/-- what the parser can produce: every select list has at least one item -/
def Q.WF : Q → Prop
  | .mk _ items src _ => items ≠ [] ∧ src.WF
def Src.WF : Src → Prop
  | .none => True
  | .from t joins => t.WF ∧ joins.WF
def TRef.WF : TRef → Prop
  | .tbl _ _ => True
  | .sub q _ => q.WF
def JL.WF : JL → Prop
  | .nil => True
  | .cons _ t _ rest => t.WF ∧ rest.WF
end

end Neumann.Parse.Clause
