import NeumannModel.Parse.Model
/-
  C15 — helper lemmas for the Pratt model: binding-power facts, fuel monotonicity,
  fuel adequacy / consumption / error-position bounds, and the key round-trip lemma `K`.
  Core Lean only.
-/
namespace Neumann.Parse

/-! ### binding powers -/

theorem rbp_eq (o : BinOp) : rbp o = lbp o + 1 := by cases o <;> rfl
theorem lbp_lt_prefix (o : BinOp) : lbp o < PREFIX_BP := by cases o <;> decide
theorem lbp_pos (o : BinOp) : 1 ≤ lbp o := by cases o <;> decide

/-! ### fuel monotonicity: once the answer is not "out of fuel", more fuel does not change it -/

theorem mono (M : Nat) : ∀ f,
    (∀ d m ts, parseBpN M f d m ts ≠ .error .fuel → parseBpN M (f+1) d m ts = parseBpN M f d m ts) ∧
    (∀ d ts, parsePrefixN M f d ts ≠ .error .fuel → parsePrefixN M (f+1) d ts = parsePrefixN M f d ts) ∧
    (∀ d m l ts, ploopN M f d m l ts ≠ .error .fuel → ploopN M (f+1) d m l ts = ploopN M f d m l ts) := by
  intro f
  induction f with
  | zero =>
    refine ⟨?_, ?_, ?_⟩
    · intro d m ts h; exact absurd (by simp [parseBpN]) h
    · intro d ts h; exact absurd (by simp [parsePrefixN]) h
    · intro d m l ts h; exact absurd (by simp [ploopN]) h
  | succ f ih =>
    obtain ⟨ih1, ih2, ih3⟩ := ih
    refine ⟨?_, ?_, ?_⟩
    · intro d m ts h
      simp only [parseBpN] at h ⊢
      by_cases hd : d + 1 > M
      · simp only [hd, if_true]
      · simp only [hd, if_false] at h ⊢
        cases hp : parsePrefixN M f (d+1) ts with
        | error e =>
          simp only [hp] at h
          have := ih2 (d+1) ts (by rw [hp]; exact h)
          rw [this, hp]
        | ok p =>
          obtain ⟨lhs, rest⟩ := p
          simp only [hp] at h
          have h2 := ih2 (d+1) ts (by rw [hp]; simp)
          rw [h2, hp]
          exact ih3 _ _ _ _ h
    · intro d ts h
      simp only [parsePrefixN] at h ⊢
      cases ts with
      | nil => rfl
      | cons t rest =>
        simp only at h ⊢
        cases ha : prefixArm t with
        | atom n => rfl
        | wildcard => rfl
        | unexpected => rfl
        | paren =>
          simp only [ha] at h ⊢
          by_cases hr : rest.head? = some Tok.rparen
          · simp only [hr, if_true]
          · simp only [hr, if_false] at h ⊢
            cases hp : parseBpN M f d 0 rest with
            | error e =>
              simp only [hp] at h
              rw [ih1 d 0 rest (by rw [hp]; exact h), hp]
            | ok p =>
              obtain ⟨e, rest'⟩ := p
              rw [ih1 d 0 rest (by rw [hp]; simp), hp]
        | unary u =>
          simp only [ha] at h ⊢
          cases hp : parseBpN M f d PREFIX_BP rest with
          | error e =>
            simp only [hp] at h
            rw [ih1 d _ rest (by rw [hp]; exact h), hp]
          | ok p =>
            obtain ⟨e, rest'⟩ := p
            rw [ih1 d _ rest (by rw [hp]; simp), hp]
    · intro d m l ts h
      simp only [ploopN] at h ⊢
      cases ts with
      | nil => rfl
      | cons t rest =>
        simp only at h ⊢
        cases hb : binaryOf t with
        | none => rfl
        | some o =>
          simp only [hb] at h ⊢
          by_cases hl : lbp o < m
          · simp only [hl, if_true]
          · simp only [hl, if_false] at h ⊢
            cases hp : parseBpN M f d (rbp o) rest with
            | error e =>
              simp only [hp] at h
              rw [ih1 d _ rest (by rw [hp]; exact h), hp]
            | ok p =>
              obtain ⟨rhs, rest'⟩ := p
              simp only [hp] at h
              rw [ih1 d _ rest (by rw [hp]; simp), hp]
              exact ih3 _ _ _ _ h


theorem mono_le (M : Nat) {f g : Nat} (h : f ≤ g) :
    (∀ d m ts, parseBpN M f d m ts ≠ .error .fuel → parseBpN M g d m ts = parseBpN M f d m ts) ∧
    (∀ d ts, parsePrefixN M f d ts ≠ .error .fuel → parsePrefixN M g d ts = parsePrefixN M f d ts) ∧
    (∀ d m l ts, ploopN M f d m l ts ≠ .error .fuel → ploopN M g d m l ts = ploopN M f d m l ts) := by
  induction h with
  | refl => exact ⟨fun _ _ _ _ => rfl, fun _ _ _ => rfl, fun _ _ _ _ _ => rfl⟩
  | step _ ih =>
    obtain ⟨a, b, c⟩ := ih
    obtain ⟨a', b', c'⟩ := mono M _
    refine ⟨?_, ?_, ?_⟩
    · intro d m ts h
      have e := a d m ts h
      rw [a' d m ts (by rw [e]; exact h), e]
    · intro d ts h
      have e := b d ts h
      rw [b' d ts (by rw [e]; exact h), e]
    · intro d m l ts h
      have e := c d m l ts h
      rw [c' d m l ts (by rw [e]; exact h), e]

/-! ### consumption and error positions (unconditional) -/

/-- an error position lies inside an input of `n` tokens (`rem = 0` is the end-of-input point) -/
def PErr.posOk (n : Nat) : PErr → Prop
  | .tooDeep rem => rem ≤ n
  | .unexpected _ rem => 1 ≤ rem ∧ rem ≤ n
  | _ => True

/-- result is sane w.r.t. an input of `n` tokens: the remaining input is shorter (strictly if
    `strict`), an error position is inside the input -/
def ResOk (strict : Bool) (n : Nat) : PRes → Prop
  | .ok (_, r) => if strict then r.length < n else r.length ≤ n
  | .error e => e.posOk n

theorem posOk_mono {e : PErr} {n n' : Nat} (h : e.posOk n) (hn : n ≤ n') : e.posOk n' := by
  cases e <;> simp only [PErr.posOk] at * <;> omega

theorem ResOk_lift {k n : Nat} {r : PRes} (h : ResOk false k r) (hk : k < n) : ResOk true n r := by
  cases r with
  | error e => exact posOk_mono h (Nat.le_of_lt hk)
  | ok p => obtain ⟨e, r⟩ := p; simp only [ResOk] at *; simp at *; omega

theorem ResOk_weaken {b : Bool} {k n : Nat} {r : PRes} (h : ResOk b k r) (hk : k ≤ n) : ResOk false n r := by
  cases r with
  | error e => exact posOk_mono h hk
  | ok p => obtain ⟨e, r⟩ := p; cases b <;> simp only [ResOk] at * <;> simp at * <;> omega

theorem expectRParen_ok (e : Expr) (ts : List Tok) : ResOk false ts.length (expectRParen e ts) := by
  cases ts with
  | nil => simp [expectRParen, ResOk, PErr.posOk]
  | cons t r =>
    simp only [expectRParen]
    by_cases h : t = Tok.rparen
    · simp [h, ResOk]
    · simp [h, ResOk, PErr.posOk]

theorem bounds (M : Nat) : ∀ f,
    (∀ d m ts, ResOk true ts.length (parseBpN M f d m ts)) ∧
    (∀ d ts, ResOk true ts.length (parsePrefixN M f d ts)) ∧
    (∀ d m l ts, ResOk false ts.length (ploopN M f d m l ts)) := by
  intro f
  induction f with
  | zero =>
    refine ⟨?_, ?_, ?_⟩
    · intro d m ts; simp [parseBpN, ResOk, PErr.posOk]
    · intro d ts; simp [parsePrefixN, ResOk, PErr.posOk]
    · intro d m l ts; simp [ploopN, ResOk, PErr.posOk]
  | succ f ih =>
    obtain ⟨ih1, ih2, ih3⟩ := ih
    refine ⟨?_, ?_, ?_⟩
    · intro d m ts
      simp only [parseBpN]
      by_cases hd : d + 1 > M
      · simp [hd, ResOk, PErr.posOk]
      · simp only [hd, if_false]
        have h2 := ih2 (d+1) ts
        cases hp : parsePrefixN M f (d+1) ts with
        | error e => rw [hp] at h2; exact h2
        | ok p =>
          obtain ⟨lhs, rest⟩ := p
          rw [hp] at h2
          simp only [ResOk, if_true] at h2
          exact ResOk_lift (ih3 (d+1) m lhs rest) h2
    · intro d ts
      simp only [parsePrefixN]
      cases ts with
      | nil => simp [ResOk, PErr.posOk]
      | cons t rest =>
        simp only
        cases ha : prefixArm t with
        | atom n => simp [ResOk]
        | wildcard => simp [ResOk]
        | unexpected => simp [ResOk, PErr.posOk]
        | paren =>
          simp only
          by_cases hr : rest.head? = some Tok.rparen
          · simp only [hr, if_true, ResOk, List.length_tail, List.length_cons]; omega
          · simp only [hr, if_false]
            have h1 := ih1 d 0 rest
            cases hp : parseBpN M f d 0 rest with
            | error e => rw [hp] at h1; exact posOk_mono h1 (by simp)
            | ok p =>
              obtain ⟨e, rest'⟩ := p
              rw [hp] at h1
              simp only [ResOk, if_true] at h1
              exact ResOk_lift (expectRParen_ok e rest') (by simp; omega)
        | unary u =>
          simp only
          have h1 := ih1 d PREFIX_BP rest
          cases hp : parseBpN M f d PREFIX_BP rest with
          | error e => rw [hp] at h1; exact posOk_mono h1 (by simp)
          | ok p =>
            obtain ⟨e, rest'⟩ := p
            rw [hp] at h1
            simp only [ResOk, if_true, List.length_cons] at h1 ⊢
            omega
    · intro d m l ts
      simp only [ploopN]
      cases ts with
      | nil => simp [ResOk]
      | cons t rest =>
        simp only
        cases hb : binaryOf t with
        | none => simp [ResOk]
        | some o =>
          simp only
          by_cases hl : lbp o < m
          · simp [hl, ResOk]
          · simp only [hl, if_false]
            have h1 := ih1 d (rbp o) rest
            cases hp : parseBpN M f d (rbp o) rest with
            | error e => rw [hp] at h1; exact posOk_mono h1 (by simp)
            | ok p =>
              obtain ⟨rhs, rest'⟩ := p
              rw [hp] at h1
              simp only [ResOk, if_true] at h1
              exact ResOk_weaken (ih3 d m (.bin l o rhs) rest') (by simp; omega)

/-! ### fuel adequacy -/

theorem no_fuel (M : Nat) : ∀ f,
    (∀ d m ts, 2 * ts.length + 2 ≤ f → parseBpN M f d m ts ≠ .error .fuel) ∧
    (∀ d ts, 2 * ts.length + 1 ≤ f → parsePrefixN M f d ts ≠ .error .fuel) ∧
    (∀ d m l ts, 2 * ts.length + 1 ≤ f → ploopN M f d m l ts ≠ .error .fuel) := by
  intro f
  induction f with
  | zero =>
    refine ⟨?_, ?_, ?_⟩
    · intro d m ts h; omega
    · intro d ts h; omega
    · intro d m l ts h; omega
  | succ f ih =>
    obtain ⟨ih1, ih2, ih3⟩ := ih
    refine ⟨?_, ?_, ?_⟩
    · intro d m ts hf
      simp only [parseBpN]
      by_cases hd : d + 1 > M
      · simp [hd]
      · simp only [hd, if_false]
        have h2 := ih2 (d+1) ts (by omega)
        have hb := (bounds M f).2.1 (d+1) ts
        cases hp : parsePrefixN M f (d+1) ts with
        | error e => rw [hp] at h2; simpa using h2
        | ok p =>
          obtain ⟨lhs, rest⟩ := p
          rw [hp] at hb
          simp only [ResOk, if_true] at hb
          exact ih3 (d+1) m lhs rest (by omega)
    · intro d ts hf
      simp only [parsePrefixN]
      cases ts with
      | nil => simp
      | cons t rest =>
        simp only [List.length_cons] at hf ⊢
        cases ha : prefixArm t with
        | atom n => simp
        | wildcard => simp
        | unexpected => simp
        | paren =>
          simp only
          by_cases hr : rest.head? = some Tok.rparen
          · simp [hr]
          · simp only [hr, if_false]
            have h1 := ih1 d 0 rest (by omega)
            cases hp : parseBpN M f d 0 rest with
            | error e => rw [hp] at h1; simpa using h1
            | ok p =>
              obtain ⟨e, rest'⟩ := p
              simp only
              cases rest' with
              | nil => simp [expectRParen]
              | cons t' r' =>
                simp only [expectRParen]
                by_cases ht : t' = Tok.rparen <;> simp [ht]
        | unary u =>
          simp only
          have h1 := ih1 d PREFIX_BP rest (by omega)
          cases hp : parseBpN M f d PREFIX_BP rest with
          | error e => rw [hp] at h1; simpa using h1
          | ok p => obtain ⟨e, rest'⟩ := p; simp
    · intro d m l ts hf
      simp only [ploopN]
      cases ts with
      | nil => simp
      | cons t rest =>
        simp only [List.length_cons] at hf ⊢
        cases hb : binaryOf t with
        | none => simp
        | some o =>
          simp only
          by_cases hl : lbp o < m
          · simp [hl]
          · simp only [hl, if_false]
            have h1 := ih1 d (rbp o) rest (by omega)
            have hbd := (bounds M f).1 d (rbp o) rest
            cases hp : parseBpN M f d (rbp o) rest with
            | error e => rw [hp] at h1; simpa using h1
            | ok p =>
              obtain ⟨rhs, rest'⟩ := p
              rw [hp] at hbd
              simp only [ResOk, if_true] at hbd
              exact ih3 d m _ rest' (by omega)

/-- a result obtained with ANY fuel, if it is not "out of fuel", is the result at `fuelFor` -/
theorem at_fuelFor (M : Nat) {f d m : Nat} {ts : List Tok} {r : PRes}
    (h : parseBpN M f d m ts = r) (hr : r ≠ .error .fuel) :
    parseBpN M (fuelFor ts) d m ts = r := by
  have hF : parseBpN M (fuelFor ts) d m ts ≠ .error .fuel :=
    (no_fuel M (fuelFor ts)).1 d m ts (by simp [fuelFor])
  have h1 := (mono_le M (Nat.le_max_left f (fuelFor ts))).1 d m ts (by rw [h]; exact hr)
  have h2 := (mono_le M (Nat.le_max_right f (fuelFor ts))).1 d m ts hF
  rw [← h2, h1, h]

/-! ### the round-trip machinery (DESIGN.md A.5, with prefix operators, `()`/`*` atoms and depth) -/

def Parses (M d m : Nat) (ts : List Tok) (r : Expr × List Tok) : Prop := ∃ f, parseBpN M f d m ts = .ok r
def PrefixP (M d : Nat) (ts : List Tok) (r : Expr × List Tok) : Prop := ∃ f, parsePrefixN M f d ts = .ok r
def Loops (M d m : Nat) (l : Expr) (ts : List Tok) (r : Expr × List Tok) : Prop :=
  ∃ f, ploopN M f d m l ts = .ok r

theorem ok_mono_bp {M f g d m ts r} (h : f ≤ g) (e : parseBpN M f d m ts = .ok r) :
    parseBpN M g d m ts = .ok r := by
  rw [(mono_le M h).1 d m ts (by rw [e]; simp), e]
theorem ok_mono_prefix {M f g d ts r} (h : f ≤ g) (e : parsePrefixN M f d ts = .ok r) :
    parsePrefixN M g d ts = .ok r := by
  rw [(mono_le M h).2.1 d ts (by rw [e]; simp), e]
theorem ok_mono_loop {M f g d m l ts r} (h : f ≤ g) (e : ploopN M f d m l ts = .ok r) :
    ploopN M g d m l ts = .ok r := by
  rw [(mono_le M h).2.2 d m l ts (by rw [e]; simp), e]

theorem parses_of {M d m ts lhs rest r} (hd : d + 1 ≤ M) (hp : PrefixP M (d+1) ts (lhs, rest))
    (hl : Loops M (d+1) m lhs rest r) : Parses M d m ts r := by
  obtain ⟨f1, h1⟩ := hp
  obtain ⟨f2, h2⟩ := hl
  refine ⟨max f1 f2 + 1, ?_⟩
  simp only [parseBpN]
  have hd' : ¬ d + 1 > M := by omega
  simp only [hd', if_false]
  rw [ok_mono_prefix (Nat.le_max_left f1 f2) h1]
  exact ok_mono_loop (Nat.le_max_right f1 f2) h2

theorem loops_op {M d m o lhs rhs rest rest' r} (hk : ¬ lbp o < m)
    (hp : Parses M d (rbp o) rest (rhs, rest')) (hl : Loops M d m (.bin lhs o rhs) rest' r) :
    Loops M d m lhs (Tok.op o :: rest) r := by
  obtain ⟨f1, h1⟩ := hp
  obtain ⟨f2, h2⟩ := hl
  refine ⟨max f1 f2 + 1, ?_⟩
  simp only [ploopN, binaryOf, hk, if_false]
  rw [ok_mono_bp (Nat.le_max_left f1 f2) h1]
  exact ok_mono_loop (Nat.le_max_right f1 f2) h2

/-- the head of the remaining input makes a frame running at `min_bp = b` stop -/
def headStops (b : Nat) : List Tok → Prop
  | Tok.op o :: _ => lbp o < b
  | _ => True

theorem loops_stop {M d m e X} (h : headStops m X) : Loops M d m e X (e, X) := by
  refine ⟨1, ?_⟩
  cases X with
  | nil => simp [ploopN]
  | cons t ts =>
    cases t with
    | op o => simp only [headStops] at h; simp [ploopN, binaryOf, h]
    | atom n => simp [ploopN, binaryOf]
    | lparen => simp [ploopN, binaryOf]
    | rparen => simp [ploopN, binaryOf]
    | notKw => simp [ploopN, binaryOf]
    | bang => simp [ploopN, binaryOf]
    | tilde => simp [ploopN, binaryOf]
    | other => simp [ploopN, binaryOf]

theorem headStops_mono {a b X} (h : a ≤ b) (hs : headStops a X) : headStops b X := by
  cases X with
  | nil => trivial
  | cons t ts => cases t <;> simp only [headStops] at * ; omega

theorem headStops_prefix (X : List Tok) : headStops PREFIX_BP X := by
  cases X with
  | nil => trivial
  | cons t ts =>
    cases t <;> simp only [headStops]
    exact lbp_lt_prefix _

theorem prefix_atom {M d n rest} : PrefixP M d (Tok.atom n :: rest) (.atom n, rest) :=
  ⟨1, by simp [parsePrefixN, prefixArm]⟩
theorem prefix_wild {M d rest} : PrefixP M d (Tok.op .mul :: rest) (.wildcard, rest) :=
  ⟨1, by simp [parsePrefixN, prefixArm]⟩
theorem prefix_unit {M d rest} : PrefixP M d (Tok.lparen :: Tok.rparen :: rest) (.unit, rest) :=
  ⟨1, by simp [parsePrefixN, prefixArm]⟩

theorem prefix_paren {M d e rest rest'} (hh : rest.head? ≠ some Tok.rparen)
    (h : Parses M d 0 rest (e, Tok.rparen :: rest')) : PrefixP M d (Tok.lparen :: rest) (e, rest') := by
  obtain ⟨f, hf⟩ := h
  exact ⟨f+1, by simp [parsePrefixN, prefixArm, hh, hf, expectRParen]⟩

theorem prefixArm_unTok (u : UnOp) : prefixArm (unTok u) = .unary u := by cases u <;> rfl

theorem prefix_unary {M d u e rest rest'} (h : Parses M d PREFIX_BP rest (e, rest')) :
    PrefixP M d (unTok u :: rest) (.un u e, rest') := by
  obtain ⟨f, hf⟩ := h
  exact ⟨f+1, by simp [parsePrefixN, prefixArm_unTok, hf]⟩

/-- what must follow a printed expression for the frame that parsed its top node to stop -/
def StopAbove : Expr → List Tok → Prop
  | .bin _ o _, X => headStops (rbp o) X
  | _, _ => True

theorem wrap_true (ts X : List Tok) : wrap true ts ++ X = Tok.lparen :: (ts ++ Tok.rparen :: X) := by
  simp [wrap]
theorem wrap_false (ts : List Tok) : wrap false ts = ts := rfl

theorem print_head (extra : Expr → Bool) (e : Expr) :
    ∃ t ts, printWith extra e = t :: ts ∧ t ≠ Tok.rparen := by
  induction e with
  | atom n => exact ⟨_, _, rfl, by simp⟩
  | wildcard => exact ⟨_, _, rfl, by simp⟩
  | unit => exact ⟨_, _, rfl, by simp⟩
  | un u x _ => exact ⟨unTok u, _, rfl, by cases u <;> simp [unTok]⟩
  | bin l o r ihl _ =>
    simp only [printWith]
    cases hb : (extra l || decide (topBp l < lbp o)) with
    | true =>
      exact ⟨Tok.lparen, (printWith extra l ++ [Tok.rparen]) ++ Tok.op o ::
        wrap (extra r || decide (topBp r < rbp o)) (printWith extra r), by simp [wrap], by simp⟩
    | false =>
      obtain ⟨t, ts, h1, h2⟩ := ihl
      exact ⟨t, ts ++ Tok.op o :: wrap (extra r || decide (topBp r < rbp o)) (printWith extra r),
        by simp [wrap, h1], h2⟩

theorem print_head_ne (extra : Expr → Bool) (e : Expr) (Y : List Tok) :
    (printWith extra e ++ Y).head? ≠ some Tok.rparen := by
  obtain ⟨t, ts, h1, h2⟩ := print_head extra e
  rw [h1]; simp [h2]

/-! ### the same machinery for arbitrary (non-"out of fuel") outcomes, errors included -/

def ParsesR (M d m : Nat) (ts : List Tok) (res : PRes) : Prop :=
  res ≠ .error .fuel ∧ ∃ f, parseBpN M f d m ts = res
def PrefixR (M d : Nat) (ts : List Tok) (res : PRes) : Prop :=
  res ≠ .error .fuel ∧ ∃ f, parsePrefixN M f d ts = res
def LoopsR (M d m : Nat) (l : Expr) (ts : List Tok) (res : PRes) : Prop :=
  res ≠ .error .fuel ∧ ∃ f, ploopN M f d m l ts = res

theorem res_mono_bp {M f g d m ts res} (h : f ≤ g) (hn : res ≠ .error .fuel)
    (e : parseBpN M f d m ts = res) : parseBpN M g d m ts = res := by
  rw [(mono_le M h).1 d m ts (by rw [e]; exact hn), e]
theorem res_mono_loop {M f g d m l ts res} (h : f ≤ g) (hn : res ≠ .error .fuel)
    (e : ploopN M f d m l ts = res) : ploopN M g d m l ts = res := by
  rw [(mono_le M h).2.2 d m l ts (by rw [e]; exact hn), e]

theorem loopsR_of_loops {M d m l ts r} (h : Loops M d m l ts r) : LoopsR M d m l ts (.ok r) :=
  ⟨by simp, h⟩
theorem parses_of_parsesR {M d m ts r} (h : ParsesR M d m ts (.ok r)) : Parses M d m ts r := h.2

theorem parsesR_of {M d m ts lhs rest res} (hd : d + 1 ≤ M) (hp : PrefixP M (d+1) ts (lhs, rest))
    (hl : LoopsR M (d+1) m lhs rest res) : ParsesR M d m ts res := by
  obtain ⟨f1, h1⟩ := hp
  obtain ⟨hn, f2, h2⟩ := hl
  refine ⟨hn, max f1 f2 + 1, ?_⟩
  simp only [parseBpN]
  have hd' : ¬ d + 1 > M := by omega
  simp only [hd', if_false]
  rw [ok_mono_prefix (Nat.le_max_left f1 f2) h1]
  exact res_mono_loop (Nat.le_max_right f1 f2) hn h2

theorem parsesR_prefix_err {M d m ts e} (hd : d + 1 ≤ M) (hp : PrefixR M (d+1) ts (.error e)) :
    ParsesR M d m ts (.error e) := by
  obtain ⟨hn, f, h⟩ := hp
  refine ⟨hn, f + 1, ?_⟩
  have hd' : ¬ d + 1 > M := by omega
  simp only [parseBpN, hd', if_false, h]

theorem parsesR_deep {M d m ts} (h : M ≤ d) : ParsesR M d m ts (.error (.tooDeep ts.length)) := by
  refine ⟨by simp, 1, ?_⟩
  have : d + 1 > M := by omega
  simp only [parseBpN, this, if_true]

theorem loopsR_op {M d m o lhs rhs rest rest' res} (hk : ¬ lbp o < m)
    (hp : Parses M d (rbp o) rest (rhs, rest')) (hl : LoopsR M d m (.bin lhs o rhs) rest' res) :
    LoopsR M d m lhs (Tok.op o :: rest) res := by
  obtain ⟨f1, h1⟩ := hp
  obtain ⟨hn, f2, h2⟩ := hl
  refine ⟨hn, max f1 f2 + 1, ?_⟩
  simp only [ploopN, binaryOf, hk, if_false]
  rw [ok_mono_bp (Nat.le_max_left f1 f2) h1]
  exact res_mono_loop (Nat.le_max_right f1 f2) hn h2

theorem loopsR_op_err {M d m o lhs rest e} (hk : ¬ lbp o < m)
    (hp : ParsesR M d (rbp o) rest (.error e)) : LoopsR M d m lhs (Tok.op o :: rest) (.error e) := by
  obtain ⟨hn, f, h⟩ := hp
  refine ⟨hn, f + 1, ?_⟩
  simp only [ploopN, binaryOf, hk, if_false, h]

theorem prefixR_paren_err {M d e rest} (hh : rest.head? ≠ some Tok.rparen)
    (h : ParsesR M d 0 rest (.error e)) : PrefixR M d (Tok.lparen :: rest) (.error e) := by
  obtain ⟨hn, f, hf⟩ := h
  exact ⟨hn, f+1, by simp [parsePrefixN, prefixArm, hh, hf]⟩

theorem prefixR_unary_err {M d u e rest} (h : ParsesR M d PREFIX_BP rest (.error e)) :
    PrefixR M d (unTok u :: rest) (.error e) := by
  obtain ⟨hn, f, hf⟩ := h
  exact ⟨hn, f+1, by simp [parsePrefixN, prefixArm_unTok, hf]⟩

theorem frames_pos (extra : Expr → Bool) (e : Expr) : 1 ≤ framesWith extra e := by
  cases e <;> simp only [framesWith] <;> omega

/-- The statement proved by induction on the expression: a frame entered at depth `d` with
    `min_bp = m` that finds `print e ++ X` parses `e` and then behaves exactly like its own loop
    started with `lhs = e` on `X` — whatever that loop's outcome `res` is (a tree or an error). -/
def KPropR (extra : Expr → Bool) (M : Nat) (e : Expr) : Prop :=
  ∀ d m X res, m ≤ topBp e → StopAbove e X → d + framesWith extra e ≤ M →
    LoopsR M (d+1) m e X res → ParsesR M d m (printWith extra e ++ X) res

/-- an operand `x`, parenthesised iff `b`, parsed by a fresh frame at `min_bp = m'` -/
theorem operandR {extra M x} (ih : KPropR extra M x) (b : Bool) (d' m' : Nat) (X : List Tok) (res)
    (hb : b = true ∨ m' ≤ topBp x) (hsa : b = false → StopAbove x X)
    (hd : d' + (if b then 1 + framesWith extra x else framesWith extra x) ≤ M)
    (hl : LoopsR M (d'+1) m' x X res) :
    ParsesR M d' m' (wrap b (printWith extra x) ++ X) res := by
  have hpos := frames_pos extra x
  cases b with
  | true =>
    simp only [if_true] at hd
    rw [wrap_true]
    have hin : Parses M (d'+1) 0 (printWith extra x ++ Tok.rparen :: X) (x, Tok.rparen :: X) :=
      parses_of_parsesR (ih (d'+1) 0 _ _ (Nat.zero_le _) (by cases x <;> simp [StopAbove, headStops])
        (by omega) (loopsR_of_loops (loops_stop (by simp [headStops]))))
    exact parsesR_of (by omega) (prefix_paren (print_head_ne extra x _) hin) hl
  | false =>
    simp only [Bool.false_eq_true, if_false] at hd
    rw [wrap_false]
    cases hb with
    | inl h => cases h
    | inr h => exact ih d' m' X res h (hsa rfl) hd hl

theorem KR (extra : Expr → Bool) (M : Nat) (e : Expr) : KPropR extra M e := by
  induction e with
  | atom n =>
    intro d m X res _ _ hd hl
    simp only [framesWith] at hd
    exact parsesR_of (by omega) prefix_atom hl
  | wildcard =>
    intro d m X res _ _ hd hl
    simp only [framesWith] at hd
    exact parsesR_of (by omega) prefix_wild hl
  | unit =>
    intro d m X res _ _ hd hl
    simp only [framesWith] at hd
    exact parsesR_of (by omega) prefix_unit hl
  | un u x ihx =>
    intro d m X res _ _ hd hl
    simp only [framesWith] at hd
    have hO : Parses M (d+1) PREFIX_BP
        (wrap (extra x || decide (topBp x < PREFIX_BP)) (printWith extra x) ++ X) (x, X) := by
      refine parses_of_parsesR (operandR ihx _ (d+1) PREFIX_BP X (.ok (x, X)) ?_ ?_ (by omega)
        (loopsR_of_loops (loops_stop (headStops_prefix X))))
      · cases hb : (extra x || decide (topBp x < PREFIX_BP)) with
        | true => exact Or.inl rfl
        | false =>
          simp only [Bool.or_eq_false_iff, decide_eq_false_iff_not] at hb
          exact Or.inr (by omega)
      · intro hb
        simp only [Bool.or_eq_false_iff, decide_eq_false_iff_not] at hb
        cases x with
        | bin a o b => exact absurd (lbp_lt_prefix o) hb.2
        | _ => trivial
    have hpos := frames_pos extra x
    have : d + 1 ≤ M := by
      cases hb : (extra x || decide (topBp x < PREFIX_BP)) <;> simp only [hb] at hd <;> simp at hd <;> omega
    exact parsesR_of this (prefix_unary hO) hl
  | bin l o r0 ihl ihr =>
    intro d m X res hm hs hd hl
    simp only [topBp] at hm
    simp only [StopAbove] at hs
    simp only [framesWith] at hd
    have hR : Parses M (d+1) (rbp o)
        (wrap (extra r0 || decide (topBp r0 < rbp o)) (printWith extra r0) ++ X) (r0, X) := by
      refine parses_of_parsesR (operandR ihr _ (d+1) (rbp o) X (.ok (r0, X)) ?_ ?_ (by omega)
        (loopsR_of_loops (loops_stop hs)))
      · cases hb : (extra r0 || decide (topBp r0 < rbp o)) with
        | true => exact Or.inl rfl
        | false =>
          simp only [Bool.or_eq_false_iff, decide_eq_false_iff_not] at hb
          exact Or.inr (by omega)
      · intro hb
        simp only [Bool.or_eq_false_iff, decide_eq_false_iff_not] at hb
        cases r0 with
        | bin a o2 b =>
          simp only [StopAbove, topBp] at *
          exact headStops_mono (by have := rbp_eq o2; omega) hs
        | _ => trivial
    have hL : LoopsR M (d+1) m l
        (Tok.op o :: (wrap (extra r0 || decide (topBp r0 < rbp o)) (printWith extra r0) ++ X)) res :=
      loopsR_op (by omega) hR hl
    have := operandR ihl (extra l || decide (topBp l < lbp o)) d m _ res ?_ ?_ (by omega) hL
    · simpa [printWith, List.append_assoc] using this
    · cases hb : (extra l || decide (topBp l < lbp o)) with
      | true => exact Or.inl rfl
      | false =>
        simp only [Bool.or_eq_false_iff, decide_eq_false_iff_not] at hb
        exact Or.inr (by omega)
    · intro hb
      simp only [Bool.or_eq_false_iff, decide_eq_false_iff_not] at hb
      cases l with
      | bin a o1 b =>
        simp only [StopAbove, headStops, topBp] at *
        have := rbp_eq o1; omega
      | _ => trivial

/-- the success instance used by the round-trip theorems -/
def KProp (extra : Expr → Bool) (M : Nat) (e : Expr) : Prop :=
  ∀ d m X r, m ≤ topBp e → StopAbove e X → d + framesWith extra e ≤ M →
    Loops M (d+1) m e X r → Parses M d m (printWith extra e ++ X) r

theorem K (extra : Expr → Bool) (M : Nat) (e : Expr) : KProp extra M e :=
  fun d m X r hm hs hd hl => parses_of_parsesR (KR extra M e d m X (.ok r) hm hs hd (loopsR_of_loops hl))

/-! ### exactness of the depth accounting: one frame too many is `TooDeep` -/

def TDProp (extra : Expr → Bool) (M : Nat) (e : Expr) : Prop :=
  ∀ d m X, m ≤ topBp e → d ≤ M → M < d + framesWith extra e →
    ∃ k, ParsesR M d m (printWith extra e ++ X) (.error (.tooDeep k))

theorem operand_td {extra M x} (ih : TDProp extra M x) (b : Bool) (d' m' : Nat) (X : List Tok)
    (hb : b = true ∨ m' ≤ topBp x) (hd : d' ≤ M)
    (hM : M < d' + (if b then 1 + framesWith extra x else framesWith extra x)) :
    ∃ k, ParsesR M d' m' (wrap b (printWith extra x) ++ X) (.error (.tooDeep k)) := by
  cases b with
  | true =>
    simp only [if_true] at hM
    rw [wrap_true]
    by_cases hdM : d' = M
    · exact ⟨_, parsesR_deep (by omega)⟩
    · obtain ⟨k, hk⟩ := ih (d'+1) 0 (Tok.rparen :: X) (Nat.zero_le _) (by omega) (by omega)
      exact ⟨k, parsesR_prefix_err (by omega) (prefixR_paren_err (print_head_ne extra x _) hk)⟩
  | false =>
    simp only [Bool.false_eq_true, if_false] at hM
    rw [wrap_false]
    cases hb with
    | inl h => cases h
    | inr h => exact ih d' m' X h hd hM

theorem TD (extra : Expr → Bool) (M : Nat) (e : Expr) : TDProp extra M e := by
  induction e with
  | atom n =>
    intro d m X _ hd hM
    simp only [framesWith] at hM
    exact ⟨_, parsesR_deep (by omega)⟩
  | wildcard =>
    intro d m X _ hd hM
    simp only [framesWith] at hM
    exact ⟨_, parsesR_deep (by omega)⟩
  | unit =>
    intro d m X _ hd hM
    simp only [framesWith] at hM
    exact ⟨_, parsesR_deep (by omega)⟩
  | un u x ihx =>
    intro d m X _ hd hM
    simp only [framesWith] at hM
    by_cases hdM : d = M
    · exact ⟨_, parsesR_deep (by omega)⟩
    · obtain ⟨k, hk⟩ := operand_td ihx (extra x || decide (topBp x < PREFIX_BP)) (d+1) PREFIX_BP X
        (by
          cases hb : (extra x || decide (topBp x < PREFIX_BP)) with
          | true => exact Or.inl rfl
          | false =>
            simp only [Bool.or_eq_false_iff, decide_eq_false_iff_not] at hb
            exact Or.inr (by omega))
        (by omega) (by omega)
      refine ⟨k, ?_⟩
      have := parsesR_prefix_err (m := m) (show d + 1 ≤ M by omega) (prefixR_unary_err (u := u) hk)
      simpa [printWith] using this
  | bin l o r0 ihl ihr =>
    intro d m X hm hd hM
    simp only [topBp] at hm
    simp only [framesWith] at hM
    by_cases hdM : d = M
    · exact ⟨_, parsesR_deep (by omega)⟩
    · -- the printed text is `wrap bl (print l) ++ Y`
      have hsplit : printWith extra (.bin l o r0) ++ X =
          wrap (extra l || decide (topBp l < lbp o)) (printWith extra l) ++
            (Tok.op o :: (wrap (extra r0 || decide (topBp r0 < rbp o)) (printWith extra r0) ++ X)) := by
        simp [printWith, List.append_assoc]
      rw [hsplit]
      have hbl : (extra l || decide (topBp l < lbp o)) = true ∨ m ≤ topBp l := by
        cases hb : (extra l || decide (topBp l < lbp o)) with
        | true => exact Or.inl rfl
        | false =>
          simp only [Bool.or_eq_false_iff, decide_eq_false_iff_not] at hb
          exact Or.inr (by omega)
      by_cases hL : M < d + (if (extra l || decide (topBp l < lbp o)) then 1 + framesWith extra l
          else framesWith extra l)
      · -- the left operand alone is already too deep
        exact operand_td ihl _ d m _ hbl hd hL
      · -- the left operand parses; the right operand's frame is too deep
        obtain ⟨k, hk⟩ := operand_td ihr (extra r0 || decide (topBp r0 < rbp o)) (d+1) (rbp o) X
          (by
            cases hb : (extra r0 || decide (topBp r0 < rbp o)) with
            | true => exact Or.inl rfl
            | false =>
              simp only [Bool.or_eq_false_iff, decide_eq_false_iff_not] at hb
              exact Or.inr (by omega))
          (by omega) (by omega)
        have hLoop : LoopsR M (d+1) m l
            (Tok.op o :: (wrap (extra r0 || decide (topBp r0 < rbp o)) (printWith extra r0) ++ X))
            (.error (.tooDeep k)) := loopsR_op_err (by omega) hk
        refine ⟨k, operandR (KR extra M l) _ d m _ _ hbl ?_ (by omega) hLoop⟩
        intro hb
        simp only [Bool.or_eq_false_iff, decide_eq_false_iff_not] at hb
        cases l with
        | bin a o1 b =>
          simp only [StopAbove, headStops, topBp] at *
          have := rbp_eq o1; omega
        | _ => trivial

/-! ### depth accounting -/

theorem frames_min_le (extra : Expr → Bool) (e : Expr) :
    framesWith (fun _ => false) e ≤ framesWith extra e := by
  induction e with
  | atom n => simp [framesWith]
  | wildcard => simp [framesWith]
  | unit => simp [framesWith]
  | un u x ih =>
    simp only [framesWith, Bool.false_or]
    cases extra x <;> simp only [Bool.false_or, Bool.true_or, if_true] <;> split <;> omega
  | bin l o r ihl ihr =>
    simp only [framesWith, Bool.false_or]
    cases extra l <;> cases extra r <;> simp only [Bool.false_or, Bool.true_or, if_true] <;>
      (repeat' split) <;> omega

theorem frames_le_length (extra : Expr → Bool) (e : Expr) :
    framesWith extra e ≤ (printWith extra e).length := by
  induction e with
  | atom n => simp [framesWith, printWith]
  | wildcard => simp [framesWith, printWith]
  | unit => simp [framesWith, printWith]
  | un u x ih =>
    simp only [framesWith, printWith, List.length_cons]
    cases (extra x || decide (topBp x < PREFIX_BP)) <;> simp [wrap] <;> omega
  | bin l o r ihl ihr =>
    simp only [framesWith, printWith, List.length_append, List.length_cons]
    cases (extra l || decide (topBp l < lbp o)) <;> cases (extra r || decide (topBp r < rbp o)) <;>
      simp [wrap] <;> omega

/-! ### chains of nesting tokens run into the depth limit -/

/-- tokens after which `parse_prefix` opens a new `parse_expr_bp` frame: `(`, `-`, `NOT`, `!`, `~` -/
def isNester (t : Tok) : Bool :=
  match prefixArm t with
  | .paren => true
  | .unary _ => true
  | _ => false

theorem nester_chain (M : Nat) (rest : List Tok) (hr : rest.head? ≠ some Tok.rparen) :
    ∀ (pre : List Tok), (∀ t ∈ pre, isNester t = true) → ∀ d m, d ≤ M → M ≤ d + pre.length →
      ∃ f, parseBpN M f d m (pre ++ rest) = .error (.tooDeep (d + pre.length - M + rest.length)) := by
  intro pre
  induction pre with
  | nil =>
    intro _ d m hd hM
    refine ⟨1, ?_⟩
    have : d + 1 > M := by simp at hM; omega
    simp only [parseBpN, this, if_true, List.nil_append, List.length_nil]
    congr 2; omega
  | cons t p ih =>
    intro hn d m hd hM
    by_cases hdM : d = M
    · refine ⟨1, ?_⟩
      have : d + 1 > M := by omega
      simp only [parseBpN, this, if_true, List.length_append, List.length_cons]
      congr 2; omega
    · have hnp : ∀ t ∈ p, isNester t = true := fun t ht => hn t (by simp [ht])
      have ht := hn t (by simp)
      have hhead : (p ++ rest).head? ≠ some Tok.rparen := by
        cases p with
        | nil => simpa using hr
        | cons t' p' =>
          have := hn t' (by simp)
          intro h
          simp at h
          rw [h] at this
          simp [isNester, prefixArm] at this
      have hlen : d + 1 + p.length - M + rest.length = d + (t :: p).length - M + rest.length := by
        simp only [List.length_cons]; omega
      have hd' : ¬ d + 1 > M := by omega
      simp only [isNester] at ht
      cases ha : prefixArm t with
      | atom n => rw [ha] at ht; simp at ht
      | wildcard => rw [ha] at ht; simp at ht
      | unexpected => rw [ha] at ht; simp at ht
      | paren =>
        obtain ⟨f, hf⟩ := ih hnp (d+1) 0 (by omega) (by simp only [List.length_cons] at hM; omega)
        refine ⟨f + 2, ?_⟩
        simp only [parseBpN, hd', if_false, List.cons_append, parsePrefixN, ha, hhead, hf, hlen]
      | unary u =>
        obtain ⟨f, hf⟩ := ih hnp (d+1) PREFIX_BP (by omega) (by simp only [List.length_cons] at hM; omega)
        refine ⟨f + 2, ?_⟩
        simp only [parseBpN, hd', if_false, List.cons_append, parsePrefixN, ha, hf, hlen]

/-! ### every accepted input yields a tree whose minimal print fits the depth limit -/

/-- frames needed by the minimal print of `e` standing as the operand of a frame running at
    `min_bp = m` (that frame included): one more when `e` must be parenthesised -/
def need (m : Nat) (e : Expr) : Nat := if topBp e < m then 1 + framesMin e else framesMin e

theorem need_le (m : Nat) (e : Expr) : need m e ≤ 1 + framesMin e := by
  unfold need; split <;> omega

theorem need_of_le {m : Nat} {e : Expr} (h : m ≤ topBp e) : need m e = framesMin e := by
  unfold need
  have : ¬ topBp e < m := by omega
  simp only [this, if_false]

theorem framesMin_un (u : UnOp) (x : Expr) : framesMin (.un u x) = 1 + need PREFIX_BP x := by
  simp only [framesMin, framesWith, need, Bool.false_or, decide_eq_true_eq]

theorem framesMin_bin (l : Expr) (o : BinOp) (r : Expr) :
    framesMin (.bin l o r) = max (need (lbp o) l) (1 + need (rbp o) r) := by
  simp only [framesMin, framesWith, need, Bool.false_or, decide_eq_true_eq]

theorem rbp_le (o : BinOp) : rbp o ≤ 100 := by cases o <;> decide
theorem lbp_le (o : BinOp) : lbp o ≤ 100 := by cases o <;> decide

theorem headStops_nonop {m : Nat} {t : Tok} {rest : List Tok} (h : binaryOf t = none) :
    headStops m (t :: rest) := by
  cases t <;> simp [binaryOf] at h <;> trivial

theorem expectRParen_eq {e p : Expr} {ts rest : List Tok} (h : expectRParen e ts = .ok (p, rest)) : p = e := by
  cases ts with
  | nil => simp [expectRParen] at h
  | cons t r =>
    simp only [expectRParen] at h
    by_cases ht : t = Tok.rparen
    · simp [ht] at h; exact h.1.symm
    · simp [ht] at h

theorem depth_used (M : Nat) : ∀ f,
    (∀ d m ts e rest, m ≤ 100 → parseBpN M f d m ts = .ok (e, rest) →
        d + need m e ≤ M ∧ headStops m rest) ∧
    (∀ d ts p rest, d + 1 ≤ M → parsePrefixN M f (d+1) ts = .ok (p, rest) →
        ∀ m', m' ≤ 100 → d + need m' p ≤ M) ∧
    (∀ d m lhs ts e rest bnd, m ≤ bnd → bnd ≤ 100 → (∀ m'', m'' ≤ bnd → d + need m'' lhs ≤ M) →
        headStops (bnd+1) ts → ploopN M f (d+1) m lhs ts = .ok (e, rest) →
        d + need m e ≤ M ∧ headStops m rest) := by
  intro f
  induction f with
  | zero =>
    refine ⟨?_, ?_, ?_⟩
    · intro d m ts e rest _ h; simp [parseBpN] at h
    · intro d ts p rest _ h; simp [parsePrefixN] at h
    · intro d m lhs ts e rest bnd _ _ _ _ h; simp [ploopN] at h
  | succ f ih =>
    obtain ⟨ih1, ih2, ih3⟩ := ih
    refine ⟨?_, ?_, ?_⟩
    · intro d m ts e rest hm h
      simp only [parseBpN] at h
      by_cases hd : d + 1 > M
      · simp [hd] at h
      · simp only [hd, if_false] at h
        cases hp : parsePrefixN M f (d+1) ts with
        | error err => simp [hp] at h
        | ok p =>
          obtain ⟨lhs, rest0⟩ := p
          simp only [hp] at h
          have hJ := ih2 d ts lhs rest0 (by omega) hp
          exact ih3 d m lhs rest0 e rest 100 hm (Nat.le_refl _) hJ
            (headStops_mono (by decide) (headStops_prefix rest0)) h
    · intro d ts p rest hd h m' hm'
      simp only [parsePrefixN] at h
      cases ts with
      | nil => simp at h
      | cons t rest1 =>
        simp only at h
        cases ha : prefixArm t with
        | atom n =>
          simp only [ha, Except.ok.injEq, Prod.mk.injEq] at h
          rw [← h.1, need_of_le (by simp [topBp]; omega)]
          simp [framesMin, framesWith]; omega
        | wildcard =>
          simp only [ha, Except.ok.injEq, Prod.mk.injEq] at h
          rw [← h.1, need_of_le (by simp [topBp]; omega)]
          simp [framesMin, framesWith]; omega
        | unexpected => simp [ha] at h
        | paren =>
          simp only [ha] at h
          by_cases hr : rest1.head? = some Tok.rparen
          · simp only [hr, if_true, Except.ok.injEq, Prod.mk.injEq] at h
            rw [← h.1, need_of_le (by simp [topBp]; omega)]
            simp [framesMin, framesWith]; omega
          · simp only [hr, if_false] at h
            cases hp : parseBpN M f (d+1) 0 rest1 with
            | error err => simp [hp] at h
            | ok q =>
              obtain ⟨e, rest'⟩ := q
              simp only [hp] at h
              have he := expectRParen_eq h
              subst he
              have h1 := (ih1 (d+1) 0 rest1 p rest' (by omega) hp).1
              rw [need_of_le (Nat.zero_le _)] at h1
              have := need_le m' p
              omega
        | unary u =>
          simp only [ha] at h
          cases hp : parseBpN M f (d+1) PREFIX_BP rest1 with
          | error err => simp [hp] at h
          | ok q =>
            obtain ⟨x, rest'⟩ := q
            simp only [hp, Except.ok.injEq, Prod.mk.injEq] at h
            have h1 := (ih1 (d+1) PREFIX_BP rest1 x rest' (by decide) hp).1
            rw [← h.1, need_of_le (by simp [topBp]; omega), framesMin_un]
            omega
    · intro d m lhs ts e rest bnd hmb hb100 hJ hst h
      simp only [ploopN] at h
      cases ts with
      | nil =>
        simp only [Except.ok.injEq, Prod.mk.injEq] at h
        rw [← h.1, ← h.2]
        exact ⟨hJ m hmb, trivial⟩
      | cons t rest1 =>
        simp only at h
        cases hbo : binaryOf t with
        | none =>
          simp only [hbo, Except.ok.injEq, Prod.mk.injEq] at h
          rw [← h.1, ← h.2]
          exact ⟨hJ m hmb, headStops_nonop hbo⟩
        | some o =>
          have ht : t = Tok.op o := by
            cases t <;> simp [binaryOf] at hbo
            rw [hbo]
          subst ht
          simp only [hbo] at h
          by_cases hl : lbp o < m
          · simp only [hl, if_true, Except.ok.injEq, Prod.mk.injEq] at h
            rw [← h.1, ← h.2]
            exact ⟨hJ m hmb, by simpa [headStops] using hl⟩
          · simp only [hl, if_false] at h
            cases hp : parseBpN M f (d+1) (rbp o) rest1 with
            | error err => simp [hp] at h
            | ok q =>
              obtain ⟨rhs, rest'⟩ := q
              simp only [hp] at h
              obtain ⟨hr1, hr2⟩ := ih1 (d+1) (rbp o) rest1 rhs rest' (rbp_le o) hp
              have hlo : lbp o ≤ bnd := by simp only [headStops] at hst; omega
              refine ih3 d m (.bin lhs o rhs) rest' e rest (lbp o) (by omega) (lbp_le o) ?_ ?_ h
              · intro m'' hm''
                rw [need_of_le (by simpa [topBp] using hm''), framesMin_bin]
                have := hJ (lbp o) hlo
                omega
              · rw [← rbp_eq]; exact hr2

/-! ### `!` is a spelling of `NOT` -/

/-- replace every `!` token by `NOT` -/
def normBang : Tok → Tok
  | .bang => .notKw
  | t => t

def mapRest (r : PRes) : PRes :=
  match r with
  | .ok (e, rest) => .ok (e, rest.map normBang)
  | .error e => .error e

theorem prefixArm_normBang (t : Tok) : prefixArm (normBang t) = prefixArm t := by
  cases t <;> rfl
theorem binaryOf_normBang (t : Tok) : binaryOf (normBang t) = binaryOf t := by
  cases t <;> rfl
theorem normBang_rparen (t : Tok) : normBang t = Tok.rparen ↔ t = Tok.rparen := by
  cases t <;> simp [normBang]

theorem head_normBang (rest : List Tok) :
    ((rest.map normBang).head? = some Tok.rparen) ↔ (rest.head? = some Tok.rparen) := by
  cases rest with
  | nil => simp
  | cons t r => simp [normBang_rparen]

theorem expectRParen_normBang (e : Expr) (rest : List Tok) :
    expectRParen e (rest.map normBang) = mapRest (expectRParen e rest) := by
  cases rest with
  | nil => rfl
  | cons t r =>
    simp only [List.map_cons, expectRParen, normBang_rparen, List.length_cons, List.length_map]
    by_cases h : t = Tok.rparen <;> simp [h, mapRest]

theorem bang_eq_not (M : Nat) : ∀ f,
    (∀ d m ts, parseBpN M f d m (ts.map normBang) = mapRest (parseBpN M f d m ts)) ∧
    (∀ d ts, parsePrefixN M f d (ts.map normBang) = mapRest (parsePrefixN M f d ts)) ∧
    (∀ d m l ts, ploopN M f d m l (ts.map normBang) = mapRest (ploopN M f d m l ts)) := by
  intro f
  induction f with
  | zero =>
    refine ⟨?_, ?_, ?_⟩
    · intro d m ts; simp [parseBpN, mapRest]
    · intro d ts; simp [parsePrefixN, mapRest]
    · intro d m l ts; simp [ploopN, mapRest]
  | succ f ih =>
    obtain ⟨ih1, ih2, ih3⟩ := ih
    refine ⟨?_, ?_, ?_⟩
    · intro d m ts
      simp only [parseBpN, List.length_map]
      by_cases hd : d + 1 > M
      · simp [hd, mapRest]
      · simp only [hd, if_false]
        rw [ih2]
        cases hp : parsePrefixN M f (d+1) ts with
        | error e => simp [mapRest]
        | ok p => obtain ⟨lhs, rest⟩ := p; simp only [mapRest]; exact ih3 _ _ _ _
    · intro d ts
      cases ts with
      | nil => simp [parsePrefixN, mapRest]
      | cons t rest =>
        simp only [List.map_cons, parsePrefixN, prefixArm_normBang, List.length_cons, List.length_map]
        cases ha : prefixArm t with
        | atom n => simp [mapRest]
        | wildcard => simp [mapRest]
        | unexpected => simp [mapRest]
        | paren =>
          simp only
          by_cases hr : rest.head? = some Tok.rparen
          · have hr' := (head_normBang rest).2 hr
            simp only [hr, hr', if_true, mapRest]
            cases rest <;> simp
          · have hr' : ¬ (rest.map normBang).head? = some Tok.rparen := fun h => hr ((head_normBang rest).1 h)
            simp only [hr, hr', if_false]
            rw [ih1]
            cases hp : parseBpN M f d 0 rest with
            | error e => simp [mapRest]
            | ok p => obtain ⟨e, rest'⟩ := p; simp only [mapRest]; exact expectRParen_normBang e rest'
        | unary u =>
          simp only
          rw [ih1]
          cases hp : parseBpN M f d PREFIX_BP rest with
          | error e => simp [mapRest]
          | ok p => obtain ⟨e, rest'⟩ := p; simp [mapRest]
    · intro d m l ts
      cases ts with
      | nil => simp [ploopN, mapRest]
      | cons t rest =>
        simp only [List.map_cons, ploopN, binaryOf_normBang]
        cases hb : binaryOf t with
        | none => simp [mapRest]
        | some o =>
          simp only
          by_cases hl : lbp o < m
          · simp [hl, mapRest]
          · simp only [hl, if_false]
            rw [ih1]
            cases hp : parseBpN M f d (rbp o) rest with
            | error e => simp [mapRest]
            | ok p => obtain ⟨rhs, rest'⟩ := p; simp only [mapRest]; exact ih3 _ _ _ _

/-! ### the depth limit: it produces `TooDeep` and nothing else -/

/-- the answer is not `TooDeep` -/
def notDeep : PRes → Prop
  | .error (.tooDeep _) => False
  | _ => True

/-- Raising the limit never changes an answer other than `TooDeep` (same fuel on both sides). -/
theorem limit_mono {M M' : Nat} (hM : M ≤ M') : ∀ f,
    (∀ d m ts, notDeep (parseBpN M f d m ts) → parseBpN M' f d m ts = parseBpN M f d m ts) ∧
    (∀ d ts, notDeep (parsePrefixN M f d ts) → parsePrefixN M' f d ts = parsePrefixN M f d ts) ∧
    (∀ d m l ts, notDeep (ploopN M f d m l ts) → ploopN M' f d m l ts = ploopN M f d m l ts) := by
  intro f
  induction f with
  | zero =>
    refine ⟨?_, ?_, ?_⟩
    · intro d m ts _; simp [parseBpN]
    · intro d ts _; simp [parsePrefixN]
    · intro d m l ts _; simp [ploopN]
  | succ f ih =>
    obtain ⟨ih1, ih2, ih3⟩ := ih
    refine ⟨?_, ?_, ?_⟩
    · intro d m ts h
      simp only [parseBpN] at h ⊢
      by_cases hd : d + 1 > M
      · simp only [hd, if_true, notDeep] at h
      · have hd' : ¬ d + 1 > M' := by omega
        simp only [hd, hd', if_false] at h ⊢
        cases hp : parsePrefixN M f (d+1) ts with
        | error e =>
          simp only [hp] at h
          rw [ih2 (d+1) ts (by rw [hp]; exact h), hp]
        | ok p =>
          obtain ⟨lhs, rest⟩ := p
          simp only [hp] at h
          rw [ih2 (d+1) ts (by rw [hp]; trivial), hp]
          exact ih3 _ _ _ _ h
    · intro d ts h
      simp only [parsePrefixN] at h ⊢
      cases ts with
      | nil => rfl
      | cons t rest =>
        simp only at h ⊢
        cases ha : prefixArm t with
        | atom n => rfl
        | wildcard => rfl
        | unexpected => rfl
        | paren =>
          simp only [ha] at h ⊢
          by_cases hr : rest.head? = some Tok.rparen
          · simp only [hr, if_true]
          · simp only [hr, if_false] at h ⊢
            cases hp : parseBpN M f d 0 rest with
            | error e =>
              simp only [hp] at h
              rw [ih1 d 0 rest (by rw [hp]; exact h), hp]
            | ok p =>
              obtain ⟨e, rest'⟩ := p
              rw [ih1 d 0 rest (by rw [hp]; trivial), hp]
        | unary u =>
          simp only [ha] at h ⊢
          cases hp : parseBpN M f d PREFIX_BP rest with
          | error e =>
            simp only [hp] at h
            rw [ih1 d _ rest (by rw [hp]; exact h), hp]
          | ok p =>
            obtain ⟨e, rest'⟩ := p
            rw [ih1 d _ rest (by rw [hp]; trivial), hp]
    · intro d m l ts h
      simp only [ploopN] at h ⊢
      cases ts with
      | nil => rfl
      | cons t rest =>
        simp only at h ⊢
        cases hb : binaryOf t with
        | none => rfl
        | some o =>
          simp only [hb] at h ⊢
          by_cases hl : lbp o < m
          · simp only [hl, if_true]
          · simp only [hl, if_false] at h ⊢
            cases hp : parseBpN M f d (rbp o) rest with
            | error e =>
              simp only [hp] at h
              rw [ih1 d _ rest (by rw [hp]; exact h), hp]
            | ok p =>
              obtain ⟨rhs, rest'⟩ := p
              simp only [hp] at h
              rw [ih1 d _ rest (by rw [hp]; trivial), hp]
              exact ih3 _ _ _ _ h

/-- Every frame consumes a token before it opens the next one, so a limit with more room than
    tokens left is never reached. -/
theorem room_no_too_deep (M : Nat) : ∀ f,
    (∀ d m ts, d + ts.length < M → notDeep (parseBpN M f d m ts)) ∧
    (∀ d ts, d + ts.length ≤ M → notDeep (parsePrefixN M f d ts)) ∧
    (∀ d m l ts, d + ts.length ≤ M → notDeep (ploopN M f d m l ts)) := by
  intro f
  induction f with
  | zero =>
    refine ⟨?_, ?_, ?_⟩
    · intro d m ts _; simp [parseBpN, notDeep]
    · intro d ts _; simp [parsePrefixN, notDeep]
    · intro d m l ts _; simp [ploopN, notDeep]
  | succ f ih =>
    obtain ⟨ih1, ih2, ih3⟩ := ih
    refine ⟨?_, ?_, ?_⟩
    · intro d m ts h
      simp only [parseBpN]
      have hd : ¬ d + 1 > M := by omega
      simp only [hd, if_false]
      have h2 := ih2 (d+1) ts (by omega)
      have hb := (bounds M f).2.1 (d+1) ts
      cases hp : parsePrefixN M f (d+1) ts with
      | error e => rw [hp] at h2; exact h2
      | ok p =>
        obtain ⟨lhs, rest⟩ := p
        rw [hp] at hb
        simp only [ResOk, if_true] at hb
        exact ih3 (d+1) m lhs rest (by omega)
    · intro d ts h
      simp only [parsePrefixN]
      cases ts with
      | nil => simp [notDeep]
      | cons t rest =>
        simp only [List.length_cons] at h ⊢
        cases ha : prefixArm t with
        | atom n => simp [notDeep]
        | wildcard => simp [notDeep]
        | unexpected => simp [notDeep]
        | paren =>
          simp only
          by_cases hr : rest.head? = some Tok.rparen
          · simp [hr, notDeep]
          · simp only [hr, if_false]
            have h1 := ih1 d 0 rest (by omega)
            cases hp : parseBpN M f d 0 rest with
            | error e => rw [hp] at h1; exact h1
            | ok p =>
              obtain ⟨e, rest'⟩ := p
              simp only
              cases rest' with
              | nil => simp [expectRParen, notDeep]
              | cons t' r' =>
                simp only [expectRParen]
                by_cases ht : t' = Tok.rparen <;> simp [ht, notDeep]
        | unary u =>
          simp only
          have h1 := ih1 d PREFIX_BP rest (by omega)
          cases hp : parseBpN M f d PREFIX_BP rest with
          | error e => rw [hp] at h1; exact h1
          | ok p => obtain ⟨e, rest'⟩ := p; simp [notDeep]
    · intro d m l ts h
      simp only [ploopN]
      cases ts with
      | nil => simp [notDeep]
      | cons t rest =>
        simp only [List.length_cons] at h ⊢
        cases hb : binaryOf t with
        | none => simp [notDeep]
        | some o =>
          simp only
          by_cases hl : lbp o < m
          · simp [hl, notDeep]
          · simp only [hl, if_false]
            have h1 := ih1 d (rbp o) rest (by omega)
            have hbd := (bounds M f).1 d (rbp o) rest
            cases hp : parseBpN M f d (rbp o) rest with
            | error e => rw [hp] at h1; exact h1
            | ok p =>
              obtain ⟨rhs, rest'⟩ := p
              rw [hp] at hbd
              simp only [ResOk, if_true] at hbd
              exact ih3 d m _ rest' (by omega)

end Neumann.Parse
