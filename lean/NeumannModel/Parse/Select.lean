import NeumannModel.Parse.Model
/-
  C15 — model of the SELECT *skeleton* of `neumann_parser/src/parser.rs`
  (`Parser::{parse_statement, parse_select, parse_select_body, parse_select_body_inner,
  parse_select_item, parse_from_clause, parse_table_ref, parse_exists_expr, parse_expr_bp,
  parse_prefix_expr, expect, expect_ident}`, `MAX_DEPTH`, `MAX_SELECT_DEPTH`).
  Import-free (only `Parse/Model.lean` for `MAX_DEPTH`), total, computable.

  The fragment
      stmt  ::= SELECT body
      body  ::= `*` [ FROM tref ] [ WHERE EXISTS `(` SELECT body `)` ]
      tref  ::= ident | `(` SELECT body `)`
  is the part of the statement grammar through which `parse_select_body` re-enters itself
  (`parse_table_ref` and `parse_exists_expr`; the third site, `parse_in_expr`, is a postfix form
  and not in the alphabet).  Two counters are carried functionally, exactly as `Parser` keeps them
  (`+= 1` on entry, `-= 1` on every exit, an error aborts the parse):
    * `sd` = `self.select_depth`, active `parse_select_body` frames, limit `MAX_SELECT_DEPTH`;
    * `ed` = `self.depth`, active `parse_expr_bp` frames, limit `MAX_DEPTH`.  The select item `*`
      is one frame that is left again before FROM; the WHERE condition is one frame that stays
      active while the EXISTS subquery is parsed.

  The model's domain is explicit: whenever the real parser would continue into grammar that is not
  modelled, the answer is `Res.outside` — never an error attributed to the real parser.  Positions
  answered `outside`:
    * statement position: anything but `SELECT` first (other statements, `;` skipping, empty input);
    * select-item prefix position: identifier (column / call), `(` (parenthesised expression /
      tuple), `EXISTS` (legal there, but the tree type has no place for it);
    * directly after the item `*`: `*` (binary operator `Mul`), identifier (implicit alias);
    * directly after a table reference (plain or subquery): identifier (implicit alias);
    * WHERE prefix position: `*` (parses as `Wildcard`), identifier, `(`;
    * directly after the `)` of `EXISTS ( … )`: `*` (binary operator `Mul`).
  Everything else is decided: keywords / `)` / `other` in prefix position are the genuine
  "expected expression" error, `expect` failures are genuine, end of input is genuine.
  `other` stands for a token that is none of the alphabet and is neither an expression starter, a
  contextual keyword, a binary or postfix operator, `,`, `AS`, `DISTINCT`/`ALL`, a join keyword nor
  a clause keyword (`;` `]` `}` `:` `THEN` …).
  Error positions are "number of tokens left, current included", as in `Model.lean`.
-/
namespace Neumann.Parse.Sel

/-- `const MAX_SELECT_DEPTH: usize = 64` -/
def MAX_SELECT_DEPTH : Nat := 64

inductive STok
  | select | star | fromKw | lparen | rparen | tbl (n : Nat) | whereKw | existsKw | other
  deriving DecidableEq, Repr

/-- `SelectStmt` restricted to the skeleton. `src = none` ⇒ no FROM clause, `some n` ⇒ `FROM t<n>`;
    `fromSub s` = `FROM ( SELECT s )`; `whereSub src w` = `… WHERE EXISTS ( SELECT w )`;
    `both s w` = `FROM ( SELECT s ) WHERE EXISTS ( SELECT w )`. -/
inductive Q
  | leaf (src : Option Nat)
  | fromSub (s : Q)
  | whereSub (src : Option Nat) (w : Q)
  | both (s w : Q)
  deriving DecidableEq, Repr

/-- the `expected` text of `UnexpectedToken` / `UnexpectedEof` (`TokenKind::as_str`) -/
inductive SExpect | expression | lparen | rparen | select | identifier
  deriving DecidableEq, Repr

/-- `rem` = number of tokens not yet consumed (`current` included) = the model of `current.span` -/
inductive SErr
  | tooDeep (rem : Nat)
  | eof (exp : SExpect)
  | unexpected (exp : SExpect) (rem : Nat)
  | fuel
  deriving DecidableEq, Repr

/-- three-way answer: a tree, a genuine parse error of the real parser, or "this input leaves the
    modelled fragment" -/
inductive Res (α : Type)
  | ok (a : α)
  | error (e : SErr)
  | outside
  deriving DecidableEq, Repr

/-- `?` -/
def Res.bind {α β : Type} : Res α → (α → Res β) → Res β
  | .ok a, f => f a
  | .error e, _ => .error e
  | .outside, _ => .outside

/-- `self.expect(kind)` -/
def expect (t : STok) (x : SExpect) : List STok → Res (List STok)
  | [] => .error (.eof x)
  | c :: rest => if c = t then .ok rest else .error (.unexpected x (c :: rest).length)

/-- `self.expect_ident()` -/
def expectIdent : List STok → Res (Nat × List STok)
  | [] => .error (.eof .identifier)
  | .tbl n :: rest => .ok (n, rest)
  | c :: rest => .error (.unexpected .identifier (c :: rest).length)

/-- which arm of `match &self.current.kind` in `parse_prefix_expr` a token selects -/
inductive Arm
  | wildcard      -- `TokenKind::Star`
  | existsArm     -- `TokenKind::Exists => parse_exists_expr`
  | unmodelled    -- `Ident(_)` (column / call), `LParen` (parenthesised expression)
  | unexpected    -- `_ => Err(unexpected .. "expression")`: SELECT FROM WHERE `)` are keywords /
                  -- punctuation that are not contextual keywords
  deriving DecidableEq, Repr

def prefixArm : STok → Arm
  | .star => .wildcard
  | .existsKw => .existsArm
  | .tbl _ => .unmodelled
  | .lparen => .unmodelled
  | .select => .unexpected
  | .fromKw => .unexpected
  | .rparen => .unexpected
  | .whereKw => .unexpected
  | .other => .unexpected

/-- `current_binary_op()` is `Some(Mul)`: the only binary operator of the alphabet -/
def headIsStar : List STok → Bool
  | .star :: _ => true
  | _ => false

/-- `if let TokenKind::Ident(_) = &self.current.kind` — the implicit-alias test -/
def headIsTbl : List STok → Bool
  | .tbl _ :: _ => true
  | _ => false

/-- `parse_select_item` for the item `*`, entered with `self.depth = ed`:
    `parse_expr` = one `parse_expr_bp(0)` frame (`depth += 1`, limit check at `current`), prefix
    `*` = `Wildcard`; `parse_postfix_expr` sees none of NOT/IS/IN/BETWEEN/LIKE/`.`; the infix loop
    continues on `*` (unmodelled) and breaks otherwise; the frame is left (`depth -= 1`); then
    `AS` / implicit alias (unmodelled); `,` is not in the alphabet. -/
def item (maxE ed : Nat) (ts : List STok) : Res (List STok) :=
  if ed + 1 > maxE then .error (.tooDeep ts.length) else
  match ts with
  | [] => .error (.eof .expression)
  | t :: rest =>
    match prefixArm t with
    | .wildcard => if headIsStar rest || headIsTbl rest then .outside else .ok rest
    | .existsArm => .outside
    | .unmodelled => .outside
    | .unexpected => .error (.unexpected .expression (t :: rest).length)

/-- the FROM part of a body -/
inductive Src
  | plain (o : Option Nat)
  | sub (s : Q)
  deriving DecidableEq, Repr

def build : Src → Option Q → Q
  | .plain o, none => .leaf o
  | .plain o, some w => .whereSub o w
  | .sub s, none => .fromSub s
  | .sub s, some w => .both s w

/-- the alias test at the end of `parse_table_ref` (`AS` is not in the alphabet; an `Ident` token
    is never a keyword, so it is always taken as alias); `try_parse_join` sees no join keyword -/
def afterTref (src : Src) (r : List STok) : Res (Src × List STok) :=
  if headIsTbl r then .outside else .ok (src, r)

mutual
/-- `parse_select_body`, entered with `self.select_depth = sd`, `self.depth = ed` -/
def bodyN (maxS maxE : Nat) : Nat → Nat → Nat → List STok → Res (Q × List STok)
  | 0, _, _, _ => .error .fuel
  | fuel+1, sd, ed, ts =>
    -- self.select_depth += 1; if self.select_depth > MAX_SELECT_DEPTH { Err(TooDeep @ current) }
    if sd + 1 > maxS then .error (.tooDeep ts.length) else
    -- DISTINCT / ALL: not in the alphabet.  One select item, no `,`.
    (item maxE ed ts).bind fun r1 =>
    (srcN maxS maxE fuel (sd+1) ed r1).bind fun (src, r2) =>
    (condN maxS maxE fuel (sd+1) ed r2).bind fun (w, r3) =>
    -- GROUP / HAVING / ORDER / LIMIT / OFFSET: not in the alphabet
    .ok (build src w, r3)
termination_by structural fuel => fuel
/-- `if self.eat(From) { parse_from_clause() }` inside a body whose `select_depth = sd` -/
def srcN (maxS maxE : Nat) : Nat → Nat → Nat → List STok → Res (Src × List STok)
  | 0, _, _, _ => .error .fuel
  | fuel+1, sd, ed, ts =>
    match ts with
    | .fromKw :: r =>
      -- parse_table_ref: `if self.check(LParen)`
      if r.head? = some .lparen then
        (expect .select .select r.tail).bind fun r1 =>
        (bodyN maxS maxE fuel sd ed r1).bind fun (s, r2) =>
        (expect .rparen .rparen r2).bind fun r3 =>
        afterTref (.sub s) r3
      else
        (expectIdent r).bind fun (n, r1) => afterTref (.plain (some n)) r1
    | _ => .ok (.plain none, ts)
termination_by structural fuel => fuel
/-- `if self.eat(Where) { parse_expr() }` inside a body whose `select_depth = sd`, `depth = ed` -/
def condN (maxS maxE : Nat) : Nat → Nat → Nat → List STok → Res (Option Q × List STok)
  | 0, _, _, _ => .error .fuel
  | fuel+1, sd, ed, ts =>
    match ts with
    | .whereKw :: r =>
      -- parse_expr_bp(0): self.depth += 1; limit check at `current`
      if ed + 1 > maxE then .error (.tooDeep r.length) else
      match r with
      | [] => .error (.eof .expression)
      | p :: r0 =>
        match prefixArm p with
        | .existsArm =>
          -- parse_exists_expr; the expression frame stays active: depth = ed + 1
          (expect .lparen .lparen r0).bind fun r1 =>
          (expect .select .select r1).bind fun r2 =>
          (bodyN maxS maxE fuel sd (ed+1) r2).bind fun (w, r3) =>
          (expect .rparen .rparen r3).bind fun r4 =>
          -- postfix: none; infix loop: `*` = Mul continues (unmodelled), anything else breaks
          if headIsStar r4 then .outside else .ok (some w, r4)
        | .wildcard => .outside
        | .unmodelled => .outside
        | .unexpected => .error (.unexpected .expression (p :: r0).length)
    | _ => .ok (none, ts)
termination_by structural fuel => fuel
end

/-- fuel that always suffices (`SelectProps.select_total`) -/
def fuelFor (ts : List STok) : Nat := ts.length + 1

/-- `parse_statement` restricted to `SELECT`: dispatch on the first token, `parse_select`
    (`expect(Select)` cannot fail there), optional `;`.  `parse()` does not look at what follows
    the statement, so the rest is dropped. -/
def parseStmtWith (maxS maxE fuel : Nat) : List STok → Res Q
  | .select :: r => (bodyN maxS maxE fuel 0 0 r).bind fun (q, _) => .ok q
  | _ => .outside

/-- `neumann_parser::parse` on a token list of the skeleton alphabet -/
def parseStmt (ts : List STok) : Res Q :=
  parseStmtWith MAX_SELECT_DEPTH MAX_DEPTH (fuelFor ts) ts

/-! ### printing -/

def printSrc : Option Nat → List STok
  | none => []
  | some n => [.fromKw, .tbl n]

/-- the body text, without the leading `SELECT` -/
def print : Q → List STok
  | .leaf o => .star :: printSrc o
  | .fromSub s => .star :: .fromKw :: .lparen :: .select :: (print s ++ [.rparen])
  | .whereSub o w =>
      .star :: (printSrc o ++ .whereKw :: .existsKw :: .lparen :: .select :: (print w ++ [.rparen]))
  | .both s w =>
      .star :: .fromKw :: .lparen :: .select ::
        (print s ++ .rparen :: .whereKw :: .existsKw :: .lparen :: .select :: (print w ++ [.rparen]))

/-- number of nested `parse_select_body` frames the text of `q` needs (its own included) -/
def sdepth : Q → Nat
  | .leaf _ => 1
  | .fromSub s => 1 + sdepth s
  | .whereSub _ w => 1 + sdepth w
  | .both s w => 1 + max (sdepth s) (sdepth w)

/-- a subquery site of a linear chain -/
inductive Site
  | frm                       -- `* FROM ( SELECT`
  | exi (src : Option Nat)    -- `* [FROM t<n>] WHERE EXISTS ( SELECT`
  deriving DecidableEq, Repr

def opener : Site → List STok
  | .frm => [.star, .fromKw, .lparen, .select]
  | .exi o => .star :: (printSrc o ++ [.whereKw, .existsKw, .lparen, .select])

/-- everything up to (excluding) the first token of body `|sites| + 1` -/
def openers : List Site → List STok
  | [] => []
  | s :: l => opener s ++ openers l

/-- the linear chain of `|sites| + 1` bodies ending in `inner` -/
def chain (inner : Q) : List Site → Q
  | [] => inner
  | .frm :: l => .fromSub (chain inner l)
  | .exi o :: l => .whereSub o (chain inner l)

end Neumann.Parse.Sel
