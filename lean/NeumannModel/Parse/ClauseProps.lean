import NeumannModel.Parse.ClauseRound
/-
  C15 — property theorems for the clause-level grammar model of SELECT (`Parse/Clause.lean`):
  `neumann_parser::parse` on `SELECT` statements with DISTINCT / ALL, aliased select items, FROM with
  table aliases, all join spellings with ON / USING, subqueries in FROM and JOIN, WHERE, GROUP BY,
  HAVING, ORDER BY … ASC / DESC … NULLS FIRST / LAST, LIMIT, OFFSET; expressions are single tokens
  (their grammar is the subject of `FullProps.lean`).
  ONLY property statements and their non-vacuity examples live here.
-/
namespace Neumann.Parse.Clause.Props

/-- Totality / fuel adequacy: `3·|ts| + 3` machine steps always finish — every token list yields a
    statement tree, a genuine parse error, or `outside`. -/
theorem clause_total (ts : List Tok) : parse ts ≠ .error .fuel := by
  obtain ⟨r, hr⟩ := run_finished ts
  have hinv := run_inv (fuelFor ts) _ (inv_init ts)
  unfold parse parseWith result
  obtain ⟨_, _, h3⟩ := hinv
  rw [hr] at h3 ⊢
  intro h
  simp only at h h3
  rw [h] at h3
  exact h3

/-- The answer does not depend on how many steps (≥ the adequate number) the machine is given. -/
theorem clause_fuel_independent (ts : List Tok) (f : Nat) (h : fuelFor ts ≤ f) :
    parseWith f ts = parse ts := by
  unfold parse parseWith
  rw [run_done_unique (run_reaches_done f (init ts) (Nat.lt_of_lt_of_le (mu_init ts) h)) (run_finished ts)]

/-- An error carries a position inside the input (`rem` tokens from the end, `rem ≤ |ts|`,
    "unexpected token" always at a token). -/
theorem clause_error_position_in_input (ts : List Tok) (e : Err) (h : parse ts = .error e) :
    e.posOk ts.length := by
  obtain ⟨r, hr⟩ := run_finished ts
  have hinv := run_inv (fuelFor ts) _ (inv_init ts)
  unfold parse parseWith result at h
  obtain ⟨_, _, h3⟩ := hinv
  rw [hr] at h3 h
  simp only at h h3
  rw [h] at h3
  exact h3

/-- No stack exhaustion through subqueries: at every moment of every run at most
    `MAX_SELECT_DEPTH = 64` `parse_select_body` frames are active (the stack holds the enclosing
    ones; the body being parsed is one more). -/
theorem clause_select_depth_bounded (ts : List Tok) (k : Nat) :
    (run k (init ts)).stk.length ≤ MAX_SELECT_DEPTH :=
  (run_inv k _ (inv_init ts)).2.1

/-- ROUND TRIP for the clause structure of every SELECT statement and every spelling the grammar
    leaves open (`AS` or not, `ALL` or not, `INNER JOIN` / `JOIN`, `LEFT OUTER JOIN` / `LEFT JOIN`,
    explicit `ASC` or not, a trailing `;` or not, any number of leading `;`): the printed statement
    parses back to exactly the tree, provided its subqueries nest at most 64 deep.  In particular the
    clauses are recognised in their fixed order whichever of them are present, an identifier after
    a select item or a table is its alias and nothing else is, `NULLS FIRST / LAST` and `DESC` attach
    to their own ORDER BY item, and a join's condition attaches to that join. -/
theorem clause_round_trip (sty : Style) (semi : Bool) (lead : Nat) (q : Q) (hwf : q.WF)
    (hd : q.sdepth ≤ MAX_SELECT_DEPTH) :
    parse (List.replicate lead .semicolon ++ printStmt sty semi q) = .ok q := by
  have hX : StopsFrom 7 (if semi then [Tok.semicolon] else []) := by cases semi <;> simp [StopsFrom, lvl]
  have hk := KQ sty q [] _ hX hwf (by simpa using hd)
  have h2 : Reach ⟨.bodyRet q, [], if semi then [Tok.semicolon] else []⟩ (halt (.ok q)) := Reach.one rfl
  obtain ⟨n, hn⟩ := hk.trans h2
  have hinit : init (List.replicate lead .semicolon ++ printStmt sty semi q)
      = ⟨.body, [], printQ sty q ++ (if semi then [Tok.semicolon] else [])⟩ := by
    unfold init
    have : dropSemis (List.replicate lead Tok.semicolon ++ printStmt sty semi q) = printStmt sty semi q := by
      induction lead with
      | zero => simp [printStmt, dropSemis]
      | succ k ih => simpa [List.replicate_succ, dropSemis] using ih
    rw [this]
    rfl
  have hdone : isDone (run n (init (List.replicate lead .semicolon ++ printStmt sty semi q))) := by
    rw [hinit, hn]; exact ⟨_, rfl⟩
  unfold parse parseWith
  rw [← run_done_unique hdone (run_finished _), hinit, hn]
  rfl

/-- `SELECT DISTINCT e1 AS c2, * FROM c5 c6 LEFT OUTER JOIN (SELECT c3) c8 ON e9 NATURAL JOIN c10 USING (c1, c2)
     WHERE e1 GROUP BY e2, c3 HAVING e4 ORDER BY e5 DESC NULLS FIRST, c6 LIMIT e7 OFFSET e8` -/
def sample : Q :=
  .mk true [⟨.opaque 1, some 2⟩, ⟨.wildcard, none⟩]
    (.from (.tbl 5 (some 6))
      (.cons .left (.sub (.mk false [⟨.col 3, none⟩] .none ⟨none, [], none, [], none, none⟩) (some 8)) (.on (.opaque 9))
        (.cons .natural (.tbl 10 none) (.usingC 1 [2]) .nil)))
    ⟨some (.opaque 1), [.opaque 2, .col 3], some (.opaque 4),
     [⟨.opaque 5, true, some true⟩, ⟨.col 6, false, none⟩], some (.opaque 7), some (.opaque 8)⟩

example : sample.WF := by simp [sample, Q.WF, Src.WF, TRef.WF, JL.WF]
example : sample.sdepth = 2 := by decide
example : printStmt ⟨false, false, false, false, false⟩ false sample ≠ printStmt ⟨true, true, true, true, true⟩ true sample := by
  decide
set_option maxRecDepth 40000 in
example : parse (printStmt ⟨false, false, false, false, false⟩ false sample) = .ok sample := by decide
set_option maxRecDepth 40000 in
example : parse (printStmt ⟨true, true, true, true, true⟩ true sample) = .ok sample := by decide
-- genuine errors with positions, and the explicit domain boundary
example : parse [.select, .expr 1, .from, .ident 1, .cross, .ident 2] = .error (.unexpected .join 1) := by decide
example : parse [.select, .expr 1, .order, .expr 2] = .error (.unexpected .byKw 1) := by decide
example : parse [.select, .expr 1, .from, .lparen, .select, .star] = .error (.eof .rparen) := by decide
example : parse [.select, .ident 1, .lparen, .expr 2, .rparen] = .outside := by decide
example : parse [.other, .select, .star] = .outside := by decide

end Neumann.Parse.Clause.Props
