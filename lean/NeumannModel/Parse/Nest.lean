import NeumannModel.Parse.Model
import NeumannModel.Parse.Select
/-
  C15 — model of the statement parser's expression loop TOGETHER WITH the subquery recursion of
  `neumann_parser/src/parser.rs` (`Parser::{parse_statement, parse_select, parse_select_body,
  parse_select_body_inner, parse_select_item, parse_from_clause, parse_table_ref, parse_expr,
  parse_expr_bp, parse_expr_bp_inner, parse_prefix_expr, parse_postfix_expr, parse_paren_expr,
  parse_ident_or_call_expr, parse_exists_expr, parse_in_expr, expect, expect_ident}`, `MAX_DEPTH`,
  `MAX_SELECT_DEPTH`).  Import-free (only `Parse/Model.lean` for the operator tables and
  `Parse/Select.lean` for the answer type), total, computable.

  The fragment
      stmt ::= SELECT body
      body ::= expr [ FROM tref ] [ WHERE expr ]
      tref ::= ident | `(` SELECT body `)`
      expr ::= the Pratt loop of `Model.lean` (integer literals, identifiers, `*`, `()`, `( expr )`,
               prefix `-` NOT `!` `~` at 19, the 19 binary operators) extended by the two
               expression-level subquery sites and the IN list:
                 EXISTS `(` SELECT body `)`                       (prefix position)
                 lhs [NOT] IN `(` SELECT body `)`                 (postfix position)
                 lhs [NOT] IN `(` `)`  |  lhs [NOT] IN `(` expr `)`   (value list, no `,`)
  is the part of the grammar in which expression nesting and subquery nesting interleave.

  Two counters are carried functionally, exactly as `Parser` keeps them (`+= 1` on entry, `-= 1`
  on every exit, an error aborts the parse — so passing the value down is exact):
    * `sd` = `self.select_depth`, active `parse_select_body` frames, limit `MAX_SELECT_DEPTH`;
    * `d`  = `self.depth`, active `parse_expr_bp` frames, limit `MAX_DEPTH`.
  `parse_select_body` does NOT touch `depth`: a subquery reached from inside an expression
  (`EXISTS`, `IN`) is parsed with the frames of that expression still counted, so `MAX_DEPTH`
  bounds the number of simultaneously active `parse_expr_bp` frames of the WHOLE statement, across
  subquery boundaries (`NestProps.nest_ok_fits_depth`, `nest_chain_too_deep`).  A FROM subquery is
  entered after the select item's frame has been left, with the enclosing expression's frames
  (if any) still counted.

  The model's domain is explicit: where the real parser continues into grammar that is not
  modelled the answer is `Res.outside`:
    * statement position: anything but `SELECT` first;
    * identifier directly followed by `(` in prefix position (function call);
    * identifier directly after a select item or a table reference (implicit alias).
  Everything else is decided.  `other` stands for a token that is none of the alphabet and is
  neither an expression starter, a contextual keyword, a binary or postfix operator, `,`, `AS`,
  `DISTINCT`/`ALL`, a join keyword nor a clause keyword (`;` `]` `}` `:` `THEN` `BY`).
  Error positions are "number of tokens left, current included", as in `Model.lean`.
-/
namespace Neumann.Parse.Nest
open Neumann.Parse.Sel (Res SErr SExpect MAX_SELECT_DEPTH)

/-- token alphabet: the Pratt alphabet of `Model.lean` (`num` = integer literal, `op mul` = `*`
    also the wildcard, `op sub` = `-` also the prefix negation) plus identifiers and the keywords
    of the subquery sites -/
inductive NTok
  | select | fromKw | whereKw | existsKw | inKw
  | lparen | rparen
  | num (n : Nat) | id (n : Nat)
  | op (o : BinOp)
  | notKw | bang | tilde
  | other
  deriving DecidableEq, Repr

mutual
/-- `ExprKind` restricted to the fragment. `unit` = `Tuple([])`. -/
inductive E
  | num (n : Nat)
  | col (n : Nat)
  | wildcard
  | unit
  | un (u : UnOp) (e : E)
  | bin (l : E) (o : BinOp) (r : E)
  | exists (q : Q)                               -- `ExprKind::Exists`
  | inSub (e : E) (neg : Bool) (q : Q)           -- `ExprKind::In { list: InList::Subquery }`
  | inNil (e : E) (neg : Bool)                   -- `InList::Values([])`
  | inOne (e : E) (neg : Bool) (v : E)           -- `InList::Values([v])`
/-- `SelectStmt` restricted to the fragment: one select item, optional FROM, optional WHERE -/
inductive Q
  | mk (item : E) (src : Src) (whr : Whr)
/-- `Option<FromClause>` without joins / aliases -/
inductive Src
  | none
  | tbl (n : Nat)
  | sub (q : Q)
/-- `where_clause` -/
inductive Whr
  | none
  | cond (e : E)
end

deriving instance DecidableEq, Repr for E, Q, Src, Whr

/-- `self.expect(kind)` -/
def expect (t : NTok) (x : SExpect) : List NTok → Res (List NTok)
  | [] => .error (.eof x)
  | c :: rest => if c = t then .ok rest else .error (.unexpected x (c :: rest).length)

/-- `self.expect_ident()` -/
def expectIdent : List NTok → Res (Nat × List NTok)
  | [] => .error (.eof .identifier)
  | .id n :: rest => .ok (n, rest)
  | c :: rest => .error (.unexpected .identifier (c :: rest).length)

/-- which arm of `match &self.current.kind` in `parse_prefix_expr` a token selects -/
inductive Arm
  | num (n : Nat)       -- `TokenKind::Integer`
  | ident (n : Nat)     -- `TokenKind::Ident => parse_ident_or_call_expr`
  | wildcard            -- `TokenKind::Star`
  | paren               -- `TokenKind::LParen => parse_paren_expr`
  | unary (u : UnOp)    -- `Minus` | `Not | Bang` | `Tilde`
  | existsArm           -- `TokenKind::Exists => parse_exists_expr`
  | unexpected          -- `_ => Err(unexpected .. "expression")`
  deriving DecidableEq, Repr

def prefixArm : NTok → Arm
  | .num n => .num n
  | .id n => .ident n
  | .op .mul => .wildcard
  | .lparen => .paren
  | .op .sub => .unary .neg
  | .notKw => .unary .not
  | .bang => .unary .not
  | .tilde => .unary .bitNot
  | .existsKw => .existsArm
  | _ => .unexpected

/-- what the loop of `parse_expr_bp_inner` (`parse_postfix_expr`, then `current_binary_op`) sees -/
inductive LoopArm
  | inArm (neg : Bool) (afterIn : List NTok)   -- `[NOT] IN`, with the tokens after `IN`
  | binary (o : BinOp) (rest : List NTok)
  | stop
  deriving DecidableEq, Repr

/-- `NOT` is a postfix starter only when the NEXT token is `IN` (`self.peek()`); every other token
    that is not `IN` and not a binary operator ends the loop -/
def loopArm : List NTok → LoopArm
  | .notKw :: .inKw :: r => .inArm true r
  | .inKw :: r => .inArm false r
  | .op o :: r => .binary o r
  | _ => .stop

def headIsId : List NTok → Bool
  | .id _ :: _ => true
  | _ => false

/-- the alias test at the end of `parse_table_ref` / `parse_select_item` (`AS` is not in the
    alphabet; an `Ident` token is never a keyword, so it is always taken as alias) -/
def noAlias {α : Type} (a : α) (r : List NTok) : Res (α × List NTok) :=
  if headIsId r then .outside else .ok (a, r)

def mkIn (lhs : E) (neg : Bool) : Option E → E
  | none => .inNil lhs neg
  | some v => .inOne lhs neg v

mutual
/-- `parse_expr_bp(min_bp)` entered with `self.select_depth = sd`, `self.depth = d` -/
def exprN (maxS maxE : Nat) : Nat → Nat → Nat → Nat → List NTok → Res (E × List NTok)
  | 0, _, _, _, _ => .error .fuel
  | fuel+1, sd, d, minBp, ts =>
    -- self.depth += 1; if self.depth > MAX_DEPTH { Err(TooDeep @ current) }
    if d + 1 > maxE then .error (.tooDeep ts.length) else
    (prefixN maxS maxE fuel sd (d+1) ts).bind fun p =>
    loopN maxS maxE fuel sd (d+1) minBp p.1 p.2
termination_by structural fuel => fuel
/-- `parse_prefix_expr` (with `parse_paren_expr`, `parse_ident_or_call_expr`, `parse_exists_expr`
    inlined), running inside a frame whose `self.depth = d` -/
def prefixN (maxS maxE : Nat) : Nat → Nat → Nat → List NTok → Res (E × List NTok)
  | 0, _, _, _ => .error .fuel
  | fuel+1, sd, d, ts =>
    match ts with
    | [] => .error (.eof .expression)
    | t :: rest =>
      match prefixArm t with
      | .num n => .ok (.num n, rest)
      | .ident n =>
        -- `if self.check(&LParen) { parse_function_call_expr }`
        if rest.head? = some .lparen then .outside else .ok (.col n, rest)
      | .wildcard => .ok (.wildcard, rest)
      | .paren =>
        -- `if self.check(&RParen) { return Tuple([]) }`
        if rest.head? = some .rparen then .ok (.unit, rest.tail) else
        (exprN maxS maxE fuel sd d 0 rest).bind fun p =>
        -- `,` (tuple) is not in the alphabet
        (expect .rparen .rparen p.2).bind fun r => .ok (p.1, r)
      | .unary u =>
        (exprN maxS maxE fuel sd d PREFIX_BP rest).bind fun p => .ok (.un u p.1, p.2)
      | .existsArm =>
        -- the enclosing expression frames stay active: `parse_select_body` is entered with depth = d
        (expect .lparen .lparen rest).bind fun r1 =>
        (expect .select .select r1).bind fun r2 =>
        (bodyN maxS maxE fuel sd d r2).bind fun p =>
        (expect .rparen .rparen p.2).bind fun r => .ok (.exists p.1, r)
      | .unexpected => .error (.unexpected .expression (t :: rest).length)
termination_by structural fuel => fuel
/-- the `loop { parse_postfix_expr; current_binary_op … }` of `parse_expr_bp_inner` with the current
    `lhs`, inside a frame whose `self.depth = d` -/
def loopN (maxS maxE : Nat) : Nat → Nat → Nat → Nat → E → List NTok → Res (E × List NTok)
  | 0, _, _, _, _, _ => .error .fuel
  | fuel+1, sd, d, minBp, lhs, ts =>
    match loopArm ts with
    | .stop => .ok (lhs, ts)
    | .inArm neg r =>
      -- parse_in_expr: expect(In) holds; expect(LParen); `if self.check(&Select)`
      (expect .lparen .lparen r).bind fun r1 =>
      if r1.head? = some .select then
        (bodyN maxS maxE fuel sd d r1.tail).bind fun p =>
        (expect .rparen .rparen p.2).bind fun r2 =>
        loopN maxS maxE fuel sd d minBp (.inSub lhs neg p.1) r2
      else if r1.head? = some .rparen then
        loopN maxS maxE fuel sd d minBp (.inNil lhs neg) r1.tail
      else
        -- value list: `parse_expr()`; `,` is not in the alphabet
        (exprN maxS maxE fuel sd d 0 r1).bind fun p =>
        (expect .rparen .rparen p.2).bind fun r2 =>
        loopN maxS maxE fuel sd d minBp (.inOne lhs neg p.1) r2
    | .binary o r =>
      if lbp o < minBp then .ok (lhs, ts) else
      (exprN maxS maxE fuel sd d (rbp o) r).bind fun p =>
      loopN maxS maxE fuel sd d minBp (.bin lhs o p.1) p.2
termination_by structural fuel => fuel
/-- `parse_select_body`, entered with `self.select_depth = sd`, `self.depth = d` -/
def bodyN (maxS maxE : Nat) : Nat → Nat → Nat → List NTok → Res (Q × List NTok)
  | 0, _, _, _ => .error .fuel
  | fuel+1, sd, d, ts =>
    -- self.select_depth += 1; if self.select_depth > MAX_SELECT_DEPTH { Err(TooDeep @ current) }
    if sd + 1 > maxS then .error (.tooDeep ts.length) else
    -- DISTINCT / ALL: not in the alphabet.  parse_select_item: parse_expr, then the alias test
    (exprN maxS maxE fuel (sd+1) d 0 ts).bind fun p0 =>
    (noAlias p0.1 p0.2).bind fun (pI : E × List NTok) =>
    -- `if self.eat(From) { parse_from_clause }`
    (match pI.2 with
      | .fromKw :: r =>
        -- parse_table_ref: `if self.check(LParen)`
        if r.head? = some NTok.lparen then
          (expect .select .select r.tail).bind fun r1 =>
          (bodyN maxS maxE fuel (sd+1) d r1).bind fun p =>
          (expect .rparen .rparen p.2).bind fun r2 => noAlias (Src.sub p.1) r2
        else
          (expectIdent r).bind fun p => noAlias (Src.tbl p.1) p.2
      | r => .ok (Src.none, r)).bind fun (ps : Src × List NTok) =>
    -- `if self.eat(Where) { parse_expr }`
    (match ps.2 with
      | .whereKw :: r => (exprN maxS maxE fuel (sd+1) d 0 r).bind fun p => .ok (Whr.cond p.1, p.2)
      | r => .ok (Whr.none, r)).bind fun (pw : Whr × List NTok) =>
    -- GROUP / HAVING / ORDER / LIMIT / OFFSET: not in the alphabet
    .ok (Q.mk pI.1 ps.1 pw.1, pw.2)
termination_by structural fuel => fuel
end

/-- fuel that always suffices (`NestProps.nest_total`) -/
def fuelFor (ts : List NTok) : Nat := 3 * ts.length + 3

/-- `parse_statement` restricted to `SELECT`: dispatch on the first token, `parse_select`
    (`expect(Select)` cannot fail there), optional `;`.  `parse()` does not look at what follows
    the statement, so the rest is dropped. -/
def parseStmtWith (maxS maxE fuel : Nat) : List NTok → Res Q
  | .select :: r => (bodyN maxS maxE fuel 0 0 r).bind fun p => .ok p.1
  | _ => .outside

/-- `neumann_parser::parse` on a token list of the alphabet -/
def parseStmt (ts : List NTok) : Res Q :=
  parseStmtWith MAX_SELECT_DEPTH MAX_DEPTH (fuelFor ts) ts

/-- the answer is a tree -/
def accepted : Res Q → Bool
  | .ok _ => true
  | _ => false

/-! ### nesting measures on the result -/

mutual
/-- Number of simultaneously active `parse_expr_bp` frames that ANY text of the expression needs
    when it is parsed by a fresh frame (that frame included; redundant parentheses and the ones
    the binding powers force would only add to it): an operand of a prefix operator and a right
    operand get a new frame, a left operand / the subject of `IN` is built inside the current one,
    and — the point of this model — the expressions of a subquery are parsed with the current frame
    still active. -/
def E.frames : E → Nat
  | .num _ => 1
  | .col _ => 1
  | .wildcard => 1
  | .unit => 1
  | .un _ e => 1 + e.frames
  | .bin l _ r => max l.frames (1 + r.frames)
  | .exists q => 1 + q.frames
  | .inSub e _ q => max e.frames (1 + q.frames)
  | .inNil e _ => e.frames
  | .inOne e _ v => max e.frames (1 + v.frames)
/-- frames needed by the expressions of a body, counted from the depth at which
    `parse_select_body` is entered -/
def Q.frames : Q → Nat
  | .mk item src whr => max item.frames (max src.frames whr.frames)
def Src.frames : Src → Nat
  | .none => 0
  | .tbl _ => 0
  | .sub q => q.frames
def Whr.frames : Whr → Nat
  | .none => 0
  | .cond e => e.frames
end

mutual
/-- nested `parse_select_body` frames below an expression -/
def E.sdepth : E → Nat
  | .num _ => 0
  | .col _ => 0
  | .wildcard => 0
  | .unit => 0
  | .un _ e => e.sdepth
  | .bin l _ r => max l.sdepth r.sdepth
  | .exists q => q.sdepth
  | .inSub e _ q => max e.sdepth q.sdepth
  | .inNil e _ => e.sdepth
  | .inOne e _ v => max e.sdepth v.sdepth
/-- nested `parse_select_body` frames a body needs (its own included) -/
def Q.sdepth : Q → Nat
  | .mk item src whr => 1 + max item.sdepth (max src.sdepth whr.sdepth)
def Src.sdepth : Src → Nat
  | .none => 0
  | .tbl _ => 0
  | .sub q => q.sdepth
def Whr.sdepth : Whr → Nat
  | .none => 0
  | .cond e => e.sdepth
end

/-! ### linear chains of frame openers -/

/-- a token sequence that, consumed where an expression is expected, leaves exactly one more
    `parse_expr_bp` frame active and expects an expression again -/
inductive Opener
  | pre (u : UnOp) (bang : Bool)      -- prefix operator (`bang` = spell NOT as `!`)
  | paren                             -- `(`
  | inSel (n : Nat) (neg : Bool)      -- `<n> [NOT] IN ( SELECT`
  | exSel                             -- `EXISTS ( SELECT`
  deriving DecidableEq, Repr

def preTok : UnOp → Bool → NTok
  | .neg, _ => .op .sub
  | .not, true => .bang
  | .not, false => .notKw
  | .bitNot, _ => .tilde

def Opener.toks : Opener → List NTok
  | .pre u b => [preTok u b]
  | .paren => [.lparen]
  | .inSel n false => [.num n, .inKw, .lparen, .select]
  | .inSel n true => [.num n, .notKw, .inKw, .lparen, .select]
  | .exSel => [.existsKw, .lparen, .select]

def opens : List Opener → List NTok
  | [] => []
  | o :: l => o.toks ++ opens l

end Neumann.Parse.Nest
