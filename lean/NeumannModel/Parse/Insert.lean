/-
  C15, third clause — "executing a statement given as text has the same effect and result as the
  equivalent direct engine call": `INSERT INTO t [(c1, …, cn)] VALUES (tuple), (tuple), …`
  (query_router/src/lib.rs `QueryRouter::exec_insert`, branch `InsertSource::Values`, /repo 4f65c64f).

      let mut ids = Vec::new();
      for row_values in rows {
          let mut values = HashMap::new();                                   -- a NEW map for every tuple
          if let Some(cols) = insert.columns { for (col, val) in cols.iter().zip(row_values.iter()) { values.insert(col, val) } }
          else { let schema = get_schema(table)?;
                 for (col, val) in schema.columns.iter().zip(row_values.iter()) { values.insert(col, val) } }
          ids.push(self.relational.insert(table, values)?);
      }

  The model is the list of maps handed to `RelationalEngine::insert`, one per tuple, in statement order —
  i.e. the "equivalent direct engine calls" of the statement.  A map is an association list, newest entry first
  (`HashMap::insert` replaces: `get` answers the newest entry of a key).  `zip` stops at the shorter list: a tuple
  shorter than the column list leaves the trailing columns out of the map (the engine stores NULL for a nullable
  column without entry), surplus values of a longer tuple are dropped.  Columns and values are abstract.
  `execLoopRowMapNotCleared` is the loop with the map created once before the loop and never cleared.
  Model files import nothing.
-/
namespace Neumann.Parse.Insert

/-- `HashMap<String, Value>`: newest entry first -/
abbrev RowMap (C V : Type) := List (C × V)

variable {C V : Type} [DecidableEq C]

/-- `HashMap::get` -/
def get : RowMap C V → C → Option V
  | [], _ => none
  | (k, v) :: m, c => if k = c then some v else get m c

/-- `HashMap::insert` -/
def put (m : RowMap C V) (c : C) (v : V) : RowMap C V := (c, v) :: m

/-- `for (col, val) in cols.iter().zip(row_values.iter()) { values.insert(col, val) }` -/
def fill (m : RowMap C V) : List C → List V → RowMap C V
  | c :: cs, v :: vs => fill (put m c v) cs vs
  | _, _ => m

/-- the columns the values go to: the statement's column list, or the table's columns in schema order -/
def targetCols (schema : List C) (cols : Option (List C)) : List C :=
  match cols with
  | some cs => cs
  | none => schema

/-- the row of ONE tuple: a fresh map filled from the column list and that tuple -/
def rowOf (target : List C) (tuple : List V) : RowMap C V := fill [] target tuple

/-- the loop of `exec_insert`: `let mut values = HashMap::new()` INSIDE the loop -/
def execLoop (target : List C) : List (List V) → List (RowMap C V)
  | [] => []
  | t :: ts => fill [] target t :: execLoop target ts

/-- the maps `INSERT INTO t [cols] VALUES tuples` hands to `RelationalEngine::insert`, in order -/
def execInsert (schema : List C) (cols : Option (List C)) (tuples : List (List V)) : List (RowMap C V) :=
  execLoop (targetCols schema cols) tuples

/-- Variant (a mistake this model is checked against): the map is created once before the loop, handed to the
engine as a clone, and never cleared — a column the current tuple does not supply keeps an earlier tuple's value. -/
def execLoopRowMapNotCleared (target : List C) : RowMap C V → List (List V) → List (RowMap C V)
  | _, [] => []
  | m, t :: ts => fill m target t :: execLoopRowMapNotCleared target (fill m target t) ts

def execInsertRowMapNotCleared (schema : List C) (cols : Option (List C)) (tuples : List (List V)) : List (RowMap C V) :=
  execLoopRowMapNotCleared (targetCols schema cols) [] tuples

/-- what the table shows of a row: the cells of the schema's columns that have an entry -/
def cells (schema : List C) (m : RowMap C V) : List (C × V) :=
  schema.filterMap (fun c => (get m c).map (fun v => (c, v)))

end Neumann.Parse.Insert
