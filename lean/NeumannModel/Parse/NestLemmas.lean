import NeumannModel.Parse.Nest
import NeumannModel.Parse.SelectLemmas
/-
  C15 — helper lemmas for the expression × subquery model (`Parse/Nest.lean`).
  Core Lean only (no Mathlib).
-/
namespace Neumann.Parse.Nest
open Neumann.Parse.Sel (Res SErr SExpect MAX_SELECT_DEPTH NF NF_bind bind_eq_ok bind_ok bind_error
  bind_outside bind_congr_nf)

/-- both limits are 64 in the code -/
theorem limits_ordered : MAX_DEPTH ≤ MAX_SELECT_DEPTH := by decide

/-! ### the non-recursive pieces -/

theorem expect_nf (t : NTok) (x : SExpect) (ts : List NTok) : NF (expect t x ts) := by
  cases ts with
  | nil => simp [expect, NF]
  | cons c r => simp only [expect, NF]; split <;> simp

theorem expect_ok {t : NTok} {x : SExpect} {ts r : List NTok} (h : expect t x ts = .ok r) :
    ts = t :: r := by
  cases ts with
  | nil => simp [expect] at h
  | cons c r' =>
    simp only [expect] at h
    split at h
    · next hc => simp only [Res.ok.injEq] at h; rw [hc, h]
    · simp at h

@[simp] theorem expect_self (t : NTok) (x : SExpect) (r : List NTok) : expect t x (t :: r) = .ok r := by
  simp [expect]

theorem expectIdent_nf (ts : List NTok) : NF (expectIdent ts) := by
  cases ts with
  | nil => simp [expectIdent, NF]
  | cons c r => cases c <;> simp [expectIdent, NF]

theorem expectIdent_ok {ts r : List NTok} {n : Nat} (h : expectIdent ts = .ok (n, r)) :
    ts = .id n :: r := by
  cases ts with
  | nil => simp [expectIdent] at h
  | cons c r' =>
    cases c <;> simp [expectIdent] at h
    obtain ⟨h1, h2⟩ := h
    rw [h1, h2]

theorem noAlias_nf {α : Type} (a : α) (r : List NTok) : NF (noAlias a r) := by
  unfold noAlias; split <;> simp [NF]

theorem noAlias_ok {α : Type} {a a' : α} {r r' : List NTok} (h : noAlias a r = .ok (a', r')) :
    a' = a ∧ r' = r := by
  unfold noAlias at h
  split at h
  · simp at h
  · simp only [Res.ok.injEq, Prod.mk.injEq] at h
    exact ⟨h.1.symm, h.2.symm⟩

theorem loopArm_in {ts r : List NTok} {neg : Bool} (h : loopArm ts = .inArm neg r) :
    ts = .notKw :: .inKw :: r ∨ ts = .inKw :: r := by
  unfold loopArm at h
  split at h <;> simp_all

theorem loopArm_bin {ts r : List NTok} {o : BinOp} (h : loopArm ts = .binary o r) :
    ts = .op o :: r := by
  unfold loopArm at h
  split at h <;> simp_all

theorem head_cons_tail {t : NTok} {r : List NTok} (h : r.head? = some t) : r = t :: r.tail := by
  cases r with
  | nil => simp at h
  | cons c l => simp only [List.head?_cons, Option.some.injEq] at h; rw [h]; rfl

/-! ### consumed input -/

theorem bounds (maxS maxE : Nat) : ∀ f,
    (∀ sd d m ts e r, exprN maxS maxE f sd d m ts = .ok (e, r) → r.length < ts.length) ∧
    (∀ sd d ts e r, prefixN maxS maxE f sd d ts = .ok (e, r) → r.length < ts.length) ∧
    (∀ sd d m lhs ts e r, loopN maxS maxE f sd d m lhs ts = .ok (e, r) → r.length ≤ ts.length) ∧
    (∀ sd d ts q r, bodyN maxS maxE f sd d ts = .ok (q, r) → r.length < ts.length) := by
  intro f
  induction f with
  | zero =>
    refine ⟨?_, ?_, ?_, ?_⟩
    · intro sd d m ts e r h; simp [exprN] at h
    · intro sd d ts e r h; simp [prefixN] at h
    · intro sd d m lhs ts e r h; simp [loopN] at h
    · intro sd d ts q r h; simp [bodyN] at h
  | succ f ih =>
    obtain ⟨ihE, ihP, ihL, ihB⟩ := ih
    refine ⟨?_, ?_, ?_, ?_⟩
    · intro sd d m ts e r h
      simp only [exprN] at h
      split at h
      · simp at h
      · simp only [bind_eq_ok] at h
        obtain ⟨⟨lhs, r0⟩, h1, h2⟩ := h
        have b1 := ihP _ _ _ _ _ h1
        have b2 := ihL _ _ _ _ _ _ _ h2
        simp only at b2
        omega
    · intro sd d ts e r h
      cases ts with
      | nil => simp [prefixN] at h
      | cons t rest =>
        simp only [prefixN] at h
        cases ha : prefixArm t with
        | num n =>
          simp only [ha, Res.ok.injEq, Prod.mk.injEq] at h
          rw [← h.2]; simp
        | ident n =>
          simp only [ha] at h
          split at h
          · simp at h
          · simp only [Res.ok.injEq, Prod.mk.injEq] at h
            rw [← h.2]; simp
        | wildcard =>
          simp only [ha, Res.ok.injEq, Prod.mk.injEq] at h
          rw [← h.2]; simp
        | paren =>
          simp only [ha] at h
          split at h
          · simp only [Res.ok.injEq, Prod.mk.injEq] at h
            rw [← h.2]
            simp only [List.length_tail, List.length_cons]
            omega
          · simp only [bind_eq_ok] at h
            obtain ⟨⟨x, r1⟩, h1, r2, h2, h3⟩ := h
            have b1 := ihE _ _ _ _ _ _ h1
            have e2 := expect_ok h2
            simp only [Res.ok.injEq, Prod.mk.injEq] at h3
            simp only at e2
            rw [← h3.2]
            rw [e2] at b1
            simp only [List.length_cons] at b1 ⊢
            omega
        | unary u =>
          simp only [ha, bind_eq_ok] at h
          obtain ⟨⟨x, r1⟩, h1, h3⟩ := h
          have b1 := ihE _ _ _ _ _ _ h1
          simp only [Res.ok.injEq, Prod.mk.injEq] at h3
          rw [← h3.2]
          simp only [List.length_cons]
          omega
        | existsArm =>
          simp only [ha, bind_eq_ok] at h
          obtain ⟨r1, h1, r2, h2, ⟨q, r3⟩, h3, r4, h4, h5⟩ := h
          have e1 := expect_ok h1
          have e2 := expect_ok h2
          have b3 := ihB _ _ _ _ _ h3
          have e4 := expect_ok h4
          simp only [Res.ok.injEq, Prod.mk.injEq] at h5
          simp only at e4
          rw [← h5.2, e1, e2]
          rw [e4] at b3
          simp only [List.length_cons] at b3 ⊢
          omega
        | unexpected => simp [ha] at h
    · intro sd d m lhs ts e r h
      simp only [loopN] at h
      cases ha : loopArm ts with
      | stop =>
        simp only [ha, Res.ok.injEq, Prod.mk.injEq] at h
        rw [← h.2]; exact Nat.le_refl _
      | inArm neg r0 =>
        have hl : r0.length + 1 ≤ ts.length := by
          rcases loopArm_in ha with e | e <;> rw [e] <;> simp
        simp only [ha, bind_eq_ok] at h
        obtain ⟨r1, h1, h2⟩ := h
        have e1 := expect_ok h1
        have l1 : r1.length + 2 ≤ ts.length := by rw [e1] at hl; simp at hl; omega
        split at h2
        · simp only [bind_eq_ok] at h2
          obtain ⟨⟨q, r2⟩, h3, r3, h4, h5⟩ := h2
          have b3 := ihB _ _ _ _ _ h3
          have e4 := expect_ok h4
          have b5 := ihL _ _ _ _ _ _ _ h5
          simp only at e4
          rw [e4] at b3
          simp only [List.length_tail, List.length_cons] at b3
          omega
        · split at h2
          · have b5 := ihL _ _ _ _ _ _ _ h2
            simp only [List.length_tail] at b5
            omega
          · simp only [bind_eq_ok] at h2
            obtain ⟨⟨v, r2⟩, h3, r3, h4, h5⟩ := h2
            have b3 := ihE _ _ _ _ _ _ h3
            have e4 := expect_ok h4
            have b5 := ihL _ _ _ _ _ _ _ h5
            simp only at e4
            rw [e4] at b3
            simp only [List.length_cons] at b3
            omega
      | binary o r0 =>
        have e0 := loopArm_bin ha
        simp only [ha] at h
        split at h
        · simp only [Res.ok.injEq, Prod.mk.injEq] at h
          rw [← h.2]; exact Nat.le_refl _
        · simp only [bind_eq_ok] at h
          obtain ⟨⟨rhs, r1⟩, h1, h2⟩ := h
          have b1 := ihE _ _ _ _ _ _ h1
          have b2 := ihL _ _ _ _ _ _ _ h2
          rw [e0]
          simp only [List.length_cons] at b2 ⊢
          omega
    · intro sd d ts q r h
      simp only [bodyN] at h
      split at h
      · simp at h
      · simp only [bind_eq_ok] at h
        obtain ⟨⟨it, r0⟩, h0, ⟨it', r1⟩, h1, ⟨src, r2⟩, h2, ⟨w, r3⟩, h3, h4⟩ := h
        have b0 := ihE _ _ _ _ _ _ h0
        obtain ⟨-, e1⟩ := noAlias_ok h1
        simp only at e1 h2 h3 h4
        subst e1
        simp only [Res.ok.injEq, Prod.mk.injEq] at h4
        rw [← h4.2]
        have b2 : r2.length ≤ r1.length := by
          split at h2
          · next r =>
            split at h2
            · simp only [bind_eq_ok] at h2
              obtain ⟨r4, h5, ⟨s, r5⟩, h6, r6, h7, h8⟩ := h2
              have e5 := expect_ok h5
              have b6 := ihB _ _ _ _ _ h6
              have e7 := expect_ok h7
              obtain ⟨-, e8⟩ := noAlias_ok h8
              simp only at e7
              have : r4.length + 1 = r.tail.length := by rw [e5]; simp
              rw [e7] at b6
              simp only [List.length_tail, List.length_cons] at this b6 ⊢
              rw [e8]
              omega
            · simp only [bind_eq_ok] at h2
              obtain ⟨⟨n, r4⟩, h5, h8⟩ := h2
              have e5 := expectIdent_ok h5
              obtain ⟨-, e8⟩ := noAlias_ok h8
              simp only at e8
              rw [e8, e5]
              simp only [List.length_cons]
              omega
          · simp only [Res.ok.injEq, Prod.mk.injEq] at h2
            rw [← h2.2]; exact Nat.le_refl _
        have b3 : r3.length ≤ r2.length := by
          split at h3
          · next r =>
            simp only [bind_eq_ok] at h3
            obtain ⟨⟨c, r4⟩, h5, h6⟩ := h3
            have b5 := ihE _ _ _ _ _ _ h5
            simp only [Res.ok.injEq, Prod.mk.injEq] at h6
            rw [← h6.2]
            simp only [List.length_cons]
            omega
          · simp only [Res.ok.injEq, Prod.mk.injEq] at h3
            rw [← h3.2]; exact Nat.le_refl _
        omega

/-! ### fuel adequacy -/

theorem no_fuel (maxS maxE : Nat) : ∀ f,
    (∀ sd d m ts, 3 * ts.length + 2 ≤ f → NF (exprN maxS maxE f sd d m ts)) ∧
    (∀ sd d ts, 3 * ts.length + 1 ≤ f → NF (prefixN maxS maxE f sd d ts)) ∧
    (∀ sd d m lhs ts, 3 * ts.length + 1 ≤ f → NF (loopN maxS maxE f sd d m lhs ts)) ∧
    (∀ sd d ts, 3 * ts.length + 3 ≤ f → NF (bodyN maxS maxE f sd d ts)) := by
  intro f
  induction f with
  | zero => refine ⟨?_, ?_, ?_, ?_⟩ <;> intros <;> omega
  | succ f ih =>
    obtain ⟨ihE, ihP, ihL, ihB⟩ := ih
    obtain ⟨bE, bP, bL, bB⟩ := bounds maxS maxE f
    refine ⟨?_, ?_, ?_, ?_⟩
    · intro sd d m ts hl
      simp only [exprN]
      split
      · simp [NF]
      · refine NF_bind (ihP _ _ _ (by omega)) fun p h1 => ?_
        obtain ⟨lhs, r0⟩ := p
        have b1 := bP _ _ _ _ _ h1
        exact ihL _ _ _ _ _ (by simp only; omega)
    · intro sd d ts hl
      cases ts with
      | nil => simp [prefixN, NF]
      | cons t rest =>
        simp only [List.length_cons] at hl
        simp only [prefixN]
        cases ha : prefixArm t with
        | num n => simp [NF]
        | ident n => simp only; split <;> simp [NF]
        | wildcard => simp [NF]
        | paren =>
          simp only
          split
          · simp [NF]
          · refine NF_bind (ihE _ _ _ _ (by omega)) fun p _ => ?_
            refine NF_bind (expect_nf _ _ _) fun r _ => ?_
            simp [NF]
        | unary u =>
          simp only
          refine NF_bind (ihE _ _ _ _ (by omega)) fun p _ => ?_
          simp [NF]
        | existsArm =>
          simp only
          refine NF_bind (expect_nf _ _ _) fun r1 h1 => ?_
          refine NF_bind (expect_nf _ _ _) fun r2 h2 => ?_
          have e1 := expect_ok h1
          have e2 := expect_ok h2
          have l2 : r2.length + 2 = rest.length := by rw [e1, e2]; simp
          refine NF_bind (ihB _ _ _ (by omega)) fun p _ => ?_
          refine NF_bind (expect_nf _ _ _) fun r _ => ?_
          simp [NF]
        | unexpected => simp [NF]
    · intro sd d m lhs ts hl
      simp only [loopN]
      cases ha : loopArm ts with
      | stop => simp [NF]
      | inArm neg r0 =>
        have hl0 : r0.length + 1 ≤ ts.length := by
          rcases loopArm_in ha with e | e <;> rw [e] <;> simp
        simp only
        refine NF_bind (expect_nf _ _ _) fun r1 h1 => ?_
        have e1 := expect_ok h1
        have l1 : r1.length + 2 ≤ ts.length := by rw [e1] at hl0; simp at hl0; omega
        split
        · refine NF_bind (ihB _ _ _ (by simp only [List.length_tail]; omega)) fun p h3 => ?_
          obtain ⟨q, r2⟩ := p
          have b3 := bB _ _ _ _ _ h3
          refine NF_bind (expect_nf _ _ _) fun r3 h4 => ?_
          have e4 := expect_ok h4
          simp only at e4
          refine ihL _ _ _ _ _ ?_
          rw [e4] at b3
          simp only [List.length_tail, List.length_cons] at b3
          omega
        · split
          · exact ihL _ _ _ _ _ (by simp only [List.length_tail]; omega)
          · refine NF_bind (ihE _ _ _ _ (by omega)) fun p h3 => ?_
            obtain ⟨v, r2⟩ := p
            have b3 := bE _ _ _ _ _ _ h3
            refine NF_bind (expect_nf _ _ _) fun r3 h4 => ?_
            have e4 := expect_ok h4
            simp only at e4
            refine ihL _ _ _ _ _ ?_
            rw [e4] at b3
            simp only [List.length_cons] at b3
            omega
      | binary o r0 =>
        have e0 := loopArm_bin ha
        have hl0 : r0.length + 1 = ts.length := by rw [e0]; simp
        simp only
        split
        · simp [NF]
        · refine NF_bind (ihE _ _ _ _ (by omega)) fun p h1 => ?_
          obtain ⟨rhs, r1⟩ := p
          have b1 := bE _ _ _ _ _ _ h1
          exact ihL _ _ _ _ _ (by simp only; omega)
    · intro sd d ts hl
      simp only [bodyN]
      split
      · simp [NF]
      · refine NF_bind (ihE _ _ _ _ (by omega)) fun p0 h0 => ?_
        obtain ⟨it, r0⟩ := p0
        have b0 := bE _ _ _ _ _ _ h0
        refine NF_bind (noAlias_nf _ _) fun pI h1 => ?_
        obtain ⟨it', r1⟩ := pI
        obtain ⟨-, e1⟩ := noAlias_ok h1
        simp only at e1 ⊢
        subst e1
        refine NF_bind ?_ fun ps h2 => ?_
        · split
          · next r =>
            simp only [List.length_cons] at b0
            split
            · refine NF_bind (expect_nf _ _ _) fun r4 h5 => ?_
              have e5 := expect_ok h5
              have : r4.length + 1 = r.tail.length := by rw [e5]; simp
              simp only [List.length_tail] at this
              refine NF_bind (ihB _ _ _ (by omega)) fun p _ => ?_
              refine NF_bind (expect_nf _ _ _) fun r6 _ => noAlias_nf _ _
            · refine NF_bind (expectIdent_nf _) fun p _ => noAlias_nf _ _
          · simp [NF]
        · obtain ⟨src, r2⟩ := ps
          have b2 : r2.length ≤ r1.length := by
            split at h2
            · next r =>
              split at h2
              · simp only [bind_eq_ok] at h2
                obtain ⟨r4, h5, ⟨s, r5⟩, h6, r6, h7, h8⟩ := h2
                have e5 := expect_ok h5
                have b6 := bB _ _ _ _ _ h6
                have e7 := expect_ok h7
                obtain ⟨-, e8⟩ := noAlias_ok h8
                simp only at e7
                have : r4.length + 1 = r.tail.length := by rw [e5]; simp
                rw [e7] at b6
                simp only [List.length_tail, List.length_cons] at this b6 ⊢
                rw [e8]
                omega
              · simp only [bind_eq_ok] at h2
                obtain ⟨⟨n, r4⟩, h5, h8⟩ := h2
                have e5 := expectIdent_ok h5
                obtain ⟨-, e8⟩ := noAlias_ok h8
                simp only at e8
                rw [e8, e5]
                simp only [List.length_cons]
                omega
            · simp only [Res.ok.injEq, Prod.mk.injEq] at h2
              rw [← h2.2]; exact Nat.le_refl _
          simp only
          refine NF_bind ?_ fun pw _ => ?_
          · split
            · next r =>
              simp only [List.length_cons] at b2
              refine NF_bind (ihE _ _ _ _ (by omega)) fun p _ => ?_
              simp [NF]
            · simp [NF]
          · simp [NF]

/-! ### fuel monotonicity -/

/-- once the answer is not "out of fuel", more fuel does not change it -/
theorem mono (maxS maxE : Nat) : ∀ f,
    (∀ sd d m ts, NF (exprN maxS maxE f sd d m ts) →
        exprN maxS maxE (f+1) sd d m ts = exprN maxS maxE f sd d m ts) ∧
    (∀ sd d ts, NF (prefixN maxS maxE f sd d ts) →
        prefixN maxS maxE (f+1) sd d ts = prefixN maxS maxE f sd d ts) ∧
    (∀ sd d m lhs ts, NF (loopN maxS maxE f sd d m lhs ts) →
        loopN maxS maxE (f+1) sd d m lhs ts = loopN maxS maxE f sd d m lhs ts) ∧
    (∀ sd d ts, NF (bodyN maxS maxE f sd d ts) →
        bodyN maxS maxE (f+1) sd d ts = bodyN maxS maxE f sd d ts) := by
  intro f
  induction f with
  | zero =>
    refine ⟨?_, ?_, ?_, ?_⟩
    · intro sd d m ts h; simp [NF, exprN] at h
    · intro sd d ts h; simp [NF, prefixN] at h
    · intro sd d m lhs ts h; simp [NF, loopN] at h
    · intro sd d ts h; simp [NF, bodyN] at h
  | succ g ih =>
    obtain ⟨ihE, ihP, ihL, ihB⟩ := ih
    refine ⟨?_, ?_, ?_, ?_⟩
    · intro sd d m ts h
      simp only [exprN] at h ⊢
      split
      · rfl
      · next hd =>
        simp only [hd, if_false] at h
        exact bind_congr_nf (ihP _ _ _) (fun p _ h1 => ihL _ _ _ _ _ h1) h
    · intro sd d ts h
      cases ts with
      | nil => simp [prefixN]
      | cons t rest =>
        simp only [prefixN] at h ⊢
        cases ha : prefixArm t with
        | num n => rfl
        | ident n => rfl
        | wildcard => rfl
        | paren =>
          simp only [ha] at h ⊢
          split
          · rfl
          · next hr =>
            simp only [hr, if_false] at h
            exact bind_congr_nf (ihE _ _ _ _) (fun p _ _ => rfl) h
        | unary u =>
          simp only [ha] at h ⊢
          exact bind_congr_nf (ihE _ _ _ _) (fun p _ _ => rfl) h
        | existsArm =>
          simp only [ha] at h ⊢
          refine bind_congr_nf (fun _ => rfl) (fun r1 _ h1 => ?_) h
          refine bind_congr_nf (fun _ => rfl) (fun r2 _ h2 => ?_) h1
          exact bind_congr_nf (ihB _ _ _) (fun p _ _ => rfl) h2
        | unexpected => rfl
    · intro sd d m lhs ts h
      simp only [loopN] at h ⊢
      cases ha : loopArm ts with
      | stop => rfl
      | inArm neg r0 =>
        simp only [ha] at h ⊢
        refine bind_congr_nf (fun _ => rfl) (fun r1 _ h1 => ?_) h
        split
        · next hs =>
          simp only [hs, if_true] at h1
          refine bind_congr_nf (ihB _ _ _) (fun p _ h2 => ?_) h1
          exact bind_congr_nf (fun _ => rfl) (fun r2 _ h3 => ihL _ _ _ _ _ h3) h2
        · next hs =>
          simp only [hs, if_false] at h1
          split
          · next hp =>
            simp only [hp, if_true] at h1
            exact ihL _ _ _ _ _ h1
          · next hp =>
            simp only [hp, if_false] at h1
            refine bind_congr_nf (ihE _ _ _ _) (fun p _ h2 => ?_) h1
            exact bind_congr_nf (fun _ => rfl) (fun r2 _ h3 => ihL _ _ _ _ _ h3) h2
      | binary o r0 =>
        simp only [ha] at h ⊢
        split
        · rfl
        · next hb =>
          simp only [hb, if_false] at h
          exact bind_congr_nf (ihE _ _ _ _) (fun p _ h1 => ihL _ _ _ _ _ h1) h
    · intro sd d ts h
      simp only [bodyN] at h ⊢
      split
      · rfl
      · next hd =>
        simp only [hd, if_false] at h
        refine bind_congr_nf (ihE _ _ _ _) (fun p0 _ h0 => ?_) h
        refine bind_congr_nf (fun _ => rfl) (fun pI _ h1 => ?_) h0
        obtain ⟨it, r1⟩ := pI
        refine bind_congr_nf ?_ (fun ps _ h2 => ?_) h1
        · cases r1 with
          | nil => intro _; rfl
          | cons t r =>
            cases t <;> try (intro _; rfl)
            intro hn
            simp only at hn ⊢
            split
            · next hl =>
              simp only [hl, if_true] at hn
              refine bind_congr_nf (fun _ => rfl) (fun r4 _ h5 => ?_) hn
              exact bind_congr_nf (ihB _ _ _) (fun p _ _ => rfl) h5
            · rfl
        · obtain ⟨src, r2⟩ := ps
          refine bind_congr_nf ?_ (fun pw _ _ => rfl) h2
          cases r2 with
          | nil => intro _; rfl
          | cons t r =>
            cases t <;> try (intro _; rfl)
            intro hn
            simp only at hn ⊢
            exact bind_congr_nf (ihE _ _ _ _) (fun p _ _ => rfl) hn

theorem mono_le (maxS maxE : Nat) {f g : Nat} (hfg : f ≤ g) (sd d : Nat) (ts : List NTok)
    (h : NF (bodyN maxS maxE f sd d ts)) :
    bodyN maxS maxE g sd d ts = bodyN maxS maxE f sd d ts := by
  induction g with
  | zero =>
    have : f = 0 := by omega
    rw [this]
  | succ g ih =>
    by_cases hf : f = g + 1
    · rw [hf]
    · have e := ih (by omega)
      rw [(mono maxS maxE g).2.2.2 sd d ts (by rw [e]; exact h), e]

/-! ### the two budgets are statement-wide -/

/-- Whatever is accepted fits both limits, counted from the counters' values on entry: an
    expression entered with `d` frames active uses at most `maxE - d` more, a body entered with `d`
    expression frames and `sd` bodies active keeps all of its expressions — those of its subqueries
    included — within `maxE - d` further frames and its bodies within `maxS - sd`. -/
theorem fits (maxS maxE : Nat) : ∀ f,
    (∀ sd d m ts e r, exprN maxS maxE f sd d m ts = .ok (e, r) →
        d + e.frames ≤ maxE ∧ (sd ≤ maxS → sd + e.sdepth ≤ maxS)) ∧
    (∀ sd d ts p r, prefixN maxS maxE f sd (d+1) ts = .ok (p, r) → d + 1 ≤ maxE →
        d + p.frames ≤ maxE ∧ (sd ≤ maxS → sd + p.sdepth ≤ maxS)) ∧
    (∀ sd d m lhs ts e r, loopN maxS maxE f sd (d+1) m lhs ts = .ok (e, r) →
        d + lhs.frames ≤ maxE → (sd ≤ maxS → sd + lhs.sdepth ≤ maxS) →
        d + e.frames ≤ maxE ∧ (sd ≤ maxS → sd + e.sdepth ≤ maxS)) ∧
    (∀ sd d ts q r, bodyN maxS maxE f sd d ts = .ok (q, r) →
        d + q.frames ≤ maxE ∧ sd + q.sdepth ≤ maxS) := by
  intro f
  induction f with
  | zero =>
    refine ⟨?_, ?_, ?_, ?_⟩
    · intro sd d m ts e r h; simp [exprN] at h
    · intro sd d ts e r h; simp [prefixN] at h
    · intro sd d m lhs ts e r h; simp [loopN] at h
    · intro sd d ts q r h; simp [bodyN] at h
  | succ f ih =>
    obtain ⟨ihE, ihP, ihL, ihB⟩ := ih
    refine ⟨?_, ?_, ?_, ?_⟩
    · intro sd d m ts e r h
      simp only [exprN] at h
      split at h
      · simp at h
      · next hd =>
        simp only [bind_eq_ok] at h
        obtain ⟨⟨lhs, r0⟩, h1, h2⟩ := h
        obtain ⟨a1, a2⟩ := ihP _ _ _ _ _ h1 (by omega)
        exact ihL _ _ _ _ _ _ _ h2 a1 a2
    · intro sd d ts p r h hd
      cases ts with
      | nil => simp [prefixN] at h
      | cons t rest =>
        simp only [prefixN] at h
        cases ha : prefixArm t with
        | num n =>
          simp only [ha, Res.ok.injEq, Prod.mk.injEq] at h
          rw [← h.1]; simp only [E.frames, E.sdepth]; omega
        | ident n =>
          simp only [ha] at h
          split at h
          · simp at h
          · simp only [Res.ok.injEq, Prod.mk.injEq] at h
            rw [← h.1]; simp only [E.frames, E.sdepth]; omega
        | wildcard =>
          simp only [ha, Res.ok.injEq, Prod.mk.injEq] at h
          rw [← h.1]; simp only [E.frames, E.sdepth]; omega
        | paren =>
          simp only [ha] at h
          split at h
          · simp only [Res.ok.injEq, Prod.mk.injEq] at h
            rw [← h.1]; simp only [E.frames, E.sdepth]; omega
          · simp only [bind_eq_ok] at h
            obtain ⟨⟨x, r1⟩, h1, r2, h2, h3⟩ := h
            obtain ⟨a1, a2⟩ := ihE _ _ _ _ _ _ h1
            simp only [Res.ok.injEq, Prod.mk.injEq] at h3
            rw [← h3.1]
            exact ⟨by omega, a2⟩
        | unary u =>
          simp only [ha, bind_eq_ok] at h
          obtain ⟨⟨x, r1⟩, h1, h3⟩ := h
          obtain ⟨a1, a2⟩ := ihE _ _ _ _ _ _ h1
          simp only [Res.ok.injEq, Prod.mk.injEq] at h3
          rw [← h3.1]
          simp only [E.frames, E.sdepth]
          exact ⟨by omega, a2⟩
        | existsArm =>
          simp only [ha, bind_eq_ok] at h
          obtain ⟨r1, h1, r2, h2, ⟨q, r3⟩, h3, r4, h4, h5⟩ := h
          obtain ⟨a1, a2⟩ := ihB _ _ _ _ _ h3
          simp only [Res.ok.injEq, Prod.mk.injEq] at h5
          rw [← h5.1]
          simp only [E.frames, E.sdepth]
          exact ⟨by omega, fun _ => a2⟩
        | unexpected => simp [ha] at h
    · intro sd d m lhs ts e r h hf hs
      simp only [loopN] at h
      cases ha : loopArm ts with
      | stop =>
        simp only [ha, Res.ok.injEq, Prod.mk.injEq] at h
        rw [← h.1]; exact ⟨hf, hs⟩
      | inArm neg r0 =>
        simp only [ha, bind_eq_ok] at h
        obtain ⟨r1, h1, h2⟩ := h
        split at h2
        · simp only [bind_eq_ok] at h2
          obtain ⟨⟨q, r2⟩, h3, r3, h4, h5⟩ := h2
          obtain ⟨a1, a2⟩ := ihB _ _ _ _ _ h3
          refine ihL _ _ _ _ _ _ _ h5 ?_ ?_
          · simp only [E.frames]; omega
          · intro hm; have := hs hm; simp only [E.sdepth]; omega
        · split at h2
          · refine ihL _ _ _ _ _ _ _ h2 ?_ ?_
            · simp only [E.frames]; omega
            · intro hm; have := hs hm; simp only [E.sdepth]; omega
          · simp only [bind_eq_ok] at h2
            obtain ⟨⟨v, r2⟩, h3, r3, h4, h5⟩ := h2
            obtain ⟨a1, a2⟩ := ihE _ _ _ _ _ _ h3
            refine ihL _ _ _ _ _ _ _ h5 ?_ ?_
            · simp only [E.frames]; omega
            · intro hm; have := hs hm; have := a2 hm; simp only [E.sdepth]; omega
      | binary o r0 =>
        simp only [ha] at h
        split at h
        · simp only [Res.ok.injEq, Prod.mk.injEq] at h
          rw [← h.1]; exact ⟨hf, hs⟩
        · simp only [bind_eq_ok] at h
          obtain ⟨⟨rhs, r1⟩, h1, h2⟩ := h
          obtain ⟨a1, a2⟩ := ihE _ _ _ _ _ _ h1
          refine ihL _ _ _ _ _ _ _ h2 ?_ ?_
          · simp only [E.frames]; omega
          · intro hm; have := hs hm; have := a2 hm; simp only [E.sdepth]; omega
    · intro sd d ts q r h
      simp only [bodyN] at h
      split at h
      · simp at h
      · next hd =>
        simp only [bind_eq_ok] at h
        obtain ⟨⟨it, r0⟩, h0, ⟨it', r1⟩, h1, ⟨src, r2⟩, h2, ⟨w, r3⟩, h3, h4⟩ := h
        obtain ⟨a1, a2⟩ := ihE _ _ _ _ _ _ h0
        obtain ⟨e0, e1⟩ := noAlias_ok h1
        simp only at e0 e1 h2 h3 h4
        subst e0 e1
        simp only [Res.ok.injEq, Prod.mk.injEq] at h4
        rw [← h4.1]
        have hS : d + src.frames ≤ maxE ∧ sd + 1 + src.sdepth ≤ maxS := by
          split at h2
          · next r =>
            split at h2
            · simp only [bind_eq_ok] at h2
              obtain ⟨r4, h5, ⟨s, r5⟩, h6, r6, h7, h8⟩ := h2
              obtain ⟨b1, b2⟩ := ihB _ _ _ _ _ h6
              obtain ⟨e8, -⟩ := noAlias_ok h8
              rw [e8]
              simp only [Src.frames, Src.sdepth]
              exact ⟨b1, b2⟩
            · simp only [bind_eq_ok] at h2
              obtain ⟨⟨n, r4⟩, h5, h8⟩ := h2
              obtain ⟨e8, -⟩ := noAlias_ok h8
              rw [e8]
              simp only [Src.frames, Src.sdepth]
              omega
          · simp only [Res.ok.injEq, Prod.mk.injEq] at h2
            rw [← h2.1]
            simp only [Src.frames, Src.sdepth]
            omega
        have hW : d + w.frames ≤ maxE ∧ sd + 1 + w.sdepth ≤ maxS := by
          split at h3
          · next r =>
            simp only [bind_eq_ok] at h3
            obtain ⟨⟨c, r4⟩, h5, h6⟩ := h3
            obtain ⟨b1, b2⟩ := ihE _ _ _ _ _ _ h5
            simp only [Res.ok.injEq, Prod.mk.injEq] at h6
            rw [← h6.1]
            simp only [Whr.frames, Whr.sdepth]
            exact ⟨b1, b2 (by omega)⟩
          · simp only [Res.ok.injEq, Prod.mk.injEq] at h3
            rw [← h3.1]
            simp only [Whr.frames, Whr.sdepth]
            omega
        have := a2 (by omega)
        simp only [Q.frames, Q.sdepth]
        omega

/-! ### linear chains of frame openers: the exact position of `TooDeep` -/

theorem prefixArm_preTok (u : UnOp) (b : Bool) : prefixArm (preTok u b) = .unary u := by
  cases u <;> cases b <;> rfl

theorem opener_pos (o : Opener) : 1 ≤ o.toks.length := by
  cases o with
  | inSel n neg => cases neg <;> simp [Opener.toks]
  | _ => simp [Opener.toks]

theorem opens_length_ge (l : List Opener) : l.length ≤ (opens l).length := by
  induction l with
  | nil => simp [opens]
  | cons o l ih =>
    have := opener_pos o
    simp only [opens, List.length_cons, List.length_append]
    omega

/-- no opener starts with `)` -/
theorem opens_head (l : List Opener) (rest : List NTok) (h : rest.head? ≠ some .rparen) :
    (opens l ++ rest).head? ≠ some .rparen := by
  cases l with
  | nil => simpa [opens] using h
  | cons o l =>
    cases o with
    | pre u b => cases u <;> cases b <;> simp [opens, Opener.toks, preTok]
    | paren => simp [opens, Opener.toks]
    | inSel n neg => cases neg <;> simp [opens, Opener.toks]
    | exSel => simp [opens, Opener.toks]

/-- Whatever follows, the expression entered after `maxE - d` openers is rejected at its first
    token: prefix operators, parentheses and the frames that stay active around `IN ( SELECT` /
    `EXISTS ( SELECT` all draw on the same budget. (`maxE ≤ maxS` and `sd ≤ d + 1`: the select
    counter cannot fire earlier — when both fire it is at the same token.) -/
theorem chain_td (maxS maxE : Nat) (hSE : maxE ≤ maxS) : ∀ (l : List Opener) (fuel sd d m : Nat)
    (rest : List NTok), sd ≤ d + 1 → d ≤ maxE → maxE ≤ d + l.length → 3 * l.length + 1 ≤ fuel →
    rest.head? ≠ some .rparen →
    exprN maxS maxE fuel sd d m (opens l ++ rest) =
      .error (.tooDeep ((opens (l.drop (maxE - d))).length + rest.length)) := by
  intro l
  induction l with
  | nil =>
    intro fuel sd d m rest hsd hd hM hf hr
    simp only [List.length_nil, Nat.add_zero] at hM
    obtain ⟨f, rfl⟩ : ∃ f, fuel = f + 1 := ⟨fuel - 1, by omega⟩
    have : d + 1 > maxE := by omega
    simp [exprN, this, opens]
  | cons o l ih =>
    intro fuel sd d m rest hsd hd hM hf hr
    simp only [List.length_cons] at hM hf
    by_cases hdd : d = maxE
    · obtain ⟨f, rfl⟩ : ∃ f, fuel = f + 1 := ⟨fuel - 1, by omega⟩
      simp [exprN, hdd]
    · obtain ⟨j, hj⟩ : ∃ j, maxE - d = j + 1 := ⟨maxE - d - 1, by omega⟩
      have hj' : maxE - (d + 1) = j := by omega
      rw [hj, List.drop_succ_cons, ← hj']
      obtain ⟨f, rfl⟩ : ∃ f, fuel = f + 3 := ⟨fuel - 3, by omega⟩
      have hnd : ¬ (d + 1 > maxE) := by omega
      -- the body entered by a subquery opener (fuel f+1), shared by `inSel` / `exSel`
      have hbody : bodyN maxS maxE (f+1) sd (d+1) (opens l ++ rest) =
          .error (.tooDeep ((opens (l.drop (maxE - (d + 1)))).length + rest.length)) := by
        simp only [bodyN]
        by_cases hs : sd + 1 > maxS
        · have : maxE - (d + 1) = 0 := by omega
          simp [hs, this]
        · have hb := ih f (sd+1) (d+1) 0 rest (by omega) (by omega) (by omega) (by omega) hr
          simp only [hs, if_false, hb, bind_error]
      cases o with
      | pre u b =>
        have hb := ih (f+1) sd (d+1) PREFIX_BP rest (by omega) (by omega) (by omega) (by omega) hr
        simp only [opens, Opener.toks, List.cons_append, List.nil_append]
        simp only [exprN, hnd, if_false]
        simp only [prefixN, prefixArm_preTok, hb, bind_error]
      | paren =>
        have hb := ih (f+1) sd (d+1) 0 rest (by omega) (by omega) (by omega) (by omega) hr
        have hh := opens_head l rest hr
        simp only [opens, Opener.toks, List.cons_append, List.nil_append]
        simp only [exprN, hnd, if_false]
        simp only [prefixN, prefixArm, hh, if_false, hb, bind_error]
      | exSel =>
        simp only [opens, Opener.toks, List.cons_append, List.nil_append]
        simp only [exprN, hnd, if_false]
        simp only [prefixN, prefixArm, expect_self, bind_ok, hbody, bind_error]
      | inSel n neg =>
        cases neg with
        | false =>
          simp only [opens, Opener.toks, List.cons_append, List.nil_append]
          simp only [exprN, hnd, if_false]
          simp only [prefixN, prefixArm, bind_ok]
          simp only [loopN, loopArm, expect_self, bind_ok, List.head?_cons, if_true, List.tail_cons,
            hbody, bind_error]
        | true =>
          simp only [opens, Opener.toks, List.cons_append, List.nil_append]
          simp only [exprN, hnd, if_false]
          simp only [prefixN, prefixArm, bind_ok]
          simp only [loopN, loopArm, expect_self, bind_ok, List.head?_cons, if_true, List.tail_cons,
            hbody, bind_error]

end Neumann.Parse.Nest
