import NeumannModel.Parse.Clause
/-
  C15 — helper lemmas for the clause-level grammar model of SELECT (`Parse/Clause.lean`):
  running the machine, a step measure (totality), the position / select-depth invariant.
  Core Lean only (no Mathlib).
-/
namespace Neumann.Parse.Clause

/-! ### running the machine -/

theorem step_done (r : Res Q) (S : List Frame) (ts : List Tok) : step ⟨.done r, S, ts⟩ = ⟨.done r, S, ts⟩ := rfl

theorem run_done (n : Nat) (r : Res Q) (S : List Frame) (ts : List Tok) :
    run n ⟨.done r, S, ts⟩ = ⟨.done r, S, ts⟩ := by
  induction n with
  | zero => rfl
  | succ n ih => simp only [run, step_done, ih]

theorem run_add (a b : Nat) (st : St) : run (a + b) st = run b (run a st) := by
  induction a generalizing st with
  | zero => simp [run]
  | succ a ih => rw [Nat.succ_add]; simp only [run]; exact ih _

def Reach (a b : St) : Prop := ∃ n, run n a = b

theorem Reach.refl (a : St) : Reach a a := ⟨0, rfl⟩
theorem Reach.trans {a b c : St} (h1 : Reach a b) (h2 : Reach b c) : Reach a c := by
  obtain ⟨n1, e1⟩ := h1
  obtain ⟨n2, e2⟩ := h2
  exact ⟨n1 + n2, by rw [run_add, e1, e2]⟩
theorem Reach.one {a b : St} (h : step a = b) : Reach a b := ⟨1, by simp [run, h]⟩
theorem Reach.head {a b c : St} (h : step a = b) (h2 : Reach b c) : Reach a c := (Reach.one h).trans h2

def isDone (st : St) : Prop := ∃ r, st.ctl = .done r

theorem run_isDone {st : St} (h : isDone st) (n : Nat) : run n st = st := by
  obtain ⟨ctl, S, ts⟩ := st
  obtain ⟨r, hr⟩ := h
  simp only at hr
  subst hr
  exact run_done n r S ts

theorem run_done_unique {st : St} {a b : Nat} (ha : isDone (run a st)) (hb : isDone (run b st)) :
    run a st = run b st := by
  have h1 : run (a + b) st = run a st := by rw [run_add, run_isDone ha]
  have h2 : run (a + b) st = run b st := by rw [Nat.add_comm, run_add, run_isDone hb]
  rw [← h1, h2]

/-! ### the sub-parsers -/

theorem parseX_len {ts r : List Tok} {e : XE} (h : parseX ts = .ok (e, r)) : r.length + 1 = ts.length := by
  cases ts with
  | nil => simp [parseX] at h
  | cons t r0 =>
    cases t <;> simp only [parseX] at h <;> (try split at h) <;>
      simp only [Res.ok.injEq, Prod.mk.injEq, reduceCtorEq] at h <;> (try (rw [← h.2]; simp))

theorem expectIdent_len {ts r : List Tok} {n : Nat} (h : expectIdent ts = .ok (n, r)) :
    r.length + 1 = ts.length := by
  cases ts with
  | nil => simp [expectIdent] at h
  | cons t r0 =>
    cases t <;> simp only [expectIdent, Res.ok.injEq, Prod.mk.injEq, reduceCtorEq] at h
    rw [← h.2]; simp

theorem parseAlias_len {ts r : List Tok} {a : Option Nat} (h : parseAlias ts = .ok (a, r)) :
    r.length ≤ ts.length := by
  cases ts with
  | nil => simp only [parseAlias, Res.ok.injEq, Prod.mk.injEq] at h; rw [← h.2]; simp
  | cons t r0 =>
    cases t <;> simp only [parseAlias, Res.ok.injEq, Prod.mk.injEq] at h <;>
      first
      | (rw [← h.2]; simp)
      | skip
    -- `AS`
    split at h
    · next n r' he =>
      simp only [Res.ok.injEq, Prod.mk.injEq] at h
      have := expectIdent_len he
      rw [← h.2]; simp only [List.length_cons]; omega
    · cases h
    · cases h

theorem joinKind_len {ts r : List Tok} {k : JK} (h : joinKind ts = .ok (some (k, r))) :
    r.length + 1 ≤ ts.length := by
  unfold joinKind at h
  cases ts with
  | nil => simp at h
  | cons t r0 =>
    have hN : ∀ (k' : JK) (x : List Tok),
        (match x with
          | [] => (Res.error (Err.eof Expect.join) : Res (Option (JK × List Tok)))
          | c :: r' => if c = Tok.join then Res.ok (some (k', r')) else Res.error (Err.unexpected Expect.join (c :: r').length))
          = .ok (some (k, r)) → r.length + 1 ≤ x.length := by
      intro k' x hx
      cases x with
      | nil => simp at hx
      | cons c r' =>
        simp only at hx
        split at hx
        · simp only [Res.ok.injEq, Option.some.injEq, Prod.mk.injEq] at hx; rw [← hx.2]; simp
        · cases hx
    have hO : ∀ x : List Tok, (if x.head? = some Tok.outer then x.tail else x).length ≤ x.length := by
      intro x; split <;> simp
    cases t <;> simp only at h <;>
      first
      | (have := hN _ _ h; simp only [List.length_cons]; omega)
      | (have := hN _ _ h; have := hO r0; simp only [List.length_cons]; omega)
      | (simp only [Res.ok.injEq, Option.some.injEq, Prod.mk.injEq, reduceCtorEq] at h; rw [← h.2]; simp)
      | simp at h

/-- elimination for `orHalt` -/
theorem orHalt_elim {α : Type} {P : St → Prop} {r : Res α} {k : α → St}
    (hf : ∀ e, P (fail e)) (ho : P (halt .outside)) (hk : ∀ a, r = .ok a → P (k a)) : P (orHalt r k) := by
  cases r with
  | ok a => exact hk a rfl
  | error e => exact hf e
  | outside => exact ho

/-- elimination for `expect` with the exact errors -/
theorem expect_elim {P : St → Prop} {t : Tok} {x : Expect} {ts : List Tok} {k : List Tok → St}
    (hf1 : P (fail (.eof x))) (hf2 : 1 ≤ ts.length → P (fail (.unexpected x ts.length)))
    (hk : ∀ r, ts = t :: r → P (k r)) : P (expect t x ts k) := by
  cases ts with
  | nil => exact hf1
  | cons c r =>
    simp only [expect]
    split
    · next h => exact hk r (by rw [h])
    · exact hf2 (by simp)

theorem head_tail_len {t : Tok} {ts : List Tok} (h : ts.head? = some t) : ts.tail.length + 1 = ts.length := by
  cases ts with
  | nil => simp at h
  | cons c r => simp

/-! ### a measure that every step decreases -/

def rank : Ctl → Nat
  | .body => 2
  | .items _ _ => 1
  | .joins _ _ _ _ => 1
  | _ => 0

def mu (st : St) : Nat :=
  match st.ctl with
  | .done _ => 0
  | c => 3 * st.ts.length + 2 * st.stk.length + rank c

def Good (b : Nat) (st : St) : Prop := isDone st ∨ mu st < b

theorem good_halt (b : Nat) (r : Res Q) : Good b (halt r) := Or.inl ⟨r, rfl⟩
theorem good_fail (b : Nat) (e : Err) : Good b (fail e) := Or.inl ⟨_, rfl⟩

theorem good_of {b : Nat} {c : Ctl} {S : List Frame} {ts : List Tok}
    (h : 3 * ts.length + 2 * S.length + rank c < b) : Good b ⟨c, S, ts⟩ := by
  cases c <;> first | exact Or.inl ⟨_, rfl⟩ | exact Or.inr (by simpa [mu] using h)

theorem limitOffset_good {b : Nat} (h : Head) (whr : Option XE) (grp : List XE) (hav : Option XE)
    (ord : List OItem) (S : List Frame) (ts : List Tok) (hb : 3 * ts.length + 2 * S.length < b) :
    Good b (limitOffset h whr grp hav ord S ts) := by
  unfold limitOffset
  simp only
  have hoff : ∀ (lim : Option XE) (r : List Tok), r.length ≤ ts.length →
      Good b (if r.head? = some Tok.offset then
        orHalt (parseX r.tail) fun p => ⟨.bodyRet (.mk h.distinct h.items h.src ⟨whr, grp, hav, ord, lim, some p.1⟩), S, p.2⟩
        else ⟨.bodyRet (.mk h.distinct h.items h.src ⟨whr, grp, hav, ord, lim, none⟩), S, r⟩) := by
    intro lim r hr
    split
    · next hh =>
      have := head_tail_len hh
      refine orHalt_elim (good_fail b) (good_halt b _) fun p hp => ?_
      have := parseX_len hp
      exact good_of (by simp only [rank]; omega)
    · exact good_of (by simp only [rank]; omega)
  split
  · next hh =>
    have := head_tail_len hh
    refine orHalt_elim (good_fail b) (good_halt b _) fun p hp => ?_
    have := parseX_len hp
    exact hoff _ _ (by omega)
  · exact hoff _ _ (Nat.le_refl _)

theorem orderBy_good {b : Nat} (h : Head) (whr : Option XE) (grp : List XE) (hav : Option XE)
    (S : List Frame) (ts : List Tok) (hb : 3 * ts.length + 2 * S.length < b) :
    Good b (orderBy h whr grp hav S ts) := by
  unfold orderBy
  split
  · next hh =>
    have := head_tail_len hh
    refine expect_elim (good_fail b _) (fun _ => good_fail b _) fun r hr => ?_
    have : r.length + 1 = ts.tail.length := by rw [hr]; simp
    exact good_of (by simp only [rank]; omega)
  · exact limitOffset_good _ _ _ _ _ _ _ hb

theorem havingC_good {b : Nat} (h : Head) (whr : Option XE) (grp : List XE) (S : List Frame) (ts : List Tok)
    (hb : 3 * ts.length + 2 * S.length < b) : Good b (havingC h whr grp S ts) := by
  unfold havingC
  split
  · next hh =>
    have := head_tail_len hh
    refine orHalt_elim (good_fail b) (good_halt b _) fun p hp => ?_
    have := parseX_len hp
    exact orderBy_good _ _ _ _ _ _ (by omega)
  · exact orderBy_good _ _ _ _ _ _ hb

theorem groupBy_good {b : Nat} (h : Head) (whr : Option XE) (S : List Frame) (ts : List Tok)
    (hb : 3 * ts.length + 2 * S.length < b) : Good b (groupBy h whr S ts) := by
  unfold groupBy
  split
  · next hh =>
    have := head_tail_len hh
    refine expect_elim (good_fail b _) (fun _ => good_fail b _) fun r hr => ?_
    have : r.length + 1 = ts.tail.length := by rw [hr]; simp
    exact good_of (by simp only [rank]; omega)
  · exact havingC_good _ _ _ _ _ hb

theorem whereC_good {b : Nat} (h : Head) (S : List Frame) (ts : List Tok)
    (hb : 3 * ts.length + 2 * S.length < b) : Good b (whereC h S ts) := by
  unfold whereC
  split
  · next hh =>
    have := head_tail_len hh
    refine orHalt_elim (good_fail b) (good_halt b _) fun p hp => ?_
    have := parseX_len hp
    exact groupBy_good _ _ _ _ (by omega)
  · exact groupBy_good _ _ _ _ hb

theorem afterTref_good {b : Nat} (fr : Frame) (t : TRef) (S : List Frame) (ts : List Tok)
    (hb : 3 * ts.length + 2 * S.length + 1 < b) : Good b (afterTref fr t S ts) := by
  unfold afterTref
  split
  · exact good_of (by simp only [rank]; omega)
  · split
    · next hh =>
      have := head_tail_len hh
      refine orHalt_elim (good_fail b) (good_halt b _) fun p hp => ?_
      have := parseX_len hp
      exact good_of (by simp only [rank]; omega)
    · split
      · next hh =>
        have := head_tail_len hh
        refine expect_elim (good_fail b _) (fun _ => good_fail b _) fun r hr => ?_
        have : r.length + 1 = ts.tail.length := by rw [hr]; simp
        refine orHalt_elim (good_fail b) (good_halt b _) fun p hp => ?_
        have := expectIdent_len hp
        exact good_of (by simp only [rank]; omega)
      · exact good_of (by simp only [rank]; omega)

theorem step_good (st : St) (h : ¬ isDone st) : Good (mu st) (step st) := by
  obtain ⟨ctl, S, ts⟩ := st
  cases ctl with
  | done r => exact absurd ⟨r, rfl⟩ h
  | body =>
    simp only [step, mu, rank]
    split
    · exact good_fail _ _
    · split
      · next hh => have := head_tail_len hh; exact good_of (by simp only [rank]; omega)
      · split
        · next hh => have := head_tail_len hh; exact good_of (by simp only [rank]; omega)
        · exact good_of (by simp only [rank]; omega)
  | items d acc =>
    simp only [step, mu, rank]
    refine orHalt_elim (good_fail _) (good_halt _ _) fun p hp => ?_
    have h1 := parseX_len hp
    refine orHalt_elim (good_fail _) (good_halt _ _) fun a ha => ?_
    have h2 := parseAlias_len ha
    show Good _ _
    split
    · next hh => have := head_tail_len hh; exact good_of (by simp only [rank]; omega)
    · split
      · next hh => have := head_tail_len hh; exact good_of (by simp only [rank]; omega)
      · exact whereC_good _ _ _ (by omega)
  | tref fr =>
    simp only [step, mu, rank]
    split
    · next hh =>
      have := head_tail_len hh
      refine expect_elim (good_fail _ _) (fun _ => good_fail _ _) fun r hr => ?_
      have : r.length + 1 = ts.tail.length := by rw [hr]; simp
      exact good_of (by simp only [rank, List.length_cons]; omega)
    · refine orHalt_elim (good_fail _) (good_halt _ _) fun p hp => ?_
      have h1 := expectIdent_len hp
      refine orHalt_elim (good_fail _) (good_halt _ _) fun a ha => ?_
      have h2 := parseAlias_len ha
      exact afterTref_good _ _ _ _ (by omega)
  | usingL d its t0 jacc k t c acc =>
    simp only [step, mu, rank]
    split
    · next hh =>
      have := head_tail_len hh
      refine orHalt_elim (good_fail _) (good_halt _ _) fun p hp => ?_
      have := expectIdent_len hp
      exact good_of (by simp only [rank]; omega)
    · refine expect_elim (good_fail _ _) (fun _ => good_fail _ _) fun r hr => ?_
      have : r.length + 1 = ts.length := by rw [hr]; simp
      exact good_of (by simp only [rank]; omega)
  | joins d its t0 acc =>
    simp only [step, mu, rank]
    refine orHalt_elim (good_fail _) (good_halt _ _) fun j hj => ?_
    cases j with
    | none => exact whereC_good _ _ _ (by omega)
    | some kr =>
      obtain ⟨k, r⟩ := kr
      have := joinKind_len hj
      exact good_of (by simp only [rank]; omega)
  | groupL hd whr acc =>
    simp only [step, mu, rank]
    refine orHalt_elim (good_fail _) (good_halt _ _) fun p hp => ?_
    have h1 := parseX_len hp
    split
    · next hh => have := head_tail_len hh; exact good_of (by simp only [rank]; omega)
    · exact havingC_good _ _ _ _ _ (by omega)
  | orderL hd whr grp hav acc =>
    simp only [step, mu, rank]
    refine orHalt_elim (good_fail _) (good_halt _ _) fun p hp => ?_
    have h1 := parseX_len hp
    show Good _ _
    have hfin : ∀ (dir : Bool) (nl : Option Bool) (r : List Tok), r.length + 1 ≤ ts.length →
        Good (3 * ts.length + 2 * S.length + 0)
          (if r.head? = some Tok.comma then ⟨.orderL hd whr grp hav (acc ++ [⟨p.1, dir, nl⟩]), S, r.tail⟩
           else limitOffset hd whr grp hav (acc ++ [⟨p.1, dir, nl⟩]) S r) := by
      intro dir nl r hr
      split
      · next hh => have := head_tail_len hh; exact good_of (by simp only [rank]; omega)
      · exact limitOffset_good _ _ _ _ _ _ _ (by omega)
    have hnulls : ∀ (dir : Bool) (r : List Tok), r.length + 1 ≤ ts.length →
        Good (3 * ts.length + 2 * S.length + 0)
          (if r.head? = some Tok.nulls then
            (if r.tail.head? = some Tok.first then
              (if r.tail.tail.head? = some Tok.comma then ⟨.orderL hd whr grp hav (acc ++ [⟨p.1, dir, some true⟩]), S, r.tail.tail.tail⟩
               else limitOffset hd whr grp hav (acc ++ [⟨p.1, dir, some true⟩]) S r.tail.tail)
             else expect Tok.last Expect.last r.tail fun r' =>
              (if r'.head? = some Tok.comma then ⟨.orderL hd whr grp hav (acc ++ [⟨p.1, dir, some false⟩]), S, r'.tail⟩
               else limitOffset hd whr grp hav (acc ++ [⟨p.1, dir, some false⟩]) S r'))
           else
            (if r.head? = some Tok.comma then ⟨.orderL hd whr grp hav (acc ++ [⟨p.1, dir, none⟩]), S, r.tail⟩
             else limitOffset hd whr grp hav (acc ++ [⟨p.1, dir, none⟩]) S r)) := by
      intro dir r hr
      split
      · next hn =>
        have := head_tail_len hn
        split
        · next hf =>
          have := head_tail_len hf
          exact hfin dir (some true) _ (by omega)
        · refine expect_elim (good_fail _ _) (fun _ => good_fail _ _) fun r' hr' => ?_
          have : r'.length + 1 = r.tail.length := by rw [hr']; simp
          exact hfin dir (some false) _ (by omega)
      · exact hfin dir none _ hr
    split
    · next hh => have := head_tail_len hh; exact hnulls true p.2.tail (by omega)
    · split
      · next hh => have := head_tail_len hh; exact hnulls false p.2.tail (by omega)
      · exact hnulls false p.2 (by omega)
  | bodyRet q =>
    cases S with
    | nil => exact Or.inl ⟨_, rfl⟩
    | cons fr S =>
      simp only [step, mu, rank, List.length_cons]
      refine expect_elim (good_fail _ _) (fun _ => good_fail _ _) fun r hr => ?_
      have : r.length + 1 = ts.length := by rw [hr]; simp
      refine orHalt_elim (good_fail _) (good_halt _ _) fun a ha => ?_
      have h2 := parseAlias_len ha
      exact afterTref_good _ _ _ _ (by omega)

theorem run_reaches_done : ∀ (n : Nat) (st : St), mu st < n → isDone (run n st) := by
  intro n
  induction n with
  | zero => intro st h; omega
  | succ n ih =>
    intro st h
    by_cases hd : isDone st
    · rw [run_isDone hd]; exact hd
    · simp only [run]
      rcases step_good st hd with h2 | h2
      · rw [run_isDone h2]; exact h2
      · exact ih _ (by omega)

theorem dropSemis_len (ts : List Tok) : (dropSemis ts).length ≤ ts.length := by
  induction ts with
  | nil => simp [dropSemis]
  | cons t r ih =>
    cases t <;> simp only [dropSemis, List.length_cons] <;> omega

theorem mu_init (ts : List Tok) : mu (init ts) < fuelFor ts := by
  have hl := dropSemis_len ts
  unfold init
  split
  · next r hr =>
    rw [hr] at hl
    simp only [List.length_cons] at hl
    simp only [mu, rank, fuelFor, List.length_nil]
    omega
  · simp [mu, halt, fuelFor]

theorem run_finished (ts : List Tok) : isDone (run (fuelFor ts) (init ts)) :=
  run_reaches_done _ _ (mu_init ts)

/-! ### error positions and the select-depth bound: an invariant of the run -/

def Err.posOk (n : Nat) : Err → Prop
  | .tooDeep rem => rem ≤ n
  | .unexpected _ rem => 1 ≤ rem ∧ rem ≤ n
  | .eof _ => True
  | .fuel => False

def resOk {α : Type} (n : Nat) : Res α → Prop
  | .error e => e.posOk n
  | _ => True

theorem posOk_mono {e : Err} {n n' : Nat} (h : e.posOk n) (hn : n ≤ n') : e.posOk n' := by
  cases e <;> simp only [Err.posOk] at * <;> omega

theorem parseX_ok (ts : List Tok) : resOk ts.length (parseX ts) := by
  cases ts with
  | nil => simp [parseX, resOk, Err.posOk]
  | cons t r => cases t <;> simp only [parseX] <;> (try split) <;> simp [resOk, Err.posOk]

theorem expectIdent_ok (ts : List Tok) : resOk ts.length (expectIdent ts) := by
  cases ts with
  | nil => simp [expectIdent, resOk, Err.posOk]
  | cons t r => cases t <;> simp [expectIdent, resOk, Err.posOk]

theorem parseAlias_ok (ts : List Tok) : resOk ts.length (parseAlias ts) := by
  cases ts with
  | nil => simp [parseAlias, resOk]
  | cons t r =>
    cases t <;> simp only [parseAlias] <;> (try simp [resOk])
    have := expectIdent_ok r
    cases he : expectIdent r with
    | ok p => simp
    | outside => simp
    | error e =>
      rw [he] at this
      simp only [resOk] at this ⊢
      exact posOk_mono this (by simp)

theorem joinKind_ok (ts : List Tok) : resOk ts.length (joinKind ts) := by
  unfold joinKind
  cases ts with
  | nil => simp [resOk]
  | cons t r =>
    have hN : ∀ (k' : JK) (x : List Tok), x.length ≤ r.length →
        resOk (t :: r).length (match x with
          | [] => (Res.error (Err.eof Expect.join) : Res (Option (JK × List Tok)))
          | c :: r' => if c = Tok.join then Res.ok (some (k', r')) else Res.error (Err.unexpected Expect.join (c :: r').length)) := by
      intro k' x hx
      cases x with
      | nil => simp [resOk, Err.posOk]
      | cons c r' =>
        simp only
        split
        · simp [resOk]
        · simp only [resOk, Err.posOk, List.length_cons] at *; omega
    have hO : ∀ x : List Tok, (if x.head? = some Tok.outer then x.tail else x).length ≤ x.length := by
      intro x; split <;> simp
    cases t <;> simp only <;> first | exact hN _ _ (Nat.le_refl _) | exact hN _ _ (hO r) | simp [resOk]

/-- the states inside a body: `stk.length + 1` bodies are active -/
def ctlOk (n d : Nat) : Ctl → Prop
  | .done r => resOk n r
  | .body => True
  | .bodyRet _ => True
  | _ => d < MAX_SELECT_DEPTH

def Inv (n : Nat) (st : St) : Prop :=
  st.ts.length ≤ n ∧ st.stk.length ≤ MAX_SELECT_DEPTH ∧ ctlOk n st.stk.length st.ctl

theorem inv_halt {n : Nat} {r : Res Q} (h : resOk n r) : Inv n (halt r) :=
  ⟨by simp [halt], by simp [halt], h⟩

theorem inv_fail {n : Nat} {e : Err} (h : e.posOk n) : Inv n (fail e) := inv_halt h

theorem inv_mk {n : Nat} {c : Ctl} {S : List Frame} {ts : List Tok} (h1 : ts.length ≤ n)
    (h2 : S.length ≤ MAX_SELECT_DEPTH) (h3 : ctlOk n S.length c) : Inv n ⟨c, S, ts⟩ := ⟨h1, h2, h3⟩

/-- elimination for `orHalt` with the sub-parser's own error -/
theorem orHalt_elim2 {α : Type} {P : St → Prop} {r : Res α} {k : α → St}
    (hf : ∀ e, r = .error e → P (fail e)) (ho : P (halt .outside)) (hk : ∀ a, r = .ok a → P (k a)) :
    P (orHalt r k) := by
  cases r with
  | ok a => exact hk a rfl
  | error e => exact hf e rfl
  | outside => exact ho

/-- a sub-parser run on a suffix: its error position lies inside the input -/
theorem sub_err {α : Type} {n : Nat} {ts : List Tok} {r : Res α} {e : Err} (hok : resOk ts.length r)
    (hts : ts.length ≤ n) (he : r = .error e) : Inv n (fail e) := by
  subst he
  exact inv_fail (posOk_mono hok hts)

theorem limitOffset_inv {n : Nat} (h : Head) (whr : Option XE) (grp : List XE) (hav : Option XE)
    (ord : List OItem) (S : List Frame) (ts : List Tok) (h1 : ts.length ≤ n) (h2 : S.length < MAX_SELECT_DEPTH) :
    Inv n (limitOffset h whr grp hav ord S ts) := by
  unfold limitOffset
  simp only
  have hoff : ∀ (lim : Option XE) (r : List Tok), r.length ≤ n →
      Inv n (if r.head? = some Tok.offset then
        orHalt (parseX r.tail) fun p => ⟨.bodyRet (.mk h.distinct h.items h.src ⟨whr, grp, hav, ord, lim, some p.1⟩), S, p.2⟩
        else ⟨.bodyRet (.mk h.distinct h.items h.src ⟨whr, grp, hav, ord, lim, none⟩), S, r⟩) := by
    intro lim r hr
    split
    · next hh =>
      have := head_tail_len hh
      refine orHalt_elim2 (fun e he => sub_err (parseX_ok _) (by omega) he) (inv_halt trivial) fun p hp => ?_
      have := parseX_len hp
      exact inv_mk (by omega) (by omega) trivial
    · exact inv_mk hr (by omega) trivial
  split
  · next hh =>
    have := head_tail_len hh
    refine orHalt_elim2 (fun e he => sub_err (parseX_ok _) (by omega) he) (inv_halt trivial) fun p hp => ?_
    have := parseX_len hp
    exact hoff _ _ (by omega)
  · exact hoff _ _ h1

theorem orderBy_inv {n : Nat} (h : Head) (whr : Option XE) (grp : List XE) (hav : Option XE)
    (S : List Frame) (ts : List Tok) (h1 : ts.length ≤ n) (h2 : S.length < MAX_SELECT_DEPTH) :
    Inv n (orderBy h whr grp hav S ts) := by
  unfold orderBy
  split
  · next hh =>
    have := head_tail_len hh
    refine expect_elim (inv_fail trivial) (fun hl => inv_fail ⟨hl, by omega⟩) fun r hr => ?_
    have : r.length + 1 = ts.tail.length := by rw [hr]; simp
    exact inv_mk (by omega) (by omega) (by simp only [ctlOk]; exact h2)
  · exact limitOffset_inv _ _ _ _ _ _ _ h1 h2

theorem havingC_inv {n : Nat} (h : Head) (whr : Option XE) (grp : List XE) (S : List Frame) (ts : List Tok)
    (h1 : ts.length ≤ n) (h2 : S.length < MAX_SELECT_DEPTH) : Inv n (havingC h whr grp S ts) := by
  unfold havingC
  split
  · next hh =>
    have := head_tail_len hh
    refine orHalt_elim2 (fun e he => sub_err (parseX_ok _) (by omega) he) (inv_halt trivial) fun p hp => ?_
    have := parseX_len hp
    exact orderBy_inv _ _ _ _ _ _ (by omega) h2
  · exact orderBy_inv _ _ _ _ _ _ h1 h2

theorem groupBy_inv {n : Nat} (h : Head) (whr : Option XE) (S : List Frame) (ts : List Tok)
    (h1 : ts.length ≤ n) (h2 : S.length < MAX_SELECT_DEPTH) : Inv n (groupBy h whr S ts) := by
  unfold groupBy
  split
  · next hh =>
    have := head_tail_len hh
    refine expect_elim (inv_fail trivial) (fun hl => inv_fail ⟨hl, by omega⟩) fun r hr => ?_
    have : r.length + 1 = ts.tail.length := by rw [hr]; simp
    exact inv_mk (by omega) (by omega) (by simp only [ctlOk]; exact h2)
  · exact havingC_inv _ _ _ _ _ h1 h2

theorem whereC_inv {n : Nat} (h : Head) (S : List Frame) (ts : List Tok)
    (h1 : ts.length ≤ n) (h2 : S.length < MAX_SELECT_DEPTH) : Inv n (whereC h S ts) := by
  unfold whereC
  split
  · next hh =>
    have := head_tail_len hh
    refine orHalt_elim2 (fun e he => sub_err (parseX_ok _) (by omega) he) (inv_halt trivial) fun p hp => ?_
    have := parseX_len hp
    exact groupBy_inv _ _ _ _ (by omega) h2
  · exact groupBy_inv _ _ _ _ h1 h2

theorem afterTref_inv {n : Nat} (fr : Frame) (t : TRef) (S : List Frame) (ts : List Tok)
    (h1 : ts.length ≤ n) (h2 : S.length < MAX_SELECT_DEPTH) : Inv n (afterTref fr t S ts) := by
  unfold afterTref
  split
  · exact inv_mk h1 (by omega) (by simp only [ctlOk]; exact h2)
  · split
    · next hh =>
      have := head_tail_len hh
      refine orHalt_elim2 (fun e he => sub_err (parseX_ok _) (by omega) he) (inv_halt trivial) fun p hp => ?_
      have := parseX_len hp
      exact inv_mk (by omega) (by omega) (by simp only [ctlOk]; exact h2)
    · split
      · next hh =>
        have := head_tail_len hh
        refine expect_elim (inv_fail trivial) (fun hl => inv_fail ⟨hl, by omega⟩) fun r hr => ?_
        have : r.length + 1 = ts.tail.length := by rw [hr]; simp
        refine orHalt_elim2 (fun e he => sub_err (expectIdent_ok _) (by omega) he) (inv_halt trivial) fun p hp => ?_
        have := expectIdent_len hp
        exact inv_mk (by omega) (by omega) (by simp only [ctlOk]; exact h2)
      · exact inv_mk h1 (by omega) (by simp only [ctlOk]; exact h2)

theorem step_inv {n : Nat} (st : St) (h : Inv n st) : Inv n (step st) := by
  obtain ⟨ctl, S, ts⟩ := st
  obtain ⟨h1, h2, h3⟩ := h
  simp only at h1 h2 h3
  cases ctl with
  | done r => exact ⟨h1, h2, h3⟩
  | body =>
    simp only [step]
    split
    · exact inv_fail h1
    · next hd =>
      have hd' : S.length < MAX_SELECT_DEPTH := by omega
      split
      · exact inv_mk (by simp only [List.length_tail]; omega) h2 (by simp only [ctlOk]; exact hd')
      · split
        · exact inv_mk (by simp only [List.length_tail]; omega) h2 (by simp only [ctlOk]; exact hd')
        · exact inv_mk h1 h2 (by simp only [ctlOk]; exact hd')
  | items d acc =>
    simp only [ctlOk] at h3
    simp only [step]
    refine orHalt_elim2 (fun e he => sub_err (parseX_ok _) h1 he) (inv_halt trivial) fun p hp => ?_
    have e1 := parseX_len hp
    refine orHalt_elim2 (fun e he => sub_err (parseAlias_ok _) (by omega) he) (inv_halt trivial) fun a ha => ?_
    have e2 := parseAlias_len ha
    show Inv n _
    split
    · exact inv_mk (by simp only [List.length_tail]; omega) h2 (by simp only [ctlOk]; exact h3)
    · split
      · exact inv_mk (by simp only [List.length_tail]; omega) h2 (by simp only [ctlOk]; exact h3)
      · exact whereC_inv _ _ _ (by omega) h3
  | tref fr =>
    simp only [ctlOk] at h3
    simp only [step]
    split
    · next hh =>
      have := head_tail_len hh
      refine expect_elim (inv_fail trivial) (fun hl => inv_fail ⟨hl, by omega⟩) fun r hr => ?_
      have : r.length + 1 = ts.tail.length := by rw [hr]; simp
      exact inv_mk (by omega) (by simp only [List.length_cons]; omega) trivial
    · refine orHalt_elim2 (fun e he => sub_err (expectIdent_ok _) h1 he) (inv_halt trivial) fun p hp => ?_
      have e1 := expectIdent_len hp
      refine orHalt_elim2 (fun e he => sub_err (parseAlias_ok _) (by omega) he) (inv_halt trivial) fun a ha => ?_
      have e2 := parseAlias_len ha
      exact afterTref_inv _ _ _ _ (by omega) h3
  | usingL d its t0 jacc k t c acc =>
    simp only [ctlOk] at h3
    simp only [step]
    split
    · next hh =>
      have := head_tail_len hh
      refine orHalt_elim2 (fun e he => sub_err (expectIdent_ok _) (by omega) he) (inv_halt trivial) fun p hp => ?_
      have := expectIdent_len hp
      exact inv_mk (by omega) h2 (by simp only [ctlOk]; exact h3)
    · refine expect_elim (inv_fail trivial) (fun hl => inv_fail ⟨hl, h1⟩) fun r hr => ?_
      have : r.length + 1 = ts.length := by rw [hr]; simp
      exact inv_mk (by omega) h2 (by simp only [ctlOk]; exact h3)
  | joins d its t0 acc =>
    simp only [ctlOk] at h3
    simp only [step]
    refine orHalt_elim2 (fun e he => sub_err (joinKind_ok _) h1 he) (inv_halt trivial) fun j hj => ?_
    cases j with
    | none => exact whereC_inv _ _ _ h1 h3
    | some kr =>
      obtain ⟨k, r⟩ := kr
      have := joinKind_len hj
      exact inv_mk (by omega) h2 (by simp only [ctlOk]; exact h3)
  | groupL hd whr acc =>
    simp only [ctlOk] at h3
    simp only [step]
    refine orHalt_elim2 (fun e he => sub_err (parseX_ok _) h1 he) (inv_halt trivial) fun p hp => ?_
    have e1 := parseX_len hp
    split
    · exact inv_mk (by simp only [List.length_tail]; omega) h2 (by simp only [ctlOk]; exact h3)
    · exact havingC_inv _ _ _ _ _ (by omega) h3
  | orderL hd whr grp hav acc =>
    simp only [ctlOk] at h3
    simp only [step]
    refine orHalt_elim2 (fun e he => sub_err (parseX_ok _) h1 he) (inv_halt trivial) fun p hp => ?_
    have e1 := parseX_len hp
    show Inv n _
    have hfin : ∀ (dir : Bool) (nl : Option Bool) (r : List Tok), r.length ≤ n →
        Inv n
          (if r.head? = some Tok.comma then ⟨.orderL hd whr grp hav (acc ++ [⟨p.1, dir, nl⟩]), S, r.tail⟩
           else limitOffset hd whr grp hav (acc ++ [⟨p.1, dir, nl⟩]) S r) := by
      intro dir nl r hr
      split
      · exact inv_mk (by simp only [List.length_tail]; omega) h2 (by simp only [ctlOk]; exact h3)
      · exact limitOffset_inv _ _ _ _ _ _ _ hr h3
    have hnulls : ∀ (dir : Bool) (r : List Tok), r.length ≤ n →
        Inv n
          (if r.head? = some Tok.nulls then
            (if r.tail.head? = some Tok.first then
              (if r.tail.tail.head? = some Tok.comma then ⟨.orderL hd whr grp hav (acc ++ [⟨p.1, dir, some true⟩]), S, r.tail.tail.tail⟩
               else limitOffset hd whr grp hav (acc ++ [⟨p.1, dir, some true⟩]) S r.tail.tail)
             else expect Tok.last Expect.last r.tail fun r' =>
              (if r'.head? = some Tok.comma then ⟨.orderL hd whr grp hav (acc ++ [⟨p.1, dir, some false⟩]), S, r'.tail⟩
               else limitOffset hd whr grp hav (acc ++ [⟨p.1, dir, some false⟩]) S r'))
           else
            (if r.head? = some Tok.comma then ⟨.orderL hd whr grp hav (acc ++ [⟨p.1, dir, none⟩]), S, r.tail⟩
             else limitOffset hd whr grp hav (acc ++ [⟨p.1, dir, none⟩]) S r)) := by
      intro dir r hr
      split
      · split
        · exact hfin dir (some true) _ (by simp only [List.length_tail]; omega)
        · refine expect_elim (inv_fail trivial) (fun hl => inv_fail ⟨hl, by simp only [List.length_tail]; omega⟩) fun r' hr' => ?_
          have : r'.length + 1 = r.tail.length := by rw [hr']; simp
          simp only [List.length_tail] at this
          exact hfin dir (some false) _ (by omega)
      · exact hfin dir none _ hr
    split
    · exact hnulls true p.2.tail (by simp only [List.length_tail]; omega)
    · split
      · exact hnulls false p.2.tail (by simp only [List.length_tail]; omega)
      · exact hnulls false p.2 (by omega)
  | bodyRet q =>
    cases S with
    | nil => exact inv_halt trivial
    | cons fr S =>
      simp only [List.length_cons] at h2
      simp only [step]
      refine expect_elim (inv_fail trivial) (fun hl => inv_fail ⟨hl, h1⟩) fun r hr => ?_
      have : r.length + 1 = ts.length := by rw [hr]; simp
      refine orHalt_elim2 (fun e he => sub_err (parseAlias_ok _) (by omega) he) (inv_halt trivial) fun a ha => ?_
      have e2 := parseAlias_len ha
      exact afterTref_inv _ _ _ _ (by omega) (by omega)

theorem run_inv {n : Nat} : ∀ (k : Nat) (st : St), Inv n st → Inv n (run k st) := by
  intro k
  induction k with
  | zero => intro st h; exact h
  | succ k ih => intro st h; exact ih _ (step_inv st h)

theorem inv_init (ts : List Tok) : Inv ts.length (init ts) := by
  have hl := dropSemis_len ts
  unfold init
  split
  · next r hr =>
    rw [hr] at hl
    simp only [List.length_cons] at hl
    exact inv_mk (by omega) (by simp [MAX_SELECT_DEPTH]) trivial
  · exact inv_halt trivial

end Neumann.Parse.Clause
