import NeumannModel.Parse.Exec
/-
  Lemmas for ExecProps: comparator laws (the closure of `sort_rows` is a total preorder), the stable
  insertion sort (permutation, sortedness, stability), OFFSET / LIMIT as `drop` / `take`.
-/
namespace Neumann.Parse.Exec

/-! ### comparators -/

/-- what makes an `Ordering`-valued function the comparator of a total preorder -/
structure Law {α : Type} (cmp : α → α → Ordering) : Prop where
  swap : ∀ a b, cmp b a = (cmp a b).swap
  ltTrans : ∀ a b c, cmp a b = .lt → cmp b c = .lt → cmp a c = .lt
  eqCongr : ∀ a b c, cmp a b = .eq → cmp a c = cmp b c

namespace Law
variable {α : Type} {cmp : α → α → Ordering}

theorem refl (h : Law cmp) (a : α) : cmp a a = .eq := by
  have := h.swap a a
  cases hc : cmp a a <;> simp [hc, Ordering.swap] at this ⊢

theorem eqSymm (h : Law cmp) {a b : α} (hab : cmp a b = .eq) : cmp b a = .eq := by
  rw [h.swap a b, hab]; rfl

theorem gt_of_lt (h : Law cmp) {a b : α} (hab : cmp a b = .lt) : cmp b a = .gt := by
  rw [h.swap a b, hab]; rfl

theorem lt_of_gt (h : Law cmp) {a b : α} (hab : cmp a b = .gt) : cmp b a = .lt := by
  rw [h.swap a b, hab]; rfl

/-- congruence in the second argument -/
theorem eqCongr' (h : Law cmp) {b c : α} (a : α) (hbc : cmp b c = .eq) : cmp a b = cmp a c := by
  have h1 := h.eqCongr b c a hbc
  rw [h.swap b a, h.swap c a, h1]

theorem leTrans (h : Law cmp) {a b c : α} (hab : cmp a b ≠ .gt) (hbc : cmp b c ≠ .gt) : cmp a c ≠ .gt := by
  cases h1 : cmp a b with
  | gt => exact absurd h1 hab
  | lt =>
    cases h2 : cmp b c with
    | gt => exact absurd h2 hbc
    | lt => rw [h.ltTrans a b c h1 h2]; simp
    | eq => rw [← h.eqCongr' a h2, h1]; simp
  | eq =>
    rw [h.eqCongr a b c h1]; exact hbc

theorem swapped (h : Law cmp) : Law (fun a b => (cmp a b).swap) where
  swap a b := by rw [h.swap a b]
  ltTrans a b c h1 h2 := by
    have e1 : cmp a b = .gt := by cases hc : cmp a b <;> simp [hc, Ordering.swap] at h1 ⊢
    have e2 : cmp b c = .gt := by cases hc : cmp b c <;> simp [hc, Ordering.swap] at h2 ⊢
    have := h.ltTrans c b a (h.lt_of_gt e2) (h.lt_of_gt e1)
    rw [h.gt_of_lt this]; rfl
  eqCongr a b c h1 := by
    have e1 : cmp a b = .eq := by cases hc : cmp a b <;> simp [hc, Ordering.swap] at h1 ⊢
    rw [h.eqCongr a b c e1]

theorem comap {β : Type} (h : Law cmp) (f : β → α) : Law (fun a b => cmp (f a) (f b)) where
  swap a b := h.swap (f a) (f b)
  ltTrans a b c := h.ltTrans (f a) (f b) (f c)
  eqCongr a b c := h.eqCongr (f a) (f b) (f c)

theorem const : Law (fun (_ _ : α) => Ordering.eq) where
  swap _ _ := rfl
  ltTrans _ _ _ h := by cases h
  eqCongr _ _ _ _ := rfl

/-- first comparator decides unless it answers `Equal` -/
def lexCmp (c1 c2 : α → α → Ordering) (a b : α) : Ordering :=
  match c1 a b with
  | .eq => c2 a b
  | o => o

theorem lex {c1 c2 : α → α → Ordering} (h1 : Law c1) (h2 : Law c2) : Law (lexCmp c1 c2) where
  swap a b := by
    unfold lexCmp
    rw [h1.swap a b, h2.swap a b]
    cases c1 a b <;> rfl
  ltTrans a b c hab hbc := by
    unfold lexCmp at hab hbc ⊢
    cases e1 : c1 a b with
    | gt => rw [e1] at hab; cases hab
    | lt =>
      cases e2 : c1 b c with
      | gt => rw [e2] at hbc; cases hbc
      | lt => rw [h1.ltTrans a b c e1 e2]
      | eq => rw [← h1.eqCongr' a e2, e1]
    | eq =>
      rw [e1] at hab
      rw [h1.eqCongr a b c e1]
      cases e2 : c1 b c with
      | gt => rw [e2] at hbc; cases hbc
      | lt => rfl
      | eq => rw [e2] at hbc; exact h2.ltTrans a b c hab hbc
  eqCongr a b c hab := by
    unfold lexCmp at hab ⊢
    cases e1 : c1 a b with
    | gt => rw [e1] at hab; cases hab
    | lt => rw [e1] at hab; cases hab
    | eq =>
      rw [e1] at hab
      rw [h1.eqCongr a b c e1, h2.eqCongr a b c hab]

end Law

theorem law_cmpInt : Law cmpInt where
  swap a b := by
    unfold cmpInt
    by_cases h1 : a < b
    · have : ¬ b < a := by omega
      have : ¬ b = a := by omega
      simp [*, Ordering.swap]
    · by_cases h2 : a = b
      · subst h2; simp [Ordering.swap]
      · have : b < a := by omega
        simp [*, Ordering.swap]
  ltTrans a b c h1 h2 := by
    unfold cmpInt at *
    have hab : a < b := by
      by_cases h : a < b
      · exact h
      · by_cases h' : a = b <;> simp [h, h'] at h1
    have hbc : b < c := by
      by_cases h : b < c
      · exact h
      · by_cases h' : b = c <;> simp [h, h'] at h2
    have : a < c := by omega
    simp [this]
  eqCongr a b c h1 := by
    unfold cmpInt at h1
    have hab : a = b := by
      by_cases h : a < b
      · simp [h] at h1
      · by_cases h' : a = b
        · exact h'
        · simp [h, h'] at h1
    rw [hab]

/-- `compare_values_with_nulls` on the filtered keys (`Cell.filterNull`): the order ORDER BY means -/
def cmpKey (a b : Option Int) (nf : Bool) : Ordering :=
  match a, b with
  | none, none => .eq
  | none, some _ => if nf then .lt else .gt
  | some _, none => if nf then .gt else .lt
  | some x, some y => cmpInt x y

theorem law_cmpKey (nf : Bool) : Law (fun a b => cmpKey a b nf) where
  swap a b := by
    cases a <;> cases b <;> cases nf <;> first | rfl | exact law_cmpInt.swap _ _
  ltTrans a b c h1 h2 := by
    cases a <;> cases b <;> cases c <;> cases nf <;> simp [cmpKey] at h1 h2 ⊢
    all_goals exact law_cmpInt.ltTrans _ _ _ h1 h2
  eqCongr a b c h1 := by
    cases a <;> cases b <;> cases c <;> cases nf <;> simp [cmpKey] at h1 ⊢
    all_goals exact law_cmpInt.eqCongr _ _ _ h1

/-- the code's comparison IS the comparison of the filtered keys, for every pair of cells -/
theorem cmpNulls_eq_cmpKey (a b : Cell) (nf : Bool) :
    cmpNulls a b nf = cmpKey a.filterNull b.filterNull nf := by
  unfold cmpNulls cmpKey; rfl

theorem cmpItem_eq (it : OrderItem) :
    cmpItem it = (if it.desc
      then (fun a b => (cmpKey (a.get it.col).filterNull (b.get it.col).filterNull (it.nulls.getD false)).swap)
      else (fun a b => cmpKey (a.get it.col).filterNull (b.get it.col).filterNull (it.nulls.getD false))) := by
  funext a b
  unfold cmpItem
  rw [cmpNulls_eq_cmpKey]
  cases it.desc <;> rfl

theorem law_cmpItem (it : OrderItem) : Law (cmpItem it) := by
  rw [cmpItem_eq]
  have base := (law_cmpKey (it.nulls.getD false)).comap (fun r : Row => (r.get it.col).filterNull)
  cases it.desc
  · exact base
  · exact base.swapped

theorem cmpRows_cons (it : OrderItem) (its : List OrderItem) :
    cmpRows (it :: its) = Law.lexCmp (cmpItem it) (cmpRows its) := by
  funext a b
  rw [cmpRows]
  unfold Law.lexCmp
  cases cmpItem it a b <;> rfl

/-- the closure `sort_rows` hands to `sort_by` is the comparator of a total preorder — on ALL rows -/
theorem law_cmpRows (order : List OrderItem) : Law (cmpRows order) := by
  induction order with
  | nil =>
    have : cmpRows [] = (fun _ _ => Ordering.eq) := by funext a b; rfl
    rw [this]; exact Law.const
  | cons it its ih =>
    rw [cmpRows_cons]
    exact Law.lex (law_cmpItem it) ih

/-! ### the pre-repair comparator: equal to the code's wherever it was an order -/

/-- the pairs on which the pre-repair comparison was NOT the comparison of the filtered keys -/
def Cell.clash (a b : Cell) : Bool :=
  match a, b with
  | .absent, .null => true
  | .null, .absent => true
  | _, _ => false

theorem cmpNullsOld_eq_cmpNulls (a b : Cell) (nf : Bool) (h : a.clash b = false) :
    cmpNullsOld a b nf = cmpNulls a b nf := by
  cases a <;> cases b <;> simp [Cell.clash] at h <;> rfl

theorem no_clash_of_not_mixed (rows : List Row) (c : Nat) (h : mixedCol rows c = false) (a b : Row)
    (ha : a ∈ rows) (hb : b ∈ rows) : (a.get c).clash (b.get c) = false := by
  cases hc : (a.get c).clash (b.get c) with
  | false => rfl
  | true =>
    exfalso
    have hm : mixedCol rows c = true := by
      unfold mixedCol
      rw [Bool.and_eq_true, List.any_eq_true, List.any_eq_true]
      cases hac : a.get c <;> cases hbc : b.get c <;> simp [hac, hbc, Cell.clash] at hc
      · exact ⟨⟨a, ha, by simp [hac]⟩, ⟨b, hb, by simp [hbc]⟩⟩
      · exact ⟨⟨b, hb, by simp [hbc]⟩, ⟨a, ha, by simp [hac]⟩⟩
    rw [h] at hm; cases hm

theorem cmpRowsOld_eq_cmpRows (order : List OrderItem) (rows : List Row) (h : consistent order rows = true)
    (a b : Row) (ha : a ∈ rows) (hb : b ∈ rows) : cmpRowsOld order a b = cmpRows order a b := by
  induction order with
  | nil => rfl
  | cons it its ih =>
    unfold consistent at h
    rw [List.all_cons, Bool.and_eq_true] at h
    have hit : mixedCol rows it.col = false := by simpa using h.1
    have e : cmpItemOld it a b = cmpItem it a b := by
      unfold cmpItemOld cmpItem
      rw [cmpNullsOld_eq_cmpNulls _ _ _ (no_clash_of_not_mixed rows it.col hit a b ha hb)]
    rw [cmpRowsOld, cmpRows, e, ih h.2]

/-! ### the stable sort -/

section SortSec
variable {α : Type} (cmp : α → α → Ordering)

theorem insertBy_perm (x : α) (l : List α) : (insertBy cmp x l).Perm (x :: l) := by
  induction l with
  | nil => exact List.Perm.refl _
  | cons y ys ih =>
    unfold insertBy
    by_cases h : cmp x y = .gt
    · rw [if_pos h]
      exact (List.Perm.cons y ih).trans (List.Perm.swap x y ys)
    · rw [if_neg h]

theorem sortBy_perm (l : List α) : (sortBy cmp l).Perm l := by
  induction l with
  | nil => exact List.Perm.refl _
  | cons x xs ih =>
    unfold sortBy
    exact (insertBy_perm cmp x _).trans (List.Perm.cons x ih)

/-- no element is greater than a later one -/
def Sorted (l : List α) : Prop := l.Pairwise (fun a b => cmp a b ≠ .gt)

theorem insertBy_sorted (h : Law cmp) (x : α) (l : List α) (hl : Sorted cmp l) :
    Sorted cmp (insertBy cmp x l) := by
  induction l with
  | nil => simp [insertBy, Sorted]
  | cons y ys ih =>
    unfold Sorted at hl
    rw [List.pairwise_cons] at hl
    unfold insertBy
    by_cases hxy : cmp x y = .gt
    · rw [if_pos hxy]
      unfold Sorted
      rw [List.pairwise_cons]
      refine ⟨?_, ih hl.2⟩
      intro z hz
      have hz' := (insertBy_perm cmp x ys).mem_iff.mp hz
      rcases List.mem_cons.mp hz' with rfl | hz''
      · rw [h.lt_of_gt hxy]; simp
      · exact hl.1 z hz''
    · rw [if_neg hxy]
      unfold Sorted
      rw [List.pairwise_cons, List.pairwise_cons]
      refine ⟨?_, hl.1, hl.2⟩
      intro z hz
      rcases List.mem_cons.mp hz with rfl | hz'
      · exact hxy
      · exact h.leTrans hxy (hl.1 z hz')

theorem sortBy_sorted (h : Law cmp) (l : List α) : Sorted cmp (sortBy cmp l) := by
  induction l with
  | nil => simp [sortBy, Sorted]
  | cons x xs ih =>
    unfold sortBy
    exact insertBy_sorted cmp h x _ ih

theorem insertBy_filter_pos (p : α → Bool) (x : α) (l : List α) (hx : p x = true)
    (hcls : ∀ y, p y = true → cmp x y ≠ .gt) :
    (insertBy cmp x l).filter p = x :: l.filter p := by
  induction l with
  | nil => simp [insertBy, hx]
  | cons y ys ih =>
    unfold insertBy
    by_cases hxy : cmp x y = .gt
    · rw [if_pos hxy]
      have hy : p y = false := by
        cases hp : p y
        · rfl
        · exact absurd hxy (hcls y hp)
      rw [List.filter_cons, hy, List.filter_cons, hy]
      simpa using ih
    · rw [if_neg hxy, List.filter_cons, hx]
      simp

theorem insertBy_filter_neg (p : α → Bool) (x : α) (l : List α) (hx : p x = false) :
    (insertBy cmp x l).filter p = l.filter p := by
  induction l with
  | nil => simp [insertBy, hx]
  | cons y ys ih =>
    unfold insertBy
    by_cases hxy : cmp x y = .gt
    · rw [if_pos hxy, List.filter_cons, List.filter_cons (xs := ys), ih]
    · rw [if_neg hxy, List.filter_cons, hx]
      simp

/-- stability: the elements of one equivalence class keep the order they came in -/
theorem sortBy_filter (p : α → Bool) (hcls : ∀ a b, p a = true → p b = true → cmp a b ≠ .gt) (l : List α) :
    (sortBy cmp l).filter p = l.filter p := by
  induction l with
  | nil => rfl
  | cons x xs ih =>
    unfold sortBy
    cases hx : p x
    · rw [insertBy_filter_neg cmp p x _ hx, ih, List.filter_cons, hx]; simp
    · rw [insertBy_filter_pos cmp p x _ hx (fun y hy => hcls x y hx hy), ih, List.filter_cons, hx]; simp

theorem insertBy_all_eq (hc : ∀ a b, cmp a b = .eq) (x : α) (l : List α) : insertBy cmp x l = x :: l := by
  cases l with
  | nil => rfl
  | cons y ys => unfold insertBy; rw [hc x y]; simp

theorem sortBy_all_eq (hc : ∀ a b, cmp a b = .eq) (l : List α) : sortBy cmp l = l := by
  induction l with
  | nil => rfl
  | cons x xs ih => unfold sortBy; rw [ih, insertBy_all_eq cmp hc]

theorem insertBy_congr (cmp' : α → α → Ordering) (x : α) (l : List α) (h : ∀ y ∈ l, cmp x y = cmp' x y) :
    insertBy cmp x l = insertBy cmp' x l := by
  induction l with
  | nil => rfl
  | cons y ys ih =>
    unfold insertBy
    rw [h y (List.mem_cons_self ..), ih (fun z hz => h z (List.mem_cons_of_mem _ hz))]

/-- two comparators that agree on the elements of the list sort it alike -/
theorem sortBy_congr (cmp' : α → α → Ordering) (l : List α) (h : ∀ a ∈ l, ∀ b ∈ l, cmp a b = cmp' a b) :
    sortBy cmp l = sortBy cmp' l := by
  induction l with
  | nil => rfl
  | cons x xs ih =>
    unfold sortBy
    rw [ih (fun a ha b hb => h a (List.mem_cons_of_mem _ ha) b (List.mem_cons_of_mem _ hb))]
    apply insertBy_congr
    intro y hy
    have hy' : y ∈ xs := (sortBy_perm cmp' xs).mem_iff.mp hy
    exact h x (List.mem_cons_self ..) y (List.mem_cons_of_mem _ hy')

end SortSec

/-! ### OFFSET / LIMIT -/

/-- rows an OFFSET clause skips -/
def offN : Clause → Nat
  | .lit o => o
  | _ => 0

theorem applyOffset_eq_drop {α : Type} (c : Clause) (rows : List α) : applyOffset c rows = rows.drop (offN c) := by
  cases c with
  | absent => simp [applyOffset, offN]
  | other => simp [applyOffset, offN]
  | lit o =>
    simp only [applyOffset, offN]
    by_cases h : o < rows.length
    · rw [if_pos h]
    · rw [if_neg h]
      exact (List.drop_eq_nil_of_le (by omega)).symm

/-- the rows in the order the statement asks for, before OFFSET / LIMIT -/
def ordered (s : Sel) (base : List Row) : List Row :=
  if s.order.isEmpty then base else sortRows s.order base

theorem selectTail_eq (s : Sel) (base : List Row) :
    selectTail s base = applyLimit s.limit ((ordered s base).drop (offN s.offset)) := by
  unfold selectTail ordered
  rw [applyOffset_eq_drop]

theorem ordered_eq_sortRows (s : Sel) (base : List Row) : ordered s base = sortRows s.order base := by
  unfold ordered
  cases h : s.order with
  | nil =>
    simp only [List.isEmpty_nil, if_true]
    exact (sortBy_all_eq (cmpRows []) (fun _ _ => rfl) base).symm
  | cons it its => simp

theorem sortRowsOld_eq_sortRows (order : List OrderItem) (rows : List Row) (h : consistent order rows = true) :
    sortRowsOld order rows = sortRows order rows :=
  sortBy_congr _ _ rows (fun a ha b hb => cmpRowsOld_eq_cmpRows order rows h a b ha hb)

end Neumann.Parse.Exec
