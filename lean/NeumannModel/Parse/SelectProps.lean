import NeumannModel.Parse.SelectLemmas
/-
  C15 — property theorems for the SELECT-skeleton model (`Parse/Select.lean`): the second depth
  counter of `neumann_parser/src/parser.rs`, `select_depth` / `MAX_SELECT_DEPTH = 64`, which bounds
  the recursion `parse_select_body → parse_table_ref | parse_exists_expr → parse_select_body`.
  ONLY property statements and their non-vacuity examples live here.

  Scope: `SELECT * [FROM t | FROM ( SELECT … )] [WHERE EXISTS ( SELECT … )]`, arbitrarily nested.
  All statements are for ALL skeleton trees / ALL token lists over the skeleton alphabet; the only
  hypotheses are the depth limit the code itself imposes.  Inputs that leave the fragment are
  answered `Res.outside` by the model and no theorem says anything about the real parser there.
-/
namespace Neumann.Parse.SelectProps
open Neumann.Parse Neumann.Parse.Sel

/-- Totality / fuel adequacy: the fuel `|ts| + 1` is never exhausted — every token list yields a
    tree, a genuine parse error, or `outside`. -/
theorem select_total (ts : List STok) : parseStmt ts ≠ .error .fuel := by
  unfold parseStmt parseStmtWith
  split
  · next r =>
    have h := (no_fuel MAX_SELECT_DEPTH MAX_DEPTH (Sel.fuelFor (.select :: r))).1 0 0 r
      (by simp [Sel.fuelFor]; omega)
    exact NF_bind h fun p _ => by simp [NF]
  · simp

/-- Determinism beyond "it is a function": the answer does not depend on how much fuel (≥ the
    adequate amount) the recursion is given. -/
theorem select_fuel_independent (ts : List STok) (f : Nat) (h : Sel.fuelFor ts ≤ f) :
    parseStmtWith MAX_SELECT_DEPTH MAX_DEPTH f ts = parseStmt ts := by
  unfold parseStmt parseStmtWith
  split
  · next r =>
    have hnf := (no_fuel MAX_SELECT_DEPTH MAX_DEPTH (Sel.fuelFor (.select :: r))).1 0 0 r
      (by simp [Sel.fuelFor]; omega)
    rw [mono_le MAX_SELECT_DEPTH MAX_DEPTH h 0 0 r hnf]
  · rfl

/-- Round trip: the text of every skeleton that needs at most `MAX_SELECT_DEPTH` nested
    `parse_select_body` frames parses back to exactly that skeleton. -/
theorem select_round_trip (q : Q) (h : sdepth q ≤ MAX_SELECT_DEPTH) :
    parseStmt (.select :: print q) = .ok q := by
  have hk := K MAX_SELECT_DEPTH MAX_DEPTH limits_ordered q (Sel.fuelFor (.select :: print q)) 0 0 [] rfl
    (by omega) (Nat.le_refl _) (by simp [Sel.fuelFor]; omega)
  rw [List.append_nil] at hk
  unfold parseStmt parseStmtWith
  simp only [hk, bind_ok]

/-- The depth hypothesis is exact: a skeleton that needs more than `MAX_SELECT_DEPTH` frames is
    rejected with `TooDeep` — never mis-parsed, never another error, never a stack overflow. -/
theorem select_too_deep (q : Q) (h : MAX_SELECT_DEPTH < sdepth q) :
    ∃ k, parseStmt (.select :: print q) = .error (.tooDeep k) := by
  obtain ⟨k, hk⟩ := TD MAX_SELECT_DEPTH MAX_DEPTH limits_ordered q (Sel.fuelFor (.select :: print q)) 0 0 []
    (by omega) (Nat.le_refl _) (by simp [Sel.fuelFor]; omega)
  rw [List.append_nil] at hk
  refine ⟨k, ?_⟩
  unfold parseStmt parseStmtWith
  simp only [hk, bind_error]

/-- …so the round trip holds exactly when the skeleton fits the limit. -/
theorem select_ok_iff (q : Q) :
    parseStmt (.select :: print q) = .ok q ↔ sdepth q ≤ MAX_SELECT_DEPTH := by
  constructor
  · intro h
    apply Nat.le_of_not_lt
    intro hlt
    obtain ⟨k, hk⟩ := select_too_deep q hlt
    rw [hk] at h
    cases h
  · exact select_round_trip q

/-- a concrete non-trivial skeleton:
    `SELECT * FROM ( SELECT * FROM t1 WHERE EXISTS ( SELECT * ) ) WHERE EXISTS ( SELECT * FROM ( SELECT * FROM t2 ) )` -/
def sample : Q := .both (.whereSub (some 1) (.leaf none)) (.fromSub (.leaf (some 2)))

example : sdepth sample ≤ MAX_SELECT_DEPTH := by decide
example : print sample =
    [.star, .fromKw, .lparen, .select, .star, .fromKw, .tbl 1, .whereKw, .existsKw, .lparen, .select,
     .star, .rparen, .rparen, .whereKw, .existsKw, .lparen, .select, .star, .fromKw, .lparen, .select,
     .star, .fromKw, .tbl 2, .rparen, .rparen] := by rfl
example : parseStmt (.select :: print sample) = .ok sample := by rfl
-- genuine errors, with positions
example : parseStmt [.select, .star, .fromKw, .lparen, .other] = .error (.unexpected .select 1) := by rfl
example : parseStmt [.select, .star, .fromKw] = .error (.eof .identifier) := by rfl
example : parseStmt [.select, .star, .whereKw, .existsKw, .lparen, .select, .star] = .error (.eof .rparen) := by rfl
example : parseStmt [.select, .star, .whereKw, .select] = .error (.unexpected .expression 1) := by rfl
-- the explicit domain boundary: implicit alias, binary `*`, non-EXISTS condition
example : parseStmt [.select, .star, .fromKw, .tbl 1, .tbl 2] = .outside := by rfl
example : parseStmt [.select, .star, .star] = .outside := by rfl
example : parseStmt [.select, .star, .whereKw, .tbl 0] = .outside := by rfl
-- `parse()` does not look beyond the statement
example : parseStmt [.select, .star, .rparen, .other, .select] = .ok (.leaf none) := by rfl

/-- Soundness of acceptance: whatever token list is accepted, it IS the text of the returned
    skeleton (followed by tokens `parse()` never looks at), and that skeleton fits the limit.
    Together with `select_round_trip` the accepted language of the fragment is characterised
    exactly. -/
theorem select_ok_is_print (ts : List STok) (q : Q) (h : parseStmt ts = .ok q) :
    (∃ rest, ts = .select :: (print q ++ rest)) ∧ sdepth q ≤ MAX_SELECT_DEPTH := by
  unfold parseStmt parseStmtWith at h
  split at h
  · next r =>
    simp only [bind_eq_ok] at h
    obtain ⟨⟨q', r'⟩, hb, hq⟩ := h
    simp only [Res.ok.injEq] at hq
    subst hq
    obtain ⟨e, d⟩ := (sound MAX_SELECT_DEPTH MAX_DEPTH _).1 _ _ _ _ _ hb
    exact ⟨⟨r', by rw [e]⟩, by omega⟩
  · simp at h

/-- Normal form: an accepted input means the same as the print of its own parse. -/
theorem select_normal_form (ts : List STok) (q : Q) (h : parseStmt ts = .ok q) :
    parseStmt (.select :: print q) = .ok q :=
  select_round_trip q (select_ok_is_print ts q h).2

example : parseStmt (.select :: (print sample ++ [.other, .rparen])) = .ok sample := by rfl

/-- Exact position of the limit on linear chains, in every mixture of the subquery sites
    (`FROM ( SELECT`, `WHERE EXISTS ( SELECT`, `FROM t WHERE EXISTS ( SELECT`): once
    `MAX_SELECT_DEPTH` bodies are open, `TooDeep` is raised at the first token of the next body —
    whatever that token is (also at end of input), whatever follows, and independently of how
    much deeper the chain would go. `rem` counts the tokens from that position to the end. -/
theorem select_chain_too_deep_exact (sites : List Site) (rest : List STok)
    (h : MAX_SELECT_DEPTH ≤ sites.length) :
    parseStmt (.select :: (openers sites ++ rest)) =
      .error (.tooDeep ((openers (sites.drop MAX_SELECT_DEPTH)).length + rest.length)) := by
  have hk := chain_td MAX_SELECT_DEPTH MAX_DEPTH limits_ordered sites
    (Sel.fuelFor (.select :: (openers sites ++ rest))) 0 0 rest (Nat.zero_le _) (by omega)
    (Nat.le_refl _) (by simp [Sel.fuelFor]; omega)
  unfold parseStmt parseStmtWith
  simp only [hk, bind_error, Nat.sub_zero]

/-- The closed form: the text of a chain of `|sites| + 1 ≥ 65` bodies around any inner skeleton is
    rejected exactly at the first token of body 65: what remains is the text of the chain from
    body 65 on plus the 64 closing parentheses. -/
theorem select_chain_closed_too_deep_exact (inner : Q) (sites : List Site)
    (h : MAX_SELECT_DEPTH ≤ sites.length) :
    parseStmt (.select :: print (chain inner sites)) =
      .error (.tooDeep ((print (chain inner (sites.drop MAX_SELECT_DEPTH))).length + MAX_SELECT_DEPTH)) := by
  rw [print_chain, List.append_assoc, select_chain_too_deep_exact sites _ h, print_chain]
  simp only [List.length_append, List.length_replicate, List.length_drop]
  congr 2
  omega

/-- A linear chain of `k` bodies parses iff `k ≤ MAX_SELECT_DEPTH`. -/
theorem select_chain_ok_iff (o : Option Nat) (sites : List Site) :
    parseStmt (.select :: print (chain (.leaf o) sites)) = .ok (chain (.leaf o) sites)
      ↔ sites.length + 1 ≤ MAX_SELECT_DEPTH := by
  rw [select_ok_iff, sdepth_chain]
  simp [sdepth]

/-- Inside the fragment the expression counter `depth` never exceeds `select_depth`, so
    `MAX_DEPTH` never fires first: the answer of the parser is the same for every expression
    limit `≥ MAX_SELECT_DEPTH` (in particular for "no expression limit at all"), for ALL token
    lists and all fuel. -/
theorem select_expr_counter_never_fires (ts : List STok) (maxE fuel : Nat)
    (h : MAX_SELECT_DEPTH ≤ maxE) :
    parseStmtWith MAX_SELECT_DEPTH maxE fuel ts = parseStmtWith MAX_SELECT_DEPTH MAX_DEPTH fuel ts := by
  unfold parseStmtWith
  split
  · next r =>
    rw [(ed_irrelevant MAX_SELECT_DEPTH maxE MAX_DEPTH h limits_ordered fuel).1 0 0 r (Nat.le_refl _)]
  · rfl

/-- the 63-site chains of the three kinds and an alternating one: 64 bodies -/
def sites63 (k : Nat) : List Site :=
  match k with
  | 0 => List.replicate 63 .frm
  | 1 => List.replicate 63 (.exi none)
  | 2 => List.replicate 63 (.exi (some 7))
  | _ => (List.range 63).map fun i => if i % 3 = 0 then .frm else if i % 3 = 1 then .exi none else .exi (some i)

example : MAX_SELECT_DEPTH ≤ (Site.frm :: sites63 3).length := by decide
example : MAX_SELECT_DEPTH < sdepth (chain (.leaf none) (Site.frm :: sites63 3)) := by decide
example : (sites63 3).length + 1 ≤ MAX_SELECT_DEPTH := by decide
set_option maxRecDepth 20000 in
example : (openers (sites63 3)).length = 336 := by decide
-- the boundary is exact: a chain of 64 bodies parses, a chain of 65 does not
set_option maxRecDepth 20000 in
example : parseStmt (.select :: print (chain (.leaf none) (sites63 0))) = .ok (chain (.leaf none) (sites63 0)) := by
  decide
set_option maxRecDepth 20000 in
example : parseStmt (.select :: print (chain (.leaf (some 1)) (sites63 3)))
    = .ok (chain (.leaf (some 1)) (sites63 3)) := by decide
set_option maxRecDepth 20000 in
example : parseStmt (.select :: print (chain (.leaf none) (.frm :: sites63 0))) = .error (.tooDeep 65) := by
  decide
set_option maxRecDepth 20000 in
example : parseStmt (.select :: print (chain (.leaf none) (.exi none :: sites63 1))) = .error (.tooDeep 65) := by
  decide
-- 64 openers followed by nothing: TooDeep at the end-of-input position
set_option maxRecDepth 20000 in
example : parseStmt (.select :: openers (.frm :: sites63 2)) = .error (.tooDeep 0) := by decide
-- …and it is the select counter, not the expression counter, that fires: with an expression limit
-- of 1000 the answer is the same
set_option maxRecDepth 20000 in
example : parseStmtWith MAX_SELECT_DEPTH 1000 400 (.select :: print (chain (.leaf none) (.exi none :: sites63 1)))
    = .error (.tooDeep 65) := by decide

end Neumann.Parse.SelectProps
