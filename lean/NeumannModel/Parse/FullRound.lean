import NeumannModel.Parse.FullLemmas
/-
  C15 — the round-trip machinery for the complete expression grammar model (`Parse/Full.lean`):
  a frame that finds `printWith extra e ++ X` builds exactly `e` and arrives at the top of its loop
  with `X` left.  Core Lean only (no Mathlib).
-/
namespace Neumann.Parse.Full

/-! ### the first token of a print -/

/-- the tokens a printed expression can start with -/
def startTok : Tok → Bool
  | .lit _ | .null | .ident _ | .kw _ | .agg _ | .op .mul | .op .sub | .lparen | .lbracket
  | .notKw | .tilde | .caseKw => true
  | _ => false

theorem wrap_true (ts X : List Tok) : wrap true ts ++ X = Tok.lparen :: (ts ++ Tok.rparen :: X) := by
  simp [wrap]
theorem wrap_false (ts : List Tok) : wrap false ts = ts := rfl

theorem wrap_head {b : Bool} {ts : List Tok} (h : ∃ t r, ts = t :: r ∧ startTok t = true) :
    ∃ t r, wrap b ts = t :: r ∧ startTok t = true := by
  cases b with
  | false => exact h
  | true => exact ⟨.lparen, ts ++ [.rparen], by simp [wrap], rfl⟩

theorem append_head {ts Y : List Tok} (h : ∃ t r, ts = t :: r ∧ startTok t = true) :
    ∃ t r, ts ++ Y = t :: r ∧ startTok t = true := by
  obtain ⟨t, r, e, hs⟩ := h
  exact ⟨t, r ++ Y, by rw [e]; rfl, hs⟩

theorem print_head (extra : E → Bool) : ∀ e : E, ∃ t r, printWith extra e = t :: r ∧ startTok t = true
  | .lit n => ⟨_, _, rfl, rfl⟩
  | .null => ⟨_, _, rfl, rfl⟩
  | .ident n => ⟨_, _, rfl, rfl⟩
  | .kwIdent n => ⟨_, _, rfl, rfl⟩
  | .wildcard => ⟨_, _, rfl, rfl⟩
  | .unit => ⟨_, _, rfl, rfl⟩
  | .tuple a b rest => ⟨_, _, rfl, rfl⟩
  | .un u x => ⟨unTok u, _, rfl, by cases u <;> rfl⟩
  | .bin l o r => by
      simp only [printWith]
      exact append_head (wrap_head (print_head extra l))
  | .isNull x neg => by
      simp only [printWith]
      exact append_head (wrap_head (print_head extra x))
  | .inList x neg items => by
      simp only [printWith]
      exact append_head (wrap_head (print_head extra x))
  | .between x neg lo hi => by
      simp only [printWith]
      exact append_head (wrap_head (print_head extra x))
  | .like x neg p => by
      simp only [printWith]
      exact append_head (wrap_head (print_head extra x))
  | .qual x n => by
      simp only [printWith]
      exact append_head (wrap_head (print_head extra x))
  | .qualWild kw n => ⟨identTok kw n, _, rfl, by cases kw <;> rfl⟩
  | .call f d args => ⟨calleeTok f, _, rfl, by cases f <;> rfl⟩
  | .array items => ⟨_, _, rfl, rfl⟩
  | .case operand c r rest els => ⟨_, _, rfl, rfl⟩

/-- the head of `wrap b (print e) ++ Y` is none of the tokens the callers test for -/
theorem wprint_head_ne (extra : E → Bool) (b : Bool) (e : E) (Y : List Tok) {t : Tok}
    (ht : startTok t = false) : (wrap b (printWith extra e) ++ Y).head? ≠ some t := by
  obtain ⟨t', r, h1, h2⟩ := append_head (Y := Y) (wrap_head (b := b) (print_head extra e))
  rw [h1]
  simp only [List.head?_cons, ne_eq, Option.some.injEq]
  intro h
  rw [h] at h2
  rw [h2] at ht
  cases ht

/-! ### single steps (the `start` ones are stated for an abstract `ts` so that `ts.length` stays put) -/

theorem start_atom {mode : Mode} {m : Nat} {S : List Frame} {ts : List Tok} {t : Tok} {r : List Tok} {e : E}
    (hts : ts = t :: r) (hd : S.length + 1 ≤ MAX_DEPTH) (ha : prefixArm t = .atom e) :
    step mode ⟨.start m, S, ts⟩ = ⟨.loop m ts.length e, S, r⟩ := by
  have : ¬ (S.length + 1 > MAX_DEPTH) := by omega
  subst hts; simp [step, stepStart, this, ha]

theorem start_wildcard {mode : Mode} {m : Nat} {S : List Frame} {ts r : List Tok}
    (hts : ts = .op .mul :: r) (hd : S.length + 1 ≤ MAX_DEPTH) :
    step mode ⟨.start m, S, ts⟩ = ⟨.loop m ts.length .wildcard, S, r⟩ := by
  have : ¬ (S.length + 1 > MAX_DEPTH) := by omega
  subst hts; simp [step, stepStart, this, prefixArm]

theorem start_ident {mode : Mode} {m n : Nat} {S : List Frame} {ts r : List Tok}
    (hts : ts = .ident n :: r) (hd : S.length + 1 ≤ MAX_DEPTH) (hr : r.head? ≠ some .lparen) :
    step mode ⟨.start m, S, ts⟩ = ⟨.loop m ts.length (.ident n), S, r⟩ := by
  have : ¬ (S.length + 1 > MAX_DEPTH) := by omega
  subst hts; simp [step, stepStart, this, prefixArm, hr]

theorem start_unit {mode : Mode} {m : Nat} {S : List Frame} {ts r : List Tok}
    (hts : ts = .lparen :: .rparen :: r) (hd : S.length + 1 ≤ MAX_DEPTH) :
    step mode ⟨.start m, S, ts⟩ = ⟨.loop m ts.length .unit, S, r⟩ := by
  have : ¬ (S.length + 1 > MAX_DEPTH) := by omega
  subst hts; simp [step, stepStart, this, prefixArm]

theorem start_paren {mode : Mode} {m : Nat} {S : List Frame} {ts r : List Tok}
    (hts : ts = .lparen :: r) (hd : S.length + 1 ≤ MAX_DEPTH) (hr : r.head? ≠ some .rparen) :
    step mode ⟨.start m, S, ts⟩ = ⟨.start 0, ⟨.paren, m, ts.length⟩ :: S, r⟩ := by
  have : ¬ (S.length + 1 > MAX_DEPTH) := by omega
  subst hts; simp [step, stepStart, this, prefixArm, hr]

theorem start_unary {mode : Mode} {m : Nat} {S : List Frame} {u : UnOp} {ts r : List Tok}
    (hts : ts = unTok u :: r) (hd : S.length + 1 ≤ MAX_DEPTH) :
    step mode ⟨.start m, S, ts⟩ = ⟨.start PREFIX_BP, ⟨.unary u, m, ts.length⟩ :: S, r⟩ := by
  have : ¬ (S.length + 1 > MAX_DEPTH) := by omega
  subst hts; cases u <;> simp [step, stepStart, this, prefixArm, unTok]

theorem start_array_nil {mode : Mode} {m : Nat} {S : List Frame} {ts r : List Tok}
    (hts : ts = .lbracket :: .rbracket :: r) (hd : S.length + 1 ≤ MAX_DEPTH) :
    step mode ⟨.start m, S, ts⟩ = ⟨.loop m ts.length (.array .nil), S, r⟩ := by
  have : ¬ (S.length + 1 > MAX_DEPTH) := by omega
  subst hts; simp [step, stepStart, this, prefixArm]

theorem start_array {mode : Mode} {m : Nat} {S : List Frame} {ts r : List Tok}
    (hts : ts = .lbracket :: r) (hd : S.length + 1 ≤ MAX_DEPTH) (hr : r.head? ≠ some .rbracket) :
    step mode ⟨.start m, S, ts⟩ = ⟨.start 0, ⟨.list .arr .nil, m, ts.length⟩ :: S, r⟩ := by
  have : ¬ (S.length + 1 > MAX_DEPTH) := by omega
  subst hts; simp [step, stepStart, this, prefixArm, hr]

theorem start_call_nil {mode : Mode} {m : Nat} {S : List Frame} {f : Callee} {d : Bool} {ts r : List Tok}
    (hts : ts = calleeTok f :: .lparen :: (distinctToks d ++ .rparen :: r)) (hd : S.length + 1 ≤ MAX_DEPTH) :
    step mode ⟨.start m, S, ts⟩ = ⟨.loop m ts.length (.call f d .nil), S, r⟩ := by
  have : ¬ (S.length + 1 > MAX_DEPTH) := by omega
  subst hts
  cases f <;> cases d <;>
    simp [step, stepStart, this, prefixArm, calleeTok, callFrom, expect, eat, distinctToks]

theorem start_call {mode : Mode} {m : Nat} {S : List Frame} {f : Callee} {d : Bool} {ts r : List Tok}
    (hts : ts = calleeTok f :: .lparen :: (distinctToks d ++ r)) (hd : S.length + 1 ≤ MAX_DEPTH)
    (hr : r.head? ≠ some .rparen) (hr2 : r.head? ≠ some .distinctKw) :
    step mode ⟨.start m, S, ts⟩ = ⟨.start 0, ⟨.list (.args f d) .nil, m, ts.length⟩ :: S, r⟩ := by
  have : ¬ (S.length + 1 > MAX_DEPTH) := by omega
  subst hts
  cases r with
  | nil => cases f <;> cases d <;>
      simp [step, stepStart, this, prefixArm, calleeTok, callFrom, expect, eat, distinctToks]
  | cons t r =>
    have h1 : t ≠ .rparen := by simpa using hr
    have h2 : t ≠ .distinctKw := by simpa using hr2
    cases f <;> cases d <;>
      simp [step, stepStart, this, prefixArm, calleeTok, callFrom, expect, eat, distinctToks, h1, h2]

theorem start_case_when {mode : Mode} {m : Nat} {S : List Frame} {ts r : List Tok}
    (hts : ts = .caseKw :: .whenKw :: r) (hd : S.length + 1 ≤ MAX_DEPTH) :
    step mode ⟨.start m, S, ts⟩ = ⟨.start 0, ⟨.caseCond .none .nil, m, ts.length⟩ :: S, r⟩ := by
  have : ¬ (S.length + 1 > MAX_DEPTH) := by omega
  subst hts; simp [step, stepStart, this, prefixArm, caseNext]

theorem start_case_operand {mode : Mode} {m : Nat} {S : List Frame} {ts r : List Tok}
    (hts : ts = .caseKw :: r) (hd : S.length + 1 ≤ MAX_DEPTH) (hr : r.head? ≠ some .whenKw) :
    step mode ⟨.start m, S, ts⟩ = ⟨.start 0, ⟨.caseOperand, m, ts.length⟩ :: S, r⟩ := by
  have : ¬ (S.length + 1 > MAX_DEPTH) := by omega
  subst hts; simp [step, stepStart, this, prefixArm, hr]

theorem start_qualWild {mode : Mode} {m n : Nat} {kw : Bool} {S : List Frame} {ts r : List Tok}
    (hts : ts = identTok kw n :: .dot :: .op .mul :: r) (hd : S.length + 1 ≤ MAX_DEPTH) :
    Reach mode ⟨.start m, S, ts⟩ ⟨.loop m ts.length (.qualWild kw n), S, r⟩ := by
  have : ¬ (S.length + 1 > MAX_DEPTH) := by omega
  subst hts
  cases kw
  · refine Reach.head
      (b := ⟨.loop m (identTok false n :: Tok.dot :: Tok.op .mul :: r).length (.ident n), S, .dot :: .op .mul :: r⟩)
      ?_ (Reach.one ?_)
    · simp [step, stepStart, this, prefixArm, identTok]
    · simp [step, stepLoop, loopArm]
  · refine Reach.head
      (b := ⟨.loop m (identTok true n :: Tok.dot :: Tok.op .mul :: r).length (.kwIdent n), S, .dot :: .op .mul :: r⟩)
      ?_ (Reach.one ?_)
    · simp [step, stepStart, this, prefixArm, identTok]
    · simp [step, stepLoop, loopArm]

theorem ret_unary {mode : Mode} {e : E} {u : UnOp} {m s : Nat} {S : List Frame} {ts : List Tok} :
    step mode ⟨.ret e, ⟨.unary u, m, s⟩ :: S, ts⟩ = ⟨.loop m s (.un u e), S, ts⟩ := rfl

theorem ret_paren {mode : Mode} {e : E} {m s : Nat} {S : List Frame} {r : List Tok} :
    step mode ⟨.ret e, ⟨.paren, m, s⟩ :: S, .rparen :: r⟩ = ⟨.loop m s e, S, r⟩ := by
  simp [step, stepRet, expect]

theorem ret_paren_comma {mode : Mode} {e : E} {m s : Nat} {S : List Frame} {r : List Tok} :
    step mode ⟨.ret e, ⟨.paren, m, s⟩ :: S, .comma :: r⟩
      = ⟨.start 0, ⟨.list .tup (.cons e .nil), m, s⟩ :: S, r⟩ := by
  simp [step, stepRet]

theorem ret_list_comma {mode : Mode} {e : E} {lk : LK} {acc : EL} {m s : Nat} {S : List Frame} {r : List Tok} :
    step mode ⟨.ret e, ⟨.list lk acc, m, s⟩ :: S, .comma :: r⟩
      = ⟨.start 0, ⟨.list lk (acc.snoc e), m, s⟩ :: S, r⟩ := by
  simp [step, stepRet]

theorem ret_list_close {mode : Mode} {e : E} {lk : LK} {acc : EL} {m s : Nat} {S : List Frame} {r : List Tok} :
    step mode ⟨.ret e, ⟨.list lk acc, m, s⟩ :: S, lk.close :: r⟩
      = ⟨.loop m s (lk.build (acc.snoc e)), S, r⟩ := by
  cases lk <;> simp [step, stepRet, expect, LK.close]

theorem loop_bin {mode : Mode} {m s : Nat} {lhs : E} {S : List Frame} {o : BinOp} {r : List Tok}
    (h : ¬ lbp o < m) :
    step mode ⟨.loop m s lhs, S, .op o :: r⟩ = ⟨.start (rbp o), ⟨.binR lhs o, m, s⟩ :: S, r⟩ := by
  simp [step, stepLoop, loopArm, h]

theorem ret_binR {mode : Mode} {e l : E} {o : BinOp} {m s : Nat} {S : List Frame} {ts : List Tok} :
    step mode ⟨.ret e, ⟨.binR l o, m, s⟩ :: S, ts⟩ = ⟨.loop m s (.bin l o e), S, ts⟩ := rfl

theorem loop_is {mode : Mode} {m s : Nat} {lhs : E} {S : List Frame} {neg : Bool} {r : List Tok} :
    step mode ⟨.loop m s lhs, S, .isKw :: (negToks neg ++ .null :: r)⟩
      = ⟨.loop m s (.isNull lhs neg), S, r⟩ := by
  cases neg <;> simp [step, stepLoop, loopArm, eat, expect, negToks]

theorem loop_in_nil {mode : Mode} {m s : Nat} {lhs : E} {S : List Frame} {neg : Bool} {r : List Tok} :
    step mode ⟨.loop m s lhs, S, negToks neg ++ .inKw :: .lparen :: .rparen :: r⟩
      = ⟨.loop m s (.inList lhs neg .nil), S, r⟩ := by
  cases neg <;> cases mode <;> simp [step, stepLoop, loopArm, expect, negToks]

theorem loop_in {mode : Mode} {m s : Nat} {lhs : E} {S : List Frame} {neg : Bool} {r : List Tok}
    (hr : r.head? ≠ some .rparen) (hr2 : r.head? ≠ some .selectKw) :
    step mode ⟨.loop m s lhs, S, negToks neg ++ .inKw :: .lparen :: r⟩
      = ⟨.start 0, ⟨.list (.inl lhs neg) .nil, m, s⟩ :: S, r⟩ := by
  cases neg <;> cases mode <;> simp [step, stepLoop, loopArm, expect, negToks, hr, hr2]

theorem loop_between {mode : Mode} {m s : Nat} {lhs : E} {S : List Frame} {neg : Bool} {r : List Tok} :
    step mode ⟨.loop m s lhs, S, negToks neg ++ .betweenKw :: r⟩
      = ⟨.start PREFIX_BP, ⟨.betLo lhs neg, m, s⟩ :: S, r⟩ := by
  cases neg <;> simp [step, stepLoop, loopArm, negToks]

theorem ret_betLo {mode : Mode} {e subj : E} {neg : Bool} {m s : Nat} {S : List Frame} {r : List Tok} :
    step mode ⟨.ret e, ⟨.betLo subj neg, m, s⟩ :: S, .op .and :: r⟩
      = ⟨.start PREFIX_BP, ⟨.betHi subj neg e, m, s⟩ :: S, r⟩ := by
  simp [step, stepRet, expect]

theorem ret_betHi {mode : Mode} {e subj lo : E} {neg : Bool} {m s : Nat} {S : List Frame} {ts : List Tok} :
    step mode ⟨.ret e, ⟨.betHi subj neg lo, m, s⟩ :: S, ts⟩ = ⟨.loop m s (.between subj neg lo e), S, ts⟩ := rfl

theorem loop_like {mode : Mode} {m s : Nat} {lhs : E} {S : List Frame} {neg : Bool} {r : List Tok} :
    step mode ⟨.loop m s lhs, S, negToks neg ++ .likeKw :: r⟩
      = ⟨.start PREFIX_BP, ⟨.likeP lhs neg, m, s⟩ :: S, r⟩ := by
  cases neg <;> simp [step, stepLoop, loopArm, negToks]

theorem ret_likeP {mode : Mode} {e subj : E} {neg : Bool} {m s : Nat} {S : List Frame} {ts : List Tok} :
    step mode ⟨.ret e, ⟨.likeP subj neg, m, s⟩ :: S, ts⟩ = ⟨.loop m s (.like subj neg e), S, ts⟩ := rfl

theorem loop_dot_ident {mode : Mode} {m s n : Nat} {lhs : E} {S : List Frame} {r : List Tok} :
    step mode ⟨.loop m s lhs, S, .dot :: .ident n :: r⟩ = ⟨.loop m s (.qual lhs n), S, r⟩ := by
  simp [step, stepLoop, loopArm]

theorem ret_caseOperand {mode : Mode} {e : E} {m s : Nat} {S : List Frame} {r : List Tok} :
    step mode ⟨.ret e, ⟨.caseOperand, m, s⟩ :: S, .whenKw :: r⟩
      = ⟨.start 0, ⟨.caseCond (.some e) .nil, m, s⟩ :: S, r⟩ := by
  simp [step, stepRet, caseNext]

theorem ret_caseCond {mode : Mode} {e : E} {operand : OE} {acc : WL} {m s : Nat} {S : List Frame} {r : List Tok} :
    step mode ⟨.ret e, ⟨.caseCond operand acc, m, s⟩ :: S, .thenKw :: r⟩
      = ⟨.start 0, ⟨.caseRes operand acc e, m, s⟩ :: S, r⟩ := by
  simp [step, stepRet, expect]

theorem ret_caseRes_when {mode : Mode} {e c : E} {operand : OE} {acc : WL} {m s : Nat} {S : List Frame}
    {r : List Tok} :
    step mode ⟨.ret e, ⟨.caseRes operand acc c, m, s⟩ :: S, .whenKw :: r⟩
      = ⟨.start 0, ⟨.caseCond operand (acc.snoc c e), m, s⟩ :: S, r⟩ := by
  simp [step, stepRet, caseNext]

theorem ret_caseRes_else {mode : Mode} {e c c0 r0 : E} {rest : WL} {operand : OE} {acc : WL} {m s : Nat}
    {S : List Frame} {r : List Tok} (hacc : acc.snoc c e = .cons c0 r0 rest) :
    step mode ⟨.ret e, ⟨.caseRes operand acc c, m, s⟩ :: S, .elseKw :: r⟩
      = ⟨.start 0, ⟨.caseElse operand c0 r0 rest, m, s⟩ :: S, r⟩ := by
  simp [step, stepRet, caseNext, hacc]

theorem ret_caseRes_end {mode : Mode} {e c c0 r0 : E} {rest : WL} {operand : OE} {acc : WL} {m s : Nat}
    {S : List Frame} {r : List Tok} (hacc : acc.snoc c e = .cons c0 r0 rest) :
    step mode ⟨.ret e, ⟨.caseRes operand acc c, m, s⟩ :: S, .endKw :: r⟩
      = ⟨.loop m s (.case operand c0 r0 rest .none), S, r⟩ := by
  simp [step, stepRet, caseNext, hacc, expect]

theorem ret_caseElse {mode : Mode} {e c0 r0 : E} {rest : WL} {operand : OE} {m s : Nat}
    {S : List Frame} {r : List Tok} :
    step mode ⟨.ret e, ⟨.caseElse operand c0 r0 rest, m, s⟩ :: S, .endKw :: r⟩
      = ⟨.loop m s (.case operand c0 r0 rest (.some e)), S, r⟩ := by
  simp [step, stepRet, expect]

/-! ### what must follow a printed expression -/

/-- what must follow a printed expression for the frame that parsed its last operand to stop
    there (and, for an identifier, for it not to become a call) -/
def StopAbove : E → List Tok → Prop
  | .bin _ o _, X => headStops (rbp o) X
  | .un _ _, X => headStops PREFIX_BP X
  | .between _ _ _ _, X => headStops PREFIX_BP X
  | .like _ _ _, X => headStops PREFIX_BP X
  | .ident _, X => X.head? ≠ some .lparen
  | _, _ => True

theorem stopAbove_nil (e : E) : StopAbove e [] := by
  cases e <;> simp [StopAbove, headStops_nil]

theorem rbp_le_prefix (o : BinOp) : rbp o ≤ PREFIX_BP := by cases o <;> decide

/-- a token that stops every frame -/
theorem stopAbove_of_stops0 {x : E} {Y : List Tok} (h : headStops 0 Y) : StopAbove x Y := by
  cases x <;> simp only [StopAbove] <;> first | trivial | exact headStops_mono (Nat.zero_le _) h | exact h.2

/-- an operand parsed without parentheses by a fresh frame at `min_bp = k ≤ 19` -/
theorem stopAbove_operand {x : E} {k : Nat} {X : List Tok} (hk : k ≤ topBp x) (hk19 : k ≤ PREFIX_BP)
    (h : headStops k X) : StopAbove x X := by
  cases x <;> simp only [StopAbove] <;> first | trivial | exact headStops_mono hk19 h | exact h.2 | skip
  next l o r =>
    simp only [topBp] at hk
    exact headStops_mono (by have := rbp_eq o; omega) h

/-- a left operand written without parentheses before the operator `o` -/
theorem stopAbove_left {l : E} {o : BinOp} {Y : List Tok} (h : lbp o ≤ topBp l) :
    StopAbove l (.op o :: Y) := by
  cases l <;> simp only [StopAbove] <;> first | trivial | exact headStops_op (lbp_lt_prefix o) | simp | skip
  next a o1 b =>
    simp only [topBp] at h
    exact headStops_op (by have := rbp_eq o1; omega)

/-- the subject of a postfix form written without parentheses -/
theorem stopAbove_subject {x : E} {Y : List Tok} (h : openEnd x = false) (hY : Y.head? ≠ some .lparen) :
    StopAbove x Y := by
  cases x <;> simp only [StopAbove] <;> first | trivial | exact hY | simp [openEnd] at h

theorem or_dec_cases (c : Bool) (n k : Nat) : (c || decide (n < k)) = true ∨ k ≤ n := by
  by_cases h : n < k
  · left; simp [h]
  · right; omega

theorem or_dec_false {c : Bool} {n k : Nat} (h : (c || decide (n < k)) = false) : k ≤ n := by
  simp only [Bool.or_eq_false_iff, decide_eq_false_iff_not] at h
  omega

theorem wf_ge (b : Bool) (n : Nat) : n ≤ wf b n := by cases b <;> simp [wf]

theorem frames_pos (extra : E → Bool) : ∀ e : E, 1 ≤ framesWith extra e
  | .lit _ | .null | .ident _ | .kwIdent _ | .wildcard | .unit | .qualWild _ _ => by simp [framesWith]
  | .tuple _ _ _ | .un _ _ | .call _ _ _ | .array _ | .case _ _ _ _ _ => by simp only [framesWith]; omega
  | .bin _ _ _ | .inList _ _ _ | .between _ _ _ _ | .like _ _ _ => by simp only [framesWith]; omega
  | .isNull x _ => by
      have := frames_pos extra x
      have := wf_ge (extra x || openEnd x) (framesWith extra x)
      simp only [framesWith]; omega
  | .qual x _ => by
      have := frames_pos extra x
      have := wf_ge (extra x || openEnd x) (framesWith extra x)
      simp only [framesWith]; omega

/-! ### the round trip -/

/-- The statement proved by induction on the expression: a frame entered at depth `S.length` with
    `min_bp = m` that finds `print e ++ X` builds `e` and arrives at the top of its loop with `X`
    left, the frames below untouched. -/
def KProp (mode : Mode) (extra : E → Bool) (e : E) : Prop :=
  ∀ (m : Nat) (S : List Frame) (X ts : List Tok), ts = printWith extra e ++ X →
    m ≤ topBp e → StopAbove e X → S.length + framesWith extra e ≤ MAX_DEPTH →
    Reach mode ⟨.start m, S, ts⟩ ⟨.loop m ts.length e, S, X⟩

theorem headStops0_rparen (X : List Tok) : headStops 0 (.rparen :: X) := by simp [headStops, loopArm]
theorem headStops0_rbracket (X : List Tok) : headStops 0 (.rbracket :: X) := by simp [headStops, loopArm]
theorem headStops0_comma (X : List Tok) : headStops 0 (.comma :: X) := by simp [headStops, loopArm]
theorem headStops0_when (X : List Tok) : headStops 0 (.whenKw :: X) := by simp [headStops, loopArm]
theorem headStops0_then (X : List Tok) : headStops 0 (.thenKw :: X) := by simp [headStops, loopArm]
theorem headStops0_else (X : List Tok) : headStops 0 (.elseKw :: X) := by simp [headStops, loopArm]
theorem headStops0_end (X : List Tok) : headStops 0 (.endKw :: X) := by simp [headStops, loopArm]
theorem headStops0_close (lk : LK) (X : List Tok) : headStops 0 (lk.close :: X) := by
  cases lk <;> simp [headStops, loopArm, LK.close]

/-- an expression built inside the CURRENT frame (left operand, subject of a postfix form, or the
    whole content of the frame), parenthesised iff `b` -/
theorem subjectL {mode : Mode} {extra : E → Bool} {x : E} (ih : KProp mode extra x) (b : Bool) (m : Nat)
    (S : List Frame) (X ts : List Tok) (hts : ts = wrap b (printWith extra x) ++ X)
    (hb : b = true ∨ m ≤ topBp x) (hsa : b = false → StopAbove x X)
    (hd : S.length + wf b (framesWith extra x) ≤ MAX_DEPTH) :
    Reach mode ⟨.start m, S, ts⟩ ⟨.loop m ts.length x, S, X⟩ := by
  have hpos := frames_pos extra x
  cases b with
  | false =>
    simp only [wf, Bool.false_eq_true, if_false] at hd
    cases hb with
    | inl h => cases h
    | inr h => exact ih m S X ts hts h (hsa rfl) hd
  | true =>
    simp only [wf, if_true] at hd
    rw [wrap_true] at hts
    have h1 := start_paren (mode := mode) (m := m) (S := S) hts (by omega)
      (by have := wprint_head_ne extra false x (Tok.rparen :: X) (t := .rparen) rfl; simpa [wrap] using this)
    have hd2 : (({ k := K.paren, m := m, s := ts.length } : Frame) :: S).length + framesWith extra x ≤ MAX_DEPTH := by
      simp only [List.length_cons]; omega
    have h2 := ih 0 (⟨.paren, m, ts.length⟩ :: S) (.rparen :: X) (printWith extra x ++ .rparen :: X) rfl
      (Nat.zero_le _) (stopAbove_of_stops0 (headStops0_rparen X)) hd2
    exact Reach.head h1 (h2.trans (Reach.head (loop_stops (headStops0_rparen X)) (Reach.one ret_paren)))

/-- an operand parsed by a NEW frame at `min_bp = m'`, parenthesised iff `b`: the frame returns it -/
theorem operand {mode : Mode} {extra : E → Bool} {x : E} (ih : KProp mode extra x) (b : Bool) (m' : Nat)
    (S : List Frame) (X ts : List Tok) (hts : ts = wrap b (printWith extra x) ++ X)
    (hb : b = true ∨ m' ≤ topBp x) (hsa : b = false → StopAbove x X)
    (hd : S.length + wf b (framesWith extra x) ≤ MAX_DEPTH) (hstop : headStops m' X) :
    Reach mode ⟨.start m', S, ts⟩ ⟨.ret x, S, X⟩ :=
  (subjectL ih b m' S X ts hts hb hsa hd).trans (Reach.one (loop_stops hstop))

/-- a list item / CASE part: parsed at `min_bp = 0`, followed by a token that stops every frame -/
theorem item {mode : Mode} {extra : E → Bool} {x : E} (ih : KProp mode extra x) (b : Bool)
    (S : List Frame) (X ts : List Tok) (hts : ts = wrap b (printWith extra x) ++ X)
    (hd : S.length + wf b (framesWith extra x) ≤ MAX_DEPTH) (hstop : headStops 0 X) :
    Reach mode ⟨.start 0, S, ts⟩ ⟨.ret x, S, X⟩ :=
  operand ih b 0 S X ts hts (Or.inr (Nat.zero_le _)) (fun _ => stopAbove_of_stops0 hstop) hd hstop

/-- an operand at `min_bp = 19` (prefix operand, BETWEEN bound, LIKE pattern) -/
theorem operand19 {mode : Mode} {extra : E → Bool} {x : E} (ih : KProp mode extra x)
    (S : List Frame) (X ts : List Tok)
    (hts : ts = wrap (extra x || decide (topBp x < PREFIX_BP)) (printWith extra x) ++ X)
    (hd : S.length + wf (extra x || decide (topBp x < PREFIX_BP)) (framesWith extra x) ≤ MAX_DEPTH)
    (hstop : headStops PREFIX_BP X) :
    Reach mode ⟨.start PREFIX_BP, S, ts⟩ ⟨.ret x, S, X⟩ :=
  operand ih _ PREFIX_BP S X ts hts (or_dec_cases _ _ _)
    (fun hb => stopAbove_operand (or_dec_false hb) (Nat.le_refl _) hstop) hd hstop

/-- the subject of a postfix form -/
theorem subject {mode : Mode} {extra : E → Bool} {x : E} (ih : KProp mode extra x) (m : Nat)
    (S : List Frame) (Y ts : List Tok)
    (hts : ts = wrap (extra x || openEnd x) (printWith extra x) ++ Y)
    (hm : m ≤ 100) (hY : Y.head? ≠ some .lparen)
    (hd : S.length + wf (extra x || openEnd x) (framesWith extra x) ≤ MAX_DEPTH) :
    Reach mode ⟨.start m, S, ts⟩ ⟨.loop m ts.length x, S, Y⟩ := by
  refine subjectL ih _ m S Y ts hts ?_ ?_ hd
  · cases hb : (extra x || openEnd x) with
    | true => exact Or.inl rfl
    | false =>
      right
      simp only [Bool.or_eq_false_iff] at hb
      cases x <;> simp only [topBp] <;> first | exact hm | simp [openEnd] at hb
  · intro hb
    simp only [Bool.or_eq_false_iff] at hb
    exact stopAbove_subject hb.2 hY

/-- what `parse_case` builds from the clauses it has read (`acc` is never empty when it gets here) -/
def caseOf (operand : OE) : WL → OE → E
  | .nil, _ => .null
  | .cons c r rest, els => .case operand c r rest els

theorem snoc_ne_nil (acc : WL) (c r : E) : ∃ c0 r0 rest, acc.snoc c r = .cons c0 r0 rest := by
  cases acc with
  | nil => exact ⟨c, r, .nil, rfl⟩
  | cons c0 r0 l => exact ⟨c0, r0, l.snoc c r, rfl⟩

/-- the tail of a comma separated list, from the moment an item has been returned -/
def TailProp (mode : Mode) (extra : E → Bool) (l : EL) : Prop :=
  ∀ (lk : LK) (acc : EL) (e : E) (m s : Nat) (S : List Frame) (X ts : List Tok),
    ts = printTail extra l ++ lk.close :: X →
    (S.length + 1) + framesItems extra l ≤ MAX_DEPTH →
    Reach mode ⟨.ret e, ⟨.list lk acc, m, s⟩ :: S, ts⟩ ⟨.loop m s (lk.build ((acc.snoc e).append l)), S, X⟩

/-- the remaining WHEN clauses, ELSE and END of a CASE, from the moment a result has been returned -/
def WhensProp (mode : Mode) (extra : E → Bool) (l : WL) : Prop :=
  ∀ (operand : OE) (acc : WL) (c r : E) (els : OE) (m s : Nat) (S : List Frame) (X ts : List Tok),
    (∀ e, els = .some e → KProp mode extra e) →
    ts = printWhens extra l ++ (printElse extra els ++ .endKw :: X) →
    (S.length + 1) + max (framesWhens extra l) (framesOpt extra els) ≤ MAX_DEPTH →
    Reach mode ⟨.ret r, ⟨.caseRes operand acc c, m, s⟩ :: S, ts⟩
      ⟨.loop m s (caseOf operand ((acc.snoc c r).append l) els), S, X⟩

theorem tail_stops (extra : E → Bool) (l : EL) (lk : LK) (X : List Tok) :
    headStops 0 (printTail extra l ++ lk.close :: X) := by
  cases l with
  | nil => exact headStops0_close lk X
  | cons a l => simp only [printTail, List.cons_append]; exact headStops0_comma _

theorem whens_stop (extra : E → Bool) (l : WL) (els : OE) (X : List Tok) :
    headStops 0 (printWhens extra l ++ (printElse extra els ++ .endKw :: X)) := by
  cases l with
  | cons c r l => simp only [printWhens, List.cons_append]; exact headStops0_when _
  | nil =>
    cases els with
    | none => exact headStops0_end X
    | some e => simp only [printWhens, printElse, List.nil_append, List.cons_append]; exact headStops0_else _

/-- a non-empty comma separated list from its first item on -/
theorem list_items {mode : Mode} {extra : E → Bool} (lk : LK) (a : E) (l : EL) (m s : Nat)
    (S : List Frame) (X ts : List Tok) (ha : KProp mode extra a) (hl : TailProp mode extra l)
    (hts : ts = wrap (extra a) (printWith extra a) ++ (printTail extra l ++ lk.close :: X))
    (hd : (S.length + 1) + max (wf (extra a) (framesWith extra a)) (framesItems extra l) ≤ MAX_DEPTH) :
    Reach mode ⟨.start 0, ⟨.list lk .nil, m, s⟩ :: S, ts⟩ ⟨.loop m s (lk.build (.cons a l)), S, X⟩ := by
  have h1 := item ha (extra a) (⟨.list lk .nil, m, s⟩ :: S) (printTail extra l ++ lk.close :: X) ts hts
    (by simp only [List.length_cons]; omega) (tail_stops extra l lk X)
  have h2 := hl lk .nil a m s S X _ rfl (by omega)
  exact h1.trans h2

/-- a CASE from its first WHEN condition on -/
theorem case_tail {mode : Mode} {extra : E → Bool} (operand : OE) (c r : E) (rest : WL) (els : OE)
    (m s : Nat) (S : List Frame) (X ts : List Tok)
    (hc : KProp mode extra c) (hr : KProp mode extra r) (hrest : WhensProp mode extra rest)
    (hels : ∀ e, els = .some e → KProp mode extra e)
    (hts : ts = wrap (extra c) (printWith extra c) ++ (.thenKw :: (wrap (extra r) (printWith extra r)
      ++ (printWhens extra rest ++ (printElse extra els ++ .endKw :: X)))))
    (hd : (S.length + 1) + max (wf (extra c) (framesWith extra c)) (max (wf (extra r) (framesWith extra r))
      (max (framesWhens extra rest) (framesOpt extra els))) ≤ MAX_DEPTH) :
    Reach mode ⟨.start 0, ⟨.caseCond operand .nil, m, s⟩ :: S, ts⟩
      ⟨.loop m s (.case operand c r rest els), S, X⟩ := by
  have h1 := item hc (extra c) (⟨.caseCond operand .nil, m, s⟩ :: S) _ ts hts
    (by simp only [List.length_cons]; omega) (headStops0_then _)
  have h2 := ret_caseCond (mode := mode) (e := c) (operand := operand) (acc := .nil) (m := m) (s := s) (S := S)
    (r := wrap (extra r) (printWith extra r) ++ (printWhens extra rest ++ (printElse extra els ++ .endKw :: X)))
  have h3 := item hr (extra r) (⟨.caseRes operand .nil c, m, s⟩ :: S)
    (printWhens extra rest ++ (printElse extra els ++ .endKw :: X)) _ rfl
    (by simp only [List.length_cons]; omega) (whens_stop extra rest els X)
  have h4 := hrest operand .nil c r els m s S X _ hels rfl (by omega)
  exact h1.trans (Reach.head h2 (h3.trans h4))

mutual
theorem KE (mode : Mode) (extra : E → Bool) : ∀ e : E, KProp mode extra e
  | .lit n => by
      intro m S X ts hts _ _ hd
      simp only [framesWith] at hd
      simp only [printWith, List.cons_append, List.nil_append] at hts
      exact Reach.one (start_atom hts (by omega) rfl)
  | .null => by
      intro m S X ts hts _ _ hd
      simp only [framesWith] at hd
      simp only [printWith, List.cons_append, List.nil_append] at hts
      exact Reach.one (start_atom hts (by omega) rfl)
  | .kwIdent n => by
      intro m S X ts hts _ _ hd
      simp only [framesWith] at hd
      simp only [printWith, List.cons_append, List.nil_append] at hts
      exact Reach.one (start_atom hts (by omega) rfl)
  | .ident n => by
      intro m S X ts hts _ hsa hd
      simp only [framesWith] at hd
      simp only [printWith, List.cons_append, List.nil_append] at hts
      exact Reach.one (start_ident hts (by omega) hsa)
  | .wildcard => by
      intro m S X ts hts _ _ hd
      simp only [framesWith] at hd
      simp only [printWith, List.cons_append, List.nil_append] at hts
      exact Reach.one (start_wildcard hts (by omega))
  | .unit => by
      intro m S X ts hts _ _ hd
      simp only [framesWith] at hd
      simp only [printWith, List.cons_append, List.nil_append] at hts
      exact Reach.one (start_unit hts (by omega))
  | .qualWild kw n => by
      intro m S X ts hts _ _ hd
      simp only [framesWith] at hd
      simp only [printWith, List.cons_append, List.nil_append] at hts
      exact start_qualWild hts (by omega)
  | .un u x => by
      intro m S X ts hts _ hsa hd
      simp only [framesWith] at hd
      simp only [printWith, List.cons_append] at hts
      simp only [StopAbove] at hsa
      have h1 := start_unary (mode := mode) (m := m) (S := S) hts (by omega)
      have h2 := operand19 (KE mode extra x) (⟨.unary u, m, ts.length⟩ :: S) X _ rfl
        (by simp only [List.length_cons]; omega) hsa
      exact Reach.head h1 (h2.trans (Reach.one ret_unary))
  | .bin l o r => by
      intro m S X ts hts hm hsa hd
      simp only [framesWith] at hd
      simp only [topBp] at hm
      simp only [StopAbove] at hsa
      simp only [printWith, List.append_assoc, List.cons_append] at hts
      have h1 := subjectL (KE mode extra l) (extra l || decide (topBp l < lbp o)) m S _ ts hts
        (by rcases or_dec_cases (extra l) (topBp l) (lbp o) with h | h
            · exact Or.inl h
            · exact Or.inr (by omega))
        (fun hb => stopAbove_left (or_dec_false hb)) (by omega)
      have h2 := loop_bin (mode := mode) (s := ts.length) (lhs := l) (S := S)
        (r := wrap (extra r || decide (topBp r < rbp o)) (printWith extra r) ++ X) (show ¬ lbp o < m by omega)
      have h3 := operand (KE mode extra r) (extra r || decide (topBp r < rbp o)) (rbp o)
        (⟨.binR l o, m, ts.length⟩ :: S) X _ rfl (or_dec_cases _ _ _)
        (fun hb => stopAbove_operand (or_dec_false hb) (rbp_le_prefix o) hsa)
        (by simp only [List.length_cons]; omega) hsa
      exact h1.trans (Reach.head h2 (h3.trans (Reach.one ret_binR)))
  | .isNull x neg => by
      intro m S X ts hts hm _ hd
      simp only [framesWith] at hd
      simp only [topBp] at hm
      simp only [printWith, List.append_assoc, List.cons_append, List.nil_append] at hts
      have h1 := subject (KE mode extra x) m S _ ts hts hm (by simp) hd
      exact h1.trans (Reach.one loop_is)
  | .qual x n => by
      intro m S X ts hts hm _ hd
      simp only [framesWith] at hd
      simp only [topBp] at hm
      simp only [printWith, List.append_assoc, List.cons_append, List.nil_append] at hts
      have h1 := subject (KE mode extra x) m S _ ts hts hm (by simp) hd
      exact h1.trans (Reach.one loop_dot_ident)
  | .like x neg p => by
      intro m S X ts hts hm hsa hd
      simp only [framesWith] at hd
      simp only [topBp] at hm
      simp only [StopAbove] at hsa
      simp only [printWith, List.append_assoc, List.cons_append] at hts
      have h1 := subject (KE mode extra x) m S _ ts hts hm (by cases neg <;> simp [negToks]) (by omega)
      have h2 := loop_like (mode := mode) (m := m) (s := ts.length) (lhs := x) (S := S) (neg := neg)
        (r := wrap (extra p || decide (topBp p < PREFIX_BP)) (printWith extra p) ++ X)
      have h3 := operand19 (KE mode extra p) (⟨.likeP x neg, m, ts.length⟩ :: S) X _ rfl
        (by simp only [List.length_cons]; omega) hsa
      exact h1.trans (Reach.head h2 (h3.trans (Reach.one ret_likeP)))
  | .between x neg lo hi => by
      intro m S X ts hts hm hsa hd
      simp only [framesWith] at hd
      simp only [topBp] at hm
      simp only [StopAbove] at hsa
      simp only [printWith, List.append_assoc, List.cons_append] at hts
      have h1 := subject (KE mode extra x) m S _ ts hts hm (by cases neg <;> simp [negToks]) (by omega)
      have h2 := loop_between (mode := mode) (m := m) (s := ts.length) (lhs := x) (S := S) (neg := neg)
        (r := wrap (extra lo || decide (topBp lo < PREFIX_BP)) (printWith extra lo)
          ++ (.op .and :: (wrap (extra hi || decide (topBp hi < PREFIX_BP)) (printWith extra hi) ++ X)))
      have h3 := operand19 (KE mode extra lo) (⟨.betLo x neg, m, ts.length⟩ :: S)
        (.op .and :: (wrap (extra hi || decide (topBp hi < PREFIX_BP)) (printWith extra hi) ++ X)) _ rfl
        (by simp only [List.length_cons]; omega) (headStops_op (by decide))
      have h4 := ret_betLo (mode := mode) (e := lo) (subj := x) (neg := neg) (m := m) (s := ts.length) (S := S)
        (r := wrap (extra hi || decide (topBp hi < PREFIX_BP)) (printWith extra hi) ++ X)
      have h5 := operand19 (KE mode extra hi) (⟨.betHi x neg lo, m, ts.length⟩ :: S) X _ rfl
        (by simp only [List.length_cons]; omega) hsa
      exact h1.trans (Reach.head h2 (h3.trans (Reach.head h4 (h5.trans (Reach.one ret_betHi)))))
  | .inList x neg .nil => by
      intro m S X ts hts hm _ hd
      simp only [framesWith, framesItems] at hd
      simp only [topBp] at hm
      simp only [printWith, printItems, List.append_assoc, List.cons_append, List.nil_append] at hts
      have h1 := subject (KE mode extra x) m S _ ts hts hm (by cases neg <;> simp [negToks]) (by omega)
      exact h1.trans (Reach.one loop_in_nil)
  | .inList x neg (.cons a l) => by
      intro m S X ts hts hm _ hd
      simp only [framesWith, framesItems] at hd
      simp only [topBp] at hm
      simp only [printWith, printItems, List.append_assoc, List.cons_append, List.nil_append] at hts
      have h1 := subject (KE mode extra x) m S _ ts hts hm (by cases neg <;> simp [negToks]) (by omega)
      have h2 := loop_in (mode := mode) (m := m) (s := ts.length) (lhs := x) (S := S) (neg := neg)
        (r := wrap (extra a) (printWith extra a) ++ (printTail extra l ++ .rparen :: X))
        (wprint_head_ne extra _ a _ rfl) (wprint_head_ne extra _ a _ rfl)
      have h3 := list_items (.inl x neg) a l m ts.length S X _ (KE mode extra a) (KTail mode extra l) rfl (by omega)
      exact h1.trans (Reach.head h2 h3)
  | .call f d .nil => by
      intro m S X ts hts _ _ hd
      simp only [framesWith, framesItems] at hd
      simp only [printWith, printItems, List.append_assoc, List.cons_append, List.nil_append] at hts
      exact Reach.one (start_call_nil hts (by omega))
  | .call f d (.cons a l) => by
      intro m S X ts hts _ _ hd
      simp only [framesWith, framesItems] at hd
      simp only [printWith, printItems, List.append_assoc, List.cons_append, List.nil_append] at hts
      have h1 := start_call (mode := mode) (m := m) (S := S) hts (by omega)
        (wprint_head_ne extra _ a _ rfl) (wprint_head_ne extra _ a _ rfl)
      have h2 := list_items (.args f d) a l m ts.length S X _ (KE mode extra a) (KTail mode extra l) rfl (by omega)
      exact Reach.head h1 h2
  | .array .nil => by
      intro m S X ts hts _ _ hd
      simp only [framesWith, framesItems] at hd
      simp only [printWith, printItems, List.append_assoc, List.cons_append, List.nil_append] at hts
      exact Reach.one (start_array_nil hts (by omega))
  | .array (.cons a l) => by
      intro m S X ts hts _ _ hd
      simp only [framesWith, framesItems] at hd
      simp only [printWith, printItems, List.append_assoc, List.cons_append, List.nil_append] at hts
      have h1 := start_array (mode := mode) (m := m) (S := S) hts (by omega) (wprint_head_ne extra _ a _ rfl)
      have h2 := list_items .arr a l m ts.length S X _ (KE mode extra a) (KTail mode extra l) rfl (by omega)
      exact Reach.head h1 h2
  | .tuple a b rest => by
      intro m S X ts hts _ _ hd
      simp only [framesWith] at hd
      simp only [printWith, List.append_assoc, List.cons_append, List.nil_append] at hts
      have h1 := start_paren (mode := mode) (m := m) (S := S) hts (by omega) (wprint_head_ne extra _ a _ rfl)
      have h2 := item (KE mode extra a) (extra a) (⟨.paren, m, ts.length⟩ :: S)
        (.comma :: (wrap (extra b) (printWith extra b) ++ (printTail extra rest ++ .rparen :: X))) _ rfl
        (by simp only [List.length_cons]; omega) (headStops0_comma _)
      have h3 := ret_paren_comma (mode := mode) (e := a) (m := m) (s := ts.length) (S := S)
        (r := wrap (extra b) (printWith extra b) ++ (printTail extra rest ++ .rparen :: X))
      have h4 := item (KE mode extra b) (extra b) (⟨.list .tup (.cons a .nil), m, ts.length⟩ :: S)
        (printTail extra rest ++ .rparen :: X) _ rfl
        (by simp only [List.length_cons]; omega) (tail_stops extra rest .tup X)
      have h5 := KTail mode extra rest .tup (.cons a .nil) b m ts.length S X _ rfl (by omega)
      exact Reach.head h1 (h2.trans (Reach.head h3 (h4.trans h5)))
  | .case .none c r rest .none => by
      intro m S X ts hts _ _ hd
      simp only [framesWith, framesOpt] at hd
      simp only [printWith, printOpt, printElse, List.append_assoc, List.cons_append, List.nil_append] at hts
      have h1 := start_case_when (mode := mode) (m := m) (S := S) hts (by omega)
      have h2 := case_tail .none c r rest .none m ts.length S X
        (wrap (extra c) (printWith extra c) ++ (.thenKw :: (wrap (extra r) (printWith extra r)
          ++ (printWhens extra rest ++ .endKw :: X))))
        (KE mode extra c) (KE mode extra r)
        (KWhens mode extra rest) (fun e h => by cases h) (by simp only [printElse, List.nil_append])
        (by simp only [framesOpt]; omega)
      exact Reach.head h1 h2
  | .case .none c r rest (.some e) => by
      intro m S X ts hts _ _ hd
      simp only [framesWith, framesOpt] at hd
      simp only [printWith, printOpt, printElse, List.append_assoc, List.cons_append, List.nil_append] at hts
      have h1 := start_case_when (mode := mode) (m := m) (S := S) hts (by omega)
      have h2 := case_tail .none c r rest (.some e) m ts.length S X
        (wrap (extra c) (printWith extra c) ++ (.thenKw :: (wrap (extra r) (printWith extra r)
          ++ (printWhens extra rest ++ (.elseKw :: (wrap (extra e) (printWith extra e) ++ .endKw :: X))))))
        (KE mode extra c) (KE mode extra r)
        (KWhens mode extra rest) (fun e' h => by cases h; exact KE mode extra e)
        (by simp only [printElse, List.cons_append]) (by simp only [framesOpt]; omega)
      exact Reach.head h1 h2
  | .case (.some e0) c r rest .none => by
      intro m S X ts hts _ _ hd
      simp only [framesWith, framesOpt] at hd
      simp only [printWith, printOpt, printElse, List.append_assoc, List.cons_append, List.nil_append] at hts
      have h1 := start_case_operand (mode := mode) (m := m) (S := S) hts (by omega) (wprint_head_ne extra _ e0 _ rfl)
      have h2 := item (KE mode extra e0) (extra e0) (⟨.caseOperand, m, ts.length⟩ :: S)
        (.whenKw :: (wrap (extra c) (printWith extra c) ++ (.thenKw :: (wrap (extra r) (printWith extra r)
          ++ (printWhens extra rest ++ .endKw :: X))))) _ rfl
        (by simp only [List.length_cons]; omega) (headStops0_when _)
      have h3 := ret_caseOperand (mode := mode) (e := e0) (m := m) (s := ts.length) (S := S)
        (r := wrap (extra c) (printWith extra c) ++ (.thenKw :: (wrap (extra r) (printWith extra r)
          ++ (printWhens extra rest ++ .endKw :: X))))
      have h4 := case_tail (.some e0) c r rest .none m ts.length S X
        (wrap (extra c) (printWith extra c) ++ (.thenKw :: (wrap (extra r) (printWith extra r)
          ++ (printWhens extra rest ++ .endKw :: X))))
        (KE mode extra c) (KE mode extra r)
        (KWhens mode extra rest) (fun e h => by cases h) (by simp only [printElse, List.nil_append])
        (by simp only [framesOpt]; omega)
      exact Reach.head h1 (h2.trans (Reach.head h3 h4))
  | .case (.some e0) c r rest (.some e) => by
      intro m S X ts hts _ _ hd
      simp only [framesWith, framesOpt] at hd
      simp only [printWith, printOpt, printElse, List.append_assoc, List.cons_append, List.nil_append] at hts
      have h1 := start_case_operand (mode := mode) (m := m) (S := S) hts (by omega) (wprint_head_ne extra _ e0 _ rfl)
      have h2 := item (KE mode extra e0) (extra e0) (⟨.caseOperand, m, ts.length⟩ :: S)
        (.whenKw :: (wrap (extra c) (printWith extra c) ++ (.thenKw :: (wrap (extra r) (printWith extra r)
          ++ (printWhens extra rest ++ (.elseKw :: (wrap (extra e) (printWith extra e) ++ .endKw :: X))))))) _ rfl
        (by simp only [List.length_cons]; omega) (headStops0_when _)
      have h3 := ret_caseOperand (mode := mode) (e := e0) (m := m) (s := ts.length) (S := S)
        (r := wrap (extra c) (printWith extra c) ++ (.thenKw :: (wrap (extra r) (printWith extra r)
          ++ (printWhens extra rest ++ (.elseKw :: (wrap (extra e) (printWith extra e) ++ .endKw :: X))))))
      have h4 := case_tail (.some e0) c r rest (.some e) m ts.length S X
        (wrap (extra c) (printWith extra c) ++ (.thenKw :: (wrap (extra r) (printWith extra r)
          ++ (printWhens extra rest ++ (.elseKw :: (wrap (extra e) (printWith extra e) ++ .endKw :: X))))))
        (KE mode extra c) (KE mode extra r)
        (KWhens mode extra rest) (fun e' h => by cases h; exact KE mode extra e)
        (by simp only [printElse, List.cons_append]) (by simp only [framesOpt]; omega)
      exact Reach.head h1 (h2.trans (Reach.head h3 h4))
theorem KTail (mode : Mode) (extra : E → Bool) : ∀ l : EL, TailProp mode extra l
  | .nil => by
      intro lk acc e m s S X ts hts _
      simp only [printTail, List.nil_append] at hts
      subst hts
      rw [EL.append_nil]
      exact Reach.one ret_list_close
  | .cons a l => by
      intro lk acc e m s S X ts hts hd
      simp only [framesItems] at hd
      simp only [printTail, List.cons_append, List.append_assoc] at hts
      subst hts
      have h1 := ret_list_comma (mode := mode) (e := e) (lk := lk) (acc := acc) (m := m) (s := s) (S := S)
        (r := wrap (extra a) (printWith extra a) ++ (printTail extra l ++ lk.close :: X))
      have h2 := item (KE mode extra a) (extra a) (⟨.list lk (acc.snoc e), m, s⟩ :: S)
        (printTail extra l ++ lk.close :: X) _ rfl (by simp only [List.length_cons]; omega)
        (tail_stops extra l lk X)
      have h3 := KTail mode extra l lk (acc.snoc e) a m s S X _ rfl (by omega)
      rw [← EL.snoc_append]
      exact Reach.head h1 (h2.trans h3)
theorem KWhens (mode : Mode) (extra : E → Bool) : ∀ l : WL, WhensProp mode extra l
  | .nil => by
      intro operand acc c r els m s S X ts hels hts hd
      simp only [printWhens, List.nil_append] at hts
      simp only [framesWhens] at hd
      obtain ⟨c0, r0, rest, hacc⟩ := snoc_ne_nil acc c r
      rw [WL.append_nil, hacc]
      simp only [caseOf]
      cases els with
      | none =>
        simp only [printElse, List.nil_append] at hts
        subst hts
        exact Reach.one (ret_caseRes_end hacc)
      | some e =>
        simp only [printElse, List.cons_append] at hts
        simp only [framesOpt] at hd
        subst hts
        have h1 := ret_caseRes_else (mode := mode) (operand := operand) (m := m) (s := s) (S := S)
          (r := wrap (extra e) (printWith extra e) ++ .endKw :: X) hacc
        have h2 := item (hels e rfl) (extra e) (⟨.caseElse operand c0 r0 rest, m, s⟩ :: S) (.endKw :: X) _ rfl
          (by simp only [List.length_cons]; omega) (headStops0_end X)
        exact Reach.head h1 (h2.trans (Reach.one ret_caseElse))
  | .cons c' r' l => by
      intro operand acc c r els m s S X ts hels hts hd
      simp only [printWhens, List.cons_append, List.append_assoc] at hts
      simp only [framesWhens] at hd
      subst hts
      have h1 := ret_caseRes_when (mode := mode) (e := r) (c := c) (operand := operand) (acc := acc) (m := m)
        (s := s) (S := S) (r := wrap (extra c') (printWith extra c') ++ (.thenKw :: (wrap (extra r') (printWith extra r')
          ++ (printWhens extra l ++ (printElse extra els ++ .endKw :: X)))))
      have h2 := item (KE mode extra c') (extra c') (⟨.caseCond operand (acc.snoc c r), m, s⟩ :: S)
        (.thenKw :: (wrap (extra r') (printWith extra r') ++ (printWhens extra l ++ (printElse extra els ++ .endKw :: X))))
        _ rfl (by simp only [List.length_cons]; omega) (headStops0_then _)
      have h3 := ret_caseCond (mode := mode) (e := c') (operand := operand) (acc := acc.snoc c r) (m := m) (s := s)
        (S := S) (r := wrap (extra r') (printWith extra r') ++ (printWhens extra l ++ (printElse extra els ++ .endKw :: X)))
      have h4 := item (KE mode extra r') (extra r') (⟨.caseRes operand (acc.snoc c r) c', m, s⟩ :: S)
        (printWhens extra l ++ (printElse extra els ++ .endKw :: X)) _ rfl
        (by simp only [List.length_cons]; omega) (whens_stop extra l els X)
      have h5 := KWhens mode extra l operand (acc.snoc c r) c' r' els m s S X _ hels rfl (by omega)
      rw [← WL.snoc_append]
      exact Reach.head h1 (h2.trans (Reach.head h3 (h4.trans h5)))
end

end Neumann.Parse.Full
