import NeumannModel.Parse.LexLemmas
/-
  C15 — helper lemmas for `LexProps.block_comment_is_trivia`: TOKEN LOCALITY at a cut.  Core Lean only.

  The lexer looks at most two characters ahead (`peek`, `peek2`).  If the text `w ++ " " ++ v` is lexed up to a
  point at or before the blank, nothing the lexer did depended on the blank beyond its being a character that
  ends every token and starts none — and the `/` of a comment opener is such a character too.  `*_local`: every
  scanner (`takeW`, `scanFrac`, `scanSign`, `scanExp`, `scanNumber`, `scanStr`, `punct`, `scanToken`, `skip`)
  gives the same answer on `w ++ " " ++ v` and on `w ++ "/" ++ y` whenever its scan of the first ends at or
  before the cut.  `Run` = the lexer from token boundary to token boundary; `run_transfer` moves a run from
  one text to the other; `Trivia` = what the skipping loop passes over in normal mode; `TokenBoundary`; and
  `lex_comment_at_boundary`, the statement behind the theorem.
-/
namespace Neumann.Parse.Lex

/-! ### token locality at a cut -/

/-- what is known about the two characters that may stand at the cut: a blank and the `/` of a comment opener -/
structure CutChars (s o : Ch) : Prop where
  s_cp : s.cp = 32
  s_alnum : s.alnum = false
  o_cp : o.cp = 47
  o_alnum : o.alnum = false

section
variable {s o : Ch} (hc : CutChars s o)
include hc

theorem CutChars.digit_s : isDigit s = false := by simp [isDigit, hc.s_cp]
theorem CutChars.digit_o : isDigit o = false := by simp [isDigit, hc.o_cp]
theorem CutChars.cont_s : isIdentCont s = false := by simp [isIdentCont, hc.s_cp, hc.s_alnum]
theorem CutChars.cont_o : isIdentCont o = false := by simp [isIdentCont, hc.o_cp, hc.o_alnum]

omit hc in
theorem takeW_local (f : Ch → Bool) (hs : f s = false) (ho : f o = false) (v y : List Ch) :
    ∀ (w : List Ch) (p : Nat), ∃ q w', takeW f p (w ++ s :: v) = (q, w' ++ s :: v) ∧
      takeW f p (w ++ o :: y) = (q, w' ++ o :: y) := by
  intro w
  induction w with
  | nil => intro p; exact ⟨p, [], by simp [takeW, hs], by simp [takeW, ho]⟩
  | cons a w ih =>
    intro p
    cases h : f a with
    | true =>
      obtain ⟨q, w', e1, e2⟩ := ih (p + a.len)
      exact ⟨q, w', by simp [takeW, h, e1], by simp [takeW, h, e2]⟩
    | false => exact ⟨p, a :: w, by simp [takeW, h], by simp [takeW, h]⟩

omit hc in
theorem takenW_local (f : Ch → Bool) (hs : f s = false) (ho : f o = false) (v y : List Ch) :
    ∀ (w : List Ch), takenW f (w ++ s :: v) = takenW f (w ++ o :: y) := by
  intro w
  induction w with
  | nil => simp [takenW, hs, ho]
  | cons a w ih => simp [takenW, ih]

theorem scanFrac_local (v y : List Ch) : ∀ (w : List Ch) (p : Nat), ∃ b q w',
    scanFrac p (w ++ s :: v) = (b, q, w' ++ s :: v) ∧ scanFrac p (w ++ o :: y) = (b, q, w' ++ o :: y) := by
  intro w p
  have h46s : s.cp ≠ 46 := by have := hc.s_cp; omega
  have h46o : o.cp ≠ 46 := by have := hc.o_cp; omega
  match w with
  | [] =>
    refine ⟨false, p, [], ?_, ?_⟩
    · cases v <;> simp [scanFrac, h46s]
    · cases y <;> simp [scanFrac, h46o]
  | [a] =>
    refine ⟨false, p, [a], ?_, ?_⟩
    · simp [scanFrac, hc.digit_s]
    · simp [scanFrac, hc.digit_o]
  | a :: b :: w₂ =>
    by_cases h : a.cp = 46 ∧ isDigit b = true
    · obtain ⟨q, w', e1, e2⟩ := takeW_local isDigit hc.digit_s hc.digit_o v y (b :: w₂) (p + a.len)
      exact ⟨true, q, w', by simp only [List.cons_append] at e1 ⊢; simp [scanFrac, h, e1],
        by simp only [List.cons_append] at e2 ⊢; simp [scanFrac, h, e2]⟩
    · exact ⟨false, p, a :: b :: w₂, by simp [scanFrac, h], by simp [scanFrac, h]⟩

theorem scanSign_local (v y : List Ch) : ∀ (w : List Ch) (p : Nat), ∃ q w',
    scanSign p (w ++ s :: v) = (q, w' ++ s :: v) ∧ scanSign p (w ++ o :: y) = (q, w' ++ o :: y) := by
  intro w p
  have hs := hc.s_cp
  have ho := hc.o_cp
  match w with
  | [] =>
    refine ⟨p, [], ?_, ?_⟩
    · have : ¬(s.cp = 43 ∨ s.cp = 45) := by omega
      simp [scanSign, this]
    · have : ¬(o.cp = 43 ∨ o.cp = 45) := by omega
      simp [scanSign, this]
  | a :: w₂ =>
    by_cases h : a.cp = 43 ∨ a.cp = 45
    · exact ⟨p + a.len, w₂, by simp [scanSign, h], by simp [scanSign, h]⟩
    · exact ⟨p, a :: w₂, by simp [scanSign, h], by simp [scanSign, h]⟩

theorem scanExp_local (v y : List Ch) : ∀ (w : List Ch) (p : Nat), ∃ b ds q w',
    scanExp p (w ++ s :: v) = (b, ds, q, w' ++ s :: v) ∧ scanExp p (w ++ o :: y) = (b, ds, q, w' ++ o :: y) := by
  intro w p
  have hs := hc.s_cp
  have ho := hc.o_cp
  match w with
  | [] =>
    refine ⟨false, [], p, [], ?_, ?_⟩
    · have : ¬(s.cp = 101 ∨ s.cp = 69) := by omega
      simp [scanExp, this]
    · have : ¬(o.cp = 101 ∨ o.cp = 69) := by omega
      simp [scanExp, this]
  | a :: w₂ =>
    by_cases h : a.cp = 101 ∨ a.cp = 69
    · obtain ⟨q1, w1, e1, e2⟩ := scanSign_local hc v y w₂ (p + a.len)
      obtain ⟨q2, w2, e3, e4⟩ := takeW_local isDigit hc.digit_s hc.digit_o v y w1 q1
      have e5 := takenW_local isDigit hc.digit_s hc.digit_o v y w1
      refine ⟨true, takenW isDigit (w1 ++ s :: v), q2, w2, ?_, ?_⟩
      · simp [scanExp, h, e1, e3]
      · simp [scanExp, h, e2, e4, e5]
    · exact ⟨false, [], p, a :: w₂, by simp [scanExp, h], by simp [scanExp, h]⟩

theorem scanNumber_local (c0 : Ch) (v y : List Ch) (w : List Ch) (p : Nat) : ∃ k q w',
    scanNumber c0 p (w ++ s :: v) = (k, q, w' ++ s :: v) ∧ scanNumber c0 p (w ++ o :: y) = (k, q, w' ++ o :: y) := by
  obtain ⟨q1, w1, e1, e2⟩ := takeW_local isDigit hc.digit_s hc.digit_o v y w p
  have e0 := takenW_local isDigit hc.digit_s hc.digit_o v y w
  obtain ⟨b, q2, w2, e3, e4⟩ := scanFrac_local hc v y w1 q1
  obtain ⟨b', ds, q3, w3, e5, e6⟩ := scanExp_local hc v y w2 q2
  refine ⟨(scanNumber c0 p (w ++ s :: v)).1, q3, w3, ?_, ?_⟩
  · simp only [scanNumber, e1, e3, e5]
  · simp only [scanNumber, e1, e3, e5, e2, e4, e6, e0]

omit hc in
theorem adv_absurd {p q : Nat} {cs rest X : List Ch} (h : Adv p cs q rest) (hl : X.length ≤ rest.length)
    (hc' : cs.length < X.length) : False := by
  have := h.length_le; omega

omit hc in
theorem scanStr_cons2 (qt : Nat) (acc : List Nat) (p : Nat) (c d : Ch) (r' : List Ch) :
    scanStr qt acc p (c :: d :: r') =
      if c.cp = qt then
        (if d.cp = qt then scanStr qt (qt :: acc) (p + c.len + d.len) r' else (some acc.reverse, p + c.len, d :: r'))
      else if c.cp = 92 then scanStr qt ((escape d.cp).reverse ++ acc) (p + c.len + d.len) r'
      else if c.cp = 10 then (none, p, c :: d :: r')
      else scanStr qt (c.cp :: acc) (p + c.len) (d :: r') := by
  rw [scanStr]

/-- `scan_string`: if the scan of `w ++ " " ++ v` ends at or before the cut, the scan of `w ++ "/…"` is the same -/
theorem scanStr_local {qt : Nat} (hq : qt = 39 ∨ qt = 34) (v y : List Ch) : ∀ (n : Nat) (w : List Ch), w.length ≤ n →
    ∀ (acc : List Nat) (p : Nat) (res : Option (List Nat)) (q : Nat) (rest : List Ch),
    scanStr qt acc p (w ++ s :: v) = (res, q, rest) → (s :: v).length ≤ rest.length →
    ∃ w', rest = w' ++ s :: v ∧ scanStr qt acc p (w ++ o :: y) = (res, q, w' ++ o :: y) := by
  have hs := hc.s_cp
  have ho := hc.o_cp
  have h1 : ¬ s.cp = qt := by omega
  have h1' : ¬ o.cp = qt := by omega
  have h2 : ¬ s.cp = 92 := by omega
  have h3 : ¬ s.cp = 10 := by omega
  intro n
  induction n with
  | zero =>
    intro w hw acc p res q rest e hl
    have : w = [] := by cases w <;> simp_all
    subst this
    rw [List.nil_append] at e
    have a : Adv (p + s.len) v q rest := by
      cases v with
      | nil =>
        rw [scanStr.eq_def] at e
        simp only [h1, h2, h3, if_false] at e
        have a := scanStr_adv qt (s.cp :: acc) (p + s.len) []
        rw [e] at a; exact a
      | cons d r' =>
        rw [scanStr_cons2, if_neg h1, if_neg h2, if_neg h3] at e
        have a := scanStr_adv qt (s.cp :: acc) (p + s.len) (d :: r')
        rw [e] at a; exact a
    exact (adv_absurd a hl (by simp)).elim
  | succ n ih =>
    intro w hw acc p res q rest e hl
    match w, hw with
    | [], _ => exact ih [] (by simp) acc p res q rest e hl
    | [a], _ =>
      simp only [List.cons_append, List.nil_append] at e ⊢
      rw [scanStr_cons2] at e
      rw [scanStr_cons2]
      by_cases c1 : a.cp = qt
      · rw [if_pos c1, if_neg h1] at e
        rw [if_pos c1, if_neg h1']
        obtain ⟨rfl, rfl, rfl⟩ := e
        exact ⟨[], rfl, rfl⟩
      · by_cases c2 : a.cp = 92
        · rw [if_neg c1, if_pos c2] at e
          have a' := scanStr_adv qt ((escape s.cp).reverse ++ acc) (p + a.len + s.len) v
          rw [e] at a'
          exact (adv_absurd a' hl (by simp)).elim
        · by_cases c3 : a.cp = 10
          · rw [if_neg c1, if_neg c2, if_pos c3] at e
            rw [if_neg c1, if_neg c2, if_pos c3]
            obtain ⟨rfl, rfl, rfl⟩ := e
            exact ⟨[a], rfl, rfl⟩
          · rw [if_neg c1, if_neg c2, if_neg c3] at e
            rw [if_neg c1, if_neg c2, if_neg c3]
            exact ih [] (by simp) _ _ _ _ _ e hl
    | a :: b :: w₂, hw =>
      simp only [List.cons_append] at e ⊢
      rw [scanStr_cons2] at e
      rw [scanStr_cons2]
      simp only [List.length_cons] at hw
      by_cases c1 : a.cp = qt
      · by_cases d1 : b.cp = qt
        · rw [if_pos c1, if_pos d1] at e
          rw [if_pos c1, if_pos d1]
          exact ih w₂ (by omega) _ _ _ _ _ e hl
        · rw [if_pos c1, if_neg d1] at e
          rw [if_pos c1, if_neg d1]
          obtain ⟨rfl, rfl, rfl⟩ := e
          exact ⟨b :: w₂, rfl, rfl⟩
      · by_cases c2 : a.cp = 92
        · rw [if_neg c1, if_pos c2] at e
          rw [if_neg c1, if_pos c2]
          exact ih w₂ (by omega) _ _ _ _ _ e hl
        · by_cases c3 : a.cp = 10
          · rw [if_neg c1, if_neg c2, if_pos c3] at e
            rw [if_neg c1, if_neg c2, if_pos c3]
            obtain ⟨rfl, rfl, rfl⟩ := e
            exact ⟨a :: b :: w₂, rfl, rfl⟩
          · rw [if_neg c1, if_neg c2, if_neg c3] at e
            rw [if_neg c1, if_neg c2, if_neg c3]
            exact ih (b :: w₂) (by simp only [List.length_cons]; omega) _ _ _ _ _ e hl

/-- is the answer of `punct` a two-character operator -/
def twoOf : Option (String × Bool) → Bool
  | some (_, t) => t
  | none => false

omit hc in
theorem punct_cut (c : Nat) : punct c (some 32) = punct c (some 47) ∧ twoOf (punct c (some 32)) = false := by
  have a : ∀ k : Nat, k ≠ 32 → ((some 32 : Option Nat) = some k) = False := by
    intro k h; simp; omega
  have b : ∀ k : Nat, k ≠ 47 → ((some 47 : Option Nat) = some k) = False := by
    intro k h; simp; omega
  unfold punct
  simp only [a 62 (by omega), a 61 (by omega), a 60 (by omega), a 38 (by omega), a 124 (by omega), a 58 (by omega),
    b 62 (by omega), b 61 (by omega), b 60 (by omega), b 38 (by omega), b 124 (by omega), b 58 (by omega), if_false]
  refine ⟨trivial, ?_⟩
  simp only [apply_ite twoOf]
  simp only [twoOf, ite_self]
/-- `next_token` after the skipping: a token that ends at or before the cut does not depend on what stands at the cut -/
theorem scanToken_local (v y : List Ch) (c : Ch) (w : List Ch) (p : Nat) (tok : Token) (q : Nat) (rest : List Ch)
    (e : scanToken p c (w ++ s :: v) = (tok, q, rest)) (hl : (s :: v).length ≤ rest.length) :
    ∃ w', rest = w' ++ s :: v ∧ scanToken p c (w ++ o :: y) = (tok, q, w' ++ o :: y) := by
  unfold scanToken at e ⊢
  simp only at e ⊢
  by_cases c1 : isIdentStart c = true
  · obtain ⟨q1, w1, e1, e2⟩ := takeW_local isIdentCont hc.cont_s hc.cont_o v y w (p + c.len)
    have e0 := takenW_local isIdentCont hc.cont_s hc.cont_o v y w
    rw [if_pos c1, e1] at e
    rw [if_pos c1, e2, ← e0]
    obtain ⟨rfl, rfl, rfl⟩ := e
    exact ⟨w1, rfl, rfl⟩
  · by_cases c2 : isDigit c = true
    · obtain ⟨k, q1, w1, e1, e2⟩ := scanNumber_local hc c v y w (p + c.len)
      rw [if_neg c1, if_pos c2, e1] at e
      rw [if_neg c1, if_pos c2, e2]
      obtain ⟨rfl, rfl, rfl⟩ := e
      exact ⟨w1, rfl, rfl⟩
    · by_cases c3 : c.cp = 39 ∨ c.cp = 34
      · rw [if_neg c1, if_neg c2, if_pos c3] at e
        rw [if_neg c1, if_neg c2, if_pos c3]
        cases hstr : scanStr c.cp [] (p + c.len) (w ++ s :: v) with
        | mk res qr =>
          obtain ⟨q1, rest1⟩ := qr
          rw [hstr] at e
          simp only at e
          obtain ⟨rfl, rfl, rfl⟩ := e
          obtain ⟨w', e1, e2⟩ := scanStr_local hc c3 v y w.length w (Nat.le_refl _) [] _ _ _ _ hstr hl
          rw [e2]
          exact ⟨w', e1, rfl⟩
      · rw [if_neg c1, if_neg c2, if_neg c3] at e
        rw [if_neg c1, if_neg c2, if_neg c3]
        cases w with
        | nil =>
          have hp := punct_cut c.cp
          simp only [List.nil_append, List.head?_cons, Option.map_some, hc.s_cp, hc.o_cp] at e ⊢
          rw [← hp.1]
          cases hpu : punct c.cp (some 32) with
          | none =>
            rw [hpu] at e
            simp only at e ⊢
            obtain ⟨rfl, rfl, rfl⟩ := e
            exact ⟨[], rfl, rfl⟩
          | some pr =>
            obtain ⟨nm, two⟩ := pr
            have h2 := hp.2
            rw [hpu] at h2
            simp only [twoOf] at h2
            subst h2
            rw [hpu] at e
            simp only [Bool.false_eq_true, if_false] at e ⊢
            obtain ⟨rfl, rfl, rfl⟩ := e
            exact ⟨[], rfl, rfl⟩
        | cons a w₂ =>
          simp only [List.cons_append, List.head?_cons, Option.map_some] at e ⊢
          cases hpu : punct c.cp (some a.cp) with
          | none =>
            rw [hpu] at e
            simp only at e ⊢
            obtain ⟨rfl, rfl, rfl⟩ := e
            exact ⟨a :: w₂, rfl, rfl⟩
          | some pr =>
            obtain ⟨nm, two⟩ := pr
            rw [hpu] at e
            cases two with
            | false =>
              simp only [Bool.false_eq_true, if_false] at e ⊢
              obtain ⟨rfl, rfl, rfl⟩ := e
              exact ⟨a :: w₂, rfl, rfl⟩
            | true =>
              simp only [if_true] at e ⊢
              obtain ⟨rfl, rfl, rfl⟩ := e
              exact ⟨w₂, rfl, rfl⟩

/-- `skip_whitespace_and_comments`: if the loop on `w ++ " " ++ v` stops before the cut (at a character of `w`),
    the loop on `w ++ "/…"` stops at the same place -/
theorem skip_local (v y : List Ch) : ∀ (n : Nat) (w : List Ch), w.length ≤ n →
    ∀ (mode : Mode) (p q : Nat) (rest : List Ch),
    skip mode p (w ++ s :: v) = (q, rest) → (s :: v).length < rest.length →
    ∃ w', rest = w' ++ s :: v ∧ skip mode p (w ++ o :: y) = (q, w' ++ o :: y) := by
  have hs := hc.s_cp
  have ho := hc.o_cp
  have base : ∀ (mode : Mode) (p q : Nat) (rest : List Ch), skip mode p (s :: v) = (q, rest) →
      (s :: v).length < rest.length → False := by
    intro mode p q rest e hl
    have a := skip_adv mode p (s :: v)
    rw [e] at a
    have := a.length_le
    simp only at this
    omega
  intro n
  induction n with
  | zero =>
    intro w hw mode p q rest e hl
    have : w = [] := by cases w <;> simp_all
    subst this
    exact (base mode p q rest e hl).elim
  | succ n ih =>
    intro w hw mode p q rest e hl
    match w, hw with
    | [], _ => exact (base mode p q rest e hl).elim
    | [a], _ =>
      simp only [List.cons_append, List.nil_append] at e ⊢
      match mode with
      | .normal =>
        rw [skip] at e
        rw [skip]
        by_cases c1 : a.ws = true
        · rw [if_pos c1] at e
          exact (base _ _ _ _ e hl).elim
        · have c2 : ¬(a.cp = 45 ∧ s.cp = 45) := by omega
          have c3 : ¬(a.cp = 47 ∧ s.cp = 42) := by omega
          have c2' : ¬(a.cp = 45 ∧ o.cp = 45) := by omega
          have c3' : ¬(a.cp = 47 ∧ o.cp = 42) := by omega
          rw [if_neg c1, if_neg c2, if_neg c3] at e
          rw [if_neg c1, if_neg c2', if_neg c3']
          obtain ⟨rfl, rfl⟩ := e
          exact ⟨[a], rfl, rfl⟩
      | .line =>
        rw [skip] at e
        rw [skip]
        by_cases c1 : a.cp = 10
        · by_cases c2 : a.ws = true
          · rw [if_pos c1, if_pos c2] at e
            exact (base _ _ _ _ e hl).elim
          · rw [if_pos c1, if_neg c2] at e
            rw [if_pos c1, if_neg c2]
            obtain ⟨rfl, rfl⟩ := e
            exact ⟨[a], rfl, rfl⟩
        · rw [if_neg c1] at e
          exact (base _ _ _ _ e hl).elim
      | .block k =>
        have c2 : ¬(a.cp = 47 ∧ s.cp = 42) := by omega
        have c3 : ¬(a.cp = 42 ∧ s.cp = 47) := by omega
        rw [skip_block_cons2, if_neg c2, if_neg c3] at e
        exact (base _ _ _ _ e hl).elim
    | a :: b :: w₂, hw =>
      simp only [List.cons_append] at e ⊢
      simp only [List.length_cons] at hw
      have l1 : w₂.length ≤ n := by omega
      have l2 : (b :: w₂).length ≤ n := by simp only [List.length_cons]; omega
      match mode with
      | .normal =>
        rw [skip] at e
        rw [skip]
        by_cases c1 : a.ws = true
        · rw [if_pos c1] at e
          rw [if_pos c1]
          exact ih (b :: w₂) l2 _ _ _ _ e hl
        · by_cases c2 : a.cp = 45 ∧ b.cp = 45
          · rw [if_neg c1, if_pos c2] at e
            rw [if_neg c1, if_pos c2]
            exact ih w₂ l1 _ _ _ _ e hl
          · by_cases c3 : a.cp = 47 ∧ b.cp = 42
            · rw [if_neg c1, if_neg c2, if_pos c3] at e
              rw [if_neg c1, if_neg c2, if_pos c3]
              exact ih w₂ l1 _ _ _ _ e hl
            · rw [if_neg c1, if_neg c2, if_neg c3] at e
              rw [if_neg c1, if_neg c2, if_neg c3]
              obtain ⟨rfl, rfl⟩ := e
              exact ⟨a :: b :: w₂, rfl, rfl⟩
      | .line =>
        rw [skip] at e
        rw [skip]
        by_cases c1 : a.cp = 10
        · by_cases c2 : a.ws = true
          · rw [if_pos c1, if_pos c2] at e
            rw [if_pos c1, if_pos c2]
            exact ih (b :: w₂) l2 _ _ _ _ e hl
          · rw [if_pos c1, if_neg c2] at e
            rw [if_pos c1, if_neg c2]
            obtain ⟨rfl, rfl⟩ := e
            exact ⟨a :: b :: w₂, rfl, rfl⟩
        · rw [if_neg c1] at e
          rw [if_neg c1]
          exact ih (b :: w₂) l2 _ _ _ _ e hl
      | .block k =>
        rw [skip_block_cons2] at e
        rw [skip_block_cons2]
        by_cases c2 : a.cp = 47 ∧ b.cp = 42
        · rw [if_pos c2] at e
          rw [if_pos c2]
          exact ih w₂ l1 _ _ _ _ e hl
        · by_cases c3 : a.cp = 42 ∧ b.cp = 47
          · rw [if_neg c2, if_pos c3] at e
            rw [if_neg c2, if_pos c3]
            cases k with
            | zero => exact ih w₂ l1 _ _ _ _ e hl
            | succ k' => exact ih w₂ l1 _ _ _ _ e hl
          · rw [if_neg c2, if_neg c3] at e
            rw [if_neg c2, if_neg c3]
            exact ih (b :: w₂) l2 _ _ _ _ e hl

end

/-! ### trivia, runs of the lexer, token boundaries -/

/-- what the skipping loop passes over and comes out of in normal mode: whitespace characters, well-nested
    block comments, `--` line comments ended by their newline -/
inductive Trivia : List Ch → Prop
  | nil : Trivia []
  | ws (a : Ch) (t : List Ch) : a.ws = true → Trivia t → Trivia (a :: t)
  | block (c t : List Ch) : WellNested c → Trivia t → Trivia (c ++ t)
  | line (a b : Ch) (body : List Ch) (nl : Ch) (t : List Ch) : a.ws = false → a.cp = 45 → b.cp = 45 →
      (∀ x ∈ body, x.cp ≠ 10) → nl.cp = 10 → nl.ws = true → Trivia t → Trivia (a :: b :: body ++ nl :: t)

theorem skip_line_body {nl : Ch} (h1 : nl.cp = 10) (h2 : nl.ws = true) (rest : List Ch) :
    ∀ (body : List Ch) (p : Nat), (∀ x ∈ body, x.cp ≠ 10) →
      skip .line p (body ++ nl :: rest) = skip .normal (p + bytes body + nl.len) rest := by
  intro body
  induction body with
  | nil => intro p _; rw [List.nil_append, skip, if_pos h1, if_pos h2]; simp [bytes]
  | cons x body ih =>
    intro p hb
    have hx := hb x (List.mem_cons_self ..)
    rw [List.cons_append, skip, if_neg hx, ih _ (fun z hz => hb z (List.mem_cons_of_mem _ hz))]
    simp only [bytes]
    congr 1; omega

theorem skip_trivia {t : List Ch} (h : Trivia t) : ∀ (p : Nat) (X : List Ch),
    skip .normal p (t ++ X) = skip .normal (p + bytes t) X := by
  induction h with
  | nil => intro p X; simp [bytes]
  | ws a t ha _ ih =>
    intro p X
    rw [List.cons_append, skip_ws ha, ih]
    simp only [bytes]; congr 1; omega
  | block c t hc _ ih =>
    intro p X
    rw [List.append_assoc, skip_wellNested hc, ih, bytes_append]
    congr 1; omega
  | line a b body nl t ha h1 h2 hb h3 h4 _ ih =>
    intro p X
    have c1 : ¬(a.ws = true) := by rw [ha]; simp
    rw [show (a :: b :: body ++ nl :: t) ++ X = a :: b :: (body ++ nl :: (t ++ X)) by simp, skip, if_neg c1,
      if_pos ⟨h1, h2⟩, skip_line_body h3 h4 _ _ _ hb, ih]
    simp only [bytes, bytes_append]
    congr 1; omega

/-- `Run p cs ts q rest`: from the token boundary `(p, cs)` the lexer returns the tokens `ts` and is then at
    the token boundary `(q, rest)` (about to skip whitespace and comments again) -/
inductive Run : Nat → List Ch → List Token → Nat → List Ch → Prop
  | refl (p : Nat) (cs : List Ch) : Run p cs [] p cs
  | step {p : Nat} {cs : List Ch} {q : Nat} {c : Ch} {r : List Ch} {tok : Token} {q1 : Nat} {rest1 : List Ch}
      {ts : List Token} {q' : Nat} {rest : List Ch} :
      skip .normal p cs = (q, c :: r) → scanToken q c r = (tok, q1, rest1) → Run q1 rest1 ts q' rest →
      Run p cs (tok :: ts) q' rest

theorem run_suffix {p q : Nat} {cs rest : List Ch} {ts : List Token} (h : Run p cs ts q rest) :
    ∃ b, cs = b ++ rest ∧ ts.length ≤ b.length := by
  induction h with
  | refl p cs => exact ⟨[], rfl, Nat.le_refl _⟩
  | @step p cs q c r tok q1 rest1 ts q' rest h1 h2 _ ih =>
    obtain ⟨b, e, hl⟩ := ih
    have a1 := skip_adv .normal p cs
    rw [h1] at a1
    obtain ⟨t1, e1, _⟩ := a1
    have a2 := (scanToken_spec q c r).2.2.1
    rw [h2] at a2
    obtain ⟨t2, e2, _⟩ := a2
    refine ⟨t1 ++ c :: t2 ++ b, ?_, ?_⟩
    · rw [e1]; simp only at e2; rw [e2, e]; simp
    · simp only [List.length_append, List.length_cons]; omega

theorem run_lexN {p q : Nat} {cs rest : List Ch} {ts : List Token} (h : Run p cs ts q rest) :
    ∀ (f : Nat), lexN (f + ts.length) p cs = ts ++ lexN f q rest := by
  induction h with
  | refl p cs => intro f; rfl
  | step h1 h2 _ ih =>
    intro f
    rw [List.length_cons, ← Nat.add_assoc, lexN, h1]
    simp only [h2, ih, List.cons_append]

/-- token locality: a run that ends at or before the cut does not depend on whether a blank or a `/` stands there -/
theorem run_transfer {s o : Ch} (hc : CutChars s o) (v y : List Ch) {p q : Nat} {cs rest : List Ch} {ts : List Token}
    (h : Run p cs ts q rest) : ∀ (w t : List Ch), cs = w ++ s :: v → rest = t ++ s :: v →
    Run p (w ++ o :: y) ts q (t ++ o :: y) := by
  induction h with
  | refl p cs =>
    intro w t e1 e2
    have : w = t := List.append_cancel_right (e1.symm.trans e2)
    subst this
    exact Run.refl _ _
  | @step p cs q c r tok q1 rest1 ts q' rest h1 h2 hrun ih =>
    intro w t e1 e2
    subst e1 e2
    obtain ⟨b, eb, _⟩ := run_suffix hrun
    have a2 := (scanToken_spec q c r).2.2.1
    rw [h2] at a2
    obtain ⟨t2, e2, _⟩ := a2
    simp only at e2
    -- the skipping loop stopped before the cut
    have hl1 : (s :: v).length < (c :: r).length := by
      rw [e2, eb]; simp only [List.length_cons, List.length_append]; omega
    obtain ⟨w', ew, hs⟩ := skip_local hc v y w.length w (Nat.le_refl _) .normal p q (c :: r) h1 hl1
    match w', ew with
    | [], ew =>
      rw [List.nil_append] at ew
      rw [ew] at hl1
      exact absurd hl1 (Nat.lt_irrefl _)
    | c' :: w'', ew =>
      rw [List.cons_append] at ew
      obtain ⟨rfl, er⟩ := List.cons.inj ew
      subst er
      -- the token ended at or before the cut
      have hl2 : (s :: v).length ≤ rest1.length := by
        rw [eb]; simp only [List.length_cons, List.length_append]; omega
      obtain ⟨w₁, e₁, ht⟩ := scanToken_local hc v y c w'' q tok q1 rest1 h2 hl2
      exact Run.step hs ht (ih w₁ t e₁ rfl)

/-- `u` ends at a token boundary of `u ++ X`: after the tokens `ts` the lexer is in its skipping loop, in
    normal mode, at the end of `u` — the last token ended at `u₀`, and what follows it in `u` is trivia -/
def TokenBoundary (u X : List Ch) (ts : List Token) : Prop :=
  ∃ u₀ t, u = u₀ ++ t ∧ Trivia t ∧ Run 0 (u ++ X) ts (bytes u₀) (t ++ X)

theorem lexN_skip_congr {p p' : Nat} {cs cs' : List Ch} (h : skip .normal p cs = skip .normal p' cs') (f : Nat) :
    lexN (f + 1) p cs = lexN (f + 1) p' cs' := by
  simp only [lexN, h]

/-- the tokens of `u ++ X` from a token boundary at the end of `u` on: those of `X` from there -/
theorem lex_at_boundary {u X : List Ch} {ts : List Token} (h : TokenBoundary u X ts) :
    lex (u ++ X) = ts ++ lexN (X.length + 1) (bytes u) X := by
  obtain ⟨u₀, t, eu, ht, hrun⟩ := h
  obtain ⟨b, eb, hl⟩ := run_suffix hrun
  have hb : b = u₀ := by
    rw [eu, List.append_assoc] at eb
    exact (List.append_cancel_right eb).symm
  subst hb
  unfold lex
  have hlen : (u ++ X).length + 1 = (t.length + X.length + (b.length - ts.length)) + 1 + ts.length := by
    rw [eu]; simp only [List.length_append]; omega
  rw [hlen, run_lexN hrun, lexN_skip_congr (skip_trivia ht (bytes b) X),
    lexN_fuel_indep _ (X.length + 1) _ X (by omega) (by omega), eu, bytes_append]

theorem lexN_as_lex (f p : Nat) (v : List Ch) (hf : v.length < f) : lexN f p v = (lex v).map (Token.shift p) := by
  have := lexN_shift p f 0 v
  rw [Nat.add_zero] at this
  rw [this, lex, lexN_fuel_indep f (v.length + 1) 0 v hf (by omega)]

theorem tokenBoundary_transfer {s o : Ch} (hc : CutChars s o) {u v : List Ch} (y : List Ch) {ts : List Token}
    (h : TokenBoundary u (s :: v) ts) : TokenBoundary u (o :: y) ts := by
  obtain ⟨u₀, t, eu, ht, hrun⟩ := h
  exact ⟨u₀, t, eu, ht, run_transfer hc v y hrun u t rfl rfl⟩

/-- BLOCK COMMENTS ARE TRIVIA -/
theorem lex_comment_at_boundary {o s : Ch} {c' : List Ch} (h : WellNested (o :: c')) (ho : o.alnum = false)
    (hs : s.ws = true) (hs32 : s.cp = 32) (hsa : s.alnum = false) {u v : List Ch} {ts : List Token}
    (hb : TokenBoundary u (s :: v) ts) :
    lex (u ++ (o :: c') ++ v) = ts ++ (lex v).map (Token.shift (bytes u + bytes (o :: c'))) ∧
    lex (u ++ s :: v) = ts ++ (lex v).map (Token.shift (bytes u + s.len)) := by
  have ho47 : o.cp = 47 := by
    cases c' with
    | nil => exact h.elim
    | cons st body => exact h.1
  have hc : CutChars s o := ⟨hs32, hsa, ho47, ho⟩
  constructor
  · have hb' : TokenBoundary u ((o :: c') ++ v) ts := tokenBoundary_transfer hc (c' ++ v) hb
    rw [List.append_assoc, lex_at_boundary hb',
      lexN_skip_congr (skip_wellNested h (bytes u) v), lexN_as_lex _ _ _ (by simp only [List.length_append, List.length_cons]; omega)]
  · rw [lex_at_boundary hb, lexN_skip_congr (skip_ws hs (bytes u) v),
      lexN_as_lex _ _ _ (by simp only [List.length_cons]; omega)]

/-- the first `n` tokens and the token boundary after them (`none` when the text ends before): decides `Run` -/
def runN : Nat → Nat → List Ch → Option (List Token × Nat × List Ch)
  | 0, p, cs => some ([], p, cs)
  | n + 1, p, cs =>
    match skip .normal p cs with
    | (_, []) => none
    | (q, c :: r) =>
      match runN n (scanToken q c r).2.1 (scanToken q c r).2.2 with
      | some (ts, q', rest) => some ((scanToken q c r).1 :: ts, q', rest)
      | none => none

theorem runN_sound : ∀ (n p : Nat) (cs : List Ch) (ts : List Token) (q : Nat) (rest : List Ch),
    runN n p cs = some (ts, q, rest) → Run p cs ts q rest := by
  intro n
  induction n with
  | zero =>
    intro p cs ts q rest h
    simp only [runN, Option.some.injEq, Prod.mk.injEq] at h
    obtain ⟨rfl, rfl, rfl⟩ := h
    exact Run.refl _ _
  | succ n ih =>
    intro p cs ts q rest h
    rw [runN] at h
    split at h
    · cases h
    · next q0 c r hs =>
      split at h
      · next ts' q' rest' hr =>
        simp only [Option.some.injEq, Prod.mk.injEq] at h
        obtain ⟨rfl, rfl, rfl⟩ := h
        exact Run.step hs rfl (ih _ _ _ _ _ hr)
      · cases h

end Neumann.Parse.Lex
