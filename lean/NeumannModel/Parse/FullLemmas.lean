import NeumannModel.Parse.Full
import NeumannModel.Parse.Lemmas
/-
  C15 — helper lemmas for the complete expression grammar model (`Parse/Full.lean`).
  Core Lean only (no Mathlib).
-/
namespace Neumann.Parse.Full

/-! ### running the machine -/

theorem step_done (mode : Mode) (r : Res) (S : List Frame) (ts : List Tok) :
    step mode ⟨.done r, S, ts⟩ = ⟨.done r, S, ts⟩ := rfl

theorem run_done (mode : Mode) (n : Nat) (r : Res) (S : List Frame) (ts : List Tok) :
    run mode n ⟨.done r, S, ts⟩ = ⟨.done r, S, ts⟩ := by
  induction n with
  | zero => rfl
  | succ n ih => simp only [run, step_done, ih]

theorem run_add (mode : Mode) (a b : Nat) (st : St) :
    run mode (a + b) st = run mode b (run mode a st) := by
  induction a generalizing st with
  | zero => simp [run]
  | succ a ih => rw [Nat.succ_add]; simp only [run]; exact ih _

/-- `b` is reached from `a` in some number of steps -/
def Reach (mode : Mode) (a b : St) : Prop := ∃ n, run mode n a = b

theorem Reach.refl (mode : Mode) (a : St) : Reach mode a a := ⟨0, rfl⟩

theorem Reach.trans {mode : Mode} {a b c : St} (h1 : Reach mode a b) (h2 : Reach mode b c) :
    Reach mode a c := by
  obtain ⟨n1, e1⟩ := h1
  obtain ⟨n2, e2⟩ := h2
  exact ⟨n1 + n2, by rw [run_add, e1, e2]⟩

theorem Reach.one {mode : Mode} {a b : St} (h : step mode a = b) : Reach mode a b :=
  ⟨1, by simp [run, h]⟩

theorem Reach.head {mode : Mode} {a b c : St} (h : step mode a = b) (h2 : Reach mode b c) :
    Reach mode a c := (Reach.one h).trans h2

/-! ### lists -/

theorem EL.snoc_append : ∀ (a : EL) (e : E) (l : EL), (a.snoc e).append l = a.append (.cons e l)
  | .nil, _, _ => rfl
  | .cons x a, e, l => by simp only [EL.snoc, EL.append, EL.snoc_append a e l]

theorem EL.append_nil : ∀ a : EL, a.append .nil = a
  | .nil => rfl
  | .cons x a => by simp only [EL.append, EL.append_nil a]

theorem EL.snoc_eq_append (a : EL) (e : E) : a.snoc e = a.append (.cons e .nil) := by
  rw [← EL.snoc_append, EL.append_nil]

theorem WL.snoc_append : ∀ (a : WL) (c r : E) (l : WL), (a.snoc c r).append l = a.append (.cons c r l)
  | .nil, _, _, _ => rfl
  | .cons c0 r0 a, c, r, l => by simp only [WL.snoc, WL.append, WL.snoc_append a c r l]

theorem WL.append_nil : ∀ a : WL, a.append .nil = a
  | .nil => rfl
  | .cons c0 r0 a => by simp only [WL.append, WL.append_nil a]

/-! ### when a frame stops -/

/-- the head of the remaining input makes the loop of a frame running at `min_bp = b` stop without
    consuming anything: it is not a postfix starter, not `(`, and not an operator that binds at
    least as tightly as `b` -/
def headStops (b : Nat) (X : List Tok) : Prop :=
  (match loopArm X with
   | .stop => True
   | .binary o _ => lbp o < b
   | _ => False) ∧ X.head? ≠ some .lparen

theorem loop_stops {mode : Mode} {m s : Nat} {e : E} {S : List Frame} {X : List Tok}
    (h : headStops m X) : step mode ⟨.loop m s e, S, X⟩ = ⟨.ret e, S, X⟩ := by
  obtain ⟨h1, _⟩ := h
  simp only [step, stepLoop]
  cases ha : loopArm X with
  | stop => rfl
  | binary o r => simp only [ha] at h1; simp [h1]
  | isArm r => simp [ha] at h1
  | inArm n r => simp [ha] at h1
  | betArm n r => simp [ha] at h1
  | likeArm n r => simp [ha] at h1
  | dotArm r => simp [ha] at h1

theorem headStops_mono {a b : Nat} {X : List Tok} (h : a ≤ b) (hs : headStops a X) : headStops b X := by
  obtain ⟨h1, h2⟩ := hs
  refine ⟨?_, h2⟩
  cases ha : loopArm X <;> simp only [ha] at h1 ⊢
  omega

theorem headStops_nil (b : Nat) : headStops b [] := by simp [headStops, loopArm]

theorem headStops_op {b : Nat} {o : BinOp} {X : List Tok} (h : lbp o < b) : headStops b (.op o :: X) := by
  simp [headStops, loopArm, h]

theorem headStops_nolparen {b : Nat} {X : List Tok} (h : headStops b X) : X.head? ≠ some .lparen := h.2

end Neumann.Parse.Full
