import NeumannModel.Parse.Text
import NeumannModel.Parse.LexProps
import NeumannModel.Parse.FullProps
/-
  C15 — property theorems for the expression parser ON TEXT (`Parse/Text.lean`): the lexer model,
  the parser's view of a token, and the complete expression grammar model composed.
  ONLY property statements and their non-vacuity examples live here.

  All statements are for EVERY source text and EVERY answer of the Unicode tables, and for both
  copies of the expression grammar.
-/
namespace Neumann.Parse.Text.Props
open Neumann.Parse

/-- Totality on text: every string yields a tree, a parse error, or (statement mode only)
    `outside` — the lexer reaches `Eof` and the parser's run finishes. -/
theorem text_total (mode : Full.Mode) (src : List Lex.Ch) : parseText mode src ≠ .error .fuel := by
  unfold parseText
  have := Full.Props.full_total mode ((Lex.lex src).dropLast.map tokOf)
  simp only
  split <;> simp_all

/-- Every error carries a position INSIDE THE INPUT: a byte offset that is at most the length of
    the text and lies on a character boundary (it is the start of one of the tokens, or the end of
    the text) — so `format_with_source`, which slices the source there, cannot go out of range. -/
theorem text_error_position_in_input (mode : Full.Mode) (src : List Lex.Ch) (e : TErr)
    (h : parseText mode src = .error e) : e.pos ≤ Lex.bytes src ∧ Lex.Boundary src e.pos := by
  have hpos : ∀ rem, posOf (Lex.lex src) rem ≤ Lex.bytes src ∧ Lex.Boundary src (posOf (Lex.lex src) rem) := by
    intro rem
    unfold posOf
    split
    · next t ht =>
      have hm : t ∈ Lex.lex src := List.mem_of_getElem? ht
      have h1 := Lex.Props.lex_spans_in_input src t hm
      have h2 := Lex.Props.lex_spans_on_char_boundaries src t hm
      exact ⟨by omega, h2.1⟩
    · exact ⟨Nat.zero_le _, [], src, rfl, rfl⟩
  unfold parseText at h
  simp only at h
  split at h <;> simp only [TRes.error.injEq, reduceCtorEq] at h <;> subst h <;>
    first | exact hpos _ | exact ⟨Nat.zero_le _, [], src, rfl, rfl⟩

/-- ASCII text with the answers Rust's tables give (for the examples) -/
def text (s : String) : List Lex.Ch := s.toList.map Lex.Props.ascii

example : parseText .expr (text "a IS NOT NULL") = .ok (.isNull (.ident 0) true) := by decide +kernel
example : parseText .expr (text "- x.y * 2") =
    .ok (.bin (.un .neg (.qual (.ident 2) 4)) .mul (.lit 8)) := by decide +kernel
example : parseText .expr (text "f(1,") = .error (.eof .expression 4) := by decide +kernel
example : parseText .expr (text "a + ) b") = .error (.unexpected .expression 4) := by decide +kernel
example : parseText .expr (text "(1).*") = .error (.invalid .qualWild 0) := by decide +kernel
example : parseText .expr (text "1 'open") = .error (.unexpected .endOfExpr 2) := by decide +kernel
example : parseText .stmt (text "EXISTS (") = .outside := by decide +kernel

end Neumann.Parse.Text.Props
