import NeumannModel.Parse.Insert
/-
  Lemmas about the INSERT … VALUES model (`Parse/Insert.lean`): what `fill` does to one key, and the loop
  over an appended tuple list.
-/
namespace Neumann.Parse.Insert

variable {C V : Type} [DecidableEq C]

theorem get_put_same (m : RowMap C V) (c : C) (v : V) : get (put m c v) c = some v := by
  simp [put, get]

theorem get_put_other (m : RowMap C V) (c c' : C) (v : V) (h : c ≠ c') : get (put m c v) c' = get m c' := by
  simp [put, get, h]

/-- a column outside the zipped prefix keeps what the map held before -/
theorem get_fill_of_not_mem (m : RowMap C V) (cs : List C) (vs : List V) (c : C)
    (h : c ∉ cs.take vs.length) : get (fill m cs vs) c = get m c := by
  induction cs generalizing m vs with
  | nil => cases vs <;> rfl
  | cons k cs ih =>
    cases vs with
    | nil => rfl
    | cons v vs =>
      simp only [List.length_cons, List.take_succ_cons, List.mem_cons, not_or] at h
      rw [fill, ih (put m k v) vs h.2, get_put_other _ _ _ _ (fun e => h.1 e.symm)]

/-- a column of the zipped prefix has an entry afterwards -/
theorem get_fill_isSome_of_mem (m : RowMap C V) (cs : List C) (vs : List V) (c : C)
    (h : c ∈ cs.take vs.length) : (get (fill m cs vs) c).isSome = true := by
  induction cs generalizing m vs with
  | nil => cases vs <;> simp at h
  | cons k cs ih =>
    cases vs with
    | nil => simp at h
    | cons v vs =>
      simp only [List.length_cons, List.take_succ_cons, List.mem_cons] at h
      rw [fill]
      by_cases hc : c ∈ cs.take vs.length
      · exact ih (put m k v) vs hc
      · rw [get_fill_of_not_mem _ _ _ _ hc]
        rcases h with h | h
        · subst h; simp [get_put_same]
        · exact absurd h hc

/-- the value at position `i` of the tuple goes to the column at position `i` of a duplicate-free column list -/
theorem get_fill_at (m : RowMap C V) (cs : List C) (vs : List V) (hn : cs.Nodup)
    (i : Nat) (hc : i < cs.length) (hv : i < vs.length) : get (fill m cs vs) cs[i] = some vs[i] := by
  induction cs generalizing m vs i with
  | nil => simp at hc
  | cons k cs ih =>
    cases vs with
    | nil => simp at hv
    | cons v vs =>
      rw [List.nodup_cons] at hn
      rw [fill]
      cases i with
      | zero =>
        simp only [List.getElem_cons_zero]
        rw [get_fill_of_not_mem _ _ _ _ (fun h => hn.1 (List.mem_of_mem_take h)), get_put_same]
      | succ i =>
        simp only [List.getElem_cons_succ]
        exact ih (put m k v) vs hn.2 i (by simpa using hc) (by simpa using hv)

omit [DecidableEq C] in
theorem execLoop_append (target : List C) (xs ys : List (List V)) :
    execLoop target (xs ++ ys) = execLoop target xs ++ execLoop target ys := by
  induction xs with
  | nil => rfl
  | cons x xs ih => simp [execLoop, ih]

omit [DecidableEq C] in
theorem execLoop_length (target : List C) (xs : List (List V)) : (execLoop target xs).length = xs.length := by
  induction xs with
  | nil => rfl
  | cons x xs ih => simp [execLoop, ih]

end Neumann.Parse.Insert
