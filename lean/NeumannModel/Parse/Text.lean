import NeumannModel.Parse.Lex
import NeumannModel.Parse.Full
/-
  C15 — the expression parser ON TEXT: `neumann_parser::parse_expr(source)` (and an expression
  position of the statement parser) as the composition of the lexer model (`Lex.lean`), the
  parser's view of a token (`tokOf`: which arm of `parse_prefix` / `parse_postfix` /
  `current_binary_op` a `TokenKind` selects, `is_contextual_keyword` from `token.rs`), and the
  complete expression grammar model (`Full.lean`).  Import-free, total, computable.

  Names and values are not copied into the abstract tokens: an identifier / literal / contextual
  keyword / aggregate token is identified by the byte offset of its first character (`Tok.ident lo`
  …), which is also where the real AST's name or value is read from the source.  An error position
  is the byte offset the real `ParseError::span.start` has: the start of the token the error
  points at, or the end of the text for the errors raised at `Eof`.
-/
namespace Neumann.Parse.Text
open Neumann.Parse

/-- `TokenKind::is_contextual_keyword` (variant names) -/
def contextual : List String :=
  ["Status", "Nodes", "Leader", "Connect", "Disconnect", "Cluster",
   "Blobs", "Info", "Link", "Unlink", "Links", "Tag", "Untag", "Verify", "Gc", "Repair", "Meta", "Artifacts",
   "Height", "Transitions", "Tip", "Block", "Codebook", "Global", "Local", "Drift", "Analyze", "History",
   "Begin", "Commit", "Transaction",
   "PageRank", "Betweenness", "Closeness", "Eigenvector", "Centrality", "Louvain", "Communities", "Propagation",
   "Damping", "Tolerance", "Iterations", "Sampling", "Resolution", "Passes",
   "Weighted", "Variable", "Hops", "Depth", "Skip", "Total", "Pattern", "Aggregate", "Property", "Type", "Graph",
   "Int", "Float_", "Boolean", "Text"]

/-- `Count | Sum | Avg | Min | Max` -/
def aggregates : List String := ["Count", "Sum", "Avg", "Min", "Max"]

/-- `current_binary_op` -/
def opOf : String → Option BinOp
  | "Plus" => some .add | "Minus" => some .sub | "Star" => some .mul | "Slash" => some .div
  | "Percent" => some .mod | "Eq" => some .eq | "Ne" => some .ne | "Lt" => some .lt | "Le" => some .le
  | "Gt" => some .gt | "Ge" => some .ge | "And" => some .and | "Or" => some .or | "Concat" => some .concat
  | "Amp" => some .bitAnd | "Pipe" => some .bitOr | "Caret" => some .bitXor | "Shl" => some .shl
  | "Shr" => some .shr | _ => none

/-- punctuation and the keywords the expression grammar tests for -/
def fixedOf : String → Option Full.Tok
  | "Null" => some .null
  | "LParen" => some .lparen | "RParen" => some .rparen | "LBracket" => some .lbracket
  | "RBracket" => some .rbracket | "Comma" => some .comma | "Dot" => some .dot
  | "Not" => some .notKw | "Bang" => some .bang | "Tilde" => some .tilde
  | "Is" => some .isKw | "In" => some .inKw | "Between" => some .betweenKw | "Like" => some .likeKw
  | "Case" => some .caseKw | "When" => some .whenKw | "Then" => some .thenKw | "Else" => some .elseKw
  | "End" => some .endKw | "Distinct" => some .distinctKw | "Exists" => some .existsKw
  | "Select" => some .selectKw | "Cast" => some .castKw
  | _ => none

/-- the expression parser's view of a token -/
def tokOf (t : Lex.Token) : Full.Tok :=
  match t.kind with
  | .ident => .ident t.lo
  | .integer _ => .lit t.lo
  | .float => .lit t.lo
  | .str _ => .lit t.lo
  | .name v =>
    match opOf v with
    | some o => .op o
    | none =>
      match fixedOf v with
      | some k => k
      | none =>
        if v = "True" ∨ v = "False" then .lit t.lo
        else if aggregates.contains v then .agg t.lo
        else if contextual.contains v then .kw t.lo
        else .other
  -- `TokenKind::Error(_)` starts nothing and continues nothing
  | _ => .other

/-- byte offset an error `rem` tokens before the end points at (`lexed` ends with `Eof`) -/
def posOf (lexed : List Lex.Token) (rem : Nat) : Nat :=
  match lexed[lexed.length - 1 - rem]? with
  | some t => t.lo
  | none => 0

inductive TErr
  | tooDeep (pos : Nat)
  | eof (x : Full.Expect) (pos : Nat)
  | unexpected (x : Full.Expect) (pos : Nat)
  | invalid (w : Full.Invalid) (pos : Nat)
  | fuel
  deriving DecidableEq, Repr

inductive TRes
  | ok (e : Full.E)
  | error (e : TErr)
  | outside
  deriving DecidableEq, Repr

def TErr.pos : TErr → Nat
  | .tooDeep p => p | .eof _ p => p | .unexpected _ p => p | .invalid _ p => p | .fuel => 0

/-- `parse_expr(source)` / the WHERE clause of `parse("SELECT * FROM t WHERE " + source)` -/
def parseText (mode : Full.Mode) (src : List Lex.Ch) : TRes :=
  let lexed := Lex.lex src
  match Full.parse mode (lexed.dropLast.map tokOf) with
  | .ok e => .ok e
  | .outside => .outside
  | .error (.tooDeep rem) => .error (.tooDeep (posOf lexed rem))
  | .error (.eof x) => .error (.eof x (posOf lexed 0))
  | .error (.unexpected x rem) => .error (.unexpected x (posOf lexed rem))
  | .error (.invalid w rem) => .error (.invalid w (posOf lexed rem))
  | .error .fuel => .error .fuel

end Neumann.Parse.Text
