import NeumannModel.Parse.Lex
/-
  C15 — helper lemmas for the lexer model (`Parse/Lex.lean`).  Core Lean only (no Mathlib).
-/
namespace Neumann.Parse.Lex

theorem len_pos (c : Ch) : 1 ≤ c.len := by
  unfold Ch.len; split <;> (try split) <;> (try split) <;> omega

theorem bytes_append (a b : List Ch) : bytes (a ++ b) = bytes a + bytes b := by
  induction a with
  | nil => simp [bytes]
  | cons c a ih => simp only [List.cons_append, bytes, ih]; omega

/-- scanning from `(p, cs)` to `(q, rest)` consumes a prefix of `cs` and advances the position by
    exactly its length in bytes -/
def Adv (p : Nat) (cs : List Ch) (q : Nat) (rest : List Ch) : Prop :=
  ∃ taken, cs = taken ++ rest ∧ q = p + bytes taken

theorem Adv.refl (p : Nat) (cs : List Ch) : Adv p cs p cs := ⟨[], rfl, by simp [bytes]⟩

theorem Adv.cons {p q : Nat} {c : Ch} {r rest : List Ch} (h : Adv (p + c.len) r q rest) :
    Adv p (c :: r) q rest := by
  obtain ⟨t, e1, e2⟩ := h
  exact ⟨c :: t, by rw [e1]; rfl, by simp only [bytes]; omega⟩

theorem Adv.cons2 {p q : Nat} {c d : Ch} {r rest : List Ch} (h : Adv (p + c.len + d.len) r q rest) :
    Adv p (c :: d :: r) q rest := Adv.cons (Adv.cons h)

theorem Adv.trans {p q s : Nat} {cs mid rest : List Ch} (h1 : Adv p cs q mid) (h2 : Adv q mid s rest) :
    Adv p cs s rest := by
  obtain ⟨t1, e1, e2⟩ := h1
  obtain ⟨t2, e3, e4⟩ := h2
  exact ⟨t1 ++ t2, by rw [e1, e3, List.append_assoc], by rw [bytes_append]; omega⟩

theorem Adv.le {p q : Nat} {cs rest : List Ch} (h : Adv p cs q rest) : p ≤ q := by
  obtain ⟨t, _, e⟩ := h; omega

theorem Adv.length_le {p q : Nat} {cs rest : List Ch} (h : Adv p cs q rest) : rest.length ≤ cs.length := by
  obtain ⟨t, e, _⟩ := h; rw [e]; simp

theorem skip_adv : ∀ (mode : Mode) (p : Nat) (cs : List Ch), Adv p cs (skip mode p cs).1 (skip mode p cs).2 := by
  intro mode p cs
  fun_induction skip mode p cs <;> (try simp_all [Adv.refl]) <;>
    first
    | exact Adv.refl _ _
    | (apply Adv.cons; assumption)
    | (apply Adv.cons2; assumption)
    | (apply Adv.cons; exact Adv.refl _ _)
    | skip

theorem takeW_adv (f : Ch → Bool) : ∀ (p : Nat) (cs : List Ch), Adv p cs (takeW f p cs).1 (takeW f p cs).2 := by
  intro p cs
  induction cs generalizing p with
  | nil => exact Adv.refl _ _
  | cons c r ih =>
    simp only [takeW]
    split
    · exact Adv.cons (ih _)
    · exact Adv.refl _ _

theorem scanStr_adv (q : Nat) : ∀ (acc : List Nat) (p : Nat) (cs : List Ch),
    Adv p cs (scanStr q acc p cs).2.1 (scanStr q acc p cs).2.2 := by
  intro acc p cs
  fun_induction scanStr q acc p cs <;> (try simp_all [Adv.refl]) <;>
    first
    | exact Adv.refl _ _
    | (apply Adv.cons; assumption)
    | (apply Adv.cons2; assumption)
    | (apply Adv.cons; exact Adv.refl _ _)
    | skip

theorem scanFrac_adv (p : Nat) (cs : List Ch) : Adv p cs (scanFrac p cs).2.1 (scanFrac p cs).2.2 := by
  unfold scanFrac
  split
  · split
    · exact Adv.cons (takeW_adv isDigit _ _)
    · exact Adv.refl _ _
  · exact Adv.refl _ _

theorem scanSign_adv (p : Nat) (cs : List Ch) : Adv p cs (scanSign p cs).1 (scanSign p cs).2 := by
  unfold scanSign
  split
  · split
    · exact Adv.cons (Adv.refl _ _)
    · exact Adv.refl _ _
  · exact Adv.refl _ _

theorem scanExp_adv (p : Nat) (cs : List Ch) : Adv p cs (scanExp p cs).2.2.1 (scanExp p cs).2.2.2 := by
  unfold scanExp
  split
  · split
    · exact Adv.cons ((scanSign_adv _ _).trans (takeW_adv isDigit _ _))
    · exact Adv.refl _ _
  · exact Adv.refl _ _

theorem scanNumber_adv (c0 : Ch) (p : Nat) (r : List Ch) :
    Adv p r (scanNumber c0 p r).2.1 (scanNumber c0 p r).2.2 := by
  unfold scanNumber
  exact ((takeW_adv isDigit p r).trans (scanFrac_adv _ _)).trans (scanExp_adv _ _)

/-- what `scanToken` returns: a token that starts where the scan started and ends where it
    stopped, at least the first character consumed, and never `Eof` -/
theorem scanToken_spec (p : Nat) (c : Ch) (r : List Ch) :
    (scanToken p c r).1.lo = p ∧ (scanToken p c r).1.hi = (scanToken p c r).2.1 ∧
    Adv (p + c.len) r (scanToken p c r).2.1 (scanToken p c r).2.2 ∧
    (scanToken p c r).1.kind ≠ .eof ∧ (scanToken p c r).1.kind ≠ .fuel := by
  unfold scanToken
  simp only
  split
  · refine ⟨rfl, rfl, takeW_adv _ _ _, ?_, ?_⟩ <;> (simp only; split <;> simp)
  · split
    · refine ⟨rfl, rfl, scanNumber_adv c _ _, ?_, ?_⟩ <;>
        (simp only [scanNumber]; split <;> (try split) <;> simp)
    · split
      · refine ⟨rfl, rfl, scanStr_adv _ _ _ _, ?_, ?_⟩ <;> (simp only; split <;> simp)
      · split
        · next v two _ =>
          cases two with
          | false => exact ⟨rfl, rfl, Adv.refl _ _, by simp, by simp⟩
          | true =>
            simp only [if_true]
            cases r with
            | nil => exact ⟨rfl, rfl, Adv.refl _ _, by simp, by simp⟩
            | cons d r' => exact ⟨rfl, rfl, Adv.cons (Adv.refl _ _), by simp, by simp⟩
        · exact ⟨rfl, rfl, Adv.refl _ _, by simp, by simp⟩

/-- `p` is the byte offset of the suffix `cs` of the source -/
def At (src : List Ch) (p : Nat) (cs : List Ch) : Prop := ∃ pre, src = pre ++ cs ∧ bytes pre = p

/-- `k` is the byte offset of a character boundary of the source (what `&source[a..b]` needs) -/
def Boundary (src : List Ch) (k : Nat) : Prop := ∃ pre post, src = pre ++ post ∧ bytes pre = k

theorem At.adv {src : List Ch} {p q : Nat} {cs rest : List Ch} (h : At src p cs) (a : Adv p cs q rest) :
    At src q rest := by
  obtain ⟨pre, e1, e2⟩ := h
  obtain ⟨t, e3, e4⟩ := a
  exact ⟨pre ++ t, by rw [e1, e3, List.append_assoc], by rw [bytes_append]; omega⟩

theorem At.boundary {src : List Ch} {p : Nat} {cs : List Ch} (h : At src p cs) : Boundary src p := by
  obtain ⟨pre, e1, e2⟩ := h
  exact ⟨pre, cs, e1, e2⟩

theorem At.nil {src : List Ch} {p : Nat} (h : At src p []) : p = bytes src := by
  obtain ⟨pre, e1, e2⟩ := h
  rw [e1, List.append_nil, e2]

theorem Boundary.le {src : List Ch} {k : Nat} (h : Boundary src k) : k ≤ bytes src := by
  obtain ⟨pre, post, e1, e2⟩ := h
  rw [e1, bytes_append]; omega

/-- The shape of a token stream over `src`, read from byte offset `start`: every token but the last
    is a non-empty piece of the source lying on character boundaries, at or after the end of its
    predecessor, and is neither `Eof` nor the fuel marker; the last one is `Eof` at the very end. -/
def WellSpanned (src : List Ch) : Nat → List Token → Prop
  | _, [] => False
  | start, [t] => t.kind = .eof ∧ start ≤ t.lo ∧ t.lo = bytes src ∧ t.hi = bytes src
  | start, t :: t2 :: rest =>
    t.kind ≠ .eof ∧ t.kind ≠ .fuel ∧ start ≤ t.lo ∧ t.lo < t.hi ∧ Boundary src t.lo ∧ Boundary src t.hi ∧
      WellSpanned src t.hi (t2 :: rest)

theorem lexN_ne_nil (fuel p : Nat) (cs : List Ch) : lexN fuel p cs ≠ [] := by
  cases fuel with
  | zero => simp [lexN]
  | succ f =>
    simp only [lexN]
    split <;> simp

theorem lexN_ok (src : List Ch) : ∀ (fuel p : Nat) (cs : List Ch), cs.length < fuel → At src p cs →
    WellSpanned src p (lexN fuel p cs) := by
  intro fuel
  induction fuel with
  | zero => intro p cs h; omega
  | succ f ih =>
    intro p cs hl hat
    have hs := skip_adv .normal p cs
    simp only [lexN]
    split
    · next q hq =>
      rw [hq] at hs
      have := (hat.adv hs).nil
      exact ⟨rfl, hs.le, this, this⟩
    · next q c r hq =>
      rw [hq] at hs
      have hat2 := hat.adv hs
      obtain ⟨h1, h2, h3, h4, h5⟩ := scanToken_spec q c r
      have hadv : Adv q (c :: r) (scanToken q c r).2.1 (scanToken q c r).2.2 := Adv.cons h3
      have hat3 := hat2.adv hadv
      have hlen : (scanToken q c r).2.2.length < f := by
        have a := h3.length_le
        have b := hs.length_le
        simp only [List.length_cons] at b
        omega
      have hrec := ih _ _ hlen hat3
      have hlt : q < (scanToken q c r).2.1 := by have := h3.le; have := len_pos c; omega
      obtain ⟨t2, rest, hne⟩ := List.exists_cons_of_ne_nil (lexN_ne_nil f (scanToken q c r).2.1 (scanToken q c r).2.2)
      rw [hne] at hrec ⊢
      refine ⟨h4, h5, ?_, ?_, ?_, ?_, ?_⟩
      · rw [h1]; exact hs.le
      · rw [h1, h2]; exact hlt
      · rw [h1]; exact hat2.boundary
      · rw [h2]; exact hat3.boundary
      · rw [h2]; exact hrec

/-! ### reading the shape -/

theorem ws_mem {src : List Ch} : ∀ (toks : List Token) (start : Nat), WellSpanned src start toks →
    ∀ t ∈ toks, t.kind ≠ .fuel ∧ start ≤ t.lo ∧ t.lo ≤ t.hi ∧ t.hi ≤ bytes src ∧
      Boundary src t.lo ∧ Boundary src t.hi
  | [], _, h => by simp [WellSpanned] at h
  | [t], start, h => by
      intro t' ht'
      simp only [List.mem_singleton] at ht'
      subst ht'
      obtain ⟨h1, h2, h3, h4⟩ := h
      refine ⟨by rw [h1]; simp, h2, by omega, by omega, ?_, ?_⟩
      · exact ⟨src, [], by simp, h3.symm⟩
      · exact ⟨src, [], by simp, h4.symm⟩
  | t :: t2 :: rest, start, h => by
      intro t' ht'
      obtain ⟨h1, h2, h3, h4, h5, h6, h7⟩ := h
      rcases List.mem_cons.1 ht' with e | e
      · subst e
        exact ⟨h2, h3, Nat.le_of_lt h4, h6.le, h5, h6⟩
      · obtain ⟨a, b, c, d, e1, e2⟩ := ws_mem (t2 :: rest) _ h7 t' e
        exact ⟨a, by omega, c, d, e1, e2⟩

theorem ws_pairwise {src : List Ch} : ∀ (toks : List Token) (start : Nat), WellSpanned src start toks →
    toks.Pairwise (fun a b => a.hi ≤ b.lo)
  | [], _, h => by simp [WellSpanned] at h
  | [t], _, _ => by simp
  | t :: t2 :: rest, start, h => by
      obtain ⟨_, _, _, _, _, _, h7⟩ := h
      refine List.pairwise_cons.2 ⟨?_, ws_pairwise (t2 :: rest) _ h7⟩
      intro b hb
      exact (ws_mem (t2 :: rest) _ h7 b hb).2.1

theorem ws_last {src : List Ch} : ∀ (toks : List Token) (start : Nat), WellSpanned src start toks →
    ∃ init, toks = init ++ [⟨.eof, bytes src, bytes src⟩] ∧ ∀ t ∈ init, t.kind ≠ .eof ∧ t.lo < t.hi
  | [], _, h => by simp [WellSpanned] at h
  | [t], _, h => by
      obtain ⟨h1, _, h3, h4⟩ := h
      refine ⟨[], ?_, by simp⟩
      obtain ⟨k, lo, hi⟩ := t
      simp only at h1 h3 h4
      subst h1 h3 h4
      rfl
  | t :: t2 :: rest, start, h => by
      obtain ⟨h1, _, _, h4, _, _, h7⟩ := h
      obtain ⟨init, e, hi⟩ := ws_last (t2 :: rest) _ h7
      refine ⟨t :: init, by rw [e]; rfl, ?_⟩
      intro t' ht'
      rcases List.mem_cons.1 ht' with e' | e'
      · subst e'; exact ⟨h1, h4⟩
      · exact hi t' e'


/-! ### block comments are trivia

  `Closes k cs` is the block-comment loop of `skip` written as a relation: read from inside a block comment
  with `k` enclosing comments still open besides the current one, `cs` is exactly the text up to and including
  the `*/` that closes the outermost.  Its four rules are the four arms of the loop (a `/*` opens, a `*/`
  closes — both recognised by look-ahead and consumed as a pair — every other character is skipped alone).
  `WellNested c`: `c` is `/*` followed by such a text (the `/` must not be whitespace in the Unicode table the
  text comes with: `skip` asks `is_whitespace` first).  `closesB` decides it; `closes_star_run`,
  `closes_slash_run`, `closes_plain`, `closes_append`, `closes_wellNested` are the grammar view: star runs of
  any length before a `*`, slash runs of any length before a `/`, any other characters, comments inside
  comments to any depth. -/

/-- well-nestedness as the model's scanner recognises it (see above) -/
inductive Closes : Nat → List Ch → Prop
  | close (c d : Ch) : c.cp = 42 → d.cp = 47 → Closes 0 [c, d]
  | closeInner (k : Nat) (c d : Ch) (r : List Ch) : c.cp = 42 → d.cp = 47 → Closes k r → Closes (k + 1) (c :: d :: r)
  | openInner (k : Nat) (c d : Ch) (r : List Ch) : c.cp = 47 → d.cp = 42 → Closes (k + 1) r → Closes k (c :: d :: r)
  | other (k : Nat) (c d : Ch) (r : List Ch) : ¬(c.cp = 47 ∧ d.cp = 42) → ¬(c.cp = 42 ∧ d.cp = 47) →
      Closes k (d :: r) → Closes k (c :: d :: r)

/-- a properly terminated block comment: `/*`, then a text that the loop reads to its end exactly -/
def WellNested : List Ch → Prop
  | o :: s :: body => o.cp = 47 ∧ o.ws = false ∧ s.cp = 42 ∧ Closes 0 body
  | _ => False

/-- one step of the block-comment loop, for every depth (the equation lemmas split on the depth) -/
theorem skip_block_cons2 (k p : Nat) (c d : Ch) (r : List Ch) :
    skip (.block k) p (c :: d :: r) =
      if c.cp = 47 ∧ d.cp = 42 then skip (.block (k + 1)) (p + c.len + d.len) r
      else if c.cp = 42 ∧ d.cp = 47 then
        (match k with
         | 0 => skip .normal (p + c.len + d.len) r
         | k' + 1 => skip (.block k') (p + c.len + d.len) r)
      else skip (.block k) (p + c.len) (d :: r) := by
  cases k <;> rw [skip]

/-- the loop, started inside a comment on a text that `Closes`, resumes in normal mode right after it -/
theorem skip_block_closes {k : Nat} {cs : List Ch} (h : Closes k cs) :
    ∀ (p : Nat) (v : List Ch), skip (.block k) p (cs ++ v) = skip .normal (p + bytes cs) v := by
  induction h with
  | close c d hc hd =>
    intro p v
    have h1 : ¬(c.cp = 47 ∧ d.cp = 42) := by omega
    rw [show [c, d] ++ v = c :: d :: v from rfl, skip_block_cons2, if_neg h1, if_pos ⟨hc, hd⟩]
    simp only [bytes]
    congr 1; omega
  | closeInner k c d r hc hd _ ih =>
    intro p v
    have h1 : ¬(c.cp = 47 ∧ d.cp = 42) := by omega
    rw [show (c :: d :: r) ++ v = c :: d :: (r ++ v) from rfl, skip_block_cons2, if_neg h1, if_pos ⟨hc, hd⟩]
    simp only [ih, bytes]
    congr 1; omega
  | openInner k c d r hc hd _ ih =>
    intro p v
    rw [show (c :: d :: r) ++ v = c :: d :: (r ++ v) from rfl, skip_block_cons2, if_pos ⟨hc, hd⟩, ih]
    simp only [bytes]
    congr 1; omega
  | other k c d r h1 h2 _ ih =>
    intro p v
    rw [show (c :: d :: r) ++ v = c :: d :: (r ++ v) from rfl, skip_block_cons2, if_neg h1, if_neg h2]
    rw [show d :: (r ++ v) = (d :: r) ++ v from rfl, ih]
    simp only [bytes]
    congr 1; omega


theorem closes_ne_nil {k : Nat} {cs : List Ch} (h : Closes k cs) : ∃ d r, cs = d :: r := by
  cases h <;> exact ⟨_, _, rfl⟩

/-- THE CORE: the skipping loop that meets the `/*` of a well-nested comment `c` resumes, in normal mode,
    exactly at the end of `c` — whatever follows -/
theorem skip_wellNested {c : List Ch} (h : WellNested c) (p : Nat) (v : List Ch) :
    skip .normal p (c ++ v) = skip .normal (p + bytes c) v := by
  match c, h with
  | o :: s :: body, ⟨ho, hw, hs, hb⟩ =>
    obtain ⟨d, r, e⟩ := closes_ne_nil hb
    have hw' : ¬(o.ws = true) := by rw [hw]; simp
    have h1 : ¬(o.cp = 45 ∧ s.cp = 45) := by omega
    rw [show (o :: s :: body) ++ v = o :: s :: (body ++ v) from rfl, skip, if_neg hw', if_neg h1, if_pos ⟨ho, hs⟩,
      skip_block_closes hb]
    simp only [bytes]
    congr 1; omega

theorem skip_ws {s : Ch} (h : s.ws = true) (p : Nat) (v : List Ch) :
    skip .normal p (s :: v) = skip .normal (p + s.len) v := by
  cases v with
  | nil => simp only [skip, h, if_true]
  | cons d r => rw [skip, if_pos h]


/-! #### every scanner is translation invariant in the position -/

theorem skip_shift (k : Nat) : ∀ (mode : Mode) (p : Nat) (cs : List Ch),
    skip mode (k + p) cs = (k + (skip mode p cs).1, (skip mode p cs).2) := by
  intro mode p cs
  fun_induction skip mode p cs <;> simp_all [skip, Nat.add_assoc] <;> (split <;> simp_all) 


/-- a token moved `k` bytes to the right -/
def Token.shift (k : Nat) (t : Token) : Token := ⟨t.kind, k + t.lo, k + t.hi⟩

theorem takeW_shift (f : Ch → Bool) (k : Nat) : ∀ (p : Nat) (cs : List Ch),
    takeW f (k + p) cs = (k + (takeW f p cs).1, (takeW f p cs).2) := by
  intro p cs
  induction cs generalizing p with
  | nil => rfl
  | cons c r ih =>
    simp only [takeW]
    split
    · rw [Nat.add_assoc, ih]
    · rfl

theorem scanStr_shift (q k : Nat) : ∀ (acc : List Nat) (p : Nat) (cs : List Ch),
    scanStr q acc (k + p) cs = ((scanStr q acc p cs).1, k + (scanStr q acc p cs).2.1, (scanStr q acc p cs).2.2) := by
  intro acc p cs
  fun_induction scanStr q acc p cs <;> (try simp_all [scanStr, Nat.add_assoc]) <;>
    (rw [scanStr.eq_def]; simp_all [Nat.add_assoc])

theorem scanFrac_shift (k p : Nat) (cs : List Ch) :
    scanFrac (k + p) cs = ((scanFrac p cs).1, k + (scanFrac p cs).2.1, (scanFrac p cs).2.2) := by
  unfold scanFrac
  split
  · split
    · simp only [Nat.add_assoc, takeW_shift]
    · rfl
  · rfl

theorem scanSign_shift (k p : Nat) (cs : List Ch) :
    scanSign (k + p) cs = (k + (scanSign p cs).1, (scanSign p cs).2) := by
  unfold scanSign
  split
  · split
    · simp only [Nat.add_assoc]
    · rfl
  · rfl

theorem scanExp_shift (k p : Nat) (cs : List Ch) :
    scanExp (k + p) cs = ((scanExp p cs).1, (scanExp p cs).2.1, k + (scanExp p cs).2.2.1, (scanExp p cs).2.2.2) := by
  unfold scanExp
  split
  · split
    · simp only [Nat.add_assoc, scanSign_shift, takeW_shift]
    · rfl
  · rfl

theorem scanNumber_shift (c0 : Ch) (k p : Nat) (r : List Ch) :
    scanNumber c0 (k + p) r = ((scanNumber c0 p r).1, k + (scanNumber c0 p r).2.1, (scanNumber c0 p r).2.2) := by
  simp only [scanNumber, takeW_shift, scanFrac_shift, scanExp_shift]

theorem scanToken_shift (k p : Nat) (c : Ch) (r : List Ch) :
    scanToken (k + p) c r = ((scanToken p c r).1.shift k, k + (scanToken p c r).2.1, (scanToken p c r).2.2) := by
  unfold scanToken
  simp only [Nat.add_assoc, takeW_shift, scanNumber_shift, scanStr_shift, Token.shift]
  split
  · rfl
  · split
    · rfl
    · split
      · rfl
      · split
        · next v two _ =>
          cases two with
          | false => simp
          | true =>
            cases r with
            | nil => simp
            | cons d r' => simp
        · rfl

theorem lexN_shift (k : Nat) : ∀ (fuel p : Nat) (cs : List Ch),
    lexN fuel (k + p) cs = (lexN fuel p cs).map (Token.shift k) := by
  intro fuel
  induction fuel with
  | zero => intro p cs; rfl
  | succ f ih =>
    intro p cs
    simp only [lexN, skip_shift]
    cases h : (skip .normal p cs) with
    | mk q rest =>
      cases rest with
      | nil => rfl
      | cons c r =>
        simp only [scanToken_shift, ih, List.map_cons]


/-- more fuel than characters: the amount does not matter -/
theorem lexN_fuel_indep : ∀ (f f' p : Nat) (cs : List Ch), cs.length < f → cs.length < f' →
    lexN f p cs = lexN f' p cs := by
  intro f
  induction f with
  | zero => intro f' p cs h; omega
  | succ f ih =>
    intro f' p cs h h'
    cases f' with
    | zero => omega
    | succ f'' =>
      have hs := skip_adv .normal p cs
      simp only [lexN]
      split
      · rfl
      · next q c r hq =>
        rw [hq] at hs
        obtain ⟨_, _, h3, _, _⟩ := scanToken_spec q c r
        have a := h3.length_le
        have b := hs.length_le
        simp only [List.length_cons] at b
        rw [ih f'' _ _ (by omega) (by omega)]

/-- a comment in front of `v` at a token boundary: the tokens of `v`, moved by the length of the comment -/
theorem lexN_wellNested {c : List Ch} (h : WellNested c) (fuel p : Nat) (v : List Ch) :
    lexN (fuel + 1) p (c ++ v) = (lexN (fuel + 1) p v).map (Token.shift (bytes c)) := by
  rw [← lexN_shift]
  simp only [lexN, skip_wellNested h, Nat.add_comm (bytes c) p]

theorem lexN_ws {s : Ch} (h : s.ws = true) (fuel p : Nat) (v : List Ch) :
    lexN (fuel + 1) p (s :: v) = (lexN (fuel + 1) p v).map (Token.shift s.len) := by
  rw [← lexN_shift]
  simp only [lexN, skip_ws h, Nat.add_comm s.len p]

theorem lex_wellNested {c : List Ch} (h : WellNested c) (v : List Ch) :
    lex (c ++ v) = (lex v).map (Token.shift (bytes c)) := by
  unfold lex
  rw [lexN_wellNested h, lexN_fuel_indep ((c ++ v).length + 1) (v.length + 1) 0 v (by simp only [List.length_append]; omega) (by omega)]

theorem lex_ws {s : Ch} (h : s.ws = true) (v : List Ch) :
    lex (s :: v) = (lex v).map (Token.shift s.len) := by
  unfold lex
  rw [lexN_ws h, lexN_fuel_indep ((s :: v).length + 1) (v.length + 1) 0 v (by simp only [List.length_cons]; omega) (by omega)]


/-! ### what is well nested -/

/-- the scanner's rule as a decision procedure (for the concrete examples) -/
def closesB : Nat → List Ch → Bool
  | _, [] => false
  | _, [_] => false
  | k, c :: d :: r =>
    if c.cp = 47 ∧ d.cp = 42 then closesB (k + 1) r
    else if c.cp = 42 ∧ d.cp = 47 then
      (match k with
       | 0 => r.isEmpty
       | k' + 1 => closesB k' r)
    else closesB k (d :: r)

theorem closesB_cons2 (k : Nat) (c d : Ch) (r : List Ch) :
    closesB k (c :: d :: r) =
      if c.cp = 47 ∧ d.cp = 42 then closesB (k + 1) r
      else if c.cp = 42 ∧ d.cp = 47 then
        (match k with
         | 0 => r.isEmpty
         | k' + 1 => closesB k' r)
      else closesB k (d :: r) := by
  cases k <;> rw [closesB]

theorem closesB_sound : ∀ (k : Nat) (cs : List Ch), closesB k cs = true → Closes k cs := by
  intro k cs
  fun_induction closesB k cs with
  | case1 => intro h; cases h
  | case2 => intro h; cases h
  | case3 k c d r h ih => exact fun e => Closes.openInner k c d r h.1 h.2 (ih e)
  | case4 c d r h1 h2 =>
    intro e
    have : r = [] := by cases r <;> simp_all
    subst this
    exact Closes.close c d h2.1 h2.2
  | case5 c d r h1 h2 k' ih => exact fun e => Closes.closeInner k' c d r h2.1 h2.2 (ih e)
  | case6 k c d r h1 h2 ih => exact fun e => Closes.other k c d r h1 h2 (ih e)

theorem closesB_complete {k : Nat} {cs : List Ch} (h : Closes k cs) : closesB k cs = true := by
  induction h with
  | close c d hc hd =>
    have h1 : ¬(c.cp = 47 ∧ d.cp = 42) := by omega
    rw [closesB_cons2, if_neg h1, if_pos ⟨hc, hd⟩]; rfl
  | closeInner k c d r hc hd _ ih =>
    have h1 : ¬(c.cp = 47 ∧ d.cp = 42) := by omega
    rw [closesB_cons2, if_neg h1, if_pos ⟨hc, hd⟩]; exact ih
  | openInner k c d r hc hd _ ih => rw [closesB_cons2, if_pos ⟨hc, hd⟩]; exact ih
  | other k c d r h1 h2 _ ih => rw [closesB_cons2, if_neg h1, if_neg h2]; exact ih

instance (k : Nat) (cs : List Ch) : Decidable (Closes k cs) :=
  decidable_of_iff (closesB k cs = true) ⟨closesB_sound k cs, closesB_complete⟩

instance : (c : List Ch) → Decidable (WellNested c)
  | [] => isFalse (fun h => h)
  | [_] => isFalse (fun h => h)
  | o :: s :: body => inferInstanceAs (Decidable (o.cp = 47 ∧ o.ws = false ∧ s.cp = 42 ∧ Closes 0 body))

/-- a `*` that is not followed by `/` is skipped alone -/
theorem closes_star {k : Nat} {c d : Ch} {r : List Ch} (hc : c.cp = 42) (hd : d.cp ≠ 47) (h : Closes k (d :: r)) :
    Closes k (c :: d :: r) :=
  Closes.other k c d r (by omega) (by omega) h

/-- a `/` that is not followed by `*` is skipped alone -/
theorem closes_slash {k : Nat} {c d : Ch} {r : List Ch} (hc : c.cp = 47) (hd : d.cp ≠ 42) (h : Closes k (d :: r)) :
    Closes k (c :: d :: r) :=
  Closes.other k c d r (by omega) (by omega) h

/-- a run of `*` of ANY length directly before a `*` (in particular before a closing `*/`) is skipped -/
theorem closes_star_run {k : Nat} {x : Ch} {r : List Ch} (hx : x.cp = 42) (h : Closes k (x :: r)) :
    ∀ (st : List Ch), (∀ c ∈ st, c.cp = 42) → Closes k (st ++ x :: r) := by
  intro st
  induction st with
  | nil => intro _; exact h
  | cons c st ih =>
    intro hs
    have ih' := ih (fun c' hc' => hs c' (List.mem_cons_of_mem _ hc'))
    have hc := hs c (List.mem_cons_self ..)
    cases st with
    | nil => exact closes_star hc (by omega) ih'
    | cons c2 st2 =>
      have h2 := hs c2 (List.mem_cons_of_mem _ (List.mem_cons_self ..))
      exact closes_star hc (by omega) ih'

/-- a run of `/` of ANY length directly before a `/` (in particular before a nested `/*`) is skipped -/
theorem closes_slash_run {k : Nat} {x : Ch} {r : List Ch} (hx : x.cp = 47) (h : Closes k (x :: r)) :
    ∀ (sl : List Ch), (∀ c ∈ sl, c.cp = 47) → Closes k (sl ++ x :: r) := by
  intro sl
  induction sl with
  | nil => intro _; exact h
  | cons c sl ih =>
    intro hs
    have ih' := ih (fun c' hc' => hs c' (List.mem_cons_of_mem _ hc'))
    have hc := hs c (List.mem_cons_self ..)
    cases sl with
    | nil => exact closes_slash hc (by omega) ih'
    | cons c2 sl2 =>
      have h2 := hs c2 (List.mem_cons_of_mem _ (List.mem_cons_self ..))
      exact closes_slash hc (by omega) ih'

/-- characters other than `*` and `/` are skipped, whatever follows -/
theorem closes_plain {k : Nat} {cs : List Ch} (h : Closes k cs) :
    ∀ (pl : List Ch), (∀ c ∈ pl, c.cp ≠ 42 ∧ c.cp ≠ 47) → Closes k (pl ++ cs) := by
  intro pl
  induction pl with
  | nil => intro _; exact h
  | cons c pl ih =>
    intro hs
    have ih' := ih (fun c' hc' => hs c' (List.mem_cons_of_mem _ hc'))
    have hc := hs c (List.mem_cons_self ..)
    obtain ⟨d, r, e⟩ := closes_ne_nil ih'
    rw [List.cons_append, e]
    rw [e] at ih'
    exact Closes.other k c d r (by omega) (by omega) ih'

/-- nesting: the rest of an inner comment followed by the rest of the enclosing one(s) -/
theorem closes_append {j : Nat} {a : List Ch} (ha : Closes j a) :
    ∀ {k : Nat} {b : List Ch}, Closes k b → Closes (j + k + 1) (a ++ b) := by
  induction ha with
  | close c d hc hd =>
    intro k b hb
    rw [Nat.zero_add]
    exact Closes.closeInner k c d b hc hd hb
  | closeInner j c d r hc hd _ ih =>
    intro k b hb
    have := ih hb
    rw [show j + 1 + k + 1 = (j + k + 1) + 1 by omega]
    exact Closes.closeInner _ c d (r ++ b) hc hd this
  | openInner j c d r hc hd _ ih =>
    intro k b hb
    have := ih hb
    rw [show j + 1 + k + 1 = (j + k + 1) + 1 by omega] at this
    exact Closes.openInner _ c d (r ++ b) hc hd this
  | other j c d r h1 h2 _ ih =>
    intro k b hb
    exact Closes.other _ c d (r ++ b) h1 h2 (ih hb)

/-- a well-nested comment may stand inside any comment, at any depth -/
theorem closes_wellNested {c : List Ch} (h : WellNested c) {k : Nat} {b : List Ch} (hb : Closes k b) :
    Closes k (c ++ b) := by
  match c, h with
  | o :: s :: body, ⟨ho, _, hs, hbody⟩ =>
    have := closes_append hbody hb
    rw [Nat.zero_add] at this
    exact Closes.openInner k o s (body ++ b) ho hs this

end Neumann.Parse.Lex
