import NeumannModel.Parse.Lex
/-
  C15 — helper lemmas for the lexer model (`Parse/Lex.lean`).  Core Lean only (no Mathlib).
-/
namespace Neumann.Parse.Lex

theorem len_pos (c : Ch) : 1 ≤ c.len := by
  unfold Ch.len; split <;> (try split) <;> (try split) <;> omega

theorem bytes_append (a b : List Ch) : bytes (a ++ b) = bytes a + bytes b := by
  induction a with
  | nil => simp [bytes]
  | cons c a ih => simp only [List.cons_append, bytes, ih]; omega

/-- scanning from `(p, cs)` to `(q, rest)` consumes a prefix of `cs` and advances the position by
    exactly its length in bytes -/
def Adv (p : Nat) (cs : List Ch) (q : Nat) (rest : List Ch) : Prop :=
  ∃ taken, cs = taken ++ rest ∧ q = p + bytes taken

theorem Adv.refl (p : Nat) (cs : List Ch) : Adv p cs p cs := ⟨[], rfl, by simp [bytes]⟩

theorem Adv.cons {p q : Nat} {c : Ch} {r rest : List Ch} (h : Adv (p + c.len) r q rest) :
    Adv p (c :: r) q rest := by
  obtain ⟨t, e1, e2⟩ := h
  exact ⟨c :: t, by rw [e1]; rfl, by simp only [bytes]; omega⟩

theorem Adv.cons2 {p q : Nat} {c d : Ch} {r rest : List Ch} (h : Adv (p + c.len + d.len) r q rest) :
    Adv p (c :: d :: r) q rest := Adv.cons (Adv.cons h)

theorem Adv.trans {p q s : Nat} {cs mid rest : List Ch} (h1 : Adv p cs q mid) (h2 : Adv q mid s rest) :
    Adv p cs s rest := by
  obtain ⟨t1, e1, e2⟩ := h1
  obtain ⟨t2, e3, e4⟩ := h2
  exact ⟨t1 ++ t2, by rw [e1, e3, List.append_assoc], by rw [bytes_append]; omega⟩

theorem Adv.le {p q : Nat} {cs rest : List Ch} (h : Adv p cs q rest) : p ≤ q := by
  obtain ⟨t, _, e⟩ := h; omega

theorem Adv.length_le {p q : Nat} {cs rest : List Ch} (h : Adv p cs q rest) : rest.length ≤ cs.length := by
  obtain ⟨t, e, _⟩ := h; rw [e]; simp

theorem skip_adv : ∀ (mode : Mode) (p : Nat) (cs : List Ch), Adv p cs (skip mode p cs).1 (skip mode p cs).2 := by
  intro mode p cs
  fun_induction skip mode p cs <;> (try simp_all [Adv.refl]) <;>
    first
    | exact Adv.refl _ _
    | (apply Adv.cons; assumption)
    | (apply Adv.cons2; assumption)
    | (apply Adv.cons; exact Adv.refl _ _)
    | skip

theorem takeW_adv (f : Ch → Bool) : ∀ (p : Nat) (cs : List Ch), Adv p cs (takeW f p cs).1 (takeW f p cs).2 := by
  intro p cs
  induction cs generalizing p with
  | nil => exact Adv.refl _ _
  | cons c r ih =>
    simp only [takeW]
    split
    · exact Adv.cons (ih _)
    · exact Adv.refl _ _

theorem scanStr_adv (q : Nat) : ∀ (acc : List Nat) (p : Nat) (cs : List Ch),
    Adv p cs (scanStr q acc p cs).2.1 (scanStr q acc p cs).2.2 := by
  intro acc p cs
  fun_induction scanStr q acc p cs <;> (try simp_all [Adv.refl]) <;>
    first
    | exact Adv.refl _ _
    | (apply Adv.cons; assumption)
    | (apply Adv.cons2; assumption)
    | (apply Adv.cons; exact Adv.refl _ _)
    | skip

theorem scanFrac_adv (p : Nat) (cs : List Ch) : Adv p cs (scanFrac p cs).2.1 (scanFrac p cs).2.2 := by
  unfold scanFrac
  split
  · split
    · exact Adv.cons (takeW_adv isDigit _ _)
    · exact Adv.refl _ _
  · exact Adv.refl _ _

theorem scanSign_adv (p : Nat) (cs : List Ch) : Adv p cs (scanSign p cs).1 (scanSign p cs).2 := by
  unfold scanSign
  split
  · split
    · exact Adv.cons (Adv.refl _ _)
    · exact Adv.refl _ _
  · exact Adv.refl _ _

theorem scanExp_adv (p : Nat) (cs : List Ch) : Adv p cs (scanExp p cs).2.2.1 (scanExp p cs).2.2.2 := by
  unfold scanExp
  split
  · split
    · exact Adv.cons ((scanSign_adv _ _).trans (takeW_adv isDigit _ _))
    · exact Adv.refl _ _
  · exact Adv.refl _ _

theorem scanNumber_adv (c0 : Ch) (p : Nat) (r : List Ch) :
    Adv p r (scanNumber c0 p r).2.1 (scanNumber c0 p r).2.2 := by
  unfold scanNumber
  exact ((takeW_adv isDigit p r).trans (scanFrac_adv _ _)).trans (scanExp_adv _ _)

/-- what `scanToken` returns: a token that starts where the scan started and ends where it
    stopped, at least the first character consumed, and never `Eof` -/
theorem scanToken_spec (p : Nat) (c : Ch) (r : List Ch) :
    (scanToken p c r).1.lo = p ∧ (scanToken p c r).1.hi = (scanToken p c r).2.1 ∧
    Adv (p + c.len) r (scanToken p c r).2.1 (scanToken p c r).2.2 ∧
    (scanToken p c r).1.kind ≠ .eof ∧ (scanToken p c r).1.kind ≠ .fuel := by
  unfold scanToken
  simp only
  split
  · refine ⟨rfl, rfl, takeW_adv _ _ _, ?_, ?_⟩ <;> (simp only; split <;> simp)
  · split
    · refine ⟨rfl, rfl, scanNumber_adv c _ _, ?_, ?_⟩ <;>
        (simp only [scanNumber]; split <;> (try split) <;> simp)
    · split
      · refine ⟨rfl, rfl, scanStr_adv _ _ _ _, ?_, ?_⟩ <;> (simp only; split <;> simp)
      · split
        · next v two _ =>
          cases two with
          | false => exact ⟨rfl, rfl, Adv.refl _ _, by simp, by simp⟩
          | true =>
            simp only [if_true]
            cases r with
            | nil => exact ⟨rfl, rfl, Adv.refl _ _, by simp, by simp⟩
            | cons d r' => exact ⟨rfl, rfl, Adv.cons (Adv.refl _ _), by simp, by simp⟩
        · exact ⟨rfl, rfl, Adv.refl _ _, by simp, by simp⟩

/-- `p` is the byte offset of the suffix `cs` of the source -/
def At (src : List Ch) (p : Nat) (cs : List Ch) : Prop := ∃ pre, src = pre ++ cs ∧ bytes pre = p

/-- `k` is the byte offset of a character boundary of the source (what `&source[a..b]` needs) -/
def Boundary (src : List Ch) (k : Nat) : Prop := ∃ pre post, src = pre ++ post ∧ bytes pre = k

theorem At.adv {src : List Ch} {p q : Nat} {cs rest : List Ch} (h : At src p cs) (a : Adv p cs q rest) :
    At src q rest := by
  obtain ⟨pre, e1, e2⟩ := h
  obtain ⟨t, e3, e4⟩ := a
  exact ⟨pre ++ t, by rw [e1, e3, List.append_assoc], by rw [bytes_append]; omega⟩

theorem At.boundary {src : List Ch} {p : Nat} {cs : List Ch} (h : At src p cs) : Boundary src p := by
  obtain ⟨pre, e1, e2⟩ := h
  exact ⟨pre, cs, e1, e2⟩

theorem At.nil {src : List Ch} {p : Nat} (h : At src p []) : p = bytes src := by
  obtain ⟨pre, e1, e2⟩ := h
  rw [e1, List.append_nil, e2]

theorem Boundary.le {src : List Ch} {k : Nat} (h : Boundary src k) : k ≤ bytes src := by
  obtain ⟨pre, post, e1, e2⟩ := h
  rw [e1, bytes_append]; omega

/-- The shape of a token stream over `src`, read from byte offset `start`: every token but the last
    is a non-empty piece of the source lying on character boundaries, at or after the end of its
    predecessor, and is neither `Eof` nor the fuel marker; the last one is `Eof` at the very end. -/
def WellSpanned (src : List Ch) : Nat → List Token → Prop
  | _, [] => False
  | start, [t] => t.kind = .eof ∧ start ≤ t.lo ∧ t.lo = bytes src ∧ t.hi = bytes src
  | start, t :: t2 :: rest =>
    t.kind ≠ .eof ∧ t.kind ≠ .fuel ∧ start ≤ t.lo ∧ t.lo < t.hi ∧ Boundary src t.lo ∧ Boundary src t.hi ∧
      WellSpanned src t.hi (t2 :: rest)

theorem lexN_ne_nil (fuel p : Nat) (cs : List Ch) : lexN fuel p cs ≠ [] := by
  cases fuel with
  | zero => simp [lexN]
  | succ f =>
    simp only [lexN]
    split <;> simp

theorem lexN_ok (src : List Ch) : ∀ (fuel p : Nat) (cs : List Ch), cs.length < fuel → At src p cs →
    WellSpanned src p (lexN fuel p cs) := by
  intro fuel
  induction fuel with
  | zero => intro p cs h; omega
  | succ f ih =>
    intro p cs hl hat
    have hs := skip_adv .normal p cs
    simp only [lexN]
    split
    · next q hq =>
      rw [hq] at hs
      have := (hat.adv hs).nil
      exact ⟨rfl, hs.le, this, this⟩
    · next q c r hq =>
      rw [hq] at hs
      have hat2 := hat.adv hs
      obtain ⟨h1, h2, h3, h4, h5⟩ := scanToken_spec q c r
      have hadv : Adv q (c :: r) (scanToken q c r).2.1 (scanToken q c r).2.2 := Adv.cons h3
      have hat3 := hat2.adv hadv
      have hlen : (scanToken q c r).2.2.length < f := by
        have a := h3.length_le
        have b := hs.length_le
        simp only [List.length_cons] at b
        omega
      have hrec := ih _ _ hlen hat3
      have hlt : q < (scanToken q c r).2.1 := by have := h3.le; have := len_pos c; omega
      obtain ⟨t2, rest, hne⟩ := List.exists_cons_of_ne_nil (lexN_ne_nil f (scanToken q c r).2.1 (scanToken q c r).2.2)
      rw [hne] at hrec ⊢
      refine ⟨h4, h5, ?_, ?_, ?_, ?_, ?_⟩
      · rw [h1]; exact hs.le
      · rw [h1, h2]; exact hlt
      · rw [h1]; exact hat2.boundary
      · rw [h2]; exact hat3.boundary
      · rw [h2]; exact hrec

/-! ### reading the shape -/

theorem ws_mem {src : List Ch} : ∀ (toks : List Token) (start : Nat), WellSpanned src start toks →
    ∀ t ∈ toks, t.kind ≠ .fuel ∧ start ≤ t.lo ∧ t.lo ≤ t.hi ∧ t.hi ≤ bytes src ∧
      Boundary src t.lo ∧ Boundary src t.hi
  | [], _, h => by simp [WellSpanned] at h
  | [t], start, h => by
      intro t' ht'
      simp only [List.mem_singleton] at ht'
      subst ht'
      obtain ⟨h1, h2, h3, h4⟩ := h
      refine ⟨by rw [h1]; simp, h2, by omega, by omega, ?_, ?_⟩
      · exact ⟨src, [], by simp, h3.symm⟩
      · exact ⟨src, [], by simp, h4.symm⟩
  | t :: t2 :: rest, start, h => by
      intro t' ht'
      obtain ⟨h1, h2, h3, h4, h5, h6, h7⟩ := h
      rcases List.mem_cons.1 ht' with e | e
      · subst e
        exact ⟨h2, h3, Nat.le_of_lt h4, h6.le, h5, h6⟩
      · obtain ⟨a, b, c, d, e1, e2⟩ := ws_mem (t2 :: rest) _ h7 t' e
        exact ⟨a, by omega, c, d, e1, e2⟩

theorem ws_pairwise {src : List Ch} : ∀ (toks : List Token) (start : Nat), WellSpanned src start toks →
    toks.Pairwise (fun a b => a.hi ≤ b.lo)
  | [], _, h => by simp [WellSpanned] at h
  | [t], _, _ => by simp
  | t :: t2 :: rest, start, h => by
      obtain ⟨_, _, _, _, _, _, h7⟩ := h
      refine List.pairwise_cons.2 ⟨?_, ws_pairwise (t2 :: rest) _ h7⟩
      intro b hb
      exact (ws_mem (t2 :: rest) _ h7 b hb).2.1

theorem ws_last {src : List Ch} : ∀ (toks : List Token) (start : Nat), WellSpanned src start toks →
    ∃ init, toks = init ++ [⟨.eof, bytes src, bytes src⟩] ∧ ∀ t ∈ init, t.kind ≠ .eof ∧ t.lo < t.hi
  | [], _, h => by simp [WellSpanned] at h
  | [t], _, h => by
      obtain ⟨h1, _, h3, h4⟩ := h
      refine ⟨[], ?_, by simp⟩
      obtain ⟨k, lo, hi⟩ := t
      simp only at h1 h3 h4
      subst h1 h3 h4
      rfl
  | t :: t2 :: rest, start, h => by
      obtain ⟨h1, _, _, h4, _, _, h7⟩ := h
      obtain ⟨init, e, hi⟩ := ws_last (t2 :: rest) _ h7
      refine ⟨t :: init, by rw [e]; rfl, ?_⟩
      intro t' ht'
      rcases List.mem_cons.1 ht' with e' | e'
      · subst e'; exact ⟨h1, h4⟩
      · exact hi t' e'

end Neumann.Parse.Lex
