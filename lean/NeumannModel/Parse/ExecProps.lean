import NeumannModel.Parse.ExecLemmas
/-
  C15, third clause — property theorems for the clauses of a statement the query router evaluates ITSELF on
  the answer of the direct engine call (`Parse/Exec.lean`: ORDER BY, OFFSET, LIMIT of `exec_select` and
  `exec_select_with_joins`, LIMIT / OFFSET of NODE LIST, EDGE LIST, FIND … WHERE, SHOW EMBEDDINGS).

  "Same result as the equivalent direct engine call" for such a statement means: the rows are rows of the
  engine's answer, in the order ORDER BY asks for (the engine's own order when there is none), and LIMIT k /
  OFFSET o keep exactly the window `[o, o + k)` of that list.
  ONLY property statements and their non-vacuity examples live here.
-/
namespace Neumann.Parse.Exec.Props

/-! ### LIMIT / OFFSET of SELECT -/

/-- The statement returns the window the clauses describe: OFFSET (an integer literal) drops that many rows
    of the ordered answer, LIMIT (an integer literal) keeps at most that many of the rest. -/
theorem select_returns_the_window_of_the_ordered_rows (s : Sel) (base : List Row) (o k : Nat)
    (ho : s.offset = .lit o) (hk : s.limit = .lit k) :
    selectTail s base = window o k (ordered s base) := by
  rw [selectTail_eq, ho, hk]; rfl

example : selectTail { limit := .lit 2, offset := .lit 1 } [⟨0, []⟩, ⟨1, []⟩, ⟨2, []⟩, ⟨3, []⟩] = [⟨1, []⟩, ⟨2, []⟩] := by
  decide

/-- LIMIT 0 returns no row, whatever the other clauses and the table. -/
theorem limit_zero_returns_no_rows (s : Sel) (base : List Row) (h : s.limit = .lit 0) :
    selectTail s base = [] := by
  rw [selectTail_eq, h]; rfl

example : selectTail { limit := .lit 0 } [⟨0, []⟩] = [] := by decide

/-- LIMIT k returns the first k rows of what the same statement returns without LIMIT. -/
theorem limit_is_prefix_of_the_unlimited_result (s : Sel) (base : List Row) (k : Nat) :
    selectTail { s with limit := .lit k } base = (selectTail { s with limit := .absent } base).take k := by
  rw [selectTail_eq, selectTail_eq]; rfl

/-- … hence exactly `min k n` rows, -/
theorem limit_result_length (s : Sel) (base : List Row) (k : Nat) :
    (selectTail { s with limit := .lit k } base).length
      = min k (selectTail { s with limit := .absent } base).length := by
  rw [limit_is_prefix_of_the_unlimited_result, List.length_take]

/-- … and every row when k is at least the number of rows (k = n and k = n + 1 included). -/
theorem limit_at_least_the_row_count_returns_every_row (s : Sel) (base : List Row) (k : Nat)
    (h : (selectTail { s with limit := .absent } base).length ≤ k) :
    selectTail { s with limit := .lit k } base = selectTail { s with limit := .absent } base := by
  rw [limit_is_prefix_of_the_unlimited_result, List.take_of_length_le h]

example : (selectTail { limit := .absent } [⟨0, []⟩, ⟨1, []⟩]).length ≤ 2 := by decide

/-- OFFSET o returns what the same statement returns without OFFSET and LIMIT, minus its first o rows, cut by
    the LIMIT. -/
theorem offset_drops_a_prefix_of_the_result_without_offset (s : Sel) (base : List Row) (o : Nat) :
    selectTail { s with offset := .lit o } base
      = applyLimit s.limit ((selectTail { s with offset := .absent, limit := .absent } base).drop o) := by
  rw [selectTail_eq, selectTail_eq]; rfl

/-- OFFSET 0 changes nothing. -/
theorem offset_zero_changes_nothing (s : Sel) (base : List Row) :
    selectTail { s with offset := .lit 0 } base = selectTail { s with offset := .absent } base := by
  rw [selectTail_eq, selectTail_eq]; rfl

/-- OFFSET at or past the end returns no row (o = n and o = n + 1 included). -/
theorem offset_at_or_past_the_end_returns_no_rows (s : Sel) (base : List Row) (o : Nat)
    (ho : s.offset = .lit o) (h : base.length ≤ o) : selectTail s base = [] := by
  rw [selectTail_eq, ho]
  have hl : (ordered s base).length = base.length := by
    rw [ordered_eq_sortRows]; exact (sortBy_perm _ base).length_eq
  have : (ordered s base).drop (offN (.lit o)) = [] := List.drop_eq_nil_of_le (by simp only [offN]; omega)
  rw [this]
  cases s.limit <;> simp [applyLimit]

example : selectTail { offset := .lit 2 } [⟨0, []⟩, ⟨1, []⟩] = [] := by decide

/-- Consecutive pages concatenate: the page after `[o, o + k)` starts exactly where it ended — no row is
    returned twice, none is skipped. -/
theorem consecutive_pages_concatenate {α : Type} (xs : List α) (o k k' : Nat) :
    window o k xs ++ window (o + k) k' xs = window o (k + k') xs := by
  unfold window
  rw [List.take_add, ← List.drop_drop]

/-- Reading a result page by page (LIMIT k OFFSET 0, k, 2k, …) returns every row once, in order. -/
theorem pages_partition_the_result {α : Type} (xs : List α) (k p : Nat) :
    (List.range p).flatMap (fun i => window (i * k) k xs) = xs.take (p * k) := by
  induction p with
  | zero => simp
  | succ n ih =>
    rw [List.range_succ, List.flatMap_append, ih]
    simp only [List.flatMap_cons, List.flatMap_nil, List.append_nil]
    have h := consecutive_pages_concatenate xs 0 (n * k) k
    simp only [window, List.drop_zero, Nat.zero_add] at h ⊢
    rw [h, Nat.succ_mul]

/-- LIMIT and OFFSET only select: the result is a sub-list (same order, no row invented or repeated) of the
    ordered answer. -/
theorem limit_and_offset_only_select (s : Sel) (base : List Row) :
    (selectTail s base).Sublist (ordered s base) := by
  rw [selectTail_eq]
  have h1 : ((ordered s base).drop (offN s.offset)).Sublist (ordered s base) := List.drop_sublist _ _
  cases s.limit with
  | absent => exact h1
  | other => exact h1
  | lit k => exact (List.take_sublist _ _).trans h1

/-- The code as it is: a LIMIT / OFFSET expression that is not an integer literal (`LIMIT 1 + 1`, `LIMIT -1`,
    `LIMIT 2.0`, `LIMIT NULL`) is read by no branch — the statement runs as if the clause were not there. -/
theorem select_ignores_limit_and_offset_that_are_not_integer_literals (s : Sel) (base : List Row) :
    selectTail { s with limit := .other, offset := .other } base
      = selectTail { s with limit := .absent, offset := .absent } base := by
  rfl

/-! ### ORDER BY -/

/-- ORDER BY returns the rows of the engine's answer — each as often as it came. -/
theorem order_by_returns_a_permutation (order : List OrderItem) (rows : List Row) :
    (sortRows order rows).Perm rows :=
  sortBy_perm _ rows

/-- … in an order in which no row is greater (by the ORDER BY items, first deciding item wins) than a later
    one, for every direction, NULLS placement and number of items — on EVERY answer of the engine call, the rows
    of LEFT / RIGHT / FULL joins included (a sort column may be missing in one row and NULL in another: since
    /repo 1133d8d8 both follow the NULLS FIRST / LAST rule), -/
theorem order_by_result_is_sorted (order : List OrderItem) (rows : List Row) :
    (sortRows order rows).Pairwise (fun a b => cmpRows order a b ≠ .gt) :=
  sortBy_sorted _ (law_cmpRows order) rows

/-- … and rows that tie on every item keep the order the engine returned them in (the sort is stable), which
    makes the ordered list — and so every LIMIT / OFFSET window of it — a function of the statement and the
    engine's answer. -/
theorem order_by_keeps_ties_in_engine_order (order : List OrderItem) (rows : List Row) (r : Row) :
    (sortRows order rows).filter (fun x => cmpRows order r x == .eq)
      = rows.filter (fun x => cmpRows order r x == .eq) := by
  unfold sortRows
  apply sortBy_filter
  intro a b ha hb
  have ha' : cmpRows order r a = .eq := by simpa using ha
  have hb' : cmpRows order r b = .eq := by simpa using hb
  have L := law_cmpRows order
  rw [← L.eqCongr r a b ha', hb']; simp

/-- The closure `sort_rows` hands to `sort_by` is a total preorder (what `sort_by` requires: with anything else it
    may panic) for every ORDER BY list and on ALL rows — antisymmetric up to `swap`, transitive, and `Equal` is a
    congruence.  (Until /repo 1133d8d8 this held on `consistent` rows only.) -/
theorem order_by_comparator_is_a_total_preorder (order : List OrderItem) : Law (cmpRows order) :=
  law_cmpRows order

/-- ORDER BY returns a sorted permutation of the engine's answer for every join result: the two statements above
    together, with the rows the repair is about as the non-vacuity example (u.a = column 3 is missing in the row
    without partner, NULL in the row of the NULL = NULL partners, a value in the third). -/
theorem order_by_returns_a_sorted_permutation (order : List OrderItem) (rows : List Row) :
    (sortRows order rows).Perm rows ∧ (sortRows order rows).Pairwise (fun a b => cmpRows order a b ≠ .gt) :=
  ⟨sortBy_perm _ rows, order_by_result_is_sorted order rows⟩

example : mixedCol [⟨0, [(0, some 4)]⟩, ⟨1, [(0, none), (3, none)]⟩, ⟨2, [(0, some 1), (3, some 1)]⟩] 3 = true
    ∧ sortRows [{ col := 3, desc := true, nulls := none }]
        [⟨0, [(0, some 4)]⟩, ⟨1, [(0, none), (3, none)]⟩, ⟨2, [(0, some 1), (3, some 1)]⟩]
      = [⟨0, [(0, some 4)]⟩, ⟨1, [(0, none), (3, none)]⟩, ⟨2, [(0, some 1), (3, some 1)]⟩] := by decide

/-- A missing sort column and a NULL sort column tie, whatever the direction and the NULLS clause. -/
theorem missing_and_null_sort_keys_tie (it : OrderItem) (a b : Row)
    (ha : a.get it.col = .absent) (hb : b.get it.col = .null) :
    cmpItem it a b = .eq ∧ cmpItem it b a = .eq := by
  unfold cmpItem
  rw [ha, hb]
  cases it.desc <;> exact ⟨rfl, rfl⟩

example : (⟨0, []⟩ : Row).get 0 = .absent ∧ (⟨1, [(0, none)]⟩ : Row).get 0 = .null := by decide

/-- The code as it was before /repo 1133d8d8 (known_findings: fixed,
    `query_router::QueryRouter::exec_select_with_joins/order_by_panics_on_outer_join_rows`; on the real code a 21-row
    LEFT JOIN made `sort_by` panic): a sort column that is missing in one row (outer join, no partner) and NULL in
    another was compared `Greater` BOTH ways round — the closure was not an order. -/
theorem order_by_comparator_is_not_an_order_on_outer_join_rows_witness :
    ∃ (it : OrderItem) (a b : Row), a.get it.col = .absent ∧ b.get it.col = .null
      ∧ cmpItemOld it a b = .gt ∧ cmpItemOld it b a = .gt :=
  ⟨{ col := 0, desc := false, nulls := none }, ⟨0, []⟩, ⟨1, [(0, none)]⟩, by decide⟩

/-- … and that pair of cells is the ONLY thing the repair changed: on every answer without a sort column that is
    missing in one row and NULL in another (`consistent`: rows of one table, of inner / cross / natural joins, of
    outer joins without NULL in the sort column) the statement returns what it returned before. -/
theorem order_by_repair_changes_nothing_on_consistent_rows (order : List OrderItem) (rows : List Row)
    (h : consistent order rows = true) : sortRowsOld order rows = sortRows order rows :=
  sortRowsOld_eq_sortRows order rows h

example : consistent [{ col := 0, desc := true, nulls := some true }]
    [⟨0, [(0, some 2)]⟩, ⟨1, [(0, none)]⟩, ⟨2, [(0, some 1)]⟩] = true := by decide

/-- Without ORDER BY the rows stay in the engine's order. -/
theorem no_order_by_keeps_engine_order (s : Sel) (base : List Row) (h : s.order = []) :
    ordered s base = base := by
  unfold ordered; rw [h]; rfl

/-- One item, both values present: ASC puts the smaller value first, DESC the greater. -/
theorem order_by_direction (it : OrderItem) (a b : Row) (x y : Int)
    (ha : a.get it.col = .val x) (hb : b.get it.col = .val y) :
    cmpItem it a b = if it.desc then cmpInt y x else cmpInt x y := by
  unfold cmpItem
  rw [ha, hb]
  simp only [cmpNulls]
  cases it.desc
  · rfl
  · simp only [if_true]; exact (law_cmpInt.swap x y).symm

example : (⟨0, [(0, some 3)]⟩ : Row).get 0 = .val 3 := by decide

/-- ORDER BY agrees with what the clause says (`cmpItemSpec`: the direction orders the values, NULLS FIRST / LAST
    places the NULLs; default NULLS LAST under ASC and NULLS FIRST under DESC) for every item that is ascending
    or has no NULLS clause. -/
theorem order_by_item_agrees_with_its_meaning (it : OrderItem) (h : it.desc = false ∨ it.nulls = none)
    (a b : Row) : cmpItem it a b = cmpItemSpec it a b := by
  unfold cmpItem cmpItemSpec
  rcases h with h | h
  · rw [h]
    cases ha : a.get it.col <;> cases hb : b.get it.col <;> cases it.nulls <;>
      simp [cmpNulls, Cell.filterNull]
  · rw [h]
    cases hd : it.desc <;> cases ha : a.get it.col <;> cases hb : b.get it.col <;>
      simp [cmpNulls, Cell.filterNull, Ordering.swap]

example : (({ col := 0, desc := true, nulls := none } : OrderItem).desc = false
    ∨ ({ col := 0, desc := true, nulls := none } : OrderItem).nulls = none) := by decide

/-- The code as it is (candidate finding, reported as an observation): under DESC the whole comparison is
    reversed, the placement of NULLs included, so `DESC NULLS FIRST` puts the NULLs LAST. -/
theorem desc_nulls_first_puts_nulls_last_witness :
    ∃ (it : OrderItem) (a b : Row), it.desc = true ∧ it.nulls = some true ∧ a.get it.col = .null
      ∧ b.get it.col = .val 5 ∧ cmpItemSpec it a b = .lt ∧ sortRows [it] [a, b] = [b, a] :=
  ⟨{ col := 0, desc := true, nulls := some true }, ⟨0, [(0, none)]⟩, ⟨1, [(0, some 5)]⟩, by decide⟩

/-- The code as it is (candidate finding, reported as an observation): the projection is applied by the engine
    call, before the sort; a sort column that is not in the select list is missing from every row, every
    comparison answers `Equal` and the rows stay in engine order. -/
theorem order_by_column_outside_the_select_list_does_not_sort (it : OrderItem) (rows : List Row)
    (h : ∀ r ∈ rows, r.get it.col = .absent) : sortRows [it] rows = rows := by
  unfold sortRows
  induction rows with
  | nil => rfl
  | cons x xs ih =>
    have ih' := ih (fun r hr => h r (List.mem_cons_of_mem _ hr))
    unfold sortBy
    rw [ih']
    cases xs with
    | nil => rfl
    | cons y ys =>
      unfold insertBy
      have hx := h x (List.mem_cons_self ..)
      have hy := h y (List.mem_cons_of_mem _ (List.mem_cons_self ..))
      have : cmpRows [it] x y = .eq := by
        simp only [cmpRows, cmpItem, hx, hy, cmpNulls]
        cases it.desc <;> rfl
      rw [this]; simp

example : ∀ r ∈ [(⟨0, [(1, some 2)]⟩ : Row), ⟨1, [(1, some 1)]⟩], r.get 0 = .absent := by decide

/-! ### statement forms that never reach the clauses -/

/-- The code as it is (candidate finding, reported as an observation): DISTINCT is read by no execution path. -/
theorem distinct_is_read_by_no_execution_path (s : Sel) (base agg : List Row) :
    execSelect { s with distinct := true } base agg = execSelect { s with distinct := false } base agg := by
  rfl

/-- The code as it is (candidate finding, reported as an observation): a SELECT with an aggregate in its list or
    a GROUP BY returns before ORDER BY / OFFSET / LIMIT are looked at. -/
theorem aggregate_select_ignores_order_limit_offset (s : Sel) (h : s.aggregate = true)
    (order : List OrderItem) (l o : Clause) (base agg : List Row) :
    execSelect { s with order := order, limit := l, offset := o } base agg = agg := by
  unfold execSelect; simp [h]

example : execSelect { aggregate := true, limit := .lit 0 } [] [⟨0, []⟩] = [⟨0, []⟩] := by decide

/-- A SELECT without aggregates is the common tail applied to the engine's rows (with and without JOIN). -/
theorem plain_select_is_the_tail (s : Sel) (h : s.aggregate = false) (base agg : List Row) :
    execSelect s base agg = selectTail s base := by
  unfold execSelect; simp [h]

/-! ### NODE LIST / EDGE LIST / FIND … WHERE / SHOW EMBEDDINGS -/

/-- `LIST [LIMIT k] [OFFSET o]` returns the window `[o, o + k)` of the engine's answer (k = 1000, o = 0 when
    not written); an expression that is not a non-negative integer literal is an error, never ignored. -/
theorem list_returns_the_window (limit offset : Clause) {α : Type} (items : List α) :
    execList limit offset items
      = match resolve limit 1000, resolve offset 0 with
        | some k, some o => some (window o k items)
        | _, _ => none := by
  unfold execList window; rfl

/-- LIST … LIMIT 0 is empty; the length of every answer is `min k (n - o)`. -/
theorem list_result_length (limit offset : Clause) {α : Type} (items r : List α) (k o : Nat)
    (hk : resolve limit 1000 = some k) (ho : resolve offset 0 = some o)
    (h : execList limit offset items = some r) : r.length = min k (items.length - o) := by
  unfold execList at h
  rw [hk, ho] at h
  simp only [Option.some.injEq] at h
  rw [← h, List.length_take, List.length_drop]

example : execList (.lit 0) .absent [1, 2, 3] = some [] := by decide
example : execList .absent (.lit 1) [1, 2, 3] = some [2, 3] := by decide

/-- FIND … WHERE … LIMIT k / SHOW EMBEDDINGS LIMIT k keep the first k (100 when not written). -/
theorem take_statement_returns_a_prefix (limit : Clause) {α : Type} (items r : List α)
    (h : execTake limit items = some r) :
    ∃ k, resolve limit 100 = some k ∧ r = items.take k := by
  unfold execTake at h
  cases hr : resolve limit 100 with
  | none => rw [hr] at h; cases h
  | some k => rw [hr] at h; exact ⟨k, rfl, by simpa using h.symm⟩

example : execTake (.lit 0) [1, 2] = some [] := by decide

/-! ### variants that are not the code -/

/-- `0` as the "no limit" value of a refactored LIMIT step (`unwrap_or(0)` … `if limit > 0 { truncate }`):
    LIMIT 0 returns rows.  The smallest case: one row. -/
theorem limit_zero_sentinel_returns_rows_witness :
    ∃ (s : Sel) (base : List Row), s.limit = .lit 0 ∧ selectTailZeroSentinel s base ≠ [] :=
  ⟨{ limit := .lit 0 }, [⟨0, []⟩], by decide⟩

/-- … and that is the ONLY place where that variant differs from the code: for every k > 0, every absent or
    non-literal LIMIT and every table the two agree (which is why a test suite without LIMIT 0 cannot tell). -/
theorem limit_zero_sentinel_differs_only_at_zero (s : Sel) (base : List Row) (h : s.limit ≠ .lit 0) :
    selectTailZeroSentinel s base = selectTail s base := by
  unfold selectTailZeroSentinel selectTail
  cases hl : s.limit with
  | absent => rfl
  | other => rfl
  | lit k =>
    have : k > 0 := by
      rcases Nat.eq_zero_or_pos k with h0 | h0
      · exact absurd (by rw [hl, h0]) h
      · exact h0
    simp [applyLimitZeroSentinel, applyLimit, this]

example : ({ limit := .lit 3 } : Sel).limit ≠ .lit 0 := by decide

/-- LIMIT applied before OFFSET loses rows: `LIMIT 1 OFFSET 1` over two rows must return the second. -/
theorem limit_before_offset_loses_rows_witness :
    ∃ (s : Sel) (base : List Row), selectTail s base = [⟨1, []⟩] ∧ selectTailLimitFirst s base = [] :=
  ⟨{ limit := .lit 1, offset := .lit 1 }, [⟨0, []⟩, ⟨1, []⟩], by decide⟩

/-- OFFSET past the end without the `clear` arm returns the whole table. -/
theorem offset_past_the_end_without_clear_returns_rows_witness :
    ∃ (rows : List Nat), applyOffset (.lit 5) rows = [] ∧ applyOffsetNoClear (.lit 5) rows ≠ [] :=
  ⟨[1, 2], by decide⟩

end Neumann.Parse.Exec.Props
