/-
  C15 — model of the lexer, `neumann_parser/src/lexer.rs` (`Lexer::{peek, peek2, advance, eat,
  skip_whitespace_and_comments, scan_ident, scan_number, scan_string, next_token, tokenize}`) and
  of `TokenKind::keyword_from_str` (`token.rs`).  Import-free, total, computable.

  The source text is a list of `char`s.  The lexer asks three questions of the Unicode tables of
  the Rust standard library — `char::is_whitespace`, `char::is_alphanumeric` and (through
  `str::to_uppercase`, for the keyword lookup) `char::to_uppercase`; a `Ch` carries the code point
  together with the three answers, so the model is exact for EVERY table (the harness fills them
  in from Rust's own `char` methods; the theorems hold whatever they say).  Everything else is
  decided on the code point, as in the code.  `Ch.len` is `char::len_utf8`; positions are byte
  offsets and are advanced exactly as `Lexer::advance` does (`self.pos += c.len_utf8()`).

  Token kinds: keywords and punctuation are `name v` with `v` the `TokenKind` variant; identifiers
  and floats carry no payload (their text is the source between `lo` and `hi`); integers carry the
  value (`text.parse::<i64>()`, `errInteger` when it does not fit), strings the unescaped value.
  The four `TokenKind::Error` cases are separate kinds.  `fuel` is the model's own "ran out of
  steps" marker; `LexProps.lex_total` shows it never appears.
-/
namespace Neumann.Parse.Lex

/-- one `char` of the source with the answers of the three Unicode table lookups -/
structure Ch where
  cp : Nat
  ws : Bool          -- `char::is_whitespace`
  alnum : Bool       -- `char::is_alphanumeric`
  up : List Nat      -- `char::to_uppercase` (code points)
  deriving DecidableEq, Repr

/-- `char::len_utf8` -/
def Ch.len (c : Ch) : Nat :=
  if c.cp < 128 then 1 else if c.cp < 2048 then 2 else if c.cp < 65536 then 3 else 4

/-- length in bytes -/
def bytes : List Ch → Nat
  | [] => 0
  | c :: r => c.len + bytes r

inductive Kind
  | eof
  | name (v : String)
  | ident
  | integer (v : Nat)
  | float
  | str (value : List Nat)
  | errUnterminated     -- "unterminated string literal"
  | errInteger          -- "invalid integer: …"
  | errFloat            -- "invalid float: …"
  | errChar             -- "unexpected character: …"
  | fuel
  deriving DecidableEq, Repr

/-- a token with its `Span` (byte offsets) -/
structure Token where
  kind : Kind
  lo : Nat
  hi : Nat
  deriving DecidableEq, Repr

/-! ### `skip_whitespace_and_comments` -/

/-- where the skipping loop is: between items, inside a `--` comment, inside a `/* */` comment
    nested `d + 1` deep -/
inductive Mode | normal | line | block (d : Nat)
  deriving DecidableEq, Repr

def skip : Mode → Nat → List Ch → Nat × List Ch
  | _, p, [] => (p, [])
  | .normal, p, [c] =>
    -- `Some(c) if c.is_whitespace() => advance`
    if c.ws then (p + c.len, []) else (p, [c])
  | .normal, p, c :: d :: r' =>
    if c.ws then skip .normal (p + c.len) (d :: r')
    -- `Some('-') if self.peek2() == Some('-')`
    else if c.cp = 45 ∧ d.cp = 45 then skip .line (p + c.len + d.len) r'
    -- `Some('/') if self.peek2() == Some('*')`
    else if c.cp = 47 ∧ d.cp = 42 then skip (.block 0) (p + c.len + d.len) r'
    else (p, c :: d :: r')
  | .line, p, c :: r =>
    -- `if c == '\n' { break }`: the newline is left to the outer loop, which skips it as whitespace
    if c.cp = 10 then (if c.ws then skip .normal (p + c.len) r else (p, c :: r))
    else skip .line (p + c.len) r
  | .block _, p, [c] => (p + c.len, [])          -- `Some(_) => advance`, then `None => break`
  | .block k, p, c :: d :: r' =>
    if c.cp = 47 ∧ d.cp = 42 then skip (.block (k + 1)) (p + c.len + d.len) r'
    else if c.cp = 42 ∧ d.cp = 47 then
      (match k with
       | 0 => skip .normal (p + c.len + d.len) r'
       | k' + 1 => skip (.block k') (p + c.len + d.len) r')
    else skip (.block k) (p + c.len) (d :: r')

/-- REGRESSION VARIANT, kept for a witness only (`LexProps.advancing_scanner_runs_past_star_star_slash_witness`):
    the block-comment loop with `advance()` in place of the look-ahead —
    `match self.advance() { Some('/') => if self.advance() == Some('*') { depth += 1 }, Some('*') => if
    self.advance() == Some('/') { depth -= 1 }, Some(_) => {}, None => break }`.  The character after a `/` or
    a `*` is consumed whatever it is, so in `**/` the second `*` is swallowed as the successor of the first and
    the closing mark is missed.  Arguments: enclosing comments still open, position, rest; answer: position and
    rest when the loop ends. -/
def skipBlockAdvancing : Nat → Nat → List Ch → Nat × List Ch
  | _, p, [] => (p, [])
  | _, p, [c] => (p + c.len, [])
  | k, p, c :: d :: r =>
    if c.cp = 47 then
      (if d.cp = 42 then skipBlockAdvancing (k + 1) (p + c.len + d.len) r
       else skipBlockAdvancing k (p + c.len + d.len) r)
    else if c.cp = 42 then
      (if d.cp = 47 then
        (match k with
         | 0 => (p + c.len + d.len, r)
         | k' + 1 => skipBlockAdvancing k' (p + c.len + d.len) r)
       else skipBlockAdvancing k (p + c.len + d.len) r)
    else skipBlockAdvancing k (p + c.len) (d :: r)

/-! ### scanning -/

/-- `while let Some(c) = self.peek() { if f(c) { advance } else { break } }` -/
def takeW (f : Ch → Bool) : Nat → List Ch → Nat × List Ch
  | p, [] => (p, [])
  | p, c :: r => if f c then takeW f (p + c.len) r else (p, c :: r)

/-- the characters that loop consumes -/
def takenW (f : Ch → Bool) : List Ch → List Ch
  | [] => []
  | c :: r => if f c then c :: takenW f r else []

def isDigit (c : Ch) : Bool := decide (48 ≤ c.cp) && decide (c.cp ≤ 57)

/-- `'a'..='z' | 'A'..='Z' | '_'` -/
def isIdentStart (c : Ch) : Bool :=
  (decide (97 ≤ c.cp) && decide (c.cp ≤ 122)) || (decide (65 ≤ c.cp) && decide (c.cp ≤ 90)) || decide (c.cp = 95)

/-- `c.is_alphanumeric() || c == '_'` -/
def isIdentCont (c : Ch) : Bool := c.alnum || decide (c.cp = 95)

/-- `TokenKind::keyword_from_str`: (code points of the upper-case spelling, variant) -/
def keywords : List (List Nat × String) :=
  [([83, 69, 76, 69, 67, 84], "Select"),  -- SELECT
   ([70, 82, 79, 77], "From"),  -- FROM
   ([87, 72, 69, 82, 69], "Where"),  -- WHERE
   ([65, 78, 68], "And"),  -- AND
   ([79, 82], "Or"),  -- OR
   ([78, 79, 84], "Not"),  -- NOT
   ([73, 78], "In"),  -- IN
   ([73, 83], "Is"),  -- IS
   ([76, 73, 75, 69], "Like"),  -- LIKE
   ([66, 69, 84, 87, 69, 69, 78], "Between"),  -- BETWEEN
   ([67, 65, 83, 69], "Case"),  -- CASE
   ([87, 72, 69, 78], "When"),  -- WHEN
   ([84, 72, 69, 78], "Then"),  -- THEN
   ([69, 76, 83, 69], "Else"),  -- ELSE
   ([69, 78, 68], "End"),  -- END
   ([65, 83], "As"),  -- AS
   ([79, 78], "On"),  -- ON
   ([74, 79, 73, 78], "Join"),  -- JOIN
   ([76, 69, 70, 84], "Left"),  -- LEFT
   ([82, 73, 71, 72, 84], "Right"),  -- RIGHT
   ([73, 78, 78, 69, 82], "Inner"),  -- INNER
   ([79, 85, 84, 69, 82], "Outer"),  -- OUTER
   ([70, 85, 76, 76], "Full"),  -- FULL
   ([67, 82, 79, 83, 83], "Cross"),  -- CROSS
   ([78, 65, 84, 85, 82, 65, 76], "Natural"),  -- NATURAL
   ([85, 83, 73, 78, 71], "Using"),  -- USING
   ([71, 82, 79, 85, 80], "Group"),  -- GROUP
   ([66, 89], "By"),  -- BY
   ([72, 65, 86, 73, 78, 71], "Having"),  -- HAVING
   ([79, 82, 68, 69, 82], "Order"),  -- ORDER
   ([65, 83, 67], "Asc"),  -- ASC
   ([68, 69, 83, 67], "Desc"),  -- DESC
   ([78, 85, 76, 76, 83], "Nulls"),  -- NULLS
   ([70, 73, 82, 83, 84], "First"),  -- FIRST
   ([76, 65, 83, 84], "Last"),  -- LAST
   ([76, 73, 77, 73, 84], "Limit"),  -- LIMIT
   ([79, 70, 70, 83, 69, 84], "Offset"),  -- OFFSET
   ([68, 73, 83, 84, 73, 78, 67, 84], "Distinct"),  -- DISTINCT
   ([65, 76, 76], "All"),  -- ALL
   ([85, 78, 73, 79, 78], "Union"),  -- UNION
   ([73, 78, 84, 69, 82, 83, 69, 67, 84], "Intersect"),  -- INTERSECT
   ([69, 88, 67, 69, 80, 84], "Except"),  -- EXCEPT
   ([69, 88, 73, 83, 84, 83], "Exists"),  -- EXISTS
   ([67, 65, 83, 84], "Cast"),  -- CAST
   ([65, 78, 89], "Any"),  -- ANY
   ([73, 78, 83, 69, 82, 84], "Insert"),  -- INSERT
   ([73, 78, 84, 79], "Into"),  -- INTO
   ([86, 65, 76, 85, 69, 83], "Values"),  -- VALUES
   ([85, 80, 68, 65, 84, 69], "Update"),  -- UPDATE
   ([83, 69, 84], "Set"),  -- SET
   ([68, 69, 76, 69, 84, 69], "Delete"),  -- DELETE
   ([67, 82, 69, 65, 84, 69], "Create"),  -- CREATE
   ([84, 65, 66, 76, 69], "Table"),  -- TABLE
   ([73, 78, 68, 69, 88], "Index"),  -- INDEX
   ([68, 82, 79, 80], "Drop"),  -- DROP
   ([65, 76, 84, 69, 82], "Alter"),  -- ALTER
   ([65, 68, 68], "Add"),  -- ADD
   ([67, 79, 76, 85, 77, 78], "Column"),  -- COLUMN
   ([80, 82, 73, 77, 65, 82, 89], "Primary"),  -- PRIMARY
   ([75, 69, 89], "Key"),  -- KEY
   ([70, 79, 82, 69, 73, 71, 78], "Foreign"),  -- FOREIGN
   ([82, 69, 70, 69, 82, 69, 78, 67, 69, 83], "References"),  -- REFERENCES
   ([85, 78, 73, 81, 85, 69], "Unique"),  -- UNIQUE
   ([67, 72, 69, 67, 75], "Check"),  -- CHECK
   ([68, 69, 70, 65, 85, 76, 84], "Default"),  -- DEFAULT
   ([67, 79, 78, 83, 84, 82, 65, 73, 78, 84], "Constraint"),  -- CONSTRAINT
   ([67, 65, 83, 67, 65, 68, 69], "Cascade"),  -- CASCADE
   ([82, 69, 83, 84, 82, 73, 67, 84], "Restrict"),  -- RESTRICT
   ([73, 70], "If"),  -- IF
   ([83, 72, 79, 87], "Show"),  -- SHOW
   ([84, 65, 66, 76, 69, 83], "Tables"),  -- TABLES
   ([68, 69, 83, 67, 82, 73, 66, 69], "Describe"),  -- DESCRIBE
   ([69, 77, 66, 69, 68, 68, 73, 78, 71, 83], "Embeddings"),  -- EMBEDDINGS
   ([84, 82, 85, 69], "True"),  -- TRUE
   ([70, 65, 76, 83, 69], "False"),  -- FALSE
   ([78, 85, 76, 76], "Null"),  -- NULL
   ([73, 78, 84], "Int"),  -- INT
   ([73, 78, 84, 69, 71, 69, 82], "Integer_"),  -- INTEGER
   ([66, 73, 71, 73, 78, 84], "Bigint"),  -- BIGINT
   ([83, 77, 65, 76, 76, 73, 78, 84], "Smallint"),  -- SMALLINT
   ([70, 76, 79, 65, 84], "Float_"),  -- FLOAT
   ([68, 79, 85, 66, 76, 69], "Double"),  -- DOUBLE
   ([82, 69, 65, 76], "Real"),  -- REAL
   ([68, 69, 67, 73, 77, 65, 76], "Decimal"),  -- DECIMAL
   ([78, 85, 77, 69, 82, 73, 67], "Numeric"),  -- NUMERIC
   ([86, 65, 82, 67, 72, 65, 82], "Varchar"),  -- VARCHAR
   ([67, 72, 65, 82], "Char"),  -- CHAR
   ([84, 69, 88, 84], "Text"),  -- TEXT
   ([66, 79, 79, 76, 69, 65, 78], "Boolean"),  -- BOOLEAN
   ([68, 65, 84, 69], "Date"),  -- DATE
   ([84, 73, 77, 69], "Time"),  -- TIME
   ([84, 73, 77, 69, 83, 84, 65, 77, 80], "Timestamp"),  -- TIMESTAMP
   ([66, 76, 79, 66], "Blob"),  -- BLOB
   ([67, 79, 85, 78, 84], "Count"),  -- COUNT
   ([83, 85, 77], "Sum"),  -- SUM
   ([65, 86, 71], "Avg"),  -- AVG
   ([77, 73, 78], "Min"),  -- MIN
   ([77, 65, 88], "Max"),  -- MAX
   ([78, 79, 68, 69], "Node"),  -- NODE
   ([69, 68, 71, 69], "Edge"),  -- EDGE
   ([78, 69, 73, 71, 72, 66, 79, 82, 83], "Neighbors"),  -- NEIGHBORS
   ([80, 65, 84, 72], "Path"),  -- PATH
   ([71, 69, 84], "Get"),  -- GET
   ([76, 73, 83, 84], "List"),  -- LIST
   ([83, 84, 79, 82, 69], "Store"),  -- STORE
   ([79, 85, 84, 71, 79, 73, 78, 71], "Outgoing"),  -- OUTGOING
   ([73, 78, 67, 79, 77, 73, 78, 71], "Incoming"),  -- INCOMING
   ([66, 79, 84, 72], "Both"),  -- BOTH
   ([83, 72, 79, 82, 84, 69, 83, 84], "Shortest"),  -- SHORTEST
   ([80, 82, 79, 80, 69, 82, 84, 73, 69, 83], "Properties"),  -- PROPERTIES
   ([76, 65, 66, 69, 76], "Label"),  -- LABEL
   ([86, 69, 82, 84, 69, 88], "Vertex"),  -- VERTEX
   ([86, 69, 82, 84, 73, 67, 69, 83], "Vertices"),  -- VERTICES
   ([69, 68, 71, 69, 83], "Edges"),  -- EDGES
   ([69, 77, 66, 69, 68], "Embed"),  -- EMBED
   ([83, 73, 77, 73, 76, 65, 82], "Similar"),  -- SIMILAR
   ([86, 69, 67, 84, 79, 82], "Vector"),  -- VECTOR
   ([69, 77, 66, 69, 68, 68, 73, 78, 71], "Embedding"),  -- EMBEDDING
   ([68, 73, 77, 69, 78, 83, 73, 79, 78], "Dimension"),  -- DIMENSION
   ([68, 73, 83, 84, 65, 78, 67, 69], "Distance"),  -- DISTANCE
   ([67, 79, 83, 73, 78, 69], "Cosine"),  -- COSINE
   ([69, 85, 67, 76, 73, 68, 69, 65, 78], "Euclidean"),  -- EUCLIDEAN
   ([68, 79, 84, 95, 80, 82, 79, 68, 85, 67, 84], "DotProduct"),  -- DOT_PRODUCT
   ([68, 79, 84, 80, 82, 79, 68, 85, 67, 84], "DotProduct"),  -- DOTPRODUCT
   ([66, 85, 73, 76, 68], "Build"),  -- BUILD
   ([66, 65, 84, 67, 72], "Batch"),  -- BATCH
   ([70, 73, 78, 68], "Find"),  -- FIND
   ([87, 73, 84, 72], "With"),  -- WITH
   ([82, 69, 84, 85, 82, 78], "Return"),  -- RETURN
   ([77, 65, 84, 67, 72], "Match"),  -- MATCH
   ([69, 78, 84, 73, 84, 89], "Entity"),  -- ENTITY
   ([67, 79, 78, 78, 69, 67, 84, 69, 68], "Connected"),  -- CONNECTED
   ([82, 79, 87, 83], "Rows"),  -- ROWS
   ([86, 65, 85, 76, 84], "Vault"),  -- VAULT
   ([71, 82, 65, 78, 84], "Grant"),  -- GRANT
   ([82, 69, 86, 79, 75, 69], "Revoke"),  -- REVOKE
   ([82, 79, 84, 65, 84, 69], "Rotate"),  -- ROTATE
   ([67, 65, 67, 72, 69], "Cache"),  -- CACHE
   ([73, 78, 73, 84], "Init"),  -- INIT
   ([83, 84, 65, 84, 83], "Stats"),  -- STATS
   ([67, 76, 69, 65, 82], "Clear"),  -- CLEAR
   ([69, 86, 73, 67, 84], "Evict"),  -- EVICT
   ([80, 85, 84], "Put"),  -- PUT
   ([83, 69, 77, 65, 78, 84, 73, 67], "Semantic"),  -- SEMANTIC
   ([84, 72, 82, 69, 83, 72, 79, 76, 68], "Threshold"),  -- THRESHOLD
   ([67, 72, 69, 67, 75, 80, 79, 73, 78, 84], "Checkpoint"),  -- CHECKPOINT
   ([67, 72, 69, 67, 75, 80, 79, 73, 78, 84, 83], "Checkpoints"),  -- CHECKPOINTS
   ([82, 79, 76, 76, 66, 65, 67, 75], "Rollback"),  -- ROLLBACK
   ([67, 72, 65, 73, 78], "Chain"),  -- CHAIN
   ([66, 69, 71, 73, 78], "Begin"),  -- BEGIN
   ([67, 79, 77, 77, 73, 84], "Commit"),  -- COMMIT
   ([84, 82, 65, 78, 83, 65, 67, 84, 73, 79, 78], "Transaction"),  -- TRANSACTION
   ([72, 73, 83, 84, 79, 82, 89], "History"),  -- HISTORY
   ([68, 82, 73, 70, 84], "Drift"),  -- DRIFT
   ([67, 79, 68, 69, 66, 79, 79, 75], "Codebook"),  -- CODEBOOK
   ([71, 76, 79, 66, 65, 76], "Global"),  -- GLOBAL
   ([76, 79, 67, 65, 76], "Local"),  -- LOCAL
   ([65, 78, 65, 76, 89, 90, 69], "Analyze"),  -- ANALYZE
   ([72, 69, 73, 71, 72, 84], "Height"),  -- HEIGHT
   ([84, 82, 65, 78, 83, 73, 84, 73, 79, 78, 83], "Transitions"),  -- TRANSITIONS
   ([84, 73, 80], "Tip"),  -- TIP
   ([66, 76, 79, 67, 75], "Block"),  -- BLOCK
   ([67, 76, 85, 83, 84, 69, 82], "Cluster"),  -- CLUSTER
   ([67, 79, 78, 78, 69, 67, 84], "Connect"),  -- CONNECT
   ([68, 73, 83, 67, 79, 78, 78, 69, 67, 84], "Disconnect"),  -- DISCONNECT
   ([83, 84, 65, 84, 85, 83], "Status"),  -- STATUS
   ([78, 79, 68, 69, 83], "Nodes"),  -- NODES
   ([76, 69, 65, 68, 69, 82], "Leader"),  -- LEADER
   ([66, 76, 79, 66, 83], "Blobs"),  -- BLOBS
   ([73, 78, 70, 79], "Info"),  -- INFO
   ([76, 73, 78, 75], "Link"),  -- LINK
   ([85, 78, 76, 73, 78, 75], "Unlink"),  -- UNLINK
   ([76, 73, 78, 75, 83], "Links"),  -- LINKS
   ([84, 65, 71], "Tag"),  -- TAG
   ([85, 78, 84, 65, 71], "Untag"),  -- UNTAG
   ([86, 69, 82, 73, 70, 89], "Verify"),  -- VERIFY
   ([71, 67], "Gc"),  -- GC
   ([82, 69, 80, 65, 73, 82], "Repair"),  -- REPAIR
   ([84, 79], "To"),  -- TO
   ([70, 79, 82], "For"),  -- FOR
   ([77, 69, 84, 65], "Meta"),  -- META
   ([65, 82, 84, 73, 70, 65, 67, 84, 83], "Artifacts"),  -- ARTIFACTS
   ([80, 65, 71, 69, 82, 65, 78, 75], "PageRank"),  -- PAGERANK
   ([66, 69, 84, 87, 69, 69, 78, 78, 69, 83, 83], "Betweenness"),  -- BETWEENNESS
   ([67, 76, 79, 83, 69, 78, 69, 83, 83], "Closeness"),  -- CLOSENESS
   ([69, 73, 71, 69, 78, 86, 69, 67, 84, 79, 82], "Eigenvector"),  -- EIGENVECTOR
   ([67, 69, 78, 84, 82, 65, 76, 73, 84, 89], "Centrality"),  -- CENTRALITY
   ([76, 79, 85, 86, 65, 73, 78], "Louvain"),  -- LOUVAIN
   ([67, 79, 77, 77, 85, 78, 73, 84, 73, 69, 83], "Communities"),  -- COMMUNITIES
   ([80, 82, 79, 80, 65, 71, 65, 84, 73, 79, 78], "Propagation"),  -- PROPAGATION
   ([68, 65, 77, 80, 73, 78, 71], "Damping"),  -- DAMPING
   ([84, 79, 76, 69, 82, 65, 78, 67, 69], "Tolerance"),  -- TOLERANCE
   ([73, 84, 69, 82, 65, 84, 73, 79, 78, 83], "Iterations"),  -- ITERATIONS
   ([83, 65, 77, 80, 76, 73, 78, 71], "Sampling"),  -- SAMPLING
   ([82, 69, 83, 79, 76, 85, 84, 73, 79, 78], "Resolution"),  -- RESOLUTION
   ([80, 65, 83, 83, 69, 83], "Passes"),  -- PASSES
   ([87, 69, 73, 71, 72, 84, 69, 68], "Weighted"),  -- WEIGHTED
   ([86, 65, 82, 73, 65, 66, 76, 69], "Variable"),  -- VARIABLE
   ([72, 79, 80, 83], "Hops"),  -- HOPS
   ([68, 69, 80, 84, 72], "Depth"),  -- DEPTH
   ([83, 75, 73, 80], "Skip"),  -- SKIP
   ([84, 79, 84, 65, 76], "Total"),  -- TOTAL
   ([80, 65, 84, 84, 69, 82, 78], "Pattern"),  -- PATTERN
   ([65, 71, 71, 82, 69, 71, 65, 84, 69], "Aggregate"),  -- AGGREGATE
   ([80, 82, 79, 80, 69, 82, 84, 89], "Property"),  -- PROPERTY
   ([84, 89, 80, 69], "Type"),  -- TYPE
   ([71, 82, 65, 80, 72], "Graph")]  -- GRAPH

/-- `keyword_from_str(text)`: `text.to_uppercase()` looked up in the table -/
def keywordOf (text : List Ch) : Option String :=
  let upper := text.flatMap Ch.up
  (keywords.find? fun p => p.1 == upper).map (·.2)

def digitsVal : Nat → List Ch → Nat
  | acc, [] => acc
  | acc, c :: r => digitsVal (acc * 10 + (c.cp - 48)) r

def I64_MAX : Nat := 9223372036854775807

/-- `if self.peek() == Some('.') && self.peek2().is_some_and(|c| c.is_ascii_digit())`: the `.` and
    the digits after it -/
def scanFrac (p : Nat) (cs : List Ch) : Bool × Nat × List Ch :=
  match cs with
  | d :: e :: r2 =>
    if d.cp = 46 ∧ isDigit e = true then (true, takeW isDigit (p + d.len) (e :: r2)) else (false, p, cs)
  | _ => (false, p, cs)

/-- `if let Some('+' | '-') = self.peek() { advance }` -/
def scanSign (p : Nat) (cs : List Ch) : Nat × List Ch :=
  match cs with
  | g :: r => if g.cp = 43 ∨ g.cp = 45 then (p + g.len, r) else (p, cs)
  | [] => (p, [])

/-- `if let Some('e' | 'E') = self.peek()`: marker, optional sign, digits.
    Answer: (has exponent, its digits, position and rest after it) -/
def scanExp (p : Nat) (cs : List Ch) : Bool × List Ch × Nat × List Ch :=
  match cs with
  | e :: r =>
    if e.cp = 101 ∨ e.cp = 69 then
      let s := scanSign (p + e.len) r
      (true, takenW isDigit s.2, takeW isDigit s.1 s.2)
    else (false, [], p, cs)
  | [] => (false, [], p, [])

/-- `scan_number` after the first digit `c0` has been consumed (`p` = position after it) -/
def scanNumber (c0 : Ch) (p : Nat) (r : List Ch) : Kind × Nat × List Ch :=
  let digits1 := takenW isDigit r
  let a := takeW isDigit p r
  let fr := scanFrac a.1 a.2
  let ex := scanExp fr.2.1 fr.2.2
  let kind : Kind :=
    if fr.1 = true ∨ ex.1 = true then
      -- `text.parse::<f64>()` fails exactly when an exponent marker has no digit after it
      (if ex.1 = true ∧ ex.2.1 = [] then .errFloat else .float)
    else
      -- `text.parse::<i64>()`
      let v := digitsVal 0 (c0 :: digits1)
      if v ≤ I64_MAX then .integer v else .errInteger
  (kind, ex.2.2)

/-- the escape table of `scan_string` -/
def escape (c : Nat) : List Nat :=
  if c = 110 then [10] else if c = 114 then [13] else if c = 116 then [9] else if c = 92 then [92]
  else if c = 39 then [39] else if c = 34 then [34] else if c = 48 then [0] else [92, c]

/-- `scan_string` after the opening quote; `acc` = the value so far, reversed.
    Answer: `some value` when terminated -/
def scanStr (q : Nat) : List Nat → Nat → List Ch → Option (List Nat) × Nat × List Ch
  | _, p, [] => (none, p, [])
  | acc, p, c :: r =>
    if c.cp = q then
      -- a doubled quote is an escaped quote
      match r with
      | d :: r' => if d.cp = q then scanStr q (q :: acc) (p + c.len + d.len) r' else (some acc.reverse, p + c.len, r)
      | [] => (some acc.reverse, p + c.len, [])
    else if c.cp = 92 then
      match r with
      | d :: r' => scanStr q ((escape d.cp).reverse ++ acc) (p + c.len + d.len) r'
      | [] => (none, p + c.len, [])                  -- `None => value.push('\\')`, then unterminated
    else if c.cp = 10 then (none, p, c :: r)           -- `Some('\n') | None => break`
    else scanStr q (c.cp :: acc) (p + c.len) r

/-! ### what a string literal MEANS

  `scanStr` is the loop of the code.  `litValue` is the specification it is measured against
  (`LexStrProps`): the value denoted by the source characters BETWEEN the delimiters, as a function of
  those characters (code points) alone —

  * the delimiter written twice stands for one delimiter,
  * a backslash and the character after it stand for what the escape table of the code says,
  * every other character stands for itself.  In particular the quote character that is NOT the delimiter
    is an ordinary character, however many of them stand next to each other: `'{"name":""}'` is the eleven
    characters between the apostrophes, `"it''s"` has two apostrophes.

  A lone delimiter, a raw newline and a backslash at the very end are not part of any body (`none`): the first
  ends the literal, the other two leave it unterminated. -/

def litValue (q : Nat) : List Nat → Option (List Nat)
  | [] => some []
  | c :: r =>
    if c = q then
      match r with
      | d :: r' => if d = q then (litValue q r').map (q :: ·) else none
      | [] => none
    else if c = 92 then
      match r with
      | d :: r' => (litValue q r').map (escape d ++ ·)
      | [] => none
    else if c = 10 then none
    else (litValue q r).map (c :: ·)

/-- the canonical spelling of one character of a value inside a literal delimited by `q`: the delimiter is
    doubled, a backslash is doubled, a newline is written `\n`, every other character is written as it is -/
def renderCp (q c : Nat) : List Nat :=
  if c = q then [q, q] else if c = 92 then [92, 92] else if c = 10 then [92, 110] else [c]

/-- the canonical renderer: the body (the characters to put between two `q`s) of a literal with value `v` -/
def litRender (q : Nat) (v : List Nat) : List Nat := v.flatMap (renderCp q)

/-- REGRESSION VARIANT, kept for a witness only (`LexStrProps.either_quote_collapses_witness`): the arm for the
    DELIMITING quote widened to both quote characters —
    `Some(c @ ('\'' | '"')) => { advance; if peek == Some(c) { advance; push(c) } else if c == quote { terminated }
    else { push(c) } }`.  A doubled quote character of the kind that is NOT the delimiter collapses to one. -/
def scanStrEitherQuoteCollapses (q : Nat) : List Nat → Nat → List Ch → Option (List Nat) × Nat × List Ch
  | _, p, [] => (none, p, [])
  | acc, p, c :: r =>
    if c.cp = 39 ∨ c.cp = 34 then
      match r with
      | d :: r' =>
        if d.cp = c.cp then scanStrEitherQuoteCollapses q (c.cp :: acc) (p + c.len + d.len) r'
        else if c.cp = q then (some acc.reverse, p + c.len, d :: r')
        else scanStrEitherQuoteCollapses q (c.cp :: acc) (p + c.len) (d :: r')
      | [] => if c.cp = q then (some acc.reverse, p + c.len, []) else (none, p + c.len, [])
    else if c.cp = 92 then
      match r with
      | d :: r' => scanStrEitherQuoteCollapses q ((escape d.cp).reverse ++ acc) (p + c.len + d.len) r'
      | [] => (none, p + c.len, [])
    else if c.cp = 10 then (none, p, c :: r)
    else scanStrEitherQuoteCollapses q (c.cp :: acc) (p + c.len) r

/-- one- and two-character operators: (variant, characters consumed after the first) -/
def punct (c : Nat) (next : Option Nat) : Option (String × Bool) :=
  if c = 43 then some ("Plus", false)
  else if c = 45 then (if next = some 62 then some ("Arrow", true) else some ("Minus", false))
  else if c = 42 then some ("Star", false)
  else if c = 47 then some ("Slash", false)
  else if c = 37 then some ("Percent", false)
  else if c = 61 then (if next = some 62 then some ("FatArrow", true) else some ("Eq", false))
  else if c = 33 then (if next = some 61 then some ("Ne", true) else some ("Bang", false))
  else if c = 60 then
    (if next = some 61 then some ("Le", true) else if next = some 62 then some ("Ne", true)
     else if next = some 60 then some ("Shl", true) else some ("Lt", false))
  else if c = 62 then
    (if next = some 61 then some ("Ge", true) else if next = some 62 then some ("Shr", true)
     else some ("Gt", false))
  else if c = 38 then (if next = some 38 then some ("AmpAmp", true) else some ("Amp", false))
  else if c = 124 then (if next = some 124 then some ("Concat", true) else some ("Pipe", false))
  else if c = 94 then some ("Caret", false)
  else if c = 126 then some ("Tilde", false)
  else if c = 40 then some ("LParen", false)
  else if c = 41 then some ("RParen", false)
  else if c = 91 then some ("LBracket", false)
  else if c = 93 then some ("RBracket", false)
  else if c = 123 then some ("LBrace", false)
  else if c = 125 then some ("RBrace", false)
  else if c = 44 then some ("Comma", false)
  else if c = 46 then some ("Dot", false)
  else if c = 59 then some ("Semicolon", false)
  else if c = 58 then (if next = some 58 then some ("ColonColon", true) else some ("Colon", false))
  else if c = 63 then some ("Question", false)
  else if c = 64 then some ("At", false)
  else if c = 35 then some ("Hash", false)
  else if c = 36 then some ("Dollar", false)
  else none

/-- `next_token` after the skipping, at position `p` with `c :: r` left -/
def scanToken (p : Nat) (c : Ch) (r : List Ch) : Token × Nat × List Ch :=
  let p1 := p + c.len
  if isIdentStart c then
    let t := takeW isIdentCont p1 r
    let text := c :: takenW isIdentCont r
    (⟨match keywordOf text with | some v => .name v | none => .ident, p, t.1⟩, t)
  else if isDigit c then
    let n := scanNumber c p1 r
    (⟨n.1, p, n.2.1⟩, n.2)
  else if c.cp = 39 ∨ c.cp = 34 then
    let s := scanStr c.cp [] p1 r
    (⟨match s.1 with | some v => .str v | none => .errUnterminated, p, s.2.1⟩, s.2)
  else
    match punct c.cp (r.head?.map Ch.cp) with
    | some (v, two) =>
      if two then
        (match r with
         | d :: r' => (⟨.name v, p, p1 + d.len⟩, p1 + d.len, r')
         | [] => (⟨.name v, p, p1⟩, p1, []))
      else (⟨.name v, p, p1⟩, p1, r)
    | none => (⟨.errChar, p, p1⟩, p1, r)

/-- `tokenize`: tokens up to and including `Eof` -/
def lexN : Nat → Nat → List Ch → List Token
  | 0, p, _ => [⟨.fuel, p, p⟩]
  | fuel + 1, p, cs =>
    match skip .normal p cs with
    | (q, []) => [⟨.eof, q, q⟩]
    | (q, c :: r) =>
      let t := scanToken q c r
      t.1 :: lexN fuel t.2.1 t.2.2

/-- `neumann_parser::tokenize` -/
def lex (src : List Ch) : List Token := lexN (src.length + 1) 0 src

end Neumann.Parse.Lex
