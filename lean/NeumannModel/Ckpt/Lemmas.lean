import NeumannModel.Ckpt.Model
/-
  C08 — helper lemmas for the checkpoint / rollback model (core Lean only).
-/
namespace Neumann.Ckpt

/-! ### association lists -/
section AL
variable {α β : Type} [DecidableEq α]

theorem alPut_keys (l : List (α × β)) (k : α) (v : β) :
    (alPut l k v).map (·.1) = if k ∈ l.map (·.1) then l.map (·.1) else l.map (·.1) ++ [k] := by
  induction l with
  | nil => simp [alPut]
  | cons p r ih =>
    obtain ⟨a, b⟩ := p
    by_cases h : a = k
    · subst h; simp [alPut]
    · have h' : ¬ k = a := fun e => h e.symm
      simp only [alPut, h, if_false, List.map_cons, ih, List.mem_cons, h', false_or]
      split <;> simp

theorem alPut_append (l : List (α × β)) (k : α) (v : β) (h : k ∉ l.map (·.1)) :
    alPut l k v = l ++ [(k, v)] := by
  induction l with
  | nil => rfl
  | cons p r ih =>
    obtain ⟨a, b⟩ := p
    simp only [List.map_cons, List.mem_cons, not_or] at h
    have h1 : ¬ a = k := fun e => h.1 e.symm
    simp [alPut, h1, ih h.2]

theorem alPut_nodup (l : List (α × β)) (k : α) (v : β) (h : (l.map (·.1)).Nodup) :
    ((alPut l k v).map (·.1)).Nodup := by
  rw [alPut_keys]
  split
  · exact h
  · rename_i hk
    exact List.nodup_append.mpr ⟨h, by simp, by
      intro a ha b hb
      simp only [List.mem_singleton] at hb
      subst hb
      intro e; subst e; exact hk ha⟩

theorem alPut_mem (l : List (α × β)) (k : α) (v : β) (p : α × β) (h : p ∈ alPut l k v) :
    p ∈ l ∨ p = (k, v) := by
  induction l with
  | nil => simp [alPut] at h; exact Or.inr h
  | cons q r ih =>
    obtain ⟨a, b⟩ := q
    simp only [alPut] at h
    split at h
    · rename_i hak
      simp only [List.mem_cons] at h
      rcases h with h | h
      · subst hak; exact Or.inr h
      · exact Or.inl (List.mem_cons_of_mem _ h)
    · simp only [List.mem_cons] at h
      rcases h with h | h
      · exact Or.inl (by simp [h])
      · rcases ih h with h | h
        · exact Or.inl (List.mem_cons_of_mem _ h)
        · exact Or.inr h

theorem alDel_sublist (l : List (α × β)) (k : α) : (alDel l k).Sublist l := by
  induction l with
  | nil => exact List.Sublist.refl _
  | cons p r ih =>
    obtain ⟨a, b⟩ := p
    simp only [alDel]
    split
    · exact List.Sublist.cons _ ih
    · exact List.Sublist.cons_cons _ ih

theorem alDel_nodup (l : List (α × β)) (k : α) (h : (l.map (·.1)).Nodup) :
    ((alDel l k).map (·.1)).Nodup :=
  List.Nodup.sublist ((alDel_sublist l k).map _) h

theorem alGet_alPut (l : List (α × β)) (k : α) (v : β) (x : α) :
    alGet (alPut l k v) x = if k = x then some v else alGet l x := by
  induction l with
  | nil => simp [alPut, alGet]
  | cons p r ih =>
    obtain ⟨a, b⟩ := p
    by_cases h : a = k
    · subst h
      by_cases hx : a = x <;> simp [alPut, alGet, hx]
    · by_cases hx : a = x
      · subst hx
        have hk : ¬ k = a := fun e => h e.symm
        simp [alPut, alGet, h, hk]
      · simp [alPut, alGet, h, hx, ih]

theorem alGet_alDel (l : List (α × β)) (k : α) (x : α) :
    alGet (alDel l k) x = if k = x then none else alGet l x := by
  induction l with
  | nil => simp [alDel, alGet]
  | cons p r ih =>
    obtain ⟨a, b⟩ := p
    by_cases h : a = k
    · subst h
      by_cases hx : a = x
      · subst hx; simpa [alDel] using ih
      · simp [alDel, alGet, hx, ih]
    · by_cases hx : a = x
      · subst hx
        have hk : ¬ k = a := fun e => h e.symm
        simp [alDel, alGet, h, hk]
      · simp [alDel, alGet, h, hx, ih]

theorem alGet_some_of_mem (l : List (α × β)) (h : (l.map (·.1)).Nodup) (p : α × β) (hp : p ∈ l) :
    alGet l p.1 = some p.2 := by
  induction l with
  | nil => cases hp
  | cons q r ih =>
    obtain ⟨a, b⟩ := q
    simp only [List.map_cons, List.nodup_cons] at h
    simp only [List.mem_cons] at hp
    rcases hp with hp | hp
    · subst hp; simp [alGet]
    · have : a ≠ p.1 := fun e => h.1 (by rw [e]; exact List.mem_map_of_mem hp)
      simp [alGet, this, ih h.2 hp]

theorem alGet_isSome_iff (l : List (α × β)) (x : α) : (alGet l x).isSome = true ↔ x ∈ l.map (·.1) := by
  induction l with
  | nil => simp [alGet]
  | cons p r ih =>
    obtain ⟨a, b⟩ := p
    by_cases h : a = x
    · simp [alGet, h]
    · have hk : ¬ x = a := fun e => h e.symm
      simp [alGet, h, ih, hk]

theorem alHas_iff (l : List (α × β)) (x : α) : alHas l x = true ↔ x ∈ l.map (·.1) := by
  unfold alHas; exact alGet_isSome_iff l x

end AL

/-! ### retention: the stable descending sort -/

theorem insertDesc_perm (x : Nat × Nat) (l : List (Nat × Nat)) : (insertDesc x l).Perm (x :: l) := by
  induction l with
  | nil => exact List.Perm.refl _
  | cons y ys ih =>
    simp only [insertDesc]
    split
    · exact ((List.Perm.cons y ih).trans (List.Perm.swap x y ys))
    · exact List.Perm.refl _

theorem sortDesc_perm (l : List (Nat × Nat)) : (sortDesc l).Perm l := by
  induction l with
  | nil => exact List.Perm.refl _
  | cons x xs ih =>
    show (insertDesc x (sortDesc xs)).Perm (x :: xs)
    exact (insertDesc_perm x _).trans (List.Perm.cons x ih)

/-- newest first -/
def DescSorted (l : List (Nat × Nat)) : Prop := l.Pairwise fun a b => b.2 ≤ a.2

theorem insertDesc_sorted (x : Nat × Nat) (l : List (Nat × Nat)) (h : DescSorted l) :
    DescSorted (insertDesc x l) := by
  induction l with
  | nil => simp [insertDesc, DescSorted]
  | cons y ys ih =>
    unfold DescSorted at h ih ⊢
    rw [List.pairwise_cons] at h
    simp only [insertDesc]
    split
    · rename_i hyx
      rw [List.pairwise_cons]
      refine ⟨?_, ih h.2⟩
      intro b hb
      have hb' : b ∈ x :: ys := (insertDesc_perm x ys).mem_iff.mp hb
      rcases List.mem_cons.mp hb' with hb' | hb'
      · subst hb'; omega
      · exact h.1 b hb'
    · rename_i hyx
      rw [List.pairwise_cons]
      refine ⟨?_, List.pairwise_cons.mpr h⟩
      intro b hb
      rcases List.mem_cons.mp hb with hb | hb
      · subst hb; omega
      · have := h.1 b hb; omega

theorem sortDesc_sorted (l : List (Nat × Nat)) : DescSorted (sortDesc l) := by
  induction l with
  | nil => simp [sortDesc, DescSorted]
  | cons x xs ih => exact insertDesc_sorted x _ ih

/-! ### the store invariant of the slab-free fragment -/

/-- values that do not touch the embedding slab (no `_embedding` field) -/
def Val.noSlab : Val → Bool
  | .raw _ (some _) => false
  | _ => true

def Key.notCache : Key → Bool
  | .cache _ => false
  | _ => true

structure WF0 (s : Store) : Prop where
  mdNodup : (s.md.map (·.1)).Nodup
  cacheNodup : (s.cache.map (·.1)).Nodup
  eidxSub : ∀ n, alHas s.eidx n = true → alHas s.md (.emb n) = true
  noSlab : s.eslab = []
  vals : ∀ p ∈ s.md, p.2.noSlab = true ∧ p.1.notCache = true
  cvals : ∀ p ∈ s.cache, p.2.noSlab = true

theorem WF0.empty : WF0 {} := ⟨by simp, by simp, by simp [alHas, alGet], rfl, by simp, by simp⟩

theorem alHas_alPut_of {α β : Type} [DecidableEq α] (l : List (α × β)) (k : α) (v : β) (x : α)
    (h : alHas l x = true ∨ k = x) : alHas (alPut l k v) x = true := by
  unfold alHas at *
  rw [alGet_alPut]
  split
  · rfl
  · rcases h with h | h
    · exact h
    · contradiction

theorem WF0.put_md {s : Store} (h : WF0 s) (k : Key) (v : Val) (hv : v.noSlab = true)
    (hk : k.notCache = true) :
    ((alPut s.md k v).map (·.1)).Nodup ∧
    (∀ p ∈ alPut s.md k v, p.2.noSlab = true ∧ p.1.notCache = true) := by
  refine ⟨alPut_nodup _ _ _ h.mdNodup, ?_⟩
  intro p hp
  rcases alPut_mem _ _ _ _ hp with hp | hp
  · exact h.vals p hp
  · subst hp; exact ⟨hv, hk⟩

theorem WF0.put {s : Store} (h : WF0 s) (k : Key) (v : Val) (hv : v.noSlab = true) :
    WF0 (s.put k v) := by
  cases k with
  | emb n =>
    have hm := h.put_md (.emb n) v hv rfl
    have hsl : (match v with
        | .raw _ (some e) => alPut s.eslab
            (match alGet s.eidx n with
              | some id => (id, s.eidx, s.enext)
              | none => (s.enext, s.eidx ++ [(n, s.enext)], s.enext + 1)).1 e
        | _ => alDel s.eslab
            (match alGet s.eidx n with
              | some id => (id, s.eidx, s.enext)
              | none => (s.enext, s.eidx ++ [(n, s.enext)], s.enext + 1)).1) = [] := by
      rw [h.noSlab]
      cases v with
      | raw x e => cases e with
        | none => rfl
        | some e => simp [Val.noSlab] at hv
      | _ => rfl
    refine ⟨hm.1, h.cacheNodup, ?_, hsl, hm.2, h.cvals⟩
    intro m hm'
    show alHas (alPut s.md (.emb n) v) (.emb m) = true
    apply alHas_alPut_of
    by_cases e : n = m
    · exact Or.inr (by rw [e])
    · left
      apply h.eidxSub
      revert hm'
      show alHas (match alGet s.eidx n with
              | some id => (id, s.eidx, s.enext)
              | none => (s.enext, s.eidx ++ [(n, s.enext)], s.enext + 1)).2.1 m = true → _
      cases alGet s.eidx n with
      | some i => exact fun hh => hh
      | none =>
        intro hh
        rw [alHas_iff] at hh ⊢
        simp only [List.map_append, List.map_cons, List.map_nil, List.mem_append,
          List.mem_singleton] at hh
        rcases hh with hh | hh
        · exact hh
        · exact absurd hh.symm e
  | cache n =>
    refine ⟨h.mdNodup, alPut_nodup _ _ _ h.cacheNodup, h.eidxSub, h.noSlab, h.vals, ?_⟩
    intro p hp
    rcases alPut_mem _ _ _ _ hp with hp | hp
    · exact h.cvals p hp
    · subst hp; exact hv
  | tmeta t => have hm := h.put_md (.tmeta t) v hv rfl; exact ⟨hm.1, h.cacheNodup, fun m hm' => alHas_alPut_of _ _ _ _ (Or.inl (h.eidxSub m hm')), h.noSlab, hm.2, h.cvals⟩
  | hmeta t => have hm := h.put_md (.hmeta t) v hv rfl; exact ⟨hm.1, h.cacheNodup, fun m hm' => alHas_alPut_of _ _ _ _ (Or.inl (h.eidxSub m hm')), h.noSlab, hm.2, h.cvals⟩
  | hent t x => have hm := h.put_md (.hent t x) v hv rfl; exact ⟨hm.1, h.cacheNodup, fun m hm' => alHas_alPut_of _ _ _ _ (Or.inl (h.eidxSub m hm')), h.noSlab, hm.2, h.cvals⟩
  | bmeta t => have hm := h.put_md (.bmeta t) v hv rfl; exact ⟨hm.1, h.cacheNodup, fun m hm' => alHas_alPut_of _ _ _ _ (Or.inl (h.eidxSub m hm')), h.noSlab, hm.2, h.cvals⟩
  | bent t x => have hm := h.put_md (.bent t x) v hv rfl; exact ⟨hm.1, h.cacheNodup, fun m hm' => alHas_alPut_of _ _ _ _ (Or.inl (h.eidxSub m hm')), h.noSlab, hm.2, h.cvals⟩
  | node i => have hm := h.put_md (.node i) v hv rfl; exact ⟨hm.1, h.cacheNodup, fun m hm' => alHas_alPut_of _ _ _ _ (Or.inl (h.eidxSub m hm')), h.noSlab, hm.2, h.cvals⟩
  | nout i => have hm := h.put_md (.nout i) v hv rfl; exact ⟨hm.1, h.cacheNodup, fun m hm' => alHas_alPut_of _ _ _ _ (Or.inl (h.eidxSub m hm')), h.noSlab, hm.2, h.cvals⟩
  | nin i => have hm := h.put_md (.nin i) v hv rfl; exact ⟨hm.1, h.cacheNodup, fun m hm' => alHas_alPut_of _ _ _ _ (Or.inl (h.eidxSub m hm')), h.noSlab, hm.2, h.cvals⟩
  | edge i => have hm := h.put_md (.edge i) v hv rfl; exact ⟨hm.1, h.cacheNodup, fun m hm' => alHas_alPut_of _ _ _ _ (Or.inl (h.eidxSub m hm')), h.noSlab, hm.2, h.cvals⟩
  | gidx b => have hm := h.put_md (.gidx b) v hv rfl; exact ⟨hm.1, h.cacheNodup, fun m hm' => alHas_alPut_of _ _ _ _ (Or.inl (h.eidxSub m hm')), h.noSlab, hm.2, h.cvals⟩
  | plain i => have hm := h.put_md (.plain i) v hv rfl; exact ⟨hm.1, h.cacheNodup, fun m hm' => alHas_alPut_of _ _ _ _ (Or.inl (h.eidxSub m hm')), h.noSlab, hm.2, h.cvals⟩

theorem alHas_alDel {α β : Type} [DecidableEq α] (l : List (α × β)) (k x : α) :
    alHas (alDel l k) x = true ↔ (k ≠ x ∧ alHas l x = true) := by
  unfold alHas
  rw [alGet_alDel]
  by_cases h : k = x <;> simp [h]

theorem WF0.del_md {s : Store} (h : WF0 s) (k : Key) :
    ((alDel s.md k).map (·.1)).Nodup ∧
    (∀ p ∈ alDel s.md k, p.2.noSlab = true ∧ p.1.notCache = true) :=
  ⟨alDel_nodup _ _ h.mdNodup, fun p hp => h.vals p ((alDel_sublist _ _).subset hp)⟩

theorem WF0.delete {s s' : Store} (h : WF0 s) (k : Key) (hd : s.delete k = some s') : WF0 s' := by
  unfold Store.delete at hd
  split at hd
  · cases hd
  · have hm := h.del_md k
    cases k with
    | emb n =>
      simp only [Option.some.injEq] at hd
      subst hd
      refine ⟨hm.1, h.cacheNodup, ?_, ?_, hm.2, h.cvals⟩
      · intro m hm'
        rw [alHas_alDel] at hm' ⊢
        exact ⟨fun e => hm'.1 (by cases e; rfl), h.eidxSub m hm'.2⟩
      · show (match alGet s.eidx n with | some id => alDel s.eslab id | none => s.eslab) = []
        rw [h.noSlab]; cases alGet s.eidx n <;> rfl
    | cache n =>
      simp only [Option.some.injEq] at hd
      subst hd
      exact ⟨h.mdNodup, alDel_nodup _ _ h.cacheNodup, h.eidxSub, h.noSlab, h.vals,
        fun p hp => h.cvals p ((alDel_sublist _ _).subset hp)⟩
    | tmeta t => simp only [Option.some.injEq] at hd; subst hd; exact ⟨hm.1, h.cacheNodup, fun m hm' => (alHas_alDel _ _ _).mpr ⟨(by intro e; cases e), h.eidxSub m hm'⟩, h.noSlab, hm.2, h.cvals⟩
    | hmeta t => simp only [Option.some.injEq] at hd; subst hd; exact ⟨hm.1, h.cacheNodup, fun m hm' => (alHas_alDel _ _ _).mpr ⟨(by intro e; cases e), h.eidxSub m hm'⟩, h.noSlab, hm.2, h.cvals⟩
    | hent t x => simp only [Option.some.injEq] at hd; subst hd; exact ⟨hm.1, h.cacheNodup, fun m hm' => (alHas_alDel _ _ _).mpr ⟨(by intro e; cases e), h.eidxSub m hm'⟩, h.noSlab, hm.2, h.cvals⟩
    | bmeta t => simp only [Option.some.injEq] at hd; subst hd; exact ⟨hm.1, h.cacheNodup, fun m hm' => (alHas_alDel _ _ _).mpr ⟨(by intro e; cases e), h.eidxSub m hm'⟩, h.noSlab, hm.2, h.cvals⟩
    | bent t x => simp only [Option.some.injEq] at hd; subst hd; exact ⟨hm.1, h.cacheNodup, fun m hm' => (alHas_alDel _ _ _).mpr ⟨(by intro e; cases e), h.eidxSub m hm'⟩, h.noSlab, hm.2, h.cvals⟩
    | node i => simp only [Option.some.injEq] at hd; subst hd; exact ⟨hm.1, h.cacheNodup, fun m hm' => (alHas_alDel _ _ _).mpr ⟨(by intro e; cases e), h.eidxSub m hm'⟩, h.noSlab, hm.2, h.cvals⟩
    | nout i => simp only [Option.some.injEq] at hd; subst hd; exact ⟨hm.1, h.cacheNodup, fun m hm' => (alHas_alDel _ _ _).mpr ⟨(by intro e; cases e), h.eidxSub m hm'⟩, h.noSlab, hm.2, h.cvals⟩
    | nin i => simp only [Option.some.injEq] at hd; subst hd; exact ⟨hm.1, h.cacheNodup, fun m hm' => (alHas_alDel _ _ _).mpr ⟨(by intro e; cases e), h.eidxSub m hm'⟩, h.noSlab, hm.2, h.cvals⟩
    | edge i => simp only [Option.some.injEq] at hd; subst hd; exact ⟨hm.1, h.cacheNodup, fun m hm' => (alHas_alDel _ _ _).mpr ⟨(by intro e; cases e), h.eidxSub m hm'⟩, h.noSlab, hm.2, h.cvals⟩
    | gidx b => simp only [Option.some.injEq] at hd; subst hd; exact ⟨hm.1, h.cacheNodup, fun m hm' => (alHas_alDel _ _ _).mpr ⟨(by intro e; cases e), h.eidxSub m hm'⟩, h.noSlab, hm.2, h.cvals⟩
    | plain i => simp only [Option.some.injEq] at hd; subst hd; exact ⟨hm.1, h.cacheNodup, fun m hm' => (alHas_alDel _ _ _).mpr ⟨(by intro e; cases e), h.eidxSub m hm'⟩, h.noSlab, hm.2, h.cvals⟩

theorem WF0.del {s : Store} (h : WF0 s) (k : Key) : WF0 (s.del k) := by
  unfold Store.del
  cases hd : s.delete k with
  | none => exact h
  | some s' => exact h.delete k hd

theorem WF0.setRel {s : Store} (h : WF0 s) (r : List (Nat × List Row)) : WF0 { s with rel := r } :=
  ⟨h.mdNodup, h.cacheNodup, h.eidxSub, h.noSlab, h.vals, h.cvals⟩

theorem WF0.setCps {s : Store} (h : WF0 s) (c : List (Nat × Nat)) : WF0 { s with cps := c } :=
  ⟨h.mdNodup, h.cacheNodup, h.eidxSub, h.noSlab, h.vals, h.cvals⟩

/-! ### predicates on the store preserved by every data statement -/

structure Closed (P : Store → Prop) : Prop where
  put : ∀ s k v, v.noSlab = true → P s → P (s.put k v)
  delete : ∀ s s' k, s.delete k = some s' → P s → P s'
  rel : ∀ s r, P s → P { s with rel := r }

/-- statements that do not write an `_embedding` field (the embedding-slab path) -/
def Op.noSlab : Op → Bool
  | .kput c _ _ (some _) => c != 2
  | _ => true

/-- relational / graph / vector / raw statements (everything but checkpoint control) -/
def Op.isData : Op → Bool
  | .ckpt _ _ => false
  | .rollback _ => false
  | .setmax _ => false
  | _ => true

section ClosedLemmas
variable {P : Store → Prop} (hP : Closed P)
include hP

theorem Closed.putOk {s : Store} {k : Key} {v : Val} (h : P s) (hv : v.noSlab = true := by rfl) :
    P (s.put k v) := hP.put s k v hv h

theorem Closed.p_del (s : Store) (k : Key) (h : P s) : P (s.del k) := by
  unfold Store.del
  cases hd : s.delete k with
  | none => exact h
  | some s' => exact hP.delete s s' k hd h

theorem Closed.p_setRel (s : Store) (t : Nat) (rows : List Row) (h : P s) : P (setRel s t rows) :=
  hP.rel s _ h

theorem Closed.p_idxAdd (s : Store) (k : Key) (r : Nat) (h : P s) : P (idxAdd s k r) := by
  unfold idxAdd
  simp only
  split
  · exact h
  · refine hP.put _ _ _ ?_ h
    rfl

theorem Closed.p_idxRemove (s : Store) (k : Key) (r : Nat) (h : P s) : P (idxRemove s k r) := by
  unfold idxRemove
  split
  · simp only
    split
    · exact hP.p_del _ _ h
    · refine hP.put _ _ _ ?_ h
      rfl
  · exact h

theorem Closed.p_listAdd (s : Store) (k : Key) (e : Nat) (h : P s) : P (listAdd s k e) := by
  unfold listAdd
  exact hP.putOk h

theorem Closed.p_listRemove (s : Store) (k : Key) (e : Nat) (h : P s) : P (listRemove s k e) := by
  unfold listRemove
  split
  · refine hP.put _ _ _ ?_ h
    rfl
  · exact h

omit hP in
theorem Closed.p_foldl {γ : Type} (f : Store → γ → Store) (hf : ∀ s x, P s → P (f s x))
    (l : List γ) (s : Store) (h : P s) : P (l.foldl f s) := by
  induction l generalizing s with
  | nil => exact h
  | cons x xs ih => exact ih _ (hf s x h)

omit hP in
theorem Closed.p_foldlPair {β γ : Type} (f : Store × β → γ → Store × β)
    (hf : ∀ a x, P a.1 → P (f a x).1) (l : List γ) (a : Store × β) (h : P a.1) :
    P (l.foldl f a).1 := by
  induction l generalizing a with
  | nil => exact h
  | cons x xs ih => exact ih _ (hf a x h)

end ClosedLemmas

section StepClosed
variable {P : Store → Prop} (hP : Closed P)
include hP

theorem Closed.rCreate (d : Db) (t : Nat) (h : P d.st) : P (rCreate d t).1.st := by
  unfold Neumann.Ckpt.rCreate
  split
  · exact h
  · split
    · exact h
    · dsimp only
      refine hP.put _ _ _ ?_ (hP.p_setRel _ _ _ h)
      rfl

theorem Closed.rInsert (d : Db) (t : Nat) (k v : Int) (h : P d.st) : P (rInsert d t k v).1.st := by
  unfold Neumann.Ckpt.rInsert
  split
  · exact h
  · split
    · exact h
    · simp only
      have h1 := hP.p_setRel d.st t (‹List Row› ++ [⟨true, k, v⟩]) h
      split <;> split <;> first | exact hP.p_idxAdd _ _ _ (hP.p_idxAdd _ _ _ h1) | exact hP.p_idxAdd _ _ _ h1 | exact h1

theorem Closed.rDeleteRow (t : Nat) (a b : Bool) (acc : Store × List (Nat × List (Int × List Nat)))
    (r : Nat × Int × Int) (h : P acc.1) : P (rDeleteRow t a b acc r).1 := by
  unfold Neumann.Ckpt.rDeleteRow
  simp only
  apply hP.p_setRel
  split <;> split <;>
    first | exact hP.p_idxRemove _ _ _ (hP.p_idxRemove _ _ _ h) | exact hP.p_idxRemove _ _ _ h | exact h

theorem Closed.rDelete (d : Db) (t : Nat) (k : Int) (h : P d.st) : P (rDelete d t k).1.st := by
  unfold Neumann.Ckpt.rDelete
  split
  · exact h
  · split
    · exact h
    · simp only
      exact Closed.p_foldlPair _ (fun a x ha => hP.rDeleteRow t _ _ a x ha) _ _ h

theorem Closed.rDrop (d : Db) (t : Nat) (h : P d.st) : P (rDrop d t).1.st := by
  unfold Neumann.Ckpt.rDrop
  split
  · exact h
  · simp only
    apply hP.p_del
    apply Closed.p_foldl _ (fun s x hs => hP.p_del s x hs)
    exact hP.rel _ _ h

theorem Closed.rHidx (d : Db) (t : Nat) (h : P d.st) : P (rHidx d t).1.st := by
  unfold Neumann.Ckpt.rHidx
  split
  · exact h
  · split
    · exact h
    · simp only
      have h1 := hP.putOk (k := .hmeta t) (v := .unit) h
      split
      · exact h1
      · exact Closed.p_foldl _ (fun s x hs => hP.p_idxAdd s _ _ hs) _ _ h1

theorem Closed.rBidx (d : Db) (t : Nat) (h : P d.st) : P (rBidx d t).1.st := by
  unfold Neumann.Ckpt.rBidx
  split
  · exact h
  · split
    · exact h
    · simp only
      have h1 := hP.putOk (k := .bmeta t) (v := .unit) h
      split
      · exact h1
      · exact Closed.p_foldlPair _ (fun a x ha => hP.p_idxAdd a.1 _ _ ha) _ _ h1

theorem Closed.ensureLabelIdx (d : Db) (h : P d.st) : P (ensureLabelIdx d).st := by
  unfold Neumann.Ckpt.ensureLabelIdx
  split
  · exact h
  · split
    · exact h
    · dsimp only
      refine hP.put _ _ _ ?_ h
      rfl

theorem Closed.ensureEtypeIdx (d : Db) (h : P d.st) : P (ensureEtypeIdx d).st := by
  unfold Neumann.Ckpt.ensureEtypeIdx
  split
  · exact h
  · split
    · exact h
    · dsimp only
      refine hP.put _ _ _ ?_ h
      rfl

theorem Closed.gNode (d : Db) (l : Nat) (h : P d.st) : P (gNode d l).1.st := by
  unfold Neumann.Ckpt.gNode
  simp only
  exact hP.putOk (hP.putOk (hP.putOk (hP.ensureLabelIdx d h)))

theorem Closed.gEdge (d : Db) (a b : Nat) (h : P d.st) : P (gEdge d a b).1.st := by
  unfold Neumann.Ckpt.gEdge
  simp only
  have h0 := hP.ensureEtypeIdx d h
  split
  · exact h0
  · split
    · exact h0
    · dsimp only
      refine hP.p_listAdd _ _ _ (hP.p_listAdd _ _ _ (hP.put _ _ _ ?_ h0))
      rfl

theorem Closed.gDelEdge (d : Db) (i : Nat) (h : P d.st) : P (gDelEdge d i).1.st := by
  unfold Neumann.Ckpt.gDelEdge
  split
  · exact h
  · exact hP.p_del _ _ (hP.p_listRemove _ _ _ (hP.p_listRemove _ _ _ h))

theorem Closed.gDelNode (d : Db) (i : Nat) (h : P d.st) : P (gDelNode d i).1.st := by
  unfold Neumann.Ckpt.gDelNode
  split
  · exact h
  · simp only
    apply hP.p_del; apply hP.p_del; apply hP.p_del
    apply Closed.p_foldl _ _ _ _ h
    intro s e hs
    split
    · apply hP.p_del
      split <;> split <;>
        first | exact hP.p_listRemove _ _ _ (hP.p_listRemove _ _ _ hs) | exact hP.p_listRemove _ _ _ hs | exact hs
    · exact hP.p_del _ _ hs

theorem Closed.vPut (d : Db) (k : Nat) (v : Vec) (h : P d.st) : P (vPut d k v).1.st := by
  unfold Neumann.Ckpt.vPut
  split
  · exact h
  · dsimp only
    refine hP.put _ _ _ ?_ h
    rfl

theorem Closed.vDel (d : Db) (k : Nat) (h : P d.st) : P (vDel d k).1.st := by
  unfold Neumann.Ckpt.vDel
  split
  · exact h
  · rename_i s' hd
    exact hP.delete _ _ _ hd h

omit hP in
theorem Closed.vBuild (d : Db) (h : P d.st) : P (vBuild d).1.st := by
  unfold Neumann.Ckpt.vBuild
  simp only
  split
  · exact h
  · split
    · exact h
    · split <;> exact h

theorem Closed.kPut (d : Db) (c k : Nat) (x : Int) (e : Option Int)
    (hop : (Op.kput c k x e).noSlab = true) (h : P d.st) : P (kPut d c k x e).1.st := by
  unfold Neumann.Ckpt.kPut
  apply hP.put _ _ _ _ h
  by_cases hc : c = 2
  · subst hc
    cases e with
    | none => rfl
    | some e => simp [Op.noSlab] at hop
  · simp [hc, Val.noSlab]

theorem Closed.kDel (d : Db) (c k : Nat) (h : P d.st) : P (kDel d c k).1.st := by
  unfold Neumann.Ckpt.kDel
  split
  · exact h
  · rename_i s' hd
    exact hP.delete _ _ _ hd h

/-- every data statement preserves a closed predicate on the store -/
theorem Closed.step (d : Db) (op : Op) (hop : op.noSlab = true) (hd : op.isData = true)
    (h : P d.st) : P (step d op).1.st := by
  cases op with
  | rcreate t => exact hP.rCreate d t h
  | rdrop t => exact hP.rDrop d t h
  | rins t k v => exact hP.rInsert d t k v h
  | rdel t k => exact hP.rDelete d t k h
  | rhidx t => exact hP.rHidx d t h
  | rbidx t => exact hP.rBidx d t h
  | gnode l => exact hP.gNode d l h
  | gedge a b => exact hP.gEdge d a b h
  | gdeln i => exact hP.gDelNode d i h
  | gdele i => exact hP.gDelEdge d i h
  | vput k v => exact hP.vPut d k v h
  | vdel k => exact hP.vDel d k h
  | vbuild => exact Closed.vBuild d h
  | kput c k x e => exact hP.kPut d c k x e hop h
  | kdel c k => exact hP.kDel d c k h
  | ckpt ts ord => simp [Op.isData] at hd
  | rollback i => simp [Op.isData] at hd
  | setmax n => simp [Op.isData] at hd

end StepClosed

theorem WF0.closed : Closed WF0 :=
  ⟨fun _ k v hv h => h.put k v hv, fun _ _ k hd h => h.delete k hd, fun _ r h => h.setRel r⟩

/-! ### `restore_from_bytes` on an image satisfying the invariant -/

theorem WF0.get_md {img : Store} (h : WF0 img) (p : Key × Val) (hp : p ∈ img.md) :
    img.get p.1 = some p.2 := by
  have hg := alGet_some_of_mem img.md h.mdNodup p hp
  have hc := (h.vals p hp).2
  obtain ⟨k, v⟩ := p
  cases k with
  | emb n =>
    simp only [Store.get, h.noSlab]
    cases alGet img.eidx n <;> simpa [alGet] using hg
  | cache n => simp [Key.notCache] at hc
  | _ => exact hg

theorem WF0.get_cache {img : Store} (h : WF0 img) (p : Nat × Val) (hp : p ∈ img.cache) :
    img.get (.cache p.1) = some p.2 :=
  alGet_some_of_mem img.cache h.cacheNodup p hp

theorem WF0.scanAll {img : Store} (h : WF0 img) :
    img.scanAll = img.md.map (·.1) ++ img.cache.map fun p => Key.cache p.1 := by
  unfold Store.scanAll
  simp only
  have : ((img.eidx.map fun p => Key.emb p.1).filter fun k => !(img.md.map (·.1)).contains k) = [] := by
    rw [List.filter_eq_nil_iff]
    intro k hk
    simp only [List.mem_map] at hk
    obtain ⟨q, hq, rfl⟩ := hk
    have h1 : alHas img.eidx q.1 = true := (alHas_iff _ _).mpr (List.mem_map_of_mem hq)
    have h2 := (alHas_iff _ _).mp (h.eidxSub _ h1)
    simp [h2]
  rw [this, List.append_nil]

theorem put_fields_md (s : Store) (k : Key) (v : Val) (hk : k.notCache = true) :
    (s.put k v).md = alPut s.md k v ∧ (s.put k v).cache = s.cache ∧ (s.put k v).rel = s.rel ∧
      (s.put k v).cps = s.cps := by
  cases k <;> first | exact ⟨rfl, rfl, rfl, rfl⟩ | simp [Key.notCache] at hk

theorem put_fields_cache (s : Store) (n : Nat) (v : Val) :
    (s.put (.cache n) v).md = s.md ∧ (s.put (.cache n) v).cache = alPut s.cache n v ∧
      (s.put (.cache n) v).rel = s.rel ∧ (s.put (.cache n) v).cps = s.cps :=
  ⟨rfl, rfl, rfl, rfl⟩

theorem reput_md_fold (img : Store) (l : List (Key × Val)) (acc : Store)
    (hl : ∀ p ∈ l, img.get p.1 = some p.2 ∧ p.1.notCache = true)
    (hn : (acc.md.map (·.1) ++ l.map (·.1)).Nodup) :
    ((l.map (·.1)).foldl (Store.reput img) acc).md = acc.md ++ l ∧
    ((l.map (·.1)).foldl (Store.reput img) acc).cache = acc.cache ∧
    ((l.map (·.1)).foldl (Store.reput img) acc).rel = acc.rel := by
  induction l generalizing acc with
  | nil => simp
  | cons p r ih =>
    have hp := hl p (by simp)
    have hstep : Store.reput img acc p.1 = acc.put p.1 p.2 := by simp [Store.reput, hp.1]
    have hf := put_fields_md acc p.1 p.2 hp.2
    have hnot : p.1 ∉ acc.md.map (·.1) := by
      intro hmem
      have := List.nodup_append.mp hn
      exact this.2.2 _ hmem _ (by simp) rfl
    have hmd : (acc.put p.1 p.2).md = acc.md ++ [p] := by
      rw [hf.1, alPut_append _ _ _ hnot]
    simp only [List.map_cons, List.foldl_cons, hstep]
    have := ih (acc.put p.1 p.2) (fun q hq => hl q (by simp [hq])) (by
      rw [hmd]; simpa [List.append_assoc] using hn)
    rw [hmd, hf.2.1, hf.2.2.1] at this
    simpa [List.append_assoc] using this

theorem reput_cache_fold (img : Store) (l : List (Nat × Val)) (acc : Store)
    (hl : ∀ p ∈ l, img.get (.cache p.1) = some p.2)
    (hn : (acc.cache.map (·.1) ++ l.map (·.1)).Nodup) :
    ((l.map fun p => Key.cache p.1).foldl (Store.reput img) acc).md = acc.md ∧
    ((l.map fun p => Key.cache p.1).foldl (Store.reput img) acc).cache = acc.cache ++ l ∧
    ((l.map fun p => Key.cache p.1).foldl (Store.reput img) acc).rel = acc.rel := by
  induction l generalizing acc with
  | nil => simp
  | cons p r ih =>
    have hp := hl p (by simp)
    have hstep : Store.reput img acc (.cache p.1) = acc.put (.cache p.1) p.2 := by
      simp [Store.reput, hp]
    have hnot : p.1 ∉ acc.cache.map (·.1) := by
      intro hmem
      have := List.nodup_append.mp hn
      exact this.2.2 _ hmem _ (by simp) rfl
    have hc : (acc.put (.cache p.1) p.2).cache = acc.cache ++ [p] := by
      show alPut acc.cache p.1 p.2 = _
      rw [alPut_append _ _ _ hnot]
    simp only [List.map_cons, List.foldl_cons, hstep]
    have := ih (acc.put (.cache p.1) p.2) (fun q hq => hl q (by simp [hq])) (by
      rw [hc]; simpa [List.append_assoc] using hn)
    rw [hc] at this
    refine ⟨this.1, ?_, this.2.2⟩
    simpa [List.append_assoc] using this.2.1

/-- restoring a well-formed image gives back its key-addressed content exactly, and NO relational slab -/
theorem restoreFrom_fields {img : Store} (h : WF0 img) (s : Store) :
    (Store.restoreFrom img s).md = img.md ∧ (Store.restoreFrom img s).cache = img.cache ∧
    (Store.restoreFrom img s).rel = [] ∧ (Store.restoreFrom img s).cps = img.cps := by
  unfold Store.restoreFrom
  rw [h.scanAll, List.foldl_append]
  have h1 := reput_md_fold img img.md (Store.clear s)
    (fun p hp => ⟨h.get_md p hp, (h.vals p hp).2⟩) (by simpa [Store.clear] using h.mdNodup)
  have h2 := reput_cache_fold img img.cache ((img.md.map (·.1)).foldl (Store.reput img) (Store.clear s))
    (fun p hp => h.get_cache p hp) (by rw [h1.2.1]; simpa [Store.clear] using h.cacheNodup)
  refine ⟨?_, ?_, ?_, rfl⟩
  · show Store.md (List.foldl _ _ _) = _
    rw [h2.1, h1.1]; simp [Store.clear]
  · show Store.cache (List.foldl _ _ _) = _
    rw [h2.2.1, h1.2.1]; simp [Store.clear]
  · show Store.rel (List.foldl _ _ _) = _
    rw [h2.2.2, h1.2.2]; simp [Store.clear]

theorem alGet_mem {α β : Type} [DecidableEq α] (l : List (α × β)) (k : α) (v : β)
    (h : alGet l k = some v) : (k, v) ∈ l := by
  induction l with
  | nil => simp [alGet] at h
  | cons p r ih =>
    obtain ⟨a, b⟩ := p
    by_cases e : a = k
    · simp [alGet, e] at h; subst e; subst h; simp
    · simp [alGet, e] at h; exact List.mem_cons_of_mem _ (ih h)

theorem WF0.get_noSlab {img : Store} (h : WF0 img) (k : Key) (v : Val) (hg : img.get k = some v) :
    v.noSlab = true := by
  cases k with
  | emb n =>
    simp only [Store.get, h.noSlab] at hg
    have hg' : alGet img.md (.emb n) = some v := by
      cases hh : alGet img.eidx n <;> simpa [hh, alGet] using hg
    exact (h.vals _ (alGet_mem _ _ _ hg')).1
  | cache n => exact h.cvals _ (alGet_mem _ _ _ hg)
  | tmeta t => exact (h.vals _ (alGet_mem _ _ _ hg)).1
  | hmeta t => exact (h.vals _ (alGet_mem _ _ _ hg)).1
  | hent t x => exact (h.vals _ (alGet_mem _ _ _ hg)).1
  | bmeta t => exact (h.vals _ (alGet_mem _ _ _ hg)).1
  | bent t x => exact (h.vals _ (alGet_mem _ _ _ hg)).1
  | node i => exact (h.vals _ (alGet_mem _ _ _ hg)).1
  | nout i => exact (h.vals _ (alGet_mem _ _ _ hg)).1
  | nin i => exact (h.vals _ (alGet_mem _ _ _ hg)).1
  | edge i => exact (h.vals _ (alGet_mem _ _ _ hg)).1
  | gidx b => exact (h.vals _ (alGet_mem _ _ _ hg)).1
  | plain i => exact (h.vals _ (alGet_mem _ _ _ hg)).1

theorem restoreFrom_wf {img : Store} (h : WF0 img) (s : Store) : WF0 (Store.restoreFrom img s) := by
  unfold Store.restoreFrom
  apply WF0.setCps
  apply Closed.p_foldl (P := WF0)
  · intro a k ha
    unfold Store.reput
    cases hg : img.get k with
    | none => exact ha
    | some v => exact ha.put k v (h.get_noSlab k v hg)
  · exact WF0.empty

/-! ### frame: data statements never touch the checkpoint archive -/

syntax "frame_tac" : tactic
macro_rules
  | `(tactic| frame_tac) => `(tactic| repeat (first | exact ⟨rfl, rfl⟩ | split | dsimp only))

theorem ensureLabelIdx_frame (d : Db) :
    (ensureLabelIdx d).arch = d.arch ∧ (ensureLabelIdx d).nextCk = d.nextCk := by
  unfold ensureLabelIdx; frame_tac

theorem ensureEtypeIdx_frame (d : Db) :
    (ensureEtypeIdx d).arch = d.arch ∧ (ensureEtypeIdx d).nextCk = d.nextCk := by
  unfold ensureEtypeIdx; frame_tac

theorem step_frame (d : Db) (op : Op) (hd : op.isData = true) :
    (step d op).1.arch = d.arch ∧ (step d op).1.nextCk = d.nextCk := by
  cases op with
  | rcreate t => simp only [step]; unfold rCreate; frame_tac
  | rdrop t => simp only [step]; unfold rDrop; frame_tac
  | rins t k v => simp only [step]; unfold rInsert; frame_tac
  | rdel t k => simp only [step]; unfold rDelete; frame_tac
  | rhidx t => simp only [step]; unfold rHidx; frame_tac
  | rbidx t => simp only [step]; unfold rBidx; frame_tac
  | gnode l => simp only [step]; unfold gNode; exact ensureLabelIdx_frame d
  | gedge a b =>
    simp only [step]; unfold gEdge
    have := ensureEtypeIdx_frame d
    simp only
    repeat (first | exact this | split)
  | gdeln i => simp only [step]; unfold gDelNode; frame_tac
  | gdele i => simp only [step]; unfold gDelEdge; frame_tac
  | vput k v => simp only [step]; unfold vPut; frame_tac
  | vdel k => simp only [step]; unfold vDel; frame_tac
  | vbuild => simp only [step]; unfold vBuild; frame_tac
  | kput c k x e => simp only [step]; unfold kPut; frame_tac
  | kdel c k => simp only [step]; unfold kDel; frame_tac
  | ckpt ts ord => simp [Op.isData] at hd
  | rollback i => simp [Op.isData] at hd
  | setmax n => simp [Op.isData] at hd

/-! ### the database invariant along statement sequences -/

structure DbInv (d : Db) : Prop where
  wf : WF0 d.st
  arch : ∀ c ∈ d.arch, WF0 c.img
  ids : d.arch.map (·.id) = List.range d.nextCk

theorem DbInv.init : DbInv {} := ⟨WF0.empty, by simp, by simp⟩

theorem loadCk_mem (d : Db) (i : Nat) (c : Ckpt) (h : loadCk d i = some c) : c ∈ d.arch ∧ c.id = i := by
  unfold loadCk at h
  split at h
  · exact ⟨List.mem_of_find?_eq_some h, by simpa using List.find?_some h⟩
  · cases h

theorem DbInv.step {d : Db} (h : DbInv d) (op : Op) (hop : op.noSlab = true) : DbInv (step d op).1 := by
  by_cases hd : op.isData = true
  · have hf := step_frame d op hd
    exact ⟨WF0.closed.step d op hop hd h.wf, by rw [hf.1]; exact h.arch, by rw [hf.1, hf.2]; exact h.ids⟩
  · cases op with
    | ckpt ts ord =>
      simp only [Neumann.Ckpt.step, doCkpt]
      refine ⟨h.wf.setCps _, ?_, ?_⟩
      · intro c hc
        rcases List.mem_append.mp hc with hc | hc
        · exact h.arch c hc
        · simp only [List.mem_singleton] at hc; subst hc; exact h.wf
      · simp only [List.map_append, List.map_cons, List.map_nil, h.ids, List.range_succ]
    | rollback i =>
      simp only [Neumann.Ckpt.step, doRollback]
      cases hl : loadCk d i with
      | none => exact h
      | some c => exact ⟨restoreFrom_wf (h.arch c (loadCk_mem d i c hl).1) _, h.arch, h.ids⟩
    | setmax n => exact ⟨h.wf, h.arch, h.ids⟩
    | _ => simp [Op.isData] at hd

theorem run_cons (d : Db) (op : Op) (ops : List Op) : run d (op :: ops) = run (step d op).1 ops := rfl

theorem DbInv.run {d : Db} (h : DbInv d) (ops : List Op) (hops : ∀ op ∈ ops, op.noSlab = true) :
    DbInv (run d ops) := by
  induction ops generalizing d with
  | nil => exact h
  | cons op ops ih =>
    rw [run_cons]
    exact ih (h.step op (hops op (by simp))) (fun o ho => hops o (by simp [ho]))

theorem step_arch_prefix (d : Db) (op : Op) : ∃ ext, (step d op).1.arch = d.arch ++ ext := by
  by_cases hd : op.isData = true
  · exact ⟨[], by rw [(step_frame d op hd).1]; simp⟩
  · cases op with
    | ckpt ts ord => exact ⟨_, rfl⟩
    | rollback i =>
      refine ⟨[], ?_⟩
      simp only [Neumann.Ckpt.step, doRollback]
      cases loadCk d i <;> simp
    | setmax n => exact ⟨[], by simp [Neumann.Ckpt.step]⟩
    | _ => simp [Op.isData] at hd

theorem run_arch_prefix (d : Db) (ops : List Op) : ∃ ext, (run d ops).arch = d.arch ++ ext := by
  induction ops generalizing d with
  | nil => exact ⟨[], by simp [run]⟩
  | cons op ops ih =>
    rw [run_cons]
    obtain ⟨e1, h1⟩ := step_arch_prefix d op
    obtain ⟨e2, h2⟩ := ih (step d op).1
    exact ⟨e1 ++ e2, by rw [h2, h1, List.append_assoc]⟩

/-- the blob written by a checkpoint statement is what any later load of its id returns -/
theorem load_after (d0 : Db) (h : DbInv d0) (ts : Nat) (ord : List Nat) (post : List Op) (c : Ckpt)
    (hl : loadCk (run (step d0 (.ckpt ts ord)).1 post) d0.nextCk = some c) : c.img = d0.st := by
  obtain ⟨ext, he⟩ := run_arch_prefix (step d0 (.ckpt ts ord)).1 post
  unfold loadCk at hl
  split at hl
  · rw [he] at hl
    have h1 : (step d0 (.ckpt ts ord)).1.arch = d0.arch ++ [⟨d0.nextCk, ts, d0.st⟩] := rfl
    rw [h1, List.append_assoc, List.find?_append] at hl
    have hnone : d0.arch.find? (fun x => decide (x.id = d0.nextCk)) = none := by
      rw [List.find?_eq_none]
      intro x hx
      have : x.id ∈ d0.arch.map (·.id) := List.mem_map_of_mem hx
      rw [h.ids, List.mem_range] at this
      simp; omega
    rw [hnone] at hl
    simp at hl
    rw [← hl]
  · cases hl

/-! ### observations that read through `scan` / `get` only -/

theorem WF0.view_eq {a b : Store} (ha : WF0 a) (hb : WF0 b) (hmd : a.md = b.md) (hc : a.cache = b.cache) :
    a.get = b.get ∧ a.has = b.has ∧ a.scanAll = b.scanAll := by
  refine ⟨?_, ?_, ?_⟩
  · funext k
    cases k with
    | emb n =>
      simp only [Store.get, ha.noSlab, hb.noSlab, hmd]
      cases alGet a.eidx n <;> cases alGet b.eidx n <;> simp [alGet]
    | cache n => simp only [Store.get, hc]
    | _ => simp only [Store.get, hmd]
  · funext k
    cases k with
    | emb n =>
      simp only [Store.has]
      have h1 := ha.eidxSub n
      have h2 := hb.eidxSub n
      rw [hmd] at h1
      cases e1 : alHas a.eidx n <;> cases e2 : alHas b.eidx n <;> simp_all
    | cache n => simp only [Store.has, hc]
    | _ => simp only [Store.has, hmd]
  · rw [ha.scanAll, hb.scanAll, hmd, hc]

theorem kvObs_congr (d d' : Db) (hmd : d.st.md = d'.st.md) (hg : d.st.get = d'.st.get)
    (hh : d.st.has = d'.st.has) (hs : d.st.scanAll = d'.st.scanAll) : kvObs d = kvObs d' := by
  unfold kvObs qNodes qEdges qNeighbors qEmbs qRaw tables nodeIds edgeIds nodeLabel edgeEnds embKeys
    getEmbedding
  simp only [hmd, hg, hh, hs]

end Neumann.Ckpt
