import NeumannModel.Ckpt.Model
/-
  C08 — helper lemmas for the checkpoint / rollback model (core Lean only).
-/
namespace Neumann.Ckpt

/-! ### association lists -/
section AL
variable {α β : Type} [DecidableEq α]

theorem alPut_keys (l : List (α × β)) (k : α) (v : β) :
    (alPut l k v).map (·.1) = if k ∈ l.map (·.1) then l.map (·.1) else l.map (·.1) ++ [k] := by
  induction l with
  | nil => simp [alPut]
  | cons p r ih =>
    obtain ⟨a, b⟩ := p
    by_cases h : a = k
    · subst h; simp [alPut]
    · have h' : ¬ k = a := fun e => h e.symm
      simp only [alPut, h, if_false, List.map_cons, ih, List.mem_cons, h', false_or]
      split <;> simp

theorem alPut_append (l : List (α × β)) (k : α) (v : β) (h : k ∉ l.map (·.1)) :
    alPut l k v = l ++ [(k, v)] := by
  induction l with
  | nil => rfl
  | cons p r ih =>
    obtain ⟨a, b⟩ := p
    simp only [List.map_cons, List.mem_cons, not_or] at h
    have h1 : ¬ a = k := fun e => h.1 e.symm
    simp [alPut, h1, ih h.2]

theorem alPut_nodup (l : List (α × β)) (k : α) (v : β) (h : (l.map (·.1)).Nodup) :
    ((alPut l k v).map (·.1)).Nodup := by
  rw [alPut_keys]
  split
  · exact h
  · rename_i hk
    exact List.nodup_append.mpr ⟨h, by simp, by
      intro a ha b hb
      simp only [List.mem_singleton] at hb
      subst hb
      intro e; subst e; exact hk ha⟩

theorem alPut_mem (l : List (α × β)) (k : α) (v : β) (p : α × β) (h : p ∈ alPut l k v) :
    p ∈ l ∨ p = (k, v) := by
  induction l with
  | nil => simp [alPut] at h; exact Or.inr h
  | cons q r ih =>
    obtain ⟨a, b⟩ := q
    simp only [alPut] at h
    split at h
    · rename_i hak
      simp only [List.mem_cons] at h
      rcases h with h | h
      · subst hak; exact Or.inr h
      · exact Or.inl (List.mem_cons_of_mem _ h)
    · simp only [List.mem_cons] at h
      rcases h with h | h
      · exact Or.inl (by simp [h])
      · rcases ih h with h | h
        · exact Or.inl (List.mem_cons_of_mem _ h)
        · exact Or.inr h

theorem alDel_sublist (l : List (α × β)) (k : α) : (alDel l k).Sublist l := by
  induction l with
  | nil => exact List.Sublist.refl _
  | cons p r ih =>
    obtain ⟨a, b⟩ := p
    simp only [alDel]
    split
    · exact List.Sublist.cons _ ih
    · exact List.Sublist.cons_cons _ ih

theorem alDel_nodup (l : List (α × β)) (k : α) (h : (l.map (·.1)).Nodup) :
    ((alDel l k).map (·.1)).Nodup :=
  List.Nodup.sublist ((alDel_sublist l k).map _) h

theorem alGet_alPut (l : List (α × β)) (k : α) (v : β) (x : α) :
    alGet (alPut l k v) x = if k = x then some v else alGet l x := by
  induction l with
  | nil => simp [alPut, alGet]
  | cons p r ih =>
    obtain ⟨a, b⟩ := p
    by_cases h : a = k
    · subst h
      by_cases hx : a = x <;> simp [alPut, alGet, hx]
    · by_cases hx : a = x
      · subst hx
        have hk : ¬ k = a := fun e => h e.symm
        simp [alPut, alGet, h, hk]
      · simp [alPut, alGet, h, hx, ih]

theorem alGet_alDel (l : List (α × β)) (k : α) (x : α) :
    alGet (alDel l k) x = if k = x then none else alGet l x := by
  induction l with
  | nil => simp [alDel, alGet]
  | cons p r ih =>
    obtain ⟨a, b⟩ := p
    by_cases h : a = k
    · subst h
      by_cases hx : a = x
      · subst hx; simpa [alDel] using ih
      · simp [alDel, alGet, hx, ih]
    · by_cases hx : a = x
      · subst hx
        have hk : ¬ k = a := fun e => h e.symm
        simp [alDel, alGet, h, hk]
      · simp [alDel, alGet, h, hx, ih]

theorem alGet_some_of_mem (l : List (α × β)) (h : (l.map (·.1)).Nodup) (p : α × β) (hp : p ∈ l) :
    alGet l p.1 = some p.2 := by
  induction l with
  | nil => cases hp
  | cons q r ih =>
    obtain ⟨a, b⟩ := q
    simp only [List.map_cons, List.nodup_cons] at h
    simp only [List.mem_cons] at hp
    rcases hp with hp | hp
    · subst hp; simp [alGet]
    · have : a ≠ p.1 := fun e => h.1 (by rw [e]; exact List.mem_map_of_mem hp)
      simp [alGet, this, ih h.2 hp]

theorem alGet_isSome_iff (l : List (α × β)) (x : α) : (alGet l x).isSome = true ↔ x ∈ l.map (·.1) := by
  induction l with
  | nil => simp [alGet]
  | cons p r ih =>
    obtain ⟨a, b⟩ := p
    by_cases h : a = x
    · simp [alGet, h]
    · have hk : ¬ x = a := fun e => h e.symm
      simp [alGet, h, ih, hk]

theorem alHas_iff (l : List (α × β)) (x : α) : alHas l x = true ↔ x ∈ l.map (·.1) := by
  unfold alHas; exact alGet_isSome_iff l x

end AL

/-! ### retention: the stable descending sort -/

theorem insertDesc_perm (x : Nat × Nat) (l : List (Nat × Nat)) : (insertDesc x l).Perm (x :: l) := by
  induction l with
  | nil => exact List.Perm.refl _
  | cons y ys ih =>
    simp only [insertDesc]
    split
    · exact ((List.Perm.cons y ih).trans (List.Perm.swap x y ys))
    · exact List.Perm.refl _

theorem sortDesc_perm (l : List (Nat × Nat)) : (sortDesc l).Perm l := by
  induction l with
  | nil => exact List.Perm.refl _
  | cons x xs ih =>
    show (insertDesc x (sortDesc xs)).Perm (x :: xs)
    exact (insertDesc_perm x _).trans (List.Perm.cons x ih)

/-- newest first -/
def DescSorted (l : List (Nat × Nat)) : Prop := l.Pairwise fun a b => b.2 ≤ a.2

theorem insertDesc_sorted (x : Nat × Nat) (l : List (Nat × Nat)) (h : DescSorted l) :
    DescSorted (insertDesc x l) := by
  induction l with
  | nil => simp [insertDesc, DescSorted]
  | cons y ys ih =>
    unfold DescSorted at h ih ⊢
    rw [List.pairwise_cons] at h
    simp only [insertDesc]
    split
    · rename_i hyx
      rw [List.pairwise_cons]
      refine ⟨?_, ih h.2⟩
      intro b hb
      have hb' : b ∈ x :: ys := (insertDesc_perm x ys).mem_iff.mp hb
      rcases List.mem_cons.mp hb' with hb' | hb'
      · subst hb'; omega
      · exact h.1 b hb'
    · rename_i hyx
      rw [List.pairwise_cons]
      refine ⟨?_, List.pairwise_cons.mpr h⟩
      intro b hb
      rcases List.mem_cons.mp hb with hb | hb
      · subst hb; omega
      · have := h.1 b hb; omega

theorem sortDesc_sorted (l : List (Nat × Nat)) : DescSorted (sortDesc l) := by
  induction l with
  | nil => simp [sortDesc, DescSorted]
  | cons x xs ih => exact insertDesc_sorted x _ ih

/-! ### the store invariant (metadata slab, cache ring, entity index and embedding slab) -/

def Key.notCache : Key → Bool
  | .cache _ => false
  | _ => true

def Key.isEmb : Key → Bool
  | .emb _ => true
  | _ => false

/-- the `_embedding` field of a value, if any -/
def embOf : Val → Option Int
  | .raw _ (some e) => some e
  | _ => none

/-- what `put` on an `emb:` key does to the embedding slab entry of the key's entity -/
def slabSet (sl : List (Nat × Int)) (id : Nat) (v : Val) : List (Nat × Int) :=
  match v with
  | .raw _ (some e) => alPut sl id e
  | _ => alDel sl id

/-- The store invariant.  `slabOk` is the embedding-slab invariant: whenever the entity of an `emb:`
    key has a slab vector, the metadata value of that key is a raw value carrying exactly that
    vector — so `get` (which merges the slab vector into the metadata value) answers the metadata
    value itself, and a `clear` + re-`put` of everything `scan`/`get` reach rebuilds the same
    key-addressed content.  It needs the entity index to be injective with ids below `enext`
    (a fresh id never aliases the slab entry of another key). -/
structure WF (s : Store) : Prop where
  mdNodup : (s.md.map (·.1)).Nodup
  cacheNodup : (s.cache.map (·.1)).Nodup
  eidxSub : ∀ n, alHas s.eidx n = true → alHas s.md (.emb n) = true
  eidxInj : ∀ n m id, alGet s.eidx n = some id → alGet s.eidx m = some id → n = m
  eidxLt : ∀ n id, alGet s.eidx n = some id → id < s.enext
  slabOk : ∀ n id e, alGet s.eidx n = some id → alGet s.eslab id = some e →
    ∃ x, alGet s.md (.emb n) = some (.raw x (some e))
  keys : ∀ p ∈ s.md, p.1.notCache = true

theorem WF.empty : WF {} :=
  ⟨by simp, by simp, by simp [alHas, alGet], by simp [alGet], by simp [alGet], by simp [alGet], by simp⟩

theorem alHas_alPut_of {α β : Type} [DecidableEq α] (l : List (α × β)) (k : α) (v : β) (x : α)
    (h : alHas l x = true ∨ k = x) : alHas (alPut l k v) x = true := by
  unfold alHas at *
  rw [alGet_alPut]
  split
  · rfl
  · rcases h with h | h
    · exact h
    · contradiction

theorem alHas_alDel {α β : Type} [DecidableEq α] (l : List (α × β)) (k x : α) :
    alHas (alDel l k) x = true ↔ (k ≠ x ∧ alHas l x = true) := by
  unfold alHas
  rw [alGet_alDel]
  by_cases h : k = x <;> simp [h]

theorem alGet_snoc {α β : Type} [DecidableEq α] (l : List (α × β)) (k : α) (v : β) (x : α) :
    alGet (l ++ [(k, v)]) x =
      match alGet l x with
      | some y => some y
      | none => if k = x then some v else none := by
  induction l with
  | nil => simp [alGet]
  | cons p r ih =>
    obtain ⟨a, b⟩ := p
    by_cases h : a = x
    · simp [alGet, h]
    · simp [alGet, h, ih]

theorem alGet_snoc_cases {α β : Type} [DecidableEq α] (l : List (α × β)) (k : α) (v : β) (x : α) (y : β)
    (h : alGet (l ++ [(k, v)]) x = some y) :
    alGet l x = some y ∨ (alGet l x = none ∧ k = x ∧ v = y) := by
  rw [alGet_snoc] at h
  cases hl : alGet l x with
  | some z => rw [hl] at h; exact Or.inl h
  | none =>
    rw [hl] at h
    by_cases e : k = x
    · simp [e] at h; exact Or.inr ⟨rfl, e, h⟩
    · simp [e] at h

theorem embOf_eq_some (v : Val) (e : Int) (h : embOf v = some e) : ∃ x, v = .raw x (some e) := by
  cases v with
  | raw x o =>
    cases o with
    | none => simp [embOf] at h
    | some e' => simp [embOf] at h; subst h; exact ⟨x, rfl⟩
  | _ => simp [embOf] at h

theorem alGet_slabSet (sl : List (Nat × Int)) (id : Nat) (v : Val) (j : Nat) :
    alGet (slabSet sl id v) j = if id = j then embOf v else alGet sl j := by
  cases v with
  | raw x o =>
    cases o with
    | none => simp only [slabSet, embOf, alGet_alDel]
    | some e => simp only [slabSet, embOf, alGet_alPut]
  | _ => simp only [slabSet, embOf, alGet_alDel]

theorem put_emb_some (s : Store) (n id : Nat) (v : Val) (h : alGet s.eidx n = some id) :
    s.put (.emb n) v = { s with eslab := slabSet s.eslab id v, md := alPut s.md (.emb n) v } := by
  unfold Store.put
  simp only [h]
  cases v with
  | raw x o => cases o <;> rfl
  | _ => rfl

theorem put_emb_none (s : Store) (n : Nat) (v : Val) (h : alGet s.eidx n = none) :
    s.put (.emb n) v = { s with eidx := s.eidx ++ [(n, s.enext)], enext := s.enext + 1,
                                eslab := slabSet s.eslab s.enext v, md := alPut s.md (.emb n) v } := by
  unfold Store.put
  simp only [h]
  cases v with
  | raw x o => cases o <;> rfl
  | _ => rfl

theorem put_other (s : Store) (k : Key) (v : Val) (hc : k.notCache = true) (he : k.isEmb = false) :
    s.put k v = { s with md := alPut s.md k v } := by
  cases k <;> first | rfl | (simp [Key.notCache] at hc; done) | (simp [Key.isEmb] at he; done)

theorem isEmb_false_ne (k : Key) (he : k.isEmb = false) (m : Nat) : ¬ k = .emb m := by
  intro e; subst e; simp [Key.isEmb] at he

theorem WF.put_keys {s : Store} (h : WF s) (k : Key) (v : Val) (hk : k.notCache = true) :
    ∀ p ∈ alPut s.md k v, p.1.notCache = true := by
  intro p hp
  rcases alPut_mem _ _ _ _ hp with hp | hp
  · exact h.keys p hp
  · subst hp; exact hk

theorem WF.put {s : Store} (h : WF s) (k : Key) (v : Val) : WF (s.put k v) := by
  by_cases hc : k.notCache = true
  · by_cases he : k.isEmb = true
    · cases k with
      | emb n =>
        have hne : ∀ m, n ≠ m → ¬ Key.emb n = Key.emb m := fun m hm e => hm (by cases e; rfl)
        cases hn : alGet s.eidx n with
        | some id =>
          rw [put_emb_some s n id v hn]
          refine ⟨alPut_nodup _ _ _ h.mdNodup, h.cacheNodup, ?_, h.eidxInj, h.eidxLt, ?_,
            h.put_keys _ v rfl⟩
          · intro m hm
            exact alHas_alPut_of _ _ _ _ (Or.inl (h.eidxSub m hm))
          · intro m id' e' h1 h2
            dsimp only at h1 h2 ⊢
            rw [alGet_slabSet] at h2
            rw [alGet_alPut]
            by_cases hid : id = id'
            · subst hid
              have hmn := h.eidxInj m n id h1 hn
              subst hmn
              rw [if_pos rfl] at h2 ⊢
              obtain ⟨x, hx⟩ := embOf_eq_some v e' h2
              exact ⟨x, by rw [hx]⟩
            · rw [if_neg hid] at h2
              have hmn : n ≠ m := by
                intro e; subst e; rw [hn] at h1; exact hid (Option.some.inj h1)
              rw [if_neg (hne m hmn)]
              exact h.slabOk m id' e' h1 h2
        | none =>
          rw [put_emb_none s n v hn]
          refine ⟨alPut_nodup _ _ _ h.mdNodup, h.cacheNodup, ?_, ?_, ?_, ?_, h.put_keys _ v rfl⟩
          · intro m hm
            dsimp only at hm ⊢
            apply alHas_alPut_of
            rw [alHas_iff] at hm
            simp only [List.map_append, List.map_cons, List.map_nil, List.mem_append,
              List.mem_singleton] at hm
            rcases hm with hm | hm
            · exact Or.inl (h.eidxSub m ((alHas_iff _ _).mpr hm))
            · exact Or.inr (by rw [hm])
          · intro a b id' ha hb
            dsimp only at ha hb
            rcases alGet_snoc_cases _ _ _ _ _ ha with ha | ⟨_, ha, ha'⟩ <;>
              rcases alGet_snoc_cases _ _ _ _ _ hb with hb | ⟨_, hb, hb'⟩
            · exact h.eidxInj a b id' ha hb
            · have := h.eidxLt a id' ha; omega
            · have := h.eidxLt b id' hb; omega
            · rw [← ha, ← hb]
          · intro a id' ha
            dsimp only at ha ⊢
            rcases alGet_snoc_cases _ _ _ _ _ ha with ha | ⟨_, _, ha'⟩
            · have := h.eidxLt a id' ha; omega
            · omega
          · intro m id' e' h1 h2
            dsimp only at h1 h2 ⊢
            rw [alGet_slabSet] at h2
            rw [alGet_alPut]
            rcases alGet_snoc_cases _ _ _ _ _ h1 with h1 | ⟨_, h1, h1'⟩
            · have hlt := h.eidxLt m id' h1
              have hid : ¬ s.enext = id' := by omega
              rw [if_neg hid] at h2
              have hmn : n ≠ m := by
                intro e; subst e; rw [hn] at h1; cases h1
              rw [if_neg (hne m hmn)]
              exact h.slabOk m id' e' h1 h2
            · subst h1; subst h1'
              rw [if_pos rfl] at h2 ⊢
              obtain ⟨x, hx⟩ := embOf_eq_some v e' h2
              exact ⟨x, by rw [hx]⟩
      | _ => simp [Key.isEmb] at he
    · have he' : k.isEmb = false := by simpa using he
      rw [put_other s k v hc he']
      refine ⟨alPut_nodup _ _ _ h.mdNodup, h.cacheNodup, ?_, h.eidxInj, h.eidxLt, ?_, h.put_keys k v hc⟩
      · intro m hm
        exact alHas_alPut_of _ _ _ _ (Or.inl (h.eidxSub m hm))
      · intro m id' e' h1 h2
        dsimp only at h1 h2 ⊢
        rw [alGet_alPut, if_neg (isEmb_false_ne k he' m)]
        exact h.slabOk m id' e' h1 h2
  · cases k with
    | cache n =>
      exact ⟨h.mdNodup, alPut_nodup _ _ _ h.cacheNodup, h.eidxSub, h.eidxInj, h.eidxLt, h.slabOk, h.keys⟩
    | _ => simp [Key.notCache] at hc

theorem delete_other (s : Store) (k : Key) (hc : k.notCache = true) (he : k.isEmb = false) :
    s.delete k = if !s.has k then none else some { s with md := alDel s.md k } := by
  cases k <;> first | rfl | (simp [Key.notCache] at hc; done) | (simp [Key.isEmb] at he; done)

theorem WF.delete {s s' : Store} (h : WF s) (k : Key) (hd : s.delete k = some s') : WF s' := by
  have hkeys : ∀ p ∈ alDel s.md k, p.1.notCache = true :=
    fun p hp => h.keys p ((alDel_sublist _ _).subset hp)
  by_cases hc : k.notCache = true
  · by_cases he : k.isEmb = true
    · cases k with
      | emb n =>
        unfold Store.delete at hd
        split at hd
        · cases hd
        · simp only [Option.some.injEq] at hd
          subst hd
          have hne : ∀ m, n ≠ m → ¬ Key.emb n = Key.emb m := fun m hm e => hm (by cases e; rfl)
          refine ⟨alDel_nodup _ _ h.mdNodup, h.cacheNodup, ?_, ?_, ?_, ?_, hkeys⟩
          · intro m hm'
            dsimp only at hm' ⊢
            rw [alHas_alDel] at hm' ⊢
            exact ⟨fun e => hm'.1 (by cases e; rfl), h.eidxSub m hm'.2⟩
          · intro a b id' ha hb
            dsimp only at ha hb
            rw [alGet_alDel] at ha hb
            split at ha
            · cases ha
            · split at hb
              · cases hb
              · exact h.eidxInj a b id' ha hb
          · intro a id' ha
            dsimp only at ha ⊢
            rw [alGet_alDel] at ha
            split at ha
            · cases ha
            · exact h.eidxLt a id' ha
          · intro m id' e' h1 h2
            dsimp only at h1 h2 ⊢
            rw [alGet_alDel] at h1
            split at h1
            · cases h1
            · rename_i hnm
              have h2' : alGet s.eslab id' = some e' := by
                cases hq : alGet s.eidx n with
                | none => rw [hq] at h2; exact h2
                | some q =>
                  rw [hq] at h2
                  dsimp only at h2
                  rw [alGet_alDel] at h2
                  split at h2
                  · cases h2
                  · exact h2
              rw [alGet_alDel, if_neg (hne m hnm)]
              exact h.slabOk m id' e' h1 h2'
      | _ => simp [Key.isEmb] at he
    · have he' : k.isEmb = false := by simpa using he
      rw [delete_other s k hc he'] at hd
      split at hd
      · cases hd
      · simp only [Option.some.injEq] at hd
        subst hd
        refine ⟨alDel_nodup _ _ h.mdNodup, h.cacheNodup, ?_, h.eidxInj, h.eidxLt, ?_, hkeys⟩
        · intro m hm'
          exact (alHas_alDel _ _ _).mpr ⟨fun e => isEmb_false_ne k he' m e, h.eidxSub m hm'⟩
        · intro m id' e' h1 h2
          dsimp only at h1 h2 ⊢
          rw [alGet_alDel, if_neg (isEmb_false_ne k he' m)]
          exact h.slabOk m id' e' h1 h2
  · cases k with
    | cache n =>
      unfold Store.delete at hd
      split at hd
      · cases hd
      · simp only [Option.some.injEq] at hd
        subst hd
        exact ⟨h.mdNodup, alDel_nodup _ _ h.cacheNodup, h.eidxSub, h.eidxInj, h.eidxLt, h.slabOk, h.keys⟩
    | _ => simp [Key.notCache] at hc

theorem WF.del {s : Store} (h : WF s) (k : Key) : WF (s.del k) := by
  unfold Store.del
  cases hd : s.delete k with
  | none => exact h
  | some s' => exact h.delete k hd

theorem WF.setRel {s : Store} (h : WF s) (r : List (Nat × List Row)) : WF { s with rel := r } :=
  ⟨h.mdNodup, h.cacheNodup, h.eidxSub, h.eidxInj, h.eidxLt, h.slabOk, h.keys⟩

theorem WF.setCps {s : Store} (h : WF s) (c : List (Nat × Nat)) : WF { s with cps := c } :=
  ⟨h.mdNodup, h.cacheNodup, h.eidxSub, h.eidxInj, h.eidxLt, h.slabOk, h.keys⟩

/-- under the invariant `get` on a metadata-slab key (any family but `_cache:`) answers the
    metadata value: the slab vector merged in by `get` is the one the value already carries -/
theorem WF.get_eq {s : Store} (h : WF s) (k : Key) (hc : k.notCache = true) :
    s.get k = alGet s.md k := by
  cases k with
  | emb n =>
    unfold Store.get
    dsimp only
    cases h1 : alGet s.eidx n with
    | none => rfl
    | some id =>
      dsimp only
      cases h2 : alGet s.eslab id with
      | none => rfl
      | some e =>
        obtain ⟨x, hx⟩ := h.slabOk n id e h1 h2
        rw [hx]; rfl
  | cache n => simp [Key.notCache] at hc
  | _ => rfl

/-! ### predicates on the store preserved by every data statement -/

structure Closed (P : Store → Prop) : Prop where
  put : ∀ s k v, P s → P (s.put k v)
  delete : ∀ s s' k, s.delete k = some s' → P s → P s'
  rel : ∀ s r, P s → P { s with rel := r }

/-- relational / graph / vector / raw statements (everything but checkpoint control) -/
def Op.isData : Op → Bool
  | .ckpt _ _ _ => false
  | .ackpt _ _ _ => false
  | .rollback _ _ => false
  | .ckdel _ _ => false
  | .setmax _ => false
  | _ => true

section ClosedLemmas
variable {P : Store → Prop} (hP : Closed P)
include hP

theorem Closed.putOk {s : Store} {k : Key} {v : Val} (h : P s) : P (s.put k v) := hP.put s k v h

theorem Closed.p_del (s : Store) (k : Key) (h : P s) : P (s.del k) := by
  unfold Store.del
  cases hd : s.delete k with
  | none => exact h
  | some s' => exact hP.delete s s' k hd h

theorem Closed.p_setRel (s : Store) (t : Nat) (rows : List Row) (h : P s) : P (setRel s t rows) :=
  hP.rel s _ h

theorem Closed.p_idxAdd (s : Store) (k : Key) (r : Nat) (h : P s) : P (idxAdd s k r) := by
  unfold idxAdd
  simp only
  split
  · exact h
  · exact hP.put _ _ _ h

theorem Closed.p_idxRemove (s : Store) (k : Key) (r : Nat) (h : P s) : P (idxRemove s k r) := by
  unfold idxRemove
  split
  · simp only
    split
    · exact hP.p_del _ _ h
    · exact hP.put _ _ _ h
  · exact h

theorem Closed.p_listAdd (s : Store) (k : Key) (e : Nat) (h : P s) : P (listAdd s k e) := by
  unfold listAdd
  exact hP.putOk h

theorem Closed.p_listRemove (s : Store) (k : Key) (e : Nat) (h : P s) : P (listRemove s k e) := by
  unfold listRemove
  split
  · exact hP.put _ _ _ h
  · exact h

omit hP in
theorem Closed.p_foldl {γ : Type} (f : Store → γ → Store) (hf : ∀ s x, P s → P (f s x))
    (l : List γ) (s : Store) (h : P s) : P (l.foldl f s) := by
  induction l generalizing s with
  | nil => exact h
  | cons x xs ih => exact ih _ (hf s x h)

omit hP in
theorem Closed.p_foldlPair {β γ : Type} (f : Store × β → γ → Store × β)
    (hf : ∀ a x, P a.1 → P (f a x).1) (l : List γ) (a : Store × β) (h : P a.1) :
    P (l.foldl f a).1 := by
  induction l generalizing a with
  | nil => exact h
  | cons x xs ih => exact ih _ (hf a x h)

end ClosedLemmas

section StepClosed
variable {P : Store → Prop} (hP : Closed P)
include hP

theorem Closed.rCreate (d : Db) (t : Nat) (h : P d.st) : P (rCreate d t).1.st := by
  unfold Neumann.Ckpt.rCreate
  split
  · exact h
  · split
    · exact h
    · dsimp only
      exact hP.put _ _ _ (hP.p_setRel _ _ _ h)

theorem Closed.rInsert (d : Db) (t : Nat) (k v : Int) (h : P d.st) : P (rInsert d t k v).1.st := by
  unfold Neumann.Ckpt.rInsert
  split
  · exact h
  · split
    · exact h
    · simp only
      have h1 := hP.p_setRel d.st t (‹List Row› ++ [⟨true, k, v⟩]) h
      split <;> split <;> first | exact hP.p_idxAdd _ _ _ (hP.p_idxAdd _ _ _ h1) | exact hP.p_idxAdd _ _ _ h1 | exact h1

theorem Closed.rDeleteRow (t : Nat) (a b : Bool) (acc : Store × List (Nat × List (Int × List Nat)))
    (r : Nat × Int × Int) (h : P acc.1) : P (rDeleteRow t a b acc r).1 := by
  unfold Neumann.Ckpt.rDeleteRow
  simp only
  apply hP.p_setRel
  split <;> split <;>
    first | exact hP.p_idxRemove _ _ _ (hP.p_idxRemove _ _ _ h) | exact hP.p_idxRemove _ _ _ h | exact h

theorem Closed.rDelete (d : Db) (t : Nat) (k : Int) (h : P d.st) : P (rDelete d t k).1.st := by
  unfold Neumann.Ckpt.rDelete
  split
  · exact h
  · split
    · exact h
    · simp only
      exact Closed.p_foldlPair _ (fun a x ha => hP.rDeleteRow t _ _ a x ha) _ _ h

theorem Closed.rDrop (d : Db) (t : Nat) (h : P d.st) : P (rDrop d t).1.st := by
  unfold Neumann.Ckpt.rDrop
  split
  · exact h
  · simp only
    apply hP.p_del
    apply Closed.p_foldl _ (fun s x hs => hP.p_del s x hs)
    exact hP.rel _ _ h

theorem Closed.rHidx (d : Db) (t : Nat) (h : P d.st) : P (rHidx d t).1.st := by
  unfold Neumann.Ckpt.rHidx
  split
  · exact h
  · split
    · exact h
    · simp only
      have h1 := hP.putOk (k := .hmeta t) (v := .unit) h
      split
      · exact h1
      · exact Closed.p_foldl _ (fun s x hs => hP.p_idxAdd s _ _ hs) _ _ h1

theorem Closed.rBidx (d : Db) (t : Nat) (h : P d.st) : P (rBidx d t).1.st := by
  unfold Neumann.Ckpt.rBidx
  split
  · exact h
  · split
    · exact h
    · simp only
      have h1 := hP.putOk (k := .bmeta t) (v := .unit) h
      split
      · exact h1
      · exact Closed.p_foldlPair _ (fun a x ha => hP.p_idxAdd a.1 _ _ ha) _ _ h1

theorem Closed.ensureLabelIdx (d : Db) (h : P d.st) : P (ensureLabelIdx d).st := by
  unfold Neumann.Ckpt.ensureLabelIdx
  split
  · exact h
  · split
    · exact h
    · dsimp only
      exact hP.put _ _ _ h

theorem Closed.ensureEtypeIdx (d : Db) (h : P d.st) : P (ensureEtypeIdx d).st := by
  unfold Neumann.Ckpt.ensureEtypeIdx
  split
  · exact h
  · split
    · exact h
    · dsimp only
      exact hP.put _ _ _ h

theorem Closed.gNode (d : Db) (l : Nat) (h : P d.st) : P (gNode d l).1.st := by
  unfold Neumann.Ckpt.gNode
  simp only
  exact hP.putOk (hP.putOk (hP.putOk (hP.ensureLabelIdx d h)))

theorem Closed.gEdge (d : Db) (a b : Nat) (h : P d.st) : P (gEdge d a b).1.st := by
  unfold Neumann.Ckpt.gEdge
  simp only
  have h0 := hP.ensureEtypeIdx d h
  split
  · exact h0
  · split
    · exact h0
    · dsimp only
      exact hP.p_listAdd _ _ _ (hP.p_listAdd _ _ _ (hP.put _ _ _ h0))

theorem Closed.gDelEdge (d : Db) (i : Nat) (h : P d.st) : P (gDelEdge d i).1.st := by
  unfold Neumann.Ckpt.gDelEdge
  split
  · exact h
  · exact hP.p_del _ _ (hP.p_listRemove _ _ _ (hP.p_listRemove _ _ _ h))

theorem Closed.gDelNode (d : Db) (i : Nat) (h : P d.st) : P (gDelNode d i).1.st := by
  unfold Neumann.Ckpt.gDelNode
  split
  · exact h
  · simp only
    apply hP.p_del; apply hP.p_del; apply hP.p_del
    apply Closed.p_foldl _ _ _ _ h
    intro s e hs
    split
    · apply hP.p_del
      split <;> split <;>
        first | exact hP.p_listRemove _ _ _ (hP.p_listRemove _ _ _ hs) | exact hP.p_listRemove _ _ _ hs | exact hs
    · exact hP.p_del _ _ hs

theorem Closed.vPut (d : Db) (k : Nat) (v : Vec) (h : P d.st) : P (vPut d k v).1.st := by
  unfold Neumann.Ckpt.vPut
  split
  · exact h
  · dsimp only
    exact hP.put _ _ _ h

theorem Closed.vDel (d : Db) (k : Nat) (h : P d.st) : P (vDel d k).1.st := by
  unfold Neumann.Ckpt.vDel
  split
  · exact h
  · rename_i s' hd
    exact hP.delete _ _ _ hd h

omit hP in
theorem Closed.vBuild (d : Db) (h : P d.st) : P (vBuild d).1.st := by
  unfold Neumann.Ckpt.vBuild
  simp only
  split
  · exact h
  · split
    · exact h
    · split <;> exact h

theorem Closed.kPut (d : Db) (c k : Nat) (x : Int) (e : Option Int) (h : P d.st) :
    P (kPut d c k x e).1.st := by
  unfold Neumann.Ckpt.kPut
  exact hP.put _ _ _ h

theorem Closed.kDel (d : Db) (c k : Nat) (h : P d.st) : P (kDel d c k).1.st := by
  unfold Neumann.Ckpt.kDel
  split
  · exact h
  · rename_i s' hd
    exact hP.delete _ _ _ hd h

/-- every data statement preserves a closed predicate on the store -/
theorem Closed.step (d : Db) (op : Op) (hd : op.isData = true)
    (h : P d.st) : P (step d op).1.st := by
  cases op with
  | rcreate t => exact hP.rCreate d t h
  | rdrop t => exact hP.rDrop d t h
  | rins t k v => exact hP.rInsert d t k v h
  | rdel t k => exact hP.rDelete d t k h
  | rhidx t => exact hP.rHidx d t h
  | rbidx t => exact hP.rBidx d t h
  | gnode l => exact hP.gNode d l h
  | gedge a b => exact hP.gEdge d a b h
  | gdeln i => exact hP.gDelNode d i h
  | gdele i => exact hP.gDelEdge d i h
  | vput k v => exact hP.vPut d k v h
  | vdel k => exact hP.vDel d k h
  | vbuild => exact Closed.vBuild d h
  | kput c k x e => exact hP.kPut d c k x e h
  | kdel c k => exact hP.kDel d c k h
  | ckpt ts ord nm => simp [Op.isData] at hd
  | ackpt ts ord nm => simp [Op.isData] at hd
  | rollback i o => simp [Op.isData] at hd
  | ckdel i o => simp [Op.isData] at hd
  | setmax n => simp [Op.isData] at hd

end StepClosed

theorem WF.closed : Closed WF :=
  ⟨fun _ k v h => h.put k v, fun _ _ k hd h => h.delete k hd, fun _ r h => h.setRel r⟩

/-! ### `restore_from_bytes` on an image satisfying the invariant -/

theorem WF.get_md {img : Store} (h : WF img) (p : Key × Val) (hp : p ∈ img.md) :
    img.get p.1 = some p.2 := by
  rw [h.get_eq p.1 (h.keys p hp)]
  exact alGet_some_of_mem img.md h.mdNodup p hp

theorem WF.get_cache {img : Store} (h : WF img) (p : Nat × Val) (hp : p ∈ img.cache) :
    img.get (.cache p.1) = some p.2 :=
  alGet_some_of_mem img.cache h.cacheNodup p hp

theorem WF.scanAll {img : Store} (h : WF img) :
    img.scanAll = img.md.map (·.1) ++ img.cache.map fun p => Key.cache p.1 := by
  unfold Store.scanAll
  simp only
  have : ((img.eidx.map fun p => Key.emb p.1).filter fun k => !(img.md.map (·.1)).contains k) = [] := by
    rw [List.filter_eq_nil_iff]
    intro k hk
    simp only [List.mem_map] at hk
    obtain ⟨q, hq, rfl⟩ := hk
    have h1 : alHas img.eidx q.1 = true := (alHas_iff _ _).mpr (List.mem_map_of_mem hq)
    have h2 := (alHas_iff _ _).mp (h.eidxSub _ h1)
    simp [h2]
  rw [this, List.append_nil]

theorem put_fields_md (s : Store) (k : Key) (v : Val) (hk : k.notCache = true) :
    (s.put k v).md = alPut s.md k v ∧ (s.put k v).cache = s.cache ∧ (s.put k v).rel = s.rel ∧
      (s.put k v).cps = s.cps := by
  cases k <;> first | exact ⟨rfl, rfl, rfl, rfl⟩ | simp [Key.notCache] at hk

theorem put_fields_cache (s : Store) (n : Nat) (v : Val) :
    (s.put (.cache n) v).md = s.md ∧ (s.put (.cache n) v).cache = alPut s.cache n v ∧
      (s.put (.cache n) v).rel = s.rel ∧ (s.put (.cache n) v).cps = s.cps :=
  ⟨rfl, rfl, rfl, rfl⟩

theorem reput_md_fold (img : Store) (l : List (Key × Val)) (acc : Store)
    (hl : ∀ p ∈ l, img.get p.1 = some p.2 ∧ p.1.notCache = true)
    (hn : (acc.md.map (·.1) ++ l.map (·.1)).Nodup) :
    ((l.map (·.1)).foldl (Store.reput img) acc).md = acc.md ++ l ∧
    ((l.map (·.1)).foldl (Store.reput img) acc).cache = acc.cache ∧
    ((l.map (·.1)).foldl (Store.reput img) acc).rel = acc.rel := by
  induction l generalizing acc with
  | nil => simp
  | cons p r ih =>
    have hp := hl p (by simp)
    have hstep : Store.reput img acc p.1 = acc.put p.1 p.2 := by simp [Store.reput, hp.1]
    have hf := put_fields_md acc p.1 p.2 hp.2
    have hnot : p.1 ∉ acc.md.map (·.1) := by
      intro hmem
      have := List.nodup_append.mp hn
      exact this.2.2 _ hmem _ (by simp) rfl
    have hmd : (acc.put p.1 p.2).md = acc.md ++ [p] := by
      rw [hf.1, alPut_append _ _ _ hnot]
    simp only [List.map_cons, List.foldl_cons, hstep]
    have := ih (acc.put p.1 p.2) (fun q hq => hl q (by simp [hq])) (by
      rw [hmd]; simpa [List.append_assoc] using hn)
    rw [hmd, hf.2.1, hf.2.2.1] at this
    simpa [List.append_assoc] using this

theorem reput_cache_fold (img : Store) (l : List (Nat × Val)) (acc : Store)
    (hl : ∀ p ∈ l, img.get (.cache p.1) = some p.2)
    (hn : (acc.cache.map (·.1) ++ l.map (·.1)).Nodup) :
    ((l.map fun p => Key.cache p.1).foldl (Store.reput img) acc).md = acc.md ∧
    ((l.map fun p => Key.cache p.1).foldl (Store.reput img) acc).cache = acc.cache ++ l ∧
    ((l.map fun p => Key.cache p.1).foldl (Store.reput img) acc).rel = acc.rel := by
  induction l generalizing acc with
  | nil => simp
  | cons p r ih =>
    have hp := hl p (by simp)
    have hstep : Store.reput img acc (.cache p.1) = acc.put (.cache p.1) p.2 := by
      simp [Store.reput, hp]
    have hnot : p.1 ∉ acc.cache.map (·.1) := by
      intro hmem
      have := List.nodup_append.mp hn
      exact this.2.2 _ hmem _ (by simp) rfl
    have hc : (acc.put (.cache p.1) p.2).cache = acc.cache ++ [p] := by
      show alPut acc.cache p.1 p.2 = _
      rw [alPut_append _ _ _ hnot]
    simp only [List.map_cons, List.foldl_cons, hstep]
    have := ih (acc.put (.cache p.1) p.2) (fun q hq => hl q (by simp [hq])) (by
      rw [hc]; simpa [List.append_assoc] using hn)
    rw [hc] at this
    refine ⟨this.1, ?_, this.2.2⟩
    simpa [List.append_assoc] using this.2.1

/-- restoring a well-formed image gives back its key-addressed content exactly, and NO relational slab -/
theorem restoreFrom_fields {img : Store} (h : WF img) (s : Store) :
    (Store.restoreFrom img s).md = img.md ∧ (Store.restoreFrom img s).cache = img.cache ∧
    (Store.restoreFrom img s).rel = [] ∧ (Store.restoreFrom img s).cps = img.cps := by
  unfold Store.restoreFrom
  rw [h.scanAll, List.foldl_append]
  have h1 := reput_md_fold img img.md (Store.clear s)
    (fun p hp => ⟨h.get_md p hp, h.keys p hp⟩) (by simpa [Store.clear] using h.mdNodup)
  have h2 := reput_cache_fold img img.cache ((img.md.map (·.1)).foldl (Store.reput img) (Store.clear s))
    (fun p hp => h.get_cache p hp) (by rw [h1.2.1]; simpa [Store.clear] using h.cacheNodup)
  refine ⟨?_, ?_, ?_, rfl⟩
  · show Store.md (List.foldl _ _ _) = _
    rw [h2.1, h1.1]; simp [Store.clear]
  · show Store.cache (List.foldl _ _ _) = _
    rw [h2.2.1, h1.2.1]; simp [Store.clear]
  · show Store.rel (List.foldl _ _ _) = _
    rw [h2.2.2, h1.2.2]; simp [Store.clear]

theorem alGet_mem {α β : Type} [DecidableEq α] (l : List (α × β)) (k : α) (v : β)
    (h : alGet l k = some v) : (k, v) ∈ l := by
  induction l with
  | nil => simp [alGet] at h
  | cons p r ih =>
    obtain ⟨a, b⟩ := p
    by_cases e : a = k
    · simp [alGet, e] at h; subst e; subst h; simp
    · simp [alGet, e] at h; exact List.mem_cons_of_mem _ (ih h)

theorem restoreFrom_wf (img : Store) (s : Store) : WF (Store.restoreFrom img s) := by
  unfold Store.restoreFrom
  apply WF.setCps
  apply Closed.p_foldl (P := WF)
  · intro a k ha
    unfold Store.reput
    cases hg : img.get k with
    | none => exact ha
    | some v => exact ha.put k v
  · exact WF.empty

/-! ### frame: data statements never touch the checkpoint archive -/

syntax "frame_tac" : tactic
macro_rules
  | `(tactic| frame_tac) => `(tactic| repeat (first | exact ⟨rfl, rfl⟩ | split | dsimp only))

theorem ensureLabelIdx_frame (d : Db) :
    (ensureLabelIdx d).arch = d.arch ∧ (ensureLabelIdx d).nextCk = d.nextCk := by
  unfold ensureLabelIdx; frame_tac

theorem ensureEtypeIdx_frame (d : Db) :
    (ensureEtypeIdx d).arch = d.arch ∧ (ensureEtypeIdx d).nextCk = d.nextCk := by
  unfold ensureEtypeIdx; frame_tac

theorem step_frame (d : Db) (op : Op) (hd : op.isData = true) :
    (step d op).1.arch = d.arch ∧ (step d op).1.nextCk = d.nextCk := by
  cases op with
  | rcreate t => simp only [step]; unfold rCreate; frame_tac
  | rdrop t => simp only [step]; unfold rDrop; frame_tac
  | rins t k v => simp only [step]; unfold rInsert; frame_tac
  | rdel t k => simp only [step]; unfold rDelete; frame_tac
  | rhidx t => simp only [step]; unfold rHidx; frame_tac
  | rbidx t => simp only [step]; unfold rBidx; frame_tac
  | gnode l => simp only [step]; unfold gNode; exact ensureLabelIdx_frame d
  | gedge a b =>
    simp only [step]; unfold gEdge
    have := ensureEtypeIdx_frame d
    simp only
    repeat (first | exact this | split)
  | gdeln i => simp only [step]; unfold gDelNode; frame_tac
  | gdele i => simp only [step]; unfold gDelEdge; frame_tac
  | vput k v => simp only [step]; unfold vPut; frame_tac
  | vdel k => simp only [step]; unfold vDel; frame_tac
  | vbuild => simp only [step]; unfold vBuild; frame_tac
  | kput c k x e => simp only [step]; unfold kPut; frame_tac
  | kdel c k => simp only [step]; unfold kDel; frame_tac
  | ckpt ts ord nm => simp [Op.isData] at hd
  | ackpt ts ord nm => simp [Op.isData] at hd
  | rollback i o => simp [Op.isData] at hd
  | ckdel i o => simp [Op.isData] at hd
  | setmax n => simp [Op.isData] at hd

/-! ### the checkpoint listing and id-or-name resolution -/

theorem dedupNat'_mem (l : List Nat) (x : Nat) : x ∈ dedupNat' l ↔ x ∈ l := by
  induction l with
  | nil => simp [dedupNat']
  | cons y ys ih =>
    simp only [dedupNat', List.mem_cons, List.mem_filter, ih, decide_eq_true_eq]
    by_cases h : x = y <;> simp [h]

theorem dedupNat'_nodup (l : List Nat) : (dedupNat' l).Nodup := by
  induction l with
  | nil => simp [dedupNat']
  | cons y ys ih =>
    simp only [dedupNat', List.nodup_cons, List.mem_filter, decide_eq_true_eq]
    exact ⟨fun h => h.2 rfl, List.Nodup.sublist List.filter_sublist ih⟩

theorem arrange_mem (ord : List Nat) (cps : List (Nat × Nat)) (p : Nat × Nat)
    (h : p ∈ arrange ord cps) : p ∈ cps := by
  unfold arrange at h
  rcases List.mem_append.mp h with h | h
  · obtain ⟨i, _, hi⟩ := List.mem_filterMap.mp h
    cases hg : alGet cps i with
    | none => rw [hg] at hi; cases hi
    | some ts =>
      rw [hg] at hi
      simp only [Option.map_some, Option.some.injEq] at hi
      subst hi
      exact alGet_mem cps i ts hg
  · exact (List.mem_filter.mp h).1

theorem mem_arrange (ord : List Nat) (cps : List (Nat × Nat)) (hn : (cps.map (·.1)).Nodup)
    (p : Nat × Nat) (h : p ∈ cps) : p ∈ arrange ord cps := by
  unfold arrange
  by_cases ho : p.1 ∈ ord
  · apply List.mem_append_left
    refine List.mem_filterMap.mpr ⟨p.1, (dedupNat'_mem ord p.1).mpr ho, ?_⟩
    rw [alGet_some_of_mem cps hn p h]
    rfl
  · apply List.mem_append_right
    exact List.mem_filter.mpr ⟨h, by simpa using ho⟩

theorem filterMap_lookup_keys (cps : List (Nat × Nat)) (l : List Nat) :
    (l.filterMap fun i => (alGet cps i).map fun ts => (i, ts)).map (·.1) =
      l.filter fun i => (alGet cps i).isSome := by
  induction l with
  | nil => rfl
  | cons x xs ih =>
    cases hg : alGet cps x with
    | none => simp [List.filterMap_cons, hg, ih]
    | some ts => simp [List.filterMap_cons, hg, ih]

theorem nodup_of_map {α β : Type} (f : α → β) (l : List α) (h : (l.map f).Nodup) : l.Nodup := by
  induction l with
  | nil => exact List.nodup_nil
  | cons x xs ih =>
    simp only [List.map_cons, List.nodup_cons] at h ⊢
    exact ⟨fun hm => h.1 (List.mem_map_of_mem hm), ih h.2⟩

theorem arrange_nodup (ord : List Nat) (cps : List (Nat × Nat)) (hn : (cps.map (·.1)).Nodup) :
    (arrange ord cps).Nodup := by
  unfold arrange
  refine List.nodup_append.mpr ⟨?_, ?_, ?_⟩
  · apply nodup_of_map (·.1)
    rw [filterMap_lookup_keys]
    exact List.Nodup.sublist List.filter_sublist (dedupNat'_nodup ord)
  · exact List.Nodup.sublist List.filter_sublist (nodup_of_map _ _ hn)
  · intro a ha b hb e
    subst e
    obtain ⟨i, hi, hia⟩ := List.mem_filterMap.mp ha
    have hmem := (dedupNat'_mem ord i).mp hi
    cases hg : alGet cps i with
    | none => rw [hg] at hia; cases hia
    | some ts =>
      rw [hg] at hia
      simp only [Option.map_some, Option.some.injEq] at hia
      subst hia
      have := (List.mem_filter.mp hb).2
      simp only [Bool.not_eq_eq_eq_not, Bool.not_true, List.contains_eq_mem, decide_eq_false_iff_not] at this
      exact this hmem

theorem ckList_perm (ord : List Nat) (cps : List (Nat × Nat)) (hn : (cps.map (·.1)).Nodup) :
    (ckList ord cps).Perm cps :=
  (sortDesc_perm _).trans
    ((List.perm_ext_iff_of_nodup (arrange_nodup ord cps hn) (nodup_of_map _ _ hn)).mpr
      fun p => ⟨arrange_mem ord cps p, mem_arrange ord cps hn p⟩)

theorem ckList_mem (ord : List Nat) (cps : List (Nat × Nat)) (p : Nat × Nat)
    (h : p ∈ ckList ord cps) : p ∈ cps :=
  arrange_mem ord cps p ((sortDesc_perm _).mem_iff.mp h)

theorem mem_ckList (ord : List Nat) (cps : List (Nat × Nat)) (hn : (cps.map (·.1)).Nodup)
    (p : Nat × Nat) (h : p ∈ cps) : p ∈ ckList ord cps :=
  (sortDesc_perm _).mem_iff.mpr (mem_arrange ord cps hn p h)

/-- in a newest-first list the first entry satisfying `q` is at least as new as every entry
    satisfying `q` -/
theorem find?_newest (q : Nat × Nat → Bool) (l : List (Nat × Nat)) (h : DescSorted l) (a : Nat × Nat)
    (hf : l.find? q = some a) : ∀ b ∈ l, q b = true → b.2 ≤ a.2 := by
  induction l with
  | nil => cases hf
  | cons y ys ih =>
    unfold DescSorted at h ih
    rw [List.pairwise_cons] at h
    intro b hb hq
    by_cases hy : q y = true
    · rw [List.find?_cons_of_pos (by exact hy)] at hf
      cases hf
      rcases List.mem_cons.mp hb with hb | hb
      · subst hb; exact Nat.le_refl _
      · exact h.1 b hb
    · rw [List.find?_cons_of_neg (by exact hy)] at hf
      rcases List.mem_cons.mp hb with hb | hb
      · subst hb; exact absurd hq hy
      · exact ih h.2 hf b hb hq

/-- what `resolve` answers: a listed checkpoint that either HAS the id `x`, or — when no listed
    checkpoint has the id `x` — is named `x` and is at least as new as every listed one named `x` -/
theorem resolve_some (d : Db) (ord : List Nat) (x i : Nat) (h : resolve d ord x = some i) :
    ∃ ts, (i, ts) ∈ d.st.cps ∧
      (i = x ∨ ((∀ b ∈ ckList ord d.st.cps, b.1 ≠ x) ∧ nameOf d i = some x ∧
        ∀ b ∈ ckList ord d.st.cps, nameOf d b.1 = some x → b.2 ≤ ts)) := by
  unfold resolve at h
  cases hi : (ckList ord d.st.cps).find? (ckIdIs x) with
  | some a =>
    rw [hi] at h
    simp only [Option.some.injEq] at h
    subst h
    have := List.find?_some hi
    simp only [ckIdIs, decide_eq_true_eq] at this
    exact ⟨a.2, ckList_mem ord _ a (List.mem_of_find?_eq_some hi), Or.inl this⟩
  | none =>
    rw [hi] at h
    dsimp only at h
    cases hf : (ckList ord d.st.cps).find? (ckNameIs d x) with
    | none => rw [hf] at h; cases h
    | some a =>
      rw [hf] at h
      simp only [Option.map_some, Option.some.injEq] at h
      subst h
      rw [List.find?_eq_none] at hi
      have hn := List.find?_some hf
      simp only [ckNameIs, decide_eq_true_eq] at hn
      refine ⟨a.2, ckList_mem ord _ a (List.mem_of_find?_eq_some hf), Or.inr ⟨?_, hn, ?_⟩⟩
      · intro b hb e
        exact hi b hb (by simp only [ckIdIs, decide_eq_true_eq]; exact e)
      · intro b hb hbn
        exact find?_newest _ _ (sortDesc_sorted _) a hf b hb
          (by simp only [ckNameIs, decide_eq_true_eq]; exact hbn)

theorem resolve_live (d : Db) (ord : List Nat) (x i : Nat) (h : resolve d ord x = some i) :
    alHas d.st.cps i = true := by
  obtain ⟨ts, hm, _⟩ := resolve_some d ord x i h
  exact (alHas_iff _ _).mpr (List.mem_map_of_mem hm)

/-- the one-pass lookup (`find_by_id_or_name` before fff752bd, `CheckpointManager::delete` before
    14af22de): a
    listed checkpoint whose id or name is `x`, at least as new as every listed one that matches -/
theorem resolveOld_some (d : Db) (ord : List Nat) (x i : Nat) (h : resolveOld d ord x = some i) :
    ∃ ts, (i, ts) ∈ d.st.cps ∧ ckMatches d x (i, ts) = true ∧
      ∀ b ∈ ckList ord d.st.cps, ckMatches d x b = true → b.2 ≤ ts := by
  unfold resolveOld at h
  cases hf : (ckList ord d.st.cps).find? (ckMatches d x) with
  | none => rw [hf] at h; cases h
  | some a =>
    rw [hf] at h
    simp only [Option.map_some, Option.some.injEq] at h
    subst h
    exact ⟨a.2, ckList_mem ord _ a (List.mem_of_find?_eq_some hf), List.find?_some hf,
      find?_newest _ _ (sortDesc_sorted _) a hf⟩

theorem resolveOld_live (d : Db) (ord : List Nat) (x i : Nat) (h : resolveOld d ord x = some i) :
    alHas d.st.cps i = true := by
  obtain ⟨ts, hm, _⟩ := resolveOld_some d ord x i h
  exact (alHas_iff _ _).mpr (List.mem_map_of_mem hm)

/-- a live checkpoint `i` whose id or name is `x`, such that no OTHER live checkpoint has the id
    `x` and every other live checkpoint named `x` is strictly older, is the one `x` resolves to,
    whatever the `by_tag` order -/
theorem resolve_eq_of_newest (d : Db) (ord : List Nat) (x i ts : Nat)
    (hn : (d.st.cps.map (·.1)).Nodup) (hm : (i, ts) ∈ d.st.cps)
    (hx : i = x ∨ nameOf d i = some x)
    (hid : ∀ b ∈ d.st.cps, b.1 = x → b.1 = i)
    (hnew : ∀ b ∈ d.st.cps, nameOf d b.1 = some x → b.1 ≠ i → b.2 < ts) :
    resolve d ord x = some i := by
  unfold resolve
  cases hi : (ckList ord d.st.cps).find? (ckIdIs x) with
  | some a =>
    have ha := ckList_mem ord _ a (List.mem_of_find?_eq_some hi)
    have hax := List.find?_some hi
    simp only [ckIdIs, decide_eq_true_eq] at hax
    simp only [Option.some.injEq]
    exact hid a ha hax
  | none =>
    dsimp only
    rw [List.find?_eq_none] at hi
    have hix : nameOf d i = some x := by
      rcases hx with hx | hx
      · exact absurd (by simp only [ckIdIs, decide_eq_true_eq]; exact hx)
          (hi _ (mem_ckList ord _ hn _ hm))
      · exact hx
    cases hf : (ckList ord d.st.cps).find? (ckNameIs d x) with
    | none =>
      rw [List.find?_eq_none] at hf
      exact absurd (by simp only [ckNameIs, decide_eq_true_eq]; exact hix)
        (hf _ (mem_ckList ord _ hn _ hm))
    | some a =>
      simp only [Option.map_some, Option.some.injEq]
      have ha := ckList_mem ord _ a (List.mem_of_find?_eq_some hf)
      have han := List.find?_some hf
      simp only [ckNameIs, decide_eq_true_eq] at han
      have hle := find?_newest _ _ (sortDesc_sorted _) a hf _ (mem_ckList ord _ hn _ hm)
        (by simp only [ckNameIs, decide_eq_true_eq]; exact hix)
      by_cases e : a.1 = i
      · exact e
      · have := hnew a ha han e
        simp only at hle
        omega

/-! ### the database invariant along statement sequences -/

structure DbInv (d : Db) : Prop where
  wf : WF d.st
  arch : ∀ c ∈ d.arch, WF c.img
  ids : d.arch.map (·.id) = List.range d.nextCk
  /-- every listed checkpoint id has been issued -/
  cpsLt : ∀ i, alHas d.st.cps i = true → i < d.nextCk
  /-- … also in every archived image (a rollback re-installs the image's list) -/
  archCps : ∀ c ∈ d.arch, ∀ i, alHas c.img.cps i = true → i < d.nextCk
  /-- a checkpoint id is listed once -/
  cpsNodup : (d.st.cps.map (·.1)).Nodup
  archNodup : ∀ c ∈ d.arch, (c.img.cps.map (·.1)).Nodup
  /-- the listed timestamp of a checkpoint is the one in its blob -/
  cpsTs : ∀ p ∈ d.st.cps, ∀ c ∈ d.arch, c.id = p.1 → c.ts = p.2
  archTs : ∀ c' ∈ d.arch, ∀ p ∈ c'.img.cps, ∀ c ∈ d.arch, c.id = p.1 → c.ts = p.2

theorem DbInv.init : DbInv {} :=
  ⟨WF.empty, by simp, by simp, by simp [alHas, alGet], by simp, by simp, by simp, by simp, by simp⟩

theorem blobOf_mem (d : Db) (i : Nat) (c : Ckpt) (h : blobOf d i = some c) : c ∈ d.arch ∧ c.id = i := by
  unfold blobOf at h
  exact ⟨List.mem_of_find?_eq_some h, by simpa using List.find?_some h⟩

theorem DbInv.blobOf_some {d : Db} (h : DbInv d) (i : Nat) (hi : i < d.nextCk) :
    ∃ c, blobOf d i = some c ∧ c.id = i := by
  unfold blobOf
  have hm : i ∈ d.arch.map (·.id) := by rw [h.ids]; exact List.mem_range.mpr hi
  obtain ⟨c, hc, hci⟩ := List.mem_map.mp hm
  cases hf : d.arch.find? (fun x => decide (x.id = i)) with
  | none =>
    rw [List.find?_eq_none] at hf
    exact absurd (by simpa using hci) (hf c hc)
  | some c' => exact ⟨c', rfl, by simpa using List.find?_some hf⟩

theorem loadCk_mem (d : Db) (ord : List Nat) (x : Nat) (c : Ckpt) (h : loadCk d ord x = some c) :
    c ∈ d.arch ∧ resolve d ord x = some c.id := by
  unfold loadCk at h
  cases hr : resolve d ord x with
  | none => rw [hr] at h; cases h
  | some i =>
    rw [hr] at h
    have := blobOf_mem d i c h
    exact ⟨this.1, by rw [this.2]⟩

theorem put_cps (s : Store) (k : Key) (v : Val) : (s.put k v).cps = s.cps := by
  cases k <;> rfl

theorem delete_cps (s s' : Store) (k : Key) (hd : s.delete k = some s') : s'.cps = s.cps := by
  unfold Store.delete at hd
  split at hd
  · cases hd
  · cases k <;> (simp only [Option.some.injEq] at hd; subst hd; rfl)

/-- data statements never touch the list of live checkpoint records -/
theorem cps_closed (c : List (Nat × Nat)) : Closed (fun s => s.cps = c) :=
  ⟨fun s k v h => by rw [put_cps]; exact h, fun s s' k hd h => by rw [delete_cps s s' k hd]; exact h,
   fun _ _ h => h⟩

theorem enforce_subset (max : Nat) (ord : List Nat) (L : List (Nat × Nat)) :
    ∀ p ∈ enforce max ord L, p ∈ L := by
  intro p hp
  unfold enforce at hp
  split at hp
  · exact hp
  · exact (List.mem_filter.mp hp).1

theorem enforce_sublist (max : Nat) (ord : List Nat) (L : List (Nat × Nat)) :
    (enforce max ord L).Sublist L := by
  unfold enforce
  split
  · exact List.Sublist.refl _
  · exact List.filter_sublist

/-- both creation paths (`create`, `create_auto`: store the record, then enforce retention) keep
    the database invariant -/
theorem DbInv.doCkpt {d : Db} (h : DbInv d) (ts : Nat) (ord : List Nat) (nm : Nat) :
    DbInv (doCkpt d ts ord nm).1 := by
  simp only [Neumann.Ckpt.doCkpt]
  have hfresh : d.nextCk ∉ d.st.cps.map (·.1) := by
    intro hm
    have := h.cpsLt _ ((alHas_iff _ _).mpr hm); omega
  have hnd : ((d.st.cps ++ [(d.nextCk, ts)]).map (·.1)).Nodup := by
    rw [List.map_append]
    refine List.nodup_append.mpr ⟨h.cpsNodup, by simp, ?_⟩
    intro a ha b hb
    simp only [List.map_cons, List.map_nil, List.mem_singleton] at hb
    subst hb
    intro e; subst e; exact hfresh ha
  have hnoid : ∀ c ∈ d.arch, c.id ≠ d.nextCk := by
    intro c hc e
    have : c.id ∈ d.arch.map (·.id) := List.mem_map_of_mem hc
    rw [h.ids, List.mem_range] at this; omega
  refine ⟨h.wf.setCps _, ?_, ?_, ?_, ?_, ?_, ?_, ?_, ?_⟩
  · intro c hc
    rcases List.mem_append.mp hc with hc | hc
    · exact h.arch c hc
    · simp only [List.mem_singleton] at hc; subst hc; exact h.wf
  · simp only [List.map_append, List.map_cons, List.map_nil, h.ids, List.range_succ]
  · intro i hi
    dsimp only at hi ⊢
    rw [alHas_iff] at hi
    obtain ⟨p, hp, rfl⟩ := List.mem_map.mp hi
    have hp' := enforce_subset _ _ _ p hp
    rcases List.mem_append.mp hp' with hp' | hp'
    · have := h.cpsLt p.1 ((alHas_iff _ _).mpr (List.mem_map_of_mem hp')); omega
    · simp only [List.mem_singleton] at hp'; subst hp'; exact Nat.lt_succ_self _
  · intro c hc i hi
    dsimp only at hc ⊢
    rcases List.mem_append.mp hc with hc | hc
    · have := h.archCps c hc i hi; omega
    · simp only [List.mem_singleton] at hc; subst hc
      have := h.cpsLt i hi; omega
  · exact List.Nodup.sublist ((enforce_sublist _ _ _).map _) hnd
  · intro c hc
    dsimp only at hc
    rcases List.mem_append.mp hc with hc | hc
    · exact h.archNodup c hc
    · simp only [List.mem_singleton] at hc; subst hc; exact h.cpsNodup
  · intro p hp c hc hid
    dsimp only at hp hc
    have hp' := enforce_subset _ _ _ p hp
    rcases List.mem_append.mp hp' with hp' | hp' <;> rcases List.mem_append.mp hc with hc | hc
    · exact h.cpsTs p hp' c hc hid
    · simp only [List.mem_singleton] at hc; subst hc
      have hm : p.1 ∈ d.st.cps.map (·.1) := List.mem_map_of_mem hp'
      simp only at hid
      rw [← hid] at hm
      exact absurd hm hfresh
    · simp only [List.mem_singleton] at hp'; subst hp'
      exact absurd hid (hnoid c hc)
    · simp only [List.mem_singleton] at hp' hc; subst hp'; subst hc; rfl
  · intro c' hc' p hp c hc hid
    dsimp only at hc' hc
    have hplt : p.1 < d.nextCk := by
      rcases List.mem_append.mp hc' with hc' | hc'
      · exact h.archCps c' hc' p.1 ((alHas_iff _ _).mpr (List.mem_map_of_mem hp))
      · simp only [List.mem_singleton] at hc'; subst hc'
        exact h.cpsLt p.1 ((alHas_iff _ _).mpr (List.mem_map_of_mem hp))
    rcases List.mem_append.mp hc with hc | hc
    · rcases List.mem_append.mp hc' with hc' | hc'
      · exact h.archTs c' hc' p hp c hc hid
      · simp only [List.mem_singleton] at hc'; subst hc'
        exact h.cpsTs p hp c hc hid
    · simp only [List.mem_singleton] at hc; subst hc
      simp only at hid; omega

theorem DbInv.step {d : Db} (h : DbInv d) (op : Op) : DbInv (step d op).1 := by
  by_cases hd : op.isData = true
  · have hf := step_frame d op hd
    have hc : (Neumann.Ckpt.step d op).1.st.cps = d.st.cps := (cps_closed d.st.cps).step d op hd rfl
    exact ⟨WF.closed.step d op hd h.wf, by rw [hf.1]; exact h.arch, by rw [hf.1, hf.2]; exact h.ids,
      by rw [hc, hf.2]; exact h.cpsLt, by rw [hf.1, hf.2]; exact h.archCps,
      by rw [hc]; exact h.cpsNodup, by rw [hf.1]; exact h.archNodup,
      by rw [hc, hf.1]; exact h.cpsTs, by rw [hf.1]; exact h.archTs⟩
  · cases op with
    | ckpt ts ord nm => exact h.doCkpt ts ord nm
    | ackpt ts ord nm => exact h.doCkpt ts ord nm
    | rollback x o =>
      simp only [Neumann.Ckpt.step, doRollback]
      cases hl : loadCk d o x with
      | none => exact h
      | some c =>
        have hc := (loadCk_mem d o x c hl).1
        exact ⟨restoreFrom_wf _ _, h.arch, h.ids, h.archCps c hc, h.archCps, h.archNodup c hc,
          h.archNodup, h.archTs c hc, h.archTs⟩
    | ckdel x o =>
      simp only [Neumann.Ckpt.step, doCkDel]
      cases hr : resolve d o x with
      | none => exact h
      | some i =>
        refine ⟨h.wf.setCps _, h.arch, h.ids, ?_, h.archCps, alDel_nodup _ _ h.cpsNodup, h.archNodup,
          ?_, h.archTs⟩
        · intro j hj
          dsimp only at hj
          exact h.cpsLt j ((alHas_alDel _ _ _).mp hj).2
        · intro p hp
          exact h.cpsTs p ((alDel_sublist _ _).subset hp)
    | setmax n =>
      exact ⟨h.wf, h.arch, h.ids, h.cpsLt, h.archCps, h.cpsNodup, h.archNodup, h.cpsTs, h.archTs⟩
    | _ => simp [Op.isData] at hd

theorem run_cons (d : Db) (op : Op) (ops : List Op) : run d (op :: ops) = run (step d op).1 ops := rfl

theorem DbInv.run {d : Db} (h : DbInv d) (ops : List Op) : DbInv (run d ops) := by
  induction ops generalizing d with
  | nil => exact h
  | cons op ops ih =>
    rw [run_cons]
    exact ih (h.step op)

theorem step_arch_prefix (d : Db) (op : Op) : ∃ ext, (step d op).1.arch = d.arch ++ ext := by
  by_cases hd : op.isData = true
  · exact ⟨[], by rw [(step_frame d op hd).1]; simp⟩
  · cases op with
    | ckpt ts ord nm => exact ⟨_, rfl⟩
    | ackpt ts ord nm => exact ⟨_, rfl⟩
    | rollback i o =>
      refine ⟨[], ?_⟩
      simp only [Neumann.Ckpt.step, doRollback]
      cases loadCk d o i <;> simp
    | ckdel i o =>
      refine ⟨[], ?_⟩
      simp only [Neumann.Ckpt.step, doCkDel]
      cases resolve d o i <;> simp
    | setmax n => exact ⟨[], by simp [Neumann.Ckpt.step]⟩
    | _ => simp [Op.isData] at hd

theorem run_arch_prefix (d : Db) (ops : List Op) : ∃ ext, (run d ops).arch = d.arch ++ ext := by
  induction ops generalizing d with
  | nil => exact ⟨[], by simp [run]⟩
  | cons op ops ih =>
    rw [run_cons]
    obtain ⟨e1, h1⟩ := step_arch_prefix d op
    obtain ⟨e2, h2⟩ := ih (step d op).1
    exact ⟨e1 ++ e2, by rw [h2, h1, List.append_assoc]⟩

/-- the blob written by a checkpoint statement is what any later lookup of its id returns:
    image, name and timestamp are the ones of the statement -/
theorem blob_after (d0 : Db) (h : DbInv d0) (ts : Nat) (ord : List Nat) (nm : Nat) (post : List Op) :
    blobOf (run (step d0 (.ckpt ts ord nm)).1 post) d0.nextCk = some ⟨d0.nextCk, ts, nm, d0.st⟩ := by
  obtain ⟨ext, he⟩ := run_arch_prefix (step d0 (.ckpt ts ord nm)).1 post
  unfold blobOf
  rw [he]
  have h1 : (step d0 (.ckpt ts ord nm)).1.arch = d0.arch ++ [⟨d0.nextCk, ts, nm, d0.st⟩] := rfl
  rw [h1, List.append_assoc, List.find?_append]
  have hnone : d0.arch.find? (fun x => decide (x.id = d0.nextCk)) = none := by
    rw [List.find?_eq_none]
    intro x hx
    have : x.id ∈ d0.arch.map (·.id) := List.mem_map_of_mem hx
    rw [h.ids, List.mem_range] at this
    simp; omega
  rw [hnone]
  simp

theorem load_after (d0 : Db) (h : DbInv d0) (ts : Nat) (ord : List Nat) (nm : Nat) (post : List Op)
    (o : List Nat) (x : Nat) (c : Ckpt)
    (hr : resolve (run (step d0 (.ckpt ts ord nm)).1 post) o x = some d0.nextCk)
    (hl : loadCk (run (step d0 (.ckpt ts ord nm)).1 post) o x = some c) : c.img = d0.st := by
  unfold loadCk at hl
  rw [hr] at hl
  dsimp only at hl
  rw [blob_after d0 h ts ord nm post] at hl
  cases hl
  rfl

/-! ### observations that read through `scan` / `get` only -/

theorem WF.has_emb {s : Store} (h : WF s) (n : Nat) : s.has (.emb n) = alHas s.md (.emb n) := by
  simp only [Store.has]
  have h1 := h.eidxSub n
  cases e1 : alHas s.eidx n <;> simp_all

theorem WF.view_eq {a b : Store} (ha : WF a) (hb : WF b) (hmd : a.md = b.md) (hc : a.cache = b.cache) :
    a.get = b.get ∧ a.has = b.has ∧ a.scanAll = b.scanAll := by
  refine ⟨?_, ?_, ?_⟩
  · funext k
    by_cases hk : k.notCache = true
    · rw [ha.get_eq k hk, hb.get_eq k hk, hmd]
    · cases k with
      | cache n => simp only [Store.get, hc]
      | _ => simp [Key.notCache] at hk
  · funext k
    cases k with
    | emb n => rw [ha.has_emb, hb.has_emb, hmd]
    | cache n => simp only [Store.has, hc]
    | _ => simp only [Store.has, hmd]
  · rw [ha.scanAll, hb.scanAll, hmd, hc]

theorem kvObs_congr (d d' : Db) (hmd : d.st.md = d'.st.md) (hg : d.st.get = d'.st.get)
    (hh : d.st.has = d'.st.has) (hs : d.st.scanAll = d'.st.scanAll) : kvObs d = kvObs d' := by
  unfold kvObs qNodes qEdges qNeighbors qEmbs qRaw tables nodeIds edgeIds nodeLabel edgeEnds embKeys
    getEmbedding
  simp only [hmd, hg, hh, hs]

/-! ### rollback to the checkpoint a target string resolves to -/

/-- the listed timestamp of a live checkpoint is its blob's -/
theorem DbInv.live_mem {d : Db} (h : DbInv d) (i : Nat) (hl : alHas d.st.cps i = true) (c : Ckpt)
    (hb : blobOf d i = some c) : (i, c.ts) ∈ d.st.cps := by
  obtain ⟨p, hp, hpi⟩ := List.mem_map.mp ((alHas_iff _ _).mp hl)
  have hc := blobOf_mem d i c hb
  have := h.cpsTs p hp c hc.1 (by rw [hc.2, hpi])
  obtain ⟨a, b⟩ := p
  simp only at hpi this
  subst hpi; subst this
  exact hp

theorem ckMatches_iff (d : Db) (x i ts : Nat) (c : Ckpt) (hb : blobOf d i = some c) :
    ckMatches d x (i, ts) = true ↔ (i = x ∨ c.name = x) := by
  unfold ckMatches nameOf
  rw [hb]
  simp

/-- what an accepted `ROLLBACK TO x` does when `x` loads the image `d0.st` -/
theorem rollback_core (d0 d2 : Db) (hwf : WF d0.st) (x : Nat) (o : List Nat) (d3 : Db)
    (himg : ∀ c, loadCk d2 o x = some c → c.img = d0.st)
    (hstep : step d2 (.rollback x o) = (d3, .ok)) :
    d3.st.md = d0.st.md ∧ d3.st.cache = d0.st.cache ∧ d3.st.rel = [] ∧ kvObs d3 = kvObs d0 ∧
      d3.st.cps = d0.st.cps ∧ WF d3.st ∧ d3 = { d2 with st := Store.restoreFrom d0.st d2.st } := by
  simp only [step, doRollback] at hstep
  cases hl : loadCk d2 o x with
  | none =>
    rw [hl] at hstep
    exact absurd (congrArg Prod.snd hstep) (by simp)
  | some c =>
    rw [hl] at hstep
    have himg : c.img = d0.st := himg c hl
    have hd3 := (congrArg Prod.fst hstep).symm
    simp only at hd3
    have hf := restoreFrom_fields (img := c.img) (by rw [himg]; exact hwf) d2.st
    have hw := restoreFrom_wf c.img d2.st
    have hst : d3.st = Store.restoreFrom c.img d2.st := by rw [hd3]
    rw [himg] at hf hw hst hd3
    have hv := WF.view_eq (hst ▸ hw) hwf (by rw [hst]; exact hf.1) (by rw [hst]; exact hf.2.1)
    refine ⟨by rw [hst]; exact hf.1, by rw [hst]; exact hf.2.1, by rw [hst]; exact hf.2.2.1, ?_⟩
    exact ⟨kvObs_congr d3 d0 (by rw [hst]; exact hf.1) hv.1 hv.2.1 hv.2.2,
      by rw [hst]; exact hf.2.2.2, hst ▸ hw, hd3⟩

/-- an accepted rollback resolved its target -/
theorem rollback_ok_resolved (d : Db) (x : Nat) (o : List Nat) (h : (step d (.rollback x o)).2 = .ok) :
    ∃ i, resolve d o x = some i := by
  simp only [step, doRollback] at h
  cases hl : loadCk d o x with
  | none => rw [hl] at h; cases h
  | some c => exact ⟨c.id, (loadCk_mem d o x c hl).2⟩

/-- a live id resolves to itself, whatever the names of the listed checkpoints and the order -/
theorem DbInv.resolve_id {d : Db} (h : DbInv d) (o : List Nat) (i : Nat) (hl : alHas d.st.cps i = true) :
    resolve d o i = some i := by
  obtain ⟨p, hp, hpi⟩ := List.mem_map.mp ((alHas_iff _ _).mp hl)
  have hin := mem_ckList o _ h.cpsNodup p hp
  unfold resolve
  cases hf : (ckList o d.st.cps).find? (ckIdIs i) with
  | none =>
    rw [List.find?_eq_none] at hf
    have := hf p hin
    simp [ckIdIs, hpi] at this
  | some a =>
    have hm := List.find?_some hf
    simp only [ckIdIs, decide_eq_true_eq] at hm
    simp only [Option.some.injEq]
    exact hm

theorem find?_congr' {α} (p q : α → Bool) (l : List α) (h : ∀ a ∈ l, p a = q a) :
    l.find? p = l.find? q := by
  induction l with
  | nil => rfl
  | cons y ys ih =>
    simp only [List.find?_cons, h y List.mem_cons_self]
    rw [ih fun a ha => h a (List.mem_cons_of_mem _ ha)]

/-- the pre-fix resolution answers like the present one unless the target is BOTH the id of a
    listed checkpoint and the name of a listed checkpoint -/
theorem resolveOld_eq (d : Db) (o : List Nat) (x : Nat)
    (h : (∀ b ∈ ckList o d.st.cps, b.1 ≠ x) ∨ (∀ b ∈ ckList o d.st.cps, nameOf d b.1 ≠ some x)) :
    resolveOld d o x = resolve d o x := by
  unfold resolveOld resolve
  rcases h with h | h
  · have h1 : (ckList o d.st.cps).find? (ckIdIs x) = none := by
      rw [List.find?_eq_none]
      intro b hb
      simp only [ckIdIs, decide_eq_true_eq]
      exact h b hb
    have h2 : (ckList o d.st.cps).find? (ckMatches d x) = (ckList o d.st.cps).find? (ckNameIs d x) := by
      apply find?_congr'
      intro b hb
      have := h b hb
      simp [ckMatches, ckNameIs, this]
    rw [h1, h2]
  · have h2 : (ckList o d.st.cps).find? (ckMatches d x) = (ckList o d.st.cps).find? (ckIdIs x) := by
      apply find?_congr'
      intro b hb
      have := h b hb
      simp [ckMatches, ckIdIs, this]
    have h3 : (ckList o d.st.cps).find? (ckNameIs d x) = none := by
      rw [List.find?_eq_none]
      intro b hb
      simp only [ckNameIs, decide_eq_true_eq]
      exact h b hb
    rw [h2, h3]
    cases (ckList o d.st.cps).find? (ckIdIs x) <;> rfl

/-! ### `RetentionManager::enforce` on a listing without duplicate ids -/

theorem eq_of_nodup_keys (l : List (Nat × Nat)) (h : (l.map (·.1)).Nodup) (p q : Nat × Nat)
    (hp : p ∈ l) (hq : q ∈ l) (e : p.1 = q.1) : p = q := by
  induction l with
  | nil => cases hp
  | cons x xs ih =>
    simp only [List.map_cons, List.nodup_cons] at h
    rcases List.mem_cons.mp hp with hp | hp <;> rcases List.mem_cons.mp hq with hq | hq
    · rw [hp, hq]
    · have hm : q.1 ∈ xs.map (·.1) := List.mem_map_of_mem hq
      rw [← e, hp] at hm
      exact absurd hm h.1
    · have hm : p.1 ∈ xs.map (·.1) := List.mem_map_of_mem hp
      rw [e, hq] at hm
      exact absurd hm h.1
    · exact ih h.2 hp hq

/-- what `enforce` keeps: exactly the first `max` entries of the newest-first listing (as a set),
    `min max |L|` of them, and nothing dropped is newer than anything kept -/
theorem enforce_spec (max : Nat) (ord : List Nat) (L : List (Nat × Nat)) (hn : (L.map (·.1)).Nodup) :
    (enforce max ord L).length = min max L.length ∧
    (∀ p, p ∈ enforce max ord L ↔ p ∈ (ckList ord L).take max) ∧
    ∀ q ∈ L, q ∉ enforce max ord L → ∀ k ∈ enforce max ord L, q.2 ≤ k.2 := by
  have hperm := ckList_perm ord L hn
  have hLn : L.Nodup := nodup_of_map _ _ hn
  have hcn : (ckList ord L).Nodup := hperm.nodup_iff.mpr hLn
  have hmem : ∀ p, p ∈ enforce max ord L ↔ p ∈ (ckList ord L).take max := by
    intro p
    unfold enforce
    split
    · rename_i hle
      rw [List.take_of_length_le (by rw [hperm.length_eq]; exact hle)]
      exact (hperm.mem_iff).symm
    · constructor
      · intro hp
        obtain ⟨hpL, hk⟩ := List.mem_filter.mp hp
        simp only [retainIds, List.contains_eq_mem, decide_eq_true_eq] at hk
        obtain ⟨q, hq, hqp⟩ := List.mem_map.mp hk
        have hqL : q ∈ L := ckList_mem ord L q (List.mem_of_mem_take hq)
        rw [← eq_of_nodup_keys L hn q p hqL hpL hqp]
        exact hq
      · intro hp
        refine List.mem_filter.mpr ⟨ckList_mem ord L p (List.mem_of_mem_take hp), ?_⟩
        simp only [retainIds, List.contains_eq_mem, decide_eq_true_eq]
        exact List.mem_map_of_mem hp
  have hen : (enforce max ord L).Nodup := List.Nodup.sublist (enforce_sublist max ord L) hLn
  have htn : ((ckList ord L).take max).Nodup := List.Nodup.sublist (List.take_sublist _ _) hcn
  have hp2 : (enforce max ord L).Perm ((ckList ord L).take max) :=
    (List.perm_ext_iff_of_nodup hen htn).mpr hmem
  refine ⟨?_, hmem, ?_⟩
  · rw [hp2.length_eq, List.length_take, hperm.length_eq]
  · intro q hq hnot k hk
    have hk' := (hmem k).mp hk
    have hq' : q ∈ ckList ord L := hperm.mem_iff.mpr hq
    rw [← List.take_append_drop max (ckList ord L)] at hq'
    rcases List.mem_append.mp hq' with hq' | hq'
    · exact absurd ((hmem q).mpr hq') hnot
    · have hs := sortDesc_sorted (arrange ord L)
      unfold DescSorted at hs
      unfold ckList at hq' hk'
      rw [← List.take_append_drop max (sortDesc (arrange ord L)), List.pairwise_append] at hs
      exact hs.2.2 k hk' q hq'

/-! ### the full property statement (its negation is proved in `Props.lean`) -/

/-- The full statement: for every statement sequence `pre` before the checkpoint (which may itself
    contain checkpoints and rollbacks: repeated cycles, several checkpoints), every sequence `post`
    after it, every probe set, every target string `x` (an id or a name) that resolves to that
    checkpoint: if `ROLLBACK TO x` is accepted, the whole observable
    image (table scans, index-path queries, graph, embeddings, searches, raw keys) is the one at
    checkpoint time, and no checkpoint that was listed before the rollback is lost by it. -/
def RollbackExact : Prop :=
  ∀ (p : Probes) (pre post : List Op) (ts : Nat) (ord : List Nat) (nm : Nat) (x : Nat) (o : List Nat)
    (d3 : Db),
    let d0 := run {} pre
    let d2 := run (step d0 (.ckpt ts ord nm)).1 post
    resolve d2 o x = some d0.nextCk → step d2 (.rollback x o) = (d3, .ok) →
      obs p d3 = obs p d0 ∧ ∀ i, alHas d2.st.cps i = true → alHas d3.st.cps i = true

def probes0 : Probes := ⟨[1, 2], [1], [[1, 1, 1]]⟩

end Neumann.Ckpt
