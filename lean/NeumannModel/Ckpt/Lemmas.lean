import NeumannModel.Ckpt.Model
/-
  C08 — helper lemmas for the checkpoint / rollback model.
-/
namespace Neumann.Ckpt

end Neumann.Ckpt
