import NeumannModel.Ckpt.Lemmas
/-
  C08 — helpers for `RetainProps.lean`: the retention bound as an invariant of statement sequences
  (both creation paths, `create` and `create_auto`, rollbacks, deletes), and the listing length.
-/
namespace Neumann.Ckpt

/-- `max_checkpoints` is a constructor argument of the manager: no statement changes it.  In the
    model only `setmax` (harness set-up) does. -/
def Op.isSetmax : Op → Bool
  | .setmax _ => true
  | _ => false

syntax "max_tac" : tactic
macro_rules
  | `(tactic| max_tac) => `(tactic| repeat (first | rfl | split | dsimp only))

theorem ensureLabelIdx_maxCk (d : Db) : (ensureLabelIdx d).maxCk = d.maxCk := by
  unfold ensureLabelIdx; max_tac

theorem ensureEtypeIdx_maxCk (d : Db) : (ensureEtypeIdx d).maxCk = d.maxCk := by
  unfold ensureEtypeIdx; max_tac

/-- no statement but `setmax` touches the configured count -/
theorem step_maxCk (d : Db) (op : Op) (hs : op.isSetmax = false) : (step d op).1.maxCk = d.maxCk := by
  cases op with
  | rcreate t => simp only [step]; unfold rCreate; max_tac
  | rdrop t => simp only [step]; unfold rDrop; max_tac
  | rins t k v => simp only [step]; unfold rInsert; max_tac
  | rdel t k => simp only [step]; unfold rDelete; max_tac
  | rhidx t => simp only [step]; unfold rHidx; max_tac
  | rbidx t => simp only [step]; unfold rBidx; max_tac
  | gnode l => simp only [step]; unfold gNode; exact ensureLabelIdx_maxCk d
  | gedge a b =>
    simp only [step]; unfold gEdge
    have := ensureEtypeIdx_maxCk d
    simp only
    repeat (first | exact this | split)
  | gdeln i => simp only [step]; unfold gDelNode; max_tac
  | gdele i => simp only [step]; unfold gDelEdge; max_tac
  | vput k v => simp only [step]; unfold vPut; max_tac
  | vdel k => simp only [step]; unfold vDel; max_tac
  | vbuild => simp only [step]; unfold vBuild; max_tac
  | kput c k x e => simp only [step]; unfold kPut; max_tac
  | kdel c k => simp only [step]; unfold kDel; max_tac
  | ckpt ts ord nm => rfl
  | ackpt ts ord nm => rfl
  | rollback i o => simp only [step]; unfold doRollback; max_tac
  | ckdel i o => simp only [step]; unfold doCkDel; max_tac
  | setmax n => simp [Op.isSetmax] at hs

/-- the full listing shows every live record once: as many entries as records -/
theorem ckList_length (ord : List Nat) (cps : List (Nat × Nat)) (hn : (cps.map (·.1)).Nodup) :
    (ckList ord cps).length = cps.length :=
  (ckList_perm ord cps hn).length_eq

theorem alDel_length_le {α β : Type} [DecidableEq α] (l : List (α × β)) (k : α) :
    (alDel l k).length ≤ l.length :=
  (alDel_sublist l k).length_le

/-- the retention bound: never more live checkpoint records than the configured count — in the
    live store and in every archived image (a rollback re-installs an image's records) -/
structure RInv (d : Db) : Prop where
  live : d.st.cps.length ≤ d.maxCk
  arch : ∀ c ∈ d.arch, c.img.cps.length ≤ d.maxCk

theorem fresh_nodup {d : Db} (h : DbInv d) (ts : Nat) :
    ((d.st.cps ++ [(d.nextCk, ts)]).map (·.1)).Nodup := by
  rw [List.map_append]
  refine List.nodup_append.mpr ⟨h.cpsNodup, by simp, ?_⟩
  intro a ha b hb
  simp only [List.map_cons, List.map_nil, List.mem_singleton] at hb
  subst hb
  intro e; subst e
  have := h.cpsLt _ ((alHas_iff _ _).mpr ha); omega

/-- store-then-enforce (the tail of `create` and of `create_auto`) re-establishes the bound whatever
    the count was before -/
theorem doCkpt_bound {d : Db} (h : DbInv d) (ts : Nat) (ord : List Nat) (nm : Nat) :
    (doCkpt d ts ord nm).1.st.cps.length ≤ d.maxCk := by
  have := (enforce_spec d.maxCk ord _ (fresh_nodup h ts)).1
  show (enforce d.maxCk ord (d.st.cps ++ [(d.nextCk, ts)])).length ≤ d.maxCk
  omega

theorem RInv.step {d : Db} (hi : DbInv d) (h : RInv d) (op : Op) (hs : op.isSetmax = false) :
    RInv (step d op).1 := by
  have hm := step_maxCk d op hs
  by_cases hd : op.isData = true
  · have hf := step_frame d op hd
    have hc : (Neumann.Ckpt.step d op).1.st.cps = d.st.cps := (cps_closed d.st.cps).step d op hd rfl
    exact ⟨by rw [hc, hm]; exact h.live, by rw [hf.1, hm]; exact h.arch⟩
  · cases op with
    | ckpt ts ord nm =>
      refine ⟨doCkpt_bound hi ts ord nm, ?_⟩
      intro c hc
      have hc' : c ∈ d.arch ++ [⟨d.nextCk, ts, nm, d.st⟩] := hc
      rcases List.mem_append.mp hc' with hc' | hc'
      · exact h.arch c hc'
      · simp only [List.mem_singleton] at hc'; subst hc'; exact h.live
    | ackpt ts ord nm =>
      refine ⟨doCkpt_bound hi ts ord nm, ?_⟩
      intro c hc
      have hc' : c ∈ d.arch ++ [⟨d.nextCk, ts, nm, d.st⟩] := hc
      rcases List.mem_append.mp hc' with hc' | hc'
      · exact h.arch c hc'
      · simp only [List.mem_singleton] at hc'; subst hc'; exact h.live
    | rollback x o =>
      simp only [Neumann.Ckpt.step, doRollback]
      cases hl : loadCk d o x with
      | none => exact h
      | some c => exact ⟨h.arch c (loadCk_mem d o x c hl).1, h.arch⟩
    | ckdel x o =>
      simp only [Neumann.Ckpt.step, doCkDel]
      cases hr : resolve d o x with
      | none => exact h
      | some i => exact ⟨Nat.le_trans (alDel_length_le _ _) h.live, h.arch⟩
    | setmax n => simp [Op.isSetmax] at hs
    | _ => simp [Op.isData] at hd

theorem RInv.run {d : Db} (hi : DbInv d) (h : RInv d) (ops : List Op)
    (hs : ∀ op ∈ ops, op.isSetmax = false) : RInv (run d ops) := by
  induction ops generalizing d with
  | nil => exact h
  | cons op ops ih =>
    rw [run_cons]
    exact ih (hi.step op) (h.step hi op (hs op List.mem_cons_self))
      (fun o ho => hs o (List.mem_cons_of_mem _ ho))

theorem run_maxCk (d : Db) (ops : List Op) (hs : ∀ op ∈ ops, op.isSetmax = false) :
    (run d ops).maxCk = d.maxCk := by
  induction ops generalizing d with
  | nil => rfl
  | cons op ops ih =>
    rw [run_cons, ih _ (fun o ho => hs o (List.mem_cons_of_mem _ ho)),
      step_maxCk d op (hs op List.mem_cons_self)]

/-- a manager configured with `n` over an empty store -/
theorem RInv.configured (n : Nat) : RInv (Neumann.Ckpt.step {} (.setmax n)).1 :=
  ⟨Nat.zero_le _, by intro c hc; cases hc⟩

end Neumann.Ckpt
