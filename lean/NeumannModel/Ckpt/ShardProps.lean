import NeumannModel.Ckpt.ShardLemmas
/-
  C08 — the rollback path through the SHARDED metadata slab (`MetadataSlab::restore`): what comes
  back does not depend on how keys are assigned to shards.

  Why it matters for C08: `restore_from_bytes` re-puts exactly what `scan("")` + `get` of the router
  rebuilt from the checkpoint bytes show.  The checkpoint model reads the image's metadata map as ONE
  association list (`Store.md`); the code reads it through 16 shards chosen by the key's first byte.
  The theorems below close that gap for every assignment of keys to shards and every shard count —
  "nothing that existed at the checkpoint is missing" cannot depend on which key families happen to
  share a shard — and `restore_assigns_runs_loses_keys_witness` shows a restore that builds each shard
  from runs of the sorted snapshot losing exactly the keys of a shard's earlier run.
-/
namespace Neumann.Ckpt.Shard.Props

open Neumann.Ckpt Neumann.Ckpt.Shard

variable {α β : Type} [DecidableEq α]

/-- `MetadataSlab::restore` is layout-independent, lookups: for EVERY snapshot entry list `data`
    (sorted or not, duplicate keys or not), every shard count and every assignment of keys to shards
    — two of them side by side — `get` on the restored slab answers what the ONE-map build of the
    same entries answers: the value of the last entry under that key, nothing if there is none. -/
theorem restore_get_layout_independent (n n' : Nat) (sh sh' : α → Nat) (data : List (α × β)) (k : α) :
    get n sh (restore n sh data) k = alGet (single data) k ∧
    get n sh (restore n sh data) k = get n' sh' (restore n' sh' data) k := by
  have h : ∀ (m : Nat) (f : α → Nat), get m f (restore m f data) k = alGet (single data) k := by
    intro m f
    unfold restore
    rw [get_foldl, single_get]
    cases lastVal data k <;> simp [get, Shard.empty, alGet]
  exact ⟨h n sh, by rw [h n sh, h n' sh']⟩

-- non-vacuity: `edge:` / `user:` (first bytes 0x65, 0x75: one shard of 16) and `node:` (0x6E), a
-- replaced value; 16 shards by first byte against 3 shards by length
example :
    let data : List (List Nat × Nat) := [([0x65, 1], 10), ([0x6E, 1], 20), ([0x75, 1], 30), ([0x65, 1], 11)]
    get 16 firstByte (restore 16 firstByte data) [0x65, 1] = some 11 ∧
    get 3 List.length (restore 3 List.length data) [0x65, 1] = some 11 ∧
    get 16 firstByte (restore 16 firstByte data) [0x75, 1] = some 30 := by decide

/-- `MetadataSlab::restore` is layout-independent, key set: for every snapshot entry list, every
    positive shard count and EVERY assignment of keys to shards, the restored slab lists (`scan("")` /
    `keys()`, all shards merged) exactly the keys of the snapshot — each once —, `len` is the number
    of distinct snapshot keys, every listed entry is found by `get` in its own shard with that value
    (what `restore_from_bytes` relies on when it copies `scan` + `get`), and when the snapshot has
    unique keys (it is a map) the restored entries are the snapshot entries up to order. -/
theorem restore_key_set_is_image_key_set (n : Nat) (hn : 0 < n) (sh : α → Nat) (data : List (α × β)) :
    (∀ k, k ∈ (entries n (restore n sh data)).map (·.1) ↔ k ∈ data.map (·.1)) ∧
    ((entries n (restore n sh data)).map (·.1)).Nodup ∧
    (entries n (restore n sh data)).length = (single data).length ∧
    (∀ p ∈ entries n (restore n sh data), get n sh (restore n sh data) p.1 = some p.2) ∧
    ((data.map (·.1)).Nodup → (entries n (restore n sh data)).Perm data) := by
  have hp := Placed.restore n sh data
  have hkeys : ∀ k, k ∈ (entries n (restore n sh data)).map (·.1) ↔ k ∈ data.map (·.1) := by
    intro k
    rw [← alGet_isSome_iff, alGet_entries hp hn, (restore_get_layout_independent n n sh sh data k).1,
      alGet_isSome_iff, single_keys]
  have hnd := entries_nodup hp
  have hget : ∀ p ∈ entries n (restore n sh data), get n sh (restore n sh data) p.1 = some p.2 := by
    intro p hpm
    rw [← alGet_entries hp hn]
    exact alGet_some_of_mem _ hnd p hpm
  refine ⟨hkeys, hnd, ?_, hget, ?_⟩
  · have hperm : ((entries n (restore n sh data)).map (·.1)).Perm ((single data).map (·.1)) :=
      (List.perm_ext_iff_of_nodup hnd (single_nodup data)).mpr fun k => by rw [hkeys, single_keys]
    simpa using hperm.length_eq
  · intro hd
    refine (List.perm_ext_iff_of_nodup (nodup_of_map _ _ hnd) (nodup_of_map _ _ hd)).mpr ?_
    intro p
    constructor
    · intro hpm
      have h1 := hget p hpm
      rw [(restore_get_layout_independent n n sh sh data p.1).1, single_of_nodup data hd] at h1
      exact alGet_mem _ _ _ h1
    · intro hpm
      have h1 : alGet data p.1 = some p.2 := alGet_some_of_mem _ hd p hpm
      rw [← single_of_nodup data hd, ← (restore_get_layout_independent n n sh sh data p.1).1,
        ← alGet_entries hp hn] at h1
      exact alGet_mem _ _ _ h1

-- non-vacuity: three key families, two of them in one shard, several keys each
example :
    let data : List (List Nat × Nat) :=
      [([0x65, 1], 10), ([0x65, 2], 11), ([0x6E, 1], 20), ([0x75, 1], 30), ([0x75, 2], 31)]
    (data.map (·.1)).Nodup ∧ (entries 16 (restore 16 firstByte data)).length = 5 ∧
      firstByte [0x65, 1] % 16 = firstByte [0x75, 1] % 16 := by decide

/-- NOT the code (the seeded change C08_5): `restoreAssignsRuns` builds each shard from a run of
    consecutive snapshot entries of that shard and ASSIGNS the finished run to the shard.  On a sorted
    snapshot holding keys with first bytes 0x65 (`edge:` / `emb:`), 0x6E (`node:`) and 0x75 (`user:`)
    — 0x65 and 0x75 are congruent modulo 16 — the code restores all three, the variant has lost the
    key of the earlier run of shard 5; with 0x5F (`_blob:` / `_meta:` …, the checkpoint blobs
    themselves) and 0x6F (`order:`) it has lost the `_` key.  With one run per shard (0x5F, 0x65,
    0x6E, 0x70: the families of a database without such a pair) the two agree. -/
theorem restore_assigns_runs_loses_keys_witness :
    (let data : List (List Nat × Nat) := [([0x65, 1], 10), ([0x6E, 1], 20), ([0x75, 1], 30)]
     get 16 firstByte (restore 16 firstByte data) [0x65, 1] = some 10 ∧
     (entries 16 (restore 16 firstByte data)).length = 3 ∧
     get 16 firstByte (restoreAssignsRuns 16 firstByte data) [0x65, 1] = none ∧
     (entries 16 (restoreAssignsRuns 16 firstByte data)).map (·.1) = [[0x75, 1], [0x6E, 1]]) ∧
    (let data : List (List Nat × Nat) := [([0x5F, 1], 10), ([0x5F, 2], 11), ([0x6E, 1], 20), ([0x6F, 1], 30)]
     (entries 16 (restore 16 firstByte data)).map (·.1) = [[0x6E, 1], [0x5F, 1], [0x5F, 2], [0x6F, 1]] ∧
     (entries 16 (restoreAssignsRuns 16 firstByte data)).map (·.1) = [[0x6E, 1], [0x6F, 1]]) ∧
    (let data : List (List Nat × Nat) := [([0x5F, 1], 10), ([0x65, 1], 20), ([0x65, 2], 21), ([0x6E, 1], 30), ([0x70, 1], 40)]
     entries 16 (restoreAssignsRuns 16 firstByte data) = entries 16 (restore 16 firstByte data) ∧
     (entries 16 (restore 16 firstByte data)).length = 5) := by decide

/-- The checkpoint model's rollback does not depend on the sharded layout either: for every
    well-formed image (every store a statement sequence can produce, `WF.closed`), every positive
    shard count and EVERY assignment `sh` of storage keys to shards, restoring the image as rebuilt
    through the shards (`Store.fromBytesSh`: `SlabRouter::from_bytes` re-distributes the metadata map,
    `restore_from_bytes` reads it back through `scan` + `get`) leaves a store in which every `get`,
    every `exists` and the `scan("")` key set are those of restoring the image directly — which is
    what `rollback_exact_partial` and the other rollback theorems speak about —, with the same cache
    ring, (empty) relational slab and checkpoint records. -/
theorem rollback_reads_layout_independent {img : Store} (h : WF img) (s : Store) (n : Nat) (hn : 0 < n)
    (sh : Key → Nat) :
    (∀ k, (Store.restoreFrom (Store.fromBytesSh n sh img) s).get k = (Store.restoreFrom img s).get k) ∧
    (∀ k, (Store.restoreFrom (Store.fromBytesSh n sh img) s).has k = (Store.restoreFrom img s).has k) ∧
    (∀ k, k ∈ (Store.restoreFrom (Store.fromBytesSh n sh img) s).scanAll ↔
      k ∈ (Store.restoreFrom img s).scanAll) ∧
    (Store.restoreFrom (Store.fromBytesSh n sh img) s).cache = (Store.restoreFrom img s).cache ∧
    (Store.restoreFrom (Store.fromBytesSh n sh img) s).rel = (Store.restoreFrom img s).rel ∧
    (Store.restoreFrom (Store.fromBytesSh n sh img) s).cps = (Store.restoreFrom img s).cps := by
  have hks := restore_key_set_is_image_key_set n hn sh img.md
  have hmdget : ∀ k, alGet (Store.fromBytesSh n sh img).md k = alGet img.md k := by
    intro k
    show alGet (entries n (restore n sh img.md)) k = _
    rw [alGet_entries (Placed.restore n sh img.md) hn,
      (restore_get_layout_independent n n sh sh img.md k).1, single_of_nodup _ h.mdNodup]
  have hmdhas : ∀ k, alHas (Store.fromBytesSh n sh img).md k = alHas img.md k := by
    intro k; unfold alHas; rw [hmdget]
  have hwf' : WF (Store.fromBytesSh n sh img) := by
    refine ⟨hks.2.1, h.cacheNodup, ?_, h.eidxInj, h.eidxLt, ?_, ?_⟩
    · intro m hm
      rw [hmdhas]; exact h.eidxSub m hm
    · intro m id e h1 h2
      rw [hmdget]; exact h.slabOk m id e h1 h2
    · intro p hp
      have : p.1 ∈ img.md.map (·.1) := (hks.1 p.1).mp (List.mem_map_of_mem hp)
      obtain ⟨q, hq, hqp⟩ := List.mem_map.mp this
      rw [← hqp]; exact h.keys q hq
  have fa := restoreFrom_fields hwf' s
  have fb := restoreFrom_fields h s
  have wa := restoreFrom_wf (Store.fromBytesSh n sh img) s
  have wb := restoreFrom_wf img s
  have hc : (Store.restoreFrom (Store.fromBytesSh n sh img) s).cache = (Store.restoreFrom img s).cache := by
    rw [fa.2.1, fb.2.1]; rfl
  have hg : ∀ k, alGet (Store.restoreFrom (Store.fromBytesSh n sh img) s).md k =
      alGet (Store.restoreFrom img s).md k := by
    intro k; rw [fa.1, fb.1]; exact hmdget k
  refine ⟨?_, ?_, ?_, hc, ?_, ?_⟩
  · intro k
    by_cases hk : k.notCache = true
    · rw [wa.get_eq k hk, wb.get_eq k hk]; exact hg k
    · cases k with
      | cache m => simp only [Store.get, hc]
      | _ => simp [Key.notCache] at hk
  · intro k
    cases k with
    | emb m => rw [wa.has_emb, wb.has_emb]; unfold alHas; rw [hg]
    | cache m => simp only [Store.has, hc]
    | _ => simp only [Store.has]; unfold alHas; rw [hg]
  · intro k
    rw [wa.scanAll, wb.scanAll, hc, fa.1, fb.1]
    simp only [List.mem_append]
    have := hks.1 k
    constructor
    · rintro (hm | hm)
      · exact Or.inl (this.mp hm)
      · exact Or.inr hm
    · rintro (hm | hm)
      · exact Or.inl (this.mpr hm)
      · exact Or.inr hm
  · rw [fa.2.2.1, fb.2.2.1]
  · rw [fa.2.2.2, fb.2.2.2]; rfl

-- non-vacuity: a database with a graph edge, an embedding, `user:` keys (family 1: the shard of
-- `edge:` / `emb:`), an `order:` key (family 2: the shard of every `_` key) and a table; its store is
-- well-formed, the code's assignment puts two families into shard 5 and two into shard 15
example :
    let d := run {} [.gnode 0, .gnode 1, .gedge 1 2, .vput 0 [1, 2, 3], .kput 0 100 7 none,
      .kput 0 101 8 none, .kput 0 200 9 none, .rcreate 0]
    WF d.st ∧ keyFirstByte (.edge 1) % 16 = keyFirstByte (.plain 100) % 16 ∧
      keyFirstByte (.edge 1) ≠ keyFirstByte (.plain 100) ∧
      keyFirstByte (.tmeta 0) % 16 = keyFirstByte (.plain 200) % 16 ∧
      (Store.restoreFrom (Store.fromBytesSh 16 keyFirstByte d.st) {}).has (.edge 1) = true := by
  refine ⟨?_, by decide, by decide, by decide, by decide⟩
  exact (DbInv.run DbInv.init _).wf

end Neumann.Ckpt.Shard.Props
