import NeumannModel.Ckpt.Slab
import NeumannModel.Ckpt.Lemmas
/-
  C08 — the slot allocator of `EmbeddingSlab` implements the abstract entity ↦ vector map
  (helper lemmas; the statements are in `SlabProps.lean`).
-/
namespace Neumann.Ckpt.Slab
open Neumann.Ckpt

theorem insertSorted_perm (k v : Nat) (l : List (Nat × Nat)) : (insertSorted k v l).Perm ((k, v) :: l) := by
  induction l with
  | nil => exact List.Perm.refl _
  | cons p r ih =>
    simp only [insertSorted]
    split
    · exact List.Perm.refl _
    · exact (List.Perm.cons p ih).trans (List.Perm.swap _ _ _)

theorem alGet_insertSorted (k v : Nat) (l : List (Nat × Nat)) (x : Nat) (h : k ∉ l.map (·.1)) :
    alGet (insertSorted k v l) x = if k = x then some v else alGet l x := by
  induction l with
  | nil => simp [insertSorted, alGet]
  | cons p r ih =>
    obtain ⟨a, b⟩ := p
    simp only [List.map_cons, List.mem_cons, not_or] at h
    simp only [insertSorted]
    split
    · simp only [alGet]
    · simp only [alGet, ih h.2]
      by_cases hax : a = x
      · have : ¬ k = x := fun e => h.1 (e.trans hax.symm)
        simp [hax, this]
      · simp [hax]

theorem not_mem_keys_of_alGet_none {β : Type} (l : List (Nat × β)) (k : Nat) (h : alGet l k = none) :
    k ∉ l.map (·.1) := by
  intro hm
  have := (alGet_isSome_iff l k).mpr hm
  rw [h] at this
  cases this

theorem alDel_of_not_mem {β : Type} (l : List (Nat × β)) (k : Nat) (h : k ∉ l.map (·.1)) : alDel l k = l := by
  induction l with
  | nil => rfl
  | cons p r ih =>
    obtain ⟨a, b⟩ := p
    simp only [List.map_cons, List.mem_cons, not_or] at h
    have : ¬ a = k := fun e => h.1 e.symm
    simp [alDel, this, ih h.2]

theorem perm_alDel {β : Type} (l : List (Nat × β)) (k : Nat) (v : β) (hn : (l.map (·.1)).Nodup)
    (h : alGet l k = some v) : l.Perm ((k, v) :: alDel l k) := by
  induction l with
  | nil => simp [alGet] at h
  | cons p r ih =>
    obtain ⟨a, b⟩ := p
    simp only [List.map_cons, List.nodup_cons] at hn
    by_cases e : a = k
    · subst e
      simp only [alGet, if_true, Option.some.injEq] at h
      subst h
      simp only [alDel, if_true]
      rw [alDel_of_not_mem r a hn.1]
    · simp only [alGet, e, if_false] at h
      simp only [alDel, e, if_false]
      exact (List.Perm.cons (a, b) (ih hn.2 h)).trans (List.Perm.swap _ _ _)

theorem eq_of_nodup_map {α β : Type} (f : α → β) (l : List α) (h : (l.map f).Nodup) (p q : α)
    (hp : p ∈ l) (hq : q ∈ l) (e : f p = f q) : p = q := by
  induction l with
  | nil => cases hp
  | cons x xs ih =>
    simp only [List.map_cons, List.nodup_cons] at h
    rcases List.mem_cons.mp hp with hp | hp <;> rcases List.mem_cons.mp hq with hq | hq
    · rw [hp, hq]
    · have hm : f q ∈ xs.map f := List.mem_map_of_mem hq
      rw [← e, hp] at hm
      exact absurd hm h.1
    · have hm : f p ∈ xs.map f := List.mem_map_of_mem hp
      rw [e, hq] at hm
      exact absurd hm h.1
    · exact ih h.2 hp hq

theorem alGet_map_val {β γ : Type} (l : List (Nat × β)) (f : β → γ) (x : Nat) :
    alGet (l.map fun p => (p.1, f p.2)) x = (alGet l x).map f := by
  induction l with
  | nil => rfl
  | cons p r ih =>
    obtain ⟨a, b⟩ := p
    by_cases h : a = x <;> simp [alGet, h, ih]

theorem memGet_alPut (m : List (Nat × Int)) (sl : Nat) (v : Int) (x : Nat) :
    memGet (alPut m sl v) x = if sl = x then v else memGet m x := by
  unfold memGet
  rw [alGet_alPut]
  split <;> rfl

/-- the allocator invariant: entities have distinct slots, no used slot is on the free stack, the
    free stack has no duplicates, and every slot handed out so far is below `write_pos` -/
structure SlabOk (s : Slab) : Prop where
  keys : (s.idx.map (·.1)).Nodup
  slots : (s.idx.map (·.2) ++ s.free).Nodup
  lt : ∀ sl ∈ s.idx.map (·.2) ++ s.free, sl < s.pos

theorem SlabOk.empty : SlabOk {} := ⟨by simp, by simp, by simp⟩

theorem SlabOk.slot_inj {s : Slab} (h : SlabOk s) (a b sl : Nat) (ha : alGet s.idx a = some sl)
    (hb : alGet s.idx b = some sl) : a = b := by
  have hn : (s.idx.map (·.2)).Nodup := (List.nodup_append.mp h.slots).1
  have := eq_of_nodup_map (·.2) s.idx hn (a, sl) (b, sl) (alGet_mem _ _ _ ha) (alGet_mem _ _ _ hb) rfl
  exact congrArg Prod.fst this

theorem set_some (s : Slab) (e sl : Nat) (v : Int) (h : alGet s.idx e = some sl) :
    set s e v = { s with mem := alPut s.mem sl v } := by
  unfold set; rw [h]

theorem set_free (s : Slab) (e : Nat) (v : Int) (sl : Nat) (r : List Nat) (h : alGet s.idx e = none)
    (hf : s.free = sl :: r) :
    set s e v = { idx := insertSorted e sl s.idx, free := r, pos := s.pos, mem := alPut s.mem sl v } := by
  simp only [set, alloc, h, hf]

theorem set_bump (s : Slab) (e : Nat) (v : Int) (h : alGet s.idx e = none) (hf : s.free = []) :
    set s e v = { idx := insertSorted e s.pos s.idx, free := [], pos := s.pos + 1,
                  mem := alPut s.mem s.pos v } := by
  simp only [set, alloc, h, hf]

theorem SlabOk.set {s : Slab} (h : SlabOk s) (e : Nat) (v : Int) : SlabOk (set s e v) := by
  cases hg : alGet s.idx e with
  | some sl => rw [set_some s e sl v hg]; exact ⟨h.keys, h.slots, h.lt⟩
  | none =>
    have hk := not_mem_keys_of_alGet_none _ _ hg
    cases hf : s.free with
    | nil =>
      rw [set_bump s e v hg hf]
      have hp := insertSorted_perm e s.pos s.idx
      have hl : ∀ sl ∈ s.idx.map (·.2), sl < s.pos := fun sl hm => h.lt sl (List.mem_append_left _ hm)
      refine ⟨?_, ?_, ?_⟩
      · exact (hp.map (fun q : Nat × Nat => q.1)).nodup_iff.mpr (List.nodup_cons.mpr ⟨hk, h.keys⟩)
      · show ((insertSorted e s.pos s.idx).map (fun q : Nat × Nat => q.2) ++ []).Nodup
        rw [List.append_nil]
        refine (hp.map (fun q : Nat × Nat => q.2)).nodup_iff.mpr (List.nodup_cons.mpr ⟨?_, (List.nodup_append.mp h.slots).1⟩)
        intro hm
        have := hl _ hm
        simp only at this
        omega
      · intro sl hm
        have hm' : sl ∈ (insertSorted e s.pos s.idx).map (fun q : Nat × Nat => q.2) ++ [] := hm
        rw [List.append_nil] at hm'
        show sl < s.pos + 1
        rcases List.mem_cons.mp ((hp.map (fun q : Nat × Nat => q.2)).mem_iff.mp hm') with hm' | hm'
        · simp only at hm'; omega
        · have := hl sl hm'; omega
    | cons sl r =>
      rw [set_free s e v sl r hg hf]
      have hp := insertSorted_perm e sl s.idx
      have hs := h.slots
      rw [hf] at hs
      have hperm : ((insertSorted e sl s.idx).map (·.2) ++ r).Perm (s.idx.map (·.2) ++ sl :: r) :=
        ((hp.map (fun q : Nat × Nat => q.2)).append_right r).trans List.perm_middle.symm
      refine ⟨?_, ?_, ?_⟩
      · exact (hp.map (fun q : Nat × Nat => q.1)).nodup_iff.mpr (List.nodup_cons.mpr ⟨hk, h.keys⟩)
      · exact hperm.nodup_iff.mpr hs
      · intro x hm
        have hm' : x ∈ (insertSorted e sl s.idx).map (fun q : Nat × Nat => q.2) ++ r := hm
        exact h.lt x (by rw [hf]; exact hperm.mem_iff.mp hm')

theorem get_set {s : Slab} (h : SlabOk s) (e : Nat) (v : Int) (x : Nat) :
    get (set s e v) x = if e = x then some v else get s x := by
  cases hg : alGet s.idx e with
  | some sl =>
    rw [set_some s e sl v hg]
    unfold get
    dsimp only
    by_cases hex : e = x
    · subst hex
      simp [hg, memGet_alPut]
    · rw [if_neg hex]
      cases hx : alGet s.idx x with
      | none => rfl
      | some sl' =>
        have : ¬ sl = sl' := fun e' => hex (h.slot_inj e x sl hg (e' ▸ hx))
        simp [memGet_alPut, this]
  | none =>
    have hk := not_mem_keys_of_alGet_none _ _ hg
    -- the slot handed out is not the slot of any indexed entity
    have key : ∀ (sl : Nat), sl ∉ s.idx.map (·.2) →
        get { idx := insertSorted e sl s.idx, free := (set s e v).free, pos := (set s e v).pos,
              mem := alPut s.mem sl v } x = if e = x then some v else get s x := by
      intro sl hfresh
      unfold get
      dsimp only
      rw [alGet_insertSorted e sl s.idx x hk]
      by_cases hex : e = x
      · simp [hex, memGet_alPut]
      · rw [if_neg hex, if_neg hex]
        cases hx : alGet s.idx x with
        | none => rfl
        | some sl' =>
          have : ¬ sl = sl' := by
            intro e'
            apply hfresh
            rw [e']
            exact List.mem_map_of_mem (f := (·.2)) (alGet_mem _ _ _ hx)
          simp [memGet_alPut, this]
    cases hf : s.free with
    | nil =>
      have hfresh : s.pos ∉ s.idx.map (·.2) := by
        intro hm
        have := h.lt s.pos (List.mem_append_left _ hm)
        omega
      have := key s.pos hfresh
      rw [set_bump s e v hg hf] at this ⊢
      exact this
    | cons sl r =>
      have hfresh : sl ∉ s.idx.map (·.2) := by
        intro hm
        have hs := h.slots
        rw [hf] at hs
        exact (List.nodup_append.mp hs).2.2 sl hm sl (by simp) rfl
      have := key sl hfresh
      rw [set_free s e v sl r hg hf] at this ⊢
      exact this

theorem SlabOk.delete {s : Slab} (h : SlabOk s) (e : Nat) : SlabOk (delete s e) := by
  unfold Slab.delete
  cases hg : alGet s.idx e with
  | none => exact h
  | some sl =>
    have hp := perm_alDel s.idx e sl h.keys hg
    have hperm : ((alDel s.idx e).map (·.2) ++ sl :: s.free).Perm (s.idx.map (·.2) ++ s.free) :=
      List.perm_middle.trans ((hp.map (fun q : Nat × Nat => q.2)).append_right s.free).symm
    exact ⟨alDel_nodup _ _ h.keys, hperm.nodup_iff.mpr h.slots,
      fun x hm => h.lt x (hperm.mem_iff.mp hm)⟩

theorem get_delete (s : Slab) (e x : Nat) :
    get (delete s e) x = if e = x then none else get s x := by
  unfold Slab.delete
  cases hg : alGet s.idx e with
  | none =>
    by_cases hex : e = x
    · subst hex; simp [get, hg]
    · simp [hex]
  | some sl =>
    unfold get
    dsimp only
    rw [alGet_alDel]
    by_cases hex : e = x <;> simp [hex]

theorem SlabOk.clear (s : Slab) : SlabOk (clear s) := ⟨by simp [Slab.clear], by simp [Slab.clear], by simp [Slab.clear]⟩

theorem get_clear (s : Slab) (x : Nat) : get (clear s) x = none := by simp [get, Slab.clear, alGet]

/-- the refinement relation: the slot-level slab `s` represents the abstract map `a` -/
def Rep (s : Slab) (a : List (Nat × Int)) : Prop := SlabOk s ∧ ∀ x, get s x = alGet a x

theorem Rep.set {s : Slab} {a : List (Nat × Int)} (h : Rep s a) (e : Nat) (v : Int) :
    Rep (Neumann.Ckpt.Slab.set s e v) (alPut a e v) :=
  ⟨h.1.set e v, fun x => by rw [get_set h.1, alGet_alPut, h.2 x]⟩

theorem Rep.delete {s : Slab} {a : List (Nat × Int)} (h : Rep s a) (e : Nat) :
    Rep (Neumann.Ckpt.Slab.delete s e) (alDel a e) :=
  ⟨h.1.delete e, fun x => by rw [get_delete, alGet_alDel, h.2 x]⟩

theorem Rep.clear (s : Slab) : Rep (Neumann.Ckpt.Slab.clear s) [] := ⟨SlabOk.clear s, fun x => by rw [get_clear]; rfl⟩

theorem Rep.setAll {s : Slab} {a : List (Nat × Int)} (h : Rep s a) (l : List (Nat × Int)) :
    Rep (Neumann.Ckpt.Slab.setAll s l) (l.foldl (fun a p => alPut a p.1 p.2) a) := by
  induction l generalizing s a with
  | nil => exact h
  | cons p r ih => exact ih (h.set p.1 p.2)

theorem alGet_foldl_put (l acc : List (Nat × Int)) (hn : (l.map (·.1)).Nodup) (x : Nat) :
    alGet (l.foldl (fun a p => alPut a p.1 p.2) acc) x =
      match alGet l x with
      | some v => some v
      | none => alGet acc x := by
  induction l generalizing acc with
  | nil => rfl
  | cons p r ih =>
    obtain ⟨a, b⟩ := p
    simp only [List.map_cons, List.nodup_cons] at hn
    simp only [List.foldl_cons, ih _ hn.2, alGet, alGet_alPut]
    by_cases hax : a = x
    · subst hax
      have : alGet r a = none := by
        cases hr : alGet r a with
        | none => rfl
        | some w => exact absurd (List.mem_map_of_mem (f := (·.1)) (alGet_mem _ _ _ hr)) hn.1
      simp [this]
    · simp [hax]

theorem entries_keys (s : Slab) : (entries s).map (·.1) = s.idx.map (·.1) := by
  unfold entries
  rw [List.map_map]
  rfl

theorem alGet_entries (s : Slab) (x : Nat) : alGet (entries s) x = get s x := by
  unfold entries get
  exact alGet_map_val s.idx (memGet s.mem) x

/-- re-`set`ting every entry of `s` into a slab that represents the empty map represents what `s` did -/
theorem Rep.rebuild {s t : Slab} {a : List (Nat × Int)} (h : Rep s a) (ht : Rep t []) :
    Rep (Neumann.Ckpt.Slab.setAll t (entries s)) a := by
  have h1 := ht.setAll (entries s)
  refine ⟨h1.1, fun x => ?_⟩
  rw [h1.2 x, alGet_foldl_put _ _ (by rw [entries_keys]; exact h.1.keys), alGet_entries, ← h.2 x]
  cases get s x <;> rfl

theorem Rep.compact {s : Slab} {a : List (Nat × Int)} (h : Rep s a) : Rep (Neumann.Ckpt.Slab.compact s) a := by
  unfold Slab.compact
  dsimp only
  split
  · exact h
  · exact h.rebuild (Rep.clear s)

theorem Rep.reload {s : Slab} {a : List (Nat × Int)} (h : Rep s a) : Rep (Neumann.Ckpt.Slab.reload s) a :=
  h.rebuild ⟨SlabOk.empty, fun _ => rfl⟩

theorem Rep.step {s : Slab} {a : List (Nat × Int)} (h : Rep s a) (op : SOp) : Rep (sstep s op) (astep a op) := by
  cases op with
  | set e v => exact h.set e v
  | del e => exact h.delete e
  | clear => exact Rep.clear s
  | compact => exact h.compact
  | reload => exact h.reload

theorem Rep.run {s : Slab} {a : List (Nat × Int)} (h : Rep s a) (ops : List SOp) :
    Rep (srun s ops) (arun a ops) := by
  induction ops generalizing s a with
  | nil => exact h
  | cons op ops ih => exact ih (h.step op)

end Neumann.Ckpt.Slab
