import NeumannModel.Ckpt.Lemmas
/-
  C08 — entity ids are unobservable.

  Two databases whose stores agree on the metadata slab, the cache ring, the relational slab and the
  live checkpoint records (both satisfying the store invariant `WF`), and whose engine-side state,
  checkpoint counter and retention bound agree, and whose archived images are related the same way,
  answer every statement identically and stay related — forever (`sim_step`, `sim_run`), and show
  the same observable image (`sim_obs`).  The entity index `eidx`, the id counter `enext` and the
  keys of the embedding slab `eslab` are therefore not observable.
-/
namespace Neumann.Ckpt

structure StoreSim (a b : Store) : Prop where
  wfa : WF a
  wfb : WF b
  md : a.md = b.md
  cache : a.cache = b.cache
  rel : a.rel = b.rel
  cps : a.cps = b.cps

/-- archives related pointwise: same id / ts / name, images StoreSim -/
def ArchSim : List Ckpt → List Ckpt → Prop
  | [], [] => True
  | c :: cs, c' :: cs' => c.id = c'.id ∧ c.ts = c'.ts ∧ c.name = c'.name ∧ StoreSim c.img c'.img ∧ ArchSim cs cs'
  | _, _ => False

structure DbSim (d d' : Db) : Prop where
  st : StoreSim d.st d'.st
  eng : d.eng = d'.eng
  arch : ArchSim d.arch d'.arch
  nextCk : d.nextCk = d'.nextCk
  maxCk : d.maxCk = d'.maxCk

/-- answers of a statement sequence -/
def runRes : Db → List Op → List Res
  | _, [] => []
  | d, op :: ops => (step d op).2 :: runRes (step d op).1 ops

/-! ### the fields `put` / `delete` leave behind, as functions of the same fields before -/

def putMd (md : List (Key × Val)) (k : Key) (v : Val) : List (Key × Val) :=
  match k with
  | .cache _ => md
  | _ => alPut md k v

def putCache (c : List (Nat × Val)) (k : Key) (v : Val) : List (Nat × Val) :=
  match k with
  | .cache n => alPut c n v
  | _ => c

def delMd (md : List (Key × Val)) (k : Key) : List (Key × Val) :=
  match k with
  | .cache _ => md
  | _ => alDel md k

def delCache (c : List (Nat × Val)) (k : Key) : List (Nat × Val) :=
  match k with
  | .cache n => alDel c n
  | _ => c

theorem put_fields (s : Store) (k : Key) (v : Val) :
    (s.put k v).md = putMd s.md k v ∧ (s.put k v).cache = putCache s.cache k v ∧
      (s.put k v).rel = s.rel ∧ (s.put k v).cps = s.cps := by
  cases k <;> exact ⟨rfl, rfl, rfl, rfl⟩

theorem delete_fields (s s' : Store) (k : Key) (hd : s.delete k = some s') :
    s'.md = delMd s.md k ∧ s'.cache = delCache s.cache k ∧ s'.rel = s.rel ∧ s'.cps = s.cps := by
  unfold Store.delete at hd
  split at hd
  · cases hd
  · cases k <;> (simp only [Option.some.injEq] at hd; subst hd; exact ⟨rfl, rfl, rfl, rfl⟩)

theorem delete_eq_none_iff (s : Store) (k : Key) : s.delete k = none ↔ s.has k = false := by
  unfold Store.delete
  cases hh : s.has k
  · simp
  · cases k <;> simp

/-! ### primitive facts about related stores -/

theorem StoreSim.refl {s : Store} (h : WF s) : StoreSim s s := ⟨h, h, rfl, rfl, rfl, rfl⟩

theorem StoreSim.symm {a b : Store} (h : StoreSim a b) : StoreSim b a :=
  ⟨h.wfb, h.wfa, h.md.symm, h.cache.symm, h.rel.symm, h.cps.symm⟩

theorem StoreSim.trans {a b c : Store} (h : StoreSim a b) (h' : StoreSim b c) : StoreSim a c :=
  ⟨h.wfa, h'.wfb, h.md.trans h'.md, h.cache.trans h'.cache, h.rel.trans h'.rel, h.cps.trans h'.cps⟩

theorem StoreSim.get_eq {a b : Store} (h : StoreSim a b) : a.get = b.get :=
  (WF.view_eq h.wfa h.wfb h.md h.cache).1

theorem StoreSim.has_eq {a b : Store} (h : StoreSim a b) : a.has = b.has :=
  (WF.view_eq h.wfa h.wfb h.md h.cache).2.1

theorem StoreSim.scan_eq {a b : Store} (h : StoreSim a b) : a.scanAll = b.scanAll :=
  (WF.view_eq h.wfa h.wfb h.md h.cache).2.2

theorem StoreSim.put {a b : Store} (h : StoreSim a b) (k : Key) (v : Val) :
    StoreSim (a.put k v) (b.put k v) := by
  have fa := put_fields a k v
  have fb := put_fields b k v
  exact ⟨h.wfa.put k v, h.wfb.put k v, by rw [fa.1, fb.1, h.md], by rw [fa.2.1, fb.2.1, h.cache],
    by rw [fa.2.2.1, fb.2.2.1, h.rel], by rw [fa.2.2.2, fb.2.2.2, h.cps]⟩

theorem StoreSim.delete {a b : Store} (h : StoreSim a b) (k : Key) :
    (a.delete k = none ∧ b.delete k = none) ∨
      ∃ a' b', a.delete k = some a' ∧ b.delete k = some b' ∧ StoreSim a' b' := by
  cases ha : a.delete k with
  | none =>
    have h1 := (delete_eq_none_iff a k).mp ha
    rw [h.has_eq] at h1
    exact Or.inl ⟨rfl, (delete_eq_none_iff b k).mpr h1⟩
  | some a' =>
    cases hb : b.delete k with
    | none =>
      have h1 := (delete_eq_none_iff b k).mp hb
      rw [← h.has_eq] at h1
      rw [(delete_eq_none_iff a k).mpr h1] at ha
      cases ha
    | some b' =>
      have fa := delete_fields a a' k ha
      have fb := delete_fields b b' k hb
      exact Or.inr ⟨a', b', rfl, rfl, h.wfa.delete k ha, h.wfb.delete k hb,
        by rw [fa.1, fb.1, h.md], by rw [fa.2.1, fb.2.1, h.cache],
        by rw [fa.2.2.1, fb.2.2.1, h.rel], by rw [fa.2.2.2, fb.2.2.2, h.cps]⟩

theorem StoreSim.del {a b : Store} (h : StoreSim a b) (k : Key) : StoreSim (a.del k) (b.del k) := by
  unfold Store.del
  rcases h.delete k with ⟨ha, hb⟩ | ⟨a', b', ha, hb, hs⟩
  · rw [ha, hb]; exact h
  · rw [ha, hb]; exact hs

theorem StoreSim.withRel {a b : Store} (h : StoreSim a b) (r : List (Nat × List Row)) :
    StoreSim { a with rel := r } { b with rel := r } :=
  ⟨h.wfa.setRel r, h.wfb.setRel r, h.md, h.cache, rfl, h.cps⟩

theorem StoreSim.withCps {a b : Store} (h : StoreSim a b) (c : List (Nat × Nat)) :
    StoreSim { a with cps := c } { b with cps := c } :=
  ⟨h.wfa.setCps c, h.wfb.setCps c, h.md, h.cache, h.rel, rfl⟩

theorem StoreSim.setRel {a b : Store} (h : StoreSim a b) (t : Nat) (rows : List Row) :
    StoreSim (setRel a t rows) (setRel b t rows) := by
  unfold Neumann.Ckpt.setRel
  rw [h.rel]
  exact h.withRel _

/-! ### functions that read the store through `get` / `has` / `scan` / `md` / `rel` only -/

theorem StoreSim.hasTable_eq {a b : Store} (h : StoreSim a b) : hasTable a = hasTable b := by
  funext t; unfold hasTable; rw [h.has_eq]

theorem StoreSim.nodeLabel_eq {a b : Store} (h : StoreSim a b) : nodeLabel a = nodeLabel b := by
  funext i; unfold nodeLabel; rw [h.get_eq]

theorem StoreSim.edgeEnds_eq {a b : Store} (h : StoreSim a b) : edgeEnds a = edgeEnds b := by
  funext i; unfold edgeEnds; rw [h.get_eq]

theorem StoreSim.nodeIds_eq {a b : Store} (h : StoreSim a b) : nodeIds a = nodeIds b := by
  unfold nodeIds; rw [h.md]

theorem StoreSim.edgeIds_eq {a b : Store} (h : StoreSim a b) : edgeIds a = edgeIds b := by
  unfold edgeIds; rw [h.md]

theorem StoreSim.embKeys_eq {a b : Store} (h : StoreSim a b) : embKeys a = embKeys b := by
  unfold embKeys; rw [h.scan_eq]

theorem StoreSim.getEmbedding_eq {a b : Store} (h : StoreSim a b) : getEmbedding a = getEmbedding b := by
  funext k; unfold getEmbedding; rw [h.get_eq]

theorem StoreSim.buildLabelIdx_eq {a b : Store} (h : StoreSim a b) :
    buildLabelIdx a = buildLabelIdx b := by
  unfold buildLabelIdx; rw [h.nodeIds_eq, h.nodeLabel_eq]

/-! ### store helpers of the engines -/

theorem StoreSim.idxAdd {a b : Store} (h : StoreSim a b) (k : Key) (r : Nat) :
    StoreSim (idxAdd a k r) (idxAdd b k r) := by
  unfold Neumann.Ckpt.idxAdd
  rw [h.get_eq]
  dsimp only
  split
  · exact h
  · exact h.put _ _

theorem StoreSim.idxRemove {a b : Store} (h : StoreSim a b) (k : Key) (r : Nat) :
    StoreSim (idxRemove a k r) (idxRemove b k r) := by
  unfold Neumann.Ckpt.idxRemove
  rw [h.get_eq]
  cases b.get k with
  | none => exact h
  | some v =>
    dsimp only
    split
    · exact h.del _
    · exact h.put _ _

theorem StoreSim.listAdd {a b : Store} (h : StoreSim a b) (k : Key) (e : Nat) :
    StoreSim (listAdd a k e) (listAdd b k e) := by
  unfold Neumann.Ckpt.listAdd
  rw [h.get_eq]
  exact h.put _ _

theorem StoreSim.listRemove {a b : Store} (h : StoreSim a b) (k : Key) (e : Nat) :
    StoreSim (listRemove a k e) (listRemove b k e) := by
  unfold Neumann.Ckpt.listRemove
  rw [h.get_eq]
  cases b.get k with
  | none => exact h
  | some v => exact h.put _ _

theorem StoreSim.foldl {γ : Type} (f : Store → γ → Store)
    (hf : ∀ a b x, StoreSim a b → StoreSim (f a x) (f b x))
    (l l' : List γ) (hl : l = l') (a b : Store) (h : StoreSim a b) :
    StoreSim (l.foldl f a) (l'.foldl f b) := by
  subst hl
  induction l generalizing a b with
  | nil => exact h
  | cons x xs ih => exact ih _ _ (hf a b x h)

theorem StoreSim.foldlPair {β γ : Type} (f : Store × β → γ → Store × β)
    (hf : ∀ a b x, StoreSim a.1 b.1 → a.2 = b.2 → StoreSim (f a x).1 (f b x).1 ∧ (f a x).2 = (f b x).2)
    (l l' : List γ) (hl : l = l') (a b : Store × β) (h : StoreSim a.1 b.1) (h2 : a.2 = b.2) :
    StoreSim (l.foldl f a).1 (l'.foldl f b).1 ∧ (l.foldl f a).2 = (l'.foldl f b).2 := by
  subst hl
  induction l generalizing a b with
  | nil => exact ⟨h, h2⟩
  | cons x xs ih => exact ih _ _ (hf a b x h h2).1 (hf a b x h h2).2

/-! ### engine operations -/

theorem DbSim.upd {d d' : Db} (h : DbSim d d') {s s' : Store} (hs : StoreSim s s') {e e' : Eng}
    (he : e = e') :
    DbSim ⟨s, e, d.arch, d.nextCk, d.maxCk⟩ ⟨s', e', d'.arch, d'.nextCk, d'.maxCk⟩ :=
  ⟨hs, he, h.arch, h.nextCk, h.maxCk⟩

theorem sim_rCreate (d d' : Db) (h : DbSim d d') (t : Nat) :
    (rCreate d t).2 = (rCreate d' t).2 ∧ DbSim (rCreate d t).1 (rCreate d' t).1 := by
  unfold rCreate
  rw [h.st.hasTable_eq, h.st.rel]
  split
  · exact ⟨rfl, h⟩
  · split
    · exact ⟨rfl, h⟩
    · exact ⟨rfl, h.upd ((h.st.setRel t []).put _ _) h.eng⟩

theorem sim_rInsert (d d' : Db) (h : DbSim d d') (t : Nat) (k v : Int) :
    (rInsert d t k v).2 = (rInsert d' t k v).2 ∧ DbSim (rInsert d t k v).1 (rInsert d' t k v).1 := by
  unfold rInsert
  rw [h.st.hasTable_eq, h.st.rel, h.eng]
  split
  · exact ⟨rfl, h⟩
  · split
    · exact ⟨rfl, h⟩
    · rename_i rows _
      dsimp only
      have h1 := h.st.setRel t (rows ++ [⟨true, k, v⟩])
      rw [h1.has_eq]
      by_cases c1 : (setRel d'.st t (rows ++ [⟨true, k, v⟩])).has (.hmeta t) = true
      · simp only [c1, if_true]
        have h2 := h1.idxAdd (.hent t k) (rows.length + 1)
        rw [h2.has_eq]
        by_cases c2 : (idxAdd (setRel d'.st t (rows ++ [⟨true, k, v⟩])) (.hent t k) (rows.length + 1)).has
            (.bmeta t) = true
        · simp only [c2, if_true]
          exact ⟨trivial, h.upd (h2.idxAdd _ _) rfl⟩
        · simp only [c2, if_false, Bool.false_eq_true]
          exact ⟨trivial, h.upd h2 rfl⟩
      · simp only [c1, if_false, Bool.false_eq_true]
        rw [h1.has_eq]
        by_cases c2 : (setRel d'.st t (rows ++ [⟨true, k, v⟩])).has (.bmeta t) = true
        · simp only [c2, if_true]
          exact ⟨trivial, h.upd (h1.idxAdd _ _) rfl⟩
        · simp only [c2, if_false, Bool.false_eq_true]
          exact ⟨trivial, h.upd h1 rfl⟩

theorem StoreSim.killRow {a b : Store} (h : StoreSim a b) (t rid : Nat) :
    StoreSim
      (Neumann.Ckpt.setRel a t (((alGet a.rel t).getD []).zipIdx.map fun p =>
        if p.2 + 1 = rid then { p.1 with alive := false } else p.1))
      (Neumann.Ckpt.setRel b t (((alGet b.rel t).getD []).zipIdx.map fun p =>
        if p.2 + 1 = rid then { p.1 with alive := false } else p.1)) := by
  rw [h.rel]
  exact h.setRel _ _

theorem sim_rDeleteRow (t : Nat) (hH hB : Bool) (a b : Store × List (Nat × List (Int × List Nat)))
    (r : Nat × Int × Int) (h : StoreSim a.1 b.1) (h2 : a.2 = b.2) :
    StoreSim (rDeleteRow t hH hB a r).1 (rDeleteRow t hH hB b r).1 ∧
      (rDeleteRow t hH hB a r).2 = (rDeleteRow t hH hB b r).2 := by
  unfold rDeleteRow
  dsimp only
  rw [h2]
  cases hH <;> cases hB <;> simp only [if_true, if_false, Bool.false_eq_true, and_true]
  · exact h.killRow _ _
  · exact (h.idxRemove _ _).killRow _ _
  · exact (h.idxRemove _ _).killRow _ _
  · exact ((h.idxRemove _ _).idxRemove _ _).killRow _ _

theorem sim_rDelete (d d' : Db) (h : DbSim d d') (t : Nat) (k : Int) :
    (rDelete d t k).2 = (rDelete d' t k).2 ∧ DbSim (rDelete d t k).1 (rDelete d' t k).1 := by
  unfold rDelete
  rw [h.st.hasTable_eq, h.st.rel, h.eng, h.st.has_eq]
  split
  · exact ⟨rfl, h⟩
  · split
    · exact ⟨rfl, h⟩
    · rename_i rows _
      dsimp only
      have hf := StoreSim.foldlPair
        (rDeleteRow t (d'.st.has (.hmeta t)) (d'.st.has (.bmeta t)))
        (fun a b x hs h2 => sim_rDeleteRow t _ _ a b x hs h2)
        ((aliveRows rows).filter fun r => r.2.1 = k) _ rfl
        (d.st, d'.eng.btree) (d'.st, d'.eng.btree) h.st rfl
      exact ⟨rfl, h.upd hf.1 (by rw [hf.2])⟩

theorem sim_rDrop (d d' : Db) (h : DbSim d d') (t : Nat) :
    (rDrop d t).2 = (rDrop d' t).2 ∧ DbSim (rDrop d t).1 (rDrop d' t).1 := by
  unfold rDrop
  rw [h.st.hasTable_eq, h.st.rel]
  split
  · exact ⟨rfl, h⟩
  · have h1 := h.st.withRel (alDel d'.st.rel t)
    have hL : ((d.st.md.map (·.1)).filter (isIdxKeyOf t)) = ((d'.st.md.map (·.1)).filter (isIdxKeyOf t)) := by
      rw [h.st.md]
    exact ⟨rfl, h.upd ((StoreSim.foldl Store.del (fun a b x hs => hs.del x) _ _ hL _ _ h1).del _) h.eng⟩

theorem sim_rHidx (d d' : Db) (h : DbSim d d') (t : Nat) :
    (rHidx d t).2 = (rHidx d' t).2 ∧ DbSim (rHidx d t).1 (rHidx d' t).1 := by
  unfold rHidx
  rw [h.st.hasTable_eq, h.st.has_eq]
  split
  · exact ⟨rfl, h⟩
  · split
    · exact ⟨rfl, h⟩
    · dsimp only
      have h1 := h.st.put (.hmeta t) .unit
      rw [h1.rel]
      split
      · exact ⟨rfl, h.upd h1 h.eng⟩
      · exact ⟨rfl, h.upd (StoreSim.foldl (fun s (r : Nat × Int × Int) => idxAdd s (.hent t r.2.1) r.1)
          (fun a b x hs => hs.idxAdd _ _) _ _ rfl _ _ h1) h.eng⟩

theorem sim_rBidx (d d' : Db) (h : DbSim d d') (t : Nat) :
    (rBidx d t).2 = (rBidx d' t).2 ∧ DbSim (rBidx d t).1 (rBidx d' t).1 := by
  unfold rBidx
  rw [h.st.hasTable_eq, h.st.has_eq, h.eng]
  split
  · exact ⟨rfl, h⟩
  · split
    · exact ⟨rfl, h⟩
    · dsimp only
      have h1 := h.st.put (.bmeta t) .unit
      rw [h1.rel]
      split
      · exact ⟨rfl, h.upd h1 rfl⟩
      · rename_i rows _
        have hf := StoreSim.foldlPair
          (fun (acc : Store × List (Nat × List (Int × List Nat))) (r : Nat × Int × Int) =>
            (idxAdd acc.1 (.bent t r.2.2) r.1, btAdd acc.2 t r.2.2 r.1))
          (fun a b x hs h2 => ⟨hs.idxAdd _ _, congrArg (fun z => btAdd z t x.2.2 x.1) h2⟩)
          (aliveRows rows) _ rfl
          (d.st.put (.bmeta t) .unit, alPut d'.eng.btree t ((alGet d'.eng.btree t).getD []))
          (d'.st.put (.bmeta t) .unit, alPut d'.eng.btree t ((alGet d'.eng.btree t).getD []))
          h1 rfl
        exact ⟨rfl, h.upd hf.1 (by rw [hf.2])⟩

theorem sim_ensureLabelIdx (d d' : Db) (h : DbSim d d') :
    DbSim (ensureLabelIdx d) (ensureLabelIdx d') := by
  unfold ensureLabelIdx
  rw [h.eng, h.st.buildLabelIdx_eq]
  split
  · exact h
  · split
    · exact h.upd h.st rfl
    · exact h.upd (h.st.put _ _) rfl

theorem sim_ensureEtypeIdx (d d' : Db) (h : DbSim d d') :
    DbSim (ensureEtypeIdx d) (ensureEtypeIdx d') := by
  unfold ensureEtypeIdx
  rw [h.eng]
  split
  · exact h
  · split
    · exact h.upd h.st rfl
    · exact h.upd (h.st.put _ _) rfl

theorem sim_gNode (d d' : Db) (h : DbSim d d') (l : Nat) :
    (gNode d l).2 = (gNode d' l).2 ∧ DbSim (gNode d l).1 (gNode d' l).1 := by
  unfold gNode
  have h0 := sim_ensureLabelIdx d d' h
  dsimp only
  rw [h0.eng]
  exact ⟨rfl, h0.upd (((h0.st.put _ _).put _ _).put _ _) rfl⟩

theorem sim_gEdge (d d' : Db) (h : DbSim d d') (a b : Nat) :
    (gEdge d a b).2 = (gEdge d' a b).2 ∧ DbSim (gEdge d a b).1 (gEdge d' a b).1 := by
  unfold gEdge
  have h0 := sim_ensureEtypeIdx d d' h
  dsimp only
  rw [h0.st.has_eq, h0.eng]
  split
  · exact ⟨rfl, h0⟩
  · split
    · exact ⟨rfl, h0⟩
    · exact ⟨rfl, h0.upd (((h0.st.put _ _).listAdd _ _).listAdd _ _) rfl⟩

theorem sim_gDelEdge (d d' : Db) (h : DbSim d d') (i : Nat) :
    (gDelEdge d i).2 = (gDelEdge d' i).2 ∧ DbSim (gDelEdge d i).1 (gDelEdge d' i).1 := by
  unfold gDelEdge
  rw [h.st.edgeEnds_eq]
  split
  · exact ⟨rfl, h⟩
  · exact ⟨rfl, h.upd (((h.st.listRemove _ _).listRemove _ _).del _) h.eng⟩

theorem sim_gDelNode (d d' : Db) (h : DbSim d d') (i : Nat) :
    (gDelNode d i).2 = (gDelNode d' i).2 ∧ DbSim (gDelNode d i).1 (gDelNode d' i).1 := by
  unfold gDelNode
  rw [h.st.nodeLabel_eq, h.st.get_eq, h.eng]
  split
  · exact ⟨rfl, h⟩
  · dsimp only
    refine ⟨rfl, h.upd ?_ rfl⟩
    apply StoreSim.del; apply StoreSim.del; apply StoreSim.del
    apply StoreSim.foldl _ _ _ _ rfl _ _ h.st
    intro a b e hs
    rw [hs.edgeEnds_eq]
    split
    · apply StoreSim.del
      split <;> split <;>
        first | exact (hs.listRemove _ _).listRemove _ _ | exact hs.listRemove _ _ | exact hs
    · exact hs.del _

theorem sim_vPut (d d' : Db) (h : DbSim d d') (k : Nat) (v : Vec) :
    (vPut d k v).2 = (vPut d' k v).2 ∧ DbSim (vPut d k v).1 (vPut d' k v).1 := by
  unfold vPut
  rw [h.eng]
  split
  · exact ⟨rfl, h⟩
  · exact ⟨rfl, h.upd (h.st.put _ _) rfl⟩

theorem sim_vDel (d d' : Db) (h : DbSim d d') (k : Nat) :
    (vDel d k).2 = (vDel d' k).2 ∧ DbSim (vDel d k).1 (vDel d' k).1 := by
  unfold vDel
  rcases h.st.delete (.emb k) with ⟨ha, hb⟩ | ⟨a', b', ha, hb, hs⟩
  · rw [ha, hb]; exact ⟨rfl, h⟩
  · rw [ha, hb, h.eng]; exact ⟨rfl, h.upd hs rfl⟩

theorem sim_vBuild (d d' : Db) (h : DbSim d d') :
    (vBuild d).2 = (vBuild d').2 ∧ DbSim (vBuild d).1 (vBuild d').1 := by
  unfold vBuild
  rw [h.st.embKeys_eq, h.st.getEmbedding_eq, h.eng]
  dsimp only
  split
  · exact ⟨rfl, h⟩
  · split
    · exact ⟨rfl, h.upd h.st rfl⟩
    · split
      · exact ⟨rfl, h.upd h.st rfl⟩
      · exact ⟨rfl, h⟩

theorem sim_kPut (d d' : Db) (h : DbSim d d') (c k : Nat) (x : Int) (e : Option Int) :
    (kPut d c k x e).2 = (kPut d' c k x e).2 ∧ DbSim (kPut d c k x e).1 (kPut d' c k x e).1 := by
  unfold kPut
  exact ⟨rfl, h.upd (h.st.put _ _) h.eng⟩

theorem sim_kDel (d d' : Db) (h : DbSim d d') (c k : Nat) :
    (kDel d c k).2 = (kDel d' c k).2 ∧ DbSim (kDel d c k).1 (kDel d' c k).1 := by
  unfold kDel
  rcases h.st.delete (rawKey c k) with ⟨ha, hb⟩ | ⟨a', b', ha, hb, hs⟩
  · rw [ha, hb]; exact ⟨rfl, h⟩
  · rw [ha, hb]; exact ⟨rfl, h.upd hs h.eng⟩

/-! ### the checkpoint archive -/

theorem ArchSim.refl (l : List Ckpt) (h : ∀ c ∈ l, WF c.img) : ArchSim l l := by
  induction l with
  | nil => trivial
  | cons c cs ih =>
    exact ⟨rfl, rfl, rfl, StoreSim.refl (h c (by simp)), ih (fun x hx => h x (List.mem_cons_of_mem _ hx))⟩

theorem ArchSim.snoc {l l' : List Ckpt} (h : ArchSim l l') {c c' : Ckpt}
    (hc : c.id = c'.id ∧ c.ts = c'.ts ∧ c.name = c'.name ∧ StoreSim c.img c'.img) :
    ArchSim (l ++ [c]) (l' ++ [c']) := by
  induction l generalizing l' with
  | nil =>
    cases l' with
    | nil => exact ⟨hc.1, hc.2.1, hc.2.2.1, hc.2.2.2, trivial⟩
    | cons y ys => exact h.elim
  | cons x xs ih =>
    cases l' with
    | nil => exact h.elim
    | cons y ys => exact ⟨h.1, h.2.1, h.2.2.1, h.2.2.2.1, ih h.2.2.2.2⟩

/-- looking a checkpoint id up in related archives: both absent, or related blobs -/
theorem ArchSim.find {l l' : List Ckpt} (h : ArchSim l l') (i : Nat) :
    (l.find? (fun c => decide (c.id = i)) = none ∧ l'.find? (fun c => decide (c.id = i)) = none) ∨
    ∃ c c', l.find? (fun c => decide (c.id = i)) = some c ∧
      l'.find? (fun c => decide (c.id = i)) = some c' ∧
      c.id = c'.id ∧ c.ts = c'.ts ∧ c.name = c'.name ∧ StoreSim c.img c'.img := by
  induction l generalizing l' with
  | nil =>
    cases l' with
    | nil => exact Or.inl ⟨rfl, rfl⟩
    | cons y ys => exact h.elim
  | cons x xs ih =>
    cases l' with
    | nil => exact h.elim
    | cons y ys =>
      have hxy : x.id = y.id := h.1
      by_cases hx : x.id = i
      · have hy : y.id = i := hxy ▸ hx
        exact Or.inr ⟨x, y, by simp only [List.find?_cons, hx, decide_true],
          by simp only [List.find?_cons, hy, decide_true], h.1, h.2.1, h.2.2.1, h.2.2.2.1⟩
      · have hy : ¬ y.id = i := fun e => hx (hxy.trans e)
        have e1 : (x :: xs).find? (fun c => decide (c.id = i)) = xs.find? (fun c => decide (c.id = i)) := by
          simp only [List.find?_cons, hx, decide_false]
        have e2 : (y :: ys).find? (fun c => decide (c.id = i)) = ys.find? (fun c => decide (c.id = i)) := by
          simp only [List.find?_cons, hy, decide_false]
        rw [e1, e2]
        exact ih h.2.2.2.2

theorem DbSim.nameOf_eq {d d' : Db} (h : DbSim d d') (i : Nat) : nameOf d i = nameOf d' i := by
  unfold nameOf blobOf
  rcases h.arch.find i with ⟨ha, hb⟩ | ⟨c, c', ha, hb, hr⟩
  · rw [ha, hb]
  · rw [ha, hb]; simp only [Option.map_some, hr.2.2.1]

theorem DbSim.resolve_eq {d d' : Db} (h : DbSim d d') (ord : List Nat) (x : Nat) :
    resolve d ord x = resolve d' ord x := by
  unfold resolve
  have hm : ckNameIs d x = ckNameIs d' x := by
    funext p; unfold ckNameIs; rw [h.nameOf_eq]
  rw [hm, h.st.cps]

theorem DbSim.resolveOld_eq {d d' : Db} (h : DbSim d d') (ord : List Nat) (x : Nat) :
    resolveOld d ord x = resolveOld d' ord x := by
  unfold resolveOld
  have hm : ckMatches d x = ckMatches d' x := by
    funext p; unfold ckMatches; rw [h.nameOf_eq]
  rw [hm, h.st.cps]

/-- restoring related images (into any two stores) gives related stores -/
theorem restoreFrom_sim {i i' : Store} (h : StoreSim i i') (s s' : Store) :
    StoreSim (Store.restoreFrom i s) (Store.restoreFrom i' s') := by
  have fa := restoreFrom_fields h.wfa s
  have fb := restoreFrom_fields h.wfb s'
  exact ⟨restoreFrom_wf _ _, restoreFrom_wf _ _, by rw [fa.1, fb.1, h.md], by rw [fa.2.1, fb.2.1, h.cache],
    by rw [fa.2.2.1, fb.2.2.1], by rw [fa.2.2.2, fb.2.2.2, h.cps]⟩

/-- a restored store is related to the image it was restored from (which carries no relational slab) -/
theorem restore_sim {img : Store} (h : WF img) (hrel : img.rel = []) (s : Store) :
    StoreSim (Store.restoreFrom img s) img := by
  have f := restoreFrom_fields h s
  exact ⟨restoreFrom_wf _ _, h, f.1, f.2.1, by rw [f.2.2.1, hrel], f.2.2.2⟩

theorem sim_doCkpt (d d' : Db) (h : DbSim d d') (ts : Nat) (ord : List Nat) (name : Nat) :
    (doCkpt d ts ord name).2 = (doCkpt d' ts ord name).2 ∧
      DbSim (doCkpt d ts ord name).1 (doCkpt d' ts ord name).1 := by
  unfold doCkpt
  dsimp only
  rw [h.st.cps, h.nextCk, h.maxCk]
  exact ⟨rfl, ⟨h.st.withCps _, h.eng, h.arch.snoc ⟨rfl, rfl, rfl, h.st⟩, rfl, rfl⟩⟩

theorem sim_doRollback (d d' : Db) (h : DbSim d d') (x : Nat) (ord : List Nat) :
    (doRollback d x ord).2 = (doRollback d' x ord).2 ∧
      DbSim (doRollback d x ord).1 (doRollback d' x ord).1 := by
  unfold doRollback loadCk
  rw [h.resolve_eq]
  cases resolve d' ord x with
  | none => exact ⟨rfl, h⟩
  | some i =>
    dsimp only
    unfold blobOf
    rcases h.arch.find i with ⟨ha, hb⟩ | ⟨c, c', ha, hb, hr⟩
    · rw [ha, hb]; exact ⟨rfl, h⟩
    · rw [ha, hb]; exact ⟨rfl, h.upd (restoreFrom_sim hr.2.2.2 _ _) h.eng⟩

theorem sim_doCkDel (d d' : Db) (h : DbSim d d') (x : Nat) (ord : List Nat) :
    (doCkDel d x ord).2 = (doCkDel d' x ord).2 ∧
      DbSim (doCkDel d x ord).1 (doCkDel d' x ord).1 := by
  unfold doCkDel
  rw [h.resolve_eq, h.st.cps]
  cases resolve d' ord x with
  | none => exact ⟨rfl, h⟩
  | some i => exact ⟨rfl, h.upd (h.st.withCps _) h.eng⟩

/-! ### the result: entity ids are unobservable -/

/-- related databases answer a statement identically and stay related -/
theorem sim_step (d d' : Db) (h : DbSim d d') (op : Op) :
    (step d op).2 = (step d' op).2 ∧ DbSim (step d op).1 (step d' op).1 := by
  cases op with
  | rcreate t => exact sim_rCreate d d' h t
  | rdrop t => exact sim_rDrop d d' h t
  | rins t k v => exact sim_rInsert d d' h t k v
  | rdel t k => exact sim_rDelete d d' h t k
  | rhidx t => exact sim_rHidx d d' h t
  | rbidx t => exact sim_rBidx d d' h t
  | gnode l => exact sim_gNode d d' h l
  | gedge a b => exact sim_gEdge d d' h a b
  | gdeln i => exact sim_gDelNode d d' h i
  | gdele i => exact sim_gDelEdge d d' h i
  | vput k v => exact sim_vPut d d' h k v
  | vdel k => exact sim_vDel d d' h k
  | vbuild => exact sim_vBuild d d' h
  | kput c k x e => exact sim_kPut d d' h c k x e
  | kdel c k => exact sim_kDel d d' h c k
  | ckpt ts ord nm => exact sim_doCkpt d d' h ts ord nm
  | ackpt ts ord nm => exact sim_doCkpt d d' h ts ord nm
  | rollback x o => exact sim_doRollback d d' h x o
  | ckdel x o => exact sim_doCkDel d d' h x o
  | setmax n => exact ⟨rfl, ⟨h.st, h.eng, h.arch, h.nextCk, rfl⟩⟩

/-- related databases show the same observable image and the same checkpoint listing -/
theorem sim_obs (d d' : Db) (h : DbSim d d') (p : Probes) :
    obs p d = obs p d' ∧ qCkpts d = qCkpts d' := by
  have hg := h.st.get_eq
  have hh := h.st.has_eq
  have hs := h.st.scan_eq
  have hm := h.st.md
  have hr := h.st.rel
  have he := h.eng
  constructor
  · unfold obs qScan qEq qLt qNodes qEdges qNeighbors qByLabel qEmbs qSearch qRaw tables hasTable
      nodeIds edgeIds nodeLabel edgeEnds embKeys getEmbedding
    simp only [hg, hh, hs, hm, hr, he]
  · unfold qCkpts
    rw [h.st.cps]

theorem sim_top (d d' : Db) (h : DbSim d d') (ord : List Nat) (n : Nat) :
    qCkptsTop d ord n = qCkptsTop d' ord n := by
  unfold qCkptsTop
  rw [h.st.cps]

/-- … under every statement sequence: same answers, related final states -/
theorem sim_run (d d' : Db) (h : DbSim d d') (ops : List Op) :
    runRes d ops = runRes d' ops ∧ DbSim (run d ops) (run d' ops) := by
  induction ops generalizing d d' with
  | nil => exact ⟨rfl, h⟩
  | cons op ops ih =>
    have h1 := sim_step d d' h op
    have h2 := ih _ _ h1.2
    rw [run_cons, run_cons]
    refine ⟨?_, h2.2⟩
    show (step d op).2 :: runRes (step d op).1 ops = (step d' op).2 :: runRes (step d' op).1 ops
    rw [h1.1, h2.1]

/-- after any common statement sequence, the observable images coincide -/
theorem sim_run_obs (d d' : Db) (h : DbSim d d') (ops : List Op) (p : Probes) :
    obs p (run d ops) = obs p (run d' ops) ∧ qCkpts (run d ops) = qCkpts (run d' ops) :=
  sim_obs _ _ (sim_run d d' h ops).2 p

theorem DbSim.refl {d : Db} (h : DbInv d) : DbSim d d :=
  ⟨StoreSim.refl h.wf, rfl, ArchSim.refl _ h.arch, rfl, rfl⟩

/-! ### non-vacuity: two DIFFERENT stores that are related -/

/-- `emb:1` written and deleted first: `emb:2` gets entity id 1 -/
def simA : Db := run {} [.kput 2 1 5 (some 3), .kdel 2 1, .kput 2 2 7 (some 4)]
/-- `emb:2` written into the empty store: entity id 0 -/
def simB : Db := run {} [.kput 2 2 7 (some 4)]

example : simA.st.md = simB.st.md ∧ simA.st.cache = simB.st.cache ∧ simA.st.rel = simB.st.rel ∧
    simA.st.cps = simB.st.cps ∧ simA.st.eidx ≠ simB.st.eidx ∧ simA.st.enext ≠ simB.st.enext ∧
    simA.st.eslab ≠ simB.st.eslab ∧ simA.st ≠ simB.st := by decide

theorem simAB : DbSim simA simB := by
  have ha : simA.arch = [] := by decide
  have hb : simB.arch = [] := by decide
  refine ⟨⟨(DbInv.init.run _).wf, (DbInv.init.run _).wf, by decide, by decide, by decide, by decide⟩,
    by decide, ?_, by decide, by decide⟩
  rw [ha, hb]
  trivial

/-- … hence indistinguishable by any statement sequence and any probe set -/
example (ops : List Op) (p : Probes) :
    runRes simA ops = runRes simB ops ∧ obs p (run simA ops) = obs p (run simB ops) :=
  ⟨(sim_run _ _ simAB ops).1, (sim_run_obs _ _ simAB ops p).1⟩

/-- related archives with different images: checkpoint both, the blobs differ but are related -/
example : ArchSim (step simA (.ckpt 1 [] 7)).1.arch (step simB (.ckpt 1 [] 7)).1.arch ∧
    (step simA (.ckpt 1 [] 7)).1.arch ≠ (step simB (.ckpt 1 [] 7)).1.arch :=
  ⟨(sim_step _ _ simAB (.ckpt 1 [] 7)).2.arch, by decide⟩

/-- `restore_sim`: its hypotheses hold of a non-empty image -/
example (s : Store) : StoreSim (Store.restoreFrom simB.st s) simB.st :=
  restore_sim (DbInv.init.run _).wf (by decide) s

end Neumann.Ckpt
