import NeumannModel.Ckpt.EntIdxLemmas
/-
  C08 — entity ids across a checkpoint: the entity index (`EntityIndex::{get, get_or_create, remove,
  scan_prefix, snapshot, restore}`) beside the embedding slab, whose snapshot is keyed by entity id.
  ONLY property statements and their non-vacuity examples; helpers are in `EntIdxLemmas.lean`.
-/
namespace Neumann.Ckpt.EntIdx.Props
open Neumann.Ckpt Neumann.Ckpt.EntIdx

/-- For EVERY sequence of `get_or_create` / `remove` calls (any keys, any number of deletes and
    re-creations) the vocabulary + tombstone index answers `get` exactly like the abstract live-key
    ↦ id map that `Model.lean` uses for `Store.eidx` (append on a miss, `alDel` on a delete), its
    vocabulary length is `Store.enext`, and `scan_prefix("")` is that very map: a deleted key's
    position stays taken, a re-created key gets a fresh id at the end, every other key keeps its id.
    `Store.snapshot` being the identity on `eidx` / `enext` (rollback_exact_partial rests on it) is
    therefore the statement that a snapshot carries the vocabulary WITH its dead entries. -/
theorem entity_index_refines_map (ops : List IOp) (k : Nat) :
    get (irun {} ops) k = alGet (arun {} ops).eidx k ∧
    (irun {} ops).ents.length = (arun {} ops).enext ∧
    live (irun {} ops).ents 0 = (arun {} ops).eidx := by
  have h := Rep.run Rep.empty ops
  exact ⟨h.get k, h.enext.symm, h.eidx.symm⟩

/-- non-vacuity: deletes of the first and of a middle key, a re-creation; ids 0 and 2 are dead,
    key 1 lives on under the fresh id 4 -/
example :
    let ops : List IOp := [.create 1, .create 2, .create 3, .create 4, .remove 1, .remove 3, .create 1, .remove 9]
    (irun {} ops).ents = [(1, false), (2, true), (3, false), (4, true), (1, true)] ∧
    (arun {} ops).eidx = [(2, 1), (4, 3), (1, 4)] ∧ (arun {} ops).enext = 5 ∧
    get (irun {} ops) 1 = some 4 ∧ get (irun {} ops) 3 = none := by decide

/-- Entity ids are stable across `snapshot()` + `restore()`, for every history: each key resolves
    in the restored index to the id it had (`none` for a deleted one), so the router rebuilt from a
    snapshot reads, for every `emb:` key, the vector the snapshotted router read — whatever was
    deleted or re-created before the checkpoint. -/
theorem snapshot_keeps_entity_ids (ops : List EOp) (k : Nat) :
    get (image snapshot (erun {} ops)).idx k = get (erun {} ops).idx k ∧
    look (image snapshot (erun {} ops)) k = look (erun {} ops) k := ⟨rfl, rfl⟩

/-- non-vacuity: four embeddings, the first deleted before the checkpoint; each survivor is read
    with its own vector from the image (and the deleted key with none) -/
example :
    let s := erun {} [.put 1 10, .put 2 20, .put 3 30, .put 4 40, .del 1]
    s.slab = [(1, 20), (2, 30), (3, 40)] ∧
    (image snapshot s).idx.ents = [(1, false), (2, true), (3, true), (4, true)] ∧
    look (image snapshot s) 1 = none ∧ look (image snapshot s) 2 = some 20 ∧
    look (image snapshot s) 3 = some 30 ∧ look (image snapshot s) 4 = some 40 := by decide

/-- The restored key ↦ vector map equals the checkpointed one, for EVERY history of puts,
    overwrites, deletes and re-creations before the checkpoint: the router rebuilt from a snapshot
    (index part = `snapshot`, slab part keyed by the old entity ids) reads under every `emb:` key
    exactly the vector last put under THAT key — never another key's — and nothing under a deleted
    one.  This is what `restore_from_bytes` copies back into the live store on a rollback. -/
theorem restored_embeddings_are_the_checkpointed_ones (ops : List EOp) (k : Nat) :
    look (image snapshot (erun {} ops)) k = alGet (mrun [] ops) k :=
  (ERep.run ERep.empty ops).look k

example :
    let ops : List EOp := [.put 1 10, .put 2 20, .put 3 30, .del 1, .put 1 11, .del 2, .put 4 40, .put 3 31]
    mrun [] ops = [(3, 31), (1, 11), (4, 40)] ∧ (erun {} ops).slab = [(2, 31), (3, 11), (4, 40)] ∧
    look (image snapshot (erun {} ops)) 1 = some 11 ∧ look (image snapshot (erun {} ops)) 2 = none := by decide

/-- Without a delete before it, a snapshot that writes only the live keys is the same snapshot:
    the two differ only when some vocabulary entry is dead. -/
theorem snapshot_live_same_without_tombstones (s : EIdx) (h : ∀ p ∈ s.ents, p.2 = true) :
    snapshotLive s = snapshot s := by
  obtain ⟨ents⟩ := s
  suffices ∀ (l : List (Nat × Bool)) (i : Nat), (∀ p ∈ l, p.2 = true) →
      (live l i).map (fun p => (p.1, true)) = l by
    simp [snapshotLive, snapshot, this ents 0 h]
  intro l
  induction l with
  | nil => intro _ _; rfl
  | cons p r ih =>
    intro i hp
    obtain ⟨x, b⟩ := p
    have hb : b = true := hp (x, b) (by simp)
    subst hb
    simp [live, ih (i + 1) (fun q hq => hp q (by simp [hq]))]

/-- NOT the code (seeded change C08_7): a snapshot that drops the dead vocabulary entries renumbers
    every key created after a deleted one, while the slab part is still keyed by the old ids.  After
    `put 1..4; del 1` the image resolves key 3 to id 1 — the slab entry of key 2 — and key 4 to key
    3's: the rollback copies a NEIGHBOUR's vector under keys 3 and 4 (key 2 lands on the freed id 0
    and is saved by its metadata copy).  This is what the `emb_ids_*` directed cases and the
    `gen:emb_ids_prelude` / `raw:emb_ids_prelude` shapes look for on the real code. -/
theorem snapshot_dropping_tombstones_shifts_ids_witness :
    let s := erun {} [.put 1 10, .put 2 20, .put 3 30, .put 4 40, .del 1]
    (image snapshotLive s).idx.ents = [(2, true), (3, true), (4, true)] ∧
    get s.idx 3 = some 2 ∧ get (image snapshotLive s).idx 3 = some 1 ∧
    look s 3 = some 30 ∧ look (image snapshotLive s) 3 = some 20 ∧
    look s 4 = some 40 ∧ look (image snapshotLive s) 4 = some 30 ∧
    look (image snapshot s) 3 = some 30 ∧ look (image snapshot s) 4 = some 40 := by decide

end Neumann.Ckpt.EntIdx.Props
