import NeumannModel.Ckpt.Model
/-
  C08 — the sharded layout of the metadata slab, as far as a rollback goes through it
  (import-free apart from the checkpoint model, executable).

  `CheckpointManager::rollback` → `TensorStore::restore_from_bytes` → `SlabRouter::from_bytes` →
  `SlabRouter::restore` → `MetadataSlab::restore(snapshot)` (tensor_store/src/metadata_slab.rs):
  the slab is `SHARD_COUNT = 16` independent `BTreeMap`s, a key lives in the shard
  `shard_index(key) = first byte % 16` (0 for the empty key), the snapshot is ONE map merged from all
  shards (sorted by key), and `restore` re-distributes it:

      for (k, v) in snapshot.data { shards[shard_index(&k)].get_mut().insert(k, v); }

  `get` / `contains` / `set` / `delete` look at the key's own shard only; `scan("")` / `keys()` /
  `snapshot()` merge all shards.  `restore_from_bytes` then copies exactly what `scan("")` + `get` of
  the rebuilt router show, so a key that `restore` leaves out (or leaves in a shard where `get` does
  not look) is missing from the database after the rollback.

  The model is generic in the key type and in the ASSIGNMENT of keys to shards (`sh`, any function;
  the code's is "first byte"), and in the shard count `n`: the theorems of `ShardProps` say that the
  restored content does not depend on them.  A shard's map is an insertion-ordered association list
  with unique keys (`alPut` = `BTreeMap::insert`), the shard array a function from the index.
-/
namespace Neumann.Ckpt.Shard

variable {α β : Type} [DecidableEq α]

/-- the shard array: index ↦ that shard's map -/
abbrev Shards (α β : Type) := Nat → List (α × β)

/-- `std::array::from_fn(|_| RwLock::new(BTreeMap::new()))` -/
def empty : Shards α β := fun _ => []

/-- `shards[shard_index(&k)].get_mut().insert(k, v)` -/
def insert (n : Nat) (sh : α → Nat) (shs : Shards α β) (p : α × β) : Shards α β :=
  fun i => if i = sh p.1 % n then alPut (shs i) p.1 p.2 else shs i

/-- `MetadataSlab::restore`, as the code is: one insert per snapshot entry -/
def restore (n : Nat) (sh : α → Nat) (data : List (α × β)) : Shards α β :=
  data.foldl (insert n sh) empty

/-- `MetadataSlab::get`: only the key's own shard is consulted -/
def get (n : Nat) (sh : α → Nat) (shs : Shards α β) (k : α) : Option β :=
  alGet (shs (sh k % n)) k

/-- `MetadataSlab::delete` -/
def delete (n : Nat) (sh : α → Nat) (shs : Shards α β) (k : α) : Shards α β :=
  fun i => if i = sh k % n then alDel (shs i) k else shs i

/-- `scan("")` / `keys()` / `snapshot()`: all shards merged (the code sorts the merge by key;
    nothing below depends on the order) -/
def entries (n : Nat) (shs : Shards α β) : List (α × β) :=
  (List.range n).flatMap shs

/-- ONE map, no shards: what the insert loop builds when every key goes to the same place -/
def single (data : List (α × β)) : List (α × β) :=
  data.foldl (fun m p => alPut m p.1 p.2) []

/-- snapshot + restore of a live slab -/
def reload (n : Nat) (sh : α → Nat) (shs : Shards α β) : Shards α β :=
  restore n sh (entries n shs)

/-! ### NOT the code: bulk build of each shard from runs of the (sorted) snapshot

  The seeded change C08_5: "the keys of one shard arrive as one sorted run, build the shard's map from
  the run in one go".  A finished run is ASSIGNED to its shard (`*shards[run_shard].get_mut() =
  run.collect()`), so a shard that receives a second run (two first bytes congruent modulo the shard
  count) keeps only the last one (`ShardProps.restore_assigns_runs_loses_keys_witness`). -/

structure RunSt (α β : Type) where
  shs : Shards α β
  run : List (α × β)
  runShard : Nat

/-- `*shards[run_shard].get_mut() = std::mem::take(&mut run).into_iter().collect()` -/
def flush (st : RunSt α β) : Shards α β :=
  fun i => if i = st.runShard then single st.run else st.shs i

def runStep (n : Nat) (sh : α → Nat) (st : RunSt α β) (p : α × β) : RunSt α β :=
  let idx := sh p.1 % n
  if idx ≠ st.runShard ∧ !st.run.isEmpty then ⟨flush st, [p], idx⟩
  else ⟨st.shs, st.run ++ [p], idx⟩

def restoreAssignsRuns (n : Nat) (sh : α → Nat) (data : List (α × β)) : Shards α β :=
  let st := data.foldl (runStep n sh) ⟨empty, [], 0⟩
  if st.run.isEmpty then st.shs else flush st

/-! ### the code's assignment: first byte of the key -/

/-- `SHARD_COUNT` -/
def shardCount : Nat := 16

/-- `shard_index` before the `% SHARD_COUNT`: keys as byte strings -/
def firstByte : List Nat → Nat
  | [] => 0
  | b :: _ => b

/-- first byte of the storage key each model key family is formatted to (`format!` prefixes of
    relational_engine / graph_engine / vector_engine; raw plain keys: the family is `k / 100`, see
    `plainFamilies`) -/
def plainFamilies : List Nat :=
  -- "plain:" "user:" "order:" "Note:" "~tmp:" "Product:" "table:" "doc:" "item:" "/path:"
  [0x70, 0x75, 0x6F, 0x4E, 0x7E, 0x50, 0x74, 0x64, 0x69, 0x2F]

def keyFirstByte : Key → Nat
  | .tmeta _ | .hmeta _ | .hent _ _ | .bmeta _ | .bent _ _ | .gidx _ | .cache _ => 0x5F  -- '_'
  | .node _ | .nout _ | .nin _ => 0x6E                                                  -- 'n'
  | .edge _ | .emb _ => 0x65                                                            -- 'e'
  | .plain k => plainFamilies.getD (k / 100) 0x70

end Neumann.Ckpt.Shard

namespace Neumann.Ckpt.Store

/-- `SlabRouter::from_bytes` as far as the metadata slab goes: the image's metadata map is
    re-distributed over `n` shards by `sh` and read back through them (`scan("")` = every shard's
    entries, `get` = the key's own shard — `Shard.get`, which on the merged list is `alGet`, see
    `ShardProps.restore_scan_get_agree`) -/
def fromBytesSh (n : Nat) (sh : Key → Nat) (img : Store) : Store :=
  { img with md := Shard.entries n (Shard.restore n sh img.md) }

end Neumann.Ckpt.Store
