import NeumannModel.Ckpt.RetainLemmas
/-
  C08 — "retention keeps the newest checkpoints up to the configured count, and every retained
  checkpoint can be rolled back to" — for BOTH creation paths: `CheckpointManager::create`
  (`CHECKPOINT`) and `CheckpointManager::create_auto` (the auto-checkpoint the router takes in front
  of a destructive statement), counted over the FULL listing (`list(None)`).
  ONLY property statements and their non-vacuity examples; helpers are in `RetainLemmas.lean`.
-/
namespace Neumann.Ckpt.Props
open Neumann.Ckpt

/-- The retention bound is an invariant of the whole system.  A manager configured with `n`
    (`max_checkpoints` is a constructor argument: no statement changes it), then ANY statement
    sequence — data statements of every engine, manual checkpoints, AUTO-checkpoints, rollbacks (which
    re-install the record list of the image), manual deletes, in any interleaving, any timestamps
    (ties included), any listing orders: the full listing `list(None)` never shows more than `n`
    checkpoints, whatever its order, and it shows every live record. -/
theorem listing_never_exceeds_max (n : Nat) (ops : List Op) (o : List Nat)
    (hcfg : ∀ op ∈ ops, op.isSetmax = false) :
    let d := run {} (.setmax n :: ops)
    (qCkptsAll d o).length ≤ n ∧ (qCkptsAll d o).length = d.st.cps.length ∧ d.maxCk = n := by
  intro d
  have hi0 : DbInv (step {} (.setmax n)).1 := DbInv.init.step _
  have hi : DbInv d := hi0.run ops
  have hr : RInv d := (RInv.configured n).run hi0 ops hcfg
  have hm : d.maxCk = n := run_maxCk _ ops hcfg
  have hl : (qCkptsAll d o).length = d.st.cps.length := ckList_length o _ hi.cpsNodup
  exact ⟨by rw [hl, ← hm]; exact hr.live, hl, hm⟩

/-- non-vacuity: max 2, two manual checkpoints (the limit), then auto-checkpoints before a node
    delete and an embed delete, a rollback to a retained one, another auto-checkpoint: always 2 -/
example :
    let ops : List Op := [.kput 0 0 1 none, .ckpt 5 [] 1000, .gnode 1, .ckpt 6 [] 1001, .ackpt 9 [] 1061,
      .gdeln 1, .vput 0 [1, 2, 3], .ackpt 9 [] 1062, .vdel 0, .rollback 1062 [], .ackpt 11 [] 1061]
    let d := run {} (.setmax 2 :: ops)
    (∀ op ∈ ops, op.isSetmax = false) ∧ qCkptsAll d [] = [(4, 11), (2, 9)] ∧
      (run {} (.setmax 2 :: ops.take 5)).st.cps = [(1, 6), (2, 9)] := by decide

/-- retention as `create_auto` applies it: in ANY reachable database, for every timestamp, listing
    order, name and configured count, the checkpoints listed after an auto-checkpoint are
    `min max (listed before + 1)` of the ones listed before plus the new one — so AT the limit
    exactly one is evicted — and none of those dropped has a later timestamp than any of those kept -/
theorem auto_checkpoint_retention_keeps_newest (ops : List Op) (ts : Nat) (ord : List Nat) (nm : Nat) :
    let d := run {} ops
    let L := d.st.cps ++ [(d.nextCk, ts)]
    let d' := (step d (.ackpt ts ord nm)).1
    d'.st.cps.length = min d.maxCk L.length ∧ (∀ p ∈ d'.st.cps, p ∈ L) ∧
      ∀ q ∈ L, q ∉ d'.st.cps → ∀ k ∈ d'.st.cps, q.2 ≤ k.2 := by
  intro d L d'
  have hinv : DbInv d := DbInv.init.run ops
  have h := enforce_spec d.maxCk ord L (fresh_nodup hinv ts)
  exact ⟨h.1, fun p hp => enforce_subset _ _ _ p hp, h.2.2⟩

example :
    let ops : List Op := [.setmax 2, .ckpt 5 [] 1000, .ckpt 7 [] 1001, .gnode 1]
    let d' := (step (run {} ops) (.ackpt 8 [] 1061)).1
    (run {} ops).st.cps = [(0, 5), (1, 7)] ∧ d'.st.cps = [(1, 7), (2, 8)] := by decide

/-- the auto-checkpoint AT the retention limit (the state before the destructive statement is what
    the user will want back): in any reachable database that already lists `max ≥ 1` checkpoints,
    all older than the clock, the auto-checkpoint is listed afterwards, the count is still `max`,
    and it can be rolled back to by its id for every listing order -/
theorem auto_checkpoint_at_limit_is_retained (ops : List Op) (ts : Nat) (ord : List Nat) (nm : Nat) (o : List Nat) :
    let d := run {} ops
    let d' := (step d (.ackpt ts ord nm)).1
    d.st.cps.length = d.maxCk → 0 < d.maxCk → (∀ p ∈ d.st.cps, p.2 < ts) →
      (d.nextCk, ts) ∈ d'.st.cps ∧ d'.st.cps.length = d.maxCk ∧
        (∃ c, loadCk d' o d.nextCk = some c ∧ c.id = d.nextCk ∧ c.img = d.st) ∧
        (step d' (.rollback d.nextCk o)).2 = .ok := by
  intro d d' hfull hpos hold
  have hinv : DbInv d := DbInv.init.run ops
  have hinv' : DbInv d' := hinv.step _
  have hsp : d'.st.cps.length = min d.maxCk (d.st.cps ++ [(d.nextCk, ts)]).length ∧
      (∀ p ∈ d'.st.cps, p ∈ d.st.cps ++ [(d.nextCk, ts)]) ∧
      ∀ q ∈ d.st.cps ++ [(d.nextCk, ts)], q ∉ d'.st.cps → ∀ k ∈ d'.st.cps, q.2 ≤ k.2 :=
    auto_checkpoint_retention_keeps_newest ops ts ord nm
  have hlen : d'.st.cps.length = d.maxCk := by
    have := hsp.1
    simp only [List.length_append, List.length_singleton] at this
    omega
  have hmem : (d.nextCk, ts) ∈ d'.st.cps := by
    refine Classical.byContradiction fun hnot => ?_
    obtain ⟨k, hk⟩ : ∃ k, k ∈ d'.st.cps := by
      cases hc : d'.st.cps with
      | nil => rw [hc] at hlen; simp at hlen; omega
      | cons k _ => exact ⟨k, by simp⟩
    have hle := hsp.2.2 (d.nextCk, ts) (by simp) hnot k hk
    rcases List.mem_append.mp (hsp.2.1 k hk) with hk' | hk'
    · have := hold k hk'; simp only at hle; omega
    · simp only [List.mem_singleton] at hk'; subst hk'; exact hnot hk
  have hlive : alHas d'.st.cps d.nextCk = true :=
    (alHas_iff _ _).mpr (List.mem_map_of_mem (f := (·.1)) hmem)
  have hb : blobOf d' d.nextCk = some ⟨d.nextCk, ts, nm, d.st⟩ := blob_after d hinv ts ord nm []
  have hload : loadCk d' o d.nextCk = some ⟨d.nextCk, ts, nm, d.st⟩ := by
    simp only [loadCk, hinv'.resolve_id o _ hlive, hb]
  exact ⟨hmem, hlen, ⟨_, hload, rfl, rfl⟩, by simp only [step, doRollback, hload]⟩

/-- non-vacuity: max 2, both slots taken by older checkpoints, then the auto-checkpoint -/
example :
    let ops : List Op := [.setmax 2, .kput 0 0 1 none, .ckpt 5 [] 1000, .kput 0 0 2 none, .ckpt 7 [] 1001, .gnode 1]
    let d := run {} ops
    d.st.cps.length = d.maxCk ∧ 0 < d.maxCk ∧ (∀ p ∈ d.st.cps, p.2 < 8) ∧
      (step d (.ackpt 8 [] 1061)).1.st.cps = [(1, 7), (2, 8)] := by decide

/-- "make room first" (enforce BEFORE store, `doCkAutoRoomFirst`) is wrong in EVERY database at the
    limit, not just in one: `enforce` trims to `max`, so it removes nothing from a listing of `max`
    entries, and the store that follows leaves `max + 1` — nothing is evicted, the oldest checkpoint
    stays listed.  (With store-then-enforce the count is `max`:
    `auto_checkpoint_retention_keeps_newest`.) -/
theorem auto_room_first_overshoots_at_limit (d : Db) (ts : Nat) (ord : List Nat) (nm : Nat) :
    d.st.cps.length = d.maxCk →
      (doCkAutoRoomFirst d ts ord nm).1.st.cps = d.st.cps ++ [(d.nextCk, ts)] ∧
      (doCkAutoRoomFirst d ts ord nm).1.st.cps.length = d.maxCk + 1 := by
  intro hfull
  have he : enforce d.maxCk ord d.st.cps = d.st.cps := by
    unfold enforce; rw [if_pos (Nat.le_of_eq hfull)]
  have hc : (doCkAutoRoomFirst d ts ord nm).1.st.cps = d.st.cps ++ [(d.nextCk, ts)] := by
    show enforce d.maxCk ord d.st.cps ++ [(d.nextCk, ts)] = _
    rw [he]
  exact ⟨hc, by rw [hc, List.length_append, hfull]; rfl⟩

/-- the seeded reordering, concretely: max 2, two manual checkpoints, one auto-checkpoint.  The code
    (`doCkAuto`: store, then enforce) lists 2 and has evicted c0; enforce-then-store lists 3 — more
    than the configured count — and c0, which should be gone, can still be rolled back to; a second
    auto-checkpoint keeps it at 3, and the next MANUAL checkpoint evicts two at once and hides it -/
theorem auto_room_first_overshoots_witness :
    let d := run {} [.setmax 2, .kput 0 0 1 none, .ckpt 5 [] 1000, .kput 0 0 2 none, .ckpt 7 [] 1001, .gnode 1]
    let good := (doCkAuto d 8 [] 1061).1
    let bad := (doCkAutoRoomFirst d 8 [] 1061).1
    qCkptsAll good [] = [(2, 8), (1, 7)] ∧ qCkptsAll bad [] = [(2, 8), (1, 7), (0, 5)] ∧
      (qCkptsAll bad []).length > bad.maxCk ∧ (step bad (.rollback 0 [])).2 = .ok ∧
      (step good (.rollback 0 [])).2 = .err .notFound ∧
      (qCkptsAll (doCkAutoRoomFirst bad 9 [] 1061).1 []).length = 3 ∧
      (qCkptsAll (step bad (.ckpt 9 [] 1002)).1 []).length = 2 := by decide

end Neumann.Ckpt.Props
