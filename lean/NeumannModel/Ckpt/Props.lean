import NeumannModel.Ckpt.Lemmas
/-
  C08 — "rolling back to a checkpoint restores exactly the checkpointed database".
  ONLY property statements and their non-vacuity examples; helpers are in `Lemmas.lean`.
-/
namespace Neumann.Ckpt.Props
open Neumann.Ckpt

/- `RollbackExact` (the full statement, a named Prop) and the probe set `probes0` are defined at the
   end of `Lemmas.lean`: this file holds theorems and examples only. -/

/-- create table, insert, checkpoint, rollback ⇒ the table cannot be read any more -/
theorem rollback_loses_tables_witness : ¬ RollbackExact := by
  intro h
  have h' := (h probes0 [.rcreate 0, .rins 0 1 2] [] 100 []
    (step (run (step (run {} [.rcreate 0, .rins 0 1 2]) (.ckpt 100 [])).1 []) (.rollback 0)).1 (by decide)).1
  revert h'
  decide

/-- the table witness on the concrete run: scan answered rows at the checkpoint, a storage error after -/
example :
    let d0 := run {} [.rcreate 0, .rins 0 1 2]
    let d3 := run d0 [.ckpt 100 [], .rollback 0]
    qScan d0 0 = .ok [(1, 1, 2)] ∧ qScan d3 0 = .error .storage ∧ tables d3 = [0] := by decide

/-- graph: create a node, checkpoint, delete it, roll back ⇒ `all_nodes` shows it again but the
    engine's in-memory label index (not reset by the rollback) no longer finds it -/
theorem rollback_stale_label_index_witness :
    let d0 := run {} [.gnode 1]
    let d3 := run d0 [.ckpt 100 [], .gdeln 1, .rollback 0]
    qNodes d3 = qNodes d0 ∧ qByLabel d0 1 = [1] ∧ qByLabel d3 1 = [] := by decide

/-- vector: the HNSW cache built after the checkpoint survives the rollback and answers with a key
    that no longer exists -/
theorem rollback_stale_hnsw_witness :
    let d0 := run {} [.vput 0 [1, 0, 0]]
    let d3 := run d0 [.ckpt 100 [], .vput 1 [0, 1, 0], .vbuild, .rollback 0]
    qEmbs d3 = qEmbs d0 ∧ qSearch d0 [1, 1, 1] = [0] ∧ qSearch d3 [1, 1, 1] = [0, 1] := by decide

/-- the checkpoint records live in the store that is wiped: rolling back to c0 removes c0 itself and
    the newer c1, so neither can be rolled back to afterwards (no repeated cycles) -/
theorem rollback_wipes_checkpoint_records_witness :
    let d := run {} [.kput 0 0 1 none, .ckpt 100 [], .kput 0 0 2 none, .ckpt 101 []]
    let d' := (step d (.rollback 0)).1
    qCkpts d = [0, 1] ∧ (step d (.rollback 0)).2 = .ok ∧ qCkpts d' = [] ∧
      (step d' (.rollback 0)).2 = .err .notFound ∧ (step d' (.rollback 1)).2 = .err .notFound := by
  decide

/-- after the rollback a listed table rejects inserts (schema key restored, slab table gone) -/
theorem writes_fail_after_rollback_witness :
    let d3 := run {} [.rcreate 0, .rins 0 1 2, .ckpt 100 [], .rollback 0]
    tables d3 = [0] ∧ (step d3 (.rins 0 5 5)).2 = .err .storage := by decide

/-- What holds, for EVERY statement sequence before the checkpoint (unrestricted: it may contain
    checkpoints, rollbacks, retention, and raw `emb:` keys with `_embedding` fields, i.e. the
    embedding slab / entity index path) and EVERY sequence after it: if the rollback is accepted,
    the key-addressed slabs are exactly the checkpointed ones, so everything read through
    `scan`/`get` — graph nodes / edges / neighbours, embeddings, plain / cache / emb keys (with their
    `_embedding` vectors), table names — is exactly as at the checkpoint.
    The proof carries the store invariant `WF` (Lemmas.lean) through every statement; its clause
    `slabOk` is the embedding-slab invariant (a slab vector of an `emb:` key's entity is the vector
    its metadata value carries).
    Still missing w.r.t. `RollbackExact` (each is FALSE of the code, see the witnesses above): the
    relational slab (`rel = []`: all rows gone, so table scans / index-path queries differ), the
    engine-side label index and HNSW cache, and the checkpoint records themselves (`cps` is the
    checkpointed list, so the checkpoint rolled back to and every later one are unlisted). -/
theorem rollback_exact_partial (pre post : List Op) (ts : Nat) (ord : List Nat) (d3 : Db) :
    let d0 := run {} pre
    let d2 := run (step d0 (.ckpt ts ord)).1 post
    step d2 (.rollback d0.nextCk) = (d3, .ok) →
      d3.st.md = d0.st.md ∧ d3.st.cache = d0.st.cache ∧ d3.st.rel = [] ∧ kvObs d3 = kvObs d0 ∧
        d3.st.cps = d0.st.cps ∧ WF d3.st := by
  intro d0 d2 hstep
  have hinv : DbInv d0 := DbInv.init.run pre
  simp only [step, doRollback] at hstep
  cases hl : loadCk d2 d0.nextCk with
  | none =>
    rw [hl] at hstep
    exact absurd (congrArg Prod.snd hstep) (by simp)
  | some c =>
    rw [hl] at hstep
    have himg : c.img = d0.st := load_after d0 hinv ts ord post c hl
    have hd3 : d3 = { d2 with st := Store.restoreFrom c.img d2.st } :=
      (congrArg Prod.fst hstep).symm
    have hf := restoreFrom_fields (img := c.img) (by rw [himg]; exact hinv.wf) d2.st
    have hw := restoreFrom_wf c.img d2.st
    have hst : d3.st = Store.restoreFrom c.img d2.st := by rw [hd3]
    rw [himg] at hf hw hst
    have hv := WF.view_eq (hst ▸ hw) hinv.wf (by rw [hst]; exact hf.1) (by rw [hst]; exact hf.2.1)
    refine ⟨by rw [hst]; exact hf.1, by rw [hst]; exact hf.2.1, by rw [hst]; exact hf.2.2.1, ?_⟩
    exact ⟨kvObs_congr d3 d0 (by rw [hst]; exact hf.1) hv.1 hv.2.1 hv.2.2,
      by rw [hst]; exact hf.2.2.2, hst ▸ hw⟩

/-- non-vacuity: for a mixed sequence (tables, graph, vectors, raw keys with and without
    `_embedding`, an `_embedding` overwritten without one, an earlier checkpoint/rollback cycle)
    the rollback is accepted and the image is non-trivial, slab vectors included -/
example :
    let pre : List Op := [.rcreate 0, .rins 0 1 2, .gnode 1, .gnode 2, .gedge 1 2, .vput 0 [1, 2, 3],
      .kput 0 1 5 none, .kput 1 1 6 none, .kput 2 5 7 (some 3), .kput 2 6 8 (some 4), .ckpt 50 [],
      .gdeln 2, .kput 2 6 9 none, .kput 2 7 1 (some 2), .rollback 0, .gnode 0, .kput 2 8 2 (some (-1))]
    let post : List Op := [.gdeln 1, .vdel 0, .kput 2 5 1 (some 9), .kdel 2 6, .ckpt 70 [], .rdrop 0]
    let d0 := run {} pre
    (step (run (step d0 (.ckpt 60 [])).1 post) (.rollback d0.nextCk)).2 = .ok ∧
    (kvObs d0).nodes = [(1, 1), (2, 2), (3, 0)] ∧ (kvObs d0).embs = [(0, [1, 2, 3])] ∧
    (kvObs d0).raw = [(.emb 0, .vec [1, 2, 3]), (.plain 1, .raw (some 5) none), (.emb 5, .raw (some 7) (some 3)),
      (.emb 6, .raw (some 8) (some 4)), (.emb 8, .raw (some 2) (some (-1))),
      (.cache 1, .raw (some 6) none)] ∧
    d0.st.eslab = [(1, 3), (2, 4), (3, -1)] := by decide

/-- `usable_after_rollback`, the part that holds: when the checkpointed database held no table rows,
    the store after the rollback has the checkpointed metadata slab, cache, (empty) relational slab
    and checkpoint records, and satisfies the store invariant again — so `rollback_exact_partial`
    applies to every further checkpoint / rollback cycle started from it.  It differs from the
    checkpointed store only in entity ids (`eidx`/`enext` and the ids keying `eslab`), which no
    statement answers with.
    Missing: a proof that every further statement ANSWERS the same (a simulation up to entity ids),
    the engine-side state (id counters keep their post-checkpoint values — harmless, ids stay
    unique; label index / HNSW cache stale — witnesses above), and databases with tables
    (`writes_fail_after_rollback_witness`). -/
theorem usable_after_rollback_partial (pre post : List Op) (ts : Nat) (ord : List Nat) (d3 : Db) :
    let d0 := run {} pre
    let d2 := run (step d0 (.ckpt ts ord)).1 post
    step d2 (.rollback d0.nextCk) = (d3, .ok) → d0.st.rel = [] →
      d3.st.md = d0.st.md ∧ d3.st.cache = d0.st.cache ∧ d3.st.rel = d0.st.rel ∧
      d3.st.cps = d0.st.cps ∧ WF d3.st := by
  intro d0 d2 hstep hrel
  have h := rollback_exact_partial pre post ts ord d3 hstep
  exact ⟨h.1, h.2.1, by rw [h.2.2.1, hrel], h.2.2.2.2.1, h.2.2.2.2.2⟩

example :
    let pre : List Op := [.gnode 1, .vput 0 [1, 2, 3], .kput 1 1 6 none, .kput 2 4 1 (some 2)]
    let d0 := run {} pre
    d0.st.rel = [] ∧
    (step (run (step d0 (.ckpt 60 [])).1 [.gdeln 1]) (.rollback d0.nextCk)).2 = .ok := by decide

/-- retention, for EVERY listing `L` (any order among equal timestamps) and EVERY count: what
    `enforce` keeps (`take max` of the stable newest-first sort) has `min max |L|` elements, together
    with what it deletes it is exactly `L`, and nothing deleted is newer than anything kept -/
theorem retention_keeps_newest (max : Nat) (L : List (Nat × Nat)) :
    ((sortDesc L).take max).length = min max L.length ∧
    ((sortDesc L).take max ++ (sortDesc L).drop max).Perm L ∧
    ∀ k ∈ (sortDesc L).take max, ∀ x ∈ (sortDesc L).drop max, x.2 ≤ k.2 := by
  refine ⟨?_, ?_, ?_⟩
  · rw [List.length_take, (sortDesc_perm L).length_eq]
  · rw [List.take_append_drop]; exact sortDesc_perm L
  · have h := sortDesc_sorted L
    unfold DescSorted at h
    rw [← List.take_append_drop max (sortDesc L), List.pairwise_append] at h
    exact fun k hk x hx => h.2.2 k hk x hx

/-- with tied timestamps the listing order decides: a by_tag order listing the older c0 first makes
    retention delete the checkpoint that was just created -/
theorem retention_tie_drops_newest_witness :
    enforce 1 [0, 1] [(0, 5), (1, 5)] = [(0, 5)] ∧ enforce 1 [1, 0] [(0, 5), (1, 5)] = [(1, 5)] := by
  decide

example : retainIds 2 [] [(0, 5), (1, 7), (2, 6), (3, 7)] = [1, 3] := by decide

/-- every checkpoint id that is listed after ANY statement sequence (unrestricted: retention at any
    count and any tie order, rollbacks, `_embedding` writes, …) can be loaded — its blob is in the
    archive — and `ROLLBACK` to it is accepted -/
theorem retained_are_restorable (ops : List Op) (i : Nat) :
    alHas (run {} ops).st.cps i = true →
    (∃ c, loadCk (run {} ops) i = some c ∧ c.id = i) ∧ (step (run {} ops) (.rollback i)).2 = .ok := by
  intro hl
  have hinv : DbInv (run {} ops) := DbInv.init.run ops
  have hlt : i < (run {} ops).nextCk := hinv.cpsLt i hl
  have hload : ∃ c, loadCk (run {} ops) i = some c ∧ c.id = i := by
    unfold loadCk
    rw [if_pos hl]
    have hm : i ∈ (run {} ops).arch.map (·.id) := by rw [hinv.ids]; exact List.mem_range.mpr hlt
    obtain ⟨c, hc, hci⟩ := List.mem_map.mp hm
    cases hf : (run {} ops).arch.find? (fun x => decide (x.id = i)) with
    | none =>
      rw [List.find?_eq_none] at hf
      exact absurd (by simpa using hci) (hf c hc)
    | some c' => exact ⟨c', rfl, by simpa using List.find?_some hf⟩
  refine ⟨hload, ?_⟩
  obtain ⟨c, hc, _⟩ := hload
  simp only [step, doRollback, hc]

/-- non-vacuity: retention at max 2 over four checkpoints (with a tie), an `_embedding` write and a
    rollback in between; the two listed ids satisfy the hypothesis -/
example :
    let ops : List Op := [.setmax 2, .kput 2 1 1 (some 4), .ckpt 5 [], .ckpt 7 [], .gnode 0, .ckpt 7 [1],
      .rollback 2, .ckpt 9 []]
    qCkpts (run {} ops) = [1, 3] ∧ alHas (run {} ops).st.cps 3 = true := by decide

end Neumann.Ckpt.Props
