import NeumannModel.Ckpt.Lemmas
import NeumannModel.Ckpt.Sim
/-
  C08 — "rolling back to a checkpoint restores exactly the checkpointed database".
  ONLY property statements and their non-vacuity examples; helpers are in `Lemmas.lean`.
-/
namespace Neumann.Ckpt.Props
open Neumann.Ckpt

/- `RollbackExact` (the full statement, a named Prop) and the probe set `probes0` are defined at the
   end of `Lemmas.lean`: this file holds theorems and examples only. -/

/-- create table, insert, checkpoint, rollback ⇒ the table cannot be read any more -/
theorem rollback_loses_tables_witness : ¬ RollbackExact := by
  intro h
  have h' := (h probes0 [.rcreate 0, .rins 0 1 2] [] 100 [] 1000 0 []
    (step (run (step (run {} [.rcreate 0, .rins 0 1 2]) (.ckpt 100 [] 1000)).1 []) (.rollback 0 [])).1
    (by decide) (by decide)).1
  revert h'
  decide

/-- the table witness on the concrete run: scan answered rows at the checkpoint, a storage error after -/
example :
    let d0 := run {} [.rcreate 0, .rins 0 1 2]
    let d3 := run d0 [.ckpt 100 [] 1000, .rollback 0 []]
    qScan d0 0 = .ok [(1, 1, 2)] ∧ qScan d3 0 = .error .storage ∧ tables d3 = [0] := by decide

/-- graph: create a node, checkpoint, delete it, roll back ⇒ `all_nodes` shows it again but the
    engine's in-memory label index (not reset by the rollback) no longer finds it -/
theorem rollback_stale_label_index_witness :
    let d0 := run {} [.gnode 1]
    let d3 := run d0 [.ckpt 100 [] 1000, .gdeln 1, .rollback 0 []]
    qNodes d3 = qNodes d0 ∧ qByLabel d0 1 = [1] ∧ qByLabel d3 1 = [] := by decide

/-- vector: the HNSW cache built after the checkpoint survives the rollback and answers with a key
    that no longer exists -/
theorem rollback_stale_hnsw_witness :
    let d0 := run {} [.vput 0 [1, 0, 0]]
    let d3 := run d0 [.ckpt 100 [] 1000, .vput 1 [0, 1, 0], .vbuild, .rollback 0 []]
    qEmbs d3 = qEmbs d0 ∧ qSearch d0 [1, 1, 1] = [0] ∧ qSearch d3 [1, 1, 1] = [0, 1] := by decide

/-- the checkpoint records live in the store that is wiped: rolling back to c0 removes c0 itself and
    the newer c1, so neither can be rolled back to afterwards (no repeated cycles) -/
theorem rollback_wipes_checkpoint_records_witness :
    let d := run {} [.kput 0 0 1 none, .ckpt 100 [] 1000, .kput 0 0 2 none, .ckpt 101 [] 1001]
    let d' := (step d (.rollback 0 [])).1
    qCkpts d = [0, 1] ∧ (step d (.rollback 0 [])).2 = .ok ∧ qCkpts d' = [] ∧
      (step d' (.rollback 0 [])).2 = .err .notFound ∧ (step d' (.rollback 1 [])).2 = .err .notFound := by
  decide

/-- after the rollback a listed table rejects inserts (schema key restored, slab table gone) -/
theorem writes_fail_after_rollback_witness :
    let d3 := run {} [.rcreate 0, .rins 0 1 2, .ckpt 100 [] 1000, .rollback 0 []]
    tables d3 = [0] ∧ (step d3 (.rins 0 5 5)).2 = .err .storage := by decide

/-- What holds, for EVERY statement sequence before the checkpoint (unrestricted: it may contain
    checkpoints, rollbacks, retention, and raw `emb:` keys with `_embedding` fields, i.e. the
    embedding slab / entity index path) and EVERY sequence after it: if the rollback is accepted,
    the key-addressed slabs are exactly the checkpointed ones, so everything read through
    `scan`/`get` — graph nodes / edges / neighbours, embeddings, plain / cache / emb keys (with their
    `_embedding` vectors), table names — is exactly as at the checkpoint.
    The proof carries the store invariant `WF` (Lemmas.lean) through every statement; its clause
    `slabOk` is the embedding-slab invariant (a slab vector of an `emb:` key's entity is the vector
    its metadata value carries).
    Still missing w.r.t. `RollbackExact` (each is FALSE of the code, see the witnesses above): the
    relational slab (`rel = []`: all rows gone, so table scans / index-path queries differ), the
    engine-side label index and HNSW cache, and the checkpoint records themselves (`cps` is the
    checkpointed list, so the checkpoint rolled back to and every later one are unlisted). -/
theorem rollback_exact_partial (pre post : List Op) (ts : Nat) (ord : List Nat) (nm x : Nat)
    (o : List Nat) (d3 : Db) :
    let d0 := run {} pre
    let d2 := run (step d0 (.ckpt ts ord nm)).1 post
    resolve d2 o x = some d0.nextCk → step d2 (.rollback x o) = (d3, .ok) →
      d3.st.md = d0.st.md ∧ d3.st.cache = d0.st.cache ∧ d3.st.rel = [] ∧ kvObs d3 = kvObs d0 ∧
        d3.st.cps = d0.st.cps ∧ WF d3.st := by
  intro d0 d2 hr hstep
  have hinv : DbInv d0 := DbInv.init.run pre
  have h := rollback_core d0 d2 hinv.wf x o d3
    (fun c hl => load_after d0 hinv ts ord nm post o x c hr hl) hstep
  exact ⟨h.1, h.2.1, h.2.2.1, h.2.2.2.1, h.2.2.2.2.1, h.2.2.2.2.2.1⟩

/-- non-vacuity: for a mixed sequence (tables, graph, vectors, raw keys with and without
    `_embedding`, an `_embedding` overwritten without one, an earlier checkpoint/rollback cycle)
    the rollback is accepted and the image is non-trivial, slab vectors included -/
example :
    let pre : List Op := [.rcreate 0, .rins 0 1 2, .gnode 1, .gnode 2, .gedge 1 2, .vput 0 [1, 2, 3],
      .kput 0 1 5 none, .kput 1 1 6 none, .kput 2 5 7 (some 3), .kput 2 6 8 (some 4), .ckpt 50 [] 1000,
      .gdeln 2, .kput 2 6 9 none, .kput 2 7 1 (some 2), .rollback 0 [], .gnode 0, .kput 2 8 2 (some (-1))]
    let post : List Op := [.gdeln 1, .vdel 0, .kput 2 5 1 (some 9), .kdel 2 6, .ckpt 70 [] 1002, .rdrop 0]
    let d0 := run {} pre
    let d2 := run (step d0 (.ckpt 60 [] 1005)).1 post
    resolve d2 [] d0.nextCk = some d0.nextCk ∧ resolve d2 [] 1005 = some d0.nextCk ∧
    (step d2 (.rollback d0.nextCk [])).2 = .ok ∧ (step d2 (.rollback 1005 [])).2 = .ok ∧
    (kvObs d0).nodes = [(1, 1), (2, 2), (3, 0)] ∧ (kvObs d0).embs = [(0, [1, 2, 3])] ∧
    (kvObs d0).raw = [(.emb 0, .vec [1, 2, 3]), (.plain 1, .raw (some 5) none), (.emb 5, .raw (some 7) (some 3)),
      (.emb 6, .raw (some 8) (some 4)), (.emb 8, .raw (some 2) (some (-1))),
      (.cache 1, .raw (some 6) none)] ∧
    d0.st.eslab = [(1, 3), (2, 4), (3, -1)] := by decide

/-- `usable_after_rollback`, the part that holds — "the database remains fully usable for further
    writes, and further checkpoint / rollback cycles behave": when the checkpointed database held no
    table rows, then for EVERY further statement sequence `more` (data statements of all three
    engines, raw keys, further checkpoints, rollbacks, deletes, retention) the database after the
    rollback ANSWERS every statement exactly like `dref`, the database whose store is literally the
    checkpointed store `d0.st` (with the engine-side state and the blob archive as they are at
    rollback time), and after `more` every observation (table scans and index-path queries, graph,
    embeddings, searches, raw keys, the checkpoint listing) is the same.  The restored store differs
    from the checkpointed one only in entity ids / slab slots; the proof is a simulation
    (`Sim.lean`: `StoreSim` — equal metadata slab, cache, relational slab, checkpoint records, both
    satisfying the store invariant — is preserved by every statement with equal answers), i.e.
    entity ids are unobservable, now a theorem instead of an assumption.
    Still missing w.r.t. the full statement (each is FALSE of the code, see the witnesses above):
    databases with tables (`writes_fail_after_rollback_witness`), and the engine-side state being
    the checkpoint-time one (`dref` keeps the rollback-time label index / HNSW cache / id counters). -/
theorem usable_after_rollback_partial (pre post more : List Op) (ts : Nat) (ord : List Nat) (nm x : Nat)
    (o : List Nat) (d3 : Db) (p : Probes) :
    let d0 := run {} pre
    let d2 := run (step d0 (.ckpt ts ord nm)).1 post
    let dref : Db := { d2 with st := d0.st }
    resolve d2 o x = some d0.nextCk → step d2 (.rollback x o) = (d3, .ok) → d0.st.rel = [] →
      runRes d3 more = runRes dref more ∧ obs p (run d3 more) = obs p (run dref more) ∧
      qCkpts (run d3 more) = qCkpts (run dref more) ∧ WF d3.st := by
  intro d0 d2 dref hr hstep hrel
  have hinv0 : DbInv d0 := DbInv.init.run pre
  have hinv2 : DbInv d2 := (hinv0.step _).run post
  have h := rollback_core d0 d2 hinv0.wf x o d3
    (fun c hl => load_after d0 hinv0 ts ord nm post o x c hr hl) hstep
  have hsim : DbSim d3 dref := by
    rw [h.2.2.2.2.2.2]
    exact ⟨restore_sim hinv0.wf hrel d2.st, rfl, ArchSim.refl _ hinv2.arch, rfl, rfl⟩
  have h1 := sim_run d3 dref hsim more
  have h2 := sim_obs _ _ h1.2 p
  exact ⟨h1.1, h2.1, h2.2, h.2.2.2.2.2.1⟩

example :
    let pre : List Op := [.kput 2 9 1 (some 1), .gnode 1, .vput 0 [1, 2, 3], .kput 1 1 6 none, .kdel 2 9,
      .kput 2 4 1 (some 2)]
    let d0 := run {} pre
    let d2 := run (step d0 (.ckpt 60 [] 1005)).1 [.gdeln 1]
    let d3 := (step d2 (.rollback d0.nextCk [])).1
    let more : List Op := [.gnode 2, .kput 2 4 9 (some 1), .kput 2 5 1 (some 5), .ckpt 70 [] 1006, .vdel 0,
      .rollback 1006 [], .gedge 1 2]
    d0.st.rel = [] ∧ resolve d2 [] d0.nextCk = some d0.nextCk ∧
    (step d2 (.rollback d0.nextCk [])).2 = .ok ∧
    -- the restored store is NOT the checkpointed one (entity ids differ), yet answers alike
    d3.st ≠ d0.st ∧ d3.st.enext ≠ d0.st.enext ∧
    runRes d3 more = [.id 2, .ok, .ok, .id 1, .ok, .ok, .id 1] := by decide

/-- retention, for EVERY listing `L` (any order among equal timestamps) and EVERY count: what
    `enforce` keeps (`take max` of the stable newest-first sort) has `min max |L|` elements, together
    with what it deletes it is exactly `L`, and nothing deleted is newer than anything kept -/
theorem retention_keeps_newest (max : Nat) (L : List (Nat × Nat)) :
    ((sortDesc L).take max).length = min max L.length ∧
    ((sortDesc L).take max ++ (sortDesc L).drop max).Perm L ∧
    ∀ k ∈ (sortDesc L).take max, ∀ x ∈ (sortDesc L).drop max, x.2 ≤ k.2 := by
  refine ⟨?_, ?_, ?_⟩
  · rw [List.length_take, (sortDesc_perm L).length_eq]
  · rw [List.take_append_drop]; exact sortDesc_perm L
  · have h := sortDesc_sorted L
    unfold DescSorted at h
    rw [← List.take_append_drop max (sortDesc L), List.pairwise_append] at h
    exact fun k hk x hx => h.2.2 k hk x hx

/-- retention as the CHECKPOINT statement applies it: after ANY statement sequence, for every
    timestamp, listing order, name and configured count, the checkpoints listed after a `CHECKPOINT`
    are `min max (listed before + 1)` of the ones listed before plus the new one, and none of those
    dropped has a later timestamp than any of those kept (with equal timestamps the listing order
    decides — `retention_tie_drops_newest_witness`) -/
theorem checkpoint_retention_keeps_newest (ops : List Op) (ts : Nat) (ord : List Nat) (nm : Nat) :
    let d := run {} ops
    let L := d.st.cps ++ [(d.nextCk, ts)]
    let d' := (step d (.ckpt ts ord nm)).1
    d'.st.cps.length = min d.maxCk L.length ∧ (∀ p ∈ d'.st.cps, p ∈ L) ∧
      ∀ q ∈ L, q ∉ d'.st.cps → ∀ k ∈ d'.st.cps, q.2 ≤ k.2 := by
  intro d L d'
  have hinv : DbInv d := DbInv.init.run ops
  have hnd : (L.map (·.1)).Nodup := by
    show ((d.st.cps ++ [(d.nextCk, ts)]).map (·.1)).Nodup
    rw [List.map_append]
    refine List.nodup_append.mpr ⟨hinv.cpsNodup, by simp, ?_⟩
    intro a ha b hb
    simp only [List.map_cons, List.map_nil, List.mem_singleton] at hb
    subst hb
    intro e; subst e
    have := hinv.cpsLt _ ((alHas_iff _ _).mpr ha); omega
  have h := enforce_spec d.maxCk ord L hnd
  exact ⟨h.1, fun p hp => enforce_subset _ _ _ p hp, h.2.2⟩

example :
    let ops : List Op := [.setmax 2, .ckpt 5 [] 1000, .ckpt 7 [] 1001, .kput 0 0 1 none]
    let d' := (step (run {} ops) (.ckpt 6 [] 1002)).1
    (run {} ops).st.cps = [(0, 5), (1, 7)] ∧ d'.st.cps = [(1, 7), (2, 6)] := by decide

/-- with tied timestamps the listing order decides: a by_tag order listing the older c0 first makes
    retention delete the checkpoint that was just created -/
theorem retention_tie_drops_newest_witness :
    enforce 1 [0, 1] [(0, 5), (1, 5)] = [(0, 5)] ∧ enforce 1 [1, 0] [(0, 5), (1, 5)] = [(1, 5)] := by
  decide

example : retainIds 2 [] [(0, 5), (1, 7), (2, 6), (3, 7)] = [1, 3] := by decide

/-- every checkpoint id that is listed after ANY statement sequence (unrestricted: retention at any
    count and any tie order, rollbacks, manual deletes, duplicate names, names that are the id
    string of another checkpoint, `_embedding` writes, …) has its blob in the archive, and
    `ROLLBACK TO <that id>` is accepted whatever the listing order and loads THAT VERY checkpoint.
    (Before /repo fff752bd this needed the proviso "no listed checkpoint is named with the id
    string": `rollback_id_shadowed_by_name_witness`.) -/
theorem retained_are_restorable (ops : List Op) (i : Nat) (o : List Nat) :
    alHas (run {} ops).st.cps i = true →
    ∃ c, blobOf (run {} ops) i = some c ∧ c.id = i ∧ loadCk (run {} ops) o i = some c ∧
      (step (run {} ops) (.rollback i o)).2 = .ok := by
  intro hl
  have hinv : DbInv (run {} ops) := DbInv.init.run ops
  obtain ⟨c, hc, hci⟩ := hinv.blobOf_some i (hinv.cpsLt i hl)
  have hload : loadCk (run {} ops) o i = some c := by
    simp only [loadCk, hinv.resolve_id o i hl, hc]
  exact ⟨c, hc, hci, hload, by simp only [step, doRollback, hload]⟩

/-- non-vacuity: retention at max 2 over four checkpoints (with a tie), an `_embedding` write and a
    rollback in between, the newest checkpoint NAMED with the id string of the other listed one:
    the two listed ids satisfy the hypothesis and each loads itself -/
example :
    let ops : List Op := [.setmax 2, .kput 2 1 1 (some 4), .ckpt 5 [] 1000, .ckpt 7 [] 1001, .gnode 0, .ckpt 7 [1] 1002,
      .rollback 2 [], .ckpt 9 [] 1]
    qCkpts (run {} ops) = [1, 3] ∧ alHas (run {} ops).st.cps 3 = true ∧
      nameOf (run {} ops) 1 = some 1001 ∧ nameOf (run {} ops) 3 = some 1 ∧
      (loadCk (run {} ops) [] 1).map (·.id) = some 1 ∧ (loadCk (run {} ops) [] 3).map (·.id) = some 3 := by
  decide

/-- the statement the repair fff752bd makes true, for EVERY reachable database, EVERY listed id and
    EVERY listing order: a listed checkpoint's id resolves to that checkpoint — no choice of names
    can make a retained checkpoint unreachable -/
theorem listed_id_resolves_to_itself (ops : List Op) (i : Nat) (o : List Nat) :
    alHas (run {} ops).st.cps i = true → resolve (run {} ops) o i = some i :=
  fun hl => (DbInv.init.run ops).resolve_id o i hl

example :
    let d := run {} [.kput 0 0 1 none, .ckpt 5 [] 1000, .kput 0 0 2 none, .ckpt 6 [] 0, .ckpt 6 [] 0]
    alHas d.st.cps 0 = true ∧ nameOf d 1 = some 0 ∧ nameOf d 2 = some 0 ∧
      resolve d [] 0 = some 0 ∧ resolve d [2, 1] 0 = some 0 := by decide

/-- `ROLLBACK TO x` (and, since 14af22de, `CheckpointManager::delete(x)`:
    `ckdel_removes_exactly_the_target`) — which checkpoint is acted on, after ANY
    statement sequence, for EVERY target string and EVERY listing order: the checkpoint loaded is
    listed; if `x` is the id of a listed checkpoint it is THAT checkpoint; otherwise its name is `x`
    and no listed checkpoint named `x` has a later timestamp -/
theorem rollback_target_is_newest_match (ops : List Op) (x : Nat) (o : List Nat) (c : Ckpt) :
    loadCk (run {} ops) o x = some c →
      alHas (run {} ops).st.cps c.id = true ∧
      (alHas (run {} ops).st.cps x = true → c.id = x) ∧
      (alHas (run {} ops).st.cps x = false → c.name = x ∧
        ∀ j c', alHas (run {} ops).st.cps j = true → blobOf (run {} ops) j = some c' →
          c'.name = x → c'.ts ≤ c.ts) := by
  intro hl
  have hinv : DbInv (run {} ops) := DbInv.init.run ops
  have hr := (loadCk_mem _ o x c hl).2
  have hb : blobOf (run {} ops) c.id = some c := by
    unfold loadCk at hl; rw [hr] at hl; exact hl
  have hlive := resolve_live _ o x c.id hr
  refine ⟨hlive, ?_, ?_⟩
  · intro hx
    have := hinv.resolve_id o x hx
    rw [hr] at this
    exact Option.some.inj this
  · intro hx
    obtain ⟨ts, hm, hcase⟩ := resolve_some _ o x c.id hr
    have hts : ts = c.ts := (hinv.cpsTs _ hm c (blobOf_mem _ _ c hb).1 rfl).symm
    rcases hcase with hid | ⟨_, hname, hnew⟩
    · rw [hid] at hlive; rw [hlive] at hx; cases hx
    · refine ⟨?_, ?_⟩
      · unfold nameOf at hname; rw [hb] at hname
        simpa using hname
      · intro j c' hj hb' hn
        have hmem := hinv.live_mem j hj c' hb'
        have := hnew (j, c'.ts) (mem_ckList o _ hinv.cpsNodup _ hmem)
          (by unfold nameOf; rw [hb']; simp only [Option.map_some, hn])
        simp only at this
        omega

/-- non-vacuity and the consequence for duplicate names: two listed checkpoints named alike —
    the name reaches the newer one only; the older one is still reachable through its id -/
theorem rollback_name_picks_newest_witness :
    let d := run {} [.kput 0 0 1 none, .ckpt 5 [] 1007, .kput 0 0 2 none, .ckpt 6 [] 1007, .kput 0 0 3 none]
    (loadCk d [] 1007).map (·.id) = some 1 ∧ (loadCk d [0, 1] 1007).map (·.id) = some 1 ∧
    (loadCk d [] 0).map (·.id) = some 0 ∧
    qRaw (step d (.rollback 1007 [])).1 = [(.plain 0, .raw (some 2) none)] ∧
    qRaw (step d (.rollback 0 [])).1 = [(.plain 0, .raw (some 1) none)] := by decide

/-- what was wrong before /repo fff752bd (`resolveOld` / `loadCkOld` / `doRollbackOld`: ONE pass,
    the first listing entry whose id OR name is the target): a checkpoint whose NAME is the id
    string of an older listed checkpoint shadowed it — `ROLLBACK TO <id of c0>` was accepted and
    restored the OTHER checkpoint, so c0, although retained and listed, could not be rolled back
    to.  With the present two-pass resolution the same statements load and restore c0. -/
theorem rollback_id_shadowed_by_name_witness :
    let d := run {} [.kput 0 0 1 none, .ckpt 5 [] 1000, .kput 0 0 2 none, .ckpt 6 [] 0, .kput 0 0 3 none]
    qCkpts d = [0, 1] ∧
    -- before the repair
    resolveOld d [] 0 = some 1 ∧ (loadCkOld d [] 0).map (·.id) = some 1 ∧ (doRollbackOld d 0 []).2 = .ok ∧
    qRaw (doRollbackOld d 0 []).1 = [(.plain 0, .raw (some 2) none)] ∧
    -- the code as it is
    resolve d [] 0 = some 0 ∧ (loadCk d [] 0).map (·.id) = some 0 ∧ (step d (.rollback 0 [])).2 = .ok ∧
    qRaw (step d (.rollback 0 [])).1 = [(.plain 0, .raw (some 1) none)] := by decide

/-- the repair is narrow: for EVERY database, order and target the old and the present resolution
    agree unless the target string is both the id of a listed checkpoint and the name of a listed
    checkpoint -/
theorem resolution_changed_only_when_shadowed (ops : List Op) (x : Nat) (o : List Nat) :
    (alHas (run {} ops).st.cps x = false ∨
      ∀ j, alHas (run {} ops).st.cps j = true → nameOf (run {} ops) j ≠ some x) →
    resolveOld (run {} ops) o x = resolve (run {} ops) o x := by
  intro h
  apply resolveOld_eq
  rcases h with h | h
  · left
    intro b hb e
    have hm := ckList_mem o _ b hb
    have : alHas (run {} ops).st.cps x = true := by
      rw [← e]; exact (alHas_iff _ _).mpr (List.mem_map_of_mem hm)
    rw [h] at this; cases this
  · right
    intro b hb
    exact h b.1 ((alHas_iff _ _).mpr (List.mem_map_of_mem (ckList_mem o _ b hb)))

example :
    let d := run {} [.ckpt 5 [] 1007, .ckpt 6 [] 1007, .ckpt 7 [] 1001]
    alHas d.st.cps 1007 = false ∧ resolveOld d [] 1007 = some 1 ∧ resolve d [] 1007 = some 1 ∧
      resolveOld d [] 2 = some 2 := by decide

/-- rollback by id, exact part: `ROLLBACK TO <id>` of the checkpoint taken at `d0` restores it
    whenever it is still listed — for every `pre`, `post`, order, and whatever the names of the
    other checkpoints (the proviso "no listed checkpoint is named with that id string" is gone with
    fff752bd).  `_partial` only for what `rollback_exact_partial` lacks. -/
theorem rollback_by_id_exact_partial (pre post : List Op) (ts : Nat) (ord : List Nat) (nm : Nat)
    (o : List Nat) (d3 : Db) :
    let d0 := run {} pre
    let d2 := run (step d0 (.ckpt ts ord nm)).1 post
    alHas d2.st.cps d0.nextCk = true →
    step d2 (.rollback d0.nextCk o) = (d3, .ok) →
      d3.st.md = d0.st.md ∧ d3.st.cache = d0.st.cache ∧ d3.st.rel = [] ∧ kvObs d3 = kvObs d0 ∧
        d3.st.cps = d0.st.cps ∧ WF d3.st := by
  intro d0 d2 hl hstep
  have hinv0 : DbInv d0 := DbInv.init.run pre
  have hinv2 : DbInv d2 := (hinv0.step _).run post
  exact rollback_exact_partial pre post ts ord nm d0.nextCk o d3 (hinv2.resolve_id o _ hl) hstep

/-- non-vacuity: the checkpoint is shadowed by TWO newer ones named with its id string and still
    restored by its id; once it is unlisted the same target reaches a checkpoint of that NAME -/
example :
    let pre : List Op := [.kput 0 0 1 none]
    let post : List Op := [.kput 0 0 2 none, .ckpt 6 [] 0, .kput 0 0 3 none, .ckpt 7 [] 0]
    let d0 := run {} pre
    let d2 := run (step d0 (.ckpt 5 [] 1000)).1 post
    d0.nextCk = 0 ∧ alHas d2.st.cps 0 = true ∧ (step d2 (.rollback 0 [])).2 = .ok ∧
    qRaw (step d2 (.rollback 0 [])).1 = [(.plain 0, .raw (some 1) none)] ∧
    (loadCk (step d2 (.ckdel 1000 [])).1 [] 0).map (·.id) = some 2 := by decide

/-- rollback by name, exact part: `ROLLBACK TO <name>` restores the checkpoint taken at `d0` under
    that name whenever it is still listed, no OTHER listed checkpoint has that string as its id
    (an id match wins over every name match), and every other listed checkpoint of that name is
    strictly older — whatever the listing order -/
theorem rollback_by_name_exact_partial (pre post : List Op) (ts : Nat) (ord : List Nat) (nm : Nat)
    (o : List Nat) (d3 : Db) :
    let d0 := run {} pre
    let d2 := run (step d0 (.ckpt ts ord nm)).1 post
    alHas d2.st.cps d0.nextCk = true →
    (∀ j c', alHas d2.st.cps j = true → blobOf d2 j = some c' → j ≠ d0.nextCk →
      j ≠ nm ∧ (c'.name = nm → c'.ts < ts)) →
    step d2 (.rollback nm o) = (d3, .ok) →
      d3.st.md = d0.st.md ∧ d3.st.cache = d0.st.cache ∧ d3.st.rel = [] ∧ kvObs d3 = kvObs d0 ∧
        d3.st.cps = d0.st.cps ∧ WF d3.st := by
  intro d0 d2 hlive hnew hstep
  have hinv0 : DbInv d0 := DbInv.init.run pre
  have hinv2 : DbInv d2 := (hinv0.step _).run post
  have hb := blob_after d0 hinv0 ts ord nm post
  have hmem := hinv2.live_mem d0.nextCk hlive _ hb
  have hr : resolve d2 o nm = some d0.nextCk := by
    apply resolve_eq_of_newest d2 o nm d0.nextCk ts hinv2.cpsNodup hmem
    · right; unfold nameOf; rw [hb]; rfl
    · intro b hbm hbx
      have hbl : alHas d2.st.cps b.1 = true := (alHas_iff _ _).mpr (List.mem_map_of_mem hbm)
      obtain ⟨c', hc', _⟩ := hinv2.blobOf_some b.1 (hinv2.cpsLt b.1 hbl)
      cases Nat.decEq b.1 d0.nextCk with
      | isTrue e => exact e
      | isFalse hne => exact absurd hbx (hnew b.1 c' hbl hc' hne).1
    · intro b hbm hname hne
      have hbl : alHas d2.st.cps b.1 = true := (alHas_iff _ _).mpr (List.mem_map_of_mem hbm)
      obtain ⟨c', hc', hci⟩ := hinv2.blobOf_some b.1 (hinv2.cpsLt b.1 hbl)
      have hts := hinv2.cpsTs b hbm c' (blobOf_mem d2 b.1 c' hc').1 hci
      have hcn : c'.name = nm := by
        unfold nameOf at hname; rw [hc'] at hname; simpa using hname
      have := (hnew b.1 c' hbl hc' hne).2 hcn
      omega
  exact rollback_exact_partial pre post ts ord nm nm o d3 hr hstep

example :
    let pre : List Op := [.kput 0 0 1 none, .ckpt 5 [] 1007, .gnode 1]
    let post : List Op := [.gdeln 1, .ckpt 9 [] 1001]
    let d0 := run {} pre
    let d2 := run (step d0 (.ckpt 8 [] 1007)).1 post
    d0.nextCk = 1 ∧ alHas d2.st.cps 1 = true ∧ (step d2 (.rollback 1007 [])).2 = .ok ∧
    (step d2 (.rollback 1 [])).2 = .ok ∧ qCkpts d2 = [0, 1, 2] := by decide

/-- known finding tensor_store.restore_from_bytes/dense_embedding_perturbed, its mechanism: the
    snapshot carries the embedding-slab copy of a vector through the per-vector codec
    (`Store.snapshotWith cz`) while the metadata slab of the very same image keeps the `_embedding`
    field exactly; `restore` re-puts what `get` answers on the image, and `get` prefers the slab
    copy.  With a codec that does not return the vector exactly (here: rounding down to a multiple
    of 4, standing for tensor-train compression of a dense non-constant 384-dim vector) the value
    written before the checkpoint (`_embedding` 7) comes back as the codec's (4), although the image
    holds the exact one. -/
theorem dense_embedding_perturbed_witness :
    let s := Store.empty.put (.emb 5) (.raw (some 1) (some 7))
    let img := s.snapshotWith fun e => e - e % 4
    s.get (.emb 5) = some (.raw (some 1) (some 7)) ∧
    alGet img.md (.emb 5) = some (.raw (some 1) (some 7)) ∧
    (Store.restoreFrom img (s.del (.emb 5))).get (.emb 5) = some (.raw (some 1) (some 4)) ∧
    (Store.restoreFrom s.snapshot (s.del (.emb 5))).get (.emb 5) = some (.raw (some 1) (some 7)) := by
  decide

/-- … and the exact scope of the model's `snapshot` (= the identity codec): for EVERY store and
    EVERY codec that returns each vector stored in the embedding slab exactly, the image is the one
    the model uses, so every theorem above speaks about it.  The model's vectors (integers,
    constant `_embedding`s) are such vectors for the real codec (checked by the correspondence
    run); dense non-constant ones of dimension ≥ 256 are not (the directed harness case). -/
theorem snapshot_codec_exact_on_stored_vectors (cz : Int → Int) (s : Store) :
    (∀ p ∈ s.eslab, cz p.2 = p.2) → s.snapshotWith cz = s.snapshot := by
  intro h
  unfold Store.snapshotWith Store.snapshot
  have : s.eslab.map (fun p => (p.1, cz p.2)) = s.eslab := by
    have hm : ∀ l : List (Nat × Int), (∀ p ∈ l, cz p.2 = p.2) → l.map (fun p => (p.1, cz p.2)) = l := by
      intro l
      induction l with
      | nil => intro _; rfl
      | cons y ys ih =>
        intro hl
        rw [List.map_cons, hl y List.mem_cons_self, ih fun p hp => hl p (List.mem_cons_of_mem _ hp)]
    exact hm _ h
  rw [this]

example :
    let s := (Store.empty.put (.emb 5) (.raw (some 1) (some 8))).put (.emb 6) (.raw none (some (-4)))
    s.eslab = [(0, 8), (1, -4)] ∧ ∀ p ∈ s.eslab, (fun e : Int => e - e % 4) p.2 = p.2 := by decide

/-- a `ROLLBACK TO x` that is not accepted (nothing listed under that id or name) changes nothing:
    for every database and target the whole state — store, engines, archive — is as before -/
theorem rollback_rejected_changes_nothing (ops : List Op) (x : Nat) (o : List Nat) :
    (step (run {} ops) (.rollback x o)).2 ≠ .ok → (step (run {} ops) (.rollback x o)).1 = run {} ops := by
  intro h
  simp only [step, doRollback] at h ⊢
  cases hl : loadCk (run {} ops) o x with
  | none => rfl
  | some c => rw [hl] at h; exact absurd rfl h

example :
    let ops : List Op := [.kput 0 0 1 none, .ckpt 5 [] 1000, .ckdel 0 []]
    (step (run {} ops) (.rollback 0 [])).2 = .err .notFound ∧
    (step (run {} ops) (.rollback 1000 [])).2 = .err .notFound := by decide

/-- `CheckpointManager::delete(x)` (target resolved like `rollback`, /repo 14af22de): when accepted
    it unlists exactly ONE checkpoint — if `x` is the id of a listed checkpoint, THAT checkpoint;
    otherwise a listed one named `x`, at least as new as every listed one named `x`; the database
    content, every other listed checkpoint and the archive are untouched — so by
    `retained_are_restorable` (whose statement sequences include deletes) every checkpoint still
    listed can still be rolled back to.  For EVERY statement sequence, target and listing order. -/
theorem ckdel_removes_exactly_the_target (ops : List Op) (x : Nat) (o : List Nat) (d' : Db) :
    step (run {} ops) (.ckdel x o) = (d', .ok) →
      ∃ i, resolve (run {} ops) o x = some i ∧ alHas (run {} ops).st.cps i = true ∧
        (alHas (run {} ops).st.cps x = true → i = x) ∧
        (alHas (run {} ops).st.cps x = false → nameOf (run {} ops) i = some x ∧
          ∀ j c c', blobOf (run {} ops) i = some c → alHas (run {} ops).st.cps j = true →
            blobOf (run {} ops) j = some c' → c'.name = x → c'.ts ≤ c.ts) ∧
        alHas d'.st.cps i = false ∧
        (∀ j, j ≠ i → alHas d'.st.cps j = alHas (run {} ops).st.cps j) ∧
        d'.st.md = (run {} ops).st.md ∧ d'.st.cache = (run {} ops).st.cache ∧
        d'.st.rel = (run {} ops).st.rel ∧ d'.eng = (run {} ops).eng ∧ d'.arch = (run {} ops).arch := by
  intro hstep
  have hinv : DbInv (run {} ops) := DbInv.init.run ops
  simp only [step, doCkDel] at hstep
  cases hr : resolve (run {} ops) o x with
  | none => rw [hr] at hstep; exact absurd (congrArg Prod.snd hstep) (by simp)
  | some i =>
    rw [hr] at hstep
    have hd := (congrArg Prod.fst hstep).symm
    simp only at hd
    subst hd
    have hlive := resolve_live _ o x i hr
    obtain ⟨ts, hm, hcase⟩ := resolve_some _ o x i hr
    refine ⟨i, rfl, hlive, ?_, ?_, ?_, ?_, rfl, rfl, rfl, rfl, rfl⟩
    · intro hx
      have := hinv.resolve_id o x hx
      rw [hr] at this
      exact Option.some.inj this
    · intro hx
      rcases hcase with hid | ⟨_, hname, hnew⟩
      · rw [hid] at hlive; rw [hlive] at hx; cases hx
      · refine ⟨hname, ?_⟩
        intro j c c' hb hj hb' hn
        have hts : ts = c.ts := (hinv.cpsTs _ hm c (blobOf_mem _ _ c hb).1 (blobOf_mem _ _ c hb).2).symm
        have hmem := hinv.live_mem j hj c' hb'
        have := hnew (j, c'.ts) (mem_ckList o _ hinv.cpsNodup _ hmem)
          (by unfold nameOf; rw [hb']; simp only [Option.map_some, hn])
        simp only at this
        omega
    · show alHas (alDel (run {} ops).st.cps i) i = false
      cases h : alHas (alDel (run {} ops).st.cps i) i with
      | false => rfl
      | true => exact absurd rfl ((alHas_alDel _ _ _).mp h).1
    · intro j hj
      show alHas (alDel (run {} ops).st.cps i) j = alHas (run {} ops).st.cps j
      cases h : alHas (run {} ops).st.cps j with
      | true => exact (alHas_alDel _ _ _).mpr ⟨fun e => hj e.symm, h⟩
      | false =>
        cases h' : alHas (alDel (run {} ops).st.cps i) j with
        | false => rfl
        | true => rw [((alHas_alDel _ _ _).mp h').2] at h; cases h

example :
    let ops : List Op := [.ckpt 5 [] 1007, .gnode 1, .ckpt 6 [] 1007, .ckpt 7 [] 1001]
    (step (run {} ops) (.ckdel 1007 [])).2 = .ok ∧ qCkpts (step (run {} ops) (.ckdel 1007 [])).1 = [0, 2] ∧
    (step (run {} ops) (.ckdel 1 [])).2 = .ok ∧ (step (run {} ops) (.ckdel 9 [])).2 = .err .notFound := by
  decide

/-- the statement the repair 14af22de makes true, for EVERY reachable database, EVERY listed id and
    EVERY listing order: `CheckpointManager::delete(<id of a listed checkpoint>)` is accepted and
    unlists THAT checkpoint and no other — whatever the other checkpoints are named (names equal
    to that id string included); the data, the engines and the archive are untouched -/
theorem ckdel_by_listed_id_removes_that_checkpoint (ops : List Op) (i : Nat) (o : List Nat) :
    alHas (run {} ops).st.cps i = true →
      (step (run {} ops) (.ckdel i o)).2 = .ok ∧
      alHas (step (run {} ops) (.ckdel i o)).1.st.cps i = false ∧
      (∀ j, j ≠ i →
        alHas (step (run {} ops) (.ckdel i o)).1.st.cps j = alHas (run {} ops).st.cps j) ∧
      (step (run {} ops) (.ckdel i o)).1.st.md = (run {} ops).st.md ∧
      (step (run {} ops) (.ckdel i o)).1.st.cache = (run {} ops).st.cache ∧
      (step (run {} ops) (.ckdel i o)).1.st.rel = (run {} ops).st.rel ∧
      (step (run {} ops) (.ckdel i o)).1.eng = (run {} ops).eng ∧
      (step (run {} ops) (.ckdel i o)).1.arch = (run {} ops).arch := by
  intro hl
  have hr := (DbInv.init.run ops).resolve_id o i hl
  have hs : step (run {} ops) (.ckdel i o) =
      ({ run {} ops with st := { (run {} ops).st with cps := alDel (run {} ops).st.cps i } }, .ok) := by
    simp only [step, doCkDel, hr]
  obtain ⟨k, hk, _, hid, _, hgone, hrest, h1, h2, h3, h4, h5⟩ :=
    ckdel_removes_exactly_the_target ops i o _ hs
  have hki : k = i := hid hl
  subst hki
  rw [hs]
  exact ⟨rfl, hgone, hrest, h1, h2, h3, h4, h5⟩

/-- non-vacuity: c0 is listed and TWO newer listed checkpoints are named with its id string;
    `delete(<id of c0>)` unlists c0 for each listing order and leaves the two others -/
example :
    let ops : List Op := [.kput 0 0 1 none, .ckpt 5 [] 1000, .kput 0 0 2 none, .ckpt 6 [] 0, .ckpt 6 [] 0]
    alHas (run {} ops).st.cps 0 = true ∧ nameOf (run {} ops) 1 = some 0 ∧ nameOf (run {} ops) 2 = some 0 ∧
      qCkpts (step (run {} ops) (.ckdel 0 [])).1 = [1, 2] ∧
      qCkpts (step (run {} ops) (.ckdel 0 [2, 1])).1 = [1, 2] ∧
      qRaw (step (run {} ops) (.ckdel 0 [])).1 = [(.plain 0, .raw (some 2) none)] := by decide

/-- what was wrong before /repo 14af22de (`doCkDelOld`: `CheckpointManager::delete` had its own
    one-pass id-or-name lookup, which fff752bd had not touched): `delete(<id of c0>)` was accepted
    and unlisted the newer checkpoint c1 that is merely NAMED with c0's id string, c0 stayed
    listed — while `ROLLBACK TO <id of c0>` reached c0.  With the present resolution the same
    statement unlists c0 and leaves c1. -/
theorem ckdel_id_shadowed_by_name_witness :
    let d := run {} [.kput 0 0 1 none, .ckpt 5 [] 1000, .kput 0 0 2 none, .ckpt 6 [] 0, .kput 0 0 3 none]
    qCkpts d = [0, 1] ∧ resolve d [] 0 = some 0 ∧
    -- before the repair
    (doCkDelOld d 0 []).2 = .ok ∧ qCkpts (doCkDelOld d 0 []).1 = [0] ∧
    -- the code as it is
    (step d (.ckdel 0 [])).2 = .ok ∧ qCkpts (step d (.ckdel 0 [])).1 = [1] := by decide

/-- the repair of the delete path is narrow: for EVERY database, order and target the old and the
    present `delete` do the same unless the target string is both the id of a listed checkpoint
    and the name of a listed checkpoint -/
theorem ckdel_changed_only_when_shadowed (ops : List Op) (x : Nat) (o : List Nat) :
    (alHas (run {} ops).st.cps x = false ∨
      ∀ j, alHas (run {} ops).st.cps j = true → nameOf (run {} ops) j ≠ some x) →
    doCkDelOld (run {} ops) x o = step (run {} ops) (.ckdel x o) := by
  intro h
  simp only [step, doCkDelOld, doCkDel, resolution_changed_only_when_shadowed ops x o h]

example :
    let d := run {} [.ckpt 5 [] 1007, .ckpt 6 [] 1007, .ckpt 7 [] 1001]
    alHas d.st.cps 1007 = false ∧ qCkpts (doCkDelOld d 1007 []).1 = [0, 2] ∧
      qCkpts (step d (.ckdel 1007 [])).1 = [0, 2] ∧
      (∀ j, alHas d.st.cps j = true → nameOf d j ≠ some 2) ∧ qCkpts (doCkDelOld d 2 []).1 = [0, 1] := by
  refine ⟨by decide, by decide, by decide, ?_, by decide⟩
  intro j hj
  have : j < 3 := (DbInv.init.run [.ckpt 5 [] 1007, .ckpt 6 [] 1007, .ckpt 7 [] 1001]).cpsLt j hj
  have h3 : j = 0 ∨ j = 1 ∨ j = 2 := by omega
  rcases h3 with e | e | e <;> subst e <;> decide

/-- `CheckpointManager::list(Some n)` / `CHECKPOINTS LIMIT n`: for every database, order and limit
    the answer has `min n (listed)` entries, all listed, newest first, and nothing left out is
    newer than anything shown -/
theorem list_limit_newest (ops : List Op) (o : List Nat) (n : Nat) :
    let d := run {} ops
    (qCkptsTop d o n).length = min n d.st.cps.length ∧
    (∀ p ∈ qCkptsTop d o n, p ∈ d.st.cps) ∧ DescSorted (qCkptsTop d o n) ∧
    ∀ p ∈ d.st.cps, p ∉ qCkptsTop d o n → ∀ k ∈ qCkptsTop d o n, p.2 ≤ k.2 := by
  intro d
  have hinv : DbInv d := DbInv.init.run ops
  have hperm : (ckList o d.st.cps).Perm d.st.cps := ckList_perm o d.st.cps hinv.cpsNodup
  have hs := sortDesc_sorted (arrange o d.st.cps)
  refine ⟨?_, ?_, ?_, ?_⟩
  · unfold qCkptsTop; rw [List.length_take, hperm.length_eq]
  · intro p hp; exact ckList_mem o _ p (List.mem_of_mem_take hp)
  · unfold qCkptsTop DescSorted ckList
    exact List.Pairwise.sublist (List.take_sublist _ _) hs
  · intro p hp hnot k hk
    have hin : p ∈ ckList o d.st.cps := hperm.mem_iff.mpr hp
    unfold qCkptsTop at hnot hk
    rw [← List.take_append_drop n (ckList o d.st.cps)] at hin
    rcases List.mem_append.mp hin with hin | hin
    · exact absurd hin hnot
    · unfold DescSorted at hs
      unfold ckList at hin hk
      rw [← List.take_append_drop n (sortDesc (arrange o d.st.cps)), List.pairwise_append] at hs
      exact hs.2.2 k hk p hin

example :
    let d := run {} [.ckpt 5 [] 1000, .ckpt 7 [] 1001, .ckpt 6 [] 1002, .ckpt 7 [] 1003]
    qCkptsTop d [] 2 = [(1, 7), (3, 7)] ∧ qCkptsTop d [3] 3 = [(3, 7), (1, 7), (2, 6)] := by decide

end Neumann.Ckpt.Props
