import NeumannModel.Ckpt.Lemmas
/-
  C08 — "rolling back to a checkpoint restores exactly the checkpointed database".
  ONLY property statements and their non-vacuity examples; helpers are in `Lemmas.lean`.
-/
namespace Neumann.Ckpt.Props
open Neumann.Ckpt

/-- The full statement: for every statement sequence `pre` before the checkpoint (which may itself
    contain checkpoints and rollbacks: repeated cycles, several checkpoints), every sequence `post`
    after it, every probe set: if `ROLLBACK` to that checkpoint is accepted, the whole observable
    image (table scans, index-path queries, graph, embeddings, searches, raw keys) is the one at
    checkpoint time, and no checkpoint that was listed before the rollback is lost by it. -/
def RollbackExact : Prop :=
  ∀ (p : Probes) (pre post : List Op) (ts : Nat) (ord : List Nat) (d3 : Db),
    let d0 := run {} pre
    let d2 := run (step d0 (.ckpt ts ord)).1 post
    step d2 (.rollback d0.nextCk) = (d3, .ok) →
      obs p d3 = obs p d0 ∧ ∀ i, alHas d2.st.cps i = true → alHas d3.st.cps i = true

def probes0 : Probes := ⟨[1, 2], [1], [[1, 1, 1]]⟩

/-- create table, insert, checkpoint, rollback ⇒ the table cannot be read any more -/
theorem rollback_loses_tables_witness : ¬ RollbackExact := by
  intro h
  have h' := (h probes0 [.rcreate 0, .rins 0 1 2] [] 100 []
    (step (run (step (run {} [.rcreate 0, .rins 0 1 2]) (.ckpt 100 [])).1 []) (.rollback 0)).1 (by decide)).1
  revert h'
  decide

end Neumann.Ckpt.Props
