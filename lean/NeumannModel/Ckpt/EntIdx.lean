import NeumannModel.Ckpt.Model
/-
  C08 — model of `tensor_store::EntityIndex` as the slab router uses it for `emb:` keys, and of
  its part of a snapshot (import-free, executable).

  `Store.eidx` / `Store.enext` in `Model.lean` are the ABSTRACT entity index: an association list
  live key ↦ entity id plus the next id, and `Store.snapshot` is the identity — a key keeps its id
  across a checkpoint.  The real index is

    vocabulary  Vec<String>     every key EVER created, append-only; EntityId = position
    tombstones  bitmap by id    set by `remove`, never cleared
    reverse     (hash, id)      lookup table (newest entry of a hash first)

    get(k)            the position holding k whose tombstone bit is clear
    get_or_create(k)  get(k), else push k at the end (a deleted key gets a NEW id, the old stays dead)
    remove(k)         set the tombstone bit of get(k)
    scan_prefix("")   the live (key, id) pairs in vocabulary order
    snapshot()        vocabulary, reverse, tombstones cloned AS THEY ARE (dead entries included)
    restore(snap)     the same vectors again

  Here a vocabulary position carries its tombstone bit: `ents[i] = (key, live)`.  The embedding
  slab's snapshot, taken alongside, is keyed by entity id (`Slab.entries`), and the router built by
  `SlabRouter::from_bytes` reads a key's vector as slab[get(key)]; `restore_from_bytes` (= checkpoint
  rollback) copies what it reads there into the live store.  So the index part of a snapshot has to
  give every surviving key the id it had — dead vocabulary entries are what keeps the positions of
  the later keys where they were.  A snapshot that writes only the live keys (`snapshotLive`,
  NOT the code: seeded change C08_7) renumbers every key created after a deleted one.
-/
namespace Neumann.Ckpt.EntIdx
open Neumann.Ckpt

structure EIdx where
  ents : List (Nat × Bool) := []     -- vocabulary position ↦ (key, tombstone bit clear)
  deriving DecidableEq, Repr

/-- position (counted from `i`) of the live entry of key `k` -/
def find (k : Nat) : List (Nat × Bool) → Nat → Option Nat
  | [], _ => none
  | (x, l) :: r, i => if x = k ∧ l = true then some i else find k r (i + 1)

def get (s : EIdx) (k : Nat) : Option Nat := find k s.ents 0

/-- `get_or_create` (the index afterwards; the id is `get` of it) -/
def create (s : EIdx) (k : Nat) : EIdx :=
  match get s k with
  | some _ => s
  | none => { ents := s.ents ++ [(k, true)] }

/-- set the tombstone bit of the live entry of `k` -/
def kill (k : Nat) : List (Nat × Bool) → List (Nat × Bool)
  | [] => []
  | (x, l) :: r => if x = k ∧ l = true then (x, false) :: r else (x, l) :: kill k r

def remove (s : EIdx) (k : Nat) : EIdx := { ents := kill k s.ents }

/-- `scan_prefix("")`: live (key, id) pairs in vocabulary order, ids counted from `i` -/
def live : List (Nat × Bool) → Nat → List (Nat × Nat)
  | [], _ => []
  | (x, l) :: r, i => if l then (x, i) :: live r (i + 1) else live r (i + 1)

/-- `snapshot()` then `restore()`: the three vectors as they are -/
def snapshot (s : EIdx) : EIdx := s

/-- NOT the code (seeded change C08_7): only the live keys are written, ids = new positions -/
def snapshotLive (s : EIdx) : EIdx := { ents := (live s.ents 0).map fun p => (p.1, true) }

inductive IOp | create (k : Nat) | remove (k : Nat)
  deriving DecidableEq, Repr

def istep (s : EIdx) : IOp → EIdx
  | .create k => create s k
  | .remove k => remove s k

def irun (s : EIdx) (ops : List IOp) : EIdx := ops.foldl istep s

/-! ### the abstract index of `Model.lean` (`Store.eidx`, `Store.enext`) -/

structure AIdx where
  eidx : List (Nat × Nat) := []
  enext : Nat := 0
  deriving DecidableEq, Repr

/-- what `Store.put (.emb k)` does to `eidx` / `enext` -/
def acreate (a : AIdx) (k : Nat) : AIdx :=
  match alGet a.eidx k with
  | some _ => a
  | none => { eidx := a.eidx ++ [(k, a.enext)], enext := a.enext + 1 }

/-- what `Store.delete (.emb k)` does to `eidx` -/
def aremove (a : AIdx) (k : Nat) : AIdx := { a with eidx := alDel a.eidx k }

def astep (a : AIdx) : IOp → AIdx
  | .create k => acreate a k
  | .remove k => aremove a k

def arun (a : AIdx) (ops : List IOp) : AIdx := ops.foldl astep a

/-! ### index + embedding slab (entity id ↦ vector; its slot allocator is `Slab.lean`) as the
    router drives them for `emb:` keys holding a slab-dimension vector -/

structure ER where
  idx : EIdx := {}
  slab : List (Nat × Int) := []
  deriving DecidableEq, Repr

inductive EOp | put (k : Nat) (v : Int) | del (k : Nat)
  deriving DecidableEq, Repr

def estep (s : ER) : EOp → ER
  | .put k v =>
    let i := create s.idx k
    { idx := i, slab := alPut s.slab ((get i k).getD 0) v }
  | .del k =>
    match get s.idx k with
    | some id => { idx := remove s.idx k, slab := alDel s.slab id }
    | none => s

def erun (s : ER) (ops : List EOp) : ER := ops.foldl estep s

/-- the vector `SlabRouter::get` overlays on the value of `emb:` key `k` -/
def look (s : ER) (k : Nat) : Option Int := (get s.idx k).bind (alGet s.slab)

/-- `SlabRouter::from_bytes(to_bytes())` with the index snapshot function `snap`; the slab part
    is keyed by the entity ids of the snapshotted router -/
def image (snap : EIdx → EIdx) (s : ER) : ER := { idx := snap s.idx, slab := s.slab }

/-- the key-level view: `emb:` key ↦ the vector last put under it (what the engine API shows) -/
def mstep (m : List (Nat × Int)) : EOp → List (Nat × Int)
  | .put k v => alPut m k v
  | .del k => alDel m k

def mrun (m : List (Nat × Int)) (ops : List EOp) : List (Nat × Int) := ops.foldl mstep m

end Neumann.Ckpt.EntIdx
