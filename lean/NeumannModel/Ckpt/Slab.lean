import NeumannModel.Ckpt.Model
/-
  C08 — slot-level model of `tensor_store::EmbeddingSlab` (import-free, executable).

  `Store.eslab` in `Model.lean` is the ABSTRACT embedding slab: an association list entity id ↦
  vector, written with `alPut` / `alDel`, emptied by `clear`.  The real slab is a slot allocator:

    index       BTreeMap<EntityId, EmbeddingSlot>     entity ↦ slot          (`idx`, kept sorted by entity)
    free_slots  Vec<EmbeddingSlot>  (push / pop)        freed slots, a stack   (`free`, head = top)
    write_pos   bump allocator                          next never-used slot   (`pos`)
    chunks      the vector memory, by slot              NEVER zeroed by `delete` / `clear` (`mem`)

    set(e, v)   slot of e if it has one, else `allocate_slot` = pop a free slot, else `write_pos++`;
                write v into the slot's memory; index e ↦ slot
    get(e)      the memory of e's slot
    delete(e)   drop e from the index, push its slot on the free stack
    clear()     index.clear(); free_slots.clear(); write_pos = 0      (memory stays as it is)
    compact()   entries(); if none return; clear(); set every entry again (BTreeMap order)
    snapshot() + restore()   entries in BTreeMap order, `set` one by one into a NEW slab

  `restore_from_bytes` (= checkpoint rollback) runs `clear()` and then `set`s every restored
  `emb:` vector, i.e. exactly the clear / allocate path: if `clear` left a freed slot on the stack
  while restarting `write_pos` at 0, two entities would share one slot (seeded change C08_1).
  `SlabLemmas.lean` proves that the slot allocator, as it is, implements the abstract map.
-/
namespace Neumann.Ckpt.Slab
open Neumann.Ckpt

structure Slab where
  idx : List (Nat × Nat) := []     -- entity ↦ slot, ascending by entity (BTreeMap)
  free : List Nat := []            -- free-slot stack, head = last pushed
  pos : Nat := 0                   -- write_pos
  mem : List (Nat × Int) := []     -- slot ↦ memory content (absent = the zero-initialised chunk)
  deriving DecidableEq, Repr

/-- BTreeMap insert of a key that is not present -/
def insertSorted (k v : Nat) : List (Nat × Nat) → List (Nat × Nat)
  | [] => [(k, v)]
  | p :: r => if k < p.1 then (k, v) :: p :: r else p :: insertSorted k v r

def memGet (m : List (Nat × Int)) (sl : Nat) : Int := (alGet m sl).getD 0

/-- `allocate_slot` -/
def alloc (s : Slab) : Nat × Slab :=
  match s.free with
  | sl :: r => (sl, { s with free := r })
  | [] => (s.pos, { s with pos := s.pos + 1 })

def set (s : Slab) (e : Nat) (v : Int) : Slab :=
  match alGet s.idx e with
  | some sl => { s with mem := alPut s.mem sl v }
  | none =>
    let a := alloc s
    { a.2 with mem := alPut a.2.mem a.1 v, idx := insertSorted e a.1 a.2.idx }

def get (s : Slab) (e : Nat) : Option Int := (alGet s.idx e).map (memGet s.mem)

def delete (s : Slab) (e : Nat) : Slab :=
  match alGet s.idx e with
  | some sl => { s with idx := alDel s.idx e, free := sl :: s.free }
  | none => s

def clear (s : Slab) : Slab := { s with idx := [], free := [], pos := 0 }

/-- `entries()`: (entity, vector) in index order -/
def entries (s : Slab) : List (Nat × Int) := s.idx.map fun p => (p.1, memGet s.mem p.2)

def setAll (s : Slab) (l : List (Nat × Int)) : Slab := l.foldl (fun a p => set a p.1 p.2) s

def compact (s : Slab) : Slab :=
  let es := entries s
  if es.isEmpty then s else setAll (clear s) es

/-- `EmbeddingSlab::restore(self.snapshot())`: a new slab (fresh zero memory) -/
def reload (s : Slab) : Slab := setAll {} (entries s)

inductive SOp
  | set (e : Nat) (v : Int) | del (e : Nat) | clear | compact | reload
  deriving DecidableEq, Repr

def sstep (s : Slab) : SOp → Slab
  | .set e v => set s e v
  | .del e => delete s e
  | .clear => clear s
  | .compact => compact s
  | .reload => reload s

def srun (s : Slab) (ops : List SOp) : Slab := ops.foldl sstep s

/-- the abstract slab of `Model.lean` (`Store.eslab`): what `Store.put` / `Store.delete` /
    `Store.clear` do to it -/
def astep (a : List (Nat × Int)) : SOp → List (Nat × Int)
  | .set e v => alPut a e v
  | .del e => alDel a e
  | .clear => []
  | .compact => a
  | .reload => a

def arun (a : List (Nat × Int)) (ops : List SOp) : List (Nat × Int) := ops.foldl astep a

/-! ### NOT the code: `clear` that forgets to empty the free-slot stack (seeded change C08_1) -/

def clearKeepFree (s : Slab) : Slab := { s with idx := [], pos := 0 }

end Neumann.Ckpt.Slab
