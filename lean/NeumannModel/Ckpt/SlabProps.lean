import NeumannModel.Ckpt.SlabLemmas
/-
  C08 — the embedding slab's slot allocator (`EmbeddingSlab::{set,get,delete,clear,compact}`,
  `snapshot`+`restore`) is what rollback = `clear()` + re-`put` of every restored `emb:` vector runs
  on.  ONLY property statements and their non-vacuity examples; helpers are in `SlabLemmas.lean`.
-/
namespace Neumann.Ckpt.Slab.Props
open Neumann.Ckpt Neumann.Ckpt.Slab

/-- For EVERY sequence of slab operations (set / delete / clear / compact / snapshot+restore, any
    entities, any interleaving — in particular the `clear` + re-`set` of a rollback after any
    history of deletes) the slot-level slab answers `get` exactly like the abstract entity ↦ vector
    map that `Model.lean` uses for `Store.eslab` (`alPut` / `alDel` / `[]`): a vector written for
    one entity is never read back through another one, whatever slots were freed and reused. -/
theorem slab_refines_map (ops : List SOp) (e : Nat) :
    get (srun {} ops) e = alGet (arun [] ops) e :=
  ((Rep.run (s := {}) (a := []) ⟨SlabOk.empty, fun _ => rfl⟩ ops).2 e)

/-- non-vacuity: a history with a freed slot that is reused, a clear, a compaction and a reload;
    the slab is non-trivial (slot 0 reused by entity 9, memory of slot 1 stale) -/
example :
    let ops : List SOp := [.set 1 10, .set 2 20, .set 3 30, .del 1, .set 9 90, .del 2, .compact, .set 4 40,
      .clear, .set 5 50, .set 6 60, .del 5, .reload, .set 7 70]
    (srun {} ops).idx = [(6, 0), (7, 1)] ∧ get (srun {} ops) 6 = some 60 ∧ get (srun {} ops) 7 = some 70 ∧
    get (srun {} ops) 5 = none ∧ arun [] ops = [(6, 60), (7, 70)] := by decide

/-- The allocator invariant holds in every reachable state: entities are indexed once, no two
    entities share a slot, no indexed slot is on the free stack, the free stack has no duplicate,
    and every slot handed out is below `write_pos` (so the bump allocator never re-issues one). -/
theorem slab_slots_never_alias (ops : List SOp) :
    let s := srun {} ops
    (s.idx.map (·.1)).Nodup ∧ (s.idx.map (·.2) ++ s.free).Nodup ∧
      ∀ sl ∈ s.idx.map (·.2) ++ s.free, sl < s.pos := by
  have h := (Rep.run (s := {}) (a := []) ⟨SlabOk.empty, fun _ => rfl⟩ ops).1
  exact ⟨h.keys, h.slots, h.lt⟩

example :
    let s := srun {} [.set 1 10, .set 2 20, .set 3 30, .del 2, .del 1]
    s.idx = [(3, 2)] ∧ s.free = [0, 1] ∧ s.pos = 3 := by decide

/-- What rollback relies on, stated on its own: after `clear()`, `set`ting any list of (entity,
    vector) pairs with distinct entities — the restored image — makes every one of them readable
    with its own vector, whatever the slab went through before (any reachable state). -/
theorem clear_then_restore_exact (ops : List SOp) (img : List (Nat × Int))
    (hn : (img.map (·.1)).Nodup) (e : Nat) :
    get (setAll (clear (srun {} ops)) img) e = alGet img e := by
  have h := (Rep.clear (srun {} ops)).setAll img
  rw [h.2 e, alGet_foldl_put img [] hn e]
  cases alGet img e <;> rfl

example :
    let ops : List SOp := [.set 1 10, .set 2 20, .set 3 30, .del 1]
    let img : List (Nat × Int) := [(4, 44), (5, 55), (1, 11)]
    (setAll (clear (srun {} ops)) img).idx = [(1, 2), (4, 0), (5, 1)] ∧
    get (setAll (clear (srun {} ops)) img) 5 = some 55 := by decide

/-- NOT the code: if `clear()` restarted `write_pos` at 0 but left the freed slots on the stack
    (seeded change C08_1), the restore after a delete hands slot 0 out twice: entity 4 (popped from
    the stale free stack) and entity 5 (bump allocator restarted) share it, and entity 4 reads
    entity 5's vector.  This is the behaviour the `slab` and `store_raw` streams look for. -/
theorem clear_keeping_free_stack_aliases_witness :
    let s0 := srun {} [.set 1 10, .set 2 20, .del 1]
    let bad := setAll (clearKeepFree s0) [(4, 44), (5, 55)]
    let good := setAll (clear s0) [(4, 44), (5, 55)]
    bad.idx = [(4, 0), (5, 0)] ∧ get bad 4 = some 55 ∧ get good 4 = some 44 ∧ get good 5 = some 55 := by
  decide

end Neumann.Ckpt.Slab.Props
