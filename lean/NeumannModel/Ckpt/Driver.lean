import NeumannModel.Common.Proto
import NeumannModel.Ckpt.Model
import NeumannModel.Ckpt.Slab
import NeumannModel.Ckpt.Shard
/-
  Line-protocol driver for the checkpoint / rollback model (C08).  Stateful: one `Db`.

    reset | setmax n
    rcreate t | rdrop t | rins t k v | rdel t k | rhidx t | rbidx t
    gnode label | gedge a b | gdeln i | gdele i
    vput k v1,v2,.. | vdel k | vbuild
    kput cls k x e|- | kdel cls k            (cls 0 plain key, 1 `_cache:`, 2 `emb:` with `_embedding`)
    ackpt ts ord|- name                      (`create_auto`: the auto-checkpoint before a destructive statement)
    ckall ord|-                              (`list(None)`: the FULL listing, newest first)
    ckpt ts ord|- name | rollback x ord|- | ckdel x ord|- | cklist | cktop n ord|- | resolve x ord|-
                                             (x: an id or a name, one code space: code < 1000 = the id
                                              string of checkpoint number `code`, else a proper name)
    snap | restore i                         (bare snapshot_bytes / restore_from_bytes, bytes kept outside)
    obs ints|- labels|- q1;q2;..|-           (the full canonical observable image)
    retain max ord|- ids|- tss|-             (pure: ids `RetentionManager::enforce` keeps)
    sl reset | sl set e v | sl del e | sl clear | sl compact | sl reload
                                             (the slot-level `EmbeddingSlab` model of Slab.lean; answer =
                                              every (entity:vector) readable through `get`, by entity)
    ms reset | ms set key v | ms del key | ms reload
                                             (the sharded `MetadataSlab` of Shard.lean — 16 shards by the
                                              key's first byte; keys are hex byte strings, `-` = the empty
                                              key; `reload` = `MetadataSlab::restore(slab.snapshot())`;
                                              answer = every `key=value` listed by the merged shards, by key,
                                              the value as `get` finds it in the key's own shard, then `#len`)
    kput / kdel with cls 0: the key number is `100 * family + index` (family 0 `plain:`, 1 `user:`,
                                              2 `order:`, 3 `Note:`, 4 `~tmp:`, 5 `Product:`, 6 `table:`,
                                              7 `doc:`, 8 `item:`, 9 `/path:` — `Shard.plainFamilies`)
-/
open Neumann Neumann.Proto Neumann.Ckpt

def showErr : Err → String
  | .notFound => "notfound" | .exists => "exists" | .storage => "storage" | .bad => "bad"

def showRes : Res → String
  | .ok => "ok" | .id n => s!"id {n}" | .count n => s!"count {n}" | .err e => "err " ++ showErr e

def dot (xs : List String) : String := ".".intercalate xs

def showRows : Rows → String
  | .ok l => "ok:" ++ ",".intercalate (l.map fun r => dot [toString r.1, toString r.2.1, toString r.2.2])
  | .error e => "err:" ++ showErr e

def showTable (o : TableObs) : String :=
  s!"t{o.t}[{showRows o.scan}|{"/".intercalate (o.eqs.map showRows)}|{"/".intercalate (o.lts.map showRows)}]"

def keyCode : Key → Nat
  | .plain k => k | .cache k => 1000000 + k | .emb k => 2000000 + k | _ => 9000000

def showKey : Key → String
  | .plain k => s!"m{k}" | .cache k => s!"c{k}" | .emb k => s!"e{k}" | _ => "?"

def showOptInt : Option Int → String
  | some x => toString x | none => "-"

def showVal : Val → String
  | .raw x e => s!"x{showOptInt x}e{showOptInt e}"
  | .vec v => "v" ++ dot (v.map toString)
  | _ => "?"

def insertCoded (x : Nat × String) : List (Nat × String) → List (Nat × String)
  | [] => [x]
  | y :: ys => if x.1 < y.1 then x :: y :: ys else y :: insertCoded x ys

def showObs (o : Obs) : String :=
  let raw := (o.raw.map fun p => (keyCode p.1, showKey p.1 ++ "=" ++ showVal p.2)).foldr insertCoded []
  " # ".intercalate [
    "T " ++ ";".intercalate (o.tables.map showTable),
    "N " ++ ",".intercalate (o.nodes.map fun n => s!"{n.1}:{n.2}"),
    "E " ++ ",".intercalate (o.edges.map fun e => s!"{e.1}:{e.2.1}>{e.2.2}"),
    "B " ++ ",".intercalate (o.nbrs.map fun b => s!"{b.1}:" ++ dot (b.2.map toString)),
    "L " ++ "|".intercalate (o.byLabel.map fun l => dot (l.map toString)),
    "V " ++ ",".intercalate (o.embs.map fun e => s!"{e.1}:" ++ dot (e.2.map toString)),
    "S " ++ "|".intercalate (o.search.map fun l => dot (l.map toString)),
    "R " ++ ",".intercalate (raw.map (·.2)) ]

def parseVecs (s : String) : Option (List Vec) :=
  if s = "-" then some [] else (s.splitOn ";").mapM parseInts

def optInt (s : String) : Option (Option Int) :=
  if s = "-" then some none else s.toInt?.map some

def ckptStep1 (d : Db) (line : String) : Db × String :=
  let bad := (d, "bad-op")
  let doOp := fun (o : Op) => let r := step d o; (r.1, showRes r.2)
  match words line with
  | ["reset"] => ({}, "ok")
  | ["setmax", n] => match n.toNat? with | some n => doOp (.setmax n) | none => bad
  | ["rcreate", t] => match t.toNat? with | some t => doOp (.rcreate t) | none => bad
  | ["rdrop", t] => match t.toNat? with | some t => doOp (.rdrop t) | none => bad
  | ["rins", t, k, v] => match t.toNat?, k.toInt?, v.toInt? with
      | some t, some k, some v => doOp (.rins t k v) | _, _, _ => bad
  | ["rdel", t, k] => match t.toNat?, k.toInt? with
      | some t, some k => doOp (.rdel t k) | _, _ => bad
  | ["rhidx", t] => match t.toNat? with | some t => doOp (.rhidx t) | none => bad
  | ["rbidx", t] => match t.toNat? with | some t => doOp (.rbidx t) | none => bad
  | ["gnode", l] => match l.toNat? with | some l => doOp (.gnode l) | none => bad
  | ["gedge", a, b] => match a.toNat?, b.toNat? with
      | some a, some b => doOp (.gedge a b) | _, _ => bad
  | ["gdeln", i] => match i.toNat? with | some i => doOp (.gdeln i) | none => bad
  | ["gdele", i] => match i.toNat? with | some i => doOp (.gdele i) | none => bad
  | ["vput", k, v] => match k.toNat?, parseInts v with
      | some k, some v => doOp (.vput k v) | _, _ => bad
  | ["vdel", k] => match k.toNat? with | some k => doOp (.vdel k) | none => bad
  | ["vbuild"] => doOp .vbuild
  | ["kput", c, k, x, e] => match c.toNat?, k.toNat?, x.toInt?, optInt e with
      | some c, some k, some x, some e => doOp (.kput c k x e) | _, _, _, _ => bad
  | ["kdel", c, k] => match c.toNat?, k.toNat? with
      | some c, some k => doOp (.kdel c k) | _, _ => bad
  | ["ckpt", ts, ord, nm] => match ts.toNat?, parseNats ord, nm.toNat? with
      | some ts, some ord, some nm => doOp (.ckpt ts ord nm) | _, _, _ => bad
  | ["ackpt", ts, ord, nm] => match ts.toNat?, parseNats ord, nm.toNat? with
      | some ts, some ord, some nm => doOp (.ackpt ts ord nm) | _, _, _ => bad
  | ["ckall", ord] => match parseNats ord with
      | some ord => (d, showNats ((qCkptsAll d ord).map (·.1))) | none => bad
  | ["rollback", x, ord] => match x.toNat?, parseNats ord with
      | some x, some ord => doOp (.rollback x ord) | _, _ => bad
  | ["ckdel", x, ord] => match x.toNat?, parseNats ord with
      | some x, some ord => doOp (.ckdel x ord) | _, _ => bad
  | ["cktop", n, ord] => match n.toNat?, parseNats ord with
      | some n, some ord => (d, showNats ((qCkptsTop d ord n).map (·.1))) | _, _ => bad
  | ["resolve", x, ord] => match x.toNat?, parseNats ord with
      | some x, some ord => (d, match resolve d ord x with | some i => s!"id {i}" | none => "none")
      | _, _ => bad
  | ["cklist"] => (d, showNats (qCkpts d))
  | ["obs", is, ls, qs] => match parseInts is, parseNats ls, parseVecs qs with
      | some is, some ls, some qs => (d, showObs (obs ⟨is, ls, qs⟩ d))
      | _, _, _ => bad
  | ["retain", mx, ord, ids, tss] => match mx.toNat?, parseNats ord, parseNats ids, parseNats tss with
      | some mx, some ord, some ids, some tss =>
        if ids.length ≠ tss.length then bad else
        (d, showNats (sortNat ((enforce mx ord (ids.zip tss)).map (·.1))))
      | _, _, _, _ => bad
  | _ => bad

def showSlab (s : Slab.Slab) : String :=
  ",".intercalate ((Slab.entries s).map fun p => s!"{p.1}:{p.2}")

def slabStep (s : Slab.Slab) (ws : List String) : Option Slab.Slab :=
  match ws with
  | ["reset"] => some {}
  | ["set", e, v] => match e.toNat?, v.toInt? with
      | some e, some v => some (Slab.set s e v) | _, _ => none
  | ["del", e] => e.toNat?.map (Slab.delete s)
  | ["clear"] => some (Slab.clear s)
  | ["compact"] => some (Slab.compact s)
  | ["reload"] => some (Slab.reload s)
  | _ => none

def bytesLt : List Nat → List Nat → Bool
  | [], [] => false
  | [], _ :: _ => true
  | _ :: _, [] => false
  | a :: r, b :: t => a < b || (a = b && bytesLt r t)

def insertByKey (x : List Nat × Int) : List (List Nat × Int) → List (List Nat × Int)
  | [] => [x]
  | y :: ys => if bytesLt x.1 y.1 then x :: y :: ys else y :: insertByKey x ys

/-- The driver keeps the shard array as DATA (one list per shard) and hands it to the model as the
    function `Shard.Shards` for one operation at a time: a function-typed value is re-evaluated on
    every application by compiled code, which would make nested `reload`s exponential. -/
abbrev MSlab := List (List (List Nat × Int))

def toShards (t : MSlab) : Shard.Shards (List Nat) Int := fun i => t.getD i []

def ofShards (s : Shard.Shards (List Nat) Int) : MSlab := (List.range Shard.shardCount).map s

def showMSlab (t : MSlab) : String :=
  let s := toShards t
  let es := (Shard.entries Shard.shardCount s).foldr insertByKey []
  let item := fun (p : List Nat × Int) =>
    hex p.1 ++ "=" ++ (match Shard.get Shard.shardCount Shard.firstByte s p.1 with
      | some v => toString v | none => "?")
  ",".intercalate (es.map item) ++ s!" #{es.length}"

def mslabStep (t : MSlab) (ws : List String) : Option MSlab :=
  let s := toShards t
  match ws with
  | ["reset"] => some []
  | ["set", k, v] => match unhex k, v.toInt? with
      | some k, some v => some (ofShards (Shard.insert Shard.shardCount Shard.firstByte s (k, v))) | _, _ => none
  | ["del", k] => (unhex k).map fun k => ofShards (Shard.delete Shard.shardCount Shard.firstByte s k)
  | ["reload"] => some (ofShards (Shard.reload Shard.shardCount Shard.firstByte s))
  | _ => none

structure DState where
  db : Db := {}
  snaps : List Store := []     -- byte strings kept OUTSIDE the database (`snap` / `restore i`)
  slab : Slab.Slab := {}
  mslab : MSlab := []

/-- driver state: the database, byte strings kept OUTSIDE it (`snap` / `restore i`:
    bare `snapshot_bytes` / `restore_from_bytes`, no checkpoint manager), and a bare embedding slab -/
def ckptStep (ds : DState) (line : String) : DState × String :=
  match words line with
  | ["reset"] => ({ ds with db := {}, snaps := [] }, "ok")
  | ["snap"] => ({ ds with snaps := ds.snaps ++ [ds.db.st.snapshot] }, s!"id {ds.snaps.length}")
  | ["restore", i] =>
    match i.toNat? with
    | some i => match ds.snaps[i]? with
      | some img => ({ ds with db := { ds.db with st := Store.restoreFrom img ds.db.st } }, "ok")
      | none => (ds, "err notfound")
    | none => (ds, "bad-op")
  | "sl" :: ws =>
    match slabStep ds.slab ws with
    | some s => ({ ds with slab := s }, showSlab s)
    | none => (ds, "bad-op")
  | "ms" :: ws =>
    match mslabStep ds.mslab ws with
    | some s => ({ ds with mslab := s }, showMSlab s)
    | none => (ds, "bad-op")
  | _ => let r := ckptStep1 ds.db line; ({ ds with db := r.1 }, r.2)

def main : IO Unit := run ckptStep {}
