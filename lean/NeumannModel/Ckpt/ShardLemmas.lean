import NeumannModel.Ckpt.Lemmas
import NeumannModel.Ckpt.Shard
/-
  C08 — helper lemmas for the sharded metadata slab (core Lean only).
-/
namespace Neumann.Ckpt.Shard

variable {α β : Type} [DecidableEq α]

/-! ### the one-map build -/

/-- the value of the LAST entry of `data` under `k` (a later insert replaces an earlier one) -/
def lastVal (data : List (α × β)) (k : α) : Option β :=
  match data with
  | [] => none
  | p :: r =>
    match lastVal r k with
    | some v => some v
    | none => if p.1 = k then some p.2 else none

theorem foldl_alPut_get (data : List (α × β)) (m : List (α × β)) (k : α) :
    alGet (data.foldl (fun m p => alPut m p.1 p.2) m) k =
      match lastVal data k with
      | some v => some v
      | none => alGet m k := by
  induction data generalizing m with
  | nil => simp [lastVal]
  | cons p r ih =>
    simp only [List.foldl_cons, ih, lastVal, alGet_alPut]
    cases lastVal r k with
    | some v => rfl
    | none => by_cases e : p.1 = k <;> simp [e]

theorem single_get (data : List (α × β)) (k : α) : alGet (single data) k = lastVal data k := by
  unfold single
  rw [foldl_alPut_get]
  cases lastVal data k <;> simp [alGet]

theorem foldl_alPut_nodup (data : List (α × β)) (m : List (α × β)) (h : (m.map (·.1)).Nodup) :
    ((data.foldl (fun m p => alPut m p.1 p.2) m).map (·.1)).Nodup := by
  induction data generalizing m with
  | nil => exact h
  | cons p r ih => exact ih _ (alPut_nodup m p.1 p.2 h)

theorem single_nodup (data : List (α × β)) : ((single data).map (·.1)).Nodup :=
  foldl_alPut_nodup data [] (by simp)

theorem foldl_alPut_keys (data : List (α × β)) (m : List (α × β)) (k : α) :
    k ∈ (data.foldl (fun m p => alPut m p.1 p.2) m).map (·.1) ↔ k ∈ m.map (·.1) ∨ k ∈ data.map (·.1) := by
  induction data generalizing m with
  | nil => simp
  | cons p r ih =>
    simp only [List.foldl_cons, ih, alPut_keys, List.map_cons, List.mem_cons]
    by_cases hp : p.1 ∈ m.map (·.1)
    · simp only [hp, if_true]
      constructor
      · rintro (h | h)
        · exact Or.inl h
        · exact Or.inr (Or.inr h)
      · rintro (h | h | h)
        · exact Or.inl h
        · subst h; exact Or.inl hp
        · exact Or.inr h
    · simp only [hp, if_false, List.mem_append, List.mem_singleton]
      constructor
      · rintro ((h | h) | h)
        · exact Or.inl h
        · exact Or.inr (Or.inl h)
        · exact Or.inr (Or.inr h)
      · rintro (h | h | h)
        · exact Or.inl (Or.inl h)
        · exact Or.inl (Or.inr h)
        · exact Or.inr h

theorem single_keys (data : List (α × β)) (k : α) :
    k ∈ (single data).map (·.1) ↔ k ∈ data.map (·.1) := by
  unfold single
  rw [foldl_alPut_keys]
  simp

/-- a map with unique keys is rebuilt by the insert loop as it is -/
theorem foldl_alPut_of_nodup (data : List (α × β)) (m : List (α × β))
    (h : (m.map (·.1) ++ data.map (·.1)).Nodup) :
    data.foldl (fun m p => alPut m p.1 p.2) m = m ++ data := by
  induction data generalizing m with
  | nil => simp
  | cons p r ih =>
    have hnot : p.1 ∉ m.map (·.1) := by
      intro hmem
      exact (List.nodup_append.mp h).2.2 _ hmem _ (by simp) rfl
    simp only [List.foldl_cons]
    rw [alPut_append _ _ _ hnot, ih]
    · simp
    · simpa [List.append_assoc] using h

theorem single_of_nodup (data : List (α × β)) (h : (data.map (·.1)).Nodup) : single data = data := by
  unfold single
  rw [foldl_alPut_of_nodup data [] (by simpa using h)]
  simp

/-! ### the shard-array invariant: unique keys per shard, every key in its own shard -/

structure Placed (n : Nat) (sh : α → Nat) (shs : Shards α β) : Prop where
  nodup : ∀ i, ((shs i).map (·.1)).Nodup
  home : ∀ i, ∀ p ∈ shs i, sh p.1 % n = i

omit [DecidableEq α] in
theorem Placed.empty (n : Nat) (sh : α → Nat) : Placed n sh (empty : Shards α β) :=
  ⟨by simp [Shard.empty], by simp [Shard.empty]⟩

theorem Placed.insert {n : Nat} {sh : α → Nat} {shs : Shards α β} (h : Placed n sh shs) (p : α × β) :
    Placed n sh (insert n sh shs p) := by
  constructor
  · intro i
    unfold Shard.insert
    split
    · exact alPut_nodup _ _ _ (h.nodup i)
    · exact h.nodup i
  · intro i q hq
    unfold Shard.insert at hq
    split at hq
    · rename_i hi
      rcases alPut_mem _ _ _ _ hq with hq | hq
      · exact h.home i q hq
      · rw [hq]; exact hi.symm
    · exact h.home i q hq

theorem Placed.foldl {n : Nat} {sh : α → Nat} (data : List (α × β)) {shs : Shards α β}
    (h : Placed n sh shs) : Placed n sh (data.foldl (Shard.insert n sh) shs) := by
  induction data generalizing shs with
  | nil => exact h
  | cons p r ih => exact ih (h.insert p)

theorem Placed.restore (n : Nat) (sh : α → Nat) (data : List (α × β)) :
    Placed n sh (restore n sh data) :=
  Placed.foldl data (Placed.empty n sh)

/-! ### `get` after the insert loop -/

theorem get_insert (n : Nat) (sh : α → Nat) (shs : Shards α β) (p : α × β) (k : α) :
    get n sh (insert n sh shs p) k = if p.1 = k then some p.2 else get n sh shs k := by
  unfold get Shard.insert
  by_cases e : p.1 = k
  · subst e; simp [alGet_alPut]
  · by_cases hi : sh k % n = sh p.1 % n
    · simp [hi, alGet_alPut, e]
    · simp [hi, e]

theorem get_foldl (n : Nat) (sh : α → Nat) (data : List (α × β)) (shs : Shards α β) (k : α) :
    get n sh (data.foldl (Shard.insert n sh) shs) k =
      match lastVal data k with
      | some v => some v
      | none => get n sh shs k := by
  induction data generalizing shs with
  | nil => simp [lastVal]
  | cons p r ih =>
    simp only [List.foldl_cons, ih, lastVal, get_insert]
    cases lastVal r k with
    | some v => rfl
    | none => by_cases e : p.1 = k <;> simp [e]

/-! ### the merged listing -/

omit [DecidableEq α] in
theorem mem_entries (n : Nat) (shs : Shards α β) (p : α × β) :
    p ∈ entries n shs ↔ ∃ i, i < n ∧ p ∈ shs i := by
  simp [entries, List.mem_flatMap, List.mem_range]

omit [DecidableEq α] in
theorem nodup_flatMap_keys (sh : α → Nat) (n : Nat) (l : List Nat) (hl : l.Nodup) (f : Shards α β)
    (h : Placed n sh f) : ((l.flatMap f).map (·.1)).Nodup := by
  induction l with
  | nil => simp
  | cons i r ih =>
    simp only [List.nodup_cons] at hl
    simp only [List.flatMap_cons, List.map_append]
    refine List.nodup_append.mpr ⟨h.nodup i, ih hl.2, ?_⟩
    intro a ha b hb e
    subst e
    obtain ⟨p, hp, rfl⟩ := List.mem_map.mp ha
    obtain ⟨q, hq, hqa⟩ := List.mem_map.mp hb
    obtain ⟨j, hj, hqj⟩ := List.mem_flatMap.mp hq
    have h1 := h.home i p hp
    have h2 := h.home j q hqj
    rw [hqa, h1] at h2
    subst h2
    exact hl.1 hj

omit [DecidableEq α] in
theorem entries_nodup {n : Nat} {sh : α → Nat} {shs : Shards α β} (h : Placed n sh shs) :
    ((entries n shs).map (·.1)).Nodup :=
  nodup_flatMap_keys sh n (List.range n) List.nodup_range shs h

/-- on a placed shard array the merged listing and the per-shard `get` are one and the same map -/
theorem alGet_entries {n : Nat} {sh : α → Nat} {shs : Shards α β} (h : Placed n sh shs) (hn : 0 < n)
    (k : α) : alGet (entries n shs) k = get n sh shs k := by
  cases hg : get n sh shs k with
  | some v =>
    have hm : (k, v) ∈ shs (sh k % n) := alGet_mem _ _ _ hg
    have : (k, v) ∈ entries n shs := (mem_entries n shs _).mpr ⟨_, Nat.mod_lt _ hn, hm⟩
    exact alGet_some_of_mem _ (entries_nodup h) (k, v) this
  | none =>
    cases he : alGet (entries n shs) k with
    | none => rfl
    | some v =>
      exfalso
      obtain ⟨i, _, hi⟩ := (mem_entries n shs _).mp (alGet_mem _ _ _ he)
      have hi' := h.home i _ hi
      dsimp only at hi'
      subst hi'
      have := alGet_some_of_mem _ (h.nodup _) (k, v) hi
      unfold get at hg
      rw [hg] at this
      cases this

end Neumann.Ckpt.Shard
