import NeumannModel.Ckpt.EntIdx
import NeumannModel.Ckpt.SlabLemmas
/-
  C08 — the vocabulary + tombstone index implements the abstract live-key ↦ id map of `Model.lean`
  (helper lemmas; the statements are in `EntIdxProps.lean`).
-/
namespace Neumann.Ckpt.EntIdx
open Neumann.Ckpt Neumann.Ckpt.Slab

theorem find_eq_alGet (k : Nat) (ents : List (Nat × Bool)) (i : Nat) :
    find k ents i = alGet (live ents i) k := by
  induction ents generalizing i with
  | nil => rfl
  | cons p r ih =>
    obtain ⟨x, l⟩ := p
    cases l <;> by_cases h : x = k <;> simp [find, live, alGet, h, ih]

theorem live_snoc (ents : List (Nat × Bool)) (k i : Nat) :
    live (ents ++ [(k, true)]) i = live ents i ++ [(k, i + ents.length)] := by
  induction ents generalizing i with
  | nil => simp [live]
  | cons p r ih =>
    obtain ⟨x, l⟩ := p
    cases l <;> simp [live, ih, Nat.add_assoc, Nat.add_comm 1]

theorem kill_length (k : Nat) (ents : List (Nat × Bool)) : (kill k ents).length = ents.length := by
  induction ents with
  | nil => rfl
  | cons p r ih =>
    obtain ⟨x, l⟩ := p
    by_cases h : x = k ∧ l = true <;> simp [kill, h, ih]

theorem live_kill (k : Nat) (ents : List (Nat × Bool)) (i : Nat)
    (hn : ((live ents i).map (·.1)).Nodup) : live (kill k ents) i = alDel (live ents i) k := by
  induction ents generalizing i with
  | nil => rfl
  | cons p r ih =>
    obtain ⟨x, l⟩ := p
    cases l
    · simp only [live] at hn ⊢
      simp [kill, live, ih (i + 1) hn]
    · simp only [live, if_true, List.map_cons, List.nodup_cons] at hn
      by_cases h : x = k
      · subst h
        simp [kill, live, alDel, alDel_of_not_mem _ _ hn.1]
      · simp [kill, live, alDel, h, ih (i + 1) hn.2]

/-- the refinement relation -/
structure Rep (s : EIdx) (a : AIdx) : Prop where
  eidx : a.eidx = live s.ents 0
  enext : a.enext = s.ents.length
  keys : (a.eidx.map (·.1)).Nodup

theorem Rep.empty : Rep {} {} := ⟨rfl, rfl, by simp⟩

theorem Rep.get {s : EIdx} {a : AIdx} (h : Rep s a) (k : Nat) : get s k = alGet a.eidx k := by
  rw [h.eidx]; exact find_eq_alGet k s.ents 0

theorem Rep.create {s : EIdx} {a : AIdx} (h : Rep s a) (k : Nat) : Rep (create s k) (acreate a k) := by
  have hg := h.get k
  unfold EntIdx.create acreate
  cases hc : alGet a.eidx k with
  | some id => rw [hg, hc]; exact h
  | none =>
    rw [hg, hc]
    refine ⟨?_, ?_, ?_⟩
    · simp [live_snoc, h.eidx, h.enext]
    · simp [h.enext]
    · have hk := not_mem_keys_of_alGet_none _ _ hc
      simp only [List.map_append, List.map_cons, List.map_nil]
      rw [List.nodup_append]
      refine ⟨h.keys, by simp, ?_⟩
      intro x hx y hy
      simp only [List.mem_singleton] at hy
      subst hy
      exact fun e => hk (e ▸ hx)

theorem Rep.remove {s : EIdx} {a : AIdx} (h : Rep s a) (k : Nat) : Rep (remove s k) (aremove a k) := by
  refine ⟨?_, ?_, ?_⟩
  · simp only [EntIdx.remove, aremove]
    rw [live_kill k s.ents 0 (h.eidx ▸ h.keys), h.eidx]
  · simp [EntIdx.remove, aremove, kill_length, h.enext]
  · exact alDel_nodup _ _ h.keys

theorem Rep.run {s : EIdx} {a : AIdx} (h : Rep s a) (ops : List IOp) : Rep (irun s ops) (arun a ops) := by
  induction ops generalizing s a with
  | nil => exact h
  | cons op r ih =>
    cases op with
    | create k => exact ih (h.create k)
    | remove k => exact ih (h.remove k)


/-! ### index + slab: the key-level view -/

theorem find_ge (k : Nat) (ents : List (Nat × Bool)) (i j : Nat) (h : find k ents i = some j) : i ≤ j := by
  induction ents generalizing i with
  | nil => simp [find] at h
  | cons p r ih =>
    obtain ⟨x, l⟩ := p
    by_cases c : x = k ∧ l = true
    · simp [find, c] at h; omega
    · simp only [find, c, if_false] at h
      have := ih (i + 1) h
      omega

/-- two keys never resolve to one id -/
theorem find_inj (k k' : Nat) (ents : List (Nat × Bool)) (i j : Nat)
    (h : find k ents i = some j) (h' : find k' ents i = some j) : k = k' := by
  induction ents generalizing i with
  | nil => simp [find] at h
  | cons p r ih =>
    obtain ⟨x, l⟩ := p
    by_cases c : x = k ∧ l = true
    · by_cases c' : x = k' ∧ l = true
      · exact c.1.symm.trans c'.1
      · simp only [find, c, and_self, if_true, Option.some.injEq] at h
        simp only [find, c', if_false] at h'
        have := find_ge k' r (i + 1) j h'
        omega
    · by_cases c' : x = k' ∧ l = true
      · simp only [find, c', and_self, if_true, Option.some.injEq] at h'
        simp only [find, c, if_false] at h
        have := find_ge k r (i + 1) j h
        omega
      · simp only [find, c, if_false] at h
        simp only [find, c', if_false] at h'
        exact ih (i + 1) h h'

theorem Rep.get_create {s : EIdx} {a : AIdx} (h : Rep s a) (k x : Nat) :
    EntIdx.get (EntIdx.create s k) x =
      if k = x then (match EntIdx.get s k with | some id => some id | none => some s.ents.length)
      else EntIdx.get s x := by
  rw [(h.create k).get x, h.get x, h.get k]
  unfold acreate
  cases hc : alGet a.eidx k with
  | some id =>
    by_cases e : k = x
    · subst e; simp [hc]
    · simp [e]
  | none =>
    simp only [alGet_snoc]
    by_cases e : k = x
    · subst e; simp [hc, h.enext]
    · simp [e]; cases alGet a.eidx x <;> rfl

theorem Rep.get_remove {s : EIdx} {a : AIdx} (h : Rep s a) (k x : Nat) :
    EntIdx.get (EntIdx.remove s k) x = if k = x then none else EntIdx.get s x := by
  rw [(h.remove k).get x, h.get x]
  simp [aremove, alGet_alDel]

structure ERep (s : ER) (m : List (Nat × Int)) : Prop where
  rep : ∃ a, Rep s.idx a
  look : ∀ x, look s x = alGet m x

theorem ERep.empty : ERep {} [] := ⟨⟨{}, Rep.empty⟩, fun _ => rfl⟩

theorem ERep.step {s : ER} {m : List (Nat × Int)} (h : ERep s m) (op : EOp) : ERep (estep s op) (mstep m op) := by
  obtain ⟨⟨a, ha⟩, hl⟩ := h
  cases op with
  | put k v =>
    refine ⟨⟨_, ha.create k⟩, fun x => ?_⟩
    have hk := ha.get_create k k
    simp only [if_true] at hk
    obtain ⟨id, hid⟩ : ∃ id, get (create s.idx k) k = some id := by
      rw [hk]; cases get s.idx k <;> simp
    simp only [estep, mstep, EntIdx.look, hid, Option.getD_some, alGet_alPut]
    by_cases e : k = x
    · subst e; simp [hid, alGet_alPut]
    · have hx := ha.get_create k x
      simp only [e, if_false] at hx
      rw [hx]
      have := hl x
      simp only [EntIdx.look] at this
      cases hg : get s.idx x with
      | none => rw [hg] at this; simpa [e] using this
      | some id' =>
        rw [hg] at this
        have hne : id ≠ id' := by
          intro e2
          subst e2
          exact e (find_inj k x _ 0 id hid (hx.trans hg))
        simp only [Option.bind_some, e, if_false] at this ⊢
        rw [alGet_alPut]; simp [hne, this]
  | del k =>
    simp only [estep, mstep]
    cases hg : get s.idx k with
    | none =>
      refine ⟨⟨a, ha⟩, fun x => ?_⟩
      rw [alGet_alDel, hl x]
      by_cases e : k = x
      · subst e
        have := hl k
        simp only [EntIdx.look, hg, Option.bind_none] at this
        simp [this]
      · simp [e]
    | some id =>
      refine ⟨⟨_, ha.remove k⟩, fun x => ?_⟩
      simp only [EntIdx.look, ha.get_remove k x, alGet_alDel]
      by_cases e : k = x
      · simp [e]
      · simp only [e, if_false]
        have := hl x
        simp only [EntIdx.look] at this
        cases hx : get s.idx x with
        | none => rw [hx] at this; simpa using this
        | some id' =>
          rw [hx] at this
          have hne : id ≠ id' := by
            intro e2
            subst e2
            exact e (find_inj k x _ 0 id hg hx)
          simp only [Option.bind_some] at this ⊢
          rw [alGet_alDel]; simp [hne, this]

theorem ERep.run {s : ER} {m : List (Nat × Int)} (h : ERep s m) (ops : List EOp) :
    ERep (erun s ops) (mrun m ops) := by
  induction ops generalizing s m with
  | nil => exact h
  | cons op r ih => exact ih (h.step op)

end Neumann.Ckpt.EntIdx
