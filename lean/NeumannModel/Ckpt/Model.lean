/-
  C08 — checkpoint / rollback model (import-free, executable).

  Mirrors, as the code is:
  * `tensor_store::SlabRouter` {put,get,delete,exists,scan,clear} with its key classes
    (`emb:` → entity index + embedding slab + metadata slab, `_cache:` → cache ring, everything
    else → metadata slab) and `TensorStore::{snapshot_bytes,restore_from_bytes}`:
    the snapshot captures EVERY slab (also the relational slab), the restore does
    `clear(); for key in new_router.scan("") { put(key, new_router.get(key)) }` — i.e. only what is
    reachable through the key-addressed `scan`/`get` comes back; the relational slab does not.
  * the engines layered on the store, with the state they keep OUTSIDE the store:
    relational (tables = `_meta:table:` key + rows in the relational slab; hash index = `_idx:` keys;
    b-tree index = `_btree:` keys + in-memory `btree_indexes`), graph (`node:`/`edge:` keys,
    in-memory id counters and label index), vector (`emb:` keys, in-memory HNSW cache).
  * `tensor_checkpoint`: the checkpoint blobs live in a `BlobStore` that `QueryRouter::init_blob`
    builds over THE SAME `TensorStore` (`self.vector.store().clone()`), so the set of live
    checkpoint records is itself part of what is snapshotted / wiped / re-put (`Store.cps`).
    `CheckpointManager::rollback` = `restore_from_bytes`; the router re-attaches nothing.
  * `RetentionManager::enforce`: list = blob `by_tag` order (hash-set order: an input here),
    stable sort by `created_at` descending, delete everything after the first `max`.
  * `CheckpointStorage::find_by_id_or_name` (used by `load` = rollback): the entry of that
    newest-first listing whose ID equals the target string, else the first entry whose NAME equals
    it (fff752bd; the earlier one-pass rule is `resolveOld`); `CheckpointManager::delete` resolves
    its target through the same function (14af22de; its earlier inline one-pass lookup is
    `doCkDelOld`);
    `CheckpointManager::list(limit)`: the first `limit` entries of it.

  Not modelled: table_count / row_counters (no observable effect with the default config),
  tombstones of the entity index (ids are not observable), HNSW approximation (the cached index
  is its exact key→vector snapshot; searches here ask for all results), timestamps inside values.
-/
namespace Neumann.Ckpt

abbrev Vec := List Int

/-- storage keys, by family (what the real code builds with `format!`) -/
inductive Key
  | tmeta (t : Nat)            -- `_meta:table:t`
  | hmeta (t : Nat)            -- `_idx:t:k`          (hash index on column k)
  | hent (t : Nat) (v : Int)   -- `_idx:t:k:<hash v>`
  | bmeta (t : Nat)            -- `_btree:t:v`        (b-tree index on column v)
  | bent (t : Nat) (v : Int)   -- `_btree:t:v:<sortable v>`
  | node (i : Nat) | nout (i : Nat) | nin (i : Nat) | edge (i : Nat)
  | gidx (onEdges : Bool)      -- `_graph_idx:node:_label` / `_graph_idx:edge:_edge_type`
  | emb (k : Nat)              -- `emb:k`
  | cache (k : Nat)            -- `_cache:k`
  | plain (k : Nat)             -- any other key
  deriving DecidableEq, Repr

inductive Val
  | unit                                   -- schema / index metadata
  | ids (l : List Nat)                     -- row-id list / edge-id list
  | node (label : Nat)
  | edge (src dst : Nat)
  | vec (v : Vec)                          -- vector engine: {"vector": v}
  | raw (x : Option Int) (e : Option Int)  -- plain TensorData {"x": x, "_embedding": [e; dim]}
  deriving DecidableEq, Repr

structure Row where
  alive : Bool
  k : Int
  v : Int
  deriving DecidableEq, Repr

/-! ### association lists (insertion ordered, replace in place) -/

def alGet {α β} [DecidableEq α] : List (α × β) → α → Option β
  | [], _ => none
  | (k, v) :: r, x => if k = x then some v else alGet r x

def alPut {α β} [DecidableEq α] : List (α × β) → α → β → List (α × β)
  | [], x, y => [(x, y)]
  | (k, v) :: r, x, y => if k = x then (k, y) :: r else (k, v) :: alPut r x y

def alDel {α β} [DecidableEq α] : List (α × β) → α → List (α × β)
  | [], _ => []
  | (k, v) :: r, x => if k = x then alDel r x else (k, v) :: alDel r x

def alHas {α β} [DecidableEq α] (l : List (α × β)) (x : α) : Bool := (alGet l x).isSome

/-! ### the slab router -/

structure Store where
  md : List (Key × Val) := []       -- metadata slab
  eidx : List (Nat × Nat) := []       -- entity index: emb key ↦ entity id
  enext : Nat := 0                    -- next entity id (vocabulary length)
  eslab : List (Nat × Int) := []      -- embedding slab: entity id ↦ vector
  cache : List (Nat × Val) := []      -- cache ring (capacity never reached here)
  rel : List (Nat × List Row) := []   -- relational slab: table ↦ rows (position = slab row id)
  cps : List (Nat × Nat) := []        -- live checkpoint blob records (id, created_at): metadata keys
  deriving DecidableEq, Repr

namespace Store

def empty : Store := {}

/-- `get` merges the slab vector into the `_embedding` field -/
def withEmb : Val → Int → Val
  | .raw x _, e => .raw x (some e)
  | v, _ => v   -- unreachable under the store invariant (slab entry only for raw values)

def put (s : Store) (k : Key) (v : Val) : Store :=
  match k with
  | .emb n =>
    let r : Nat × List (Nat × Nat) × Nat :=
      match alGet s.eidx n with
      | some id => (id, s.eidx, s.enext)
      | none => (s.enext, s.eidx ++ [(n, s.enext)], s.enext + 1)
    let eslab' := match v with
      | .raw _ (some e) => alPut s.eslab r.1 e
      | _ => alDel s.eslab r.1
    { s with eidx := r.2.1, enext := r.2.2, eslab := eslab', md := alPut s.md k v }
  | .cache n => { s with cache := alPut s.cache n v }
  | _ => { s with md := alPut s.md k v }

def get (s : Store) (k : Key) : Option Val :=
  match k with
  | .emb n =>
    match alGet s.eidx n with
    | some id =>
      match alGet s.eslab id with
      | some e => some (withEmb ((alGet s.md k).getD (.raw none none)) e)
      | none => alGet s.md k
    | none => alGet s.md k
  | .cache n => alGet s.cache n
  | _ => alGet s.md k

def has (s : Store) (k : Key) : Bool :=
  match k with
  | .emb n => alHas s.eidx n || alHas s.md k
  | .cache n => alHas s.cache n
  | _ => alHas s.md k

/-- `none` = NotFound -/
def delete (s : Store) (k : Key) : Option Store :=
  if !s.has k then none else
  match k with
  | .emb n =>
    let eslab' := match alGet s.eidx n with
      | some id => alDel s.eslab id
      | none => s.eslab
    some { s with eslab := eslab', eidx := alDel s.eidx n, md := alDel s.md k }
  | .cache n => some { s with cache := alDel s.cache n }
  | _ => some { s with md := alDel s.md k }

/-- delete, ignoring NotFound -/
def del (s : Store) (k : Key) : Store := (s.delete k).getD s

/-- `scan("")`: metadata keys ∪ entity-index keys ∪ cache keys (a hash set in the code; the order
    chosen here is one of its orders — the restored content does not depend on it) -/
def scanAll (s : Store) : List Key :=
  let mk := s.md.map (·.1)
  mk ++ ((s.eidx.map fun p => Key.emb p.1).filter fun k => !mk.contains k)
     ++ s.cache.map fun p => Key.cache p.1

/-- `SlabRouter::clear` -/
def clear (_ : Store) : Store := {}

/-- `snapshot_bytes`: every slab is serialised -/
def snapshot (s : Store) : Store := s

/-- `snapshot_bytes` with the per-vector codec of `EmbeddingSlab::snapshot` made explicit: the
    embedding-slab copy of every vector goes through the snapshot's compression (`cz` = decompress ∘
    compress: sparse / tensor-train / dense, float arithmetic outside this model); the metadata slab,
    which holds the same `_embedding` field exactly, does not.  `snapshot` is `snapshotWith id`:
    the model's vectors (integers, constant `_embedding`s) are ones the codec returns exactly
    (`Props.snapshot_codec_exact_on_stored_vectors`); a vector it does not return exactly comes back
    perturbed, because `get` on the image prefers the slab copy
    (`Props.dense_embedding_perturbed_witness`). -/
def snapshotWith (cz : Int → Int) (s : Store) : Store :=
  { s with eslab := s.eslab.map fun p => (p.1, cz p.2) }

def reput (img : Store) (acc : Store) (k : Key) : Store :=
  match img.get k with
  | some v => acc.put k v
  | none => acc

/-- `restore_from_bytes(bytes)` with `img = from_bytes(bytes)`.  The checkpoint blob records are
    ordinary metadata keys of the same store: wiped and re-put with the rest. -/
def restoreFrom (img : Store) (s : Store) : Store :=
  { (img.scanAll.foldl (reput img) (clear s)) with cps := img.cps }

end Store

/-! ### engine-side state (not in the store) -/

structure Eng where
  btree : List (Nat × List (Int × List Nat)) := []   -- relational `btree_indexes` (table ↦ value ↦ row ids)
  nodeCtr : Nat := 0
  edgeCtr : Nat := 0
  labelIdx : Option (List (Nat × List Nat)) := none   -- graph in-memory `_label` index
  labelInit : Bool := false
  etypeIdx : Bool := false                            -- in-memory `_edge_type` index exists
  etypeInit : Bool := false
  hnsw : Option (List (Nat × Vec)) := none            -- vector `hnsw_cache["_default"]`
  deriving DecidableEq, Repr

structure Ckpt where
  id : Nat
  ts : Nat
  name : Nat      -- `checkpoint_name` (a string; ids and names share one code space, see `ckMatches`)
  img : Store
  deriving DecidableEq, Repr

structure Db where
  st : Store := {}
  eng : Eng := {}
  arch : List Ckpt := []     -- every checkpoint blob ever written (content by id; blobs are immutable)
  nextCk : Nat := 0
  maxCk : Nat := 10
  deriving DecidableEq, Repr

inductive Err | notFound | exists | storage | bad
  deriving DecidableEq, Repr

inductive Res
  | ok
  | id (n : Nat)
  | count (n : Nat)
  | err (e : Err)
  deriving DecidableEq, Repr

inductive Op
  | rcreate (t : Nat) | rdrop (t : Nat) | rins (t : Nat) (k v : Int) | rdel (t : Nat) (k : Int)
  | rhidx (t : Nat) | rbidx (t : Nat)
  | gnode (label : Nat) | gedge (a b : Nat) | gdeln (i : Nat) | gdele (i : Nat)
  | vput (k : Nat) (v : Vec) | vdel (k : Nat) | vbuild
  | kput (cls : Nat) (k : Nat) (x : Int) (e : Option Int) | kdel (cls : Nat) (k : Nat)
  | ckpt (ts : Nat) (ord : List Nat) (name : Nat)
  | ackpt (ts : Nat) (ord : List Nat) (name : Nat)   -- `CheckpointManager::create_auto` (name `auto-before-<op>`)
  | rollback (x : Nat) (ord : List Nat)       -- `ROLLBACK TO x`: x is an id OR a name
  | ckdel (x : Nat) (ord : List Nat)          -- `CheckpointManager::delete(x)`
  | setmax (n : Nat)
  deriving DecidableEq, Repr

/-! ### relational engine -/

def idsOf : Option Val → List Nat
  | some (.ids l) => l
  | _ => []

/-- `index_add` / the store half of `btree_index_add` -/
def idxAdd (s : Store) (k : Key) (rid : Nat) : Store :=
  let ids := idsOf (s.get k)
  if ids.contains rid then s else s.put k (.ids (ids ++ [rid]))

/-- `index_remove` / the store half of `btree_index_remove` -/
def idxRemove (s : Store) (k : Key) (rid : Nat) : Store :=
  match s.get k with
  | some v =>
    let ids := (idsOf (some v)).filter (· ≠ rid)
    if ids.isEmpty then s.del k else s.put k (.ids ids)
  | none => s

/-- in-memory half of `btree_index_add` (`entry(table).or_default()`, push unless present) -/
def btAdd (bt : List (Nat × List (Int × List Nat))) (t : Nat) (v : Int) (rid : Nat) :
    List (Nat × List (Int × List Nat)) :=
  let m := (alGet bt t).getD []
  let ids := (alGet m v).getD []
  alPut bt t (alPut m v (if ids.contains rid then ids else ids ++ [rid]))

def btRemove (bt : List (Nat × List (Int × List Nat))) (t : Nat) (v : Int) (rid : Nat) :
    List (Nat × List (Int × List Nat)) :=
  match alGet bt t with
  | none => bt
  | some m =>
    match alGet m v with
    | none => bt
    | some ids =>
      let ids' := ids.filter (· ≠ rid)
      alPut bt t (if ids'.isEmpty then alDel m v else alPut m v ids')

def hasTable (s : Store) (t : Nat) : Bool := s.has (.tmeta t)

def setRel (s : Store) (t : Nat) (rows : List Row) : Store := { s with rel := alPut s.rel t rows }

/-- rows of `scan_all`: (engine row id, k, v) of the alive slots -/
def aliveRows (rows : List Row) : List (Nat × Int × Int) :=
  (rows.zipIdx.filter fun p => p.1.alive).map fun p => (p.2 + 1, p.1.k, p.1.v)

def rCreate (d : Db) (t : Nat) : Db × Res :=
  if hasTable d.st t then (d, .err .exists) else
  if alHas d.st.rel t then (d, .err .storage) else
  ({ d with st := (setRel d.st t []).put (.tmeta t) .unit }, .ok)

def rInsert (d : Db) (t : Nat) (k v : Int) : Db × Res :=
  if !hasTable d.st t then (d, .err .notFound) else
  match alGet d.st.rel t with
  | none => (d, .err .storage)
  | some rows =>
    let rid := rows.length + 1
    let s1 := setRel d.st t (rows ++ [⟨true, k, v⟩])
    let s2 := if s1.has (.hmeta t) then idxAdd s1 (.hent t k) rid else s1
    let hasB := s2.has (.bmeta t)
    let bt := if hasB then btAdd d.eng.btree t v rid else d.eng.btree
    let s3 := if hasB then idxAdd s2 (.bent t v) rid else s2
    ({ d with st := s3, eng := { d.eng with btree := bt } }, .id rid)

/-- one matching row of `tx_delete`: unindex, then mark the slot dead -/
def rDeleteRow (t : Nat) (hasH hasB : Bool) (acc : Store × List (Nat × List (Int × List Nat)))
    (r : Nat × Int × Int) : Store × List (Nat × List (Int × List Nat)) :=
  let s1 := if hasH then idxRemove acc.1 (.hent t r.2.1) r.1 else acc.1
  let bt := if hasB then btRemove acc.2 t r.2.2 r.1 else acc.2
  let s2 := if hasB then idxRemove s1 (.bent t r.2.2) r.1 else s1
  let rows := (alGet s2.rel t).getD []
  let rows' := rows.zipIdx.map fun p => if p.2 + 1 = r.1 then { p.1 with alive := false } else p.1
  (setRel s2 t rows', bt)

def rDelete (d : Db) (t : Nat) (k : Int) : Db × Res :=
  if !hasTable d.st t then (d, .err .notFound) else
  match alGet d.st.rel t with
  | none => (d, .err .storage)
  | some rows =>
    let hit := (aliveRows rows).filter fun r => r.2.1 = k
    let r := hit.foldl (rDeleteRow t (d.st.has (.hmeta t)) (d.st.has (.bmeta t))) (d.st, d.eng.btree)
    ({ d with st := r.1, eng := { d.eng with btree := r.2 } }, .count hit.length)

def isIdxKeyOf (t : Nat) : Key → Bool
  | .hmeta t' => t = t' | .hent t' _ => t = t' | .bmeta t' => t = t' | .bent t' _ => t = t'
  | _ => false

/-- `drop_table`: slab table, `_idx:t:*`, `_btree:t:*`, meta key; the in-memory b-tree stays -/
def rDrop (d : Db) (t : Nat) : Db × Res :=
  if !hasTable d.st t then (d, .err .notFound) else
  let s1 := { d.st with rel := alDel d.st.rel t }
  let s2 := ((s1.md.map (·.1)).filter (isIdxKeyOf t)).foldl Store.del s1
  ({ d with st := s2.del (.tmeta t) }, .ok)

def rHidx (d : Db) (t : Nat) : Db × Res :=
  if !hasTable d.st t then (d, .err .notFound) else
  if d.st.has (.hmeta t) then (d, .err .exists) else
  let s1 := d.st.put (.hmeta t) .unit
  match alGet s1.rel t with
  | none => ({ d with st := s1 }, .err .storage)
  | some rows =>
    ({ d with st := (aliveRows rows).foldl (fun s r => idxAdd s (.hent t r.2.1) r.1) s1 }, .ok)

def rBidx (d : Db) (t : Nat) : Db × Res :=
  if !hasTable d.st t then (d, .err .notFound) else
  if d.st.has (.bmeta t) then (d, .err .exists) else
  let s1 := d.st.put (.bmeta t) .unit
  let bt0 := alPut d.eng.btree t ((alGet d.eng.btree t).getD [])
  match alGet s1.rel t with
  | none => ({ d with st := s1, eng := { d.eng with btree := bt0 } }, .err .storage)
  | some rows =>
    let r := (aliveRows rows).foldl
      (fun (acc : Store × List (Nat × List (Int × List Nat))) r =>
        (idxAdd acc.1 (.bent t r.2.2) r.1, btAdd acc.2 t r.2.2 r.1)) (s1, bt0)
    ({ d with st := r.1, eng := { d.eng with btree := r.2 } }, .ok)

/-- query answers: rows or an error -/
inductive Rows
  | ok (l : List (Nat × Int × Int))
  | error (e : Err)
  deriving DecidableEq, Repr

def insertById (r : Nat × Int × Int) : List (Nat × Int × Int) → List (Nat × Int × Int)
  | [] => [r]
  | x :: xs => if r.1 < x.1 then r :: x :: xs else x :: insertById r xs

/-- `rows.sort_by_key(|r| r.id)` (stable) -/
def sortById (l : List (Nat × Int × Int)) : List (Nat × Int × Int) := l.foldr insertById []

/-- `get_rows_by_indices`: one result per requested id that is in range and alive -/
def rowsByIds (rows : List Row) (ids : List Nat) : List (Nat × Int × Int) :=
  ids.filterMap fun id =>
    match rows[id - 1]? with
    | some r => if id ≥ 1 ∧ r.alive then some (id, r.k, r.v) else none
    | none => none

/-- `SELECT * FROM t` -/
def qScan (d : Db) (t : Nat) : Rows :=
  if !hasTable d.st t then .error .notFound else
  match alGet d.st.rel t with
  | none => .error .storage
  | some rows => .ok (sortById (aliveRows rows))

/-- `SELECT * FROM t WHERE k = x` (hash-index path when `_idx:t:k` exists) -/
def qEq (d : Db) (t : Nat) (x : Int) : Rows :=
  if !hasTable d.st t then .error .notFound else
  if d.st.has (.hmeta t) then
    let ids := idsOf (d.st.get (.hent t x))
    match alGet d.st.rel t with
    | none => .error .storage
    | some rows => .ok (sortById ((rowsByIds rows ids).filter fun r => r.2.1 = x))
  else
    match alGet d.st.rel t with
    | none => .error .storage
    | some rows => .ok (sortById ((aliveRows rows).filter fun r => r.2.1 = x))

/-- `SELECT * FROM t WHERE v < x` (b-tree path when `_btree:t:v` exists and the engine holds a map) -/
def qLt (d : Db) (t : Nat) (x : Int) : Rows :=
  if !hasTable d.st t then .error .notFound else
  match (if d.st.has (.bmeta t) then alGet d.eng.btree t else none) with
  | some m =>
    let ids := (m.filter fun p => p.1 < x).flatMap (·.2)
    match alGet d.st.rel t with
    | none => .error .storage
    | some rows => .ok (sortById ((rowsByIds rows ids).filter fun r => r.2.2 < x))
  | none =>
    match alGet d.st.rel t with
    | none => .error .storage
    | some rows => .ok (sortById ((aliveRows rows).filter fun r => r.2.2 < x))

/-- `list_tables` -/
def tables (d : Db) : List Nat :=
  d.st.md.filterMap fun p => match p.1 with | .tmeta t => some t | _ => none

/-! ### graph engine -/

def nodeIds (s : Store) : List Nat :=
  s.md.filterMap fun p => match p.1 with | .node i => some i | _ => none

def edgeIds (s : Store) : List Nat :=
  s.md.filterMap fun p => match p.1 with | .edge i => some i | _ => none

def nodeLabel (s : Store) (i : Nat) : Option Nat :=
  match s.get (.node i) with | some (.node l) => some l | _ => none

def edgeEnds (s : Store) (i : Nat) : Option (Nat × Nat) :=
  match s.get (.edge i) with | some (.edge a b) => some (a, b) | _ => none

/-- `create_property_index(Node,"_label")`: scan every node into label ↦ ids -/
def buildLabelIdx (s : Store) : List (Nat × List Nat) :=
  (nodeIds s).foldl (fun m i =>
    match nodeLabel s i with
    | some l => alPut m l ((alGet m l).getD [] ++ [i])
    | none => m) []

def ensureLabelIdx (d : Db) : Db :=
  if d.eng.labelInit then d else
  match d.eng.labelIdx with
  | some _ => { d with eng := { d.eng with labelInit := true } }
  | none =>
    { d with st := d.st.put (.gidx false) .unit,
             eng := { d.eng with labelIdx := some (buildLabelIdx d.st), labelInit := true } }

def ensureEtypeIdx (d : Db) : Db :=
  if d.eng.etypeInit then d else
  if d.eng.etypeIdx then { d with eng := { d.eng with etypeInit := true } } else
  { d with st := d.st.put (.gidx true) .unit,
           eng := { d.eng with etypeIdx := true, etypeInit := true } }

def gNode (d0 : Db) (label : Nat) : Db × Res :=
  let d := ensureLabelIdx d0
  let id := d.eng.nodeCtr + 1
  let s := ((d.st.put (.node id) (.node label)).put (.nout id) (.ids [])).put (.nin id) (.ids [])
  let li := d.eng.labelIdx.map fun m => alPut m label ((alGet m label).getD [] ++ [id])
  ({ d with st := s, eng := { d.eng with nodeCtr := id, labelIdx := li } }, .id id)

/-- `add_edge_to_list` -/
def listAdd (s : Store) (k : Key) (e : Nat) : Store :=
  let ids := idsOf (s.get k)
  s.put k (.ids (if ids.contains e then ids else ids ++ [e]))

/-- `remove_edge_from_list` -/
def listRemove (s : Store) (k : Key) (e : Nat) : Store :=
  match s.get k with
  | some v => s.put k (.ids ((idsOf (some v)).filter (· ≠ e)))
  | none => s

def gEdge (d0 : Db) (a b : Nat) : Db × Res :=
  let d := ensureEtypeIdx d0
  if !d.st.has (.node a) then (d, .err .notFound) else
  if !d.st.has (.node b) then (d, .err .notFound) else
  let id := d.eng.edgeCtr + 1
  let s := listAdd (listAdd (d.st.put (.edge id) (.edge a b)) (.nout a) id) (.nin b) id
  ({ d with st := s, eng := { d.eng with edgeCtr := id } }, .id id)

def gDelEdge (d : Db) (i : Nat) : Db × Res :=
  match edgeEnds d.st i with
  | none => (d, .err .notFound)
  | some (a, b) =>
    let s := (listRemove (listRemove d.st (.nout a) i) (.nin b) i).del (.edge i)
    ({ d with st := s }, .ok)

def dedupNat : List Nat → List Nat
  | [] => []
  | x :: xs => x :: (dedupNat xs).filter (· ≠ x)

def unindexLabel (m : List (Nat × List Nat)) (label id : Nat) : List (Nat × List Nat) :=
  match alGet m label with
  | none => m
  | some ids =>
    let ids' := ids.filter (· ≠ id)
    if ids'.isEmpty then alDel m label else alPut m label ids'

def gDelNode (d : Db) (i : Nat) : Db × Res :=
  match nodeLabel d.st i with
  | none => (d, .err .notFound)
  | some label =>
    let es := dedupNat (idsOf (d.st.get (.nout i)) ++ idsOf (d.st.get (.nin i)))
    let s1 := es.foldl (fun s e =>
      match edgeEnds s e with
      | some (a, b) =>
        let other := if a = i then b else a
        let s' := if a = i then listRemove s (.nin other) e else s
        let s'' := if b = i then listRemove s' (.nout other) e else s'
        s''.del (.edge e)
      | none => s.del (.edge e)) d.st
    let li := d.eng.labelIdx.map fun m => unindexLabel m label i
    let s2 := ((s1.del (.node i)).del (.nout i)).del (.nin i)
    ({ d with st := s2, eng := { d.eng with labelIdx := li } }, .ok)

def insertNat (x : Nat) : List Nat → List Nat
  | [] => [x]
  | y :: ys => if x < y then x :: y :: ys else y :: insertNat x ys

def sortNat (l : List Nat) : List Nat := l.foldr insertNat []

/-- `all_nodes`: (id, label), by id -/
def qNodes (d : Db) : List (Nat × Nat) :=
  (sortNat (nodeIds d.st)).filterMap fun i => (nodeLabel d.st i).map fun l => (i, l)

/-- `all_edges`: (id, from, to), by id -/
def qEdges (d : Db) : List (Nat × Nat × Nat) :=
  (sortNat (edgeIds d.st)).filterMap fun i => (edgeEnds d.st i).map fun p => (i, p.1, p.2)

/-- `neighbors(i, None, Both, None)`; `none` = NodeNotFound -/
def qNeighbors (d : Db) (i : Nat) : Option (List Nat) :=
  if !d.st.has (.node i) then none else
  let pick := fun (e : Nat) => match edgeEnds d.st e with
    | some (a, b) => if a = i ∧ b ≠ i then [b] else if b = i ∧ a ≠ i then [a] else []
    | none => []
  let cand := (idsOf (d.st.get (.nout i))).flatMap pick ++ (idsOf (d.st.get (.nin i))).flatMap pick
  some ((sortNat (dedupNat cand)).filter fun j => (nodeLabel d.st j).isSome)

/-- `find_nodes_by_label`: through the in-memory index when the engine holds one, else by scan -/
def qByLabel (d : Db) (label : Nat) : List Nat :=
  match d.eng.labelIdx with
  | some m => sortNat (((alGet m label).getD []).filter fun i => (nodeLabel d.st i).isSome)
  | none => (sortNat (nodeIds d.st)).filter fun i => nodeLabel d.st i = some label

/-! ### vector engine -/

def embKeys (s : Store) : List Nat :=
  s.scanAll.filterMap fun k => match k with | .emb n => some n | _ => none

def getEmbedding (s : Store) (k : Nat) : Option Vec :=
  match s.get (.emb k) with | some (.vec v) => some v | _ => none

def vPut (d : Db) (k : Nat) (v : Vec) : Db × Res :=
  if v.isEmpty then (d, .err .bad) else
  ({ d with st := d.st.put (.emb k) (.vec v), eng := { d.eng with hnsw := none } }, .ok)

def vDel (d : Db) (k : Nat) : Db × Res :=
  match d.st.delete (.emb k) with
  | none => (d, .err .notFound)
  | some s => ({ d with st := s, eng := { d.eng with hnsw := none } }, .ok)

/-- `build_and_cache_index`: fails if any `emb:` key has no vector or the dimensions differ -/
def vBuild (d : Db) : Db × Res :=
  let keys := embKeys d.st
  match keys.mapM (fun k => (getEmbedding d.st k).map fun v => (k, v)) with
  | none => (d, .err .notFound)
  | some kvs =>
    match kvs with
    | [] => ({ d with eng := { d.eng with hnsw := some [] } }, .ok)
    | (_, v0) :: _ =>
      if kvs.all fun p => p.2.length = v0.length then
        ({ d with eng := { d.eng with hnsw := some kvs } }, .ok)
      else (d, .err .bad)

/-- every stored embedding (key, vector), by key -/
def qEmbs (d : Db) : List (Nat × Vec) :=
  (sortNat (embKeys d.st)).filterMap fun k => (getEmbedding d.st k).map fun v => (k, v)

/-- `search_similar(q, top_k ≥ everything)`: the key set answered (by key) -/
def qSearch (d : Db) (q : Vec) : List Nat :=
  if q.all (· = 0) then [] else
  match d.eng.hnsw with
  | some ((k0, v0) :: rest) =>
    if v0.length = q.length then sortNat (((k0, v0) :: rest).map (·.1))
    else sortNat ((embKeys d.st).filter fun k =>
      match getEmbedding d.st k with | some v => v.length = q.length | none => false)
  | _ => sortNat ((embKeys d.st).filter fun k =>
      match getEmbedding d.st k with | some v => v.length = q.length | none => false)

/-! ### raw store access (TensorStore::put/get/delete on plain, cache and `emb:` keys) -/

def rawKey (cls k : Nat) : Key :=
  if cls = 1 then .cache k else if cls = 2 then .emb k else .plain k

def kPut (d : Db) (cls k : Nat) (x : Int) (e : Option Int) : Db × Res :=
  ({ d with st := d.st.put (rawKey cls k) (.raw (some x) (if cls = 2 then e else none)) }, .ok)

def kDel (d : Db) (cls k : Nat) : Db × Res :=
  match d.st.delete (rawKey cls k) with
  | none => (d, .err .notFound)
  | some s => ({ d with st := s }, .ok)

def isRawKey : Key → Bool
  | .plain _ => true | .cache _ => true | .emb _ => true | _ => false

/-- everything `scan("")`+`get` shows under the plain / cache / emb families -/
def qRaw (d : Db) : List (Key × Val) :=
  (d.st.scanAll.filter isRawKey).filterMap fun k => (d.st.get k).map fun v => (k, v)

/-! ### checkpoints -/

def insertDesc (x : Nat × Nat) : List (Nat × Nat) → List (Nat × Nat)
  | [] => [x]
  | y :: ys => if y.2 > x.2 then y :: insertDesc x ys else x :: y :: ys

/-- `sort_by(|a,b| b.created_at.cmp(&a.created_at))` — stable -/
def sortDesc (l : List (Nat × Nat)) : List (Nat × Nat) := l.foldr insertDesc []

def dedupNat' : List Nat → List Nat
  | [] => []
  | x :: xs => x :: (dedupNat' xs).filter (· ≠ x)

/-- the `by_tag` listing order: `ord` first (as far as live, each id once), then the rest -/
def arrange (ord : List Nat) (cps : List (Nat × Nat)) : List (Nat × Nat) :=
  ((dedupNat' ord).filterMap fun i => (alGet cps i).map fun ts => (i, ts)) ++
    cps.filter fun p => !ord.contains p.1

/-- `CheckpointStorage::list` -/
def ckList (ord : List Nat) (cps : List (Nat × Nat)) : List (Nat × Nat) := sortDesc (arrange ord cps)

/-- `RetentionManager::enforce`: ids kept -/
def retainIds (max : Nat) (ord : List Nat) (cps : List (Nat × Nat)) : List Nat :=
  ((ckList ord cps).take max).map (·.1)

def enforce (max : Nat) (ord : List Nat) (cps : List (Nat × Nat)) : List (Nat × Nat) :=
  if cps.length ≤ max then cps else
  let keep := retainIds max ord cps
  cps.filter fun p => keep.contains p.1

/-- `CheckpointManager::create`: snapshot, store the blob, enforce retention -/
def doCkpt (d : Db) (ts : Nat) (ord : List Nat) (name : Nat) : Db × Res :=
  let id := d.nextCk
  let img := d.st.snapshot
  let cps := enforce d.maxCk ord (d.st.cps ++ [(id, ts)])
  ({ d with st := { d.st with cps := cps }, arch := d.arch ++ [⟨id, ts, name, img⟩], nextCk := id + 1 }, .id id)

/-- `CheckpointManager::create_auto` — the auto-checkpoint the router takes in front of a destructive
    statement (`DELETE` / `DROP` / `NODE DELETE` / `EDGE DELETE` / `EMBED DELETE` / … with
    `auto_checkpoint` on).  A second copy of the tail of `create` in the code, with its own order of
    the two steps: snapshot, `CheckpointStorage::store` (the record joins the listing), THEN
    `RetentionManager::enforce` over the listing that already holds it.  The name is
    `auto-before-<operation>` (an ordinary name: several auto-checkpoints share it). -/
def doCkAuto (d : Db) (ts : Nat) (ord : List Nat) (name : Nat) : Db × Res :=
  let id := d.nextCk
  let img := d.st.snapshot
  let cps := enforce d.maxCk ord (d.st.cps ++ [(id, ts)])
  ({ d with st := { d.st with cps := cps }, arch := d.arch ++ [⟨id, ts, name, img⟩], nextCk := id + 1 }, .id id)

/-- NOT the code: `create_auto` with its two steps the other way round ("make room first":
    `enforce` over the listing BEFORE the new record is stored, then `store`).  `enforce` trims to
    `max`, so at the limit it removes nothing and the store leaves `max + 1` records
    (`Props.auto_room_first_overshoots_at_limit`, `…_witness`). -/
def doCkAutoRoomFirst (d : Db) (ts : Nat) (ord : List Nat) (name : Nat) : Db × Res :=
  let id := d.nextCk
  let img := d.st.snapshot
  let cps := enforce d.maxCk ord d.st.cps ++ [(id, ts)]
  ({ d with st := { d.st with cps := cps }, arch := d.arch ++ [⟨id, ts, name, img⟩], nextCk := id + 1 }, .id id)

/-- the blob of checkpoint `i` (blobs are immutable: name, timestamp and image never change) -/
def blobOf (d : Db) (i : Nat) : Option Ckpt := d.arch.find? (·.id = i)

def nameOf (d : Db) (i : Nat) : Option Nat := (blobOf d i).map (·.name)

/-- `cp.id == id_or_name || cp.name == id_or_name`.  Ids and names are strings of one space; the
    model codes both as `Nat` (checkpoint number `i` has the id coded `i`; a name coded `i` is the
    string that is also the id of checkpoint `i`). -/
def ckMatches (d : Db) (x : Nat) (p : Nat × Nat) : Bool := p.1 = x || nameOf d p.1 = some x

/-- `cp.id == id_or_name` -/
def ckIdIs (x : Nat) (p : Nat × Nat) : Bool := p.1 = x

/-- `cp.name == id_or_name` -/
def ckNameIs (d : Db) (x : Nat) (p : Nat × Nat) : Bool := nameOf d p.1 = some x

/-- `CheckpointStorage::find_by_id_or_name` (as of /repo fff752bd), two passes over the newest-first
    listing: the entry whose ID is `x` if there is one (`checkpoints.iter().find(|cp| cp.id == x)`),
    otherwise the FIRST entry whose NAME is `x` (`ord` = the `by_tag` order of this call, it decides
    among equal timestamps) -/
def resolve (d : Db) (ord : List Nat) (x : Nat) : Option Nat :=
  match (ckList ord d.st.cps).find? (ckIdIs x) with
  | some p => some p.1
  | none => ((ckList ord d.st.cps).find? (ckNameIs d x)).map (·.1)

/-- `find_by_id_or_name` BEFORE fff752bd: one pass, the FIRST entry of the newest-first listing
    whose id OR name is `x` — a newer checkpoint NAMED with an older one's id string shadowed it
    (`Props.rollback_id_shadowed_by_name_witness`) -/
def resolveOld (d : Db) (ord : List Nat) (x : Nat) : Option Nat :=
  ((ckList ord d.st.cps).find? (ckMatches d x)).map (·.1)

/-- `CheckpointStorage::load` -/
def loadCk (d : Db) (ord : List Nat) (x : Nat) : Option Ckpt :=
  match resolve d ord x with
  | some i => blobOf d i
  | none => none

/-- `CheckpointManager::rollback` = load + `restore_from_bytes`; engines are left as they are -/
def doRollback (d : Db) (x : Nat) (ord : List Nat) : Db × Res :=
  match loadCk d ord x with
  | none => (d, .err .notFound)
  | some c => ({ d with st := Store.restoreFrom c.img d.st }, .ok)

/-- `CheckpointStorage::load` / `CheckpointManager::rollback` over the pre-fix target resolution -/
def loadCkOld (d : Db) (ord : List Nat) (x : Nat) : Option Ckpt :=
  match resolveOld d ord x with
  | some i => blobOf d i
  | none => none

def doRollbackOld (d : Db) (x : Nat) (ord : List Nat) : Db × Res :=
  match loadCkOld d ord x with
  | none => (d, .err .notFound)
  | some c => ({ d with st := Store.restoreFrom c.img d.st }, .ok)

/-- `CheckpointManager::delete` (as of /repo 14af22de): the target is resolved by
    `CheckpointStorage::find_by_id_or_name`, exactly like `rollback` — the listed checkpoint whose
    ID is `x`, else the newest listed one NAMED `x` — and that checkpoint's blob is deleted -/
def doCkDel (d : Db) (x : Nat) (ord : List Nat) : Db × Res :=
  match resolve d ord x with
  | none => (d, .err .notFound)
  | some i => ({ d with st := { d.st with cps := alDel d.st.cps i } }, .ok)

/-- `CheckpointManager::delete` BEFORE 14af22de: its own inline one-pass lookup over the listing,
    `find(|cp| cp.id == x || cp.name == x)` (which fff752bd had left as it was) — a delete by id
    reached a newer checkpoint NAMED with that id string
    (`Props.ckdel_id_shadowed_by_name_witness`) -/
def doCkDelOld (d : Db) (x : Nat) (ord : List Nat) : Db × Res :=
  match resolveOld d ord x with
  | none => (d, .err .notFound)
  | some i => ({ d with st := { d.st with cps := alDel d.st.cps i } }, .ok)

/-- `CheckpointManager::list(Some n)` / `CHECKPOINTS LIMIT n`: the first `n` of the listing -/
def qCkptsTop (d : Db) (ord : List Nat) (n : Nat) : List (Nat × Nat) := (ckList ord d.st.cps).take n

/-- `CheckpointManager::list(None)`: the FULL listing, newest first (the router's `CHECKPOINTS`
    statement without `LIMIT` shows only the first 10 of it) -/
def qCkptsAll (d : Db) (ord : List Nat) : List (Nat × Nat) := ckList ord d.st.cps

/-- ids `CHECKPOINTS` lists -/
def qCkpts (d : Db) : List Nat := sortNat (d.st.cps.map (·.1))

/-! ### statements -/

def step (d : Db) : Op → Db × Res
  | .rcreate t => rCreate d t
  | .rdrop t => rDrop d t
  | .rins t k v => rInsert d t k v
  | .rdel t k => rDelete d t k
  | .rhidx t => rHidx d t
  | .rbidx t => rBidx d t
  | .gnode l => gNode d l
  | .gedge a b => gEdge d a b
  | .gdeln i => gDelNode d i
  | .gdele i => gDelEdge d i
  | .vput k v => vPut d k v
  | .vdel k => vDel d k
  | .vbuild => vBuild d
  | .kput c k x e => kPut d c k x e
  | .kdel c k => kDel d c k
  | .ckpt ts ord name => doCkpt d ts ord name
  | .ackpt ts ord name => doCkAuto d ts ord name
  | .rollback x ord => doRollback d x ord
  | .ckdel x ord => doCkDel d x ord
  | .setmax n => ({ d with maxCk := n }, .ok)

def run (d : Db) (ops : List Op) : Db := ops.foldl (fun d o => (step d o).1) d

/-! ### the observable image -/

structure TableObs where
  t : Nat
  scan : Rows
  eqs : List Rows     -- one per probe value: WHERE k = x
  lts : List Rows     -- one per probe value: WHERE v < x
  deriving DecidableEq, Repr

structure Obs where
  tables : List TableObs
  nodes : List (Nat × Nat)
  edges : List (Nat × Nat × Nat)
  nbrs : List (Nat × List Nat)
  byLabel : List (List Nat)       -- one per probe label
  embs : List (Nat × Vec)
  search : List (List Nat)        -- one per probe query
  raw : List (Key × Val)
  deriving DecidableEq, Repr

structure Probes where
  ints : List Int := []
  labels : List Nat := []
  queries : List Vec := []
  deriving DecidableEq, Repr

def obs (p : Probes) (d : Db) : Obs where
  tables := (sortNat (tables d)).map fun t =>
    ⟨t, qScan d t, p.ints.map (qEq d t), p.ints.map (qLt d t)⟩
  nodes := qNodes d
  edges := qEdges d
  nbrs := (qNodes d).map fun n => (n.1, (qNeighbors d n.1).getD [])
  byLabel := p.labels.map (qByLabel d)
  embs := qEmbs d
  search := p.queries.map (qSearch d)
  raw := qRaw d

/-- the part of the image that is read through store `scan`/`get` only
    (no relational slab, no engine-side index or cache) -/
structure KvObs where
  nodes : List (Nat × Nat)
  edges : List (Nat × Nat × Nat)
  nbrs : List (Nat × List Nat)
  embs : List (Nat × Vec)
  raw : List (Key × Val)
  tableNames : List Nat
  deriving DecidableEq, Repr

def kvObs (d : Db) : KvObs where
  nodes := qNodes d
  edges := qEdges d
  nbrs := (qNodes d).map fun n => (n.1, (qNeighbors d n.1).getD [])
  embs := qEmbs d
  raw := qRaw d
  tableNames := sortNat (tables d)

end Neumann.Ckpt
