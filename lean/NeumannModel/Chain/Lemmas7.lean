import NeumannModel.Chain.Model
/- helper lemmas for `Props4.lean` (the `TensorStateMachine` object: fast path, recent-embedding window) -/
namespace Neumann.Chain
open Neumann.Chain

theorem stateStore_setState (r : Replica) (s : List (SKey × SVal)) : (r.setState s).stateStore = s := by
  obtain ⟨st, c, sh⟩ := r
  cases sh <;> simp [Replica.setState, Replica.stateStore]

theorem applyBlock_shared (C : Crypto) (reg : Option (List (List Nat × Nat))) (r : Replica) (b : Block) :
    (applyBlock C reg r b).1.shared = r.shared := by
  obtain ⟨st, c, sh⟩ := r
  unfold applyBlock
  simp only
  split
  · cases sh <;> simp [Replica.setState]
  · cases append C reg (Replica.setState ⟨st, c, sh⟩ (applyTxs (Replica.stateStore ⟨st, c, sh⟩) b.txs)).chain b <;>
      cases sh <;> simp [Replica.setState]

theorem trimFront_length (n : Nat) (l : List (List Nat)) : (trimFront n l).length ≤ n := by
  unfold trimFront
  simp only [List.length_drop]
  omega

/-- the window after `apply_block`: extended by `track_embedding` exactly when the block was accepted -/
theorem applyBlockM_recent (F : FastPath) (C : Crypto) (reg : Option (List (List Nat × Nat))) (m : Machine) (b : Block) :
    (applyBlockM F C reg m b).1.recent =
      if (applyBlockM F C reg m b).2 = none then trackEmbedding F m.recent b else m.recent := by
  unfold applyBlockM appendFast appendFull
  simp only [ite_self]
  by_cases hne : b.header.stateRoot = stateRoot C (m.rep.setState (applyTxs m.rep.stateStore b.txs)).stateStore
  · simp only [hne, ne_eq, not_true_eq_false, if_false]
    cases append C reg (m.rep.setState (applyTxs m.rep.stateStore b.txs)).chain b with
    | ok c' => dsimp only; rw [if_pos rfl]
    | error e' => dsimp only; rw [if_neg (by intro h; cases h)]
  · have hne' : b.header.stateRoot ≠ stateRoot C (m.rep.setState (applyTxs m.rep.stateStore b.txs)).stateStore := hne
    rw [if_pos hne']
    dsimp only
    rw [if_neg (by intro h; cases h)]

end Neumann.Chain
