import NeumannModel.Common.Proto
import NeumannModel.Chain.Model
/- Line-protocol driver for the chain model (C16).  Stateful: one `TensorChain` node
   (workspace stream), one raw `Chain` (append / tamper stream), replicas (replay stream). -/
open Neumann Neumann.Proto Neumann.Chain

structure Drv where
  node : Node
  raw : ChainSt
  rawReg : Option (List (List Nat × Nat))
  saved : ChainSt
  reps : List Replica
  repReg : Option (List (List Nat × Nat))
  lastBlock : Option Block
  /-- per replica: the `recent_embeddings` of its current `TensorStateMachine` object -/
  wins : List (List (List Nat)) := []
  /-- per replica: `true` = the object was created `with_threshold(0.0)` (every non-empty pair is similar) -/
  modes : List Bool := []

def C := drvCrypto

def theReg : List (List Nat × Nat) := [([1], 1), ([2], 2)]

def mkCfg (maxTxs : Nat) (am : Bool) (mm : Nat) : Config :=
  { maxTxs := maxTxs, autoMerge := am, maxMerge := mm, registry := some [([1], 1)], nodeId := [1], key := 1 }

def drvInit : Drv :=
  { node := initNode C (mkCfg 1000 true 10) 0, raw := initChain C [] [1] 0, rawReg := none,
    saved := initChain C [] [1] 0, reps := [], repReg := none, lastBlock := none }

def parseTx (s : String) : Option Tx :=
  match s.toList with
  | 'p' :: rest =>
    match (String.ofList rest).splitOn ":" with
    | [k, v] => match k.toNat?, v.toNat? with
      | some k, some v => some (.put k v)
      | _, _ => none
    | _ => none
  | 'd' :: rest => (String.ofList rest).toNat?.map Tx.del
  -- `c<key>:<expected or ->:<new>`
  | 'c' :: rest =>
    match (String.ofList rest).splitOn ":" with
    | [k, e, v] => match k.toNat?, v.toNat? with
      | some k, some v =>
        if e = "-" then some (.cas k none v) else e.toNat?.map fun e => .cas k (some e) v
      | _, _ => none
    | _ => none
  | _ => none

def parseRawKey (s : String) : Option SKey :=
  if s = "meta" then some .chainMeta
  else match s.toList with
    | 'd' :: rest => (String.ofList rest).toNat?.map SKey.data
    | _ => match s.splitOn ":" with
      | ["block", h] => h.toNat?.map SKey.block
      | _ => none

def parseRawTx : List String → Option RawTx
  | ["put", k, v] => match parseRawKey k, v.toNat? with
    | some k, some v => some (.put k v)
    | _, _ => none
  | ["del", k] => (parseRawKey k).map RawTx.del
  | ["cas", k, e, v] => match parseRawKey k, v.toNat? with
    | some k, some v => if e = "-" then some (.cas k none v) else e.toNat?.map fun e => .cas k (some e) v
    | _, _ => none
  | _ => none

def parseTxs (s : String) : Option (List Tx) :=
  if s = "-" then some [] else (s.splitOn ",").mapM parseTx

/-- one merge candidate `id:markable:valid:dir:txs` (`txs` as in `parseTxs`) -/
def parseCand (s : String) : Option Cand :=
  match s.splitOn "/" with
  | [i, m, v, d, txs] => match i.toNat?, m.toNat?, v.toNat?, d.toNat?, parseTxs txs with
    | some i, some m, some v, some d, some txs => some { id := i, ops := txs, dir := d, markable := m != 0, valid := v != 0 }
    | _, _, _, _, _ => none
  | _ => none

def parseCands (s : String) : Option (List Cand) :=
  if s = "-" then some [] else (s.splitOn ";").mapM parseCand

def showTx : Tx → String
  | .put k v => s!"p{k}:{v}"
  | .del k => s!"d{k}"
  | .cas k none v => s!"c{k}:-:{v}"
  | .cas k (some e) v => s!"c{k}:{e}:{v}"

def insertStr (x : String) : List String → List String
  | [] => [x]
  | y :: r => if x ≤ y then x :: y :: r else y :: insertStr x r

def sortStrs (xs : List String) : List String := xs.foldl (fun acc x => insertStr x acc) []

def showList (xs : List String) : String := if xs.isEmpty then "-" else ",".intercalate xs

def showAppendErr : AppendErr → String
  | .height => "height" | .prevHash => "prev_hash" | .txRoot => "tx_root"
  | .unsigned => "unsigned" | .badSig => "bad_sig"

def showVerify : Option VerifyErr → String
  | none => "ok"
  | some .emptyChain => "err empty_chain"
  | some (.notFound h) => s!"err not_found {h}"
  | some .height => "err height"
  | some .prevHash => "err prev_hash"
  | some .txRoot => "err tx_root"
  | some .timestamp => "err timestamp"
  | some .badSig => "err bad_sig"

def showRes (n : Node) (l : Local) : String :=
  match l.res with
  | some (.ok h) =>
    let txs := match blockAt n.chain.store h with
      | some b => b.txs.map showTx
      | none => []
    s!"ok h={h} txs={showList (sortStrs txs)} merged={showNats l.merged}"
  | some .emptyOk => "empty"
  | some .notActive => "err not_active"
  | some .tooMany => "err too_many"
  | some .conflict => "err conflict"
  | some (.appendFailed e) => "err append_" ++ showAppendErr e
  | none => "err unfinished"

def dataImage (s : List (SKey × SVal)) : List String :=
  s.filterMap fun kv => match kv with
    | (.data k, .data v) => some s!"{k}:{v}"
    | _ => none

def blocksPresent (s : List (SKey × SVal)) : List Nat :=
  s.filterMap fun kv => match kv.1 with
    | .block h => some h
    | _ => none

def showMeta (s : List (SKey × SVal)) : String :=
  match loadHeight s with
  | some h => toString h
  | none => "none"

def showState (reg : Option (List (List Nat × Nat))) (c : ChainSt) : String :=
  s!"h={c.height} verify={showVerify (verifyChain C reg c)} blocks={showNats (blocksPresent c.store)} data={showList (dataImage c.store)}"

def showHistory (l : List (Nat × Tx)) : String :=
  showList (l.map fun p => s!"{p.1}:{showTx p.2}")

/-- the store calls of `apply_operations_to_store` for one uninterrupted commit: one put / delete per operation,
    a `CompareAndSwap` reads the key and writes it only when the comparison succeeds -/
def traceOps : List (SKey × SVal) → List Tx → List String
  | _, [] => []
  | s, t :: r =>
    (match t with
      | .put k _ => [s!"put:{k}"]
      | .del k => [s!"del:{k}"]
      | .cas k e _ => if dataAt s k = e then [s!"get:{k}", s!"put:{k}"] else [s!"get:{k}"]) ++ traceOps (applyTx s t) r

/-- the symbolic mutations of one stored block; mirrors `mutate_block` of the harness -/
def tamperBlock (b : Block) (field variant : String) : Option Block :=
  let h := b.header
  match field, variant with
  | "height", "inc" => some { b with header := { h with height := h.height + 1 } }
  | "height", "dec" => some { b with header := { h with height := h.height - 1 } }
  | "prev_hash", _ => some { b with header := { h with prevHash := h.prevHash ++ [1] } }
  | "tx_root", _ => some { b with header := { h with txRoot := h.txRoot ++ [1] } }
  | "state_root", _ => some { b with header := { h with stateRoot := h.stateRoot ++ [1] } }
  | "delta_embedding", _ => some { b with header := { h with embedding := h.embedding ++ [1] } }
  | "quantized_codes", _ => some { b with header := { h with codes := h.codes ++ [7] } }
  | "timestamp", "inc" => some { b with header := { h with timestamp := h.timestamp + 1 } }
  | "timestamp", "dec" => some { b with header := { h with timestamp := h.timestamp - 1 } }
  | "proposer", "other" => some { b with header := { h with proposer := if h.proposer = [2] then [1] else [2] } }
  | "proposer", "unknown" => some { b with header := { h with proposer := [9] } }
  | "signature", "alter" => some { b with header := { h with signature := h.signature ++ [1] } }
  | "signature", "clear" => some { b with header := { h with signature := [] } }
  | "transactions", "dup_last" =>
    match b.txs.getLast? with
    | some t => some { b with txs := b.txs ++ [t] }
    | none => none
  | "transactions", "drop_last" => if b.txs = [] then none else some { b with txs := b.txs.dropLast }
  | "transactions", "alter_first" =>
    match b.txs with
    | .put k v :: r => some { b with txs := .put k (v + 1) :: r }
    | .del k :: r => some { b with txs := .put k 1 :: r }
    | .cas k e v :: r => some { b with txs := .cas k e (v + 1) :: r }
    | [] => none
  | "transactions", "alter_last" =>
    match b.txs.getLast? with
    | some (.put k v) => some { b with txs := b.txs.dropLast ++ [.put k (v + 1)] }
    | some (.del k) => some { b with txs := b.txs.dropLast ++ [.put k 1] }
    | some (.cas k e v) => some { b with txs := b.txs.dropLast ++ [.cas k e (v + 1)] }
    | none => none
  | "transactions", "push_new" => some { b with txs := b.txs ++ [.put 999 999] }
  | "transactions", "swap_first_two" =>
    match b.txs with
    | x :: y :: r => if x = y then none else some { b with txs := y :: x :: r }
    | _ => none
  | "signatures", _ => some { b with sigs := b.sigs ++ [1] }
  | _, _ => none

def mkBlockOn (c : ChainSt) (sroot : List Nat) (hsel prev root sig : String) (ts : Nat) (proposer : Nat) (txs : List Tx)
    (emb : List Nat := []) : Option Block :=
  let height := match hsel with | "ok" => some (c.height + 1) | "same" => some c.height | "skip" => some (c.height + 2) | _ => none
  let prevHash := match prev with | "ok" => some c.tip | "bad" => some (c.tip ++ [1]) | _ => none
  let txr := match root with | "ok" => some (txRoot C txs) | "zero" => some C.zero | "bad" => some (txRoot C txs ++ [1]) | _ => none
  match height, prevHash, txr with
  | some height, some prevHash, some txr =>
    let h0 : Header := { height := height, prevHash := prevHash, txRoot := txr, stateRoot := sroot, embedding := emb,
                         codes := [], timestamp := ts, proposer := [proposer], signature := [] }
    let sg := match sig with
      | "ok" => some (C.sign proposer h0.bytes)
      | "none" => some []
      | "bad" => some (C.sign proposer h0.bytes ++ [1])
      | "wrongkey" => some (C.sign (proposer + 50) h0.bytes)
      | _ => none
    sg.map fun sg => { header := { h0 with signature := sg }, txs := txs, sigs := [] }
  | _, _, _ => none

def mkRawBlock (d : Drv) (hsel prev root sig : String) (ts : Nat) (proposer : Nat) (txs : List Tx) : Option Block :=
  mkBlockOn d.raw C.zero hsel prev root sig ts proposer txs

def showApplyErr : Option ApplyErr → String
  | none => "ok"
  | some .stateRoot => "err state_root"
  | some (.append e) => "err " ++ showAppendErr e

def chainStep (d : Drv) (line : String) : Drv × String :=
  let bad := (d, "bad-op")
  match words line with
  | ["init", mx, am, mm, ts] => match mx.toNat?, am.toNat?, mm.toNat?, ts.toNat? with
    | some mx, some am, some mm, some ts => ({ d with node := initNode C (mkCfg mx (am != 0) mm) ts }, "ok")
    | _, _, _, _ => bad
  | ["begin"] => ({ d with node := beginWs d.node }, s!"ws {d.node.nextId}")
  | ["put", w, k, v] => match w.toNat?, k.toNat?, v.toNat? with
    | some w, some k, some v =>
      let r := addOp d.node w (.put k v)
      ({ d with node := r.1 }, if r.2 then "ok" else "err not_active")
    | _, _, _ => bad
  | ["del", w, k] => match w.toNat?, k.toNat? with
    | some w, some k =>
      let r := addOp d.node w (.del k)
      ({ d with node := r.1 }, if r.2 then "ok" else "err not_active")
    | _, _ => bad
  | ["cas", w, k, e, v] => match w.toNat?, k.toNat?, v.toNat? with
    | some w, some k, some v =>
      match (if e = "-" then some none else e.toNat?.map some : Option (Option Nat)) with
      | some e =>
        let r := addOp d.node w (.cas k e v)
        ({ d with node := r.1 }, if r.2 then "ok" else "err not_active")
      | none => bad
    | _, _, _ => bad
  -- `add_operation` with the key as the client names it: `d<k>` (a data key), `meta` (`chain:meta`),
  -- `block:<h>` (`chain:block:<h>`); `radd <w> put <key> <v>` / `del <key>` / `cas <key> <e or -> <v>`
  | "radd" :: w :: rest => match w.toNat?, parseRawTx rest with
    | some w, some t =>
      let r := addOperation d.node w t
      ({ d with node := r.1 }, match r.2 with | .ok => "ok" | .notActive => "err not_active" | .reserved => "err reserved")
    | _, _ => bad
  -- restart: new `TensorChain` object over the same store + `initialize()`
  | ["reopen", ts] => match ts.toNat? with
    | some ts =>
      let n := reopenNode C d.node ts
      ({ d with node := n }, showState n.cfg.registry n.chain)
    | none => bad
  -- the process stops inside the `Chain::append` of `commit w ts` after `k` of its store writes (1 = block record
  -- written, height record not yet); the in-memory head is what the next `reopen` discards
  | ["ncrash", w, ts, k] => match w.toNat?, ts.toNat?, k.toNat? with
    | some w, some ts, some k =>
      match commitCrashInAppend C d.node w ts k with
      | some n => ({ d with node := n }, "ok")
      | none => (d, "none")
    | _, _, _ => bad
  -- the height record of the node's store rewritten behind the chain's back (a lost `save_height`)
  | ["nsetmeta", h] => match h.toNat? with
    | some h => ({ d with node := { d.node with chain := { d.node.chain with store := sput d.node.chain.store .chainMeta (.height h) } } }, "ok")
    | none => bad
  | ["history", k] => match k.toNat? with
    | some k => (d, showHistory (history d.node.chain k))
    | none => bad
  | ["active"] => (d, toString d.node.active.length)
  | ["meta"] => (d, showMeta d.node.chain.store)
  | ["cmeta"] => (d, showMeta d.raw.store)
  | ["dir", w, dd] => match w.toNat?, dd.toNat? with
    | some w, some dd => ({ d with node := setDir d.node w dd }, "ok")
    | _, _ => bad
  | ["commit", w, ts] => match w.toNat?, ts.toNat? with
    | some w, some ts =>
      let r := commit C d.node w ts
      ({ d with node := r.1 }, showRes r.1 r.2)
    | _, _ => bad
  | ["rollback", w] => match w.toNat? with
    | some w =>
      let r := rollbackWs d.node w
      ({ d with node := r.1 }, if r.2 then "ok" else "err committed")
    | none => bad
  -- `find_and_merge_orthogonal` with a non-empty codebook (`validate` = 1): own operations, own direction, the
  -- candidates in loop order with their `mark_committing` / validator verdict bits; answers the loop's results
  -- (operations and ids sorted: the real candidate order is a `HashMap` iteration order)
  | ["vmerge", validate, own, dir, cands] => match validate.toNat?, parseTxs own, dir.toNat?, parseCands cands with
    | some v, some own, some dir, some cs =>
      let a := mergeLoop (v != 0) own dir cs
      (d, s!"txs={showList (sortStrs (a.ops.map showTx))} merged={showList (sortStrs (a.merged.map toString))} failed={showList (sortStrs (a.failed.map toString))} ndirs={a.dirs.length}")
    | _, _, _, _ => bad
  | ["state"] => (d, showState d.node.cfg.registry d.node.chain)
  -- `validator_registry().remove(node_id)` / `register_validator(identity())` on the node's own key
  | ["unreg"] =>
    let r := unregisterSelf d.node
    ({ d with node := r.1 }, if r.2 then "removed" else "absent")
  | ["rereg"] => ({ d with node := registerSelf d.node }, "ok")
  | ["sched", ws, ts, sch] => match parseNats ws, ts.toNat?, parseNats sch with
    | some ws, some ts, some sch =>
      let ls := ws.map fun w => Local.init w ts
      let r := runSched C sch d.node ls
      ({ d with node := r.1 }, " | ".intercalate (r.2.map (showRes r.1)))
    | _, _, _ => bad
  -- the store accesses one uninterrupted `commit w` performs, per atomic model step (what the real commit's
  -- yield sequence is compared with): apply = one put/delete per operation, root = one scan of the whole store,
  -- append = writes from the block record to the height record
  | ["ctrace", w] => match w.toNat? with
    | some w =>
      match findWs d.node.wss w with
      | some ws =>
        (d, s!"apply={showList (traceOps d.node.chain.store ws.ops)} root=scan append=block:{d.node.chain.height + 1}..meta")
      | none => (d, "nows")
    | none => bad
  -- raw chain stream
  | ["cinit", reg, ts] => match reg.toNat?, ts.toNat? with
    | some reg, some ts =>
      let c := initChain C [] [1] ts
      ({ d with raw := c, saved := c, rawReg := if reg != 0 then some theReg else none }, "ok")
    | _, _ => bad
  | ["cappend", hsel, prev, root, sig, ts, prop, txs] => match ts.toNat?, prop.toNat?, parseTxs txs with
    | some ts, some prop, some txs =>
      match mkRawBlock d hsel prev root sig ts prop txs with
      | some b =>
        match append C d.rawReg d.raw b with
        | .ok c' => ({ d with raw := c' }, "ok")
        | .error e => (d, "err " ++ showAppendErr e)
      | none => bad
    | _, _, _ => bad
  -- `append` of the block stops after `k` of its store writes (checks passed): the in-memory head is unchanged
  | ["ccrash", k, hsel, prev, root, sig, ts, prop, txs] => match k.toNat?, ts.toNat?, prop.toNat?, parseTxs txs with
    | some k, some ts, some prop, some txs =>
      match mkRawBlock d hsel prev root sig ts prop txs with
      | some b =>
        match append C d.rawReg d.raw b with
        | .ok _ => ({ d with raw := { d.raw with store := appendCrashStore C d.raw b k } }, "ok")
        | .error e => (d, "err " ++ showAppendErr e)
      | none => bad
    | _, _, _, _ => bad
  -- a new `Chain` object over the (possibly tampered) store + `initialize()`
  | ["copen", ts] => match ts.toNat? with
    | some ts =>
      let c := openChain C d.raw.store [1] ts
      ({ d with raw := c }, showState d.rawReg c)
    | none => bad
  | ["setmeta", h] => match h.toNat? with
    | some h => ({ d with raw := { d.raw with store := sput d.raw.store .chainMeta (.height h) } }, "ok")
    | none => bad
  | ["delmeta"] => ({ d with raw := { d.raw with store := sdel d.raw.store .chainMeta } }, "ok")
  | ["chistory", k] => match k.toNat? with
    | some k => (d, showHistory (history d.raw k))
    | none => bad
  -- a block record written into the store behind the chain's back (no `append`: height, tip, height record unchanged)
  | ["cplant", hsel, prev, root, sig, ts, prop, txs] => match ts.toNat?, prop.toNat?, parseTxs txs with
    | some ts, some prop, some txs =>
      match mkRawBlock d hsel prev root sig ts prop txs with
      | some b => ({ d with raw := { d.raw with store := sput d.raw.store (.block b.header.height) (.block b) } }, "ok")
      | none => bad
    | _, _, _ => bad
  | ["cverify"] => (d, showVerify (verifyChain C d.rawReg d.raw))
  | ["cverify_old"] => (d, showVerify (verifyChainOld C d.rawReg d.raw))
  | ["cstate"] => (d, showState d.rawReg d.raw)
  | ["csave"] => ({ d with saved := d.raw }, "ok")
  | ["crestore"] => ({ d with raw := d.saved }, "ok")
  | ["tamper", i, field, variant] => match i.toNat? with
    | some i =>
      match blockAt d.raw.store i with
      | none => (d, "noblock")
      | some b =>
        match tamperBlock b field variant with
        | some b' =>
          if b' = b then (d, "skip")
          else ({ d with raw := { d.raw with store := sput d.raw.store (.block i) (.block b') } }, "ok")
        | none => (d, "skip")
    | none => bad
  -- transaction `k` of stored block `i` replaced by `tx` (raw chain: `altertx`, the node's chain: `naltertx`);
  -- `skip` = no such position or the same transaction
  | ["altertx", i, k, tx] => match i.toNat?, k.toNat?, parseTx tx with
    | some i, some k, some t =>
      match blockAt d.raw.store i with
      | none => (d, "noblock")
      | some b =>
        if k < b.txs.length ∧ b.setTx k t ≠ b then
          ({ d with raw := { d.raw with store := sput d.raw.store (.block i) (.block (b.setTx k t)) } }, "ok")
        else (d, "skip")
    | _, _, _ => bad
  | ["naltertx", i, k, tx] => match i.toNat?, k.toNat?, parseTx tx with
    | some i, some k, some t =>
      match blockAt d.node.chain.store i with
      | none => (d, "noblock")
      | some b =>
        if k < b.txs.length ∧ b.setTx k t ≠ b then
          ({ d with node := { d.node with chain := { d.node.chain with
              store := sput d.node.chain.store (.block i) (.block (b.setTx k t)) } } }, "ok")
        else (d, "skip")
    | _, _, _ => bad
  -- the transactions of stored block `i` of the node's chain, in block order
  | ["nblocktxs", i] => match i.toNat? with
    | some i => match blockAt d.node.chain.store i with
      | some b => (d, showList (b.txs.map showTx))
      | none => (d, "noblock")
    | none => bad
  | ["remove", i] => match i.toNat? with
    | some i => ({ d with raw := { d.raw with store := sdel d.raw.store (.block i) } }, "ok")
    | none => bad
  | ["swap", i, j] => match i.toNat?, j.toNat? with
    | some i, some j =>
      match blockAt d.raw.store i, blockAt d.raw.store j with
      | some bi, some bj =>
        ({ d with raw := { d.raw with store := sput (sput d.raw.store (.block i) (.block bj)) (.block j) (.block bi) } }, "ok")
      | _, _ => (d, "noblock")
    | _, _ => bad
  | ["txroot_eq", a, b] => match parseTxs a, parseTxs b with
    | some a, some b => (d, if txRoot C a = txRoot C b then "equal" else "different")
    | _, _ => bad
  -- replay stream
  | ["rinit", shared, ts1, ts2] => match shared.toNat?, ts1.toNat?, ts2.toNat? with
    | some sh, some t1, some t2 =>
      ({ d with reps := [initReplica C (sh != 0) [1] t1, initReplica C (sh != 0) [1] t2], repReg := none,
                wins := [[], []], modes := [false, false] }, "ok")
    | _, _, _ => bad
  -- `n` replicas with separate state stores, bootstrapped from one genesis block; with or without validator keys
  | ["rnew", n, reg, ts] => match n.toNat?, reg.toNat?, ts.toNat? with
    | some n, some reg, some ts =>
      ({ d with reps := List.replicate n (initReplica C false [1] ts), repReg := if reg != 0 then some theReg else none,
                lastBlock := none, wins := List.replicate n [], modes := List.replicate n false }, "ok")
    | _, _, _ => bad
  -- a block built by the proposer (replica `p`): chain head and state root taken from ITS chain and state store
  -- (`sroot`: ok = root of its state with the transactions applied, bad = that root altered, stale = root of its
  -- state without them)
  | "rblock" :: p :: hsel :: prev :: root :: sroot :: sig :: ts :: prop :: txs :: rest =>
    -- optional last field: the delta embedding, `-` (zero vector) or `<class>:<perturbation>`
    let emb : Option (List Nat) := match rest with
      | [] => some []
      | ["-"] => some []
      | [e] => match e.splitOn ":" with
        | [c, q] => match c.toNat?, q.toNat? with
          | some c, some q => some [c, q]
          | _, _ => none
        | _ => none
      | _ => none
    match p.toNat?, ts.toNat?, prop.toNat?, parseTxs txs, emb with
    | some p, some ts, some prop, some txs, some emb =>
      match d.reps[p]? with
      | some r =>
        let good := stateRoot C (applyTxs r.stateStore txs)
        let sr := match sroot with
          | "ok" => some good
          | "bad" => some (good ++ [1])
          | "stale" => some (stateRoot C r.stateStore)
          | _ => none
        match sr with
        | some sr =>
          match mkBlockOn r.chain sr hsel prev root sig ts prop txs emb with
          | some b => ({ d with lastBlock := some b }, "ok")
          | none => bad
        | none => bad
      | none => bad
    | _, _, _, _, _ => bad
  -- `TensorStateMachine::apply_block` of the last built block on replica `i`
  | ["rapply", i] => match i.toNat?, d.lastBlock with
    | some i, some b =>
      match d.reps[i]? with
      | some r =>
        -- the object's `apply_block`: window and threshold of replica `i` (`apply_block_independent_of_window`:
        -- verdict and replica are those of `applyBlock`)
        let q := applyBlockM (drvFast (d.modes.getD i false)) C d.repReg { rep := r, recent := d.wins.getD i [] } b
        ({ d with reps := setNth d.reps i q.1.rep, wins := setNth d.wins i q.1.recent }, showApplyErr q.2)
      | none => bad
    | _, _ => bad
  -- what `recent_embedding_count()` returns and whether `can_fast_path` holds of the last built block
  | ["rwin", i] => match i.toNat?, d.lastBlock with
    | some i, some b =>
      if i < d.reps.length then
        let w := d.wins.getD i []
        (d, s!"n={w.length} fast={if canFastPath (drvFast (d.modes.getD i false)) w b then 1 else 0}")
      else bad
    | _, _ => bad
  -- the process of replica `i` restarts: a new `TensorStateMachine` (`all` = 1: `with_threshold(0.0)`) over the same
  -- chain and store
  | ["rrestart", i, all] => match i.toNat?, all.toNat? with
    | some i, some all =>
      if i < d.reps.length then ({ d with wins := setNth d.wins i [], modes := setNth d.modes i (all != 0) }, "ok") else bad
    | _, _ => bad
  -- `clear_recent()`
  | ["rclear", i] => match i.toNat? with
    | some i => if i < d.reps.length then ({ d with wins := setNth d.wins i [] }, "ok") else bad
    | none => bad
  | ["rstate", i] => match i.toNat? with
    | some i =>
      match d.reps[i]? with
      | some r => (d, s!"h={r.chain.height} verify={showVerify (verifyChain C d.repReg r.chain)} blocks={showNats (blocksPresent r.chain.store)} data={showList (dataImage r.stateStore)}")
      | none => bad
    | none => bad
  | ["rrootsall"] =>
    (d, match d.reps with
      | [] => "bad-op"
      | a :: rest => if rest.all fun b => stateRoot C a.stateStore = stateRoot C b.stateStore then "roots equal" else "roots differ")
  | ["rroots"] =>
    (d, match d.reps with
      | [a, b] => if stateRoot C a.stateStore = stateRoot C b.stateStore then "roots equal" else "roots differ"
      | _ => "bad-op")
  | _ => bad

def main : IO Unit := run chainStep drvInit
