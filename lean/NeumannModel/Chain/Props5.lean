import NeumannModel.Chain.Props
import NeumannModel.Chain.Lemmas8
/-
  C16 — property theorems, part 5: EVERY TRANSACTION OF A BLOCK FEEDS ITS TRANSACTION ROOT.  "Tamper-evident"
  needs more of `merkle_root` than determinism: the root a block's header carries (and the validators signed)
  must change when any ONE transaction of the block — first, inner, last, at any block size — is replaced by a
  different one.  `merkle_root` achieves it because every level of the tree, not just the leaf level, pairs an odd
  last node with itself (`merkleLevel`); the proofs go level by level (`merkleLevel_inj`, then `merkleLoop_inj`
  by induction over the levels).  A variant that pads the leaves once and folds pairs with `chunks_exact(2)` is
  refuted at 5 and 6 leaves.  Same conventions as `Props.lean`.
-/
namespace Neumann.Chain.Props
open Neumann.Chain

/-! ## 12. every leaf influences the root -/

/-- EVERY LEAF INFLUENCES THE MERKLE ROOT, for every number of leaves and every position: replacing leaf `k` by a
    different digest changes `merkle_root(leaves)`.  Hypotheses: the area's `HashInjOn` on the byte strings the
    two computations feed to SHA-256 (`loopInputs`: the pairs of every level) and one digest length. -/
theorem every_leaf_influences_merkle_root (C : Crypto) (occ : List Nat → Prop) (hinj : HashInjOn C occ) (n : Nat)
    (hl : HashLen C n) (leaves : List (List Nat)) (hall : ∀ x ∈ leaves, x.length = n)
    (k : Nat) (hk : k < leaves.length) (x' : List Nat) (hx' : x'.length = n) (hne : x' ≠ leaves[k])
    (o1 : ∀ z ∈ loopInputs C leaves.length leaves, occ z)
    (o2 : ∀ z ∈ loopInputs C leaves.length (leaves.set k x'), occ z) :
    merkleRoot C (leaves.set k x') ≠ merkleRoot C leaves := by
  intro h
  unfold merkleRoot at h
  rw [List.length_set] at h
  have hall' : ∀ x ∈ leaves.set k x', x.length = n := by
    intro x hx
    rcases List.mem_or_eq_of_mem_set hx with hx | hx
    · exact hall x hx
    · rw [hx]; exact hx'
  have := merkleLoop_inj C occ hinj n hl leaves.length (leaves.set k x') leaves (List.length_set ..)
    (by rw [List.length_set]; exact Nat.le_refl _) hall' hall o2 o1 h
  exact set_ne_of_ne leaves k hk x' hne this

/-- EVERY TRANSACTION INFLUENCES `tx_root`, for every transaction list and every position: replacing transaction
    `k` by a different transaction changes `Block::compute_tx_root` — whether `k` is the first, an inner or the
    last transaction, whatever the parity of any level of the tree. -/
theorem every_transaction_influences_tx_root (C : Crypto) (occ : List Nat → Prop) (hinj : HashInjOn C occ) (n : Nat)
    (hl : HashLen C n) (txs : List Tx) (k : Nat) (hk : k < txs.length) (t' : Tx) (hne : t' ≠ txs[k])
    (o1 : ∀ z ∈ txRootInputs C txs, occ z) (o2 : ∀ z ∈ txRootInputs C (txs.set k t'), occ z) :
    txRoot C (txs.set k t') ≠ txRoot C txs := by
  intro h
  have := txRoot_inj_of_length_eq C occ hinj n hl (txs.set k t') txs (List.length_set ..) o2 o1 h
  exact set_ne_of_ne txs k hk t' hne this

/-- ALTERING ONE TRANSACTION OF ANY STORED BLOCK IS DETECTED: for every chain built through the public interface
    (`Inv`), every chain length, every stored block `i ≤ height` (genesis included), every position `k` of its
    transaction list and every different transaction `t'`: `verify_chain` over the store with that one
    transaction replaced does not return `Ok`. -/
theorem altered_transaction_detected (C : Crypto) (reg : Option (List (List Nat × Nat))) (occ : List Nat → Prop)
    (c : ChainSt) (hinv : Inv C reg c) (hinj : HashInjOn C occ) (n : Nat) (hl : HashLen C n) (hh : 1 ≤ c.height)
    (i : Nat) (h2 : i ≤ c.height) (o : Block) (ho : blockAt c.store i = some o)
    (k : Nat) (hk : k < o.txs.length) (t' : Tx) (hne : t' ≠ o.txs[k])
    (o1 : ∀ z ∈ txRootInputs C o.txs, occ z) (o2 : ∀ z ∈ txRootInputs C (o.txs.set k t'), occ z) :
    verifyChain C reg (withBlock c i (o.setTx k t')) ≠ none :=
  tamper_detected_transactions C reg occ c hinv hinj n hl hh i h2 o ho (o.txs.set k t') (List.length_set ..) o1 o2
    (set_ne_of_ne o.txs k hk t' hne)

/-! ### non-vacuity: five transactions, the LAST one altered, under a crypto with one digest length that is
    injective on every string the two computations hash -/

/-- digests of length 1: the input read as a number in base 1000 (digits shifted by one) -/
def polyCrypto : Crypto := { drvCrypto with hash := fun x => [x.foldl (fun acc a => acc * 1000 + a + 1) 0] }

def fiveTxs : List Tx := [.put 1 1, .put 2 2, .put 3 3, .put 4 4, .put 5 5]
def sixTxs : List Tx := fiveTxs ++ [.put 6 6]
def fiveOcc : List (List Nat) := txRootInputs polyCrypto fiveTxs ++ txRootInputs polyCrypto (fiveTxs.set 4 (.put 5 9))

example : HashLen polyCrypto 1 := fun _ => rfl

example : HashInjOn polyCrypto (· ∈ fiveOcc) := by
  intro x y hx hy
  revert y
  revert x
  decide

example : (4 < fiveTxs.length) ∧ Tx.put 5 9 ≠ fiveTxs[4] ∧ (∀ z ∈ txRootInputs polyCrypto fiveTxs, z ∈ fiveOcc) ∧
    (∀ z ∈ txRootInputs polyCrypto (fiveTxs.set 4 (.put 5 9)), z ∈ fiveOcc) ∧
    txRoot polyCrypto (fiveTxs.set 4 (.put 5 9)) ≠ txRoot polyCrypto fiveTxs :=
  ⟨by decide, by decide, fun z hz => List.mem_append_left _ hz, fun z hz => List.mem_append_right _ hz, by decide⟩

/-! ### the variant that drops the last node of an odd inner level -/

/-- WITNESS (any hash function): under the pad-once / `chunks_exact(2)` variant the fifth of five transactions and
    the fifth and sixth of six do not reach the root at all — two lists differing exactly there share one root. -/
theorem drops_odd_intermediate_node_any_hash_witness (C : Crypto) (a b c d e e' f f' : Tx) :
    txRootDropsOddIntermediateNode C [a, b, c, d, e] = txRootDropsOddIntermediateNode C [a, b, c, d, e'] ∧
    txRootDropsOddIntermediateNode C [a, b, c, d, e, f] = txRootDropsOddIntermediateNode C [a, b, c, d, e', f'] := by
  constructor <;>
    simp [txRootDropsOddIntermediateNode, merkleRootDropsOddIntermediateNode, merkleLoopExact, merkleLevelExact]

/-- WITNESS at 5 and 6 leaves (concrete, by evaluation): replacing the last transaction of five, or the fifth or
    the sixth of six, leaves the variant's root unchanged, while `compute_tx_root` as it is changes each time. -/
theorem tx_root_drops_odd_intermediate_node_witness :
    (txRootDropsOddIntermediateNode drvCrypto (fiveTxs.set 4 (.put 5 9)) = txRootDropsOddIntermediateNode drvCrypto fiveTxs ∧
      txRoot drvCrypto (fiveTxs.set 4 (.put 5 9)) ≠ txRoot drvCrypto fiveTxs) ∧
    (txRootDropsOddIntermediateNode drvCrypto (sixTxs.set 4 (.put 5 9)) = txRootDropsOddIntermediateNode drvCrypto sixTxs ∧
      txRoot drvCrypto (sixTxs.set 4 (.put 5 9)) ≠ txRoot drvCrypto sixTxs) ∧
    (txRootDropsOddIntermediateNode drvCrypto (sixTxs.set 5 (.del 6)) = txRootDropsOddIntermediateNode drvCrypto sixTxs ∧
      txRoot drvCrypto (sixTxs.set 5 (.del 6)) ≠ txRoot drvCrypto sixTxs) := by
  decide

/-- the variant is the SAME function as `compute_tx_root` on blocks of 1, 2, 3, 4, 7 and 8 transactions (no inner
    level of those trees is odd) — which is why blocks of up to four transactions cannot tell them apart -/
def putsUpTo (n : Nat) : List Tx := (List.range n).map fun i => .put i (i + 1)

example : ∀ n ∈ [0, 1, 2, 3, 4, 7, 8], txRootDropsOddIntermediateNode drvCrypto (putsUpTo n) = txRoot drvCrypto (putsUpTo n) := by
  decide

example : ∀ n ∈ [5, 6, 9, 10, 11, 12, 13], txRootDropsOddIntermediateNode drvCrypto (putsUpTo n) ≠ txRoot drvCrypto (putsUpTo n) := by
  decide

/-- genesis + one signed block of five transactions whose header carries `root` of them -/
def fiveBlock (root : List Tx → List Nat) : Block :=
  let h0 : Header := { height := 1, prevHash := (genesisBlock drvCrypto [1] 10).header.hash drvCrypto,
                       txRoot := root fiveTxs, stateRoot := [0], embedding := [], codes := [],
                       timestamp := 11, proposer := [1], signature := [] }
  { header := { h0 with signature := drvCrypto.sign 1 h0.bytes }, txs := fiveTxs, sigs := [] }

def fiveChain (root : List Tx → List Nat) : ChainSt :=
  let g := initChain drvCrypto [] [1] 10
  { store := sput (sput g.store (.block 1) (.block (fiveBlock root))) .chainMeta (.height 1), height := 1,
    tip := (fiveBlock root).header.hash drvCrypto }

/-- WITNESS: tamper evidence is lost under the variant.  A verifier that recomputes transaction roots with the
    pad-once / `chunks_exact(2)` function accepts the honest chain (validator key registered) AND the same store
    with the last of block 1's five transactions replaced; `verify_chain` as it is (`verifyChainR` with
    `compute_tx_root` is `verifyChain`, `verifyChainR_txRoot`) accepts its honest chain and answers
    `tx_root does not match transactions` on the altered one. -/
theorem altered_transaction_undetected_when_odd_intermediate_node_dropped_witness :
    verifyChainR drvCrypto (txRootDropsOddIntermediateNode drvCrypto) (some [([1], 1)])
      (fiveChain (txRootDropsOddIntermediateNode drvCrypto)) = none ∧
    verifyChainR drvCrypto (txRootDropsOddIntermediateNode drvCrypto) (some [([1], 1)])
      (withBlock (fiveChain (txRootDropsOddIntermediateNode drvCrypto)) 1
        ((fiveBlock (txRootDropsOddIntermediateNode drvCrypto)).setTx 4 (.put 5 9))) = none ∧
    verifyChain drvCrypto (some [([1], 1)]) (fiveChain (txRoot drvCrypto)) = none ∧
    verifyChain drvCrypto (some [([1], 1)])
      (withBlock (fiveChain (txRoot drvCrypto)) 1 ((fiveBlock (txRoot drvCrypto)).setTx 4 (.put 5 9))) = some .txRoot := by
  refine ⟨by decide, by decide, by decide, by decide⟩

/-- the honest five-transaction chain is one `append` on the genesis chain (so `altered_transaction_detected`
    applies to it with `i = 1`, `k = 4`) -/
example : append drvCrypto (some [([1], 1)]) (initChain drvCrypto [] [1] 10) (fiveBlock (txRoot drvCrypto)) =
    .ok (fiveChain (txRoot drvCrypto)) := by rfl

end Neumann.Chain.Props
