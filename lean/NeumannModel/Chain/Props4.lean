import NeumannModel.Chain.Props2
import NeumannModel.Chain.Lemmas7
/-
  C16 — property theorems, part 4: `TensorStateMachine` as an object.  `apply_block` / `apply_entry` choose between
  a fast and a full append by the block's similarity to the embeddings THIS object tracked (`recent_embeddings`:
  in memory, private to the object, emptied by a restart or by `clear_recent()`).  "Replaying the same blocks
  yields the same state root on every replica" therefore needs: the verdict on a block and the replica after it
  depend on the block and on the replica's store and chain head only — never on the window.  Same conventions as
  `Props.lean`.
-/
namespace Neumann.Chain.Props
open Neumann.Chain

/-! ## 11. the fast path and the recent-embedding window -/

/-- THE WINDOW DECIDES NOTHING BUT THE PATH.  For every similarity function, threshold and window size (`F`),
    every window, every replica and every block: `apply_block` of the object gives exactly the verdict and the
    replica (state store, chain store, height, tip) of the window-free `applyBlock` — the state-root comparison
    is made on both paths and both paths are the one `Chain::append`. -/
theorem apply_block_independent_of_window (F : FastPath) (C : Crypto) (reg : Option (List (List Nat × Nat)))
    (m : Machine) (b : Block) :
    (applyBlockM F C reg m b).1.rep = (applyBlock C reg m.rep b).1 ∧
    (applyBlockM F C reg m b).2 = (applyBlock C reg m.rep b).2 := by
  unfold applyBlockM applyBlock appendFast appendFull
  simp only [ite_self]
  split
  · exact ⟨rfl, rfl⟩
  · cases append C reg (m.rep.setState (applyTxs m.rep.stateStore b.txs)).chain b <;> exact ⟨rfl, rfl⟩

/-- THE STATE ROOT IS CHECKED ON EVERY PATH: a block is accepted — through the fast or the full path, whatever the
    window holds — only if its header's state root is the root of the replica's state with the block's
    transactions applied. -/
theorem accepted_block_certifies_state_root (F : FastPath) (C : Crypto) (reg : Option (List (List Nat × Nat)))
    (m : Machine) (b : Block) (h : (applyBlockM F C reg m b).2 = none) :
    b.header.stateRoot = stateRoot C (applyTxs m.rep.stateStore b.txs) := by
  unfold applyBlockM appendFast appendFull at h
  simp only [ite_self, stateStore_setState] at h
  split at h
  · exact absurd h (by simp)
  · rename_i hne
    exact Classical.not_not.mp hne

/-- a rejected block leaves the whole object as it was: state store, chain, and the window -/
theorem rejected_block_leaves_machine_untouched (F : FastPath) (C : Crypto) (reg : Option (List (List Nat × Nat)))
    (m : Machine) (b : Block) (e : ApplyErr) (h : (applyBlockM F C reg m b).2 = some e) :
    (applyBlockM F C reg m b).1 = m := by
  have hw := apply_block_independent_of_window F C reg m b
  have hrep : (applyBlockM F C reg m b).1.rep = m.rep := by
    rw [hw.1]
    exact applyBlock_rejected_untouched C reg m.rep b e (by rw [← hw.2]; exact h)
  have hrec : (applyBlockM F C reg m b).1.recent = m.recent := by
    rw [applyBlockM_recent, h]
    simp
  have ext : ∀ (a c : Machine), a.rep = c.rep → a.recent = c.recent → a = c := by
    intro a c h1 h2
    obtain ⟨ra, wa⟩ := a
    obtain ⟨rc, wc⟩ := c
    simp only at h1 h2
    subst h1
    subst h2
    rfl
  exact ext _ _ hrep hrec

/-- an accepted block extends the window by exactly its own embedding (`track_embedding`) -/
theorem accepted_block_tracked (F : FastPath) (C : Crypto) (reg : Option (List (List Nat × Nat)))
    (m : Machine) (b : Block) (h : (applyBlockM F C reg m b).2 = none) :
    (applyBlockM F C reg m b).1.recent = trackEmbedding F m.recent b := by
  rw [applyBlockM_recent, h]
  simp

/-- THE WINDOW STAYS BOUNDED and holds non-empty embeddings only, across every operation of the object -/
theorem window_bounded (F : FastPath) (C : Crypto) (reg : Option (List (List Nat × Nat))) (m : Machine) (o : MOp)
    (hlen : m.recent.length ≤ F.maxRecent) (hnz : ∀ e ∈ m.recent, F.nonzero e = true) :
    (stepM F C reg m o).recent.length ≤ F.maxRecent ∧ ∀ e ∈ (stepM F C reg m o).recent, F.nonzero e = true := by
  cases o with
  | restart => exact ⟨by simp [stepM], by simp [stepM]⟩
  | clear => exact ⟨by simp [stepM], by simp [stepM]⟩
  | apply b =>
    simp only [stepM]
    cases hv : (applyBlockM F C reg m b).2 with
    | some e => rw [rejected_block_leaves_machine_untouched F C reg m b e hv]; exact ⟨hlen, hnz⟩
    | none =>
      rw [accepted_block_tracked F C reg m b hv]
      unfold trackEmbedding
      split
      · exact ⟨hlen, hnz⟩
      · rename_i hn
        refine ⟨trimFront_length _ _, ?_⟩
        intro e he
        have he' : e ∈ m.recent ++ [b.header.embedding] := List.mem_of_mem_drop he
        rcases List.mem_append.mp he' with h1 | h1
        · exact hnz e h1
        · simp only [List.mem_singleton] at h1
          subst h1
          simpa using hn

/-- a run of one object — blocks, restarts and `clear_recent()` calls in any order — leaves the replica the plain
    replay of its blocks leaves, and gives its verdicts -/
theorem run_is_replay_of_its_blocks (F : FastPath) (C : Crypto) (reg : Option (List (List Nat × Nat)))
    (ops : List MOp) (m : Machine) :
    (runM F C reg m ops).rep = replay C reg m.rep (blocksOf ops) ∧
    verdictsM F C reg m ops = replayVerdicts C reg m.rep (blocksOf ops) := by
  induction ops generalizing m with
  | nil => exact ⟨rfl, rfl⟩
  | cons o ops ih =>
    cases o with
    | apply b =>
      obtain ⟨h1, h2⟩ := apply_block_independent_of_window F C reg m b
      have := ih (applyBlockM F C reg m b).1
      simp only [runM, List.foldl_cons, stepM, blocksOf, replay, verdictsM, replayVerdicts] at this ⊢
      rw [this.1, this.2, h1, h2]
      exact ⟨rfl, rfl⟩
    | restart =>
      have := ih { m with recent := [] }
      simp only [runM, List.foldl_cons, stepM, blocksOf, verdictsM] at this ⊢
      exact this
    | clear =>
      have := ih { m with recent := [] }
      simp only [runM, List.foldl_cons, stepM, blocksOf, verdictsM] at this ⊢
      exact this

/-- REPLICAS AGREE FOR EVERY PAIR OF WINDOWS.  Two `TensorStateMachine` objects whose replicas agree (same state
    image, height, tip) are fed the same blocks; their windows are ARBITRARY and different, their thresholds /
    similarity functions / window sizes may differ (`F1`, `F2`), and each is restarted or has its window cleared
    at its own arbitrary points between the blocks (`ops1`, `ops2` share only their block sequence).  Then they
    give the same verdict on every block — honest or with a wrong state root / height / predecessor hash /
    transaction root / signature — and end in agreement: same state image, same height, same tip, same state
    root. -/
theorem replicas_agree_for_every_pair_of_windows (C : Crypto) (reg : Option (List (List Nat × Nat)))
    (F1 F2 : FastPath) (m1 m2 : Machine) (ops1 ops2 : List MOp)
    (hag : Agree m1.rep m2.rep) (hb : blocksOf ops1 = blocksOf ops2) :
    verdictsM F1 C reg m1 ops1 = verdictsM F2 C reg m2 ops2 ∧
    Agree (runM F1 C reg m1 ops1).rep (runM F2 C reg m2 ops2).rep ∧
    stateRoot C (runM F1 C reg m1 ops1).rep.stateStore = stateRoot C (runM F2 C reg m2 ops2).rep.stateStore := by
  obtain ⟨r1, v1⟩ := run_is_replay_of_its_blocks F1 C reg ops1 m1
  obtain ⟨r2, v2⟩ := run_is_replay_of_its_blocks F2 C reg ops2 m2
  rw [r1, r2, v1, v2, hb]
  exact ⟨replay_verdicts_deterministic C reg _ _ _ hag, replay_deterministic C reg _ _ _ hag⟩

/-- a replay never changes which store a replica keeps its state in -/
theorem replay_shared (C : Crypto) (reg : Option (List (List Nat × Nat))) (bs : List Block) (r : Replica) :
    (replay C reg r bs).shared = r.shared := by
  induction bs generalizing r with
  | nil => rfl
  | cons b bs ih =>
    simp only [replay, List.foldl_cons] at ih ⊢
    rw [ih, applyBlock_shared]

/-- REPLAY ON AN EMPTY STORE: replicas bootstrapped from one genesis block with empty state stores, whatever
    their windows hold and whenever they restart, end every common block sequence with the same state root,
    the same height and the same verdicts -/
theorem replay_on_empty_store_same_root_on_every_replica (C : Crypto) (reg : Option (List (List Nat × Nat)))
    (F1 F2 : FastPath) (proposer : List Nat) (ts : Nat) (w1 w2 : List (List Nat)) (ops1 ops2 : List MOp)
    (hb : blocksOf ops1 = blocksOf ops2) :
    let m1 : Machine := { rep := initReplica C false proposer ts, recent := w1 }
    let m2 : Machine := { rep := initReplica C false proposer ts, recent := w2 }
    verdictsM F1 C reg m1 ops1 = verdictsM F2 C reg m2 ops2 ∧
    (runM F1 C reg m1 ops1).rep.chain.height = (runM F2 C reg m2 ops2).rep.chain.height ∧
    (runM F1 C reg m1 ops1).rep.state = (runM F2 C reg m2 ops2).rep.state ∧
    stateRoot C (runM F1 C reg m1 ops1).rep.stateStore = stateRoot C (runM F2 C reg m2 ops2).rep.stateStore := by
  intro m1 m2
  have hag : Agree m1.rep m2.rep := ⟨rfl, rfl, rfl, rfl⟩
  obtain ⟨hv, ha, hr⟩ := replicas_agree_for_every_pair_of_windows C reg F1 F2 m1 m2 ops1 ops2 hag hb
  refine ⟨hv, ha.2.2.1, ?_, hr⟩
  have hsh1 : (runM F1 C reg m1 ops1).rep.shared = false := by
    rw [(run_is_replay_of_its_blocks F1 C reg ops1 m1).1]
    rw [replay_shared]; rfl
  have hsh2 : (runM F2 C reg m2 ops2).rep.shared = false := by
    rw [(run_is_replay_of_its_blocks F2 C reg ops2 m2).1]
    rw [replay_shared]; rfl
  have := ha.2.1
  simp only [Replica.stateStore, hsh1, hsh2, Bool.false_eq_true, if_false] at this
  exact this

/-! ### non-vacuity and witnesses on the driver's concrete crypto and embeddings -/

/-- a block on top of replica `r`: transactions `txs`, embedding `emb`, state root `root` -/
def fpBlock (r : Replica) (txs : List Tx) (emb : List Nat) (root : List Nat) (ts : Nat) : Block :=
  { header := { height := r.chain.height + 1, prevHash := r.chain.tip, txRoot := txRoot drvCrypto txs, stateRoot := root,
                embedding := emb, codes := [], timestamp := ts, proposer := [1], signature := [7] },
    txs := txs, sigs := [] }

def fpHonest (r : Replica) (txs : List Tx) (emb : List Nat) (ts : Nat) : Block :=
  fpBlock r txs emb (stateRoot drvCrypto (applyTxs r.stateStore txs)) ts

def fpWrongRoot (r : Replica) (txs : List Tx) (emb : List Nat) (ts : Nat) : Block :=
  fpBlock r txs emb (stateRoot drvCrypto (applyTxs r.stateStore txs) ++ [9]) ts

def fpM0 : Machine := { rep := initReplica drvCrypto false [1] 5, recent := [] }
def fpB1 : Block := fpHonest fpM0.rep [.put 1 1] [1, 0] 6
/-- replica A: block 1 (class 1) applied, window `[[1, 0]]` -/
def fpA1 : Machine := (applyBlockM (drvFast false) drvCrypto none fpM0 fpB1).1
/-- replica B: the same, then restarted (window empty) -/
def fpB1r : Machine := { fpA1 with recent := [] }
/-- block 2: honest, of the same direction class (similar to block 1) -/
def fpB2 : Block := fpHonest fpA1.rep [.put 2 2] [1, 3] 7
/-- block 2': the same transactions and embedding, but a state root that is not the root of the applied state -/
def fpB2bad : Block := fpWrongRoot fpA1.rep [.put 2 2] [1, 3] 7

/-- non-vacuity: the FAST path is really taken by replica A for block 2 and the FULL path by the restarted
    replica B, the honest block is accepted by both and the wrong-root block is rejected by both — through
    different paths — and the runs `[b1, b2, b2bad]` with and without a restart agree (hypotheses of
    `replicas_agree_for_every_pair_of_windows` hold: same blocks, agreeing replicas, different windows) -/
example : fpA1.recent = [[1, 0]] ∧ fpB1r.recent = [] ∧ Agree fpA1.rep fpB1r.rep ∧
    canFastPath (drvFast false) fpA1.recent fpB2 = true ∧ canFastPath (drvFast false) fpB1r.recent fpB2 = false ∧
    (applyBlockM (drvFast false) drvCrypto none fpA1 fpB2).2 = none ∧
    (applyBlockM (drvFast false) drvCrypto none fpB1r fpB2).2 = none ∧
    canFastPath (drvFast false) fpA1.recent fpB2bad = true ∧
    (applyBlockM (drvFast false) drvCrypto none fpA1 fpB2bad).2 = some .stateRoot ∧
    (applyBlockM (drvFast false) drvCrypto none fpB1r fpB2bad).2 = some .stateRoot :=
  ⟨by decide +kernel, by decide +kernel, ⟨by decide +kernel, by decide +kernel, by decide +kernel, by decide +kernel⟩,
   by decide +kernel, by decide +kernel, by decide +kernel, by decide +kernel, by decide +kernel, by decide +kernel,
   by decide +kernel⟩

example : blocksOf [.apply fpB1, .apply fpB2, .clear, .apply fpB2bad] = blocksOf [.apply fpB1, .restart, .apply fpB2, .apply fpB2bad] ∧
    verdictsM (drvFast false) drvCrypto none fpM0 [.apply fpB1, .apply fpB2, .clear, .apply fpB2bad] = [none, none, some .stateRoot] :=
  ⟨rfl, by decide +kernel⟩

/-- non-vacuity of `window_bounded`: replica A's window after block 1 is within the bound and non-empty -/
example : fpA1.recent.length ≤ (drvFast false).maxRecent ∧ (∀ e ∈ fpA1.recent, (drvFast false).nonzero e = true) ∧
    fpA1.recent ≠ [] := by decide +kernel

/-- the window evicts its oldest entry: with `max_recent` = 2, after three accepted embeddings the first is gone -/
example : trackEmbedding { drvFast false with maxRecent := 2 } [[1, 0], [2, 0]] fpB2 = [[2, 0], [1, 3]] := by decide

/-- WITNESS (regression fixture seeded/C16_4): in the variant whose fast path skips the state-root comparison,
    replica A (window holds block 1's embedding) ACCEPTS block 2' although its state root is not the root of the
    applied state — its writes stay, the chain grows — while replica B, which holds the same store and chain but
    was restarted, REJECTS it: two replicas fed the same blocks end with different heights and different state
    roots.  The current `applyBlockM` rejects it on both (example above). -/
theorem fast_path_skips_state_root_replicas_diverge_witness :
    Agree fpA1.rep fpB1r.rep ∧
    (applyBlockFastPathSkipsStateRoot (drvFast false) drvCrypto none fpA1 fpB2bad).2 = none ∧
    (applyBlockFastPathSkipsStateRoot (drvFast false) drvCrypto none fpB1r fpB2bad).2 = some .stateRoot ∧
    (applyBlockFastPathSkipsStateRoot (drvFast false) drvCrypto none fpA1 fpB2bad).1.rep.chain.height = 2 ∧
    (applyBlockFastPathSkipsStateRoot (drvFast false) drvCrypto none fpB1r fpB2bad).1.rep.chain.height = 1 ∧
    stateRoot drvCrypto (applyBlockFastPathSkipsStateRoot (drvFast false) drvCrypto none fpA1 fpB2bad).1.rep.stateStore ≠
      stateRoot drvCrypto (applyBlockFastPathSkipsStateRoot (drvFast false) drvCrypto none fpB1r fpB2bad).1.rep.stateStore :=
  ⟨⟨by decide +kernel, by decide +kernel, by decide +kernel, by decide +kernel⟩,
   by decide +kernel, by decide +kernel, by decide +kernel, by decide +kernel, by decide +kernel⟩

/-- WITNESS: in that variant an accepted block's state root certifies nothing — block 2' is accepted by replica A
    with a header root different from the root of the state it produced
    (`accepted_block_certifies_state_root` fails for the variant) -/
theorem fast_path_skips_state_root_accepts_wrong_root_witness :
    (applyBlockFastPathSkipsStateRoot (drvFast false) drvCrypto none fpA1 fpB2bad).2 = none ∧
    fpB2bad.header.stateRoot ≠ stateRoot drvCrypto (applyTxs fpA1.rep.stateStore fpB2bad.txs) :=
  ⟨by decide +kernel, by decide +kernel⟩

end Neumann.Chain.Props
