import NeumannModel.Chain.Lemmas9
/-
  C16 — property theorems, part 6: AUTO-MERGE WITH THE TRANSITION VALIDATOR.  With a non-empty global codebook
  `find_and_merge_orthogonal` asks the `TransitionValidator` about every merge candidate; a candidate it rejects
  is marked `Failed`.  "A transaction workspace either becomes one new block with all its writes applied, or
  leaves chain and store untouched" then demands that NOTHING of a rejected candidate reaches the operation list
  the block and the store are built from.  The verdict is an input bit of each candidate (`Cand.valid`), the
  statements hold for every candidate list and every verdict assignment.  Same conventions as `Props.lean`.
-/
namespace Neumann.Chain.Props
open Neumann.Chain

/-! ## 13. the merge loop under the validator -/

/-- WHAT THE LOOP RETURNS, for every candidate list, every `mark_committing` outcome and every verdict assignment:
    the block's operations are the committer's own followed by those of the ACCEPTED candidates (in loop order),
    the merged delta sums the committer's and the accepted directions, `merged_workspaces` are the accepted ids and
    the workspaces marked `Failed` are exactly the rejected ones. -/
theorem merge_block_is_own_plus_accepted (v : Bool) (own : List Tx) (dir : Nat) (cs : List Cand) :
    mergeLoop v own dir cs =
      { ops := own ++ (cs.filter (Cand.accepted v)).flatMap (·.ops),
        dirs := dir :: (cs.filter (Cand.accepted v)).map (·.dir),
        merged := (cs.filter (Cand.accepted v)).map (·.id),
        failed := (cs.filter (Cand.rejected v)).map (·.id) } := by
  unfold mergeLoop
  rw [mergeFold_char]
  simp [mergeInit]

/-- A REJECTED CANDIDATE CONTRIBUTES NOTHING: operation list, merged delta and merged workspaces — hence the block
    built from them and the store after applying them, from every store `s` — are those of the same commit with
    the rejected candidates absent (where the loop marks no workspace `Failed`). -/
theorem rejected_candidate_contributes_nothing (v : Bool) (own : List Tx) (dir : Nat) (cs : List Cand) :
    let r := mergeLoop v own dir cs
    let r' := mergeLoop v own dir (cs.filter fun c => !c.rejected v)
    r.ops = r'.ops ∧ r.dirs = r'.dirs ∧ r.merged = r'.merged ∧ r'.failed = [] ∧
      ∀ s, applyTxs s r.ops = applyTxs s r'.ops := by
  simp only [merge_block_is_own_plus_accepted, List.filter_filter, accepted_not_rejected, rejected_of_not_rejected]
  simp

/-- every operation of the block is the committer's own or an accepted candidate's -/
theorem failed_candidate_ops_not_in_block (v : Bool) (own : List Tx) (dir : Nat) (cs : List Cand) (t : Tx)
    (ht : t ∈ (mergeLoop v own dir cs).ops) : t ∈ own ∨ ∃ c ∈ cs, c.accepted v = true ∧ t ∈ c.ops := by
  rw [merge_block_is_own_plus_accepted] at ht
  simp only [List.mem_append, List.mem_flatMap, List.mem_filter] at ht
  rcases ht with h | ⟨c, ⟨hc, ha⟩, htc⟩
  · exact Or.inl h
  · exact Or.inr ⟨c, hc, ha, htc⟩

/-- a key that only rejected (or unmarkable) candidates write keeps its record in the store the commit leaves -/
theorem failed_candidate_writes_not_in_store (v : Bool) (own : List Tx) (dir : Nat) (cs : List Cand)
    (s : List (SKey × SVal)) (k : Nat) (hown : ∀ t ∈ own, t.key ≠ k)
    (hacc : ∀ c ∈ cs, c.accepted v = true → ∀ t ∈ c.ops, t.key ≠ k) :
    sget (applyTxs s (mergeLoop v own dir cs).ops) (.data k) = sget s (.data k) := by
  apply sget_applyTxs_untouched
  intro t ht
  rcases failed_candidate_ops_not_in_block v own dir cs t ht with h | ⟨c, hc, ha, htc⟩
  · exact hown t h
  · exact hacc c hc ha t htc

def wOwn : List Tx := [.put 1 1]
def wRejected : Cand := { id := 1, ops := [.put 2 2, .del 1], dir := 2, markable := true, valid := false }
def wAccepted : Cand := { id := 2, ops := [.put 3 3], dir := 3, markable := true, valid := true }

/-- non-vacuity: key 2 is written by a rejected candidate only; an accepted one sits next to it -/
example : wRejected.rejected true = true ∧ wAccepted.accepted true = true ∧
    (∀ t ∈ wOwn, t.key ≠ 2) ∧ (∀ c ∈ [wRejected, wAccepted], c.accepted true = true → ∀ t ∈ c.ops, t.key ≠ 2) ∧
    (mergeLoop true wOwn 1 [wRejected, wAccepted]).ops = [.put 1 1, .put 3 3] ∧
    (mergeLoop true wOwn 1 [wRejected, wAccepted]).failed = [1] := by decide

/-- THE DEFAULT CONFIGURATION IS THE `prepare` STEP OF `commitStep`: without a validator (empty codebook), or with
    one that accepts every candidate, candidates that are all still `Active` are all merged — `ops`, `dirs` and
    `merged` are the expressions `commitStep` uses, so every theorem about `commit` covers the accepted part. -/
theorem merge_all_accepted_is_commit_prepare (v : Bool) (valid : Nat → Bool) (ws : Ws) (cands : List Ws)
    (hact : ∀ w ∈ cands, w.state = .active) (hv : v = false ∨ ∀ w ∈ cands, valid w.id = true) :
    mergeLoop v ws.ops ws.dir (cands.map (Cand.ofWs valid)) =
      { ops := ws.ops ++ cands.flatMap (·.ops), dirs := ws.dir :: cands.map (·.dir),
        merged := cands.map (·.id), failed := [] } := by
  rw [merge_block_is_own_plus_accepted]
  have hacc : ∀ c ∈ cands.map (Cand.ofWs valid), c.accepted v = true := by
    intro c hc
    rcases List.mem_map.mp hc with ⟨w, hw, rfl⟩
    rcases hv with h | h
    · simp [Cand.accepted, Cand.ofWs, hact w hw, h]
    · simp [Cand.accepted, Cand.ofWs, hact w hw, h w hw]
  have hrej : ∀ c ∈ cands.map (Cand.ofWs valid), c.rejected v = false := by
    intro c hc
    have := hacc c hc
    revert this
    cases hm : c.markable <;> cases hvv : c.valid <;> cases v <;> simp [Cand.accepted, Cand.rejected, hm, hvv]
  rw [List.filter_eq_self.mpr hacc, List.filter_eq_nil_iff.mpr (by intro c hc; simp [hrej c hc])]
  simp [List.flatMap_map, List.map_map, Cand.ofWs, Function.comp_def]

example : (∀ w ∈ ([{ id := 1, snap := [], ops := [.put 2 2], state := .active, dir := 2 }] : List Ws), w.state = .active) := by decide

/-- VARIANT WITNESS (operations appended before the validator is consulted): the rejected candidate 1 is still
    marked `Failed` and is not among the merged workspaces, yet its put of key 2 is in the block's operation list
    and in the store, and its delete removed the committer's own write of key 1; the loop as it is leaves key 2
    absent and key 1 written. -/
theorem merge_append_before_validation_witness :
    wRejected.rejected true = true ∧
    (mergeLoopAppendBeforeValidation true wOwn 1 [wRejected]).failed = [1] ∧
    (mergeLoopAppendBeforeValidation true wOwn 1 [wRejected]).merged = [] ∧
    Tx.put 2 2 ∈ (mergeLoopAppendBeforeValidation true wOwn 1 [wRejected]).ops ∧
    dataAt (applyTxs [] (mergeLoopAppendBeforeValidation true wOwn 1 [wRejected]).ops) 2 = some 2 ∧
    dataAt (applyTxs [] (mergeLoopAppendBeforeValidation true wOwn 1 [wRejected]).ops) 1 = none ∧
    dataAt (applyTxs [] (mergeLoop true wOwn 1 [wRejected]).ops) 2 = none ∧
    dataAt (applyTxs [] (mergeLoop true wOwn 1 [wRejected]).ops) 1 = some 1 := by decide

end Neumann.Chain.Props
