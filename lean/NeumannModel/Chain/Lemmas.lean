import NeumannModel.Chain.Model
/-
  C16 — helper definitions and lemmas for the chain model.
-/
namespace Neumann.Chain

/-! ### hypotheses about the opaque functions -/

/-- SHA-256 is injective on the byte strings that occur (`occ`) -/
def HashInjOn (C : Crypto) (occ : List Nat → Prop) : Prop :=
  ∀ x y, occ x → occ y → C.hash x = C.hash y → x = y

/-- unforgeability on the occurring values: a `(message, signature)` pair verifies under key `k`
    only if the holder of `k` produced it (`signed` lists what the validators signed) -/
def SigSound (C : Crypto) (signed : List (Nat × List Nat × List Nat)) : Prop :=
  ∀ k m s, C.verify k m s = true → (k, m, s) ∈ signed

/-- `sign` produces non-empty signatures that verify -/
def SignCorrect (C : Crypto) : Prop :=
  ∀ k m, C.sign k m ≠ [] ∧ C.verify k m (C.sign k m) = true

/-- the integer fields fit their Rust types -/
def Header.WF (h : Header) : Prop :=
  h.height < 2 ^ 64 ∧ h.timestamp < 2 ^ 64 ∧ ∀ c ∈ h.codes, c < 2 ^ 16

/-! ### little-endian bytes -/

theorem leBytes_length (n v : Nat) : (leBytes n v).length = n := by
  induction n generalizing v with
  | zero => rfl
  | succ n ih => simp [leBytes, ih]

theorem leBytes_inj (n : Nat) : ∀ (a b : Nat), a < 256 ^ n → b < 256 ^ n → leBytes n a = leBytes n b → a = b := by
  induction n with
  | zero => intro a b ha hb _; simp at ha hb; omega
  | succ n ih =>
    intro a b ha hb h
    simp only [leBytes, List.cons.injEq] at h
    have h1 : a / 256 < 256 ^ n := by
      apply Nat.div_lt_of_lt_mul; rw [Nat.pow_succ] at ha; omega
    have h2 : b / 256 < 256 ^ n := by
      apply Nat.div_lt_of_lt_mul; rw [Nat.pow_succ] at hb; omega
    have := ih _ _ h1 h2 h.2
    omega

theorem leBytes8_inj (a b : Nat) (ha : a < 2 ^ 64) (hb : b < 2 ^ 64) (h : leBytes 8 a = leBytes 8 b) : a = b :=
  leBytes_inj 8 a b (by simpa using ha) (by simpa using hb) h

theorem flatMap_leBytes2_inj : ∀ (xs ys : List Nat), (∀ c ∈ xs, c < 2 ^ 16) → (∀ c ∈ ys, c < 2 ^ 16) →
    xs.flatMap (leBytes 2) = ys.flatMap (leBytes 2) → xs = ys := by
  intro xs
  induction xs with
  | nil =>
    intro ys _ _ h
    cases ys with
    | nil => rfl
    | cons y ys => simp [List.flatMap_cons, leBytes] at h
  | cons x xs ih =>
    intro ys hx hy h
    cases ys with
    | nil => simp [List.flatMap_cons, leBytes] at h
    | cons y ys =>
      simp only [List.flatMap_cons] at h
      have hl : (leBytes 2 x).length = (leBytes 2 y).length := by simp [leBytes_length]
      have h' := List.append_inj h hl
      have hxy : x = y := leBytes_inj 2 x y (by simpa using hx x (by simp)) (by simpa using hy y (by simp)) h'.1
      have := ih ys (fun c hc => hx c (by simp [hc])) (fun c hc => hy c (by simp [hc])) h'.2
      rw [hxy, this]

/-- the height can be read back from the signing bytes -/
theorem bytes_height (h1 h2 : Header) (w1 : h1.height < 2 ^ 64) (w2 : h2.height < 2 ^ 64)
    (h : h1.bytes = h2.bytes) : h1.height = h2.height := by
  unfold Header.bytes at h
  have hl : (leBytes 8 h1.height).length = (leBytes 8 h2.height).length := by simp [leBytes_length]
  exact leBytes8_inj _ _ w1 w2 (List.append_inj h hl).1

/-! ### the store -/

theorem sget_sput_same (s : List (SKey × SVal)) (k : SKey) (v : SVal) : sget (sput s k v) k = some v := by
  induction s with
  | nil => simp [sput, sget]
  | cons kv r ih =>
    obtain ⟨k', v'⟩ := kv
    simp only [sput]
    split
    · simp [sget]
    · split
      · simp [sget]
      · rename_i hne _
        simp [sget, hne, ih]

theorem sget_sput_ne (s : List (SKey × SVal)) (k k' : SKey) (v : SVal) (hne : k ≠ k') :
    sget (sput s k v) k' = sget s k' := by
  induction s with
  | nil => simp [sput, sget, hne]
  | cons kv r ih =>
    obtain ⟨k2, v2⟩ := kv
    simp only [sput]
    split
    · rename_i heq
      subst heq
      simp [sget, hne]
    · split
      · simp [sget, hne]
      · simp [sget, ih]

theorem sget_sdel_same (s : List (SKey × SVal)) (k : SKey) : sget (sdel s k) k = none := by
  induction s with
  | nil => rfl
  | cons kv r ih =>
    obtain ⟨k2, v2⟩ := kv
    simp only [sdel]
    split
    · exact ih
    · rename_i hne
      simp [sget, hne, ih]

theorem sget_sdel_ne (s : List (SKey × SVal)) (k k' : SKey) (hne : k ≠ k') : sget (sdel s k) k' = sget s k' := by
  induction s with
  | nil => rfl
  | cons kv r ih =>
    obtain ⟨k2, v2⟩ := kv
    simp only [sdel]
    split
    · rename_i heq
      subst heq
      simp [sget, hne, ih]
    · simp [sget, ih]

theorem blockAt_sput_same (s : List (SKey × SVal)) (i : Nat) (b : Block) :
    blockAt (sput s (.block i) (.block b)) i = some b := by
  simp [blockAt, sget_sput_same]

theorem blockAt_sput_ne (s : List (SKey × SVal)) (k : SKey) (v : SVal) (j : Nat) (hne : k ≠ .block j) :
    blockAt (sput s k v) j = blockAt s j := by
  simp [blockAt, sget_sput_ne _ _ _ _ hne]

theorem blockAt_sdel_same (s : List (SKey × SVal)) (i : Nat) : blockAt (sdel s (.block i)) i = none := by
  simp [blockAt, sget_sdel_same]

theorem blockAt_sdel_ne (s : List (SKey × SVal)) (k : SKey) (j : Nat) (hne : k ≠ .block j) :
    blockAt (sdel s k) j = blockAt s j := by
  simp [blockAt, sget_sdel_ne _ _ _ hne]

theorem blockAt_applyTxs (s : List (SKey × SVal)) (txs : List Tx) (j : Nat) : blockAt (applyTxs s txs) j = blockAt s j := by
  unfold applyTxs
  induction txs generalizing s with
  | nil => rfl
  | cons t ts ih =>
    simp only [List.foldl_cons]
    rw [ih]
    cases t with
    | put k v => exact blockAt_sput_ne _ _ _ _ (by simp)
    | del k => exact blockAt_sdel_ne _ _ _ (by simp)
    | cas k e v =>
      simp only [applyTx]
      split
      · exact blockAt_sput_ne _ _ _ _ (by simp)
      · rfl

/-! ### `verify_chain` is sound and complete for the pointwise link predicate -/

/-- the genesis block is present and its `tx_root` matches its transactions; every block `1..=height`
    is present and passes `checkLink` against its stored predecessor -/
def ChainOK (C : Crypto) (reg : Option (List (List Nat × Nat))) (c : ChainSt) : Prop :=
  (∃ g, blockAt c.store 0 = some g ∧ g.header.txRoot = txRoot C g.txs) ∧
  ∀ i, 1 ≤ i → i ≤ c.height →
    ∃ p b, blockAt c.store (i - 1) = some p ∧ blockAt c.store i = some b ∧ checkLink C reg p b = none

theorem verifyFrom_sound (C : Crypto) (reg : Option (List (List Nat × Nat))) (s : List (SKey × SVal)) :
    ∀ (n : Nat) (prev : Block) (h : Nat), 1 ≤ h → blockAt s (h - 1) = some prev → verifyFrom C reg s prev h n = none →
      ∀ i, h ≤ i → i < h + n →
        ∃ p b, blockAt s (i - 1) = some p ∧ blockAt s i = some b ∧ checkLink C reg p b = none := by
  intro n
  induction n with
  | zero => intro prev h _ _ _ i h1 h2; omega
  | succ n ih =>
    intro prev h hh hprev hv i h1 h2
    simp only [verifyFrom] at hv
    cases hb : blockAt s h with
    | none => simp [hb] at hv
    | some b =>
      simp only [hb] at hv
      cases hc : checkLink C reg prev b with
      | some e => simp [hc] at hv
      | none =>
        simp only [hc] at hv
        by_cases hi : i = h
        · subst hi
          exact ⟨prev, b, hprev, hb, hc⟩
        · exact ih b (h + 1) (by omega) (by simpa using hb) hv i (by omega) (by omega)

theorem verifyFrom_complete (C : Crypto) (reg : Option (List (List Nat × Nat))) (s : List (SKey × SVal)) :
    ∀ (n : Nat) (prev : Block) (h : Nat), 1 ≤ h → blockAt s (h - 1) = some prev →
      (∀ i, h ≤ i → i < h + n →
        ∃ p b, blockAt s (i - 1) = some p ∧ blockAt s i = some b ∧ checkLink C reg p b = none) →
      verifyFrom C reg s prev h n = none := by
  intro n
  induction n with
  | zero => intro prev h _ _ _; rfl
  | succ n ih =>
    intro prev h hh hprev hall
    obtain ⟨p, b, hp, hb, hc⟩ := hall h (by omega) (by omega)
    rw [hprev] at hp
    cases hp
    simp only [verifyFrom, hb, hc]
    exact ih b (h + 1) (by omega) (by simpa using hb) (fun i h1 h2 => hall i (by omega) (by omega))

theorem verify_sound (C : Crypto) (reg : Option (List (List Nat × Nat))) (c : ChainSt)
    (hv : verifyChain C reg c = none) (hh : 1 ≤ c.height) : ChainOK C reg c := by
  unfold verifyChain at hv
  have : ¬ c.height = 0 := by omega
  simp only [this, if_false] at hv
  cases hg : blockAt c.store 0 with
  | none => simp [hg] at hv
  | some g =>
    simp only [hg] at hv
    by_cases hroot : g.header.txRoot = txRoot C g.txs
    · simp only [hroot, ne_eq, not_true_eq_false, if_false] at hv
      refine ⟨⟨g, hg, hroot⟩, ?_⟩
      intro i h1 h2
      exact verifyFrom_sound C reg c.store c.height g 1 (by omega) (by simpa using hg) hv i h1 (by omega)
    · simp [hroot] at hv

theorem verify_complete (C : Crypto) (reg : Option (List (List Nat × Nat))) (c : ChainSt)
    (hok : ChainOK C reg c) : verifyChain C reg c = none := by
  unfold verifyChain
  by_cases h0 : c.height = 0
  · simp [h0]
  · obtain ⟨⟨g, hg, hroot⟩, hall⟩ := hok
    simp only [h0, if_false, hg, hroot, ne_eq, not_true_eq_false]
    exact verifyFrom_complete C reg c.store c.height g 1 (by omega) (by simpa using hg)
      (fun i h1 h2 => hall i h1 (by omega))

/-! ### the invariant maintained by `initialize` and `append` -/

/-- what every chain built through `initialize` / `append` satisfies -/
structure Inv (C : Crypto) (reg : Option (List (List Nat × Nat))) (c : ChainSt) : Prop where
  ok : ChainOK C reg c
  heights : ∀ i, i ≤ c.height → ∃ b, blockAt c.store i = some b ∧ b.header.height = i
  tip : ∃ t, blockAt c.store c.height = some t ∧ c.tip = t.header.hash C

theorem inv_init (C : Crypto) (reg : Option (List (List Nat × Nat))) (s : List (SKey × SVal)) (p : List Nat) (ts : Nat) :
    Inv C reg (initChain C s p ts) := by
  have hb : blockAt (initChain C s p ts).store 0 = some (genesisBlock C p ts) := by
    simp only [initChain]
    rw [blockAt_sput_ne _ _ _ _ (by simp), blockAt_sput_same]
  refine ⟨⟨⟨_, hb, rfl⟩, ?_⟩, ?_, ?_⟩
  · intro i h1 h2
    simp [initChain] at h2
    omega
  · intro i hi
    have : i = 0 := by simp [initChain] at hi; omega
    subst this
    exact ⟨_, hb, rfl⟩
  · exact ⟨_, hb, rfl⟩

/-- the successful branch of `append`, spelled out -/
theorem append_ok_inv (C : Crypto) (reg : Option (List (List Nat × Nat))) (c c' : ChainSt) (b : Block)
    (h : append C reg c b = .ok c') :
    let b' := fixTxRoot C b
    b.header.height = c.height + 1 ∧ b.header.prevHash = c.tip ∧ b'.header.txRoot = txRoot C b'.txs ∧
    (c.height + 1 > 1 → b'.header.signature ≠ [] ∧ regSigOk C reg b'.header = true) ∧
    c' = { store := sput (sput c.store (.block (c.height + 1)) (.block b')) .chainMeta (.height (c.height + 1)),
           height := c.height + 1, tip := b'.header.hash C } := by
  unfold append at h
  simp only at h
  split at h
  · cases h
  · split at h
    · cases h
    · split at h
      · cases h
      · split at h
        · cases h
        · split at h
          · cases h
          · rename_i h1 h2 h3 h4 h5
            have hfix : (fixTxRoot C b).txs = b.txs := by
              unfold fixTxRoot; split <;> rfl
            refine ⟨by simpa using h1, by simpa using h2, ?_, ?_, ?_⟩
            · simpa using h3
            · intro hgt
              refine ⟨?_, ?_⟩
              · intro he; exact h4 ⟨hgt, he⟩
              · cases hr : regSigOk C reg (fixTxRoot C b).header with
                | true => rfl
                | false => exact absurd ⟨hgt, hr⟩ h5
            · cases h; rfl

theorem fixTxRoot_height (C : Crypto) (b : Block) : (fixTxRoot C b).header.height = b.header.height := by
  unfold fixTxRoot; split <;> rfl
theorem fixTxRoot_prev (C : Crypto) (b : Block) : (fixTxRoot C b).header.prevHash = b.header.prevHash := by
  unfold fixTxRoot; split <;> rfl
theorem fixTxRoot_ts (C : Crypto) (b : Block) : (fixTxRoot C b).header.timestamp = b.header.timestamp := by
  unfold fixTxRoot; split <;> rfl

/-- `append` keeps the invariant, given the two facts `verify_chain` checks but `append` does not:
    the timestamp does not go back, and (when a registry is set) the block at height 1 carries a
    valid signature too -/
theorem inv_append (C : Crypto) (reg : Option (List (List Nat × Nat))) (c c' : ChainSt) (b : Block)
    (hinv : Inv C reg c) (h : append C reg c b = .ok c')
    (hts : ∀ t, blockAt c.store c.height = some t → t.header.timestamp ≤ b.header.timestamp)
    (hsig1 : c.height = 0 → regSigOk C reg (fixTxRoot C b).header = true) :
    Inv C reg c' := by
  obtain ⟨hh, hp, htx, hsig, hc'⟩ := append_ok_inv C reg c c' b h
  obtain ⟨t, htip, htiph⟩ := hinv.tip
  obtain ⟨t', ht', hth⟩ := hinv.heights c.height (Nat.le_refl _)
  rw [htip] at ht'; cases ht'
  subst hc'
  -- lookups in the new store
  have hnew : blockAt (sput (sput c.store (.block (c.height + 1)) (.block (fixTxRoot C b))) .chainMeta (.height (c.height + 1)))
      (c.height + 1) = some (fixTxRoot C b) := by
    rw [blockAt_sput_ne _ _ _ _ (by simp), blockAt_sput_same]
  have hold : ∀ j, j ≤ c.height →
      blockAt (sput (sput c.store (.block (c.height + 1)) (.block (fixTxRoot C b))) .chainMeta (.height (c.height + 1))) j
        = blockAt c.store j := by
    intro j hj
    rw [blockAt_sput_ne _ _ _ _ (by simp), blockAt_sput_ne _ _ _ _ (by simp; omega)]
  have hlink : checkLink C reg t (fixTxRoot C b) = none := by
    have hs : regSigOk C reg (fixTxRoot C b).header = true := by
      by_cases h0 : c.height = 0
      · exact hsig1 h0
      · exact (hsig (by omega)).2
    unfold checkLink
    simp only [fixTxRoot_height, fixTxRoot_prev, fixTxRoot_ts, hh, hth, hp, htiph, Header.hash, htx, hs]
    have := hts t htip
    simp [Nat.not_lt.mpr this]
  refine ⟨⟨?_, ?_⟩, ?_, ?_⟩
  · obtain ⟨g, hg, hroot⟩ := hinv.ok.1
    exact ⟨g, by rw [hold 0 (Nat.zero_le _)]; exact hg, hroot⟩
  · intro i h1 h2
    simp only at h2
    by_cases hi : i = c.height + 1
    · subst hi
      refine ⟨t, fixTxRoot C b, ?_, hnew, hlink⟩
      simp only [Nat.add_sub_cancel]
      rw [hold _ (Nat.le_refl _)]; exact htip
    · obtain ⟨p, b2, hp2, hb2, hc2⟩ := hinv.ok.2 i h1 (by omega)
      exact ⟨p, b2, by rw [hold _ (by omega)]; exact hp2, by rw [hold _ (by omega)]; exact hb2, hc2⟩
  · intro i hi
    simp only at hi
    by_cases hi' : i = c.height + 1
    · subst hi'
      exact ⟨_, hnew, by rw [fixTxRoot_height]; exact hh⟩
    · obtain ⟨b2, hb2, hh2⟩ := hinv.heights i (by omega)
      exact ⟨b2, by rw [hold _ (by omega)]; exact hb2, hh2⟩
  · exact ⟨_, hnew, rfl⟩

/-! ### what the validators signed: the `(key, signing bytes, signature)` of the stored blocks `1..=n` -/

def signedOf (reg : List (List Nat × Nat)) (s : List (SKey × SVal)) : Nat → List (Nat × List Nat × List Nat)
  | 0 => []
  | n + 1 =>
    (match blockAt s (n + 1) with
      | some b =>
        match regLookup reg b.header.proposer with
        | some k => [(k, b.header.bytes, b.header.signature)]
        | none => []
      | none => []) ++ signedOf reg s n

theorem mem_signedOf (reg : List (List Nat × Nat)) (s : List (SKey × SVal)) (n : Nat) (t : Nat × List Nat × List Nat)
    (h : t ∈ signedOf reg s n) :
    ∃ j b, 1 ≤ j ∧ j ≤ n ∧ blockAt s j = some b ∧ t.2.1 = b.header.bytes ∧ t.2.2 = b.header.signature := by
  induction n with
  | zero => simp [signedOf] at h
  | succ n ih =>
    simp only [signedOf, List.mem_append] at h
    rcases h with h | h
    · cases hb : blockAt s (n + 1) with
      | none => simp [hb] at h
      | some b =>
        simp only [hb] at h
        cases hk : regLookup reg b.header.proposer with
        | none => simp [hk] at h
        | some k =>
          simp only [hk, List.mem_singleton] at h
          subst h
          exact ⟨n + 1, b, by omega, by omega, hb, rfl, rfl⟩
    · obtain ⟨j, b, h1, h2, h3⟩ := ih h
      exact ⟨j, b, h1, by omega, h3⟩

theorem regSigOk_some (C : Crypto) (r : List (List Nat × Nat)) (h : Header) (hs : regSigOk C (some r) h = true) :
    ∃ k, regLookup r h.proposer = some k ∧ C.verify k h.bytes h.signature = true := by
  simp only [regSigOk, sigOk] at hs
  split at hs
  · cases hs
  · split at hs
    · cases hs
    · rename_i k hk
      exact ⟨k, hk, hs⟩

theorem checkLink_none (C : Crypto) (reg : Option (List (List Nat × Nat))) (p b : Block)
    (h : checkLink C reg p b = none) :
    b.header.height = p.header.height + 1 ∧ b.header.prevHash = p.header.hash C ∧
    b.header.txRoot = txRoot C b.txs ∧ p.header.timestamp ≤ b.header.timestamp ∧ regSigOk C reg b.header = true := by
  unfold checkLink at h
  split at h
  · cases h
  · split at h
    · cases h
    · split at h
      · cases h
      · split at h
        · cases h
        · split at h
          · rename_i h1 h2 h3 h4 h5
            exact ⟨by simpa using h1, by simpa using h2, by simpa using h3, by omega, h5⟩
          · cases h

/-! ### the commit pipeline -/


/-- the block `commit` builds from the state it reads at the `build` step -/
def builtBlock (C : Crypto) (n : Node) (ops : List Tx) (dirs : List Nat) (root : List Nat) (ts : Nat) : Block :=
  let h0 : Header :=
    { height := n.chain.height + 1, prevHash := n.chain.tip, txRoot := txRoot C ops, stateRoot := root,
      embedding := embBytes dirs, codes := [], timestamp := ts, proposer := n.cfg.nodeId, signature := [] }
  { header := { h0 with signature := C.sign n.cfg.key h0.bytes }, txs := ops, sigs := [] }

theorem finish_chain (n : Node) (ids : List Nat) (st : WsState) : (finish n ids st).chain = n.chain := rfl

theorem pipeline (C : Crypto) (n : Node) (l : Local) (hpc : l.pc = .snapshot) :
    let r := commitRun C 7 n l
    (∃ c', append C n.cfg.registry { n.chain with store := applyTxs n.chain.store l.ops }
              (builtBlock C n l.ops l.dirs (stateRoot C (applyTxs n.chain.store l.ops)) l.ts) = .ok c' ∧
            r.1.chain = c' ∧ r.2.res = some (.ok c'.height) ∧ r.2.ops = l.ops)
    ∨ (r.1.chain = n.chain ∧ ∀ h, r.2.res ≠ some (.ok h)) := by
  intro r
  cases happ : append C n.cfg.registry { n.chain with store := applyTxs n.chain.store l.ops }
              (builtBlock C n l.ops l.dirs (stateRoot C (applyTxs n.chain.store l.ops)) l.ts) with
  | ok c' =>
    left
    refine ⟨c', rfl, ?_⟩
    simp only [r, commitRun, commitStep, hpc, builtBlock] at happ ⊢
    simp [happ, finish_chain]
  | error e =>
    right
    simp only [r, commitRun, commitStep, hpc, builtBlock] at happ ⊢
    simp [happ, finish_chain]


theorem prepare_cases (C : Crypto) (n : Node) (w ts : Nat) :
    let r := commitStep C n (Local.init w ts)
    (r.2.pc = .done ∧ r.1.chain = n.chain ∧ ∀ h, r.2.res ≠ some (.ok h)) ∨
    (r.2.pc = .snapshot ∧ r.1.chain = n.chain ∧ r.1.cfg = n.cfg ∧ r.2.ts = ts ∧
      ∃ ws extra, findWs n.wss w = some ws ∧ r.2.ops = ws.ops ++ extra) := by
  intro r
  simp only [r, commitStep, Local.init]
  cases hf : findWs n.wss w with
  | none => left; simp
  | some ws =>
    simp only
    split
    · left; simp
    · split
      · left; simp [finish]
      · split
        · left; simp [finish]
        · split
          · left; simp [finish]
          · split
            · left; simp [finish]
            · right; simp


theorem fixTxRoot_txs (C : Crypto) (b : Block) : (fixTxRoot C b).txs = b.txs := by
  unfold fixTxRoot; split <;> rfl

/-- the checks of `Chain::append` read only the in-memory height and tip, never the store -/
def appendCheck (C : Crypto) (reg : Option (List (List Nat × Nat))) (height : Nat) (tip : List Nat) (b : Block) :
    Except AppendErr Block :=
  if b.header.height ≠ height + 1 then .error .height
  else if b.header.prevHash ≠ tip then .error .prevHash
  else if (fixTxRoot C b).header.txRoot ≠ txRoot C (fixTxRoot C b).txs then .error .txRoot
  else if height + 1 > 1 ∧ (fixTxRoot C b).header.signature = [] then .error .unsigned
  else if height + 1 > 1 ∧ regSigOk C reg (fixTxRoot C b).header = false then .error .badSig
  else .ok (fixTxRoot C b)

theorem append_eq (C : Crypto) (reg : Option (List (List Nat × Nat))) (c : ChainSt) (b : Block) :
    append C reg c b =
      match appendCheck C reg c.height c.tip b with
      | .ok b' => .ok { store := sput (sput c.store (.block (c.height + 1)) (.block b')) .chainMeta (.height (c.height + 1)),
                        height := c.height + 1, tip := b'.header.hash C }
      | .error e => .error e := by
  unfold append appendCheck
  simp only
  (repeat' split) <;> simp_all

/-! ### `merkle_root` / `compute_tx_root` are injective on lists of equal length -/

/-- SHA-256 digests all have one length (32 bytes) -/
def HashLen (C : Crypto) (n : Nat) : Prop := ∀ x, (C.hash x).length = n

/-- the byte strings hashed by one level of `merkle_root` -/
def levelInputs : List (List Nat) → List (List Nat)
  | [] => []
  | [a] => [a ++ a]
  | a :: b :: rest => (a ++ b) :: levelInputs rest

/-- the byte strings hashed by the whole `while` loop -/
def loopInputs (C : Crypto) : Nat → List (List Nat) → List (List Nat)
  | _, [] => []
  | _, [_] => []
  | 0, _ :: _ => []
  | fuel + 1, level => levelInputs level ++ loopInputs C fuel (merkleLevel C level)

/-- every byte string `compute_tx_root` feeds to SHA-256: the serialised transactions and all inner pairs -/
def txRootInputs (C : Crypto) (txs : List Tx) : List (List Nat) :=
  txs.map Tx.enc ++ loopInputs C txs.length (txs.map fun t => C.hash t.enc)

theorem merkleLevel_length (C : Crypto) : ∀ (l : List (List Nat)), (merkleLevel C l).length = (l.length + 1) / 2
  | [] => rfl
  | [a] => by simp [merkleLevel]
  | a :: b :: rest => by
    simp only [merkleLevel, List.length_cons, merkleLevel_length C rest]
    omega

theorem merkleLevel_allLen (C : Crypto) (n : Nat) (hl : HashLen C n) :
    ∀ (l : List (List Nat)), ∀ x ∈ merkleLevel C l, x.length = n
  | [] => by simp [merkleLevel]
  | [a] => by simp [merkleLevel, hl _]
  | a :: b :: rest => by
    intro x hx
    simp only [merkleLevel, List.mem_cons] at hx
    rcases hx with rfl | hx
    · exact hl _
    · exact merkleLevel_allLen C n hl rest x hx

/-- one level is injective on lists of equal length whose entries have one length -/
theorem merkleLevel_inj (C : Crypto) (occ : List Nat → Prop) (hinj : HashInjOn C occ) (n : Nat) :
    ∀ (xs ys : List (List Nat)), xs.length = ys.length → (∀ x ∈ xs, x.length = n) → (∀ y ∈ ys, y.length = n) →
      (∀ z ∈ levelInputs xs, occ z) → (∀ z ∈ levelInputs ys, occ z) →
      merkleLevel C xs = merkleLevel C ys → xs = ys
  | [], [], _, _, _, _, _, _ => rfl
  | [], _ :: _, h, _, _, _, _, _ => by simp at h
  | _ :: _, [], h, _, _, _, _, _ => by simp at h
  | [a], [a'], _, hx, hy, ox, oy, h => by
    simp only [merkleLevel, List.cons.injEq, and_true] at h
    have := hinj _ _ (ox _ (by simp [levelInputs])) (oy _ (by simp [levelInputs])) h
    have hl : a.length = a'.length := by rw [hx a (by simp), hy a' (by simp)]
    rw [(List.append_inj this hl).1]
  | [_], _ :: _ :: _, h, _, _, _, _, _ => by simp at h
  | _ :: _ :: _, [_], h, _, _, _, _, _ => by simp at h
  | a :: b :: r, a' :: b' :: r', hlen, hx, hy, ox, oy, h => by
    simp only [merkleLevel, List.cons.injEq] at h
    have e := hinj _ _ (ox _ (by simp [levelInputs])) (oy _ (by simp [levelInputs])) h.1
    have hl : a.length = a'.length := by rw [hx a (by simp), hy a' (by simp)]
    have e' := List.append_inj e hl
    have ih := merkleLevel_inj C occ hinj n r r' (by simpa using hlen)
      (fun x hx' => hx x (by simp [hx'])) (fun y hy' => hy y (by simp [hy']))
      (fun z hz => ox z (by simp [levelInputs, hz])) (fun z hz => oy z (by simp [levelInputs, hz])) h.2
    rw [e'.1, e'.2, ih]

theorem merkleLoop_inj (C : Crypto) (occ : List Nat → Prop) (hinj : HashInjOn C occ) (n : Nat) (hl : HashLen C n) :
    ∀ (fuel : Nat) (xs ys : List (List Nat)), xs.length = ys.length → xs.length ≤ fuel →
      (∀ x ∈ xs, x.length = n) → (∀ y ∈ ys, y.length = n) →
      (∀ z ∈ loopInputs C fuel xs, occ z) → (∀ z ∈ loopInputs C fuel ys, occ z) →
      merkleLoop C fuel xs = merkleLoop C fuel ys → xs = ys := by
  intro fuel
  induction fuel with
  | zero =>
    intro xs ys hlen hf _ _ _ _ _
    have : xs = [] := by cases xs <;> simp_all
    subst this
    cases ys <;> simp_all
  | succ fuel ih =>
    intro xs ys hlen hf hx hy ox oy h
    match xs, ys, hlen with
    | [], [], _ => rfl
    | [a], [a'], _ => simpa [merkleLoop] using h
    | a :: b :: r, a' :: b' :: r', hlen =>
      have e1 : merkleLoop C (fuel + 1) (a :: b :: r) = merkleLoop C fuel (merkleLevel C (a :: b :: r)) := by
        first | rfl | (rw [merkleLoop] <;> simp)
      have e2 : merkleLoop C (fuel + 1) (a' :: b' :: r') = merkleLoop C fuel (merkleLevel C (a' :: b' :: r')) := by
        first | rfl | (rw [merkleLoop] <;> simp)
      have i1 : loopInputs C (fuel + 1) (a :: b :: r) = levelInputs (a :: b :: r) ++ loopInputs C fuel (merkleLevel C (a :: b :: r)) := by
        first | rfl | (rw [loopInputs] <;> simp)
      have i2 : loopInputs C (fuel + 1) (a' :: b' :: r') = levelInputs (a' :: b' :: r') ++ loopInputs C fuel (merkleLevel C (a' :: b' :: r')) := by
        first | rfl | (rw [loopInputs] <;> simp)
      rw [e1, e2] at h
      rw [i1] at ox
      rw [i2] at oy
      have hlv := ih (merkleLevel C (a :: b :: r)) (merkleLevel C (a' :: b' :: r'))
        (by rw [merkleLevel_length, merkleLevel_length, hlen])
        (by rw [merkleLevel_length]; simp only [List.length_cons] at hf ⊢; omega)
        (merkleLevel_allLen C n hl _) (merkleLevel_allLen C n hl _)
        (fun z hz => ox z (List.mem_append_right _ hz)) (fun z hz => oy z (List.mem_append_right _ hz)) h
      exact merkleLevel_inj C occ hinj n _ _ hlen hx hy
        (fun z hz => ox z (List.mem_append_left _ hz)) (fun z hz => oy z (List.mem_append_left _ hz)) hlv

theorem optCode_inj (a b : Option Nat) (h : optCode a = optCode b) : a = b := by
  cases a <;> cases b <;> simp_all [optCode]

theorem Tx.enc_inj (a b : Tx) (h : a.enc = b.enc) : a = b := by
  cases a <;> cases b <;> simp_all [Tx.enc]
  exact optCode_inj _ _ h.2.1

/-- `compute_tx_root` is injective on transaction lists of EQUAL length -/
theorem txRoot_inj_of_length_eq (C : Crypto) (occ : List Nat → Prop) (hinj : HashInjOn C occ) (n : Nat) (hl : HashLen C n)
    (txs txs' : List Tx) (hlen : txs.length = txs'.length)
    (o1 : ∀ z ∈ txRootInputs C txs, occ z) (o2 : ∀ z ∈ txRootInputs C txs', occ z)
    (h : txRoot C txs = txRoot C txs') : txs = txs' := by
  match txs, txs', hlen with
  | [], [], _ => rfl
  | t :: r, t' :: r', hlen =>
    have h' : merkleLoop C (t :: r).length ((t :: r).map fun t => C.hash t.enc) =
        merkleLoop C (t :: r).length ((t' :: r').map fun t => C.hash t.enc) := by
      have := h
      simp only [txRoot, merkleRoot, List.length_map] at this
      rw [← hlen] at this
      exact this
    simp only [txRootInputs] at o1 o2
    have hm := merkleLoop_inj C occ hinj n hl (t :: r).length ((t :: r).map fun t => C.hash t.enc)
      ((t' :: r').map fun t => C.hash t.enc) (by simp only [List.length_map]; exact hlen) (by simp)
      (by intro x hx; simp only [List.mem_map] at hx; obtain ⟨_, _, rfl⟩ := hx; exact hl _)
      (by intro x hx; simp only [List.mem_map] at hx; obtain ⟨_, _, rfl⟩ := hx; exact hl _)
      (fun z hz => o1 z (List.mem_append_right _ hz))
      (fun z hz => o2 z (List.mem_append_right _ (by rw [← hlen]; exact hz))) h'
    -- leaves equal → encodings equal → transactions equal
    have : ∀ (a b : List Tx), (∀ z ∈ a.map Tx.enc, occ z) → (∀ z ∈ b.map Tx.enc, occ z) →
        a.map (fun t => C.hash t.enc) = b.map (fun t => C.hash t.enc) → a = b := by
      intro a
      induction a with
      | nil => intro b _ _ hb; cases b <;> simp_all
      | cons x a ih =>
        intro b oa ob hb
        cases b with
        | nil => simp at hb
        | cons y b =>
          simp only [List.map_cons, List.cons.injEq] at hb
          have := Tx.enc_inj _ _ (hinj _ _ (oa _ (by simp)) (ob _ (by simp)) hb.1)
          rw [this, ih b (fun z hz => oa z (by simp at hz ⊢; exact Or.inr hz)) (fun z hz => ob z (by simp at hz ⊢; exact Or.inr hz)) hb.2]
    exact this _ _ (fun z hz => o1 z (List.mem_append_left _ hz)) (fun z hz => o2 z (List.mem_append_left _ hz)) hm

/-! ### one uninterrupted `commit` keeps the chain invariant -/

/-- `Inv` reads the store only through the block records -/
theorem inv_store_congr (C : Crypto) (reg : Option (List (List Nat × Nat))) (c : ChainSt) (s' : List (SKey × SVal))
    (h : ∀ j, blockAt s' j = blockAt c.store j) (hinv : Inv C reg c) : Inv C reg { c with store := s' } := by
  obtain ⟨⟨⟨g, hg, hr⟩, hall⟩, hh, t, ht, htip⟩ := hinv
  refine ⟨⟨⟨g, by simp only [h]; exact hg, hr⟩, fun i h1 h2 => ?_⟩, fun i hi => ?_, ⟨t, by simp only [h]; exact ht, htip⟩⟩
  · obtain ⟨p, b, hp, hb, hc⟩ := hall i h1 h2
    exact ⟨p, b, by simp only [h]; exact hp, by simp only [h]; exact hb, hc⟩
  · obtain ⟨b, hb, hbh⟩ := hh i hi
    exact ⟨b, by simp only [h]; exact hb, hbh⟩

theorem fixTxRoot_of_root (C : Crypto) (b : Block) (h : b.header.txRoot = txRoot C b.txs) : fixTxRoot C b = b := by
  unfold fixTxRoot
  split
  · obtain ⟨hd, txs, sigs⟩ := b
    obtain ⟨a1, a2, a3, a4, a5, a6, a7, a8, a9⟩ := hd
    simp only at h
    simp [h]
  · rfl

/-- the block `commit` builds carries a signature that `verify_chain` accepts, when the node's own id is
    registered with its own key -/
theorem builtBlock_sigOk (C : Crypto) (n : Node) (ops : List Tx) (dirs : List Nat) (root : List Nat) (ts : Nat)
    (hsc : SignCorrect C) (hreg : ∀ r, n.cfg.registry = some r → regLookup r n.cfg.nodeId = some n.cfg.key) :
    regSigOk C n.cfg.registry (fixTxRoot C (builtBlock C n ops dirs root ts)).header = true := by
  rw [fixTxRoot_of_root C _ rfl]
  cases hr : n.cfg.registry with
  | none => rfl
  | some r =>
    have hk := hreg r hr
    obtain ⟨h1, h2⟩ := hsc n.cfg.key
      ({ height := n.chain.height + 1, prevHash := n.chain.tip, txRoot := txRoot C ops, stateRoot := root,
         embedding := embBytes dirs, codes := [], timestamp := ts, proposer := n.cfg.nodeId, signature := [] } : Header).bytes
    simp only [regSigOk, sigOk, builtBlock, hk, h1, if_false]
    exact h2

theorem commitStep_cfg (C : Crypto) (n : Node) (l : Local) : (commitStep C n l).1.cfg = n.cfg := by
  unfold commitStep
  (repeat' (first | split | (simp only []; split))) <;> first | rfl | simp [finish]

theorem commitRun_cfg (C : Crypto) : ∀ (f : Nat) (n : Node) (l : Local), (commitRun C f n l).1.cfg = n.cfg
  | 0, _, _ => rfl
  | f + 1, n, l => by
    rw [commitRun]
    split
    · rfl
    · simp only
      rw [commitRun_cfg C f, commitStep_cfg]

theorem commit_cfg (C : Crypto) (n : Node) (w ts : Nat) : (commit C n w ts).1.cfg = n.cfg := commitRun_cfg C 8 n _

/-- one uninterrupted `TensorChain::commit` keeps the chain invariant, given: signing works, the node's id is
    registered with its key, the clock has not gone back since the tip block -/
theorem commit_inv (C : Crypto) (n : Node) (w ts : Nat) (hsc : SignCorrect C)
    (hreg : ∀ r, n.cfg.registry = some r → regLookup r n.cfg.nodeId = some n.cfg.key)
    (hinv : Inv C n.cfg.registry n.chain)
    (hts : ∀ t, blockAt n.chain.store n.chain.height = some t → t.header.timestamp ≤ ts) :
    Inv C n.cfg.registry (commit C n w ts).1.chain := by
  have hr : commit C n w ts = commitRun C 7 (commitStep C n (Local.init w ts)).1 (commitStep C n (Local.init w ts)).2 := by
    simp [commit, commitRun, Local.init]
  have key := prepare_cases C n w ts
  simp only at key
  generalize commitStep C n (Local.init w ts) = q at key hr
  obtain ⟨n1, l1⟩ := q
  simp only at key hr
  rcases key with ⟨hpc, hch, _⟩ | ⟨hpc, hch, hcfg, hlts, _⟩
  · have : commit C n w ts = (n1, l1) := by rw [hr]; simp [commitRun, hpc]
    rw [this]; simp only [hch]; exact hinv
  · rcases pipeline C n1 l1 hpc with ⟨c', happ, h1, _⟩ | ⟨h1, _⟩
    · rw [hr, h1]
      rw [hcfg] at happ
      refine inv_append C n.cfg.registry _ c' _ ?_ happ ?_ ?_
      · exact inv_store_congr C _ n1.chain _ (fun j => blockAt_applyTxs _ _ j) (by rw [hch]; exact hinv)
      · intro t ht
        simp only [blockAt_applyTxs] at ht
        rw [hch] at ht
        have := hts t ht
        simp only [builtBlock, hlts]
        exact this
      · intro _
        have := builtBlock_sigOk C n1 l1.ops l1.dirs (stateRoot C (applyTxs n1.chain.store l1.ops)) l1.ts hsc
          (by rw [hcfg]; exact hreg)
        rw [hcfg] at this
        exact this
    · rw [hr, h1, hch]; exact hinv

/-! ### the store's data image is the replay of the chain -/

/-- the transactions of the stored blocks `1..=n`, in chain order -/
def chainTxs (s : List (SKey × SVal)) : Nat → List Tx
  | 0 => []
  | n + 1 => chainTxs s n ++ (match blockAt s (n + 1) with | some b => b.txs | none => [])

/-- equal data images (what clients read; block and metadata records are not compared) -/
def DataEq (s s' : List (SKey × SVal)) : Prop := ∀ k, sget s (.data k) = sget s' (.data k)

theorem DataEq.trans {a b c : List (SKey × SVal)} (h1 : DataEq a b) (h2 : DataEq b c) : DataEq a c :=
  fun k => (h1 k).trans (h2 k)

theorem applyTx_dataEq (s s' : List (SKey × SVal)) (h : DataEq s s') (t : Tx) : DataEq (applyTx s t) (applyTx s' t) := by
  intro k
  cases t with
  | put k' v =>
    simp only [applyTx]
    by_cases hk : k' = k
    · subst hk; rw [sget_sput_same, sget_sput_same]
    · rw [sget_sput_ne _ _ _ _ (by simp [hk]), sget_sput_ne _ _ _ _ (by simp [hk])]; exact h k
  | del k' =>
    simp only [applyTx]
    by_cases hk : k' = k
    · subst hk; rw [sget_sdel_same, sget_sdel_same]
    · rw [sget_sdel_ne _ _ _ (by simp [hk]), sget_sdel_ne _ _ _ (by simp [hk])]; exact h k
  | cas k' e v =>
    have hd : dataAt s k' = dataAt s' k' := by simp only [dataAt, h k']
    simp only [applyTx, hd]
    split
    · by_cases hk : k' = k
      · subst hk; rw [sget_sput_same, sget_sput_same]
      · rw [sget_sput_ne _ _ _ _ (by simp [hk]), sget_sput_ne _ _ _ _ (by simp [hk])]; exact h k
    · exact h k

theorem applyTxs_dataEq (txs : List Tx) : ∀ (s s' : List (SKey × SVal)), DataEq s s' → DataEq (applyTxs s txs) (applyTxs s' txs) := by
  unfold applyTxs
  induction txs with
  | nil => intro s s' h; exact h
  | cons t ts ih => intro s s' h; exact ih _ _ (applyTx_dataEq s s' h t)

theorem applyTxs_append (s : List (SKey × SVal)) (a b : List Tx) : applyTxs s (a ++ b) = applyTxs (applyTxs s a) b := by
  simp [applyTxs, List.foldl_append]

theorem dataEq_sput_block (s : List (SKey × SVal)) (i : Nat) (v : SVal) : DataEq (sput s (.block i) v) s :=
  fun k => sget_sput_ne _ _ _ _ (by simp)

theorem dataEq_sput_meta (s : List (SKey × SVal)) (v : SVal) : DataEq (sput s .chainMeta v) s :=
  fun k => sget_sput_ne _ _ _ _ (by simp)

theorem chainTxs_congr (s s' : List (SKey × SVal)) : ∀ (n : Nat), (∀ j, j ≤ n → blockAt s' j = blockAt s j) → chainTxs s' n = chainTxs s n
  | 0, _ => rfl
  | n + 1, h => by
    simp only [chainTxs]
    rw [chainTxs_congr s s' n (fun j hj => h j (by omega)), h (n + 1) (Nat.le_refl _)]

/-- the store's data image is the replay of the chain's blocks -/
def DataInv (c : ChainSt) : Prop := DataEq c.store (applyTxs [] (chainTxs c.store c.height))

theorem dataInv_init (C : Crypto) (p : List Nat) (ts : Nat) : DataInv (initChain C [] p ts) := by
  intro k
  simp only [initChain, chainTxs]
  rw [sget_sput_ne _ _ _ _ (by simp), sget_sput_ne _ _ _ _ (by simp)]
  rfl

/-- appending block `b` on top of a store to which exactly `b.txs` were applied keeps `DataInv` -/
theorem dataInv_commit (c : ChainSt) (b : Block) (tip' : List Nat) (h : DataInv c) :
    DataInv { store := sput (sput (applyTxs c.store b.txs) (.block (c.height + 1)) (.block b)) .chainMeta (.height (c.height + 1)),
              height := c.height + 1, tip := tip' } := by
  unfold DataInv
  simp only [chainTxs]
  have hold : ∀ j, j ≤ c.height →
      blockAt (sput (sput (applyTxs c.store b.txs) (.block (c.height + 1)) (.block b)) .chainMeta (.height (c.height + 1))) j
        = blockAt c.store j := by
    intro j hj
    rw [blockAt_sput_ne _ _ _ _ (by simp), blockAt_sput_ne _ _ _ _ (by simp; omega), blockAt_applyTxs]
  rw [chainTxs_congr _ _ c.height hold, blockAt_sput_ne _ _ _ _ (by simp), blockAt_sput_same, applyTxs_append]
  exact ((dataEq_sput_meta _ _).trans (dataEq_sput_block _ _ _)).trans (applyTxs_dataEq b.txs _ _ h)

end Neumann.Chain
