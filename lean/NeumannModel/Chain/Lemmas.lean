import NeumannModel.Chain.Model
/-
  C16 — helper lemmas for the chain model.
-/
namespace Neumann.Chain

end Neumann.Chain
