import NeumannModel.Chain.Lemmas4
/-
  C16 — helper lemmas for the reserved `chain:` prefix (repo commit b368f92a): raw transactions, the generic
  `apply_transaction_to_store`, `add_operation` with the key check.
-/
namespace Neumann.Chain

theorem narrow_raw (t : Tx) : t.raw.narrow = some t := by cases t <;> rfl

theorem narrow_none_of_reserved (t : RawTx) (h : t.key.reserved = true) : t.narrow = none := by
  cases t with
  | put k v => cases k <;> simp_all [RawTx.key, SKey.reserved, RawTx.narrow]
  | del k => cases k <;> simp_all [RawTx.key, SKey.reserved, RawTx.narrow]
  | cas k e v => cases k <;> simp_all [RawTx.key, SKey.reserved, RawTx.narrow]

theorem narrow_some_of_unreserved (t : RawTx) (h : t.key.reserved = false) : ∃ t', t.narrow = some t' ∧ t'.raw = t := by
  cases t with
  | put k v => cases k <;> simp_all [RawTx.key, SKey.reserved, RawTx.narrow, Tx.raw]
  | del k => cases k <;> simp_all [RawTx.key, SKey.reserved, RawTx.narrow, Tx.raw]
  | cas k e v => cases k <;> simp_all [RawTx.key, SKey.reserved, RawTx.narrow, Tx.raw]

theorem raw_key_unreserved (t : Tx) : t.raw.key.reserved = false := by cases t <;> rfl

/-- on the transactions `add_operation` lets through, the generic apply is the typed apply -/
theorem applyRawTx_raw (s : List (SKey × SVal)) (t : Tx) : applyRawTx s t.raw = applyTx s t := by
  cases t <;> rfl

theorem applyRawTxs_raw (txs : List Tx) : ∀ (s : List (SKey × SVal)), applyRawTxs s (txs.map Tx.raw) = applyTxs s txs := by
  induction txs with
  | nil => intro s; rfl
  | cons t r ih =>
    intro s
    simp only [List.map_cons, applyRawTxs, applyTxs, List.foldl_cons, applyRawTx_raw]
    exact ih _

/-- a raw transaction changes no record but the one its key names -/
theorem sget_applyRawTx_ne (s : List (SKey × SVal)) (t : RawTx) (k : SKey) (h : t.key ≠ k) :
    sget (applyRawTx s t) k = sget s k := by
  cases t with
  | put k' v => exact sget_sput_ne s k' k _ h
  | del k' => exact sget_sdel_ne s k' k h
  | cas k' e v =>
    simp only [applyRawTx]
    split
    · exact sget_sput_ne s k' k _ h
    · rfl

theorem sget_applyRawTxs_unreserved (ops : List RawTx) : ∀ (s : List (SKey × SVal)),
    (∀ t ∈ ops, t.key.reserved = false) → ∀ k : SKey, k.reserved = true → sget (applyRawTxs s ops) k = sget s k := by
  induction ops with
  | nil => intro s _ k _; rfl
  | cons t r ih =>
    intro s hall k hk
    simp only [applyRawTxs, List.foldl_cons]
    have h1 := ih (applyRawTx s t) (fun x hx => hall x (List.mem_cons_of_mem _ hx)) k hk
    simp only [applyRawTxs] at h1
    rw [h1]
    apply sget_applyRawTx_ne
    intro heq
    have := hall t (List.mem_cons_self ..)
    rw [heq, hk] at this
    cases this

/-- the typed apply never touches a chain record -/
theorem sget_applyTxs_reserved (s : List (SKey × SVal)) (txs : List Tx) (k : SKey) (hk : k.reserved = true) :
    sget (applyTxs s txs) k = sget s k := by
  rw [← applyRawTxs_raw]
  apply sget_applyRawTxs_unreserved _ _ _ k hk
  intro t ht
  obtain ⟨t', _, rfl⟩ := List.mem_map.mp ht
  exact raw_key_unreserved t'

theorem addOperation_chain (n : Node) (w : Nat) (t : RawTx) :
    (addOperation n w t).1.cfg = n.cfg ∧ (addOperation n w t).1.chain = n.chain := by
  unfold addOperation
  split
  · split
    · exact ⟨rfl, rfl⟩
    · split
      · exact ⟨rfl, rfl⟩
      · exact addOp_chain n w _
  · exact ⟨rfl, rfl⟩

/-- the sequential client call that records a typed transaction -/
def Tx.asOp (w : Nat) : Tx → Op
  | .put k v => .put w k v
  | .del k => .del w k
  | .cas k e v => .cas w k e v

theorem stepOp_asOp (C : Crypto) (n : Node) (w : Nat) (t : Tx) : stepOp C n (t.asOp w) = (addOp n w t).1 := by
  cases t <;> rfl

/-- `add_operation` with any key is either a call that changes nothing or the typed call of the history alphabet -/
theorem addOperation_cases (C : Crypto) (n : Node) (w : Nat) (t : RawTx) :
    (addOperation n w t).1 = n ∨ ∃ t' : Tx, t'.raw = t ∧ (addOperation n w t).1 = stepOp C n (t'.asOp w) := by
  unfold addOperation
  split
  · split
    · exact Or.inl rfl
    · cases hn : t.narrow with
      | none => exact Or.inl rfl
      | some t' =>
        refine Or.inr ⟨t', ?_, (stepOp_asOp C n w t').symm⟩
        by_cases hr : t.key.reserved = true
        · rw [narrow_none_of_reserved t hr] at hn; cases hn
        · obtain ⟨t2, h2, h3⟩ := narrow_some_of_unreserved t (by simpa using hr)
          rw [hn] at h2
          cases h2
          exact h3
  · exact Or.inl rfl

end Neumann.Chain
