import NeumannModel.Chain.Lemmas2
/- helper lemmas for `Props6.lean` (the auto-merge loop with the transition validator's verdict per candidate) -/
namespace Neumann.Chain

/-- the loop from any accumulator: what each kind of candidate adds -/
theorem mergeFold_char (v : Bool) (cs : List Cand) : ∀ a : MergeAcc,
    cs.foldl (mergeStep v) a =
      { ops := a.ops ++ (cs.filter (Cand.accepted v)).flatMap (·.ops),
        dirs := a.dirs ++ (cs.filter (Cand.accepted v)).map (·.dir),
        merged := a.merged ++ (cs.filter (Cand.accepted v)).map (·.id),
        failed := a.failed ++ (cs.filter (Cand.rejected v)).map (·.id) } := by
  induction cs with
  | nil => intro a; simp
  | cons c cs ih =>
    intro a
    rw [List.foldl_cons, ih]
    cases hm : c.markable <;> cases hv : c.valid <;> cases v <;>
      simp [mergeStep, Cand.accepted, Cand.rejected, hm, hv, List.append_assoc]

theorem accepted_not_rejected (v : Bool) (c : Cand) :
    (c.accepted v && !(c.rejected v)) = c.accepted v := by
  cases hm : c.markable <;> cases hv : c.valid <;> cases v <;> simp [Cand.accepted, Cand.rejected, hm, hv]

theorem rejected_of_not_rejected (v : Bool) (c : Cand) :
    (c.rejected v && !(c.rejected v)) = false := by
  cases c.rejected v <;> rfl

/-- a key no transaction of the list names keeps its record -/
theorem sget_applyTxs_untouched (k : Nat) (txs : List Tx) (s : List (SKey × SVal)) (h : ∀ t ∈ txs, t.key ≠ k) :
    sget (applyTxs s txs) (.data k) = sget s (.data k) := by
  rw [sget_applyTxs_filter k txs s s rfl]
  have : (txs.filter fun t => t.key = k) = [] := by
    rw [List.filter_eq_nil_iff]
    intro t ht
    simpa using h t ht
  rw [this]; rfl

end Neumann.Chain
