import NeumannModel.Chain.Props
import NeumannModel.Chain.Lemmas2
import NeumannModel.Chain.Lemmas3
import NeumannModel.Chain.Lemmas4
/-
  C16 — property theorems, part 2: restart (`Chain::initialize` over an existing store), `history`, replica
  `apply_block` (rejections, proposer/replica agreement), commit calls under EVERY interleaving (what the
  `append` critical section guarantees), `CompareAndSwap` transactions.  Same conventions as `Props.lean`.
-/
namespace Neumann.Chain.Props
open Neumann.Chain

/-! ## 5. restart: `Chain::initialize` over the store of an existing chain -/

/-- RESTART ROUND TRIP, every chain length: over the store of a chain that satisfies the chain invariant and whose
    height record is in place (`MetaInv`: the record names the height, no block record above it — what `append`
    leaves behind), a NEW `Chain` object + `initialize()` recovers exactly the height and the tip hash, leaves
    every record of the store as it was, and the recovered chain verifies and satisfies the same invariants
    (so appends and commits continue where the old object stopped). -/
theorem reopen_roundtrip (C : Crypto) (reg : Option (List (List Nat × Nat))) (c : ChainSt) (p : List Nat) (ts : Nat)
    (hinv : Inv C reg c) (hm : MetaInv c) :
    let c' := openChain C c.store p ts
    c'.height = c.height ∧ c'.tip = c.tip ∧ (∀ k, sget c'.store k = sget c.store k) ∧
    verifyChain C reg c' = none ∧ Inv C reg c' ∧ MetaInv c' := by
  intro c'
  obtain ⟨hh, ht, hs⟩ := openChain_healthy C reg c p ts hinv hm
  have hinv' : Inv C reg c' := inv_congr C reg c c' (fun j => storeEq_blockAt hs j) hh ht hinv
  exact ⟨hh, ht, hs, verify_complete C reg c' hinv'.ok, hinv', metaInv_congr c c' hs hh hm⟩

/-- non-vacuity: the concrete two-block chain of `Props.lean` has its height record in place, and re-opening
    its store gives height 1, the same tip and a verifying chain -/
example : MetaInv exChain1 := by
  have h : exChain1 =
      { store := sput (sput (applyTxs (initChain drvCrypto [] [1] 10).store []) (.block ((initChain drvCrypto [] [1] 10).height + 1))
                  (.block exBlock1)) .chainMeta (.height ((initChain drvCrypto [] [1] 10).height + 1)),
        height := (initChain drvCrypto [] [1] 10).height + 1, tip := exChain1.tip } := by decide
  rw [h]
  exact metaInv_commit _ [] _ _ (metaInv_init _ _ _)

example : (openChain drvCrypto exChain1.store [1] 99).height = 1 ∧
    (openChain drvCrypto exChain1.store [1] 99).tip = exChain1.tip ∧
    verifyChain drvCrypto (some [([1], 1)]) (openChain drvCrypto exChain1.store [1] 99) = none := by decide

/-- one client call of a sequential history keeps the node invariant (configuration, chain invariant, store =
    replay of the chain, height record, empty genesis) -/
theorem stepOp_nodeInv (C : Crypto) (cfg : Config) (hsc : SignCorrect C)
    (hreg : ∀ r, cfg.registry = some r → regLookup r cfg.nodeId = some cfg.key)
    (n : Node) (op : Op) (hop : OpOk n op) (h : NodeInv C cfg n) : NodeInv C cfg (stepOp C n op) := by
  obtain ⟨hcfg, hinv, hdata, hmeta, hgen⟩ := h
  have same : ∀ n' : Node, n'.cfg = n.cfg → n'.chain = n.chain → NodeInv C cfg n' := by
    intro n' h1 h2
    exact ⟨by rw [h1]; exact hcfg, by rw [h2]; exact hinv, by rw [h2]; exact hdata, by rw [h2]; exact hmeta,
           by rw [h2]; exact hgen⟩
  cases op with
  | begin => exact same _ rfl rfl
  | put w k v => exact same _ (addOp_chain n w _).1 (addOp_chain n w _).2
  | del w k => exact same _ (addOp_chain n w _).1 (addOp_chain n w _).2
  | cas w k e v => exact same _ (addOp_chain n w _).1 (addOp_chain n w _).2
  | dir w d => exact same _ rfl rfl
  | commit w ts =>
    simp only [stepOp]
    have hinv' := commit_inv C n w ts hsc (by rw [hcfg]; exact hreg) (by rw [hcfg]; exact hinv)
      (by intro t ht; simp only [OpOk, ht] at hop; exact hop)
    rw [hcfg] at hinv'
    refine ⟨by rw [commit_cfg]; exact hcfg, hinv', commit_dataInv C n w ts hdata, ?_, ?_⟩
    · rcases commit_atomic C n w ts with ⟨b, ws, extra, _, hh, _, _, _, hst⟩ | ⟨hc, _⟩
      · have := metaInv_commit n.chain (ws.ops ++ extra) b (commit C n w ts).1.chain.tip hmeta
        generalize (commit C n w ts).1.chain = cc at hh hst this ⊢
        obtain ⟨st, hgt, tp⟩ := cc
        simp only at hh hst this
        subst hh hst
        exact this
      · rw [hc]; exact hmeta
    · rcases commit_atomic C n w ts with ⟨b, ws, extra, _, _, _, _, _, hst⟩ | ⟨hc, _⟩
      · rw [← hgen]
        apply genesisTxs_congr
        rw [hst, blockAt_sput_ne _ _ _ _ (by simp), blockAt_sput_ne _ _ _ _ (by simp), blockAt_applyTxs]
      · rw [hc]; exact hgen
  | rollback w =>
    simp only [stepOp]
    unfold rollbackWs
    cases hf : findWs n.wss w with
    | none => exact same _ rfl rfl
    | some ws =>
      simp only [OpOk, hf] at hop
      simp only
      split
      · exact same _ rfl rfl
      · rename_i hst
        have hs : ws.snap = n.chain.store := by
          rcases hop with h | h
          · exact absurd h hst
          · exact h
        exact same _ rfl (by simp [hs])

/-- node states reachable from `TensorChain::initialize` through ANY sequential history of client calls
    INCLUDING RESTARTS (a new `TensorChain` object with the same identity over the same store + `initialize()`,
    at any point, any number of times; workspaces begun before a restart may be used after it) -/
inductive SeqReachR (C : Crypto) (cfg : Config) : Node → Prop where
  | init (ts : Nat) : SeqReachR C cfg (initNode C cfg ts)
  | step (n : Node) (op : Op) : SeqReachR C cfg n → OpOk n op → SeqReachR C cfg (stepOp C n op)
  | reopen (n : Node) (ts : Nat) : SeqReachR C cfg n → SeqReachR C cfg (reopenNode C n ts)

/-- THE SEQUENTIAL-HISTORY INVARIANT WITH RESTARTS.  A `TensorChain` is always constructed with a fresh registry
    holding its own key (`hown`).  After every sequential history with any number of restarts: the configuration
    is the original one, the chain invariant holds, the store's data image is the replay of the chain, the height
    record names the height with no block record above it, the genesis block has no transactions — and therefore
    `verify()` returns `Ok`. -/
theorem sequential_history_invariant_restart (C : Crypto) (cfg : Config) (hsc : SignCorrect C)
    (hown : cfg.registry = some [(cfg.nodeId, cfg.key)]) (n : Node) (h : SeqReachR C cfg n) :
    NodeInv C cfg n ∧ verifyChain C n.cfg.registry n.chain = none := by
  have hreg : ∀ r, cfg.registry = some r → regLookup r cfg.nodeId = some cfg.key := by
    intro r hr
    rw [hown] at hr
    cases hr
    simp [regLookup]
  suffices hN : NodeInv C cfg n from ⟨hN, by rw [hN.hcfg]; exact verify_complete C _ _ hN.hinv.ok⟩
  induction h with
  | init ts =>
    refine ⟨rfl, inv_init C _ _ _ _, dataInv_init C _ _, metaInv_init C _ _, ?_⟩
    simp only [genesisTxs, initNode, initChain]
    rw [blockAt_sput_ne _ _ _ _ (by simp), blockAt_sput_same]
    rfl
  | step n op _ hop ih => exact stepOp_nodeInv C cfg hsc hreg n op hop ih
  | reopen n ts _ ih =>
    obtain ⟨hcfg, hinv, hdata, hmeta, hgen⟩ := ih
    obtain ⟨hh, ht, hs⟩ := openChain_healthy C cfg.registry n.chain n.cfg.nodeId ts hinv hmeta
    refine ⟨?_, ?_, ?_, ?_, ?_⟩
    · simp only [reopenNode, hcfg]
      obtain ⟨a1, a2, a3, a4, a5, a6⟩ := cfg
      simp only at hown
      simp [hown]
    · exact inv_congr C _ n.chain _ (fun j => storeEq_blockAt hs j) hh ht hinv
    · exact dataInv_congr n.chain _ hs hh hdata
    · exact metaInv_congr n.chain _ hs hh hmeta
    · rw [← hgen]; exact genesisTxs_congr _ _ (storeEq_blockAt hs 0)

/-- a `TensorChain` configuration: the registry holds exactly the node's own key -/
def cfgOwn : Config := { cfg0 with registry := some [(cfg0.nodeId, cfg0.key)] }

/-- side condition of one call of a history with restarts: `OpOk` for the sequential calls, none for a restart
    (the registry calls are not part of these histories) -/
def OpROk (n : Node) : OpR → Prop
  | .x (.op o) => OpOk n o
  | .x _ => False
  | .reopen _ => True

instance (n : Node) (op : OpR) : Decidable (OpROk n op) := by
  cases op with
  | x o => cases o <;> simp only [OpROk] <;> infer_instance
  | reopen ts => simp only [OpROk]; infer_instance

/-- every op list whose calls satisfy `OpOk` where they are issued, restarts anywhere, is such a history -/
theorem seqReachR_of_runOpsR (C : Crypto) (cfg : Config) :
    ∀ (ops : List OpR) (n : Node), SeqReachR C cfg n →
      (∀ i (h : i < ops.length), OpROk (runOpsR C n (ops.take i)) ops[i]) →
      SeqReachR C cfg (runOpsR C n ops) := by
  intro ops
  induction ops with
  | nil => intro n h _; exact h
  | cons op ops ih =>
    intro n h hok
    simp only [runOpsR, List.foldl_cons]
    have h0 := hok 0 (by simp)
    simp only [List.getElem_cons_zero, List.take_zero, runOpsR, List.foldl_nil] at h0
    refine ih _ ?_ ?_
    · cases op with
      | reopen ts => exact SeqReachR.reopen n ts h
      | x o =>
        cases o with
        | op o => exact SeqReachR.step n o h h0
        | unregister => exact absurd h0 (by simp [OpROk])
        | register => exact absurd h0 (by simp [OpROk])
    · intro i hi
      have := hok (i + 1) (by simp; omega)
      simpa [runOpsR, List.getElem_cons_succ, List.take_succ_cons] using this

/-- non-vacuity: commit, restart, commit a workspace begun BEFORE the restart and one begun after it, restart
    again: the history is in `SeqReachR`, ends at height 3 and verifies -/
def exRestartHistory : List OpR :=
  [.x (.op .begin), .x (.op (.put 0 1 1)), .x (.op (.commit 0 5)), .x (.op .begin), .x (.op (.cas 1 1 (some 1) 7)),
   .reopen 6, .x (.op (.commit 1 7)), .x (.op .begin), .x (.op (.put 2 2 2)), .x (.op (.commit 2 8)), .reopen 9]

example : SeqReachR drvCrypto cfgOwn (runOpsR drvCrypto (initNode drvCrypto cfgOwn 0) exRestartHistory) ∧
    (runOpsR drvCrypto (initNode drvCrypto cfgOwn 0) exRestartHistory).chain.height = 3 ∧
    sget (runOpsR drvCrypto (initNode drvCrypto cfgOwn 0) exRestartHistory).chain.store (.data 1) = some (.data 7) :=
  ⟨seqReachR_of_runOpsR drvCrypto cfgOwn exRestartHistory _ (SeqReachR.init 0) (by decide +kernel), by decide +kernel,
   by decide +kernel⟩

/-- WITNESS (what a restart does NOT detect): remove the record of the TIP block from the store of a two-block
    chain.  The running object notices (`verify` = block 2 not found); a new object + `initialize()` walks the
    height back to 1, saves it, and `verify` succeeds on the truncated chain — the removal of the last block is
    not detected after a restart (there is nothing above the tip that names its hash). -/
theorem reopen_heals_removed_tip_witness :
    let n := runOps drvCrypto (initNode drvCrypto cfg0 0) [.begin, .put 0 1 1, .commit 0 5, .begin, .put 1 2 2, .commit 1 6]
    let cut : ChainSt := { n.chain with store := sdel n.chain.store (.block 2) }
    n.chain.height = 2 ∧ verifyChain drvCrypto cfg0.registry cut = some (.notFound 2) ∧
    (openChain drvCrypto cut.store [1] 9).height = 1 ∧ loadHeight (openChain drvCrypto cut.store [1] 9).store = some 1 ∧
    verifyChain drvCrypto cfg0.registry (openChain drvCrypto cut.store [1] 9) = none := by decide +kernel

/-- WITNESS: removing a block BELOW the tip is still detected after a restart (the walk back stops at the first
    block record it finds, the walk forward at the first gap) -/
theorem reopen_detects_removed_inner_block_witness :
    let n := runOps drvCrypto (initNode drvCrypto cfg0 0) [.begin, .put 0 1 1, .commit 0 5, .begin, .put 1 2 2, .commit 1 6]
    let cut : ChainSt := { n.chain with store := sdel n.chain.store (.block 1) }
    (openChain drvCrypto cut.store [1] 9).height = 2 ∧
    verifyChain drvCrypto cfg0.registry (openChain drvCrypto cut.store [1] 9) = some (.notFound 1) := by decide +kernel

/-! ## 6. `history` and "each committed workspace once" -/

/-- `history(key)` lists, in chain order, exactly the transactions of the stored blocks `0..=height` that affect
    `key` (every chain, every store, every key) -/
theorem history_lists_chain_transactions (c : ChainSt) (k : Nat) :
    (history c k).map Prod.snd = (genesisTxs c.store ++ chainTxs c.store c.height).filter fun t => t.key = k :=
  historyUpTo_snd c.store k c.height

/-- THE VALUE OF EVERY KEY IS THE REPLAY OF ITS OWN HISTORY, after every sequential history with restarts: what a
    client reads under `key` is what replaying `history(key)` alone — puts, deletes and compare-and-swaps, in chain
    order, on an empty store — leaves under `key`. -/
theorem value_is_replay_of_own_history (C : Crypto) (cfg : Config) (hsc : SignCorrect C)
    (hown : cfg.registry = some [(cfg.nodeId, cfg.key)]) (n : Node) (h : SeqReachR C cfg n) (k : Nat) :
    sget n.chain.store (.data k) = sget (applyTxs [] ((history n.chain k).map Prod.snd)) (.data k) := by
  obtain ⟨hN, _⟩ := sequential_history_invariant_restart C cfg hsc hown n h
  rw [history_lists_chain_transactions, hN.hgen, List.nil_append, hN.hdata k]
  exact sget_applyTxs_filter k _ [] [] rfl

/-- non-vacuity: in the restart history above key 1 was put (1) and compare-and-swapped (1 → 7) -/
example : (history (runOpsR drvCrypto (initNode drvCrypto cfgOwn 0) exRestartHistory).chain 1)
    = [(1, .put 1 1), (2, .cas 1 (some 1) 7)] := by decide +kernel

/-- a successful commit extends the chain's transaction list by exactly the workspace's operations (followed by
    those of the workspaces merged into the block), from every node state -/
theorem commit_ok_extends_chain_by_its_operations (C : Crypto) (n : Node) (w ts : Nat) (h : Nat)
    (hok : (commit C n w ts).2.res = some (.ok h)) :
    ∃ ws extra, findWs n.wss w = some ws ∧
      chainTxs (commit C n w ts).1.chain.store (commit C n w ts).1.chain.height
        = chainTxs n.chain.store n.chain.height ++ (ws.ops ++ extra) := by
  rcases commit_atomic C n w ts with ⟨b, ws, extra, _, hh, hws, htx, _, hst⟩ | ⟨_, hno⟩
  · refine ⟨ws, extra, hws, ?_⟩
    rw [hh, hst]
    simp only [chainTxs]
    have hold : ∀ j, j ≤ n.chain.height →
        blockAt (sput (sput (applyTxs n.chain.store (ws.ops ++ extra)) (.block (n.chain.height + 1)) (.block b)) .chainMeta
          (.height (n.chain.height + 1))) j = blockAt n.chain.store j := by
      intro j hj
      rw [blockAt_sput_ne _ _ _ _ (by simp), blockAt_sput_ne _ _ _ _ (by simp; omega), blockAt_applyTxs]
    rw [chainTxs_congr _ _ n.chain.height hold, blockAt_sput_ne _ _ _ _ (by simp), blockAt_sput_same]
    simp only [htx]
  · exact absurd hok (hno h)

/-- ... and marks the workspace `Committed` -/
theorem commit_ok_marks_committed (C : Crypto) (n : Node) (w ts : Nat) (h : Nat)
    (hok : (commit C n w ts).2.res = some (.ok h)) :
    ∃ ws', findWs (commit C n w ts).1.wss w = some ws' ∧ ws'.state = .committed := by
  have hr : commit C n w ts = commitRun C 7 (commitStep C n (Local.init w ts)).1 (commitStep C n (Local.init w ts)).2 := by
    simp [commit, commitRun, Local.init]
  have key := prepare_cases C n w ts
  have pw := prepare_ok_ws C n w ts
  simp only at key
  generalize commitStep C n (Local.init w ts) = q at key hr pw
  obtain ⟨n1, l1⟩ := q
  simp only at key hr pw
  rcases key with ⟨hpc, _, hres⟩ | ⟨hpc, _, _, _, _⟩
  · have : commit C n w ts = (n1, l1) := by rw [hr]; simp [commitRun, hpc]
    rw [this] at hok
    exact absurd hok (hres h)
  · obtain ⟨hw, ws1, hf1⟩ := pw hpc
    rcases pipeline C n1 l1 hpc with ⟨c', happ, _, _, _⟩ | ⟨_, hno⟩
    · rw [hr, pipeline_ok_wss C n1 l1 hpc c' happ, findWs_setStates, hf1]
      have hid := findWs_id _ _ _ hf1
      refine ⟨_, rfl, ?_⟩
      simp [hw, hid]
    · rw [hr] at hok
      exact absurd hok (hno h)

/-- a workspace that is no longer `Active` (committed, failed, rolled back) cannot be committed (again): the call
    answers "not active" and changes NOTHING — so, together with the two theorems above and
    `failed_commit_untouched`, the operations of a workspace enter the chain at most once, and exactly once when
    its commit returned `Ok` -/
theorem finished_workspace_cannot_commit (C : Crypto) (n : Node) (w ts : Nat) (ws : Ws)
    (hws : findWs n.wss w = some ws) (hst : ws.state ≠ .active) :
    (commit C n w ts).1 = n ∧ (commit C n w ts).2.res = some .notActive := by
  simp [commit, commitRun, commitStep, Local.init, hws, hst]

/-- non-vacuity: after the commit of workspace 0 a second commit of it is refused and changes nothing -/
example : let n := runOps drvCrypto (initNode drvCrypto cfg0 0) [.begin, .put 0 1 1, .commit 0 5]
    (commit drvCrypto n 0 6).1 = n ∧ (commit drvCrypto n 0 6).2.res = some .notActive ∧
    chainTxs n.chain.store n.chain.height = [.put 1 1] := by decide +kernel

/-- the ids a client call adds to the chain: those of a successful `commit` (the workspace and the workspaces
    merged into its block); nothing for every other call -/
def newIds (C : Crypto) (n : Node) : Op → List Nat
  | .commit w ts => commitIds C n w ts
  | _ => []

/-- sequential histories together with the list of workspace ids whose commit returned `Ok` (or that were merged
    into such a commit), in the order of the calls -/
inductive SeqReachLog (C : Crypto) (cfg : Config) : Node → List Nat → Prop where
  | init (ts : Nat) : SeqReachLog C cfg (initNode C cfg ts) []
  | step (n : Node) (order : List Nat) (op : Op) : SeqReachLog C cfg n order → OpOk n op →
      SeqReachLog C cfg (stepOp C n op) (order ++ newIds C n op)

/-- THE CHAIN CONTAINS EACH COMMITTED WORKSPACE EXACTLY ONCE.  After every sequential history (any number of
    workspaces, begin / put / delete / compare-and-swap / delta / commit / rollback in any order, auto-merge on or
    off, failed commits early and late included): the transactions of blocks `1..=height`, in chain order, are the
    concatenation of the operation lists of the workspaces in `order` — the workspaces whose `commit` returned `Ok`
    and those merged into such a block, in commit order; no workspace occurs twice in `order`; every one of them is
    in state `Committed`.  So no committed operation is lost or duplicated, and nothing else is in the chain. -/
theorem each_committed_workspace_exactly_once (C : Crypto) (cfg : Config) (n : Node) (order : List Nat)
    (h : SeqReachLog C cfg n order) :
    chainTxs n.chain.store n.chain.height = order.flatMap (opsOf n.wss) ∧ order.Nodup ∧
    ∀ id ∈ order, stateOf n.wss id = some .committed := by
  suffices hL : LogInv n order from ⟨hL.txs, hL.nodup, hL.committed⟩
  induction h with
  | init ts =>
    exact ⟨⟨List.nodup_nil, fun x hx => by cases hx⟩, rfl, List.nodup_nil, fun id hid => by cases hid⟩
  | step n order op _ hop ih =>
    cases op with
    | begin => simpa [newIds, stepOp] using logInv_begin n order ih
    | put w k v => simpa [newIds, stepOp] using logInv_addOp n order w _ ih
    | del w k => simpa [newIds, stepOp] using logInv_addOp n order w _ ih
    | cas w k e v => simpa [newIds, stepOp] using logInv_addOp n order w _ ih
    | dir w d => simpa [newIds, stepOp] using logInv_setDir n order w d ih
    | commit w ts => exact logInv_commit C n order w ts ih
    | rollback w =>
      have := logInv_rollback n order w ih (by
        intro ws hws
        simp only [OpOk, hws] at hop
        exact hop)
      simpa [newIds, stepOp] using this

/-- non-vacuity: three orthogonal workspaces, auto-merge on: the commit of workspace 0 merges 1 and 2 into one
    block; a fourth workspace commits later; a second commit of workspace 1 is refused.  `order` = [0, 1, 2, 3] and
    the chain holds the four operation lists in that order. -/
def exLogHistory : List Op :=
  [.begin, .dir 0 1, .begin, .dir 1 2, .begin, .dir 2 3, .put 0 100 1, .put 1 200 2, .cas 2 300 none 3,
   .commit 0 5, .begin, .put 3 1 4, .commit 1 6, .commit 3 7]

/-- a history run with its ghost list -/
def runOpsLog (C : Crypto) : Node → List Nat → List Op → Node × List Nat
  | n, order, [] => (n, order)
  | n, order, op :: ops => runOpsLog C (stepOp C n op) (order ++ newIds C n op) ops

theorem seqReachLog_of_runOps (C : Crypto) (cfg : Config) :
    ∀ (ops : List Op) (n : Node) (order : List Nat), SeqReachLog C cfg n order →
      (∀ i (h : i < ops.length), OpOk (runOps C n (ops.take i)) ops[i]) →
      SeqReachLog C cfg (runOpsLog C n order ops).1 (runOpsLog C n order ops).2 := by
  intro ops
  induction ops with
  | nil => intro n order h _; exact h
  | cons op ops ih =>
    intro n order h hok
    simp only [runOpsLog]
    refine ih _ _ (SeqReachLog.step n order op h (by have := hok 0 (by simp); simpa [runOps, List.getElem_cons_zero] using this)) ?_
    intro i hi
    have := hok (i + 1) (by simp; omega)
    simpa [runOps, List.getElem_cons_succ, List.take_succ_cons] using this

example : SeqReachLog drvCrypto cfg0 (runOpsLog drvCrypto (initNode drvCrypto cfg0 0) [] exLogHistory).1
      (runOpsLog drvCrypto (initNode drvCrypto cfg0 0) [] exLogHistory).2 ∧
    (runOpsLog drvCrypto (initNode drvCrypto cfg0 0) [] exLogHistory).2 = [0, 1, 2, 3] ∧
    (runOpsLog drvCrypto (initNode drvCrypto cfg0 0) [] exLogHistory).1.chain.height = 2 ∧
    chainTxs (runOpsLog drvCrypto (initNode drvCrypto cfg0 0) [] exLogHistory).1.chain.store 2
      = [.put 100 1, .put 200 2, .cas 300 none 3, .put 1 4] :=
  ⟨seqReachLog_of_runOps drvCrypto cfg0 exLogHistory _ [] (SeqReachLog.init 0) (by decide +kernel), by decide +kernel,
   by decide +kernel, by decide +kernel⟩

/-! ## 7. replicas: rejected blocks, verdicts, proposer/replica agreement -/

/-- A REJECTED BLOCK LEAVES THE REPLICA UNTOUCHED, from every replica state, both store configurations, every block:
    whether the state root does not match the applied state or `Chain::append` refuses the block (height,
    predecessor hash, transaction root, signature), the state store is restored to the pre-apply image and the chain
    is unchanged -/
theorem applyBlock_rejected_untouched (C : Crypto) (reg : Option (List (List Nat × Nat))) (r : Replica) (b : Block)
    (e : ApplyErr) (h : (applyBlock C reg r b).2 = some e) : (applyBlock C reg r b).1 = r := by
  obtain ⟨s, c, sh⟩ := r
  obtain ⟨st, hg, tp⟩ := c
  cases sh
  · simp only [applyBlock, Replica.stateStore, Replica.setState, Bool.false_eq_true, if_false] at h ⊢
    split
    · rfl
    · rename_i hroot
      simp only [hroot, if_false] at h
      split
      · rename_i c' happ; simp [happ] at h
      · rfl
  · simp only [applyBlock, Replica.stateStore, Replica.setState, if_true] at h ⊢
    split
    · rfl
    · rename_i hroot
      simp only [hroot, if_false] at h
      split
      · rename_i c' happ; simp [happ] at h
      · rfl

/-- AN ACCEPTED BLOCK: exactly its transactions were applied to the state store, its state root is the root of the
    result, and the chain is the result of `Chain::append` (one block longer) -/
theorem applyBlock_accepted_applies_exactly (C : Crypto) (reg : Option (List (List Nat × Nat))) (r : Replica) (b : Block)
    (hsep : r.shared = false) (h : (applyBlock C reg r b).2 = none) :
    (applyBlock C reg r b).1.state = applyTxs r.state b.txs ∧
    b.header.stateRoot = stateRoot C (applyTxs r.state b.txs) ∧
    append C reg r.chain b = .ok (applyBlock C reg r b).1.chain ∧
    (applyBlock C reg r b).1.chain.height = r.chain.height + 1 := by
  obtain ⟨s, c, sh⟩ := r
  simp only at hsep
  subst hsep
  simp only [applyBlock, Replica.stateStore, Replica.setState, Bool.false_eq_true, if_false] at h ⊢
  split at h
  · cases h
  · rename_i hroot
    simp only [hroot, if_false]
    cases happ : append C reg c b with
    | error e => simp [happ] at h
    | ok c' =>
      obtain ⟨_, _, _, _, hc'⟩ := append_ok_inv C _ _ _ _ happ
      refine ⟨rfl, by simpa using hroot, rfl, ?_⟩
      simp only [hc']

def replayVerdicts (C : Crypto) (reg : Option (List (List Nat × Nat))) : Replica → List Block → List (Option ApplyErr)
  | _, [] => []
  | r, b :: bs => (applyBlock C reg r b).2 :: replayVerdicts C reg (applyBlock C reg r b).1 bs

/-- replicas that agree give the SAME VERDICT on every block of every block sequence (valid blocks, blocks with a
    wrong state root, duplicates, gaps, forged signatures, in any order) -/
theorem replay_verdicts_deterministic (C : Crypto) (reg : Option (List (List Nat × Nat))) (bs : List Block) (r1 r2 : Replica)
    (h : Agree r1 r2) : replayVerdicts C reg r1 bs = replayVerdicts C reg r2 bs := by
  induction bs generalizing r1 r2 with
  | nil => rfl
  | cons b bs ih =>
    obtain ⟨ha, hv⟩ := applyBlock_agree C reg r1 r2 b h
    simp only [replayVerdicts, hv, ih _ _ ha]

/-- PROPOSER AND REPLICA COMPUTE THE SAME STATE ROOT.  From every node state: when `TensorChain::commit` returns
    `Ok h`, applying the block it stored at height `h` through `TensorStateMachine::apply_block` to a replica whose
    (shared) store and chain head are the node's of BEFORE the commit is accepted and yields exactly the node's
    chain of AFTER the commit (store image, height, tip).  I.e. `commit` is `apply_block` of the block it builds. -/
theorem committed_block_replays_on_shared_replica (C : Crypto) (n : Node) (w ts : Nat) (h : Nat)
    (hok : (commit C n w ts).2.res = some (.ok h)) :
    ∃ b, blockAt (commit C n w ts).1.chain.store h = some b ∧
      applyBlock C n.cfg.registry { state := [], chain := n.chain, shared := true } b
        = ({ state := [], chain := (commit C n w ts).1.chain, shared := true }, none) := by
  have hr : commit C n w ts = commitRun C 7 (commitStep C n (Local.init w ts)).1 (commitStep C n (Local.init w ts)).2 := by
    simp [commit, commitRun, Local.init]
  have key := prepare_cases C n w ts
  simp only at key
  generalize commitStep C n (Local.init w ts) = q at key hr
  obtain ⟨n1, l1⟩ := q
  simp only at key hr
  rcases key with ⟨hpc, _, hres⟩ | ⟨hpc, hch, hcfg, _, _⟩
  · have : commit C n w ts = (n1, l1) := by rw [hr]; simp [commitRun, hpc]
    rw [this] at hok
    exact absurd hok (hres h)
  · rcases pipeline C n1 l1 hpc with ⟨c', happ, h1, h2, _⟩ | ⟨_, hno⟩
    · have hh : h = c'.height := by
        rw [hr, h2] at hok
        simpa using hok.symm
      obtain ⟨_, _, _, _, hc'⟩ := append_ok_inv C _ _ _ _ happ
      rw [fixTxRoot_of_root C _ rfl] at hc'
      refine ⟨builtBlock C n1 l1.ops l1.dirs (stateRoot C (applyTxs n1.chain.store l1.ops)) l1.ts, ?_, ?_⟩
      · rw [hr, h1, hh, hc']
        simp only
        rw [blockAt_sput_ne _ _ _ _ (by simp), blockAt_sput_same]
      · rw [hr, h1]
        rw [hcfg, hch] at happ
        simp only [applyBlock, Replica.stateStore, Replica.setState, if_true]
        have hb : (builtBlock C n1 l1.ops l1.dirs (stateRoot C (applyTxs n1.chain.store l1.ops)) l1.ts).txs = l1.ops := rfl
        have hs : (builtBlock C n1 l1.ops l1.dirs (stateRoot C (applyTxs n1.chain.store l1.ops)) l1.ts).header.stateRoot
            = stateRoot C (applyTxs n.chain.store l1.ops) := by rw [← hch]; rfl
        rw [hb, hs]
        simp only [ne_eq, not_true_eq_false, if_false]
        rw [show n1.chain.store = n.chain.store from by rw [hch], happ]
    · rw [hr] at hok
      exact absurd hok (hno h)

/-- non-vacuity of the above, and WITNESS of its limit: the same committed block is REJECTED (state root mismatch)
    by a replica that keeps its state in a separate store — the root `commit` wrote into the header covers the
    proposer's chain records, which a separate state store never holds.  Blocks produced by `TensorChain::commit`
    can only be replayed on replicas whose state store is their chain store. -/
theorem committed_block_rejected_by_separate_replica_witness :
    let n := runOps drvCrypto (initNode drvCrypto cfg0 5) [.begin, .put 0 1 1]
    let r := commit drvCrypto n 0 6
    r.2.res = some (.ok 1) ∧
    (blockAt r.1.chain.store 1).any (fun b =>
       decide ((applyBlock drvCrypto cfg0.registry { state := [], chain := n.chain, shared := true } b).2 = none) &&
       decide ((applyBlock drvCrypto cfg0.registry { state := [], chain := n.chain, shared := false } b).2
                 = some .stateRoot)) = true := by decide +kernel

/-! ## 8. commit calls under EVERY interleaving: what the `append` critical section guarantees -/

/-- FOR EVERY INTERLEAVING of the atomic steps of any number of `commit` calls (any schedule, finished or not, any
    workspaces — conflicting, orthogonal, merged, unknown), from every node state:
    the in-memory height is the old height plus the number of calls that have returned `Ok`; the heights these calls
    report are pairwise different and are exactly the heights above the old one up to the new one.  No two commits
    ever succeed for the same height and no height is skipped (the height check, the block write and the height
    update of `Chain::append` are one step).  This is the part of the concurrent-commit clause that holds of the
    code as it stands; the part that does not (the store may lose the winner's block, `concurrent_commit_witness`)
    is about the store image, not about this accounting. -/
theorem concurrent_heights_all_interleavings (C : Crypto) (n : Node) (ws : List Nat) (ts : Nat) (sched : List Nat) :
    let r := runSched C sched n (ws.map fun w => Local.init w ts)
    r.1.chain.height = n.chain.height + okCount r.2 ∧
    (okHeights r.2).Nodup ∧
    ∀ h, h ∈ okHeights r.2 ↔ n.chain.height < h ∧ h ≤ r.1.chain.height := by
  intro r
  -- invariant over the schedule, for arbitrary call states
  have main : ∀ (sched : List Nat) (n' : Node) (ls : List Local),
      (∀ l ∈ ls, l.Settled) → (okHeights ls).Nodup →
      (∀ h ∈ okHeights ls, n.chain.height < h ∧ h ≤ n'.chain.height) →
      n'.chain.height = n.chain.height + (okHeights ls).length →
      let q := runSched C sched n' ls
      (okHeights q.2).Nodup ∧ (∀ h ∈ okHeights q.2, n.chain.height < h ∧ h ≤ q.1.chain.height) ∧
      q.1.chain.height = n.chain.height + (okHeights q.2).length := by
    intro sched
    induction sched with
    | nil => intro n' ls _ h2 h3 h4; exact ⟨h2, h3, h4⟩
    | cons i sched ih =>
      intro n' ls h1 h2 h3 h4
      simp only [runSched]
      cases hl : ls[i]? with
      | none => exact ih n' ls h1 h2 h3 h4
      | some l =>
        simp only
        have hmem : l ∈ ls := List.mem_of_getElem? hl
        obtain ⟨hset, hcase⟩ := commitStep_account C n' l (h1 l hmem)
        have hset' : ∀ x ∈ setNth ls i (commitStep C n' l).2, x.Settled := by
          intro x hx
          rcases mem_setNth _ _ _ _ hx with hx | hx
          · exact h1 x hx
          · rw [hx]; exact hset
        rcases hcase with heq | ⟨hno, hno', hh⟩ | ⟨hno, hres, hh⟩
        · rw [heq]
          simp only
          rw [setNth_self ls i l hl]
          exact ih n' ls h1 h2 h3 h4
        · refine ih _ _ hset' ?_ ?_ ?_
          · rw [okHeights_setNth_same ls i l _ hl hno hno']; exact h2
          · rw [okHeights_setNth_same ls i l _ hl hno hno', hh]; exact h3
          · rw [okHeights_setNth_same ls i l _ hl hno hno', hh]; exact h4
        · have hperm := okHeights_setNth_new ls i l _ _ hl hno hres
          refine ih _ _ hset' ?_ ?_ ?_
          · rw [hperm.nodup_iff, List.nodup_cons]
            refine ⟨fun hin => ?_, h2⟩
            have := (h3 _ hin).2
            omega
          · intro h hin
            rw [hperm.mem_iff, List.mem_cons] at hin
            rw [hh]
            rcases hin with hin | hin
            · subst hin; omega
            · have := h3 h hin; omega
          · rw [hperm.length_eq, hh, List.length_cons, h4]; omega
  have hinit : okHeights (ws.map fun w => Local.init w ts) = [] := by
    induction ws with
    | nil => rfl
    | cons w ws ih => simp [okHeights, Local.okH, Local.init]
  have hsettled : ∀ l ∈ ws.map (fun w => Local.init w ts), l.Settled := by
    intro l hl
    obtain ⟨w, _, rfl⟩ := List.mem_map.mp hl
    intro h
    simp [Local.isOk, Local.init] at h
  have hmain : (okHeights r.2).Nodup ∧ (∀ h ∈ okHeights r.2, n.chain.height < h ∧ h ≤ r.1.chain.height) ∧
      r.1.chain.height = n.chain.height + (okHeights r.2).length :=
    main sched n _ hsettled (by rw [hinit]; exact List.nodup_nil)
      (by rw [hinit]; intro h hh; cases hh) (by rw [hinit]; rfl)
  obtain ⟨hnd, hb, hlen⟩ := hmain
  refine ⟨by rw [okCount_eq]; exact hlen, hnd, fun h => ⟨hb h, fun ⟨h1, h2⟩ => ?_⟩⟩
  exact nodup_range_complete n.chain.height (okHeights r.2).length (okHeights r.2) hnd
    (fun x hx => by have := hb x hx; omega) rfl h h1 (by omega)

/-- non-vacuity: the witness interleaving of `concurrent_commit_witness` (the loser's restore wipes the winner's
    block): still exactly one `Ok`, for height 1, and the in-memory height is 1 -/
example : okHeights witnessRun.2 = [1] ∧ witnessRun.1.chain.height = twoWs.chain.height + 1 := by decide +kernel

/-- CONCURRENT COMMITS ARE VALID UNLESS ONE FAILS LATE.  For EVERY interleaving of the atomic steps of any number of
    `commit` calls (2-4 or more; conflicting or orthogonal workspaces, auto-merge on or off, workspaces unknown or
    already finished), started on a chain that satisfies the invariant, with the node's key registered and a clock
    that is not behind the tip block: if, when the schedule ends, NO call has failed late (no `Chain::append`
    rejection after the writes were applied, hence no restore of a pre-apply snapshot), then the chain verifies, the
    invariant holds, and the height is the old height plus the number of `Ok` results — the full conclusion of
    `ConcurrentCommitsValid`.  So the only way overlapping commits can break the chain is the restore step of a losing
    commit (`concurrent_commit_witness`); successful overlapping commits never do. -/
theorem concurrent_commits_valid_unless_late_failure (C : Crypto) (hsc : SignCorrect C) (n : Node) (ws : List Nat)
    (ts : Nat) (sched : List Nat)
    (hreg : ∀ r, n.cfg.registry = some r → regLookup r n.cfg.nodeId = some n.cfg.key)
    (hinv : Inv C n.cfg.registry n.chain)
    (hts : ∀ t, blockAt n.chain.store n.chain.height = some t → t.header.timestamp ≤ ts) :
    let r := runSched C sched n (ws.map fun w => Local.init w ts)
    (∀ l ∈ r.2, ∀ e, l.res ≠ some (.appendFailed e)) →
      verifyChain C r.1.cfg.registry r.1.chain = none ∧ Inv C r.1.cfg.registry r.1.chain ∧
      r.1.chain.height = n.chain.height + okCount r.2 := by
  intro r hno
  have hwf : ∀ l ∈ ws.map (fun w => Local.init w ts), LocalWF C n.cfg ts l := by
    intro l hl
    obtain ⟨w, _, rfl⟩ := List.mem_map.mp hl
    exact localWF_init C n.cfg ts w
  obtain ⟨hcfg, hh⟩ := runSched_healthy C hsc n.cfg hreg ts sched n _ rfl hwf (Or.inl ⟨hinv, hts⟩)
  have hheight := (concurrent_heights_all_interleavings C n ws ts sched).1
  rcases hh with ⟨hinv', _⟩ | ⟨l, hl, e, he⟩
  · have hinv'' : Inv C r.1.cfg.registry r.1.chain := by rw [hcfg]; exact hinv'
    exact ⟨verify_complete C _ _ hinv''.ok, hinv'', hheight⟩
  · exact absurd he (hno l hl e)

/-- non-vacuity: the interleaving of `concurrent_commit_order_witness` (thread 0 applies, thread 1 commits completely,
    thread 0 finishes): both calls return `Ok`, none fails late, the chain has two more blocks and verifies
    (what that witness shows is a different defect: the STORE then disagrees with the replay of the chain) -/
example : (orderRun.2.all fun l => match l.res with | some (.appendFailed _) => false | _ => true) = true ∧
    okCount orderRun.2 = 2 ∧
    orderRun.1.chain.height = sameKeyWs.chain.height + 2 ∧
    verifyChain drvCrypto orderRun.1.cfg.registry orderRun.1.chain = none := by
  refine ⟨by decide +kernel, by decide +kernel, by decide +kernel, by decide +kernel⟩

end Neumann.Chain.Props
