import NeumannModel.Chain.Lemmas3
/-
  C16 — helper lemmas: the chain's transaction list is the concatenation of the operation lists of the workspaces
  whose commit succeeded (or that were merged into such a commit), each exactly once.
-/
namespace Neumann.Chain

def opsOf (wss : List Ws) (id : Nat) : List Tx :=
  match findWs wss id with
  | some ws => ws.ops
  | none => []

def stateOf (wss : List Ws) (id : Nat) : Option WsState := (findWs wss id).map (·.state)

/-- the workspace table: ids are distinct and below the next id to hand out -/
structure WssWF (n : Node) : Prop where
  nodup : (n.wss.map (·.id)).Nodup
  lt : ∀ x ∈ n.wss, x.id < n.nextId

theorem findWs_map (wss : List Ws) (g : Ws → Ws) (hid : ∀ x, (g x).id = x.id) (id : Nat) :
    findWs (wss.map g) id = (findWs wss id).map g := by
  unfold findWs
  induction wss with
  | nil => rfl
  | cons x r ih =>
    simp only [List.map_cons, List.find?_cons, hid]
    cases decide (x.id = id) with
    | true => rfl
    | false => exact ih

theorem findWs_mem (wss : List Ws) (id : Nat) (ws : Ws) (h : findWs wss id = some ws) : ws ∈ wss :=
  List.mem_of_find?_eq_some h

/-- with distinct ids, a member of the table is what `findWs` returns for its id -/
theorem findWs_of_mem : ∀ (wss : List Ws), (wss.map (·.id)).Nodup → ∀ x ∈ wss, findWs wss x.id = some x := by
  intro wss
  induction wss with
  | nil => intro _ x hx; cases hx
  | cons y r ih =>
    intro hnd x hx
    simp only [List.map_cons, List.nodup_cons] at hnd
    simp only [findWs, List.find?_cons]
    by_cases hy : y.id = x.id
    · simp only [hy, decide_true]
      rcases List.mem_cons.mp hx with h | h
      · rw [h]
      · exfalso
        exact hnd.1 (by rw [hy]; exact List.mem_map_of_mem h)
    · simp only [hy, decide_false]
      rcases List.mem_cons.mp hx with h | h
      · exact absurd (by rw [h]) hy
      · exact ih hnd.2 x h

theorem findWs_append_some (a b : List Ws) (id : Nat) (ws : Ws) (h : findWs a id = some ws) : findWs (a ++ b) id = some ws := by
  unfold findWs at *
  rw [List.find?_append, h]
  rfl

theorem setStates_ids (wss : List Ws) (ids : List Nat) (st : WsState) : (setStates wss ids st).map (·.id) = wss.map (·.id) := by
  unfold setStates
  rw [List.map_map]
  apply List.map_congr_left
  intro x _
  simp only [Function.comp]
  split <;> rfl

theorem updWs_ids (wss : List Ws) (w : Nat) (f : Ws → Ws) (hf : ∀ x, (f x).id = x.id) : (updWs wss w f).map (·.id) = wss.map (·.id) := by
  unfold updWs
  rw [List.map_map]
  apply List.map_congr_left
  intro x _
  simp only [Function.comp]
  split
  · exact hf x
  · rfl

theorem mem_setStates (wss : List Ws) (ids : List Nat) (st : WsState) (x : Ws) (h : x ∈ setStates wss ids st) :
    ∃ y ∈ wss, y.id = x.id ∧ y.ops = x.ops ∧ y.dir = x.dir ∧ (ids.contains y.id = false → x = y) := by
  unfold setStates at h
  obtain ⟨y, hy, rfl⟩ := List.mem_map.mp h
  refine ⟨y, hy, ?_⟩
  split
  · rename_i hc; exact ⟨rfl, rfl, rfl, fun h => by rw [hc] at h; cases h⟩
  · exact ⟨rfl, rfl, rfl, fun _ => rfl⟩

theorem opsOf_setStates (wss : List Ws) (ids : List Nat) (st : WsState) (id : Nat) :
    opsOf (setStates wss ids st) id = opsOf wss id := by
  unfold opsOf
  rw [findWs_setStates]
  cases findWs wss id with
  | none => rfl
  | some x => simp only [Option.map_some]; split <;> rfl

theorem stateOf_setStates (wss : List Ws) (ids : List Nat) (st : WsState) (id : Nat) :
    stateOf (setStates wss ids st) id =
      (stateOf wss id).map fun s => if ids.contains id then st else s := by
  unfold stateOf
  rw [findWs_setStates]
  cases h : findWs wss id with
  | none => rfl
  | some x =>
    have := findWs_id _ _ _ h
    simp only [Option.map_some, this]
    split <;> rfl

/-! ### the complete effect of one uninterrupted `commit` -/

theorem append_ok_chainTxs (C : Crypto) (reg : Option (List (List Nat × Nat))) (c c' : ChainSt) (txs : List Tx) (b : Block)
    (h : append C reg { c with store := applyTxs c.store txs } b = .ok c') :
    chainTxs c'.store c'.height = chainTxs c.store c.height ++ b.txs ∧ c'.height = c.height + 1 := by
  obtain ⟨_, _, _, _, hc'⟩ := append_ok_inv C _ _ _ _ h
  subst hc'
  simp only [chainTxs]
  have hold : ∀ j, j ≤ c.height →
      blockAt (sput (sput (applyTxs c.store txs) (.block (c.height + 1)) (.block (fixTxRoot C b))) .chainMeta
        (.height (c.height + 1))) j = blockAt c.store j := by
    intro j hj
    rw [blockAt_sput_ne _ _ _ _ (by simp), blockAt_sput_ne _ _ _ _ (by simp; omega), blockAt_applyTxs]
  rw [chainTxs_congr _ _ c.height hold, blockAt_sput_ne _ _ _ _ (by simp), blockAt_sput_same]
  simp only [fixTxRoot_txs, and_self]

/-- the five steps after the early checks -/
theorem pipeline_full (C : Crypto) (n : Node) (l : Local) (hpc : l.pc = .snapshot) :
    let r := commitRun C 7 n l
    r.1.nextId = n.nextId ∧ r.2.merged = l.merged ∧
    ((∃ h, r.2.res = some (.ok h)) ∧ r.1.wss = setStates n.wss (l.ws :: l.merged) .committed ∧
        chainTxs r.1.chain.store r.1.chain.height = chainTxs n.chain.store n.chain.height ++ l.ops
     ∨ (∀ h, r.2.res ≠ some (.ok h)) ∧ r.1.wss = setStates n.wss (l.ws :: l.merged) .failed ∧ r.1.chain = n.chain) := by
  intro r
  cases happ : append C n.cfg.registry { n.chain with store := applyTxs n.chain.store l.ops }
              (builtBlock C n l.ops l.dirs (stateRoot C (applyTxs n.chain.store l.ops)) l.ts) with
  | ok c' =>
    have htx := append_ok_chainTxs C _ n.chain c' l.ops _ happ
    simp only [r, commitRun, commitStep, hpc, builtBlock] at happ ⊢
    simp only [happ]
    refine ⟨by simp [finish], by simp, Or.inl ⟨⟨c'.height, by simp⟩, by simp [finish], ?_⟩⟩
    simpa [finish, builtBlock] using htx.1
  | error e =>
    simp only [r, commitRun, commitStep, hpc, builtBlock] at happ ⊢
    simp only [happ]
    exact ⟨by simp [finish], by simp, Or.inr ⟨by simp, by simp [finish], by simp [finish]⟩⟩

/-- the first step (early checks, marking, merge candidates), every branch spelled out -/
theorem prepare_full (C : Crypto) (n : Node) (w ts : Nat) (ws : Ws) (hws : findWs n.wss w = some ws) :
    let n1 : Node := { n with wss := setStates n.wss [ws.id] .committing }
    let cands := mergeCandidates n1 ws
    let ids := cands.map (·.id)
    let r := commitStep C n (Local.init w ts)
    (ws.state ≠ .active ∧ r.1 = n ∧ r.2.pc = .done ∧ ∀ h, r.2.res ≠ some (.ok h)) ∨
    (ws.state = .active ∧ r.2.pc = .done ∧ (∀ h, r.2.res ≠ some (.ok h)) ∧ r.1.chain = n.chain ∧ r.1.nextId = n.nextId ∧
      (r.1.wss = setStates n1.wss [ws.id] .committed ∨ r.1.wss = setStates n1.wss [ws.id] .failed ∨
       r.1.wss = setStates (setStates n1.wss ids .committing) (ws.id :: ids) .failed)) ∨
    (ws.state = .active ∧ r.2.pc = .snapshot ∧ r.1.chain = n.chain ∧ r.1.nextId = n.nextId ∧
      r.1.wss = setStates n1.wss ids .committing ∧
      r.2.ws = w ∧ r.2.merged = ids ∧ r.2.ops = ws.ops ++ cands.flatMap (·.ops)) := by
  intro n1 cands ids r
  simp only [r, commitStep, Local.init, hws]
  by_cases h1 : ws.state ≠ .active
  · left; simp [h1]
  · have hact : ws.state = .active := by simpa using h1
    right
    simp only [h1, if_false]
    by_cases h2 : ws.ops = []
    · left; simp [h2, hact, finish, n1]
    · simp only [h2, if_false]
      by_cases h3 : ws.ops.length > n.cfg.maxTxs
      · left; simp [h3, hact, finish, n1]
      · simp only [h3, if_false]
        by_cases h4 : hasConflict n1 ws = true
        · left
          have : hasConflict { n with wss := setStates n.wss [ws.id] .committing } ws = true := h4
          simp [this, hact, finish, n1]
        · have h4' : ¬ hasConflict { n with wss := setStates n.wss [ws.id] .committing } ws = true := h4
          simp only [h4', if_false]
          by_cases h5 : (ws.ops ++ (mergeCandidates { n with wss := setStates n.wss [ws.id] .committing } ws).flatMap (·.ops)).length > n.cfg.maxTxs
          · left
            rw [if_pos h5]
            exact ⟨hact, rfl, fun h => by simp, rfl, rfl, Or.inr (Or.inr rfl)⟩
          · right
            rw [if_neg h5]
            exact ⟨hact, rfl, rfl, rfl, rfl, rfl, rfl, rfl⟩

/-! ### merge candidates -/

theorem mergeCandidates_sublist (n1 : Node) (ws : Ws) : (mergeCandidates n1 ws).Sublist n1.wss := by
  unfold mergeCandidates
  split
  · exact ((List.take_sublist _ _).trans List.filter_sublist).trans List.filter_sublist
  · exact List.nil_sublist _

theorem mergeCandidates_mem (n1 : Node) (ws : Ws) (c : Ws) (hc : c ∈ mergeCandidates n1 ws) :
    c ∈ n1.wss ∧ c.id ≠ ws.id ∧ c.state = .active := by
  refine ⟨(mergeCandidates_sublist n1 ws).subset hc, ?_⟩
  unfold mergeCandidates at hc
  split at hc
  · have h1 := List.mem_of_mem_take hc
    have h2 := (List.mem_filter.mp h1).1
    unfold otherActive at h2
    have h3 := (List.mem_filter.mp h2).2
    simp only [decide_eq_true_eq] at h3
    exact ⟨h3.2.1, h3.2.2.1⟩
  · cases hc

/-! ### the ghost invariant: the chain's transactions are the operation lists of `order`, each once -/

structure LogInv (n : Node) (order : List Nat) : Prop where
  wf : WssWF n
  txs : chainTxs n.chain.store n.chain.height = order.flatMap (opsOf n.wss)
  nodup : order.Nodup
  committed : ∀ id ∈ order, stateOf n.wss id = some .committed

theorem flatMap_congr_mem {α β : Type} (l : List α) (f g : α → List β) (h : ∀ a ∈ l, f a = g a) : l.flatMap f = l.flatMap g := by
  induction l with
  | nil => rfl
  | cons a r ih =>
    simp only [List.flatMap_cons]
    rw [h a (List.mem_cons_self ..), ih (fun x hx => h x (List.mem_cons_of_mem _ hx))]

theorem wssWF_of_ids (n n' : Node) (h : WssWF n) (hids : n'.wss.map (·.id) = n.wss.map (·.id)) (hnext : n'.nextId = n.nextId) :
    WssWF n' := by
  refine ⟨by rw [hids]; exact h.nodup, ?_⟩
  intro x hx
  have : x.id ∈ n'.wss.map (·.id) := List.mem_map_of_mem hx
  rw [hids] at this
  obtain ⟨y, hy, hyx⟩ := List.mem_map.mp this
  rw [hnext, ← hyx]
  exact h.lt y hy

/-- a change of the table that keeps ids, keeps the chain's transactions and leaves committed workspaces alone -/
theorem logInv_frame (n n' : Node) (order : List Nat) (h : LogInv n order)
    (hids : n'.wss.map (·.id) = n.wss.map (·.id)) (hnext : n'.nextId = n.nextId)
    (hch : chainTxs n'.chain.store n'.chain.height = chainTxs n.chain.store n.chain.height)
    (hfr : ∀ id, stateOf n.wss id = some .committed →
      opsOf n'.wss id = opsOf n.wss id ∧ stateOf n'.wss id = some .committed) :
    LogInv n' order := by
  refine ⟨wssWF_of_ids n n' h.wf hids hnext, ?_, h.nodup, fun id hid => (hfr id (h.committed id hid)).2⟩
  rw [hch, h.txs]
  exact flatMap_congr_mem _ _ _ (fun id hid => ((hfr id (h.committed id hid)).1).symm)

/-- a pointwise change `g` of the table that keeps id and touches no committed workspace's ops / state -/
theorem frame_of_map (wss : List Ws) (g : Ws → Ws) (hid : ∀ x, (g x).id = x.id)
    (hg : ∀ x ∈ wss, x.state = .committed → (g x).ops = x.ops ∧ (g x).state = .committed) (id : Nat)
    (hc : stateOf wss id = some .committed) :
    opsOf (wss.map g) id = opsOf wss id ∧ stateOf (wss.map g) id = some .committed := by
  unfold stateOf opsOf at *
  rw [findWs_map wss g hid]
  cases hf : findWs wss id with
  | none => simp [hf] at hc
  | some x =>
    simp only [hf, Option.map_some, Option.some.injEq] at hc ⊢
    have := hg x (findWs_mem _ _ _ hf) hc
    exact ⟨this.1, this.2⟩

theorem updWs_eq_map (wss : List Ws) (w : Nat) (f : Ws → Ws) : updWs wss w f = wss.map fun x => if x.id = w then f x else x := rfl

theorem setStates_eq_map (wss : List Ws) (ids : List Nat) (st : WsState) :
    setStates wss ids st = wss.map fun x => if ids.contains x.id then { x with state := st } else x := rfl

/-! ### every client call keeps the ghost invariant -/

theorem stateOf_some {wss : List Ws} {id : Nat} {st : WsState} (h : stateOf wss id = some st) :
    ∃ x, findWs wss id = some x ∧ x.state = st := by
  unfold stateOf at h
  cases hf : findWs wss id with
  | none => simp [hf] at h
  | some x => exact ⟨x, rfl, by simpa [hf] using h⟩

theorem logInv_begin (n : Node) (order : List Nat) (h : LogInv n order) : LogInv (beginWs n) order := by
  have keep : ∀ id, stateOf n.wss id = some .committed →
      findWs (n.wss ++ [{ id := n.nextId, snap := n.chain.store, ops := [], state := .active, dir := 0 }]) id = findWs n.wss id := by
    intro id hc
    obtain ⟨x, hx, _⟩ := stateOf_some hc
    rw [hx]; exact findWs_append_some _ _ _ _ hx
  refine ⟨⟨?_, ?_⟩, ?_, h.nodup, ?_⟩
  · simp only [beginWs, List.map_append, List.map_cons, List.map_nil]
    rw [List.nodup_append]
    refine ⟨h.wf.nodup, by simp, ?_⟩
    intro a ha b hb
    simp only [List.mem_singleton] at hb
    obtain ⟨y, hy, rfl⟩ := List.mem_map.mp ha
    have := h.wf.lt y hy
    omega
  · intro x hx
    simp only [beginWs, List.mem_append, List.mem_singleton] at hx ⊢
    rcases hx with hx | hx
    · have := h.wf.lt x hx; omega
    · rw [hx]; simp
  · simp only [beginWs]
    rw [h.txs]
    exact flatMap_congr_mem _ _ _ (fun id hid => by unfold opsOf; rw [keep id (h.committed id hid)])
  · intro id hid
    simp only [beginWs]
    unfold stateOf
    rw [keep id (h.committed id hid)]
    exact h.committed id hid

theorem logInv_addOp (n : Node) (order : List Nat) (w : Nat) (t : Tx) (h : LogInv n order) : LogInv (addOp n w t).1 order := by
  unfold addOp
  cases hf : findWs n.wss w with
  | none => exact h
  | some ws =>
    simp only
    split
    · rename_i hact
      refine logInv_frame n _ order h (updWs_ids _ _ _ (fun x => rfl)) rfl rfl ?_
      intro id hc
      rw [updWs_eq_map]
      refine frame_of_map n.wss _ (fun x => by split <;> rfl) ?_ id hc
      intro x hx hxc
      have hxw : x.id ≠ w := by
        intro hxw
        have := findWs_of_mem n.wss h.wf.nodup x hx
        rw [hxw, hf] at this
        cases this
        rw [hact] at hxc; cases hxc
      rw [if_neg hxw]
      exact ⟨rfl, hxc⟩
    · exact h

theorem logInv_setDir (n : Node) (order : List Nat) (w d : Nat) (h : LogInv n order) : LogInv (setDir n w d) order := by
  refine logInv_frame n _ order h (updWs_ids _ _ _ (fun x => rfl)) rfl rfl ?_
  intro id hc
  simp only [setDir]
  rw [updWs_eq_map]
  refine frame_of_map n.wss _ (fun x => by split <;> rfl) ?_ id hc
  intro x _ hxc
  split <;> exact ⟨rfl, hxc⟩

/-- `rollback` with the side condition of sequential histories (the checkpoint is still the current store) -/
theorem logInv_rollback (n : Node) (order : List Nat) (w : Nat) (h : LogInv n order)
    (hok : ∀ ws, findWs n.wss w = some ws → ws.state = .committed ∨ ws.snap = n.chain.store) :
    LogInv (rollbackWs n w).1 order := by
  unfold rollbackWs
  cases hf : findWs n.wss w with
  | none => exact h
  | some ws =>
    simp only
    split
    · exact h
    · rename_i hst
      have hs : ws.snap = n.chain.store := by
        rcases hok ws hf with h' | h'
        · exact absurd h' hst
        · exact h'
      refine logInv_frame n _ order h (updWs_ids _ _ _ (fun x => rfl)) rfl (by simp [hs]) ?_
      intro id hc
      rw [updWs_eq_map]
      refine frame_of_map n.wss _ (fun x => by split <;> rfl) ?_ id hc
      intro x hx hxc
      have hxw : x.id ≠ w := by
        intro hxw
        have := findWs_of_mem n.wss h.wf.nodup x hx
        rw [hxw, hf] at this
        cases this
        exact hst hxc
      rw [if_neg hxw]
      exact ⟨rfl, hxc⟩

/-! ### `commit` keeps the ghost invariant, the ids of a successful commit are appended -/

theorem stateOf_setStates_not_mem (wss : List Ws) (ids : List Nat) (st : WsState) (id : Nat) (h : id ∉ ids) :
    stateOf (setStates wss ids st) id = stateOf wss id := by
  rw [stateOf_setStates]
  cases stateOf wss id with
  | none => rfl
  | some s => simp [h]

theorem stateOf_setStates_mem (wss : List Ws) (ids : List Nat) (st : WsState) (id : Nat) (h : id ∈ ids) (s : WsState)
    (hs : stateOf wss id = some s) : stateOf (setStates wss ids st) id = some st := by
  rw [stateOf_setStates, hs]
  simp [h]

/-- the ids `commit` reports as having entered the chain: the workspace and the workspaces merged into its block -/
def commitIds (C : Crypto) (n : Node) (w ts : Nat) : List Nat :=
  match (commit C n w ts).2.res with
  | some (.ok _) => w :: (commit C n w ts).2.merged
  | _ => []

theorem commitIds_of_not_ok (C : Crypto) (n : Node) (w ts : Nat) (h : ∀ x, (commit C n w ts).2.res ≠ some (.ok x)) :
    commitIds C n w ts = [] := by
  unfold commitIds
  split
  · rename_i x hx; exact absurd hx (h x)
  · rfl

/-- merge candidates are workspaces of the table (found under their id), active, and different from the committing one -/
theorem cands_in_table (n : Node) (hwf : WssWF n) (ws c : Ws)
    (hc : c ∈ mergeCandidates { n with wss := setStates n.wss [ws.id] .committing } ws) :
    findWs n.wss c.id = some c ∧ c.state = .active ∧ c.id ≠ ws.id := by
  obtain ⟨hmem, hne, hact⟩ := mergeCandidates_mem _ ws c hc
  obtain ⟨y, hy, hyid, _, _, hsame⟩ := mem_setStates _ _ _ _ hmem
  have : c = y := hsame (by simp; rw [hyid]; exact hne)
  subst this
  exact ⟨findWs_of_mem n.wss hwf.nodup c hy, hact, hne⟩

theorem cand_ids_nodup (n : Node) (hwf : WssWF n) (ws : Ws) :
    ((mergeCandidates { n with wss := setStates n.wss [ws.id] .committing } ws).map (·.id)).Nodup := by
  have hsub := (mergeCandidates_sublist { n with wss := setStates n.wss [ws.id] .committing } ws).map (·.id)
  simp only [setStates_ids] at hsub
  exact hwf.nodup.sublist hsub

theorem commit_split (C : Crypto) (n : Node) (w ts : Nat) :
    commit C n w ts = commitRun C 7 (commitStep C n (Local.init w ts)).1 (commitStep C n (Local.init w ts)).2 := by
  simp [commit, commitRun, Local.init]

theorem logInv_commit (C : Crypto) (n : Node) (order : List Nat) (w ts : Nat) (h : LogInv n order) :
    LogInv (commit C n w ts).1 (order ++ commitIds C n w ts) := by
  cases hf : findWs n.wss w with
  | none =>
    have h1 : (commit C n w ts).1 = n := by simp [commit, commitRun, commitStep, Local.init, hf]
    have h2 : ∀ x, (commit C n w ts).2.res ≠ some (.ok x) := by simp [commit, commitRun, commitStep, Local.init, hf]
    rw [commitIds_of_not_ok C n w ts h2, List.append_nil, h1]; exact h
  | some ws =>
    have hid : ws.id = w := findWs_id _ _ _ hf
    have hsplit := commit_split C n w ts
    have hprep := prepare_full C n w ts ws hf
    simp only at hprep
    generalize commitStep C n (Local.init w ts) = q at hsplit hprep
    obtain ⟨n1, l1⟩ := q
    simp only at hsplit hprep
    -- facts about the candidates
    have hcand := cands_in_table n h.wf ws
    have hcnd := cand_ids_nodup n h.wf ws
    generalize hcs : mergeCandidates { n with wss := setStates n.wss [ws.id] .committing } ws = cands at hprep hcand hcnd
    have hw_state : stateOf n.wss w = some ws.state := by simp [stateOf, hf]
    -- a committed id is neither `w` (when `ws` is active) nor a candidate
    have notTouched : ws.state = .active → ∀ id, stateOf n.wss id = some .committed → id ∉ [ws.id] ∧ id ∉ cands.map (·.id) ∧ id ∉ ws.id :: cands.map (·.id) := by
      intro hact id hc
      have h1 : id ≠ ws.id := by
        intro he; rw [he, hid, hw_state, hact] at hc; cases hc
      have h2 : id ∉ cands.map (·.id) := by
        intro hm
        obtain ⟨c, hcm, rfl⟩ := List.mem_map.mp hm
        obtain ⟨hfc, hca, _⟩ := hcand c hcm
        simp [stateOf, hfc, hca] at hc
      exact ⟨by simpa using h1, h2, by simp [h1, h2]⟩
    -- not-ok outcomes whose table is a composition of `setStates` over touched ids
    have frame : ∀ (wss' : List Ws), ws.state = .active → wss'.map (·.id) = n.wss.map (·.id) →
        (∀ id, opsOf wss' id = opsOf n.wss id) →
        (∀ id, id ∉ ws.id :: cands.map (·.id) → stateOf wss' id = stateOf n.wss id) →
        ∀ n' : Node, n'.wss = wss' → n'.nextId = n.nextId → n'.chain = n.chain → LogInv n' order := by
      intro wss' hact hids hops hst n' hw' hnx hch
      refine logInv_frame n n' order h (by rw [hw']; exact hids) hnx (by rw [hch]) ?_
      intro id hc
      rw [hw']
      exact ⟨hops id, by rw [hst id (notTouched hact id hc).2.2]; exact hc⟩
    rcases hprep with ⟨_, h1, hpc, hno⟩ | ⟨hact, hpc, hno, hch, hnx, hwss⟩ | ⟨hact, hpc, hch, hnx, hwss, hlw, hlm, hlo⟩
    · -- not active: nothing happens
      have hc : commit C n w ts = (n1, l1) := by rw [hsplit]; simp [commitRun, hpc]
      rw [commitIds_of_not_ok C n w ts (by rw [hc]; exact hno), List.append_nil, hc, h1]; exact h
    · -- early exit
      have hc : commit C n w ts = (n1, l1) := by rw [hsplit]; simp [commitRun, hpc]
      rw [commitIds_of_not_ok C n w ts (by rw [hc]; exact hno), List.append_nil, hc]
      rcases hwss with hw' | hw' | hw'
      · refine frame _ hact (by simp [setStates_ids]) (fun id => by simp [opsOf_setStates]) ?_ n1 hw' hnx hch
        intro id hnot
        simp only [List.mem_cons, not_or] at hnot
        rw [stateOf_setStates_not_mem _ _ _ _ (by simpa using hnot.1), stateOf_setStates_not_mem _ _ _ _ (by simpa using hnot.1)]
      · refine frame _ hact (by simp [setStates_ids]) (fun id => by simp [opsOf_setStates]) ?_ n1 hw' hnx hch
        intro id hnot
        simp only [List.mem_cons, not_or] at hnot
        rw [stateOf_setStates_not_mem _ _ _ _ (by simpa using hnot.1), stateOf_setStates_not_mem _ _ _ _ (by simpa using hnot.1)]
      · refine frame _ hact (by simp [setStates_ids]) (fun id => by simp [opsOf_setStates]) ?_ n1 hw' hnx hch
        intro id hnot
        have hnot' := hnot
        simp only [List.mem_cons, not_or] at hnot
        rw [stateOf_setStates_not_mem _ _ _ _ hnot', stateOf_setStates_not_mem _ _ _ _ hnot.2,
          stateOf_setStates_not_mem _ _ _ _ (by simpa using hnot.1)]
    · -- the five steps after the early checks
      obtain ⟨hnx2, hmerged, hcase⟩ := pipeline_full C n1 l1 hpc
      rw [hsplit]
      have hids3 : (setStates n1.wss (l1.ws :: l1.merged) WsState.committed).map (·.id) = n.wss.map (·.id) := by
        rw [setStates_ids, hwss]; simp [setStates_ids]
      rcases hcase with ⟨⟨x, hx⟩, hw', htx⟩ | ⟨hno, hw', hch'⟩
      · -- success: `w` and the merged ids enter the chain
        have hci : commitIds C n w ts = w :: cands.map (·.id) := by
          unfold commitIds
          rw [hsplit, hx]
          simp only [hmerged, hlm]
        rw [hci]
        have hops : ∀ id, opsOf (commitRun C 7 n1 l1).1.wss id = opsOf n.wss id := by
          intro id; rw [hw', hwss]; simp [opsOf_setStates]
        refine ⟨wssWF_of_ids n _ h.wf (by rw [hw']; exact hids3) (by rw [hnx2, hnx]), ?_, ?_, ?_⟩
        · rw [htx, hch, h.txs, hlo, List.flatMap_append, List.flatMap_cons]
          rw [flatMap_congr_mem order _ _ (fun id _ => hops id), hops w]
          have : opsOf n.wss w = ws.ops := by simp [opsOf, hf]
          rw [this, List.flatMap_map]
          congr 2
          exact flatMap_congr_mem _ _ _ (fun c hc => by
            rw [hops]; simp [opsOf, (hcand c hc).1])
        · rw [List.nodup_append]
          refine ⟨h.nodup, ?_, ?_⟩
          · rw [List.nodup_cons]
            refine ⟨?_, hcnd⟩
            intro hm
            obtain ⟨c, hcm, hce⟩ := List.mem_map.mp hm
            exact (hcand c hcm).2.2 (by rw [hce, hid])
          · intro a ha b hb hab
            subst hab
            have := (notTouched hact a (h.committed a ha)).2.2
            rw [hid] at this
            exact this hb
        · intro id hidm
          rw [hw', hwss, hlw, hlm]
          rcases List.mem_append.mp hidm with ho | ht
          · have hc := h.committed id ho
            have hnt := notTouched hact id hc
            rw [← hid]
            rw [stateOf_setStates_not_mem _ _ _ _ hnt.2.2, stateOf_setStates_not_mem _ _ _ _ hnt.2.1,
              stateOf_setStates_not_mem _ _ _ _ hnt.1]
            exact hc
          · -- a touched id: it is in the table, so the last `setStates` makes it committed
            have hin : ∃ s, stateOf n.wss id = some s := by
              rcases List.mem_cons.mp ht with he | hm
              · exact ⟨_, by rw [he]; exact hw_state⟩
              · obtain ⟨c, hcm, rfl⟩ := List.mem_map.mp hm
                exact ⟨c.state, by simp [stateOf, (hcand c hcm).1]⟩
            obtain ⟨s, hs⟩ := hin
            have h1 : ∃ s1, stateOf (setStates n.wss [ws.id] .committing) id = some s1 := by
              rw [stateOf_setStates, hs]; exact ⟨_, rfl⟩
            obtain ⟨s1, hs1⟩ := h1
            have h2 : ∃ s2, stateOf (setStates (setStates n.wss [ws.id] .committing) (cands.map (·.id)) .committing) id = some s2 := by
              rw [stateOf_setStates, hs1]; exact ⟨_, rfl⟩
            obtain ⟨s2, hs2⟩ := h2
            exact stateOf_setStates_mem _ _ _ _ ht s2 hs2
      · -- late failure: the workspaces end `Failed`, the chain is untouched
        rw [commitIds_of_not_ok C n w ts (by rw [hsplit]; exact hno), List.append_nil]
        refine frame _ hact (by rw [setStates_ids, hwss]; simp [setStates_ids]) (fun id => by rw [hwss]; simp [opsOf_setStates]) ?_ _ hw'
          (by rw [hnx2, hnx]) (by rw [hch', hch])
        intro id hnot
        have hnot' := hnot
        simp only [List.mem_cons, not_or] at hnot
        rw [hwss, hlw, hlm, ← hid, stateOf_setStates_not_mem _ _ _ _ hnot', stateOf_setStates_not_mem _ _ _ _ hnot.2,
          stateOf_setStates_not_mem _ _ _ _ (by simpa using hnot.1)]

end Neumann.Chain
