import NeumannModel.Chain.Lemmas2
/-
  C16 — helper lemmas: chain validity under arbitrary interleavings of commit calls as long as no call fails late.
-/
namespace Neumann.Chain

/-- facts about the thread-local variables of one `commit` call that hold at every step of every interleaving:
    its clock reading is `ts`; a block it has built carries that timestamp, a matching transaction root and a
    signature that verifies under the node's registered key; a call whose result is an append failure has returned -/
structure LocalWF (C : Crypto) (cfg : Config) (ts : Nat) (l : Local) : Prop where
  hts : l.ts = ts
  hblock : ∀ b, l.block = some b → b.header.timestamp = ts ∧ b.header.txRoot = txRoot C b.txs ∧
    regSigOk C cfg.registry b.header = true
  hfailed : ∀ e, l.res = some (.appendFailed e) → l.pc = .done

def Local.lateFailed (l : Local) : Prop := ∃ e, l.res = some (.appendFailed e)

/-- the chain is healthy: invariant and the tip is not younger than the calls' clock reading -/
def Healthy (C : Crypto) (cfg : Config) (ts : Nat) (c : ChainSt) : Prop :=
  Inv C cfg.registry c ∧ ∀ t, blockAt c.store c.height = some t → t.header.timestamp ≤ ts

theorem localWF_init (C : Crypto) (cfg : Config) (ts w : Nat) : LocalWF C cfg ts (Local.init w ts) :=
  ⟨rfl, fun b h => by simp [Local.init] at h, fun e h => by simp [Local.init] at h⟩

/-- one atomic step keeps a call well-formed (whatever the state of the chain) -/
theorem commitStep_wf (C : Crypto) (hsc : SignCorrect C) (cfg : Config)
    (hreg : ∀ r, cfg.registry = some r → regLookup r cfg.nodeId = some cfg.key)
    (ts : Nat) (n : Node) (l : Local) (hcfg : n.cfg = cfg) (hw : LocalWF C cfg ts l) :
    LocalWF C cfg ts (commitStep C n l).2 := by
  cases hpc : l.pc with
  | done => rw [commitStep_done C n l hpc]; exact hw
  | prepare =>
    have hres : ∀ e, l.res ≠ some (.appendFailed e) := fun e he => by
      have := hw.hfailed e he; rw [hpc] at this; cases this
    simp only [commitStep, hpc]
    cases findWs n.wss l.ws with
    | none => exact ⟨hw.hts, hw.hblock, fun e h => rfl⟩
    | some ws =>
      simp only
      (repeat' split) <;>
        first
        | exact ⟨hw.hts, hw.hblock, fun e h => rfl⟩
        | exact ⟨hw.hts, hw.hblock, fun e h => absurd h (hres e)⟩
  | snapshot =>
    have hres : ∀ e, l.res ≠ some (.appendFailed e) := fun e he => by
      have := hw.hfailed e he; rw [hpc] at this; cases this
    simp only [commitStep, hpc]
    exact ⟨hw.hts, hw.hblock, fun e h => absurd h (hres e)⟩
  | apply =>
    have hres : ∀ e, l.res ≠ some (.appendFailed e) := fun e he => by
      have := hw.hfailed e he; rw [hpc] at this; cases this
    simp only [commitStep, hpc]
    exact ⟨hw.hts, hw.hblock, fun e h => absurd h (hres e)⟩
  | root =>
    have hres : ∀ e, l.res ≠ some (.appendFailed e) := fun e he => by
      have := hw.hfailed e he; rw [hpc] at this; cases this
    simp only [commitStep, hpc]
    exact ⟨hw.hts, hw.hblock, fun e h => absurd h (hres e)⟩
  | build =>
    have hres : ∀ e, l.res ≠ some (.appendFailed e) := fun e he => by
      have := hw.hfailed e he; rw [hpc] at this; cases this
    simp only [commitStep, hpc]
    refine ⟨hw.hts, ?_, fun e h => absurd h (hres e)⟩
    intro b hb
    simp only [Option.some.injEq] at hb
    subst hb
    refine ⟨hw.hts, rfl, ?_⟩
    have := builtBlock_sigOk C n l.ops l.dirs l.root l.ts hsc (by rw [hcfg]; exact hreg)
    rw [fixTxRoot_of_root C _ rfl, hcfg] at this
    exact this
  | append =>
    have hres : ∀ e, l.res ≠ some (.appendFailed e) := fun e he => by
      have := hw.hfailed e he; rw [hpc] at this; cases this
    simp only [commitStep, hpc]
    cases hb : l.block with
    | none => exact ⟨hw.hts, by intro b h; simp at h, fun e h => rfl⟩
    | some b =>
      simp only
      cases append C n.cfg.registry n.chain b with
      | ok c' => exact ⟨hw.hts, by rw [← hb]; exact hw.hblock, fun e h => rfl⟩
      | error e => exact ⟨hw.hts, by rw [← hb]; exact hw.hblock, fun e' h => absurd h (hres e')⟩
  | restore =>
    simp only [commitStep, hpc]
    exact ⟨hw.hts, hw.hblock, fun e h => rfl⟩

/-- one atomic step of a well-formed call on a healthy chain: the call stays well-formed, the configuration is
    unchanged, and the chain stays healthy unless this very step is the restore of a late failure -/
theorem commitStep_healthy (C : Crypto) (hsc : SignCorrect C) (cfg : Config)
    (hreg : ∀ r, cfg.registry = some r → regLookup r cfg.nodeId = some cfg.key)
    (ts : Nat) (n : Node) (l : Local) (hcfg : n.cfg = cfg) (hw : LocalWF C cfg ts l) (hh : Healthy C cfg ts n.chain) :
    LocalWF C cfg ts (commitStep C n l).2 ∧ (commitStep C n l).1.cfg = cfg ∧
    (Healthy C cfg ts (commitStep C n l).1.chain ∨ (commitStep C n l).2.lateFailed) := by
  refine ⟨commitStep_wf C hsc cfg hreg ts n l hcfg hw, by rw [commitStep_cfg]; exact hcfg, ?_⟩
  · -- health
    obtain ⟨hinv, htip⟩ := hh
    cases hpc : l.pc with
    | done => rw [commitStep_done C n l hpc]; exact Or.inl ⟨hinv, htip⟩
    | prepare =>
      left
      simp only [commitStep, hpc]
      cases findWs n.wss l.ws with
      | none => exact ⟨hinv, htip⟩
      | some ws =>
        simp only
        (repeat' split) <;> exact ⟨hinv, htip⟩
    | snapshot => left; simp only [commitStep, hpc]; exact ⟨hinv, htip⟩
    | root => left; simp only [commitStep, hpc]; exact ⟨hinv, htip⟩
    | build => left; simp only [commitStep, hpc]; exact ⟨hinv, htip⟩
    | apply =>
      left
      simp only [commitStep, hpc]
      refine ⟨inv_store_congr C _ n.chain _ (fun j => blockAt_applyTxs _ _ j) hinv, ?_⟩
      intro t ht
      simp only [blockAt_applyTxs] at ht
      exact htip t ht
    | restore =>
      right
      simp only [commitStep, hpc]
      exact ⟨_, rfl⟩
    | append =>
      left
      simp only [commitStep, hpc]
      cases hb : l.block with
      | none => exact ⟨hinv, htip⟩
      | some b =>
        simp only
        obtain ⟨hbts, hbroot, hbsig⟩ := hw.hblock b hb
        have hfix : fixTxRoot C b = b := fixTxRoot_of_root C b hbroot
        cases happ : append C n.cfg.registry n.chain b with
        | error e => exact ⟨hinv, htip⟩
        | ok c' =>
          simp only [finish_chain]
          rw [hcfg] at happ
          refine ⟨inv_append C cfg.registry n.chain c' b hinv happ ?_ ?_, ?_⟩
          · intro t ht; rw [hbts]; exact htip t ht
          · intro _; rw [hfix]; exact hbsig
          · obtain ⟨_, _, _, _, hc'⟩ := append_ok_inv C _ _ _ _ happ
            intro t ht
            rw [hc', hfix] at ht
            simp only at ht
            rw [blockAt_sput_ne _ _ _ _ (by simp), blockAt_sput_same] at ht
            cases ht
            omega

theorem mem_setNth_keep {α : Type} : ∀ (ls : List α) (i : Nat) (a x : α), x ∈ ls →
    x ∈ setNth ls i a ∨ ls[i]? = some x
  | [], _, _, _, h => by cases h
  | y :: r, 0, a, x, h => by
    simp only [List.mem_cons] at h
    rcases h with h | h
    · right; simp [h]
    · left; simp [setNth, h]
  | y :: r, i + 1, a, x, h => by
    simp only [List.mem_cons] at h
    rcases h with h | h
    · left; simp [setNth, h]
    · rcases mem_setNth_keep r i a x h with h' | h'
      · left; simp [setNth, h']
      · right; simpa using h'

theorem mem_setNth_self {α : Type} : ∀ (ls : List α) (i : Nat) (a x : α), ls[i]? = some x → a ∈ setNth ls i a
  | [], _, _, _, h => by simp at h
  | y :: r, 0, a, x, _ => by simp [setNth]
  | y :: r, i + 1, a, x, h => by
    simp only [setNth, List.mem_cons]
    right
    exact mem_setNth_self r i a x (by simpa using h)

/-- for every interleaving: the configuration is unchanged, every call stays well-formed, and the chain is healthy
    unless some call has failed late -/
theorem runSched_healthy (C : Crypto) (hsc : SignCorrect C) (cfg : Config)
    (hreg : ∀ r, cfg.registry = some r → regLookup r cfg.nodeId = some cfg.key) (ts : Nat) :
    ∀ (sched : List Nat) (n : Node) (ls : List Local), n.cfg = cfg → (∀ l ∈ ls, LocalWF C cfg ts l) →
      (Healthy C cfg ts n.chain ∨ ∃ l ∈ ls, l.lateFailed) →
      (runSched C sched n ls).1.cfg = cfg ∧
      (Healthy C cfg ts (runSched C sched n ls).1.chain ∨ ∃ l ∈ (runSched C sched n ls).2, l.lateFailed) := by
  intro sched
  induction sched with
  | nil => intro n ls h1 _ h3; exact ⟨h1, h3⟩
  | cons i sched ih =>
    intro n ls h1 h2 h3
    simp only [runSched]
    cases hl : ls[i]? with
    | none => exact ih n ls h1 h2 h3
    | some l =>
      simp only
      have hmem : l ∈ ls := List.mem_of_getElem? hl
      rcases h3 with hh | ⟨l0, hl0, hf0⟩
      · obtain ⟨hw', hc', hh'⟩ := commitStep_healthy C hsc cfg hreg ts n l h1 (h2 l hmem) hh
        refine ih _ _ hc' ?_ ?_
        · intro x hx
          rcases mem_setNth _ _ _ _ hx with hx | hx
          · exact h2 x hx
          · rw [hx]; exact hw'
        · rcases hh' with hh' | hf'
          · exact Or.inl hh'
          · exact Or.inr ⟨_, mem_setNth_self ls i _ l hl, hf'⟩
      · -- some call has already failed late: it has returned, so it stays in the list unchanged
        have hwl : LocalWF C cfg ts l := h2 l hmem
        have hstep : LocalWF C cfg ts (commitStep C n l).2 ∧ (commitStep C n l).1.cfg = cfg := by
          refine ⟨?_, by rw [commitStep_cfg]; exact h1⟩
          exact commitStep_wf C hsc cfg hreg ts n l h1 hwl
        refine ih _ _ hstep.2 ?_ (Or.inr ?_)
        · intro x hx
          rcases mem_setNth _ _ _ _ hx with hx | hx
          · exact h2 x hx
          · rw [hx]; exact hstep.1
        · rcases mem_setNth_keep ls i (commitStep C n l).2 l0 hl0 with hk | hk
          · exact ⟨l0, hk, hf0⟩
          · -- the failed call is the one scheduled: it has returned, the step changes nothing
            rw [hl] at hk
            cases hk
            obtain ⟨e, he⟩ := hf0
            have hd := hwl.hfailed e he
            rw [commitStep_done C n l hd]
            exact ⟨l, by rw [setNth_self ls i l hl]; exact hmem, ⟨e, he⟩⟩

end Neumann.Chain
